import Upa.Proofs.ParseRepAppend
import Upa.Proofs.ParseRepNoBase
/-
  Helpers for C05e, part 6: the states that read the base URL (`append_parts`, `set_scheme(base)`,
  `get_path_first_string`), for any representation `rb` of the base record `b`.
-/
set_option linter.unusedSimpArgs false
set_option linter.unusedVariables false

namespace Upa.Proofs.ParseRep
open Upa Upa.Impl Upa.Proofs.C05 Upa.Proofs.SetRep Upa.Proofs.SetRepApi Upa.Props

/-- what the parser needs of a base record: the invariants of C05d, and a file URL has no port
    (`Norm` of C02 — every parsed URL — implies all four) -/
def BaseOk (b : Url) : Prop :=
  RepOk b ∧ HostInv b ∧ RecShape b ∧ (b.isFile = true → b.port = none)

instance (b : Url) : Decidable (BaseOk b) := by unfold BaseOk; infer_instance

/-- a representation of the base, presented by segments -/
theorem base_present {rb : Rep} {b : Url} (ok : BaseOk b) (h : RepFor rb b) :
    ∃ B, Rp (segsOf b) B ∧ rb = mkRep (layout b) B :=
  (repFor_iff b ok.1.1 rb).mp h

theorem BaseOk.special_list {b : Url} (ok : BaseOk b) (hs : b.isSpecial = true) : b.hasOpaquePath = false := by
  cases ho : b.hasOpaquePath with
  | false => rfl
  | true =>
    have h1 := ok.1.2.2 ho
    have h2 := ok.2.1 hs
    simp [h1] at h2

theorem isFile_scheme {b : Url} (h : b.isFile = true) : b.scheme = sFile := by
  unfold Url.isFile isFileScheme at h
  exact eq_of_beq h

/-! ### list lemmas: the copied segments in terms of the record's segments -/

theorem Rp.take_drop {S B : List (List Nat)} (h : Rp S B) (i k : Nat) (hk : i + k ≤ B.length) :
    (B.drop i).take k = (S.drop i).take k := by
  rw [h.pad, List.drop_append_of_le_length (by omega), List.take_append_of_le_length (by simp; omega)]

theorem Rp.getD {S B : List (List Nat)} (h : Rp S B) (i : Nat) (hi : i < B.length) :
    B.getD i [] = S.getD i [] := by
  rw [h.pad, List.getD_eq_getElem?_getD, List.getD_eq_getElem?_getD, List.getElem?_append_left hi]

/-- the segments `X ++ S[ifirst .. t2]` (the later ones empty) are presented by `X ++ B[ifirst .. ilast]` -/
theorem Rp_copy {S B : List (List Nat)} (h : Rp S B) (X : List (List Nat)) (ifirst t2 : Nat)
    (hX : X.length = ifirst) (hposX : 0 < off X 1) (h1 : 1 ≤ ifirst) (hle : ifirst ≤ t2) (hlt : ifirst < B.length)
    (ht2 : t2 ≤ 10) (h6 : 6 ≤ min (t2 + 1) B.length) :
    Rp (X ++ (S.drop ifirst).take (t2 + 1 - ifirst) ++ List.replicate (10 - t2) [])
      (X ++ (B.drop ifirst).take (min (t2 + 1) B.length - 1 - ifirst) ++
        [B.getD (min (t2 + 1) B.length - 1) []]) := by
  have hhi := h.hi
  have hlenS := h.lenS
  have hA : X ++ (B.drop ifirst).take (min (t2 + 1) B.length - 1 - ifirst) ++
      [B.getD (min (t2 + 1) B.length - 1) []] = X ++ (B.drop ifirst).take (min (t2 + 1) B.length - ifirst) := by
    have e : min (t2 + 1) B.length - ifirst = (min (t2 + 1) B.length - 1 - ifirst) + 1 := by omega
    rw [e, List.take_add_one, List.append_assoc]
    congr 2
    rw [List.getD_eq_getElem?_getD, List.getElem?_drop]
    have e2 : ifirst + (min (t2 + 1) B.length - 1 - ifirst) = min (t2 + 1) B.length - 1 := by omega
    rw [e2]
    have hi : min (t2 + 1) B.length - 1 < B.length := by omega
    rw [List.getElem?_eq_getElem hi]
    simp
  rw [hA]
  have hS : (S.drop ifirst).take (t2 + 1 - ifirst) =
      (B.drop ifirst).take (min (t2 + 1) B.length - ifirst) ++
        List.replicate (t2 + 1 - min (t2 + 1) B.length) [] := by
    rw [h.pad, List.drop_append_of_le_length (by omega), List.take_append, List.take_replicate]
    congr 1
    · by_cases hc : t2 + 1 ≤ B.length
      · have : min (t2 + 1) B.length = t2 + 1 := by omega
        rw [this]
      · have : min (t2 + 1) B.length = B.length := by omega
        rw [this, List.take_of_length_le (by simp; omega), List.take_of_length_le (by simp)]
    · simp only [List.length_drop]
      congr 1
      omega
  refine ⟨?_, ?_, ?_, ?_, ?_⟩
  · simp [hlenS, hX]; omega
  · simp [hX]; omega
  · simp [hX]; omega
  · rw [hS]
    simp only [List.append_assoc, List.replicate_append_replicate]
    congr 3
    simp only [List.length_append, List.length_take, List.length_drop, hX]
    omega
  · have : off (X ++ (S.drop ifirst).take (t2 + 1 - ifirst) ++ List.replicate (10 - t2) []) 1 = off X 1 := by
      unfold off
      rw [List.append_assoc, List.take_append_of_le_length (by omega)]
    rw [this]; exact hposX

/-! ### `append_parts` from the state right after the scheme -/

theorem copyFlags_schemeRep (r0 src : Rep) (sch : List Nat) (t1 t2 : Nat) :
    copyFlags (schemeRep r0 sch) src t1 t2 = schemeRep (copyFlags r0 src t1 t2) sch := rfl

theorem copyFlags_mkRep (r0 src : Rep) (A : List (List Nat)) (t1 t2 : Nat) :
    copyFlags (mkRep r0 A) src t1 t2 = mkRep (copyFlags r0 src t1 t2) A := rfl

theorem mkRep_take_drop (r0 : Rep) (X : List (List Nat)) (hX : X.length ≤ 11) :
    (mkRep r0 X).partEnd.take X.length = sums 0 X ∧
    ∀ j, X.length ≤ j → j ≤ 10 → (mkRep r0 X).partEnd.drop (j + 1) = List.replicate (10 - j) 0 := by
  constructor
  · show (sums 0 X ++ List.replicate (11 - X.length) 0).take X.length = _
    rw [List.take_left' (by simp)]
  · intro j hj hj10
    show (sums 0 X ++ List.replicate (11 - X.length) 0).drop (j + 1) = _
    rw [List.drop_append, List.drop_of_length_le (by simp; omega)]
    simp only [sums_length, List.drop_replicate, List.nil_append]
    congr 1; omega

/-- the destination of `append_parts` after `start_part(ifirst)`: the started parts are `X` -/
structure Dest (s : Ser) (src : Rep) (t1 t2 ifirst : Nat) (r1 : Rep) (X : List (List Nat)) : Prop where
  start : serStartPart (copyFlags s.rep src t1 t2) s.lastPt ifirst = r1
  xlen : X.length = ifirst
  norm : r1.norm = X.flatten
  take : r1.partEnd.take ifirst = sums 0 X
  drop : ∀ j, ifirst ≤ j → j ≤ 10 → r1.partEnd.drop (j + 1) = List.replicate (10 - j) 0
  pos : 0 < off X 1

/-- right after the scheme -/
theorem dest_scheme (r0 src : Rep) (sch : List Nat) (hs : sch ≠ []) (t1 t2 ifirst : Nat)
    (hif2 : ifirst = 2 ∨ ifirst = 5 ∨ ifirst = 7 ∨ ifirst = 8) :
    Dest ⟨schemeRep r0 sch, SCHEME⟩ src t1 t2 ifirst
      (mkRep (copyFlags r0 src t1 t2) ([sch, 0x3A :: sepFor ifirst] ++ List.replicate (ifirst - 2) []))
      ([sch, 0x3A :: sepFor ifirst] ++ List.replicate (ifirst - 2) []) := by
  have hd : delim ifirst = [] := by rcases hif2 with h | h | h | h <;> (subst h; rfl)
  have hXlen : ([sch, 0x3A :: sepFor ifirst] ++ List.replicate (ifirst - 2) []).length = ifirst := by
    simp; omega
  obtain ⟨htk, hdr⟩ := mkRep_take_drop (copyFlags r0 src t1 t2)
    ([sch, 0x3A :: sepFor ifirst] ++ List.replicate (ifirst - 2) []) (by rw [hXlen]; omega)
  rw [hXlen] at htk hdr
  refine ⟨?_, hXlen, rfl, htk, hdr, ?_⟩
  · show serStartPart (copyFlags (schemeRep r0 sch) src t1 t2) SCHEME ifirst = _
    rw [copyFlags_schemeRep, start_scheme _ _ ifirst (by omega) (by omega), hd, openRep_nil]
  · simp [off]
    exact List.length_pos_iff.mpr hs

/-- `append_parts(src, t1, t2)` without path operation, something being copied -/
theorem copy_none {b u' : Url} {B : List (List Nat)} (hB : Rp (segsOf b) B) {s : Ser} (t1 t2 : Nat)
    (ht2 : t2 ≤ 10) (ifirst : Nat) (hif : apFirst (mkRep (layout b) B) t1 = ifirst)
    (hk : kPartStart.getD ifirst 0 = 0) (h1 : 1 ≤ ifirst)
    (hle : ifirst ≤ t2) (hlt : ifirst < B.length) (h6 : 6 ≤ min (t2 + 1) B.length)
    {r1 : Rep} {X : List (List Nat)} (hd : Dest s (mkRep (layout b) B) t1 t2 ifirst r1 X)
    (hsegs : segsOf u' = X ++ ((segsOf b).drop ifirst).take (t2 + 1 - ifirst) ++ List.replicate (10 - t2) [])
    (hwf : RecWF u')
    (hfl : ∀ A, mkRep { r1 with
        segCount := if ifirst ≤ PATH ∧ PATH ≤ min (t2 + 1) B.length - 1 then (layout b).segCount
          else r1.segCount } A = mkRep (layout u') A) :
    s.appendParts (mkRep (layout b) B) t1 t2 none =
      ⟨mkRep (layout u') (X ++ (B.drop ifirst).take (min (t2 + 1) B.length - 1 - ifirst) ++
        [B.getD (min (t2 + 1) B.length - 1) []]), min (t2 + 1) B.length - 1⟩ ∧
    Rp (segsOf u') (X ++ (B.drop ifirst).take (min (t2 + 1) B.length - 1 - ifirst) ++
        [B.getD (min (t2 + 1) B.length - 1) []]) ∧
    SerInv (s.appendParts (mkRep (layout b) B) t1 t2 none) u' := by
  have hhi := hB.hi
  have hilast : min (t2 + 1) B.length - 1 < B.length := by omega
  have hm := appendParts_mk s (layout b) hB t1 t2 none X r1
    (B.getD (min (t2 + 1) B.length - 1) []).length
    (if ifirst ≤ PATH ∧ PATH ≤ min (t2 + 1) B.length - 1 then (layout b).segCount else r1.segCount)
    (by rw [hif]; exact hk) (by rw [hif]; omega) (by rw [hif]; exact hle) (by rw [hif]; exact hlt) ht2
    (by rw [hif]; exact hd.start) (by rw [hif]; exact hd.xlen) hd.norm (by rw [hif]; exact hd.take)
    (by rw [hif]; exact hd.drop)
    (by
      rw [hif, apPair_none, pe_mkRep_lt _ _ _ hilast, off_succ_getD B _ hilast]
      split <;> rfl)
    (Nat.le_refl _)
  rw [hif, List.take_of_length_le (Nat.le_refl _)] at hm
  have hAlen : (X ++ (B.drop ifirst).take (min (t2 + 1) B.length - 1 - ifirst) ++
      [B.getD (min (t2 + 1) B.length - 1) []]).length = min (t2 + 1) B.length - 1 + 1 := by
    simp only [List.length_append, hd.xlen, List.length_take, List.length_drop, List.length_cons, List.length_nil]
    omega
  have hRp : Rp (segsOf u') (X ++ (B.drop ifirst).take (min (t2 + 1) B.length - 1 - ifirst) ++
      [B.getD (min (t2 + 1) B.length - 1) []]) := by
    rw [hsegs]
    exact Rp_copy hB _ ifirst t2 hd.xlen hd.pos h1 hle hlt ht2 h6
  have he : s.appendParts (mkRep (layout b) B) t1 t2 none =
      ⟨mkRep (layout u') (X ++ (B.drop ifirst).take (min (t2 + 1) B.length - 1 - ifirst) ++
        [B.getD (min (t2 + 1) B.length - 1) []]), min (t2 + 1) B.length - 1⟩ := by
    rw [hm, hfl]
  refine ⟨he, hRp, ?_⟩
  rw [he]
  exact ⟨hwf, _, hRp, rfl, hAlen⟩

/-- `append_parts(src, t1, PATH, pathOpFn)` when the PATH part of the source was started -/
theorem copy_op {b : Url} {B : List (List Nat)} (hB : Rp (segsOf b) B) {s : Ser} (t1 : Nat)
    (ifirst : Nat) (hif : apFirst (mkRep (layout b) B) t1 = ifirst)
    (hk : kPartStart.getD ifirst 0 = 0) (h1 : 1 ≤ ifirst) (hle : ifirst ≤ 8) (h9 : 9 ≤ B.length)
    {r1 : Rep} {X : List (List Nat)} (hd : Dest s (mkRep (layout b) B) t1 PATH ifirst r1 X)
    (o : PathOp) (ho : b.hasOpaquePath = false) (hns : NoSlash b.path) :
    s.appendParts (mkRep (layout b) B) t1 PATH (some o) =
      ⟨mkRep { r1 with segCount := (opList o b.isFile b.path).length }
        (X ++ (B.drop ifirst).take (8 - ifirst) ++ [ptext (opList o b.isFile b.path)]), 8⟩ := by
  have hhi := hB.hi
  have hil : min (PATH + 1) B.length - 1 = 8 := by simp only [PATH]; omega
  have hB8 : B.getD 8 [] = ptext b.path := by
    rw [Rp.getD hB 8 (by omega)]
    simp [segsOf, pathText_ptext ho]
  have hX8 : (B.take 8).length = 8 := by simp; omega
  have hscb : (layout b).segCount = b.path.length := by simp [layout, ho]
  have hfb : (layout b).isFileScheme = b.isFile := schemeIndex_file b.scheme
  obtain ⟨htk, hlen⟩ := ptext_take_prefix o b.isFile b.path
  -- the value of the path operation on the source
  have hval : (match (mkRep (layout b) B).pathOp o with
      | some v => (v.1, ({ r1 with segCount := v.2 } : Rep))
      | none => ((mkRep (layout b) B).pe PATH, { r1 with segCount := (mkRep (layout b) B).segCount })) =
      (off B 8 + (ptext (opList o b.isFile b.path)).length,
        { r1 with segCount := (opList o b.isFile b.path).length }) := by
    rw [(pathFns_cut (layout b) B h9).1 o, hB8]
    rcases pathOp_mk o (layout b) (B.take 8) b.path b.isFile hX8 (by simp [layout, ho]) hscb hfb hns with
      ⟨h1, h2⟩ | h1
    · rw [h1, h2]
      simp only
      have : (mkRep (layout b) B).pe PATH = off B 8 + (ptext b.path).length := by
        rw [pe_mkRep_lt _ _ _ (by simp only [PATH]; omega)]
        show off B (8 + 1) = _
        rw [off_succ_getD B 8 (by omega), hB8]
      rw [this]
      show (_, ({ r1 with segCount := (layout b).segCount } : Rep)) = _
      rw [hscb]
    · rw [h1]
      rfl
  have hm := appendParts_mk s (layout b) hB t1 PATH (some o) X r1
    (ptext (opList o b.isFile b.path)).length (opList o b.isFile b.path).length
    (by rw [hif]; exact hk) (by rw [hif]; omega) (by rw [hif]; simp only [PATH]; omega) (by rw [hif]; omega)
    (by simp [PATH])
    (by rw [hif]; exact hd.start) (by rw [hif]; exact hd.xlen) hd.norm (by rw [hif]; exact hd.take)
    (by rw [hif]; exact hd.drop)
    (by rw [hif, hil, show (8 : Nat) = PATH from rfl, apPair_path]; exact hval)
    (by rw [hil, hB8]; exact hlen)
  rw [hif, hil, hB8, htk] at hm
  exact hm

/-- the path invariant after a copy that ends with the (possibly shortened) path of the base -/
theorem pathInv_of_copy {u : Url} (ho : u.hasOpaquePath = false) (wf : RecWF u) (hq : u.query = none)
    (hf : u.fragment = none) {A0 : List (List Nat)} {t : List Nat} (hRp : Rp (segsOf u) (A0 ++ [t]))
    (hA0 : A0.length = 8) (p' : List (List Nat)) (hns : NoSlash p') (r : Rep)
    (hr : ∀ A, mkRep r A = mkRep (layout { u with path := p' }) A) :
    PathInv ⟨mkRep r (A0 ++ [ptext p']), PATH⟩ { u with path := p' } := by
  refine ⟨ho, wf, hns, hq, hf, Or.inr ⟨rfl, prefixSeg u, ?_, ?_⟩⟩
  · unfold prefixSeg; split <;> simp
  · simp only
    rw [hr, segs_take7 u p']
    have h8 : (segsOf u).take 8 = A0 := by
      rw [← hRp.take (n := 8) (by simp [hA0]), List.take_left' hA0]
    have : (segsOf u).take 7 ++ [prefixSeg u] = (segsOf u).take 8 := by simp [segsOf]
    rw [this, h8]

/-! ### the getters of the base the parser consults -/

section basegetters
variable {rb : Rep} {b : Url} (ok : BaseOk b) (hrb : RepFor rb b)
include ok hrb

theorem base_opaque : rb.opaquePath = b.hasOpaquePath := opaquePath_eq ok.1.1 hrb
theorem base_file : rb.isFileScheme = b.isFile := isFileScheme_eq ok.1.1 hrb
theorem base_schemeIdx : rb.schemeIdx = schemeIndex b.scheme := schemeIdx_eq ok.1.1 hrb

theorem base_scheme : rb.partView SCHEME = b.scheme := by
  obtain ⟨B, hB, rfl⟩ := base_present ok hrb
  unfold segsOf at hB
  exact partView_scheme _ hB

theorem apFirst_user : apFirst rb USERNAME =
    if b.host.isSome = true then (if b.hasCredentials = true then 2 else 5) else 7 := by
  unfold apFirst
  rw [hostNotNull_eq ok.1.1 hrb, hasCredentials_eq ok.1.1 hrb]
  simp [USERNAME, HOST, PATH_PREFIX]

theorem apFirst_host : apFirst rb HOST = if b.host.isSome = true then 5 else 7 := by
  unfold apFirst
  rw [hostNotNull_eq ok.1.1 hrb]
  simp [USERNAME, HOST, PATH_PREFIX]

end basegetters

theorem apFirst_path (rb : Rep) : apFirst rb PATH = 8 := by
  simp [apFirst, PATH, HOST]

theorem base_long {b : Url} {B : List (List Nat)} (hB : Rp (segsOf b) B) {n : Nat}
    (h : ((segsOf b).drop n).flatten ≠ []) : n < B.length := by
  apply Classical.byContradiction
  intro hc
  exact h (hB.drop_absent (by omega))

theorem base_path_long {b : Url} {B : List (List Nat)} (hB : Rp (segsOf b) B)
    (hp : pathText b ≠ []) : 9 ≤ B.length := by
  have := base_long hB (n := 8) (by simp [segsOf, hp])
  omega

theorem base_path_short {b : Url} {B : List (List Nat)} (hB : Rp (segsOf b) B) (h : B.length ≤ 8) :
    pathText b = [] := by
  have := hB.drop_absent (n := 8) h
  simp [segsOf] at this
  exact this.1

/-! ### relative_state, relative_slash_state: what is copied -/

/-- the record after `append_parts(base, USERNAME, t2)`: authority, path (t2 ≥ PATH), query (t2 ≥ QUERY) -/
def relCopy (b : Url) (t2 : Nat) : Url :=
  { scheme := b.scheme, username := b.username, password := b.password, host := b.host, port := b.port,
    path := if PATH ≤ t2 then b.path else [], query := if QUERY ≤ t2 then b.query else none }

/-- `append_parts(base, USERNAME, t2[, pathOpFn])` right after `set_scheme(base)`, something being copied -/
theorem rel_copy {b : Url} (ok : BaseOk b) {B : List (List Nat)} (hB : Rp (segsOf b) B)
    (ho : b.hasOpaquePath = false)
    {s : Ser} (h : SchInv s { scheme := b.scheme }) (t2 : Nat) (ht2 : t2 = 6 ∨ t2 = 8 ∨ t2 = 9)
    (hcopy : b.host.isSome = true ∨ t2 ≠ 6) :
    SerInv (s.appendParts (mkRep (layout b) B) USERNAME t2 none) (relCopy b t2) ∧
      (s.appendParts (mkRep (layout b) B) USERNAME t2 none).lastPt = min (t2 + 1) B.length - 1 ∧
      (t2 = 8 → 9 ≤ B.length → ∀ o, PathInv (s.appendParts (mkRep (layout b) B) USERNAME PATH (some o))
        { relCopy b 8 with path := opList o b.isFile b.path }) := by
  have hrb : RepFor (mkRep (layout b) B) b := represents_equiv b ok.1.1 ⟨B, hB, rfl⟩
  have hif := apFirst_user ok hrb
  have hlo := hB.lo
  have hhi := hB.hi
  have hns : NoSlash b.path := (ok.2.2.1.2 ho).2
  obtain ⟨⟨hsch, hwfb⟩, hpath, _⟩ := ok.1
  have hwf : RecWF (relCopy b t2) := ⟨hsch, hwfb⟩
  have hsc0 : (layout ({ scheme := b.scheme } : Url)).segCount = 0 := rfl
  have hscb : (layout b).segCount = b.path.length := by simp [layout, ho]
  -- the segment count copied (or not) is the one of the new record
  have hseg : ∀ ifirst, ifirst ≤ 7 →
      (if ifirst ≤ PATH ∧ PATH ≤ min (t2 + 1) B.length - 1 then (layout b).segCount
        else (layout ({ scheme := b.scheme } : Url)).segCount) = (layout (relCopy b t2)).segCount := by
    intro ifirst hi
    have hr : (layout (relCopy b t2)).segCount = if PATH ≤ t2 then b.path.length else 0 := by
      simp only [layout, relCopy]
      by_cases hp : PATH ≤ t2 <;> simp [hp]
    rw [hr, hsc0, hscb]
    by_cases h8 : PATH ≤ min (t2 + 1) B.length - 1
    · rw [if_pos ⟨by simp only [PATH]; omega, h8⟩, if_pos (by simp only [PATH] at *; omega)]
    · rw [if_neg (by intro hc; exact h8 hc.2)]
      split
      · have : B.length ≤ 8 := by simp only [PATH] at *; omega
        have := base_path_short hB this
        rw [pathText_ptext ho] at this
        rw [ptext_eq_nil this]; rfl
      · rfl
  -- the three values of `ifirst` are treated alike
  have main : ∀ ifirst, apFirst (mkRep (layout b) B) USERNAME = ifirst → (ifirst = 2 ∨ ifirst = 5 ∨ ifirst = 7) →
      ifirst ≤ t2 → ifirst < B.length → 6 ≤ min (t2 + 1) B.length →
      segsOf (relCopy b t2) = [b.scheme, 0x3A :: sepFor ifirst] ++ List.replicate (ifirst - 2) [] ++
        ((segsOf b).drop ifirst).take (t2 + 1 - ifirst) ++ List.replicate (10 - t2) [] →
      (∀ t, t = 6 ∨ t = 8 ∨ t = 9 → ∀ c A, mkRep { copyFlags (layout ({ scheme := b.scheme } : Url))
          (mkRep (layout b) B) USERNAME t with segCount := c } A =
        mkRep { layout (relCopy b t) with segCount := c } A) →
      SerInv (s.appendParts (mkRep (layout b) B) USERNAME t2 none) (relCopy b t2) ∧
      (s.appendParts (mkRep (layout b) B) USERNAME t2 none).lastPt = min (t2 + 1) B.length - 1 ∧
      (t2 = 8 → 9 ≤ B.length → ∀ o, PathInv (s.appendParts (mkRep (layout b) B) USERNAME PATH (some o))
        { relCopy b 8 with path := opList o b.isFile b.path }) := by
    intro ifirst hif' hif2 hle hlt h6 hsegs hflags
    have hif4 : ifirst = 2 ∨ ifirst = 5 ∨ ifirst = 7 ∨ ifirst = 8 := by omega
    have hk : kPartStart.getD ifirst 0 = 0 := by rcases hif2 with h | h | h <;> (subst h; rfl)
    have hd := dest_scheme (layout ({ scheme := b.scheme } : Url)) (mkRep (layout b) B) b.scheme hsch
      USERNAME t2 ifirst hif4
    rw [← h.eq] at hd
    have key := copy_none (u' := relCopy b t2) hB USERNAME t2 (by omega) ifirst hif' hk (by omega) hle hlt h6 hd
      hsegs hwf
      (by
        intro A
        have e := hflags t2 ht2 ((layout (relCopy b t2)).segCount) A
        show mkRep { copyFlags (layout ({ scheme := b.scheme } : Url)) (mkRep (layout b) B) USERNAME t2 with
          segCount := (if ifirst ≤ PATH ∧ PATH ≤ min (t2 + 1) B.length - 1 then (layout b).segCount
            else (layout ({ scheme := b.scheme } : Url)).segCount) } A =
          mkRep { layout (relCopy b t2) with segCount := (layout (relCopy b t2)).segCount } A
        rw [hseg ifirst (by omega)]
        exact e)
    refine ⟨key.2.2, by rw [key.1], ?_⟩
    intro ht8 h9 o
    subst ht8
    have hd8 : Dest s (mkRep (layout b) B) USERNAME PATH ifirst _ _ := hd
    rw [copy_op hB USERNAME ifirst hif' hk (by omega) (by omega) h9 hd8 o ho hns]
    have hil : min (8 + 1) B.length - 1 = 8 := by omega
    have hRp := key.2.1
    rw [hil] at hRp
    refine pathInv_of_copy (u := relCopy b 8) rfl hwf rfl rfl hRp
      (by simp only [List.length_append, hd.xlen, List.length_take, List.length_drop]; omega) _
      (fun x hx => hns x (opList_subset o b.isFile b.path x hx)) _ ?_
    intro A
    have e := hflags 8 (by simp) (opList o b.isFile b.path).length A
    refine Eq.trans (b := mkRep { layout (relCopy b 8) with segCount := (opList o b.isFile b.path).length } A) e ?_
    refine mkRep_congr rfl rfl rfl rfl rfl rfl ?_ rfl rfl
    simp [layout, relCopy]
  cases hh : b.host with
  | none =>
    obtain ⟨hu, hp, hport⟩ := hwfb hh
    have ht : t2 ≠ 6 := by rcases hcopy with hc | hc; (· simp [hh] at hc); exact hc
    have hpne : pathText b ≠ [] := pathText_ne_nil ho (hpath hh ho)
    have h9 := base_path_long hB hpne
    simp only [hh, Option.isSome_none, Bool.false_eq_true, if_false] at hif
    refine main 7 hif (by simp) (by omega) (by omega) (by omega) ?_ ?_
    · rcases ht2 with rfl | rfl | rfl
      · exact absurd rfl ht
      · simp [relCopy, segsOf, sepSeg, userSeg, passSeg, atSeg, portSeg, prefixSeg, querySeg, fragSeg, credOn,
          Url.hostText, pathText, needsPathPrefix, Url.hasCredentials, hh, hu, hp, hport, ho, sepFor, HOST,
          PATH, QUERY, List.replicate]
      · simp [relCopy, segsOf, sepSeg, userSeg, passSeg, atSeg, portSeg, prefixSeg, querySeg, fragSeg, credOn,
          Url.hostText, pathText, needsPathPrefix, Url.hasCredentials, hh, hu, hp, hport, ho, sepFor, HOST,
          PATH, QUERY, List.replicate]
    · intro t ht c A
      refine mkRep_congr ?_ ?_ ?_ ?_ ?_ ?_ rfl rfl rfl
      all_goals (rcases ht with rfl | rfl | rfl <;>
        simp [copyFlags, relCopy, layout, mkRep, hh, hport, ho, USERNAME, HOST, PORT, PATH, QUERY, FRAGMENT])
  | some hd =>
    simp only [hh, Option.isSome_some, if_true] at hif
    by_cases hc : b.hasCredentials = true
    · simp only [hc, if_true] at hif
      refine main 2 hif (by simp) (by omega) (by omega) (by omega) ?_ ?_
      · rcases ht2 with rfl | rfl | rfl <;>
        simp [relCopy, segsOf, sepSeg, userSeg, passSeg, atSeg, portSeg, prefixSeg, querySeg, fragSeg, credOn,
          Url.hostText, pathText, needsPathPrefix, Url.hasCredentials, hh, ho, sepFor, HOST,
          PATH, QUERY, List.replicate]
      · intro t ht c A
        refine mkRep_congr ?_ ?_ ?_ ?_ ?_ ?_ rfl rfl rfl
        all_goals (rcases ht with rfl | rfl | rfl <;>
          simp [copyFlags, relCopy, layout, mkRep, hh, ho, USERNAME, HOST, PORT, PATH, QUERY, FRAGMENT])
    · simp only [hc, if_false] at hif
      have hc' : b.hasCredentials = false := by simpa using hc
      have hun : b.username = [] := by
        simp only [Url.hasCredentials, Bool.or_eq_false_iff, decide_eq_false_iff_not, ne_eq, Decidable.not_not] at hc'
        exact hc'.1
      have hpn : b.password = [] := by
        simp only [Url.hasCredentials, Bool.or_eq_false_iff, decide_eq_false_iff_not, ne_eq, Decidable.not_not] at hc'
        exact hc'.2
      refine main 5 hif (by simp) (by omega) (by omega) (by omega) ?_ ?_
      · rcases ht2 with rfl | rfl | rfl <;>
        simp [relCopy, segsOf, sepSeg, userSeg, passSeg, atSeg, portSeg, prefixSeg, querySeg, fragSeg, credOn,
          Url.hostText, pathText, needsPathPrefix, Url.hasCredentials, hun, hpn, hh, ho, sepFor, HOST,
          PATH, QUERY, List.replicate]
      · intro t ht c A
        refine mkRep_congr ?_ ?_ ?_ ?_ ?_ ?_ rfl rfl rfl
        all_goals (rcases ht with rfl | rfl | rfl <;>
          simp [copyFlags, relCopy, layout, mkRep, hh, ho, USERNAME, HOST, PORT, PATH, QUERY, FRAGMENT])

/-! ### fresh states and `set_scheme` -/

/-- no part after the scheme was written, every modelled flag is still in its initial state -/
def Fresh (s : Ser) : Prop :=
  s.lastPt = SCHEME ∧ ∃ n k idx, s.rep =
    { Rep.cleared with norm := n, partEnd := k :: List.replicate 10 0, schemeIdx := idx }

theorem fresh_new : Fresh Ser.new := ⟨rfl, [], 0, none, rfl⟩

theorem SchInv.fresh {s : Ser} {x : List Nat} (h : SchInv s { scheme := x }) : Fresh s := by
  refine ⟨h.last, x ++ [0x3A], x.length, schemeIndex x, ?_⟩
  rw [h.rep]
  simp [schemeRep, layout, Rep.cleared, needsPathPrefix, pathText]

theorem setSchemeStr_fresh {s : Ser} (hs : Fresh s) (str : List Nat) (hne : str ≠ []) :
    SchInv (s.setSchemeStr str) { scheme := str } := by
  obtain ⟨hl, n, k, idx, hr⟩ := hs
  refine ⟨hne, hl, ?_, rfl, rfl, rfl, rfl, rfl, rfl, rfl⟩
  simp only [Ser.setSchemeStr, Rep.setSchemeStr, hr]
  simp [schemeRep, layout, Rep.cleared, SCHEME, needsPathPrefix, pathText]

theorem setSchemeOf_fresh {rb : Rep} {b : Url} (ok : BaseOk b) (hrb : RepFor rb b) {s : Ser} (hs : Fresh s) :
    SchInv (s.setSchemeOf rb) { scheme := b.scheme } := by
  have h := setSchemeStr_fresh hs b.scheme ok.1.1.1
  have e : s.setSchemeOf rb = s.setSchemeStr b.scheme := by
    simp only [Ser.setSchemeOf, Ser.setSchemeStr, base_scheme ok hrb, base_schemeIdx ok hrb]
  rw [e]; exact h

/-! ### relative_slash_state, relative_state -/

theorem relCopy6 (b : Url) : copyAuthority { scheme := b.scheme } b = relCopy b 6 := by
  simp [copyAuthority, relCopy, PATH, QUERY]

theorem relCopy8 {b : Url} (ok : BaseOk b) (ho : b.hasOpaquePath = false) :
    copyPath (copyAuthority { scheme := b.scheme } b) b = relCopy b 8 := by
  simp [copyAuthority, copyPath, relCopy, PATH, QUERY, ho, (ok.2.2.1.2 ho).1]

theorem relCopy9 {b : Url} (ok : BaseOk b) (ho : b.hasOpaquePath = false) :
    ({ copyPath (copyAuthority { scheme := b.scheme } b) b with query := b.query } : Url) = relCopy b 9 := by
  simp [copyAuthority, copyPath, relCopy, PATH, QUERY, ho, (ok.2.2.1.2 ho).1]

theorem sim_relativeSlash (idna : Idna) {b : Url} (ok : BaseOk b) {B : List (List Nat)}
    (hB : Rp (segsOf b) B) (ho : b.hasOpaquePath = false) {s : Ser} (h : SchInv s { scheme := b.scheme })
    (p : List Nat) :
    Agree (relativeSlashStateSer idna (mkRep (layout b) B) s p)
      (relativeSlashState idna b none { scheme := b.scheme } p) := by
  have hdef : Agree (pathStateSer (s.appendParts (mkRep (layout b) B) USERNAME PORT none) p)
      (pathState none (copyAuthority { scheme := b.scheme } b) p) := by
    rw [relCopy6]
    apply sim_pathState
    cases hh : b.host with
    | some hd =>
      obtain ⟨h1, h2, _⟩ := rel_copy ok hB ho h 6 (by simp) (Or.inl (by simp [hh]))
      have hhi := hB.hi
      refine ⟨rfl, h1.1, ?_, rfl, rfl, Or.inl ⟨rfl, Or.inr ⟨h1, by rw [h2]; simp only [PATH]; omega⟩⟩⟩
      intro x hx; simp [relCopy, PATH] at hx
    | none =>
      have hrb : RepFor (mkRep (layout b) B) b := represents_equiv b ok.1.1 ⟨B, hB, rfl⟩
      have hif := apFirst_user ok hrb
      simp only [hh, Option.isSome_none, Bool.false_eq_true, if_false] at hif
      obtain ⟨hu, hp, hport⟩ := ok.1.1.2 hh
      have e := appendParts_nothing s (layout b) hB USERNAME PORT none (by rw [hif]; simp [PORT]) (by simp [PORT])
      rw [e]
      apply SchInv.pathInv _ rfl
      refine ⟨ok.1.1.1, h.last, ?_, hh, hu, hp, hport, rfl, rfl, rfl⟩
      simp only [h.rep, copyFlags_schemeRep]
      simp [schemeRep, copyFlags, relCopy, layout, mkRep, hh, hu, hp, hport, USERNAME, HOST, PORT, PATH, QUERY,
        FRAGMENT, needsPathPrefix, pathText]
  unfold relativeSlashStateSer relativeSlashState
  rw [h.special]
  cases p with
  | nil => exact hdef
  | cons c r =>
    simp only
    split
    · split
      · exact sim_ignoreSlashes idna h rfl _
      · exact sim_authority idna h rfl _
    · split
      · exact sim_ignoreSlashes idna h rfl _
      · exact hdef

theorem sim_relative (idna : Idna) {b : Url} (ok : BaseOk b) {B : List (List Nat)}
    (hB : Rp (segsOf b) B) (ho : b.hasOpaquePath = false) {s : Ser} (hs : Fresh s) (u : Url)
    (hu : ({ u with scheme := b.scheme } : Url) = { scheme := b.scheme }) (p : List Nat) :
    Agree (relativeStateSer idna (mkRep (layout b) B) s p) (relativeState idna b none u p) := by
  have hrb : RepFor (mkRep (layout b) B) b := represents_equiv b ok.1.1 ⟨B, hB, rfl⟩
  have h := setSchemeOf_fresh ok hrb hs
  have hhi := hB.hi
  unfold relativeStateSer relativeState
  simp only [hu]
  rw [h.special]
  obtain ⟨k1, k2, _⟩ := rel_copy ok hB ho h 9 (by simp) (Or.inr (by simp))
  obtain ⟨q1, q2, q3⟩ := rel_copy ok hB ho h 8 (by simp) (Or.inr (by simp))
  cases p with
  | nil =>
    simp only [relCopy9 ok ho]
    exact ⟨rfl, _, k1⟩
  | cons c r =>
    simp only
    split
    · exact sim_relativeSlash idna ok hB ho h _
    · split
      · rw [relCopy8 ok ho]
        exact sim_query q1 (by rw [q2]; simp only [QUERY]; omega) _
      · split
        · rw [relCopy9 ok ho]
          exact sim_fragment k1 (by rw [k2]; simp only [FRAGMENT]; omega) _
        · split
          · exact sim_relativeSlash idna ok hB ho h _
          · rw [relCopy8 ok ho]
            apply sim_pathState
            by_cases h9 : 9 ≤ B.length
            · exact q3 rfl h9 .remLast
            · have e := appendParts_op_irrelevant ((s.setSchemeOf (mkRep (layout b) B))) (layout b) hB USERNAME PATH
                .remLast (by simp only [PATH]; omega)
              rw [e]
              have hpn : b.path = [] := by
                have := base_path_short hB (by omega)
                rw [pathText_ptext ho] at this
                exact ptext_eq_nil this
              have e2 : removeLastSegment (relCopy b 8) = relCopy b 8 := by
                simp [removeLastSegment, relCopy, hpn]
              rw [e2]
              refine ⟨rfl, q1.1, ?_, rfl, rfl, Or.inl ⟨by simp [relCopy, hpn], Or.inr ⟨q1, ?_⟩⟩⟩
              · intro x hx; simp [relCopy, hpn] at hx
              · show (Ser.appendParts _ _ USERNAME 8 none).lastPt < PATH
                rw [q2]; simp only [PATH]; omega

end Upa.Proofs.ParseRep
