import Upa.Proofs.ParseRepBase
/-
  Helpers for C05e, part 7: the file states and the fragment-only reference against a base with an
  opaque path (`append_parts(base, HOST, …)`, `append_parts(base, PATH, QUERY)`).
-/
set_option linter.unusedSimpArgs false
set_option linter.unusedVariables false

namespace Upa.Proofs.ParseRep
open Upa Upa.Impl Upa.Proofs.C05 Upa.Proofs.SetRep Upa.Proofs.SetRepApi Upa.Props

/-! ### `append_parts(base, HOST, t2)` after `set_empty_host()` -/

/-- after `set_empty_host()`: `start_part(HOST)` does nothing, the started parts are the five before HOST -/
theorem dest_file (r0 src : Rep) (sch : List Nat) (hs : sch ≠ []) (t1 t2 : Nat) :
    Dest ⟨mkRep r0 [sch, [0x3A, 0x2F, 0x2F], [], [], [], []], HOST⟩ src t1 t2 5
      (mkRep (copyFlags r0 src t1 t2) [sch, [0x3A, 0x2F, 0x2F], [], [], [], []])
      [sch, [0x3A, 0x2F, 0x2F], [], [], []] := by
  refine ⟨?_, rfl, by simp [mkRep], by simp [mkRep], ?_, ?_⟩
  · show serStartPart (copyFlags (mkRep r0 _) src t1 t2) HOST 5 = _
    rw [copyFlags_mkRep]
    exact start_same _ HOST (Or.inl rfl) (by simp [mkRep])
  · intro j hj hj10
    show ((sums 0 [sch, [0x3A, 0x2F, 0x2F], [], [], [], []]) ++ List.replicate (11 - 6) 0).drop (j + 1) = _
    rw [List.drop_append, List.drop_of_length_le (by simp; omega)]
    simp only [sums_length, List.length_cons, List.length_nil, List.drop_replicate, List.nil_append]
    congr 1; omega
  · simp [off]
    exact List.length_pos_iff.mpr hs

/-- the record after `append_parts(base, HOST, t2)`: host, path (t2 ≥ PATH), query (t2 ≥ QUERY) -/
def fileCopy (b : Url) (t2 : Nat) : Url :=
  { scheme := sFile, host := b.host,
    path := if PATH ≤ t2 then b.path else [], query := if QUERY ≤ t2 then b.query else none }

theorem file_copy {b : Url} (ok : BaseOk b) {B : List (List Nat)} (hB : Rp (segsOf b) B)
    (hfile : b.isFile = true) {s : Ser}
    (h : FileInv s { scheme := sFile, host := some emptyHost } emptyHost) (t2 : Nat)
    (ht2 : t2 = 5 ∨ t2 = 8 ∨ t2 = 9) :
    SerInv (s.appendParts (mkRep (layout b) B) HOST t2 none) (fileCopy b t2) ∧
      (s.appendParts (mkRep (layout b) B) HOST t2 none).lastPt = min (t2 + 1) B.length - 1 ∧
      (t2 = 8 → 9 ≤ B.length → ∀ o, PathInv (s.appendParts (mkRep (layout b) B) HOST PATH (some o))
        { fileCopy b 8 with path := opList o b.isFile b.path }) := by
  have hrb : RepFor (mkRep (layout b) B) b := represents_equiv b ok.1.1 ⟨B, hB, rfl⟩
  have hsp : b.isSpecial = true := Proofs.C08.file_special hfile
  have ho : b.hasOpaquePath = false := ok.special_list hsp
  have hhs : b.host.isSome = true := ok.2.1 hsp
  obtain ⟨hd, hh⟩ := Option.isSome_iff_exists.mp hhs
  have hport : b.port = none := ok.2.2.2 hfile
  have hsch : b.scheme = sFile := isFile_scheme hfile
  have hif := apFirst_host ok hrb
  simp only [hhs, if_true] at hif
  have hlo := hB.lo
  have hhi := hB.hi
  have hns : NoSlash b.path := (ok.2.2.1.2 ho).2
  have hwf : RecWF (fileCopy b t2) := ⟨by simp [fileCopy, sFile, asciiStr], fun hc => by simp [fileCopy, hh] at hc⟩
  have hscb : (layout b).segCount = b.path.length := by simp [layout, ho]
  have hs := h.2.2.2.2.2.2.2.2.2
  have hdest := dest_file (layout ({ scheme := sFile, host := some emptyHost } : Url)) (mkRep (layout b) B)
    sFile (by simp [sFile, asciiStr]) HOST t2
  have hs' : s = ⟨mkRep (layout ({ scheme := sFile, host := some emptyHost } : Url))
      [sFile, [0x3A, 0x2F, 0x2F], [], [], [], []], HOST⟩ := hs
  rw [← hs'] at hdest
  have hseg : (if 5 ≤ PATH ∧ PATH ≤ min (t2 + 1) B.length - 1 then (layout b).segCount
        else (layout ({ scheme := sFile, host := some emptyHost } : Url)).segCount) =
        (layout (fileCopy b t2)).segCount := by
    have hr : (layout (fileCopy b t2)).segCount = if PATH ≤ t2 then b.path.length else 0 := by
      simp only [layout, fileCopy]
      by_cases hp : PATH ≤ t2 <;> simp [hp]
    have h0 : (layout ({ scheme := sFile, host := some emptyHost } : Url)).segCount = 0 := rfl
    rw [hr, h0, hscb]
    by_cases h8 : PATH ≤ min (t2 + 1) B.length - 1
    · rw [if_pos ⟨by simp only [PATH]; omega, h8⟩, if_pos (by simp only [PATH] at *; omega)]
    · rw [if_neg (by intro hc; exact h8 hc.2)]
      split
      · have : B.length ≤ 8 := by simp only [PATH] at *; omega
        have := base_path_short hB this
        rw [pathText_ptext ho] at this
        rw [ptext_eq_nil this]; rfl
      · rfl
  have hflags : ∀ t, t = 5 ∨ t = 8 ∨ t = 9 → ∀ c A,
      mkRep { copyFlags (layout ({ scheme := sFile, host := some emptyHost } : Url)) (mkRep (layout b) B) HOST t
        with segCount := c } A = mkRep { layout (fileCopy b t) with segCount := c } A := by
    intro t ht c A
    refine mkRep_congr ?_ ?_ ?_ ?_ ?_ ?_ rfl rfl rfl
    all_goals (rcases ht with rfl | rfl | rfl <;>
      simp [copyFlags, fileCopy, layout, mkRep, hh, hport, ho, USERNAME, HOST, PORT, PATH, QUERY, FRAGMENT])
  have hsegs : segsOf (fileCopy b t2) = [sFile, [0x3A, 0x2F, 0x2F], [], [], []] ++
      ((segsOf b).drop 5).take (t2 + 1 - 5) ++ List.replicate (10 - t2) [] := by
    rcases ht2 with rfl | rfl | rfl <;>
    simp [fileCopy, segsOf, sepSeg, userSeg, passSeg, atSeg, portSeg, prefixSeg, querySeg, fragSeg, credOn,
      Url.hostText, pathText, needsPathPrefix, Url.hasCredentials, hh, hport, ho, HOST, PATH, QUERY,
      List.replicate]
  have key := copy_none (u' := fileCopy b t2) hB HOST t2 (by omega) 5 hif rfl (by omega) (by omega) (by omega)
    (by omega) hdest hsegs hwf
    (by
      intro A
      have e := hflags t2 ht2 ((layout (fileCopy b t2)).segCount) A
      show mkRep { copyFlags (layout ({ scheme := sFile, host := some emptyHost } : Url)) (mkRep (layout b) B)
          HOST t2 with
        segCount := (if 5 ≤ PATH ∧ PATH ≤ min (t2 + 1) B.length - 1 then (layout b).segCount
          else (layout ({ scheme := sFile, host := some emptyHost } : Url)).segCount) } A =
        mkRep { layout (fileCopy b t2) with segCount := (layout (fileCopy b t2)).segCount } A
      rw [hseg]
      exact e)
  refine ⟨key.2.2, by rw [key.1], ?_⟩
  intro ht8 h9 o
  subst ht8
  have hd8 : Dest s (mkRep (layout b) B) HOST PATH 5 _ _ := hdest
  rw [copy_op hB HOST 5 hif rfl (by omega) (by omega) h9 hd8 o ho hns]
  have hil : min (8 + 1) B.length - 1 = 8 := by omega
  have hRp := key.2.1
  rw [hil] at hRp
  refine pathInv_of_copy (u := fileCopy b 8) rfl hwf rfl rfl hRp
    (by simp only [List.length_append, List.length_take, List.length_drop, List.length_cons, List.length_nil]; omega) _
    (fun x hx => hns x (opList_subset o b.isFile b.path x hx)) _ ?_
  intro A
  have e := hflags 8 (by simp) (opList o b.isFile b.path).length A
  refine Eq.trans (b := mkRep { layout (fileCopy b 8) with segCount := (opList o b.isFile b.path).length } A) e ?_
  refine mkRep_congr rfl rfl rfl rfl rfl rfl ?_ rfl rfl
  simp [layout, fileCopy]

/-! ### `get_path_first_string(2)` of the base (file_slash_state) -/

/-- "base's path[0] is a normalized Windows drive letter" -/
def headDrive (p : List (List Nat)) : Bool :=
  match p with
  | [a, c] :: _ => isNormalizedWindowsDrive a c
  | _ => false

/-- the core of `get_path_first_string(2)`: `pv` is the path text after its first "/" -/
def bpOf (pv : List Nat) : List Nat :=
  if pv.length == 2 || (decide (pv.length > 2) && pv.getD 2 0 == 0x2F) then pv.take 2 else []

theorem bpOf_cases (pv : List Nat) : bpOf pv = [] ∨ (bpOf pv = pv.take 2 ∧ 2 ≤ pv.length) := by
  unfold bpOf
  split
  · right
    refine ⟨rfl, ?_⟩
    rename_i h
    simp only [Bool.or_eq_true, beq_iff_eq, Bool.and_eq_true, decide_eq_true_eq] at h
    omega
  · left; rfl

theorem notDrive_slash (a : Nat) : isNormalizedWindowsDrive a 0x2F = false := by
  simp [isNormalizedWindowsDrive]

theorem notDrive_slash0 (c : Nat) : isNormalizedWindowsDrive 0x2F c = false := by
  simp [isNormalizedWindowsDrive, isAlpha]

theorem firstString_core (seg0 tl : List Nat) (hs : ∀ c ∈ seg0, c ≠ 0x2F)
    (htl : tl = [] ∨ ∃ r, tl = 0x2F :: r) :
    ((bpOf (seg0 ++ tl)).length == 2 &&
      isNormalizedWindowsDrive ((bpOf (seg0 ++ tl)).getD 0 0) ((bpOf (seg0 ++ tl)).getD 1 0)) = segDrive seg0 ∧
    (segDrive seg0 = true → ∃ a c, seg0 = [a, c] ∧ (bpOf (seg0 ++ tl)).take 2 = [a, c]) := by
  match seg0, hs with
  | [], _ =>
    refine ⟨?_, by simp [segDrive]⟩
    rcases bpOf_cases ([] ++ tl) with h | ⟨h, h2⟩
    · rw [h]; simp [segDrive]
    · rw [h]
      rcases htl with rfl | ⟨r, rfl⟩
      · simp at h2
      · cases r with
        | nil => simp at h2
        | cons x r' => simp [segDrive, notDrive_slash0]
  | [a], _ =>
    refine ⟨?_, by simp [segDrive]⟩
    rcases bpOf_cases ([a] ++ tl) with h | ⟨h, h2⟩
    · rw [h]; simp [segDrive]
    · rw [h]
      rcases htl with rfl | ⟨r, rfl⟩
      · simp at h2
      · simp [segDrive, notDrive_slash]
  | [a, c], _ =>
    have hb : bpOf ([a, c] ++ tl) = [a, c] := by
      unfold bpOf
      rcases htl with rfl | ⟨r, rfl⟩
      · simp
      · simp
    rw [hb]
    refine ⟨by simp [segDrive], fun _ => ⟨a, c, rfl, by simp⟩⟩
  | a :: c :: d :: t, hs =>
    have hd : d ≠ 0x2F := hs d (by simp)
    have hb : bpOf ((a :: c :: d :: t) ++ tl) = [] := by
      unfold bpOf
      simp [hd]
    rw [hb]
    simp [segDrive]

theorem headDrive_cons (seg0 : List Nat) (rest : List (List Nat)) : headDrive (seg0 :: rest) = segDrive seg0 := by
  unfold headDrive segDrive
  match seg0 with
  | [] => rfl
  | [a] => rfl
  | [a, c] => rfl
  | a :: c :: d :: t => rfl

theorem firstString_ptext (p : List (List Nat)) (hns : NoSlash p) :
    ((if (ptext p).length == 0 || false then ptext p else bpOf ((ptext p).drop 1)).length == 2 &&
      isNormalizedWindowsDrive
        ((if (ptext p).length == 0 || false then ptext p else bpOf ((ptext p).drop 1)).getD 0 0)
        ((if (ptext p).length == 0 || false then ptext p else bpOf ((ptext p).drop 1)).getD 1 0)) =
      headDrive p ∧
    (headDrive p = true → ∃ a c rest, p = [a, c] :: rest ∧
      (if (ptext p).length == 0 || false then ptext p else bpOf ((ptext p).drop 1)).take 2 = [a, c]) := by
  cases p with
  | nil => simp [ptext, headDrive]
  | cons seg0 rest =>
    have hpt : ptext (seg0 :: rest) = 0x2F :: (seg0 ++ ptext rest) := by simp [ptext]
    have htl : ptext rest = [] ∨ ∃ r, ptext rest = 0x2F :: r := by
      cases rest with
      | nil => left; rfl
      | cons r0 rs => right; exact ⟨r0 ++ ptext rs, by simp [ptext]⟩
    obtain ⟨h1, h2⟩ := firstString_core seg0 (ptext rest) (hns seg0 (by simp)) htl
    rw [hpt, headDrive_cons]
    simp only [List.length_cons, Nat.add_eq_zero_iff, Nat.succ_ne_self, and_false, beq_iff_eq,
      Bool.or_false, List.drop_succ_cons, List.drop_zero, if_false, reduceCtorEq]
    refine ⟨by simpa using h1, fun hd => ?_⟩
    obtain ⟨a, c, e1, e2⟩ := h2 hd
    exact ⟨a, c, rest, by rw [e1], by simpa using e2⟩

theorem base_firstString {rb : Rep} {b : Url} (ok : BaseOk b) (hrb : RepFor rb b)
    (ho : b.hasOpaquePath = false) :
    ((rb.getPathFirstString 2).length == 2 &&
      isNormalizedWindowsDrive ((rb.getPathFirstString 2).getD 0 0) ((rb.getPathFirstString 2).getD 1 0)) =
      headDrive b.path ∧
    (headDrive b.path = true → ∃ a c rest, b.path = [a, c] :: rest ∧ (rb.getPathFirstString 2).take 2 = [a, c]) := by
  have hv : rb.partView PATH = ptext b.path := by
    rw [partView_eq ok.1.1 hrb PATH (by simp [PATH]) (by simp [PATH]), ← pathText_ptext ho]
    exact pathname_seg b
  have hop : rb.opaquePath = false := by rw [base_opaque ok hrb, ho]
  have hns : NoSlash b.path := (ok.2.2.1.2 ho).2
  have := firstString_ptext b.path hns
  unfold Rep.getPathFirstString
  rw [hv, hop]
  exact this

end Upa.Proofs.ParseRep
