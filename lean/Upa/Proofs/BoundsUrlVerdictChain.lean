import Upa.Proofs.BoundsUrlVerdict
/-
  Helper lemmas for C04f, part 2: the chain of `if (state == X)` blocks of `urlParseB` cut into named
  suffixes (`kFragment … kSchemeStart`), skip lemmas, and the tail of the chain: from path_start_state on
  both models can only answer `ok`.
-/
namespace Upa.Impl.B
open UP Upa.Proofs.C10b

/-- everything the two models are run on -/
structure Ctx where
  idna : Idna
  e : Enc
  a : Array Nat
  first : Nat
  last : Nat
  ov : Option Override
  baseU : Option Url
  u0 : Url
  fuel : Nat

namespace Ctx
def base (c : Ctx) : Option BaseInfo := c.baseU.map BaseInfo.ofUrl
def ui (c : Ctx) : UrlInfo := UrlInfo.ofUrl c.u0
def orc (c : Ctx) : Oracles := Oracles.real c.idna c.e c.a
/-- the decoded rest of the input at pointer `p` -/
def D (c : Ctx) (p : Nat) : List Nat := Dl c.e c.a p c.last
structure Wf (c : Ctx) : Prop where
  h : c.first ≤ c.last
  hl : c.last ≤ c.a.size
  hf : c.last - c.first < c.fuel
  hu : UOk c.e c.a.toList
end Ctx

def kEnd : M → R Bool := fun _ => pure true
def kFragment (c : Ctx) : M → R Bool :=
  stepB (· == .fragment) (bFragment c.e c.a c.first c.last c.fuel) kEnd
def kQuery (c : Ctx) : M → R Bool :=
  stepB (· == .query) (bQuery c.e c.a c.first c.last c.ov c.fuel) (kFragment c)
def kOpaquePath (c : Ctx) : M → R Bool :=
  stepB (· == .opaquePath) (bOpaquePath c.e c.a c.first c.last) (kQuery c)
def kPath (c : Ctx) : M → R Bool :=
  stepB (· == .path) (bPath c.e c.a c.first c.last c.ov c.orc) (kOpaquePath c)
def kPathStart (c : Ctx) : M → R Bool :=
  stepB (· == .pathStart) (bPathStart c.a c.first c.last c.ov) (kPath c)
def kNeedSave (c : Ctx) : M → R Bool :=
  stepB (fun _ => true) (bNeedSave c.ui) (kPathStart c)
def kFileHost (c : Ctx) : M → R Bool :=
  stepB (· == .fileHost) (bFileHost c.a c.first c.last c.ov c.ui c.orc) (kNeedSave c)
def kFileSlash (c : Ctx) : M → R Bool :=
  stepB (· == .fileSlash) (fun m => bFileSlash c.a c.first c.last c.base c.ui m 0) (kFileHost c)
def kFile (c : Ctx) : M → R Bool :=
  stepB (· == .file) (fun m => bFile c.a c.first c.last c.base m 0) (kFileSlash c)
def kPort (c : Ctx) : M → R Bool :=
  stepB (· == .port) (fun m => bPort c.a c.first c.last c.ov c.ui c.orc c.fuel m 0) (kFile c)
def kHost (c : Ctx) : M → R Bool :=
  stepB (fun s => s == .host || s == .hostname) (bHost c.a c.first c.last c.ov c.ui c.orc c.fuel) (kPort c)
def kAuthority (c : Ctx) : M → R Bool :=
  stepB (· == .authority) (bAuthority c.e c.a c.first c.last c.ui) (kHost c)
def kSAIS (c : Ctx) : M → R Bool :=
  stepB (· == .specialAuthorityIgnoreSlashes) (bSpecialAuthorityIgnoreSlashes c.a c.first c.last c.fuel) (kAuthority c)
def kSAS (c : Ctx) : M → R Bool :=
  stepB (· == .specialAuthoritySlashes) (fun m => bSpecialAuthoritySlashes c.a c.first c.last m 1) (kSAIS c)
def kRelativeSlash (c : Ctx) : M → R Bool :=
  stepB (· == .relativeSlash) (bRelativeSlash c.a c.first c.last c.base) (kSAS c)
def kRelative (c : Ctx) : M → R Bool :=
  stepB (· == .relative) (bRelative c.a c.first c.last c.base) (kRelativeSlash c)
def kPathOrAuthority (c : Ctx) : M → R Bool :=
  stepB (· == .pathOrAuthority) (fun m => bPathOrAuthority c.a c.first c.last m 0) (kRelative c)
def kSRoA (c : Ctx) : M → R Bool :=
  stepB (· == .specialRelativeOrAuthority) (fun m => bSpecialRelativeOrAuthority c.a c.first c.last m 1)
    (kPathOrAuthority c)
def kNoScheme (c : Ctx) : M → R Bool :=
  stepB (· == .noScheme) (bNoScheme c.a c.first c.last c.base) (kSRoA c)
def kScheme (c : Ctx) : M → R Bool :=
  stepB (· == .scheme) (bScheme c.a c.first c.last c.ov c.base c.ui c.fuel) (kNoScheme c)
def kSchemeStart (c : Ctx) : M → R Bool :=
  stepB (· == .schemeStart) (bSchemeStart c.a c.first c.last c.ov) (kScheme c)

theorem urlParseB_eq (c : Ctx) :
    urlParseB c.e c.a c.first c.last c.ov c.base c.ui c.orc c.fuel =
      kSchemeStart c ⟨St.ofOverride c.ov, c.first, c.ui.special, c.ui.file⟩ := rfl

/-! ### stepB -/

theorem stepB_skip {cnd : St → Bool} {blk : M → R (M ⊕ Bool)} {k : M → R Bool} {m : M}
    (h : cnd m.state = false) : stepB cnd blk k m = k m := by
  unfold stepB; simp [h]

/-- the block runs with postcondition "the rest of the chain answers `v`" -/
theorem stepB_ok {cnd : St → Bool} {blk : M → R (M ⊕ Bool)} {k : M → R Bool} {m : M} {v : Bool}
    (hc : cnd m.state = true)
    (hb : (blk m).sat (fun r => match r with | .inl m' => k m' = .ok v | .inr w => w = v)) :
    stepB cnd blk k m = .ok v := by
  unfold stepB
  rw [if_pos hc]
  obtain ⟨r, hr, hp⟩ := hb
  rw [hr]
  cases r with
  | inl m' => exact hp
  | inr w => simp only [] at hp; rw [hp]; rfl

section skips
variable (c : Ctx) (m : M)
theorem kScheme_skip (h : m.state ≠ .scheme) : kScheme c m = kNoScheme c m := stepB_skip (by simpa using h)
theorem kNoScheme_skip (h : m.state ≠ .noScheme) : kNoScheme c m = kSRoA c m := stepB_skip (by simpa using h)
theorem kSRoA_skip (h : m.state ≠ .specialRelativeOrAuthority) : kSRoA c m = kPathOrAuthority c m :=
  stepB_skip (by simpa using h)
theorem kPathOrAuthority_skip (h : m.state ≠ .pathOrAuthority) : kPathOrAuthority c m = kRelative c m :=
  stepB_skip (by simpa using h)
theorem kRelative_skip (h : m.state ≠ .relative) : kRelative c m = kRelativeSlash c m := stepB_skip (by simpa using h)
theorem kRelativeSlash_skip (h : m.state ≠ .relativeSlash) : kRelativeSlash c m = kSAS c m :=
  stepB_skip (by simpa using h)
theorem kSAS_skip (h : m.state ≠ .specialAuthoritySlashes) : kSAS c m = kSAIS c m := stepB_skip (by simpa using h)
theorem kSAIS_skip (h : m.state ≠ .specialAuthorityIgnoreSlashes) : kSAIS c m = kAuthority c m :=
  stepB_skip (by simpa using h)
theorem kAuthority_skip (h : m.state ≠ .authority) : kAuthority c m = kHost c m := stepB_skip (by simpa using h)
theorem kHost_skip (h1 : m.state ≠ .host) (h2 : m.state ≠ .hostname) : kHost c m = kPort c m :=
  stepB_skip (by simp [h1, h2])
theorem kPort_skip (h : m.state ≠ .port) : kPort c m = kFile c m := stepB_skip (by simpa using h)
theorem kFile_skip (h : m.state ≠ .file) : kFile c m = kFileSlash c m := stepB_skip (by simpa using h)
theorem kFileSlash_skip (h : m.state ≠ .fileSlash) : kFileSlash c m = kFileHost c m := stepB_skip (by simpa using h)
theorem kFileHost_skip (h : m.state ≠ .fileHost) : kFileHost c m = kNeedSave c m := stepB_skip (by simpa using h)
theorem kNeedSave_eq : kNeedSave c m = kPathStart c m := rfl
theorem kPathStart_skip (h : m.state ≠ .pathStart) : kPathStart c m = kPath c m := stepB_skip (by simpa using h)
theorem kPath_skip (h : m.state ≠ .path) : kPath c m = kOpaquePath c m := stepB_skip (by simpa using h)
theorem kOpaquePath_skip (h : m.state ≠ .opaquePath) : kOpaquePath c m = kQuery c m := stepB_skip (by simpa using h)
theorem kQuery_skip (h : m.state ≠ .query) : kQuery c m = kFragment c m := stepB_skip (by simpa using h)
end skips

/-- skip the blocks whose state test fails (the state of the machine must be a constructor) -/
macro "kskip" : tactic =>
  `(tactic| simp (disch := simp) only [kScheme_skip, kNoScheme_skip, kSRoA_skip, kPathOrAuthority_skip, kRelative_skip,
      kRelativeSlash_skip, kSAS_skip, kSAIS_skip, kAuthority_skip, kHost_skip, kPort_skip, kFile_skip,
      kFileSlash_skip, kFileHost_skip, kNeedSave_eq, kPathStart_skip, kPath_skip, kOpaquePath_skip, kQuery_skip])

/-! ### the list model from path_start_state on: always `ok` -/

@[simp] theorem vd_fragmentState (u : Url) (p : List Nat) : vd (fragmentState u p) = true := rfl
@[simp] theorem vd_queryState (ov : Option Override) (u : Url) (p : List Nat) : vd (queryState ov u p) = true := by
  unfold queryState
  simp only []
  split <;> rfl
@[simp] theorem vd_afterPath (ov : Option Override) (u : Url) (p : List Nat) : vd (afterPath ov u p) = true := by
  unfold afterPath
  split
  · rfl
  · split
    · exact vd_queryState _ _ _
    · rfl
@[simp] theorem vd_pathState (ov : Option Override) (u : Url) (p : List Nat) : vd (pathState ov u p) = true := by
  unfold pathState; exact vd_afterPath _ _ _
@[simp] theorem vd_opaquePathState (ov : Option Override) (u : Url) (p : List Nat) :
    vd (opaquePathState ov u p) = true := by
  unfold opaquePathState; exact vd_afterPath _ _ _
@[simp] theorem vd_pathStartState (ov : Option Override) (u : Url) (p : List Nat) :
    vd (pathStartState ov u p) = true := by
  unfold pathStartState
  split
  · split
    · split <;> exact vd_pathState _ _ _
    · exact vd_pathState _ _ _
  · split
    · split
      · split
        · exact vd_queryState _ _ _
        · split
          · rfl
          · split <;> exact vd_pathState _ _ _
      · split <;> exact vd_pathState _ _ _
    · split <;> rfl

/-! ### the instrumented model from path_start_state on: always `ok true` -/

/-- `first ≤ pointer ≤ last` -/
def Bnd (c : Ctx) (m : M) : Prop := c.first ≤ m.pointer ∧ m.pointer ≤ c.last

section tail
variable (c : Ctx) (W : c.Wf)
include W

theorem frag_ok (m : M) (hb : Bnd c m) (hs : m.state = .fragment) : kFragment c m = .ok true := by
  obtain ⟨st, p, sp, fl⟩ := m
  simp only [] at hs; subst hs
  obtain ⟨h1, h2⟩ := hb
  simp only [] at h1 h2
  refine stepB_ok rfl ?_
  unfold bFragment
  refine R.sat_bind (encLoopB_sat c.e c.a c.first c.last _ _ c.last c.fuel p h1 h2 (Nat.le_refl _) W.hl
    (by have := W.hf; omega)) ?_
  intro r _
  exact R.sat_pure rfl

theorem query_ok (m : M) (hb : Bnd c m) (hs : m.state = .query ∨ m.state = .fragment) : kQuery c m = .ok true := by
  obtain ⟨st, p, sp, fl⟩ := m
  obtain ⟨h1, h2⟩ := hb
  simp only [] at h1 h2 hs
  rcases hs with hs | hs
  · subst hs
    refine stepB_ok rfl ?_
    unfold bQuery
    simp only []
    refine R.sat_bind (P := fun q => p ≤ q ∧ q ≤ c.last) ?_ ?_
    · split
      · exact R.sat_pure (by omega)
      · upsimp
        refine R.sat_bind (findCh_sat c.a c.first c.last 0x23 W.hl _ p h1 (by omega)) ?_
        intro r hr
        cases r with
        | none => exact R.sat_pure (by omega)
        | some q => have := hr q rfl; exact R.sat_pure (by omega)
    · intro eoq heoq
      refine R.sat_bind (encLoopB_sat c.e c.a c.first c.last _ _ eoq c.fuel p h1 heoq.1 heoq.2 W.hl
        (by have := W.hf; omega)) ?_
      intro _ _
      split
      · exact R.sat_pure rfl
      · upsimp
        exact R.sat_pure (frag_ok c W _ ⟨by simp only []; omega, by simp only []; omega⟩ rfl)
  · subst hs
    rw [kQuery_skip c _ (by simp)]
    exact frag_ok c W _ ⟨h1, h2⟩ rfl

theorem afterPath_ok (m : M) (eop : Nat) (h1 : c.first ≤ eop) (h2 : eop ≤ c.last) :
    (afterPathB c.a c.first c.last m eop).sat
      (fun r => match r with
        | .inl m' => kOpaquePath c m' = .ok true ∧ kQuery c m' = .ok true
        | .inr w => w = true) := by
  obtain ⟨st, p, sp, fl⟩ := m
  unfold afterPathB
  split
  · exact R.sat_pure rfl
  · have := W.hl
    upsimp
    refine R.sat_pure ?_
    simp only []
    split
    · rw [kOpaquePath_skip c _ (by simp)]
      exact ⟨query_ok c W _ ⟨by simp only []; omega, by simp only []; omega⟩ (Or.inl rfl),
        query_ok c W _ ⟨by simp only []; omega, by simp only []; omega⟩ (Or.inl rfl)⟩
    · rw [kOpaquePath_skip c _ (by simp)]
      exact ⟨query_ok c W _ ⟨by simp only []; omega, by simp only []; omega⟩ (Or.inr rfl),
        query_ok c W _ ⟨by simp only []; omega, by simp only []; omega⟩ (Or.inr rfl)⟩

theorem opq_ok (m : M) (hb : Bnd c m) (hs : m.state = .opaquePath ∨ m.state = .query ∨ m.state = .fragment) :
    kOpaquePath c m = .ok true := by
  rcases hs with hs | hs
  · refine stepB_ok (by simp [hs]) ?_
    obtain ⟨h1, h2⟩ := hb
    unfold bOpaquePath
    refine R.sat_bind (endOfPathB_sat c.a c.first c.last m.pointer h1 h2 W.hl) ?_
    intro eop heop
    upsimp
    refine R.sat_bind (doSimplePathB_sat c.e c.a m.pointer eop heop.1 (by have := W.hl; omega)) ?_
    intro _ _
    refine R.sat_mono (afterPath_ok c W m eop (by omega) heop.2) ?_
    intro r hr
    cases r with
    | inl m' => exact hr.2
    | inr w => exact hr
  · rw [kOpaquePath_skip c _ (by rcases hs with hs | hs <;> simp [hs])]
    exact query_ok c W m hb hs

theorem path_ok (m : M) (hb : Bnd c m)
    (hs : m.state = .path ∨ m.state = .opaquePath ∨ m.state = .query ∨ m.state = .fragment) :
    kPath c m = .ok true := by
  rcases hs with hs | hs
  · refine stepB_ok (by simp [hs]) ?_
    obtain ⟨h1, h2⟩ := hb
    unfold bPath
    refine R.sat_bind (P := fun q => m.pointer ≤ q ∧ q ≤ c.last) ?_ ?_
    · split
      · exact R.sat_pure (by omega)
      · exact endOfPathB_sat c.a c.first c.last m.pointer h1 h2 W.hl
    · intro eop heop
      upsimp
      refine R.sat_bind (parsePathB_sat c.e c.a m.pointer eop m.special m.file c.orc.emptyPath heop.1
        (by have := W.hl; omega)) ?_
      intro _ _
      refine R.sat_mono (afterPath_ok c W m eop (by omega) heop.2) ?_
      intro r hr
      cases r with
      | inl m' => exact hr.1
      | inr w => exact hr
  · rw [kPath_skip c _ (by rcases hs with hs | hs | hs <;> simp [hs])]
    exact opq_ok c W m hb hs

/-- a state from which both models can only answer `ok` -/
def isTail : St → Bool
  | .pathStart | .path | .opaquePath | .query | .fragment => true
  | _ => false

theorem pathStart_ok (m : M) (hb : Bnd c m) (hs : isTail m.state = true) : kPathStart c m = .ok true := by
  obtain ⟨st, p, sp, fl⟩ := m
  obtain ⟨h1, h2⟩ := hb
  simp only [] at h1 h2 hs
  have hl := W.hl
  by_cases hps : st = .pathStart
  · subst hps
    refine stepB_ok rfl ?_
    have fin : ∀ (m' : M), Bnd c m' → (m'.state = .path ∨ m'.state = .opaquePath ∨ m'.state = .query ∨ m'.state = .fragment) →
        (pure (Sum.inl m' : M ⊕ Bool) : R (M ⊕ Bool)).sat
          (fun r => match r with | .inl m' => kPath c m' = .ok true | .inr w => w = true) :=
      fun m' hb' hs' => R.sat_pure (path_ok c W m' hb' hs')
    unfold bPathStart
    simp only []
    split
    · split
      · upsimp
        split
        · upsimp; exact fin _ ⟨by simp only []; omega, by simp only []; omega⟩ (Or.inl rfl)
        · exact fin _ ⟨h1, h2⟩ (Or.inl rfl)
      · exact fin _ ⟨h1, h2⟩ (Or.inl rfl)
    · split
      · split
        · upsimp
          split
          · upsimp; exact fin _ ⟨by simp only []; omega, by simp only []; omega⟩ (Or.inr (Or.inr (Or.inl rfl)))
          · split
            · upsimp; exact fin _ ⟨by simp only []; omega, by simp only []; omega⟩ (Or.inr (Or.inr (Or.inr rfl)))
            · split
              · upsimp; exact fin _ ⟨by simp only []; omega, by simp only []; omega⟩ (Or.inl rfl)
              · exact fin _ ⟨h1, h2⟩ (Or.inl rfl)
        · upsimp
          split
          · upsimp; exact fin _ ⟨by simp only []; omega, by simp only []; omega⟩ (Or.inl rfl)
          · exact fin _ ⟨h1, h2⟩ (Or.inl rfl)
      · exact R.sat_pure rfl
  · rw [kPathStart_skip c _ hps]
    refine path_ok c W _ ⟨h1, h2⟩ ?_
    cases st <;> simp_all [isTail]

theorem tail_ok (m : M) (hb : Bnd c m) (hs : isTail m.state = true) : kNeedSave c m = .ok true :=
  pathStart_ok c W m hb hs

end tail

/-! ### the simulation invariant and the decoded rest at a pointer -/

/-- machine state vs the URL record of the list model: pointer in range, `is_special_scheme()` / `is_file_scheme()`
    are those of the record -/
def Inv (c : Ctx) (m : M) (u : Url) : Prop := Bnd c m ∧ m.special = u.isSpecial ∧ m.file = u.isFile

theorem sat_eq {α : Type} {x : R α} {t : α} (h : x.sat (fun v => v = t)) : x = .ok t := by
  obtain ⟨v, hv, rfl⟩ := h; exact hv

theorem Ctx.D_end (c : Ctx) : c.D c.last = [] := Dl_nil c.e c.a c.last c.last (Nat.le_refl _)

theorem Ctx.D_ascii (c : Ctx) (W : c.Wf) (p : Nat) (h : p < c.last) (hc : c.a[p]! < 0x80) :
    c.D p = c.a[p]! :: c.D (p + 1) := Dl_cons_ascii c.e c.a p c.last h W.hl hc

/-- the first value of the decoded rest: the unit itself when ASCII, else some non-ASCII value -/
theorem Ctx.D_peek (c : Ctx) (W : c.Wf) (p : Nat) (h : p < c.last) :
    ∃ ch t, c.D p = ch :: t ∧
      ((c.a[p]! < 0x80 ∧ ch = c.a[p]! ∧ t = c.D (p + 1)) ∨ (¬ c.a[p]! < 0x80 ∧ ¬ ch < 0x80)) :=
  Dl_peek c.e c.a W.hu p c.last h W.hl

/-- `findIf` finds the first unit with `pred` -/
theorem findIf_specV (a : Array Nat) (first last : Nat) (pred : Nat → Bool) (hl : last ≤ a.size) :
    ∀ n p, first ≤ p → p + n ≤ last →
      (findIf a first last pred n p).sat (fun q => p ≤ q ∧ q ≤ p + n ∧
        (∀ i, p ≤ i → i < q → pred a[i]! = false) ∧ (q < p + n → pred a[q]! = true)) := by
  intro n
  induction n with
  | zero => intro p _ _; exact R.sat_pure ⟨Nat.le_refl _, Nat.le_refl _, by intro i h1 h2; omega, by intro h; omega⟩
  | succ n ih =>
    intro p h1 h2
    simp only [findIf, rd_ok h1 (by omega : p < last) hl, R.ok_bind]
    split
    · rename_i hc
      exact R.sat_pure ⟨Nat.le_refl _, by omega, by intro i h1 h2; omega, fun _ => hc⟩
    · rename_i hc
      refine R.sat_mono (ih (p + 1) (by omega) (by omega)) ?_
      intro q ⟨q1, q2, q3, q4⟩
      refine ⟨by omega, by omega, ?_, fun h => q4 (by omega)⟩
      intro i hi1 hi2
      by_cases hip : i = p
      · subst hip; simpa using hc
      · exact q3 i (by omega) hi2

end Upa.Impl.B
