import Upa.Proofs.SetRepExcOk
/-
  Helpers for C20b, part 3: the representations at the throwing primitives of the whole setters
  (`setRepT`) and of the params write-back (`updateRepT`), started on a representation of a record.
  `Pt`: some shape (offsets in bounds and ascending); `PtS`: moreover HOST started, and PORT if the
  port is non-null (so that the unguarded subtraction of `url::host()` does not wrap).
-/
set_option linter.unusedSimpArgs false

namespace Upa.Proofs.SetRepExc
open Upa Upa.Impl Upa.Proofs.C05 Upa.Proofs.SetRep Upa.Proofs.SetRepApi Upa.Props

theorem rp_port_started {u : Url} (wf : RecWF u) {A : List (List Nat)} (hA : Rp (segsOf u) A) :
    (layout u).portNotNull = true → 7 ≤ A.length := by
  intro hp
  have hp' : u.port.isSome = true := hp
  apply Classical.byContradiction
  intro hc
  have hd := hA.drop_absent (n := 6) (by omega)
  have hps : portSeg u = [] := by
    simp [segsOf] at hd; exact hd.1
  rw [portSeg_eq_nil wf hps] at hp'
  simp at hp'

theorem mem_replicate_eq {α : Type} {n : Nat} {a x : α} (h : x ∈ List.replicate n a) : x = a :=
  (List.mem_replicate.mp h).2

/-! ### query, fragment, port, clear -/

/-- QUERY / FRAGMENT written through `start_part` … `save_part`: HOST and PORT stay started -/
theorem writeTailX_pts {r : Rep} {u : Url} (ok : RepOk u) (h : RepFor r u) (pt : Nat)
    (hpt : pt = QUERY ∨ pt = FRAGMENT) (text : List Nat) :
    ∀ r' ∈ (writePartFlagX r pt text).pts, PtS r' := by
  obtain ⟨A, hA, rfl⟩ := (repFor_iff u ok.1 r).mp h
  have hlo := hA.lo
  have h7 := rp_port_started ok.1 hA
  intro r' hr'
  rw [writePartFlagX_pts] at hr'
  have hp9 : 9 ≤ pt ∧ pt ≤ 10 := by rcases hpt with rfl | rfl <;> simp [QUERY, FRAGMENT]
  refine ⟨_, _, writePartX_shape (layout u) hA pt text (by omega) hp9.2 r' hr', by omega, ?_⟩
  intro hp
  have := h7 hp
  omega

/-- PORT written through `start_part` … `save_part`: when the port is the last part the string is cut
    at the end of the host and `part_end_[PORT]` is 0 until `save_part` -/
theorem writePortX_pts {r : Rep} {u : Url} (ok : RepOk u) (h : RepFor r u) (text : List Nat) :
    ∀ r' ∈ (writePartFlagX r PORT text).pts, Pt r' := by
  obtain ⟨A, hA, rfl⟩ := (repFor_iff u ok.1 r).mp h
  intro r' hr'
  rw [writePartFlagX_pts] at hr'
  exact ⟨_, _, writePartX_shape (layout u) hA PORT text (by simp [PORT]) (by simp [PORT]) r' hr'⟩

theorem clearX_pts {r : Rep} {u : Url} (ok : RepOk u) (h : RepFor r u) (pt : Nat) :
    ∀ r' ∈ (clearPartX r pt).pts, PtS r' := by
  intro r' hr'
  rw [clearPartX_pts r pt r' hr']
  exact ptS_of_repFor ok.1 h

theorem queryStateRepX_pts {r : Rep} {u : Url} (ok : RepOk u) (h : RepFor r u) (p : List Nat) :
    ∀ r' ∈ (queryStateRepX r p).pts, PtS r' := by
  intro r' hr'
  simp only [queryStateRepX, pts_bind, pts_pure, List.append_nil] at hr'
  exact writeTailX_pts ok h QUERY (Or.inl rfl) _ r' hr'

theorem fragmentStateRepX_pts {r : Rep} {u : Url} (ok : RepOk u) (h : RepFor r u) (p : List Nat) :
    ∀ r' ∈ (fragmentStateRepX r p).pts, PtS r' := by
  intro r' hr'
  simp only [fragmentStateRepX, pts_bind, pts_pure, List.append_nil] at hr'
  exact writeTailX_pts ok h FRAGMENT (Or.inr rfl) _ r' hr'

theorem portStateRepX_pts {r : Rep} {u : Url} (ok : RepOk u) (h : RepFor r u) (p : List Nat) :
    ∀ r' ∈ (portStateRepX r p).pts, Pt r' := by
  intro r' hr'
  unfold portStateRepX at hr'
  simp only at hr'
  split at hr'
  · split at hr'
    · simp at hr'
    · split at hr'
      · simp at hr'
      · split at hr'
        · simp only [pts_bind, pts_pure, List.append_nil] at hr'
          exact writePortX_pts ok h _ r' hr'
        · simp only [pts_bind, pts_pure, List.append_nil] at hr'
          exact (clearX_pts ok h PORT r' hr').pt
  · simp at hr'

/-! ### username, password: all-or-nothing -/

theorem writeCredX_pts {r : Rep} {u : Url} (ok : RepOk u) (h : RepFor r u) {x : Host}
    (hh : u.host = some x) (hx : x.text ≠ []) (pt : Nat) (hpt : pt = USERNAME ∨ pt = PASSWORD)
    (text : List Nat) : ∀ r' ∈ (writePartX r pt text).pts, r' = r := by
  obtain ⟨A, hA, rfl⟩ := (repFor_iff u ok.1 r).mp h
  apply writePartX_strp (layout u) hA pt text
  rcases hpt with rfl | rfl <;> simp [segsOf, USERNAME, PASSWORD, Url.hostText, hh, hx]

/-! ### protocol -/

/-- url.h:1717-1742 with the throwing primitives -/
def protoTailX (r : Rep) (scheme : List Nat) : X (Rep × Bool) :=
  let inf := schemeIndex scheme
  if r.isSpecialScheme != inf.isSome then pure (r, false)
  else if inf == some 4 && (r.hasCredentials || r.portNotNull) then pure (r, false)
  else if r.isFileScheme && r.isEmpty HOST then pure (r, false)
  else do
    let r1 ← saveSchemeX r scheme
    let dp := schemeInfDefaultPort inf
    let r2 ← (if dp.isSome && r1.portInt == dp then clearPartX r1 PORT else pure r1)
    pure (r2, true)

theorem protocolRepX_cons (r : Rep) (c0 : Nat) (r0 : List Nat) :
    protocolRepX r (c0 :: r0) =
      if !isAlpha c0 then pure (r, false)
      else if !isSchemeOv r0 then pure (r, false)
      else (mayThrowN ((c0 :: r0.takeWhile isSchemeChar).map (· ||| 0x20)).length r >>= fun _ =>
        protoTailX r ((c0 :: r0.takeWhile isSchemeChar).map (· ||| 0x20))) := rfl

theorem protoTailX_pts (r : Rep) (scheme : List Nat) :
    ∀ r' ∈ (protoTailX r scheme).pts, r' = r ∨ r' = saveScheme r scheme := by
  intro r' hr'
  unfold protoTailX at hr'
  simp only [pts_ite, pts_bind, pts_pure, saveSchemeX_pts, saveSchemeX_val, List.append_nil] at hr'
  split at hr'
  · simp at hr'
  · split at hr'
    · simp at hr'
    · split at hr'
      · simp at hr'
      · rcases List.mem_append.mp hr' with h1 | h1
        · exact Or.inl (by simpa using h1)
        · split at h1
          · exact Or.inr (clearPartX_pts _ _ r' h1)
          · simp at h1

theorem protocolRepX_pts {r : Rep} {u : Url} (ok : RepOk u) (h : RepFor r u) (p : List Nat) :
    ∀ r' ∈ (protocolRepX r p).pts, PtS r' := by
  have hr : PtS r := ptS_of_repFor ok.1 h
  intro r' hr'
  cases p with
  | nil => simp [protocolRepX] at hr'
  | cons c0 r0 =>
    rw [protocolRepX_cons] at hr'
    simp only [pts_ite, pts_bind, pts_pure, pts_mayThrowN] at hr'
    split at hr'
    · simp at hr'
    · split at hr'
      · simp at hr'
      · rcases List.mem_append.mp hr' with h1 | h1
        · rw [mem_replicate_eq h1]; exact hr
        · rcases protoTailX_pts _ _ r' h1 with h2 | h2
          · rw [h2]; exact hr
          · have hsne : (c0 :: r0.takeWhile isSchemeChar).map (· ||| 0x20) ≠ [] := by simp
            rw [h2]
            exact ptS_of_repFor (repOk_scheme ok _ hsne).1 (C05b_save_scheme u _ r ok hsne h)

/-! ### host -/

theorem parseHostRepX_pts {r : Rep} {u : Url} (ok : RepOk u) (ho : u.hasOpaquePath = false)
    (h : RepFor r u) (idna : Idna) (s : List Nat) :
    ∀ r' ∈ (parseHostRepX idna r s).pts, Pt r' := by
  have hrep := (repFor_iff u ok.1 r).mp h
  intro r' hr'
  unfold parseHostRepX at hr'
  cases s with
  | nil =>
    simp only [pts_bind, pts_pure, List.append_nil] at hr'
    exact (writeHostX_pts u [] 0 ok hrep ho r' hr').1
  | cons c t =>
    simp only [pts_bind, pts_mayThrowN, List.mem_append] at hr'
    rcases hr' with h1 | h1
    · rw [mem_replicate_eq h1]; exact (ptS_of_repFor ok.1 h).pt
    · cases hp : parseHost idna (c :: t) (!r.isSpecialScheme) with
      | none => rw [hp] at h1; simp at h1
      | some hd =>
        rw [hp] at h1
        simp only [pts_bind, pts_pure, List.append_nil] at h1
        exact (writeHostX_pts u hd.text _ ok hrep ho r' h1).1

/-- what `parseHostRepX` returns: the representation untouched and `false`, or a representation of
    the record with the new host (or, for the empty input of a special URL, that and `false`) -/
theorem parseHostRepX_res {r : Rep} {u : Url} (ok : RepOk u) (ho : u.hasOpaquePath = false)
    (h : RepFor r u) (idna : Idna) (s : List Nat) :
    (parseHostRepX idna r s).val.1 = r ∨
      ∃ hd, RepFor (parseHostRepX idna r s).val.1 { u with host := some hd } := by
  rw [parseHostRepX_val]
  unfold parseHostRep
  cases s with
  | nil => exact Or.inr ⟨_, C05b_write_host u { kind := .empty, text := [] } r ok ho h⟩
  | cons c t =>
    simp only
    cases hp : parseHost idna (c :: t) (!r.isSpecialScheme) with
    | none => exact Or.inl rfl
    | some hd => exact Or.inr ⟨hd, C05b_write_host u hd r ok ho h⟩

theorem fileHostStateRepX_pts {r : Rep} {u : Url} (ok : RepOk u) (ho : u.hasOpaquePath = false)
    (h : RepFor r u) (idna : Idna) (p : List Nat) :
    ∀ r' ∈ (fileHostStateRepX idna r p).pts, Pt r' := by
  intro r' hr'
  unfold fileHostStateRepX at hr'
  simp only at hr'
  split at hr'
  · simp only [pts_bind, pts_pure, List.append_nil] at hr'
    obtain ⟨A, hA, rfl⟩ := (repFor_iff u ok.1 r).mp h
    exact setEmptyHostX_pts _ hA r' hr'
  · simp only [pts_bind, List.mem_append] at hr'
    rcases hr' with h1 | h1
    · exact parseHostRepX_pts ok ho h idna _ r' h1
    · simp only [pts_ite, pts_pure, pts_bind, List.append_nil] at h1
      split at h1
      · simp at h1
      · split at h1
        · rw [emptyHostRepX_pts _ r' h1]
          rcases parseHostRepX_res ok ho h idna (p.takeWhile (fun c => !isSpecialAuthorityEnd c)) with e | ⟨hd, e⟩
          · rw [e]; exact (ptS_of_repFor ok.1 h).pt
          · exact (ptS_of_repFor (repOk_host ok ho hd).1 e).pt
        · simp at h1

theorem hostStateRepX_pts {r : Rep} {u : Url} (ok : RepOk u) (ho : u.hasOpaquePath = false)
    (h : RepFor r u) (idna : Idna) (b : Bool) (p : List Nat) :
    ∀ r' ∈ (hostStateRepX idna b r p).pts, Pt r' := by
  intro r' hr'
  unfold hostStateRepX at hr'
  split at hr'
  · exact fileHostStateRepX_pts ok ho h idna p r' hr'
  · simp only at hr'
    generalize hostScan _ false = sc at hr'
    obtain ⟨hostPart, portPart⟩ := sc
    simp only at hr'
    split at hr'
    · simp at hr'
    · split at hr'
      · simp at hr'
      · split at hr'
        · simp at hr'
        · simp only [pts_bind, List.mem_append] at hr'
          rcases hr' with h1 | h1
          · exact parseHostRepX_pts ok ho h idna _ r' h1
          · split at h1
            · simp at h1
            · cases portPart with
              | none => simp at h1
              | some pp =>
                simp only at h1
                rcases parseHostRepX_res ok ho h idna hostPart with e | ⟨hd, e⟩
                · rw [e] at h1
                  exact portStateRepX_pts ok h _ r' h1
                · exact portStateRepX_pts (repOk_host ok ho hd) e _ r' h1

/-! ### path: the new path is built in temporaries of the setter -/

theorem pathSegmentBufX_pts (r : Rep) (isFile : Bool) (b : PathBuf) (seg : List Nat) (l : Bool) :
    ∀ r' ∈ (pathSegmentBufX r isFile b seg l).pts, r' = r := by
  intro r' hr'
  unfold pathSegmentBufX at hr'
  split at hr'
  · simp only [pts_ite, pushX_pts, pts_pure] at hr'
    split at hr'
    · exact mem_replicate_eq hr'
    · simp at hr'
  · split at hr'
    · simp only [pts_ite, pushX_pts, pts_pure] at hr'
      split at hr'
      · exact mem_replicate_eq hr'
      · simp at hr'
    · split at hr'
      · simp only [pts_ite, pushX_pts] at hr'
        split at hr' <;> exact mem_replicate_eq hr'
      · simp only [pushX_pts] at hr'
        exact mem_replicate_eq hr'

theorem pathSegmentsBufX_pts (r : Rep) (isFile : Bool) (b : PathBuf) (segs : List (List Nat)) :
    ∀ r' ∈ (pathSegmentsBufX r isFile b segs).pts, r' = r := by
  induction segs generalizing b with
  | nil => intro r' hr'; simp [pathSegmentsBufX] at hr'
  | cons seg rest ih =>
    cases rest with
    | nil => exact pathSegmentBufX_pts r isFile b seg true
    | cons s2 r2 =>
      intro r' hr'
      rw [pathSegmentsBufX] at hr'
      · simp only [pts_bind, List.mem_append] at hr'
        rcases hr' with h1 | h1
        · exact pathSegmentBufX_pts r isFile b seg false r' h1
        · exact ih _ r' h1
      · simp

theorem parsePathBufX_pts (r : Rep) (s : List Nat) : ∀ r' ∈ (parsePathBufX r s).pts, r' = r := by
  unfold parsePathBufX
  exact pathSegmentsBufX_pts r _ _ _

theorem commitPathBufX_pts {r : Rep} {u : Url} (ok : RepOk u) (h : RepFor r u) (b : PathBuf) :
    ∀ r' ∈ (commitPathBufX r b).pts, PtS r' := by
  obtain ⟨A, hA, rfl⟩ := (repFor_iff u ok.1 r).mp h
  exact commitPathX_pts (layout u) hA _ _

theorem pathStartStateRepX_pts {r : Rep} {u : Url} (ok : RepOk u) (h : RepFor r u) (p : List Nat) :
    ∀ r' ∈ (pathStartStateRepX r p).pts, PtS r' := by
  have hr : PtS r := ptS_of_repFor ok.1 h
  intro r' hr'
  unfold pathStartStateRepX at hr'
  split at hr'
  · simp only [pts_bind, pts_pure, List.append_nil, List.mem_append] at hr'
    rcases hr' with h1 | h1
    · rw [parsePathBufX_pts _ _ r' h1]; exact hr
    · exact commitPathBufX_pts ok h _ r' h1
  · cases p with
    | nil =>
      simp only [pts_bind, pts_pure, List.append_nil, List.mem_append, pts_ite, pushX_pts] at hr'
      rcases hr' with h1 | h1
      · split at h1
        · rw [mem_replicate_eq h1]; exact hr
        · simp at h1
      · exact commitPathBufX_pts ok h _ r' h1
    | cons c rest =>
      simp only [pts_bind, pts_pure, List.append_nil, List.mem_append] at hr'
      rcases hr' with h1 | h1
      · rw [parsePathBufX_pts _ _ r' h1]; exact hr
      · exact commitPathBufX_pts ok h _ r' h1

/-! ### the whole setters, the params write-back -/

theorem preludeX_pts (r : Rep) : ∀ r' ∈ (preludeX r).pts, r' = r := by
  intro r' hr'
  exact mem_replicate_eq hr'

/-- `username` / `password`: a failure leaves the representation exactly as it was -/
theorem credSetterT_pts (idna : Idna) (s : Setter) (hs : s = .username ∨ s = .password) (e : Enc)
    (units : List Nat) {u : Url} {r : Rep} (ok : RepOk u) (h : RepFor r u) :
    ∀ r' ∈ (setRepT idna s e units r).pts, r' = r := by
  intro r' hr'
  rcases hs with rfl | rfl
  · unfold setRepT at hr'
    simp only at hr'
    split at hr'
    · rename_i hc
      rw [canHave_eq ok.1 h] at hc
      obtain ⟨x, hx, hxt⟩ := canHave_host hc
      simp only [pts_bind, pts_mayThrow, pts_pure, List.append_nil, List.mem_append,
        List.mem_singleton] at hr'
      rcases hr' with h1 | h1
      · exact h1
      · exact writeCredX_pts ok h hx hxt USERNAME (Or.inl rfl) _ r' h1
    · simp at hr'
  · unfold setRepT at hr'
    simp only at hr'
    split at hr'
    · rename_i hc
      rw [canHave_eq ok.1 h] at hc
      obtain ⟨x, hx, hxt⟩ := canHave_host hc
      simp only [pts_bind, pts_mayThrow, pts_pure, List.append_nil, List.mem_append,
        List.mem_singleton] at hr'
      rcases hr' with h1 | h1
      · exact h1
      · exact writeCredX_pts ok h hx hxt PASSWORD (Or.inr rfl) _ r' h1
    · simp at hr'

/-- every setter but `href`, `host`, `hostname`, `port`: at every throwing primitive HOST is started,
    and PORT too if the port is non-null -/
theorem setRepT_ptsS (idna : Idna) (s : Setter) (e : Enc) (units : List Nat) {u : Url} {r : Rep}
    (hs : s ≠ .host ∧ s ≠ .hostname ∧ s ≠ .port) (ok : RepOk u) (h : RepFor r u) :
    ∀ r' ∈ (setRepT idna s e units r).pts, PtS r' := by
  have hr : PtS r := ptS_of_repFor ok.1 h
  intro r' hr'
  cases s with
  | href => simp [setRepT] at hr'
  | protocol =>
    simp only [setRepT, pts_bind, List.mem_append] at hr'
    rcases hr' with h1 | h1
    · rw [preludeX_pts r r' h1]; exact hr
    · exact protocolRepX_pts ok h _ r' h1
  | username => rw [credSetterT_pts idna .username (Or.inl rfl) e units ok h r' hr']; exact hr
  | password => rw [credSetterT_pts idna .password (Or.inr rfl) e units ok h r' hr']; exact hr
  | host => exact absurd rfl hs.1
  | hostname => exact absurd rfl hs.2.1
  | port => exact absurd rfl hs.2.2
  | pathname =>
    unfold setRepT at hr'
    simp only at hr'
    split at hr'
    · simp only [pts_bind, List.mem_append] at hr'
      rcases hr' with h1 | h1
      · rw [preludeX_pts r r' h1]; exact hr
      · exact pathStartStateRepX_pts ok h _ r' h1
    · simp at hr'
  | search =>
    unfold setRepT at hr'
    cases units with
    | nil =>
      simp only [pts_bind, pts_pure, List.append_nil] at hr'
      exact clearX_pts ok h QUERY r' hr'
    | cons c rest =>
      simp only [pts_bind, pts_pure, List.append_nil, List.mem_append, pts_mayThrow,
        List.mem_singleton] at hr'
      rcases hr' with h1 | h1 | h1
      · rw [preludeX_pts r r' h1]; exact hr
      · exact queryStateRepX_pts ok h _ r' h1
      · rw [h1, queryStateRepX_val]
        have k := sim_query ok h .query (prep e (if c = 0x3F then rest else c :: rest))
        exact ptS_of_repFor k.2.1.1 k.1
  | hash =>
    unfold setRepT at hr'
    cases units with
    | nil =>
      simp only [pts_bind, pts_pure, List.append_nil] at hr'
      exact clearX_pts ok h FRAGMENT r' hr'
    | cons c rest =>
      simp only [pts_bind, List.mem_append] at hr'
      rcases hr' with h1 | h1
      · rw [preludeX_pts r r' h1]; exact hr
      · exact fragmentStateRepX_pts ok h _ r' h1

/-- every setter but `href`: at every throwing primitive the representation has some shape -/
theorem setRepT_pts (idna : Idna) (s : Setter) (e : Enc) (units : List Nat) {u : Url} {r : Rep}
    (ok : RepOk u) (h : RepFor r u) :
    ∀ r' ∈ (setRepT idna s e units r).pts, Pt r' := by
  have hr : Pt r := (ptS_of_repFor ok.1 h).pt
  by_cases hs : s ≠ .host ∧ s ≠ .hostname ∧ s ≠ .port
  · exact fun r' hr' => (setRepT_ptsS idna s e units hs ok h r' hr').pt
  · intro r' hr'
    have ho : r.opaquePath = u.hasOpaquePath := opaquePath_eq ok.1 h
    cases s with
    | host =>
      unfold setRepT at hr'
      simp only at hr'
      split at hr'
      · rename_i hc
        simp only [pts_bind, List.mem_append] at hr'
        rcases hr' with h1 | h1
        · rw [preludeX_pts r r' h1]; exact hr
        · exact hostStateRepX_pts ok (by rw [ho] at hc; simpa using hc) h idna _ _ r' h1
      · simp at hr'
    | hostname =>
      unfold setRepT at hr'
      simp only at hr'
      split at hr'
      · rename_i hc
        simp only [pts_bind, List.mem_append] at hr'
        rcases hr' with h1 | h1
        · rw [preludeX_pts r r' h1]; exact hr
        · exact hostStateRepX_pts ok (by rw [ho] at hc; simpa using hc) h idna _ _ r' h1
      · simp at hr'
    | port =>
      unfold setRepT at hr'
      simp only at hr'
      split at hr'
      · split at hr'
        · simp only [pts_bind, pts_pure, List.append_nil] at hr'
          exact (clearX_pts ok h PORT r' hr').pt
        · simp only [pts_bind, List.mem_append] at hr'
          rcases hr' with h1 | h1
          · rw [preludeX_pts r r' h1]; exact hr
          · exact portStateRepX_pts ok h _ r' h1
      · simp at hr'
    | _ => simp at hs

/-- `url_search_params::update()` -/
theorem updateRepT_pts {u : Url} {r : Rep} (ok : RepOk u) (h : RepFor r u) (l : List BPair) :
    ∀ r' ∈ (updateRepT r l).pts, PtS r' := by
  intro r' hr'
  unfold updateRepT at hr'
  split at hr'
  · simp only [pts_bind, pts_pure, List.append_nil] at hr'
    exact clearX_pts ok h QUERY r' hr'
  · exact writeTailX_pts ok h QUERY (Or.inl rfl) _ r' hr'

theorem updateRepSerT_pts {u : Url} {r : Rep} (ok : RepOk u) (h : RepFor r u) (ser : List Nat) :
    ∀ r' ∈ (updateRepSerT r ser).pts, PtS r' := by
  intro r' hr'
  unfold updateRepSerT at hr'
  split at hr'
  · simp only [pts_bind, pts_pure, List.append_nil] at hr'
    exact clearX_pts ok h QUERY r' hr'
  · exact writeTailX_pts ok h QUERY (Or.inl rfl) _ r' hr'

/-! ### host, hostname, port when the URL has a path, a query or a fragment

  Then neither the host nor the port is the last part: `url_setter::start_part` takes the `use_strp_`
  branch and the string is touched by `replace_part` only. -/

/-- text behind PATH_PREFIX -/
def Tail (u : Url) : Prop := pathText u ++ querySeg u ++ fragSeg u ≠ []

theorem tail_host {u : Url} (hd : Host) (ht : Tail u) : Tail { u with host := some hd } := ht

theorem tail_drop {u : Url} (ht : Tail u) (n : Nat) (hn : n ≤ 8) : (List.drop n (segsOf u)).flatten ≠ [] := by
  intro hc
  apply ht
  have e : List.drop n (segsOf u) = List.drop n (List.take 8 (segsOf u)) ++ List.drop 8 (segsOf u) := by
    conv => lhs; rw [← List.take_append_drop 8 (segsOf u)]
    rw [List.drop_append_of_le_length (by simp [segsOf]; omega)]
  rw [e, List.flatten_append, List.append_eq_nil_iff] at hc
  have := hc.2
  simpa [segsOf] using this

theorem writePortX_ptsS {r : Rep} {u : Url} (ok : RepOk u) (h : RepFor r u) (ht : Tail u) (text : List Nat) :
    ∀ r' ∈ (writePartFlagX r PORT text).pts, PtS r' := by
  have hr : PtS r := ptS_of_repFor ok.1 h
  obtain ⟨A, hA, rfl⟩ := (repFor_iff u ok.1 r).mp h
  intro r' hr'
  rw [writePartFlagX_pts] at hr'
  rw [writePartX_strp (layout u) hA PORT text (tail_drop ht _ (by simp [PORT])) r' hr']
  exact hr

theorem portStateRepX_ptsS {r : Rep} {u : Url} (ok : RepOk u) (h : RepFor r u) (ht : Tail u) (p : List Nat) :
    ∀ r' ∈ (portStateRepX r p).pts, PtS r' := by
  intro r' hr'
  unfold portStateRepX at hr'
  simp only at hr'
  split at hr'
  · split at hr'
    · simp at hr'
    · split at hr'
      · simp at hr'
      · split at hr'
        · simp only [pts_bind, pts_pure, List.append_nil] at hr'
          exact writePortX_ptsS ok h ht _ r' hr'
        · simp only [pts_bind, pts_pure, List.append_nil] at hr'
          exact clearX_pts ok h PORT r' hr'
  · simp at hr'

theorem tail_follow {u : Url} (ht : Tail u) :
    (portSeg u ++ prefixSeg u ++ pathText u ++ querySeg u ++ fragSeg u) ≠ [] := by
  intro hc
  apply ht
  simp only [List.append_eq_nil_iff] at hc ⊢
  exact ⟨⟨hc.1.1.2, hc.1.2⟩, hc.2⟩

theorem parseHostRepX_ptsS {r : Rep} {u : Url} (ok : RepOk u) (ho : u.hasOpaquePath = false)
    (h : RepFor r u) (ht : Tail u) (idna : Idna) (s : List Nat) :
    ∀ r' ∈ (parseHostRepX idna r s).pts, PtS r' := by
  have hrep := (repFor_iff u ok.1 r).mp h
  intro r' hr'
  unfold parseHostRepX at hr'
  cases s with
  | nil =>
    simp only [pts_bind, pts_pure, List.append_nil] at hr'
    exact (writeHostX_pts u [] 0 ok hrep ho r' hr').2 (tail_follow ht)
  | cons c t =>
    simp only [pts_bind, pts_mayThrowN, List.mem_append] at hr'
    rcases hr' with h1 | h1
    · rw [mem_replicate_eq h1]; exact ptS_of_repFor ok.1 h
    · cases hp : parseHost idna (c :: t) (!r.isSpecialScheme) with
      | none => rw [hp] at h1; simp at h1
      | some hd =>
        rw [hp] at h1
        simp only [pts_bind, pts_pure, List.append_nil] at h1
        exact (writeHostX_pts u hd.text _ ok hrep ho r' h1).2 (tail_follow ht)

theorem fileHostStateRepX_ptsS {r : Rep} {u : Url} (ok : RepOk u) (ho : u.hasOpaquePath = false)
    (h : RepFor r u) (ht : Tail u) (idna : Idna) (p : List Nat) :
    ∀ r' ∈ (fileHostStateRepX idna r p).pts, PtS r' := by
  intro r' hr'
  unfold fileHostStateRepX at hr'
  simp only at hr'
  split at hr'
  · simp only [pts_bind, pts_pure, List.append_nil, setEmptyHostX] at hr'
    have hr : PtS r := ptS_of_repFor ok.1 h
    obtain ⟨A, hA, rfl⟩ := (repFor_iff u ok.1 r).mp h
    rw [writePartX_strp (layout u) hA HOST [] (tail_drop ht _ (by simp [HOST])) r' hr']
    exact hr
  · simp only [pts_bind, List.mem_append] at hr'
    rcases hr' with h1 | h1
    · exact parseHostRepX_ptsS ok ho h ht idna _ r' h1
    · simp only [pts_ite, pts_pure, pts_bind, List.append_nil] at h1
      split at h1
      · simp at h1
      · split at h1
        · rw [emptyHostRepX_pts _ r' h1]
          rcases parseHostRepX_res ok ho h idna (p.takeWhile (fun c => !isSpecialAuthorityEnd c)) with e | ⟨hd, e⟩
          · rw [e]; exact ptS_of_repFor ok.1 h
          · exact ptS_of_repFor (repOk_host ok ho hd).1 e
        · simp at h1

theorem hostStateRepX_ptsS {r : Rep} {u : Url} (ok : RepOk u) (ho : u.hasOpaquePath = false)
    (h : RepFor r u) (ht : Tail u) (idna : Idna) (b : Bool) (p : List Nat) :
    ∀ r' ∈ (hostStateRepX idna b r p).pts, PtS r' := by
  intro r' hr'
  unfold hostStateRepX at hr'
  split at hr'
  · exact fileHostStateRepX_ptsS ok ho h ht idna p r' hr'
  · simp only at hr'
    generalize hostScan _ false = sc at hr'
    obtain ⟨hostPart, portPart⟩ := sc
    simp only at hr'
    split at hr'
    · simp at hr'
    · split at hr'
      · simp at hr'
      · split at hr'
        · simp at hr'
        · simp only [pts_bind, List.mem_append] at hr'
          rcases hr' with h1 | h1
          · exact parseHostRepX_ptsS ok ho h ht idna _ r' h1
          · split at h1
            · simp at h1
            · cases portPart with
              | none => simp at h1
              | some pp =>
                simp only at h1
                rcases parseHostRepX_res ok ho h idna hostPart with e | ⟨hd, e⟩
                · rw [e] at h1
                  exact portStateRepX_ptsS ok h ht _ r' h1
                · exact portStateRepX_ptsS (repOk_host ok ho hd) e (tail_host hd ht) _ r' h1

/-- `host`, `hostname`, `port` on a URL with a path, a query or a fragment -/
theorem setRepT_ptsS_tail (idna : Idna) (s : Setter) (e : Enc) (units : List Nat) {u : Url} {r : Rep}
    (ok : RepOk u) (h : RepFor r u) (ht : Tail u) :
    ∀ r' ∈ (setRepT idna s e units r).pts, PtS r' := by
  have hr : PtS r := ptS_of_repFor ok.1 h
  by_cases hs : s ≠ .host ∧ s ≠ .hostname ∧ s ≠ .port
  · exact setRepT_ptsS idna s e units hs ok h
  · intro r' hr'
    have ho : r.opaquePath = u.hasOpaquePath := opaquePath_eq ok.1 h
    cases s with
    | host =>
      unfold setRepT at hr'
      simp only at hr'
      split at hr'
      · rename_i hc
        simp only [pts_bind, List.mem_append] at hr'
        rcases hr' with h1 | h1
        · rw [preludeX_pts r r' h1]; exact hr
        · exact hostStateRepX_ptsS ok (by rw [ho] at hc; simpa using hc) h ht idna _ _ r' h1
      · simp at hr'
    | hostname =>
      unfold setRepT at hr'
      simp only at hr'
      split at hr'
      · rename_i hc
        simp only [pts_bind, List.mem_append] at hr'
        rcases hr' with h1 | h1
        · rw [preludeX_pts r r' h1]; exact hr
        · exact hostStateRepX_ptsS ok (by rw [ho] at hc; simpa using hc) h ht idna _ _ r' h1
      · simp at hr'
    | port =>
      unfold setRepT at hr'
      simp only at hr'
      split at hr'
      · split at hr'
        · simp only [pts_bind, pts_pure, List.append_nil] at hr'
          exact clearX_pts ok h PORT r' hr'
        · simp only [pts_bind, List.mem_append] at hr'
          rcases hr' with h1 | h1
          · rw [preludeX_pts r r' h1]; exact hr
          · exact portStateRepX_ptsS ok h ht _ r' h1
      · simp at hr'
    | _ => simp at hs

/-- a special URL with a non-null host has a path (at least "/")… provided its list path is non-empty -/
theorem tail_of_path {u : Url} (ho : u.hasOpaquePath = false) (hp : u.path ≠ []) : Tail u := by
  intro hc
  simp only [List.append_eq_nil_iff] at hc
  exact pathText_ne_nil ho hp hc.1.1

end Upa.Proofs.SetRepExc
