import Upa.Proofs.BoundsMiscAgree2Path
/-
  Helper lemmas for C04h, part 6: `isUncPath` of `Upa/Impl/Bounds.lean` (url.h:3032-3089) = `Impl.isUncPath`.
-/
set_option linter.unusedSimpArgs false

namespace Upa.Impl.B

theorem uncL_nil (f n : Nat) (share : Option (List Nat)) : Impl.isUncPathAux (f + 1) [] n share = share := by
  simp [Impl.isUncPathAux]

theorem uncL_zero (s : List Nat) (n : Nat) (share : Option (List Nat)) : Impl.isUncPathAux 0 s n share = none := by
  simp [Impl.isUncPathAux]

theorem slice_eq_nil_iff' (a : Array Nat) (p q : Nat) (hl : q ≤ a.size) : slice a p q = [] ↔ q ≤ p := by
  constructor
  · intro he
    have := slice_length a p q hl
    rw [he] at this
    simp at this
    omega
  · intro h; exact slice_nil a p q h

/-- the component `[start, pcend)` that `std::find_if(start, last, is_windows_slash)` delimits -/
theorem comp_rest (a : Array Nat) (start pcend last : Nat) (hl : last ≤ a.size) (h1 : start ≤ pcend) (h2 : pcend ≤ last)
    (h3 : ∀ i, start ≤ i → i < pcend → Impl.isWindowsSlash a[i]! = false)
    (h4 : pcend < last → Impl.isWindowsSlash a[pcend]! = true) :
    (slice a start last).takeWhile (fun c => !Impl.isWindowsSlash c) = slice a start pcend ∧
    (slice a start last).dropWhile (fun c => !Impl.isWindowsSlash c) = slice a pcend last := by
  have hd := dropWhile_slice (fun c => !Impl.isWindowsSlash c) a last hl (pcend - start) start (by omega)
    (by intro i hi1 hi2; simp [h3 i hi1 (by omega)])
    (by intro hlt; have e : start + (pcend - start) = pcend := by omega
        rw [e]; simp [h4 (by omega)])
  have e : start + (pcend - start) = pcend := by omega
  rw [e] at hd
  refine ⟨?_, hd⟩
  have ht := List.takeWhile_append_dropWhile (p := fun c => !Impl.isWindowsSlash c) (l := slice a start last)
  rw [hd] at ht
  exact List.append_cancel_right (ht.trans (slice_append a start pcend last h1 h2 hl).symm)

theorem isUncPath_agrees (a : Array Nat) (first last : Nat) (h : first ≤ last) (hl : last ≤ a.size) :
    (isUncPath a first last).sat (fun o => o.map (fun p => slice a p last) = Impl.isUncPath (slice a first last)) := by
  unfold isUncPath Impl.isUncPath
  rw [slice_length a first last hl]
  refine iter_sat _ (fun s => first ≤ s.1 ∧ s.1 ≤ last ∧ ∃ f, last - s.1 < f ∧
      Impl.isUncPathAux f (slice a s.1 last) s.2.1 (s.2.2.map (fun p => slice a p last)) =
        Impl.isUncPathAux (last - first + 1) (slice a first last) 0 none)
    (fun s => last - s.1) _ ?_ _ _ ⟨Nat.le_refl _, h, last - first + 1, by omega, rfl⟩ (by rarith)
  intro ⟨start, count, eos⟩ ⟨i1, i2, f, hf, hT⟩
  simp only at i1 i2 hf hT ⊢
  obtain ⟨f0, rfl⟩ : ∃ f0, f = f0 + 1 := ⟨f - 1, by omega⟩
  split
  · rename_i hsl
    refine R.sat_pure ?_
    simp only []
    rw [hsl, slice_nil a last last (Nat.le_refl _), uncL_nil] at hT
    exact hT
  rename_i hsl
  have hlt : start < last := by omega
  simp only [sub_ok i1 (Nat.le_of_lt hlt) (Nat.le_refl _), R.ok_bind]
  refine R.sat_bind (findIf_spec a first last Impl.isWindowsSlash hl (last - start) start i1 (by omega)) ?_
  intro pcend ⟨p1, p2, p3, p4⟩
  have hp2 : pcend ≤ last := by omega
  obtain ⟨hcomp, hrest⟩ := comp_rest a start pcend last hl p1 hp2 p3 (fun hh => p4 (by omega))
  have hne : slice a start last ≠ [] := by rw [slice_cons a start last hlt hl]; simp
  -- one iteration of the list model
  have hstep : Impl.isUncPathAux (f0 + 1) (slice a start last) count (eos.map (fun p => slice a p last)) =
      (if slice a start pcend = [] then none
       else if (slice a start pcend).any (· == 0) = true then none
       else if (if count + 1 = 1 then
                (match slice a start pcend with
                  | [x] => x == 0x3F || x == 0x2E
                  | [x, y] => Impl.isWindowsDrive x y
                  | _ => false)
              else if count + 1 = 2 then
                (match slice a start pcend with
                  | [x] => x == 0x2E
                  | [x, y] => x == 0x2E && y == 0x2E
                  | _ => false)
              else false) = true then none
       else match slice a pcend last with
         | [] => (if count + 1 = 2 then some (slice a pcend last) else eos.map (fun p => slice a p last))
         | _ :: r => Impl.isUncPathAux f0 r (count + 1)
             (if count + 1 = 2 then some (slice a pcend last) else eos.map (fun p => slice a p last))) := by
    generalize hs : slice a start last = s at hcomp hrest hne
    cases s with
    | nil => exact absurd rfl hne
    | cons c s' =>
      rw [Impl.isUncPathAux]
      simp only [hcomp, hrest]
      rfl
      intro hh; cases hh
  rw [hstep] at hT
  split
  · rename_i hsp
    rw [if_pos ((slice_eq_nil_iff' a start pcend (by omega)).2 (by omega))] at hT
    exact R.sat_pure (by simp only []; exact hT)
  rename_i hsp
  have hsp' : start < pcend := by omega
  rw [if_neg (fun hh => by have := (slice_eq_nil_iff' a start pcend (by omega)).1 hh; omega)] at hT
  simp only [sub_ok i1 p1 hp2, R.ok_bind]
  refine R.sat_bind (findCh_spec a first last 0 hl (pcend - start) start i1 (by omega)) ?_
  intro r hr
  cases r with
  | some q =>
    obtain ⟨q1, q2, q3, _⟩ := hr
    have hany : (slice a start pcend).any (· == 0) = true := by
      rw [List.any_eq_true]
      exact ⟨a[q]!, slice_mem_of_idx a start pcend q q1 (by omega) (by omega), by simp [q3]⟩
    rw [if_pos hany] at hT
    exact R.sat_pure (by simp only []; exact hT)
  | none =>
    simp only [] at hr
    have hany : ¬ ((slice a start pcend).any (· == 0) = true) := by
      intro hh
      rw [List.any_eq_true] at hh
      obtain ⟨x, hx, hx0⟩ := hh
      obtain ⟨i, hi1, hi2, rfl⟩ := mem_slice a start pcend x (by omega) hx
      exact hr i hi1 (by omega) (by simpa using hx0)
    rw [if_neg hany] at hT
    simp only []
    -- the `switch (pcend - start)` blocks
    refine R.sat_bind (P := fun bad => bad = (if count + 1 = 1 then
                (match slice a start pcend with
                  | [x] => x == 0x3F || x == 0x2E
                  | [x, y] => Impl.isWindowsDrive x y
                  | _ => false)
              else if count + 1 = 2 then
                (match slice a start pcend with
                  | [x] => x == 0x2E
                  | [x, y] => x == 0x2E && y == 0x2E
                  | _ => false)
              else false)) ?_ ?_
    · unfold uncBadComponent
      have hlen := slice_length a start pcend (by omega : pcend ≤ a.size)
      by_cases d1 : pcend - start = 1
      · have e1 : slice a start pcend = [a[start]!] := by
          rw [slice_cons a start pcend (by omega) (by omega), slice_nil a (start + 1) pcend (by omega)]
        simp only [d1, e1, rd_ok i1 hlt hl, R.ok_bind, if_true]
        by_cases k1 : count + 1 = 1
        · simp only [if_pos k1]; exact R.sat_pure rfl
        · by_cases k2 : count + 1 = 2
          · simp only [if_neg k1, if_pos k2]; exact R.sat_pure rfl
          · simp only [if_neg k1, if_neg k2]; exact R.sat_pure rfl
      · by_cases d2 : pcend - start = 2
        · have e2 := slice_two a start pcend d2 (by omega)
          simp only [d2, e2, rd_ok i1 hlt hl, rd_ok (by omega : first ≤ start + 1) (by omega : start + 1 < last) hl,
            R.ok_bind, if_true, (by decide : ¬ (2 = 1))]
          by_cases k1 : count + 1 = 1
          · simp only [if_pos k1, if_false]; exact R.sat_pure rfl
          · by_cases k2 : count + 1 = 2
            · simp only [if_neg k1, if_pos k2, if_false]
              by_cases c0 : a[start]! = 0x2E
              · simp only [if_pos c0]; exact R.sat_pure (by simp [c0])
              · simp only [if_neg c0]; exact R.sat_pure (by simp [c0])
            · simp only [if_neg k1, if_neg k2]; exact R.sat_pure rfl
        · simp only [if_neg d1, if_neg d2]
          have hmatch1 : (match slice a start pcend with
                  | [x] => x == 0x3F || x == 0x2E
                  | [x, y] => Impl.isWindowsDrive x y
                  | _ => false) = false := by
            generalize slice a start pcend = s at hlen
            rcases s with _ | ⟨x, _ | ⟨y, _ | ⟨z, t⟩⟩⟩ <;> simp at hlen ⊢ <;> omega
          have hmatch2 : (match slice a start pcend with
                  | [x] => x == 0x2E
                  | [x, y] => x == 0x2E && y == 0x2E
                  | _ => false) = false := by
            generalize slice a start pcend = s at hlen
            rcases s with _ | ⟨x, _ | ⟨y, _ | ⟨z, t⟩⟩⟩ <;> simp at hlen ⊢ <;> omega
          rw [hmatch1, hmatch2]
          by_cases k1 : count + 1 = 1
          · simp only [if_pos k1]; exact R.sat_pure rfl
          · by_cases k2 : count + 1 = 2
            · simp only [if_neg k1, if_pos k2]; exact R.sat_pure rfl
            · simp only [if_neg k1, if_neg k2]; exact R.sat_pure rfl
    intro bad hbad
    rw [← hbad] at hT
    split
    · rename_i hb
      rw [if_pos hb] at hT
      exact R.sat_pure (by simp only []; exact hT)
    rename_i hb
    rw [if_neg hb] at hT
    have hshare : (if count + 1 = 2 then some (slice a pcend last) else eos.map (fun p => slice a p last)) =
        (if count + 1 = 2 then some pcend else eos).map (fun p => slice a p last) := by
      split <;> rfl
    rw [hshare] at hT
    split
    · rename_i hpe
      rw [Nat.add_zero] at hpe
      rw [hpe, slice_nil a last last (Nat.le_refl _)] at hT
      refine R.sat_pure ?_
      simp only [] at hT ⊢
      rw [hpe]
      exact hT
    · rename_i hpe
      rw [Nat.add_zero] at hpe
      have hpl : pcend < last := by omega
      rw [slice_cons a pcend last hpl hl] at hT
      simp only [] at hT
      psimp
      refine R.sat_pure ⟨⟨by rarith, by rarith, f0, by rarith, ?_⟩, by rarith⟩
      simp only []
      exact hT

end Upa.Impl.B
