import Upa.Impl.Ip
import Upa.Spec.Ip
/-
  Helper lemmas for C11 (IPv4 parser / serializer): code-shaped model `Upa.Impl` vs the
  Standard-shaped `Upa.Spec`.

  All helpers live in the namespace `Upa.Impl.Ipv4` (so that generic names such as `hexVal_lt` or
  `splitOnP_ne_nil` cannot clash with other proof files), except the two exported lemmas
  `Upa.Impl.unsignedToStr_dec` and `Upa.Impl.unsignedToStr_hex` (used by the IPv6 serializer proof).

  Main results:
  * `ipv4ParseNumber_eq`  : ipv4_parse_number = IPv4 number parser clamped to 32 bits
  * `ipv4Parse_eq`        : Impl.ipv4Parse = Spec.ipv4Parse
  * `ipv4Parse_lt`        : result < 2^32
  * `unsignedToStr_eq`    : unsigned_to_str base digit n = toDigitsAux … (any base ≥ 2, any n)
  * `ipv4Serialize_eq`    : Impl.ipv4Serialize = Spec.ipv4Serialize (any n)
  * `spec_roundtrip`      : Spec.ipv4Parse (Spec.ipv4Serialize n) = some n for n < 2^32
  * `endsInNumber_eq`     : Impl.endsInNumber = Spec.endsInANumber
-/
namespace Upa.Impl.Ipv4
open Upa.Spec

/-! ### digit values -/

theorem hexVal_lt {c} (h : isHex c = true) : hexVal c < 16 := by
  unfold hexVal; simp [isHex, isDigit] at h ⊢
  split <;> (try split) <;> omega

theorem hexVal_pos {c} (h : isHex c = true) (hc : c ≠ 48) : hexVal c ≠ 0 := by
  unfold hexVal; simp [isHex, isDigit] at h ⊢
  split <;> (try split) <;> omega

theorem digitVal_lt {R c d} (hR : R = 8 ∨ R = 10 ∨ R = 16) (h : digitVal R c = some d) : d < R := by
  unfold digitVal at h
  rcases hR with rfl | rfl | rfl <;> simp at h
  · omega
  · omega
  · obtain ⟨hh, rfl⟩ := h; exact hexVal_lt hh

theorem digitVal_pos {R c d} (hR : R = 8 ∨ R = 10 ∨ R = 16) (h : digitVal R c = some d)
    (hc : c ≠ 48) : d ≠ 0 := by
  unfold digitVal at h
  rcases hR with rfl | rfl | rfl <;> simp at h
  · omega
  · omega
  · obtain ⟨hh, rfl⟩ := h; exact hexVal_pos hh hc

theorem digitVal_zero {R} (hR : R = 8 ∨ R = 10 ∨ R = 16) : digitVal R 48 = some 0 := by
  rcases hR with rfl | rfl | rfl <;> simp [digitVal, isHex, isDigit, hexVal]

theorem radixValue_skipZeros {R} (hR : R = 8 ∨ R = 10 ∨ R = 16) (cs : List Nat) :
    radixValue R (skipZeros cs) 0 = radixValue R cs 0 := by
  fun_induction skipZeros cs with
  | case1 cs ih => rw [ih]; simp [radixValue, digitVal_zero hR]
  | case2 cs h => rfl

theorem radixValue_ge {R} (cs : List Nat) (acc v : Nat) (h : radixValue R cs acc = some v) :
    acc * R ^ cs.length ≤ v := by
  induction cs generalizing acc with
  | nil => simp [radixValue] at h; simp [h]
  | cons c cs ih =>
    simp only [radixValue] at h
    split at h
    · rename_i d hd
      have := ih _ h
      simp only [List.length_cons, Nat.pow_succ]
      calc acc * (R ^ cs.length * R) = (acc * R) * R ^ cs.length := by
              rw [Nat.mul_comm (R ^ cs.length) R, Nat.mul_assoc]
        _ ≤ (acc * R + d) * R ^ cs.length := Nat.mul_le_mul_right _ (Nat.le_add_right _ _)
        _ ≤ v := this
    · cases h

/-- more than 11 significant digits: the value does not fit 32 bits -/
theorem long_numeral_big {R} (hR : R = 8 ∨ R = 10 ∨ R = 16) (c : Nat) (cs : List Nat) (v : Nat)
    (hc : c ≠ 48) (hlen : cs.length ≥ 11) (h : radixValue R (c :: cs) 0 = some v) :
    v > 4294967295 := by
  simp only [radixValue] at h
  split at h
  · rename_i d hd
    have hd0 : d ≠ 0 := digitVal_pos hR hd hc
    have hge := radixValue_ge cs _ v h
    simp only [Nat.zero_mul, Nat.zero_add] at hge
    have h1 : 1 ≤ d := Nat.one_le_iff_ne_zero.mpr hd0
    have hR8 : 8 ≤ R := by rcases hR with rfl | rfl | rfl <;> omega
    have h8 : (8:Nat) ^ 11 ≤ R ^ cs.length :=
      calc (8:Nat)^11 ≤ R^11 := Nat.pow_le_pow_left hR8 11
        _ ≤ R ^ cs.length := Nat.pow_le_pow_right (by omega) hlen
    have : 8^11 ≤ d * R ^ cs.length :=
      calc 8^11 ≤ R ^ cs.length := h8
        _ = 1 * R ^ cs.length := by simp
        _ ≤ d * R ^ cs.length := Nat.mul_le_mul_right _ h1
    have e : (8:Nat)^11 = 8589934592 := by decide
    omega
  · cases h

/-- one step of the accumulation loop = one step of the Standard's digit loop, as long as the
    64-bit accumulator does not wrap -/
theorem accumulate_eq {R} (hR : R = 8 ∨ R = 10 ∨ R = 16) (cs : List Nat) (num k : Nat)
    (hnum : num < R ^ k) (hk : k + cs.length ≤ 11) :
    accumulate R cs num = radixValue R cs num := by
  induction cs generalizing num k with
  | nil => simp [accumulate, radixValue]
  | cons c cs ih =>
    simp only [List.length_cons] at hk
    have hR16 : R ≤ 16 := by rcases hR with rfl | rfl | rfl <;> omega
    have hR1 : 1 ≤ R := by rcases hR with rfl | rfl | rfl <;> omega
    -- bound for the next accumulator value
    have step : ∀ d, d < R → num * R + d < R ^ (k + 1) ∧ num * R + d < 2 ^ 64 := by
      intro d hd
      have h1 : (num + 1) * R ≤ R ^ k * R := Nat.mul_le_mul_right _ hnum
      have h2 : (num + 1) * R = num * R + R := by rw [Nat.add_mul, Nat.one_mul]
      have h3 : num * R + d < R ^ (k + 1) := by rw [Nat.pow_succ]; omega
      have h4 : R ^ (k + 1) ≤ 16 ^ 11 :=
        calc R ^ (k + 1) ≤ 16 ^ (k + 1) := Nat.pow_le_pow_left hR16 _
          _ ≤ 16 ^ 11 := Nat.pow_le_pow_right (by omega) (by omega)
      have e : (16:Nat) ^ 11 = 17592186044416 := by decide
      omega
    simp only [accumulate, radixValue]
    cases hd : digitVal R c with
    | none =>
      simp only
      unfold digitVal at hd
      rcases hR with rfl | rfl | rfl <;> simp at hd ⊢ <;> first | omega | (simp [hd])
    | some d =>
      simp only
      have hdlt := digitVal_lt hR hd
      obtain ⟨s1, s2⟩ := step d hdlt
      have hmod : (num * R + d) % 2 ^ 64 = num * R + d := Nat.mod_eq_of_lt s2
      have ih' := ih (num * R + d) (k + 1) s1 (by omega)
      unfold digitVal at hd
      rcases hR with rfl | rfl | rfl <;> simp at hd
      · obtain ⟨hh, rfl⟩ := hd
        have : ¬ (c > 48 - 1 + 8 ∨ c < 48) := by omega
        simp only [this, if_false]
        rw [hmod]; simpa using ih'
      · obtain ⟨hh, rfl⟩ := hd
        have : ¬ (c > 48 - 1 + 10 ∨ c < 48) := by omega
        simp only [this, if_false]
        rw [hmod]; simpa using ih'
      · obtain ⟨hh, rfl⟩ := hd
        simp only [hh]
        rw [hmod]; simpa using ih'

def clamp32 : Option Nat → Option Nat
  | some v => if v > 0xFFFFFFFF then none else some v
  | none => none

theorem radixValue_nil (R) : radixValue R [] 0 = some 0 := rfl

theorem skipZeros_head (cs : List Nat) : ∀ c r, skipZeros cs = c :: r → c ≠ 48 := by
  fun_induction skipZeros cs with
  | case1 cs ih => exact ih
  | case2 cs h =>
    intro c r e hc
    subst e; subst hc
    exact h r rfl

/-- tail of the number parser after the radix has been chosen -/
theorem parseBody_eq {R} (hR : R = 8 ∨ R = 10 ∨ R = 16) (body : List Nat) :
    (if skipZeros body = [] then some 0
     else if (skipZeros body).length > 11 then none
     else match accumulate R (skipZeros body) 0 with
       | some v => if v > 0xFFFFFFFF then none else some v
       | none => none) = clamp32 (radixValue R body 0) := by
  rw [← radixValue_skipZeros hR body]
  cases hb : skipZeros body with
  | nil => simp [radixValue, clamp32]
  | cons c r =>
    have hc := skipZeros_head body c r hb
    simp only [reduceCtorEq, if_false]
    split
    · rename_i hlen
      simp only [List.length_cons] at hlen
      cases hv : radixValue R (c :: r) 0 with
      | none => rfl
      | some v =>
        have := long_numeral_big hR c r v hc (by omega) hv
        simp [clamp32, this]
    · rename_i hlen
      rw [accumulate_eq hR (c :: r) 0 0 (by simp) (by omega)]
      cases radixValue R (c :: r) 0 <;> rfl

theorem ipv4ParseNumber_eq (p : List Nat) : ipv4ParseNumber p = clamp32 (ipv4Number p) := by
  cases p with
  | nil => rfl
  | cons c cs =>
    by_cases hc : c = 48
    · subst hc
      cases cs with
      | nil => rfl
      | cons c1 rest =>
        simp only [ipv4ParseNumber, ipv4Number]
        by_cases hx : c1 = 0x58 ∨ c1 = 0x78
        · simp only [hx, if_true]
          refine Eq.trans (parseBody_eq (Or.inr (Or.inr rfl)) rest) ?_
          cases rest <;> rfl
        · simp only [hx, if_false]
          exact parseBody_eq (Or.inl rfl) (c1 :: rest)
    · have h1 : ipv4Number (c :: cs) = radixValue 10 (c :: cs) 0 := by
        unfold ipv4Number
        split
        · rename_i h; cases h
        · rename_i h; cases h; exact absurd rfl hc
        · rfl
      have h2 : ipv4ParseNumber (c :: cs) =
          (if (c :: cs).length > 11 then none
           else match accumulate 10 (c :: cs) 0 with
             | some v => if v > 0xFFFFFFFF then none else some v
             | none => none) := by
        unfold ipv4ParseNumber
        split
        · rename_i h; cases h
        · rename_i h; cases h; exact absurd rfl hc
        · rename_i h; cases h; exact absurd rfl hc
        · rfl
      rw [h1, h2]
      split
      · rename_i hlen
        simp only [List.length_cons] at hlen
        cases hv : radixValue 10 (c :: cs) 0 with
        | none => rfl
        | some v =>
          have := long_numeral_big (Or.inr (Or.inl rfl)) c cs v hc (by omega) hv
          simp [clamp32, this]
      · rename_i hlen
        rw [accumulate_eq (Or.inr (Or.inl rfl)) (c :: cs) 0 0 (by simp) (by omega)]
        cases radixValue 10 (c :: cs) 0 <;> rfl

/-! ### combination of the parsed numbers -/

/-- the part of `Impl.ipv4Parse` after the numbers have been parsed -/
def implPost (number : List Nat) : Option Nat :=
  let partCount := number.length
  if (number.take (partCount - 1)).any (fun n => decide (n > 255)) then none
  else
    let ipv4 := number.getD (partCount - 1) 0
    if ipv4 > (0xFFFFFFFF >>> (8 * (partCount - 1))) then none
    else some (ipv4Parse.add (number.take (partCount - 1)) 0 ipv4)

/-- the part of `Spec.ipv4Parse` after the numbers have been parsed -/
def specPost (nums : List Nat) : Option Nat :=
  if nums.dropLast.any (fun n => decide (n > 255)) then none
  else match nums.getLast? with
    | none => none
    | some last =>
      if last ≥ pow256 (5 - nums.length) then none
      else some (last + Spec.ipv4Parse.sum nums.dropLast 0)

theorem list_len_cases {α} (l : List α) (h1 : 1 ≤ l.length) (h4 : l.length ≤ 4) :
    (∃ a, l = [a]) ∨ (∃ a b, l = [a, b]) ∨ (∃ a b c, l = [a, b, c]) ∨ (∃ a b c d, l = [a, b, c, d]) := by
  match l, h1, h4 with
  | [a], _, _ => exact Or.inl ⟨a, rfl⟩
  | [a, b], _, _ => exact Or.inr (Or.inl ⟨a, b, rfl⟩)
  | [a, b, c], _, _ => exact Or.inr (Or.inr (Or.inl ⟨a, b, c, rfl⟩))
  | [a, b, c, d], _, _ => exact Or.inr (Or.inr (Or.inr ⟨a, b, c, d, rfl⟩))
  | _ :: _ :: _ :: _ :: _ :: _, _, h => simp at h

theorem post_eq (nums : List Nat) (h1 : 1 ≤ nums.length) (h4 : nums.length ≤ 4) :
    implPost nums = specPost nums := by
  rcases list_len_cases nums h1 h4 with ⟨a, rfl⟩ | ⟨a, b, rfl⟩ | ⟨a, b, c, rfl⟩ | ⟨a, b, c, d, rfl⟩
  all_goals
    simp [implPost, specPost, ipv4Parse.add, Spec.ipv4Parse.sum, pow256, Nat.shiftLeft_eq]
    repeat' split
    all_goals first | rfl | omega | (simp only [Option.some.injEq]; omega)

/-- a part above 2^32-1 makes the Standard's IPv4 parser fail as well -/
theorem specPost_big (nums : List Nat) (h4 : nums.length ≤ 4)
    (hbig : ∃ v ∈ nums, v > 0xFFFFFFFF) : specPost nums = none := by
  obtain ⟨v, hv, hb⟩ := hbig
  have h1 : 1 ≤ nums.length := by cases nums <;> simp at hv ⊢
  rcases list_len_cases nums h1 h4 with ⟨a, rfl⟩ | ⟨a, b, rfl⟩ | ⟨a, b, c, rfl⟩ | ⟨a, b, c, d, rfl⟩
  all_goals
    simp [specPost, pow256] at hv ⊢
    intros
    omega

theorem mapM_clamp (P : List (List Nat)) :
    P.mapM ipv4ParseNumber =
      (P.mapM ipv4Number).bind (fun nums => if nums.all (fun v => decide (v ≤ 0xFFFFFFFF)) then some nums else none) := by
  induction P with
  | nil => simp
  | cons p P ih =>
    simp only [List.mapM_cons, ih, ipv4ParseNumber_eq]
    cases ipv4Number p with
    | none => simp [clamp32]
    | some v =>
      cases P.mapM ipv4Number with
      | none => simp [clamp32]
      | some vs =>
        simp [clamp32]
        by_cases h1 : 4294967295 < v
        · have : ¬ v ≤ 4294967295 := by omega
          simp [h1, this]
        · have : v ≤ 4294967295 := by omega
          simp [h1, this]
          split <;> rfl

theorem mapM_option_length {α β} (f : α → Option β) (P : List α) :
    ∀ r, P.mapM f = some r → r.length = P.length := by
  induction P with
  | nil => intro r h; simp at h; subst h; rfl
  | cons p P ih =>
    intro r h
    simp only [List.mapM_cons] at h
    cases hp : f p with
    | none => simp [hp] at h
    | some v =>
      cases hP : P.mapM f with
      | none => simp [hp, hP] at h
      | some vs =>
        simp [hp, hP] at h
        subst h
        simp [ih vs hP]

/-- after the split: number parsing and combination agree -/
theorem post_mapM (P : List (List Nat)) (h1 : 1 ≤ P.length) (h4 : P.length ≤ 4) :
    (match P.mapM ipv4ParseNumber with
      | none => none
      | some number => implPost number) =
    (match P.mapM ipv4Number with
      | none => none
      | some nums => specPost nums) := by
  rw [mapM_clamp]
  cases hP : P.mapM ipv4Number with
  | none => rfl
  | some nums =>
    have hlen := mapM_option_length _ P nums hP
    simp only [Option.bind_some]
    by_cases hall : (nums.all fun v => decide (v ≤ 4294967295)) = true
    · simp only [hall, if_true]
      exact post_eq nums (by omega) (by omega)
    · simp only [hall]
      refine (specPost_big nums (by omega) ?_).symm
      simp at hall
      obtain ⟨v, hv, hb⟩ := hall
      exact ⟨v, hv, by omega⟩

/-! ### the scanning loop vs. strict splitting on '.' -/

theorem splitOnP_ne_nil (p : Nat → Bool) (s : List Nat) : splitOnP p s ≠ [] := by
  induction s with
  | nil => simp [splitOnP]
  | cons c cs ih =>
    unfold splitOnP
    split
    · simp
    · split <;> simp

/-- prepend `a` to the first piece -/
def joinHead (a : List Nat) : List (List Nat) → List (List Nat)
  | [] => [a]
  | h :: t => (a ++ h) :: t

theorem splitOnP_cons_neg (p : Nat → Bool) (c : Nat) (cs : List Nat) (h : p c = false) :
    splitOnP p (c :: cs) = joinHead [c] (splitOnP p cs) := by
  rw [splitOnP]
  simp only [h]
  cases splitOnP p cs <;> rfl

theorem splitOnP_cons_pos (p : Nat → Bool) (c : Nat) (cs : List Nat) (h : p c = true) :
    splitOnP p (c :: cs) = [] :: splitOnP p cs := by
  rw [splitOnP]
  simp only [h, if_true]

theorem joinHead_joinHead (a b : List Nat) (L : List (List Nat)) (hL : L ≠ []) :
    joinHead a (joinHead b L) = joinHead (a ++ b) L := by
  cases L with
  | nil => exact absurd rfl hL
  | cons h t => simp [joinHead]

theorem joinHead_nil (L : List (List Nat)) (hL : L ≠ []) : joinHead [] L = L := by
  cases L with
  | nil => exact absurd rfl hL
  | cons h t => simp [joinHead]

theorem scan_some (s : List Nat) : ∀ cur parts r, ipv4Scan s cur parts = some r →
    r = parts.reverse ++ joinHead cur.reverse (splitOnP isDot s) := by
  induction s with
  | nil =>
    intro cur parts r h
    simp [ipv4Scan] at h
    simp [splitOnP, joinHead, ← h]
  | cons c cs ih =>
    intro cur parts r h
    unfold ipv4Scan at h
    by_cases hc : c = 0x2E
    · subst hc
      simp only [if_true] at h
      split at h
      · cases h
      · split at h
        · cases h
        · have := ih _ _ _ h
          rw [this, splitOnP_cons_pos _ _ _ (by rfl), List.reverse_nil,
            joinHead_nil _ (splitOnP_ne_nil _ _)]
          simp [joinHead]
    · simp only [hc, if_false] at h
      split at h
      · cases h
      · have := ih _ _ _ h
        have hd : isDot c = false := by simp [isDot, hc]
        rw [this, splitOnP_cons_neg _ _ _ hd, joinHead_joinHead _ _ _ (splitOnP_ne_nil _ _)]
        simp

/-- `Spec.ipv4Parse` after the strict split -/
def specOnParts (parts : List (List Nat)) : Option Nat :=
  let parts := if parts.getLast? = some [] ∧ parts.length > 1 then parts.dropLast else parts
  if parts.length > 4 then none
  else match parts.mapM ipv4Number with
    | none => none
    | some nums => specPost nums

theorem spec_ipv4Parse_eq (s : List Nat) : Spec.ipv4Parse s = specOnParts (splitOnP isDot s) := rfl

/-- `Impl.ipv4Parse` after the scanning loop -/
def implOnParts (parts : List (List Nat)) : Option Nat :=
  let parts := if parts.length > 1 ∧ parts.getLast? = some [] then parts.dropLast else parts
  if parts.length > 4 then none
  else match parts.mapM ipv4ParseNumber with
    | none => none
    | some number => implPost number

theorem impl_ipv4Parse_eq (s : List Nat) : Impl.ipv4Parse s =
    if s = [] then none else match ipv4Scan s [] [] with
      | none => none
      | some parts => implOnParts parts := rfl

theorem onParts_eq (L : List (List Nat)) (hL : L ≠ []) : implOnParts L = specOnParts L := by
  unfold implOnParts specOnParts
  have hlen : 1 ≤ L.length := by cases L <;> simp at hL ⊢
  by_cases hc : L.length > 1 ∧ L.getLast? = some []
  · have hc' : L.getLast? = some [] ∧ L.length > 1 := ⟨hc.2, hc.1⟩
    simp only [hc, and_self, if_true]
    split
    · rfl
    · exact post_mapM _ (by simp; omega) (by omega)
  · have hc' : ¬ (L.getLast? = some [] ∧ L.length > 1) := fun h => hc ⟨h.2, h.1⟩
    simp only [hc, hc', if_false]
    split
    · rfl
    · exact post_mapM _ hlen (by omega)

/-! ### inputs rejected by the scanning loop are rejected by the Standard -/

theorem radixValue_none_of_mem {R c} (hd : digitVal R c = none) :
    ∀ cs acc, c ∈ cs → radixValue R cs acc = none := by
  intro cs
  induction cs with
  | nil => intro acc h; cases h
  | cons x xs ih =>
    intro acc h
    simp only [radixValue]
    rcases List.mem_cons.mp h with rfl | h
    · simp [hd]
    · split
      · exact ih _ h
      · rfl

theorem digitVal_none_of_not_ipv4Char {R c} (hR : R = 8 ∨ R = 10 ∨ R = 16)
    (hc : ipv4Char c = false) : digitVal R c = none := by
  simp [ipv4Char] at hc
  obtain ⟨⟨⟨h1, h2⟩, h3⟩, h4⟩ := hc
  unfold digitVal
  rcases hR with rfl | rfl | rfl
  · simp [isHex, isDigit] at h1 ⊢; omega
  · simp [isHex, isDigit] at h1 ⊢; omega
  · simp [h1]

/-- a part containing a character outside the IPv4 class is not a number -/
theorem ipv4Number_badchar (p : List Nat) (c : Nat) (hmem : c ∈ p) (hc : ipv4Char c = false) :
    ipv4Number p = none := by
  have hc' := hc
  simp [ipv4Char] at hc'
  obtain ⟨⟨⟨h1, h2⟩, h3⟩, h4⟩ := hc'
  have hc48 : c ≠ 48 := by
    intro h; subst h; simp [isHex, isDigit] at h1
  unfold ipv4Number
  split
  · cases hmem
  · rename_i c1 rest
    have hm : c ∈ c1 :: rest := by
      rcases List.mem_cons.mp hmem with h | h
      · exact absurd h hc48
      · exact h
    split
    · rename_i hx
      have hm' : c ∈ rest := by
        rcases List.mem_cons.mp hm with h | h
        · subst h; omega
        · exact h
      have : rest ≠ [] := by intro h; subst h; cases hm'
      simp only [this, if_false]
      exact radixValue_none_of_mem (digitVal_none_of_not_ipv4Char (Or.inr (Or.inr rfl)) hc) _ _ hm'
    · exact radixValue_none_of_mem (digitVal_none_of_not_ipv4Char (Or.inl rfl) hc) _ _ hm
  · exact radixValue_none_of_mem (digitVal_none_of_not_ipv4Char (Or.inr (Or.inl rfl)) hc) _ _ hmem

theorem mapM_none_of_mem {α β} (f : α → Option β) (P : List α) (p : α) (hp : p ∈ P)
    (hf : f p = none) : P.mapM f = none := by
  induction P with
  | nil => cases hp
  | cons x xs ih =>
    simp only [List.mapM_cons]
    rcases List.mem_cons.mp hp with rfl | h
    · simp [hf]
    · cases f x with
      | none => simp
      | some v => simp [ih h]

/-- conditions under which the Standard's IPv4 parser fails, stated on the strictly split input -/
def SpecFails (L : List (List Nat)) : Prop :=
  L.length ≥ 6 ∨ (∃ p ∈ L, p ≠ [] ∧ ipv4Number p = none) ∨ [] ∈ L.dropLast

theorem snoc_cases {α} (L : List α) (hL : L ≠ []) : ∃ init last, L = init ++ [last] :=
  ⟨L.dropLast, L.getLast hL, (List.dropLast_concat_getLast hL).symm⟩

theorem specOnParts_fails (L : List (List Nat)) (hf : SpecFails L) : specOnParts L = none := by
  unfold specOnParts
  by_cases hL : L = []
  · subst hL
    rcases hf with h | ⟨p, hp, _⟩ | h <;> simp at *
  obtain ⟨init, last, rfl⟩ := snoc_cases L hL
  unfold SpecFails at hf
  simp only [List.getLast?_concat, List.dropLast_concat, List.length_append, List.length_cons,
    List.length_nil, Option.some.injEq] at *
  -- the trimmed list still contains a part that is not a number, or is too long
  have key : ∀ L' : List (List Nat), L'.length > 4 ∨ (∃ p ∈ L', ipv4Number p = none) →
      (if L'.length > 4 then none
       else match L'.mapM ipv4Number with
        | none => none
        | some nums => specPost nums) = none := by
    intro L' h
    split
    · rfl
    · rcases h with h | ⟨p, hp, hn⟩
      · omega
      · rw [mapM_none_of_mem _ _ p hp hn]
  apply key
  rcases hf with h | ⟨p, hp, hne, hn⟩ | h
  · left
    split <;> simp <;> omega
  · right
    refine ⟨p, ?_, hn⟩
    split
    · rename_i hc
      rcases List.mem_append.mp hp with h | h
      · exact h
      · simp at h; rw [h] at hne; exact absurd hc.1 hne
    · exact hp
  · right
    refine ⟨[], ?_, rfl⟩
    split
    · exact h
    · exact List.mem_append_left _ h

theorem scan_none (s : List Nat) : ∀ cur parts, ipv4Scan s cur parts = none →
    SpecFails (parts.reverse ++ joinHead cur.reverse (splitOnP isDot s)) := by
  induction s with
  | nil => intro cur parts h; simp [ipv4Scan] at h
  | cons c cs ih =>
    intro cur parts h
    unfold ipv4Scan at h
    by_cases hc : c = 0x2E
    · subst hc
      rw [splitOnP_cons_pos _ _ _ (by rfl)]
      simp only [if_true] at h
      have hne := splitOnP_ne_nil isDot cs
      by_cases h4 : parts.length = 4
      · left
        have : 1 ≤ (splitOnP isDot cs).length := by
          cases hs : splitOnP isDot cs <;> simp [hs] at hne ⊢
        simp [joinHead, h4]; omega
      · simp only [h4, if_false] at h
        by_cases hcur : cur = []
        · right; right
          subst hcur
          obtain ⟨init, last, hs⟩ := snoc_cases _ hne
          rw [hs]
          simp only [joinHead, List.nil_append, List.reverse_nil]
          rw [show ([] : List Nat) :: (init ++ [last]) = ([] :: init) ++ [last] from rfl,
            ← List.append_assoc, List.dropLast_concat]
          simp
        · simp only [hcur, if_false] at h
          have := ih _ _ h
          rw [List.reverse_nil, joinHead_nil _ hne] at this
          simpa [joinHead] using this
    · simp only [hc, if_false] at h
      have hd : isDot c = false := by simp [isDot, hc]
      rw [splitOnP_cons_neg _ _ _ hd, joinHead_joinHead _ _ _ (splitOnP_ne_nil _ _)]
      by_cases hch : ipv4Char c = true
      · simp only [hch, Bool.not_true, Bool.false_eq_true, if_false] at h
        have := ih _ _ h
        simpa using this
      · right; left
        have hch' : ipv4Char c = false := by simpa using hch
        cases hs : splitOnP isDot cs with
        | nil => exact absurd hs (splitOnP_ne_nil _ _)
        | cons hd tl =>
          refine ⟨cur.reverse ++ [c] ++ hd, ?_, ?_, ?_⟩
          · simp [joinHead]
          · simp
          · exact ipv4Number_badchar _ c (by simp) hch'

theorem ipv4Parse_eq (s : List Nat) : Impl.ipv4Parse s = Spec.ipv4Parse s := by
  rw [impl_ipv4Parse_eq, spec_ipv4Parse_eq]
  by_cases hs : s = []
  · subst hs; rfl
  · simp only [hs, if_false]
    cases hscan : ipv4Scan s [] [] with
    | none =>
      have := scan_none s [] [] hscan
      simp only [List.reverse_nil, List.nil_append, joinHead_nil _ (splitOnP_ne_nil _ _)] at this
      exact (specOnParts_fails _ this).symm
    | some r =>
      have := scan_some s [] [] r hscan
      simp only [List.reverse_nil, List.nil_append, joinHead_nil _ (splitOnP_ne_nil _ _)] at this
      subst this
      exact onParts_eq _ (splitOnP_ne_nil _ _)

/-! ### unsigned_to_str -/

/-- number of base-`base` digits of `m`, with 0 for 0 -/
def lenB (base m : Nat) : Nat :=
  if h : base ≥ 2 ∧ m ≥ 1 then lenB base (m / base) + 1 else 0
termination_by m
decreasing_by exact Nat.div_lt_self (by omega) (by omega)

theorem lenB_zero (base : Nat) : lenB base 0 = 0 := by
  rw [lenB]; simp

theorem lenB_pos (base m : Nat) (hb : base ≥ 2) (hm : m ≥ 1) :
    lenB base m = lenB base (m / base) + 1 := by
  rw [lenB]; simp [hb, hm]

theorem digitCountLoop_eq (base num0 : Nat) (hb : base ≥ 2) :
    ∀ fuel divider count, divider ≥ 1 → fuel > num0 / divider →
      digitCountLoop base num0 fuel divider count = count + lenB base (num0 / divider) := by
  intro fuel
  induction fuel with
  | zero => intro divider count _ h; exact absurd h (Nat.not_lt_zero _)
  | succ fuel ih =>
    intro divider count hd hf
    unfold digitCountLoop
    by_cases hle : divider ≤ num0
    · simp only [hle, if_true]
      have hm : num0 / divider ≥ 1 := (Nat.le_div_iff_mul_le (by omega)).mpr (by omega)
      have hdd : num0 / (divider * base) = num0 / divider / base := (Nat.div_div_eq_div_mul _ _ _).symm
      have hlt : num0 / divider / base < num0 / divider := Nat.div_lt_self (by omega) (by omega)
      rw [ih (divider * base) (count + 1) (Nat.mul_pos (by omega) (by omega)) (by omega), hdd,
        lenB_pos base (num0 / divider) hb hm]
      omega
    · simp only [hle, if_false]
      have : num0 / divider = 0 := Nat.div_eq_of_lt (by omega)
      rw [this, lenB_zero]; rfl

theorem fillDigits_eq (base : Nat) (digit : Nat → Nat) (hb : base ≥ 2) :
    ∀ fuel n acc, fuel > n →
      fillDigits base digit (lenB base (n / base) + 1) n acc = toDigitsAux base digit fuel n acc := by
  intro fuel
  induction fuel with
  | zero => intro n acc h; omega
  | succ fuel ih =>
    intro n acc hf
    unfold toDigitsAux
    simp only [fillDigits]
    by_cases h0 : n / base = 0
    · simp only [h0, lenB_zero, if_true, fillDigits]
    · simp only [h0, if_false]
      have hn : n ≥ 1 := by
        cases n with
        | zero => simp at h0
        | succ n => omega
      have hlt : n / base < n := Nat.div_lt_self (by omega) (by omega)
      rw [lenB_pos base (n / base) hb (Nat.pos_of_ne_zero h0)]
      exact ih (n / base) _ (by omega)

theorem unsignedToStr_eq (base : Nat) (digit : Nat → Nat) (hb : base ≥ 2) (n : Nat) :
    unsignedToStr base digit n = toDigitsAux base digit (n + 1) n [] := by
  unfold unsignedToStr
  have hle : n / base ≤ n := Nat.div_le_self _ _
  have := digitCountLoop_eq base (n / base) hb (n + 1) 1 1 (by omega) (by simp; omega)
  simp only [this, Nat.div_one]
  rw [Nat.add_comm 1]
  exact fillDigits_eq base digit hb (n + 1) n [] (by omega)

end Upa.Impl.Ipv4

namespace Upa.Impl

/-- the digit-count loop of `unsigned_to_str` in base 10 produces the decimal numeral -/
theorem unsignedToStr_dec (n : Nat) : unsignedToStr 10 (fun d => 0x30 + d) n = toDecimal n :=
  Ipv4.unsignedToStr_eq 10 _ (by omega) n

/-- the digit-count loop of `unsigned_to_str` in base 16 produces the lower-case hex numeral -/
theorem unsignedToStr_hex (n : Nat) : unsignedToStr 16 hexDigitLower n = toHexLower n :=
  Ipv4.unsignedToStr_eq 16 _ (by omega) n

end Upa.Impl

namespace Upa.Impl.Ipv4
open Upa.Spec

theorem ipv4Serialize_eq (n : Nat) : Impl.ipv4Serialize n = Spec.ipv4Serialize n := by
  unfold Impl.ipv4Serialize Spec.ipv4Serialize
  have hand : ∀ x : Nat, x &&& 0xFF = x % 256 := fun x => Nat.and_two_pow_sub_one_eq_mod x 8
  simp only [unsignedToStr_dec, hand, Nat.shiftRight_eq_div_pow]

/-! ### decimal numerals re-parse to their value -/

theorem ipv4Number_of_head_ne (c : Nat) (cs : List Nat) (hc : c ≠ 48) :
    ipv4Number (c :: cs) = radixValue 10 (c :: cs) 0 := by
  unfold ipv4Number
  split
  · rename_i h; cases h
  · rename_i h; cases h; exact absurd rfl hc
  · rfl

theorem digitVal_dec (d : Nat) (hd : d < 10) : digitVal 10 (0x30 + d) = some d := by
  unfold digitVal
  have : 0x30 ≤ 0x30 + d ∧ 0x30 + d < 0x30 + 10 := by omega
  simp [this]

theorem radixValue_toDigits : ∀ fuel n acc, fuel > n →
    radixValue 10 (toDigitsAux 10 (fun d => 0x30 + d) fuel n acc) 0 = radixValue 10 acc n := by
  intro fuel
  induction fuel with
  | zero => intro n acc h; omega
  | succ fuel ih =>
    intro n acc hf
    unfold toDigitsAux
    by_cases h0 : n / 10 = 0
    · simp only [h0, if_true]
      have hn : n < 10 := by omega
      have : n % 10 = n := by omega
      simp only [this, radixValue, digitVal_dec n hn, Nat.zero_mul, Nat.zero_add]
    · simp only [h0, if_false]
      rw [ih (n / 10) _ (by omega)]
      simp only [radixValue, digitVal_dec (n % 10) (by omega)]
      have : n / 10 * 10 + n % 10 = n := by omega
      rw [this]

theorem toDigits_head : ∀ fuel n acc, fuel > n → n ≥ 1 →
    ∃ c r, toDigitsAux 10 (fun d => 0x30 + d) fuel n acc = c :: r ∧ c ≠ 48 := by
  intro fuel
  induction fuel with
  | zero => intro n acc h; omega
  | succ fuel ih =>
    intro n acc hf hn
    unfold toDigitsAux
    by_cases h0 : n / 10 = 0
    · simp only [h0, if_true]
      exact ⟨_, _, rfl, by omega⟩
    · simp only [h0, if_false]
      exact ih (n / 10) _ (by omega) (by omega)

theorem toDigits_digits : ∀ fuel n acc, (∀ c ∈ acc, isDigit c = true) →
    ∀ c ∈ toDigitsAux 10 (fun d => 0x30 + d) fuel n acc, isDigit c = true := by
  intro fuel
  induction fuel with
  | zero => intro n acc h; simpa [toDigitsAux] using h
  | succ fuel ih =>
    intro n acc hacc
    unfold toDigitsAux
    have hacc' : ∀ c ∈ (0x30 + n % 10) :: acc, isDigit c = true := by
      intro c hc
      rcases List.mem_cons.mp hc with rfl | h
      · simp [isDigit]; omega
      · exact hacc c h
    by_cases h0 : n / 10 = 0
    · simp only [h0, if_true]; exact hacc'
    · simp only [h0, if_false]; exact ih _ _ hacc'

/-- the decimal numeral of `n` is read back as `n` by the Standard's IPv4 number parser -/
theorem ipv4Number_toDecimal (n : Nat) : ipv4Number (toDecimal n) = some n := by
  by_cases hn : n = 0
  · subst hn; rfl
  · obtain ⟨c, r, hcr, hc⟩ := toDigits_head (n + 1) n [] (by omega) (by omega)
    have hv := radixValue_toDigits (n + 1) n [] (by omega)
    unfold toDecimal
    rw [hcr] at hv ⊢
    rw [ipv4Number_of_head_ne c r hc, hv]; rfl

theorem toDecimal_digits (n : Nat) : ∀ c ∈ toDecimal n, isDigit c = true :=
  toDigits_digits (n + 1) n [] (by simp)

theorem toDecimal_ne_nil (n : Nat) : toDecimal n ≠ [] := by
  intro h
  have := ipv4Number_toDecimal n
  rw [h] at this
  cases this

theorem splitOnP_nodot (a : List Nat) (ha : ∀ c ∈ a, isDot c = false) : splitOnP isDot a = [a] := by
  induction a with
  | nil => rfl
  | cons c cs ih =>
    rw [splitOnP_cons_neg _ _ _ (ha c (by simp)), ih (fun x hx => ha x (by simp [hx]))]
    rfl

theorem splitOnP_append_dot (a rest : List Nat) (ha : ∀ c ∈ a, isDot c = false) :
    splitOnP isDot (a ++ 0x2E :: rest) = a :: splitOnP isDot rest := by
  induction a with
  | nil => exact splitOnP_cons_pos _ _ _ (by rfl)
  | cons c cs ih =>
    rw [List.cons_append, splitOnP_cons_neg _ _ _ (ha c (by simp)),
      ih (fun x hx => ha x (by simp [hx]))]
    rfl

theorem isDot_of_isDigit (c : Nat) (h : isDigit c = true) : isDot c = false := by
  simp [isDigit, isDot] at h ⊢; omega

theorem spec_roundtrip (n : Nat) (hn : n < 2 ^ 32) :
    Spec.ipv4Parse (Spec.ipv4Serialize n) = some n := by
  have nd : ∀ m, ∀ c ∈ toDecimal m, isDot c = false :=
    fun m c hc => isDot_of_isDigit c (toDecimal_digits m c hc)
  rw [spec_ipv4Parse_eq]
  unfold Spec.ipv4Serialize
  simp only [List.append_assoc, List.cons_append, List.nil_append]
  rw [splitOnP_append_dot _ _ (nd _), splitOnP_append_dot _ _ (nd _), splitOnP_append_dot _ _ (nd _),
    splitOnP_nodot _ (nd _)]
  unfold specOnParts
  have hne := toDecimal_ne_nil (n % 256)
  simp [hne, ipv4Number_toDecimal, specPost, Spec.ipv4Parse.sum, pow256]
  omega

/-! ### range of the parser result -/

theorem add_lt : ∀ (L : List Nat) (c acc : Nat), acc < 2 ^ 32 → ipv4Parse.add L c acc < 2 ^ 32 := by
  intro L
  induction L with
  | nil => intro c acc h; simpa [ipv4Parse.add] using h
  | cons x xs ih =>
    intro c acc h
    simp only [ipv4Parse.add]
    exact ih _ _ (Nat.mod_lt _ (by decide))

theorem implPost_lt (number : List Nat) (n : Nat) (h : implPost number = some n) : n < 2 ^ 32 := by
  unfold implPost at h
  simp only at h
  split at h
  · cases h
  · split at h
    · cases h
    · rename_i hle
      simp only [Option.some.injEq] at h
      subst h
      apply add_lt
      have := Nat.shiftRight_le 0xFFFFFFFF (8 * (number.length - 1))
      omega

theorem implOnParts_lt (parts : List (List Nat)) (n : Nat) (h : implOnParts parts = some n) :
    n < 2 ^ 32 := by
  unfold implOnParts at h
  generalize (if parts.length > 1 ∧ parts.getLast? = some [] then parts.dropLast else parts) = P at h
  simp only at h
  split at h
  · cases h
  · cases hm : P.mapM ipv4ParseNumber with
    | none => simp [hm] at h
    | some number =>
      simp only [hm] at h
      exact implPost_lt _ _ h

theorem ipv4Parse_lt (s : List Nat) (n : Nat) (h : Impl.ipv4Parse s = some n) : n < 2 ^ 32 := by
  rw [impl_ipv4Parse_eq] at h
  split at h
  · cases h
  · cases hs : ipv4Scan s [] [] with
    | none => simp [hs] at h
    | some parts =>
      simp only [hs] at h
      exact implOnParts_lt _ _ h

/-! ### ends-in-a-number checker -/

/-- the label scanned backwards from the end up to the previous '.' -/
def lastLabel (t : List Nat) : List Nat := (t.reverse.takeWhile (· != 0x2E)).reverse

/-- the test applied to the last label by `hostname_ends_in_a_number` -/
def implLabelCheck (label : List Nat) : Bool :=
  if label.length = 0 then false
  else
    match label with
    | 0x30 :: x :: rest =>
      if x = 0x58 ∨ x = 0x78 then rest.all isHex
      else label.all isDigit
    | _ => label.all isDigit

def specLabelCheck (last : List Nat) : Bool :=
  if last ≠ [] ∧ last.all isDigit then true
  else (ipv4Number last).isSome

theorem impl_endsInNumber_eq (s : List Nat) : Impl.endsInNumber s =
    if s = [] then false
    else implLabelCheck (lastLabel (if s.getLast? = some 0x2E then s.dropLast else s)) := rfl

theorem spec_endsInANumber_eq (s : List Nat) : Spec.endsInANumber s =
    match (if (splitOnP isDot s).getLast? = some [] then
        (if (splitOnP isDot s).length = 1 then [] else (splitOnP isDot s).dropLast)
      else splitOnP isDot s).getLast? with
    | none => false
    | some last => specLabelCheck last := rfl

theorem radixValue_isSome (R : Nat) : ∀ cs acc,
    (radixValue R cs acc).isSome = cs.all (fun c => (digitVal R c).isSome) := by
  intro cs
  induction cs with
  | nil => intro acc; rfl
  | cons c cs ih =>
    intro acc
    simp only [radixValue, List.all_cons]
    cases digitVal R c with
    | none => rfl
    | some d => simp [ih]

theorem digitVal16_isSome (c : Nat) : (digitVal 16 c).isSome = isHex c := by
  unfold digitVal; simp only [if_true]; split <;> simp_all

theorem digitVal10_isSome (c : Nat) : (digitVal 10 c).isSome = isDigit c := by
  unfold digitVal; simp [isDigit]
  split
  · rename_i h; simp; omega
  · rename_i h; simp; omega

theorem digitVal8_isSome (c : Nat) (h : (digitVal 8 c).isSome = true) : isDigit c = true := by
  unfold digitVal at h; simp [isDigit] at h ⊢
  omega

theorem labelCheck_eq (l : List Nat) : implLabelCheck l = specLabelCheck l := by
  unfold implLabelCheck specLabelCheck
  cases l with
  | nil => rfl
  | cons c cs =>
    simp only [List.length_cons, Nat.add_one_ne_zero, if_false, ne_eq, reduceCtorEq, not_false_eq_true,
      true_and]
    by_cases hc : c = 48
    · subst hc
      cases cs with
      | nil => rfl
      | cons x rest =>
        simp only [ipv4Number]
        by_cases hx : x = 0x58 ∨ x = 0x78
        · have hnd : isDigit x = false := by rcases hx with rfl | rfl <;> rfl
          simp only [hx, if_true, List.all_cons, hnd, Bool.false_and, Bool.and_false]
          cases rest with
          | nil => rfl
          | cons y ys =>
            simp only [reduceCtorEq, if_false, radixValue_isSome, digitVal16_isSome]
        · simp only [hx, if_false]
          by_cases hall : (48 :: x :: rest).all isDigit = true
          · simp [hall]
          · simp only [hall]
            have : (radixValue 8 (x :: rest) 0).isSome = false := by
              rw [radixValue_isSome]
              cases h8 : (x :: rest).all (fun c => (digitVal 8 c).isSome) with
              | false => rfl
              | true =>
                exfalso; apply hall
                rw [List.all_eq_true] at h8 ⊢
                intro y hy
                rcases List.mem_cons.mp hy with rfl | hy
                · rfl
                · exact digitVal8_isSome y (h8 y hy)
            simp [this]
    · have h1 : ipv4Number (c :: cs) = radixValue 10 (c :: cs) 0 := ipv4Number_of_head_ne c cs hc
      have h2 : (match c :: cs with
          | 0x30 :: x :: rest => if x = 0x58 ∨ x = 0x78 then rest.all isHex else (c :: cs).all isDigit
          | _ => (c :: cs).all isDigit) = (c :: cs).all isDigit := by
        split
        · rename_i h; cases h; exact absurd rfl hc
        · rfl
      rw [h1, radixValue_isSome]
      simp only [digitVal10_isSome]
      refine Eq.trans h2 ?_
      cases (c :: cs).all isDigit <;> simp

theorem joinHead_append (a : List Nat) (L M : List (List Nat)) (hL : L ≠ []) :
    joinHead a (L ++ M) = joinHead a L ++ M := by
  cases L with
  | nil => exact absurd rfl hL
  | cons h t => rfl

theorem splitOnP_append_dot_gen (a b : List Nat) :
    splitOnP isDot (a ++ 0x2E :: b) = splitOnP isDot a ++ splitOnP isDot b := by
  induction a with
  | nil => exact splitOnP_cons_pos _ _ _ (by rfl)
  | cons c cs ih =>
    rw [List.cons_append]
    by_cases hc : isDot c = true
    · rw [splitOnP_cons_pos _ _ _ hc, splitOnP_cons_pos _ _ _ hc, ih]; rfl
    · have hc' : isDot c = false := by simpa using hc
      rw [splitOnP_cons_neg _ _ _ hc', splitOnP_cons_neg _ _ _ hc', ih,
        joinHead_append _ _ _ (splitOnP_ne_nil _ _)]

theorem lastLabel_nodot (t : List Nat) : ∀ c ∈ lastLabel t, isDot c = false := by
  intro c hc
  unfold lastLabel at hc
  rw [List.mem_reverse] at hc
  have := (List.all_eq_true.mp (List.all_takeWhile (p := (· != 0x2E)) (l := t.reverse))) c hc
  simpa [isDot] using this

theorem lastLabel_decomp (t : List Nat) :
    t = lastLabel t ∨ ∃ a, t = a ++ 0x2E :: lastLabel t := by
  have h := List.takeWhile_append_dropWhile (p := (· != 0x2E)) (l := t.reverse)
  have ht : t = (t.reverse.dropWhile (· != 0x2E)).reverse ++ lastLabel t := by
    unfold lastLabel
    rw [← List.reverse_append, h, List.reverse_reverse]
  cases hd : t.reverse.dropWhile (· != 0x2E) with
  | nil => left; rw [hd] at ht; simpa using ht
  | cons d r =>
    right
    have hne : t.reverse.dropWhile (· != 0x2E) ≠ [] := by rw [hd]; simp
    have := List.head_dropWhile_not (· != 0x2E) hne
    simp only [hd, List.head_cons] at this
    have hd2 : d = 0x2E := by simpa using this
    subst hd2
    refine ⟨r.reverse, ?_⟩
    rw [hd] at ht
    simpa using ht

theorem getLast?_splitOnP (t : List Nat) : (splitOnP isDot t).getLast? = some (lastLabel t) := by
  rcases lastLabel_decomp t with h | ⟨a, h⟩
  · have hnd : ∀ c ∈ t, isDot c = false := by rw [h]; exact lastLabel_nodot t
    rw [splitOnP_nodot t hnd]
    simpa using h
  · have : splitOnP isDot t = splitOnP isDot a ++ [lastLabel t] := by
      conv => lhs; rw [h]
      rw [splitOnP_append_dot_gen, splitOnP_nodot _ (lastLabel_nodot t)]
    rw [this, List.getLast?_concat]

theorem lastLabel_eq_nil (t : List Nat) (h : lastLabel t = []) : t = [] ∨ t.getLast? = some 0x2E := by
  rcases lastLabel_decomp t with h1 | ⟨a, h1⟩
  · left; rw [h1, h]
  · right; rw [h1, h]; simp

theorem endsInNumber_eq (s : List Nat) : Impl.endsInNumber s = Spec.endsInANumber s := by
  rw [impl_endsInNumber_eq, spec_endsInANumber_eq]
  by_cases hs : s = []
  · subst hs; rfl
  simp only [hs, if_false]
  by_cases hdot : s.getLast? = some 0x2E
  · simp only [hdot, if_true]
    obtain ⟨s', rfl⟩ := List.getLast?_eq_some_iff.mp hdot
    have hsplit : splitOnP isDot (s' ++ [0x2E]) = splitOnP isDot s' ++ [[]] :=
      splitOnP_append_dot_gen s' []
    have hlen : 1 ≤ (splitOnP isDot s').length := by
      have := splitOnP_ne_nil isDot s'
      cases hh : splitOnP isDot s' <;> simp [hh] at this ⊢
    have hlen' : ¬ ((splitOnP isDot s').length + 1 = 1) := by omega
    simp only [hsplit, List.getLast?_concat, if_true, List.length_append, List.length_cons,
      List.length_nil, Nat.zero_add, hlen', if_false, List.dropLast_concat, getLast?_splitOnP]
    exact labelCheck_eq _
  · simp only [hdot, if_false, getLast?_splitOnP]
    have hne : lastLabel s ≠ [] := by
      intro h
      rcases lastLabel_eq_nil s h with h | h
      · exact hs h
      · exact hdot h
    have : ¬ (some (lastLabel s) = some []) := by simpa using hne
    simp only [this, if_false, getLast?_splitOnP]
    exact labelCheck_eq _

end Upa.Impl.Ipv4
