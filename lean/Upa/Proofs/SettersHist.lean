import Upa.Proofs.Setters
import Upa.Proofs.Canon
/-
  C03 — setter histories: an invariant that implies `RecOk` and is kept by every setter gives the
  conformance of every call sequence.
-/
namespace Upa.Proofs.C03
open Upa.Impl (Setter)

/-- the ASCII-only stand-in for ToASCII of C08 also satisfies the two hypotheses of C07 -/
theorem sampleIdna_ok : Props.IdnaOk C08.sampleIdna where
  ascii := by
    intro s hne hs _
    unfold C08.sampleIdna
    rw [if_neg hne, if_pos]
    rw [List.all_eq_true]
    intro c hc
    have := C08.asciiDomainChar_lt c (hs c hc)
    simpa using this
  persist := by
    intro pre p post _ hlt _ hf _ _ a ha
    have hlow : ∀ c, c < 128 → Spec.forbiddenDomain c = true → Spec.forbiddenDomain (toLower c) = true := by
      decide
    unfold C08.sampleIdna at ha
    split at ha
    · cases ha
    · split at ha
      · simp only [Option.some.injEq] at ha
        subst ha
        rw [List.any_eq_true]
        exact ⟨toLower p, by simp, hlow p hlt hf⟩
      · cases ha

/-- histories, for any invariant `J` that implies `RecOk` and is kept by the setters -/
theorem history_of_inv {idna : Idna} (hI : Props.IdnaOk idna) (J : Url → Prop)
    (hJ : ∀ u, J u → RecOk u = true)
    (hpres : ∀ (s : Setter) (e : Enc) (units : List Nat) (u : Url), Props.UnitsOk e units → J u →
      J (Impl.setValid idna s e units u).1) :
    ∀ (calls : List (Setter × Enc × List Nat)) (u : Url),
      (∀ c ∈ calls, Props.UnitsOk c.2.1 c.2.2) → J u →
      calls.foldl (fun u c => (Impl.setValid idna c.1 c.2.1 c.2.2 u).1) u =
        calls.foldl (fun u c => Spec.apiSet idna c.1 c.2.1 c.2.2 u) u := by
  intro calls
  induction calls with
  | nil => intro u _ _; rfl
  | cons c cs ih =>
    intro u hu hj
    have hc := hu c List.mem_cons_self
    simp only [List.foldl_cons]
    rw [← setter_conforms hI c.1 c.2.1 c.2.2 u hc (hJ u hj)]
    exact ih _ (fun x hx => hu x (List.mem_cons_of_mem _ hx)) (hpres c.1 c.2.1 c.2.2 u hc hj)

/-- for concrete call lists (decidable form of the `UnitsOk` hypothesis, UTF-8 values) -/
theorem unitsOk_u8_calls (calls : List (Setter × Enc × List Nat))
    (h : ∀ c ∈ calls, c.2.1 = Enc.u8 ∧ ∀ x ∈ c.2.2, x < 256) :
    ∀ c ∈ calls, Props.UnitsOk c.2.1 c.2.2 := by
  intro c hc
  obtain ⟨h1, h2⟩ := h c hc
  obtain ⟨s, e, l⟩ := c
  simp only at h1 h2 ⊢
  subst h1
  exact h2

#print axioms sampleIdna_ok
#print axioms history_of_inv
end Upa.Proofs.C03
