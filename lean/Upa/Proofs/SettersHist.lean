import Upa.Proofs.SettersInv
/-
  C03 — setter histories: an invariant that implies `RecOk` and is kept by every setter gives the
  conformance of every call sequence.
-/
namespace Upa.Proofs.C03
open Upa.Impl (Setter)

/-- the ASCII-only stand-in for ToASCII of C08 also satisfies the two hypotheses of C07 -/
theorem sampleIdna_ok : Props.IdnaOk C08.sampleIdna where
  ascii := by
    intro s hne hs _
    unfold C08.sampleIdna
    rw [if_neg hne, if_pos]
    rw [List.all_eq_true]
    intro c hc
    have := C08.asciiDomainChar_lt c (hs c hc)
    simpa using this
  persist := by
    intro pre p post _ hlt _ hf _ _ a ha
    have hlow : ∀ c, c < 128 → Spec.forbiddenDomain c = true → Spec.forbiddenDomain (toLower c) = true := by
      decide
    unfold C08.sampleIdna at ha
    split at ha
    · cases ha
    · split at ha
      · simp only [Option.some.injEq] at ha
        subst ha
        rw [List.any_eq_true]
        exact ⟨toLower p, by simp, hlow p hlt hf⟩
      · cases ha

/-! ## `RecOk` is necessary -/

section necessary
open Upa.Proofs.C01 (resOf)

def sHttpU : List Nat := [0x68, 0x74, 0x74, 0x70]

theorem schemeOv_http (u : Url) (fin : List Nat → Option Url × Url) :
    schemeOv u fin sHttpU = fin Impl.sHttp := by
  have h1 : isAlpha 0x68 = true := by decide
  have h2 : ([0x74, 0x74, 0x70] : List Nat).dropWhile isSchemeChar = [] := by decide
  have h3 : C01.Head.schemeOf 0x68 [0x74, 0x74, 0x70] = Impl.sHttp := by decide +kernel
  simp only [sHttpU, schemeOv, h1, h2, h3, if_true]

/-- a `file` record whose host text is empty but whose host is not the empty host: the protocol setter
    "http" is ignored by the code and carried out by the Standard -/
theorem protocol_separates (idna : Idna) (u : Url) (hf : u.isFile = true) (ht : u.hostText = [])
    (hne : u.host ≠ some Spec.emptyHost) :
    (Impl.setValid idna .protocol .u8 sHttpU u).1 ≠ Spec.apiSet idna .protocol .u8 sHttpU u := by
  have hsc : u.scheme = Impl.sFile := (C01.Head.isFile_iff u).1 hf
  have hprep : Impl.prep .u8 sHttpU = sHttpU := by decide +kernel
  have hpin : Spec.parserInput .u8 sHttpU = sHttpU := by decide +kernel
  -- the code
  have hi : (Impl.setValid idna .protocol .u8 sHttpU u).1 = u := by
    have h1 : (Impl.setValid idna .protocol .u8 sHttpU u).1 =
        (resOf (some .schemeStart) (Impl.urlParse idna none (some .schemeStart) u (Impl.prep .u8 sHttpU))).2 := rfl
    rw [h1, hprep, urlParse_scheme_impl, schemeOv_http]
    have hsp : u.isSpecial = true := C08.file_special hf
    have : implSchemeFin u Impl.sHttp = ⟨.ignored, u⟩ := by
      unfold implSchemeFin
      have e1 : Impl.isSpecialScheme Impl.sHttp = true := by decide
      have e2 : Impl.isFileScheme Impl.sHttp = false := by decide
      simp [hsp, e1, e2, hf, ht]
    rw [this]; rfl
  -- the Standard
  have hs : (Spec.apiSet idna .protocol .u8 sHttpU u).scheme = Impl.sHttp := by
    have h1 : Spec.apiSet idna .protocol .u8 sHttpU u =
        (Spec.basicParse idna (Spec.parserInput .u8 sHttpU ++ [0x3A]) none u (some .schemeStart)).2 := rfl
    rw [h1, hpin, basicParse_scheme_spec, schemeOv_http]
    have hsp : Spec.isSpecial u = true := C08.file_special hf
    have e1 : Impl.isSpecialScheme Impl.sHttp = true := by decide
    have e2 : Impl.sHttp ≠ Impl.sFile := by decide
    unfold specSchemeFin
    simp only [hsp, e1, bne_self_eq_false, Bool.false_eq_true, if_false, e2, and_false, hne]
    split <;> rfl
  intro heq
  rw [hi] at heq
  rw [← heq, hsc] at hs
  exact absurd hs (by decide)

/-- a non-`file` record with a host that has an empty serialization but is not the empty host: the
    username setter is refused by the code and carried out by the Standard -/
theorem username_separates (idna : Idna) (u : Url) (h : Host) (hf : u.isFile = false) (hh : u.host = some h)
    (ht : h.text = []) (hne : h ≠ Spec.emptyHost) :
    ∃ units, (units = [0x61] ∨ units = [0x62]) ∧
      (Impl.setValid idna .username .u8 units u).1 ≠ Spec.apiSet idna .username .u8 units u := by
  have hcan : Impl.canHaveUsernamePasswordPort u = false := by
    simp [Impl.canHaveUsernamePasswordPort, Url.hostText, hh, ht]
  have hcannot : Spec.cannotHaveUsernamePasswordPort u = false := by
    have hf' : (u.scheme == Impl.sFile) = false := hf
    have : (some h == some Spec.emptyHost) = false := by simpa using hne
    simp [Spec.cannotHaveUsernamePasswordPort, hh, hf', this]
  have himpl : ∀ units, (Impl.setValid idna .username .u8 units u).1 = u := by
    intro units; simp [Impl.setValid, hcan]
  have hspec : ∀ units, (Spec.apiSet idna .username .u8 units u).username =
      Spec.utf8PercentEncode Spec.userinfoSet (Spec.decode .u8 units) := by
    intro units; simp [Spec.apiSet, hcannot]
  have ea : Spec.utf8PercentEncode Spec.userinfoSet (Spec.decode .u8 [0x61]) = [0x61] := by decide +kernel
  have eb : Spec.utf8PercentEncode Spec.userinfoSet (Spec.decode .u8 [0x62]) = [0x62] := by decide +kernel
  by_cases hu : u.username = [0x61]
  · refine ⟨[0x62], Or.inr rfl, fun heq => ?_⟩
    have := hspec [0x62]
    rw [← heq, himpl, hu, eb] at this
    exact absurd this (by decide)
  · refine ⟨[0x61], Or.inl rfl, fun heq => ?_⟩
    have := hspec [0x61]
    rw [← heq, himpl, ea] at this
    exact hu this

/-- on every record that violates `RecOk`, some setter call (protocol "http", or username "a" / "b")
    separates the code from the Standard: `RecOk` is the weakest hypothesis of `setter_conforms` -/
theorem recOk_necessary (idna : Idna) (u : Url) (h : RecOk u = false) :
    ∃ (s : Setter) (units : List Nat), Props.UnitsOk .u8 units ∧
      (Impl.setValid idna s .u8 units u).1 ≠ Spec.apiSet idna s .u8 units u := by
  unfold RecOk at h
  cases hh : u.host with
  | none =>
    rw [hh] at h
    have hf : u.isFile = true := by simpa using h
    exact ⟨.protocol, sHttpU, (by decide : ∀ x ∈ sHttpU, x < 256),
      protocol_separates idna u hf (by simp [Url.hostText, hh]) (by rw [hh]; simp)⟩
  | some x =>
    rw [hh] at h
    simp only [Bool.or_eq_false_iff, bne_eq_false_iff_eq, beq_eq_false_iff_ne] at h
    obtain ⟨ht, hk⟩ := h
    have hne : x ≠ Spec.emptyHost := by
      intro he; rw [he] at hk; exact hk rfl
    cases hf : u.isFile with
    | true =>
      exact ⟨.protocol, sHttpU, (by decide : ∀ x ∈ sHttpU, x < 256),
        protocol_separates idna u hf (by simp [Url.hostText, hh, ht]) (by rw [hh]; simpa using hne)⟩
    | false =>
      obtain ⟨units, hu, hd⟩ := username_separates idna u x hf hh ht hne
      refine ⟨.username, units, ?_, hd⟩
      rcases hu with rfl | rfl
      · exact (by decide : ∀ x ∈ ([0x61] : List Nat), x < 256)
      · exact (by decide : ∀ x ∈ ([0x62] : List Nat), x < 256)

end necessary

/-- An IDNA parameter that satisfies `IdnaOk` but returns the empty string on non-ASCII input without
    forbidden ASCII characters: shows that `IdnaOk` alone does not keep the setters inside `RecOk`. -/
def emptyIdna : Idna := fun s =>
  if s.all (fun c => decide (c < 0x80)) then some (s.map toLower)
  else if s.any (fun c => decide (c < 0x80) && Spec.forbiddenDomain c) then none
  else some []

theorem emptyIdna_ok : Props.IdnaOk emptyIdna where
  ascii := by
    intro s _ hs _
    unfold emptyIdna
    rw [if_pos]
    rw [List.all_eq_true]
    intro c hc
    have := C08.asciiDomainChar_lt c (hs c hc)
    simpa using this
  persist := by
    intro pre p post _ hlt _ hf _ _ a ha
    have hlow : ∀ c, c < 128 → Spec.forbiddenDomain c = true → Spec.forbiddenDomain (toLower c) = true := by
      decide
    unfold emptyIdna at ha
    split at ha
    · simp only [Option.some.injEq] at ha
      subst ha
      rw [List.any_eq_true]
      exact ⟨toLower p, by simp, hlow p hlt hf⟩
    · rw [if_pos] at ha
      · cases ha
      · rw [List.any_eq_true]
        exact ⟨p, by simp, by simp [hf]; omega⟩

/-- with `emptyIdna` the host parser returns a domain with an empty serialization for "é" -/
theorem emptyIdna_host : Impl.parseHost emptyIdna [0xE9] false = some ⟨.domain, []⟩ := by
  have pd : Impl.percentDecode [0xE9] = [0xC3, 0xA9] := by
    simp [Impl.percentDecode, Impl.percentDecodeAux, Impl.encodeUtf8Char]
  rw [C08.parseHost_domain _ _ _ (by decide)]
  have hf : C08.fastPath [0xE9] = none := by decide +kernel
  rw [hf]
  simp only [C08.idnaPath, pd]
  decide +kernel

/-- canonical records satisfy the invariant -/
theorem canon_recInv (u : Url) (h : Impl.Canon u = true) : RecInv u = true := by
  obtain ⟨ha, _, _, _⟩ := (C08.canon_iff u).1 h
  unfold RecInv
  cases hh : u.host with
  | none =>
    simp only [Bool.not_eq_true']
    cases hs : u.isSpecial with
    | false => rfl
    | true =>
      cases hf : u.isFile with
      | false =>
        obtain ⟨h', hh', _⟩ := ha.spHost hs hf
        rw [hh] at hh'; cases hh'
      | true =>
        obtain ⟨h', hh'⟩ := ha.fileHost hf
        rw [hh] at hh'; cases hh'
  | some h' =>
    have hk := ha.host h' hh
    obtain ⟨k, t⟩ := h'
    cases t with
    | nil => cases k <;> simp_all [Impl.hostOk, hostGood]
    | cons a t => simp [hostGood]

/-- histories, for any invariant `J` that implies `RecOk` and is kept by the setters -/
theorem history_of_inv {idna : Idna} (hI : Props.IdnaOk idna) (J : Url → Prop)
    (hJ : ∀ u, J u → RecOk u = true)
    (hpres : ∀ (s : Setter) (e : Enc) (units : List Nat) (u : Url), Props.UnitsOk e units → J u →
      J (Impl.setValid idna s e units u).1) :
    ∀ (calls : List (Setter × Enc × List Nat)) (u : Url),
      (∀ c ∈ calls, Props.UnitsOk c.2.1 c.2.2) → J u →
      calls.foldl (fun u c => (Impl.setValid idna c.1 c.2.1 c.2.2 u).1) u =
        calls.foldl (fun u c => Spec.apiSet idna c.1 c.2.1 c.2.2 u) u := by
  intro calls
  induction calls with
  | nil => intro u _ _; rfl
  | cons c cs ih =>
    intro u hu hj
    have hc := hu c List.mem_cons_self
    simp only [List.foldl_cons]
    rw [← setter_conforms hI c.1 c.2.1 c.2.2 u hc (hJ u hj)]
    exact ih _ (fun x hx => hu x (List.mem_cons_of_mem _ hx)) (hpres c.1 c.2.1 c.2.2 u hc hj)

/-- for concrete call lists (decidable form of the `UnitsOk` hypothesis, UTF-8 values) -/
theorem unitsOk_u8_calls (calls : List (Setter × Enc × List Nat))
    (h : ∀ c ∈ calls, c.2.1 = Enc.u8 ∧ ∀ x ∈ c.2.2, x < 256) :
    ∀ c ∈ calls, Props.UnitsOk c.2.1 c.2.2 := by
  intro c hc
  obtain ⟨h1, h2⟩ := h c hc
  obtain ⟨s, e, l⟩ := c
  simp only at h1 h2 ⊢
  subst h1
  exact h2

#print axioms recOk_necessary
#print axioms emptyIdna_ok
#print axioms canon_recInv
#print axioms sampleIdna_ok
#print axioms history_of_inv
end Upa.Proofs.C03
