import Upa.Proofs.Ipv6
/-
  Helper lemmas for C12: invariants of the code-shaped IPv6 parser and its equivalence with the
  Standard's pointer machine.
-/
set_option linter.unusedSimpArgs false
set_option linter.unusedVariables false

namespace Upa.Proofs.V6
open Upa

/-! ### list helpers -/

theorem getD_set (l : List Nat) (i j v : Nat) :
    (l.set i v).getD j 0 = if i = j ∧ j < l.length then v else l.getD j 0 := by
  simp only [List.getD_eq_getElem?_getD, List.getElem?_set]
  by_cases h : i = j
  · subst h
    by_cases h2 : i < l.length <;> simp [h2]
  · simp [h]

theorem getD_lt (l : List Nat) (B : Nat) (hB : 0 < B) (h : ∀ x ∈ l, x < B) (j : Nat) : l.getD j 0 < B := by
  rw [List.getD_eq_getElem?_getD]
  by_cases hj : j < l.length
  · simp [hj]; exact h _ (List.getElem_mem hj)
  · simp [hj]; exact hB

/-! ### value range of `getHexNumber` -/

theorem hexVal_lt (c : Nat) (h : isHex c = true) : hexVal c < 16 := by
  simp [isHex, isDigit] at h
  unfold hexVal
  split
  · omega
  · split <;> omega

theorem getHex_lt : ∀ (max : Nat) (p : List Nat) (v n : Nat),
    (Impl.getHexNumber max p v n).1 < (v + 1) * 16 ^ max := by
  intro max
  induction max with
  | zero => intro p v n; simp [Impl.getHexNumber]
  | succ m ih =>
    intro p v n
    have hpos : 0 < 16 ^ (m + 1) := Nat.pow_pos (by omega)
    cases p with
    | nil =>
      simp only [Impl.getHexNumber]
      calc v < v + 1 := by omega
        _ = (v + 1) * 1 := by omega
        _ ≤ (v + 1) * 16 ^ (m + 1) := Nat.mul_le_mul_left _ hpos
    | cons c r =>
      rw [Impl.getHexNumber]
      split
      · rename_i hc
        have h1 : v * 0x10 + hexVal c + 1 ≤ (v + 1) * 16 := by have := hexVal_lt c hc; omega
        calc (Impl.getHexNumber m r (v * 0x10 + hexVal c) (n + 1)).1
            < (v * 0x10 + hexVal c + 1) * 16 ^ m := ih _ _ _
          _ ≤ ((v + 1) * 16) * 16 ^ m := Nat.mul_le_mul_right _ h1
          _ = (v + 1) * 16 ^ (m + 1) := by rw [Nat.pow_succ, Nat.mul_assoc, Nat.mul_comm 16]
      · calc v < v + 1 := by omega
          _ = (v + 1) * 1 := by omega
          _ ≤ (v + 1) * 16 ^ (m + 1) := Nat.mul_le_mul_left _ hpos

theorem getHex4_lt (p : List Nat) : (Impl.getHexNumber 4 p 0 0).1 < 65536 := by
  have := getHex_lt 4 p 0 0
  simpa using this

/-! ### invariant of the parser state -/

/-- address shape: eight 16-bit pieces -/
def Good (a : List Nat) : Prop := a.length = 8 ∧ ∀ x ∈ a, x < 65536

theorem Good_set (a : List Nat) (i v : Nat) (h : Good a) (hv : v < 65536) : Good (a.set i v) := by
  refine ⟨by simp [h.1], ?_⟩
  intro x hx
  rcases List.mem_or_eq_of_mem_set hx with h1 | h1
  · exact h.2 x h1
  · omega

theorem Good_getD (a : List Nat) (i : Nat) (h : Good a) : a.getD i 0 < 65536 :=
  getD_lt a 65536 (by omega) h.2 i

/-- pieces at and beyond `k` are still zero -/
def ZerosFrom (a : List Nat) (k : Nat) : Prop := ∀ j, k ≤ j → a.getD j 0 = 0

structure Inv (st : Impl.V6St) : Prop where
  good : Good st.address
  le8 : st.pieceIndex ≤ 8
  cmp : st.compress ≤ st.pieceIndex
  zeros : ZerosFrom st.address st.pieceIndex

theorem ZerosFrom_set (a : List Nat) (k v : Nat) (h : ZerosFrom a k) : ZerosFrom (a.set k v) (k + 1) := by
  intro j hj
  rw [getD_set, if_neg (by omega)]
  exact h j (by omega)

/-- state after storing a piece -/
def stPut (st : Impl.V6St) (value : Nat) : Impl.V6St :=
  { st with address := st.address.set st.pieceIndex value, pieceIndex := st.pieceIndex + 1 }

/-- state after a "::" -/
def stCompress (st : Impl.V6St) : Impl.V6St :=
  { st with pieceIndex := st.pieceIndex + 1, compress := st.pieceIndex + 1 }

/-- one iteration of the main loop, with the result of the bounded hex read named -/
theorem mainLoop_step (f c : Nat) (r : List Nat) (st : Impl.V6St) (value n : Nat) (p' : List Nat)
    (hg : Impl.getHexNumber 4 (c :: r) 0 0 = (value, n, p')) :
    Impl.v6MainLoop (f + 1) (c :: r) st =
      if st.pieceIndex = 8 then none
      else if c = 0x3A then
        (if st.compress ≠ 0 then none else Impl.v6MainLoop f r (stCompress st))
      else match (generalizing := false) p' with
        | [] => Impl.v6MainLoop f [] (stPut st value)
        | ch :: p1 =>
          if ch = 0x2E then (if n = 0 then none else some (st, some (c :: r)))
          else if ch = 0x3A then (if p1 = [] then none else Impl.v6MainLoop f p1 (stPut st value))
          else none := by
  rw [Impl.v6MainLoop.eq_3]
  simp only [hg]
  rfl

theorem mainLoop_inv : ∀ (fuel : Nat) (p : List Nat) (st st' : Impl.V6St) (v4 : Option (List Nat)),
    Inv st → Impl.v6MainLoop fuel p st = some (st', v4) → Inv st' := by
  intro fuel
  induction fuel with
  | zero => intro p st st' v4 _ h; simp [Impl.v6MainLoop] at h
  | succ f ih =>
    intro p st st' v4 hinv h
    cases p with
    | nil => simp [Impl.v6MainLoop] at h; obtain ⟨rfl, _⟩ := h; exact hinv
    | cons c r =>
      generalize hg : Impl.getHexNumber 4 (c :: r) 0 0 = g at h
      obtain ⟨value, n, p'⟩ := g
      rw [mainLoop_step f c r st value n p' hg] at h
      by_cases h8 : st.pieceIndex = 8
      · simp [h8] at h
      · rw [if_neg h8] at h
        have hlt : st.pieceIndex < 8 := by have := hinv.le8; omega
        have hv : value < 65536 := by have := getHex4_lt (c :: r); rw [hg] at this; exact this
        have hset : Inv (stPut st value) :=
          ⟨Good_set _ _ _ hinv.good hv, by simp [stPut]; omega, by have := hinv.cmp; simp [stPut]; omega,
            ZerosFrom_set _ _ _ hinv.zeros⟩
        by_cases hc : c = 0x3A
        · rw [if_pos hc] at h
          by_cases hcm : st.compress ≠ 0
          · simp [hcm] at h
          · rw [if_neg hcm] at h
            refine ih _ _ _ _ ?_ h
            exact ⟨hinv.good, by simp [stCompress]; omega, by simp [stCompress],
              fun j hj => hinv.zeros j (by simp [stCompress] at hj; omega)⟩
        · rw [if_neg hc] at h
          cases p' with
          | nil => exact ih _ _ _ _ hset h
          | cons ch p1 =>
            simp only at h
            by_cases hdot : ch = 0x2E
            · rw [if_pos hdot] at h
              by_cases hn : n = 0
              · simp [hn] at h
              · rw [if_neg hn] at h
                simp at h
                obtain ⟨rfl, _⟩ := h
                exact hinv
            · rw [if_neg hdot] at h
              by_cases hcol : ch = 0x3A
              · rw [if_pos hcol] at h
                by_cases hp1 : p1 = []
                · simp [hp1] at h
                · rw [if_neg hp1] at h
                  exact ih _ _ _ _ hset h
              · simp [hcol] at h


/-! ### the embedded IPv4 tail -/

/-- state after one dotted number -/
def stV4 (st : Impl.V6St) (piece ns' : Nat) : Impl.V6St :=
  { address := st.address.set st.pieceIndex ((st.address.getD st.pieceIndex 0 * 0x100 + piece) % 65536),
    pieceIndex := if ns' % 2 = 0 then st.pieceIndex + 1 else st.pieceIndex,
    compress := st.compress }

theorem v4Loop_step (f c : Nat) (r : List Nat) (ns : Nat) (st : Impl.V6St) :
    Impl.v6V4Loop (f + 1) (c :: r) ns st =
      match (if ns > 0 then (if c = 0x2E ∧ ns < 4 then some r else none) else some (c :: r)) with
      | none => none
      | some [] => none
      | some (d :: r') =>
        if !isDigit d then none
        else match Impl.v6Digits r' (d - 0x30) with
          | none => none
          | some (piece, rest) => Impl.v6V4Loop f rest (ns + 1) (stV4 st piece (ns + 1)) := by
  rw [Impl.v6V4Loop.eq_3]
  simp only [stV4]
  generalize (if ns > 0 then (if c = 0x2E ∧ ns < 4 then some r else none) else some (c :: r)) = q
  rcases q with _ | _ | ⟨d, r'⟩
  · rfl
  · rfl
  · simp only
    by_cases hd : (!isDigit d) = true
    · simp only [hd, if_true]
    · simp only [hd, if_false]
      cases Impl.v6Digits r' (d - 0x30) with
      | none => rfl
      | some pr =>
        obtain ⟨piece, rest⟩ := pr
        simp only
        by_cases hp : (ns + 1) % 2 = 0
        · simp only [hp, if_true]
        · simp only [hp, if_false]

theorem v6Digits_le : ∀ (l : List Nat) (v x : Nat) (rest : List Nat), v ≤ 255 →
    Impl.v6Digits l v = some (x, rest) → x ≤ 255 ∧ rest.length ≤ l.length := by
  intro l
  induction l with
  | nil => intro v x rest hv h; simp [Impl.v6Digits] at h; obtain ⟨rfl, rfl⟩ := h; exact ⟨hv, by simp⟩
  | cons d r ih =>
    intro v x rest hv h
    rw [Impl.v6Digits] at h
    by_cases hd : isDigit d = true
    · rw [if_pos hd] at h
      by_cases h0 : v = 0
      · simp [h0] at h
      · rw [if_neg h0] at h
        simp only at h
        by_cases hgt : v * 10 + (d - 0x30) > 255
        · simp [hgt] at h
        · rw [if_neg hgt] at h
          have := ih _ _ _ (by omega) h
          exact ⟨this.1, by simp; omega⟩
    · rw [if_neg hd] at h
      simp at h
      obtain ⟨rfl, rfl⟩ := h
      exact ⟨hv, by simp⟩

/-- zero pattern during the IPv4 tail: before an odd-numbered part the current piece and everything
    after it is zero; before an even-numbered part the current piece holds one byte. -/
def V4Z (ns : Nat) (st : Impl.V6St) : Prop :=
  (ns % 2 = 0 → ZerosFrom st.address st.pieceIndex) ∧
  (ns % 2 = 1 → st.address.getD st.pieceIndex 0 < 256 ∧ ZerosFrom st.address (st.pieceIndex + 1))

theorem V4Z_value (ns : Nat) (st : Impl.V6St) (piece : Nat) (h : V4Z ns st) (hp : piece ≤ 255) :
    st.address.getD st.pieceIndex 0 * 0x100 + piece < 65536 ∧
    (ns % 2 = 0 → st.address.getD st.pieceIndex 0 * 0x100 + piece < 256) := by
  rcases Nat.mod_two_eq_zero_or_one ns with h0 | h1
  · have := h.1 h0 st.pieceIndex (Nat.le_refl _)
    rw [this]; omega
  · have := (h.2 h1).1
    omega

theorem V4Z_step (ns : Nat) (st : Impl.V6St) (piece : Nat) (h : V4Z ns st) (hp : piece ≤ 255) :
    V4Z (ns + 1) (stV4 st piece (ns + 1)) := by
  have hv := V4Z_value ns st piece h hp
  rw [← Nat.mod_eq_of_lt hv.1] at hv
  rcases Nat.mod_two_eq_zero_or_one ns with h0 | h1
  · have e : (ns + 1) % 2 = 1 := by omega
    refine ⟨by omega, fun _ => ?_⟩
    have hpi : (stV4 st piece (ns + 1)).pieceIndex = st.pieceIndex := by simp [stV4, e]
    have hadr : (stV4 st piece (ns + 1)).address =
      st.address.set st.pieceIndex ((st.address.getD st.pieceIndex 0 * 0x100 + piece) % 65536) := rfl
    rw [hpi, hadr]
    constructor
    · rw [getD_set]; split
      · exact hv.2 h0
      · have := h.1 h0 st.pieceIndex (Nat.le_refl _); omega
    · intro j hj
      rw [getD_set, if_neg (by omega)]
      exact h.1 h0 j (by omega)
  · have e : (ns + 1) % 2 = 0 := by omega
    refine ⟨fun _ => ?_, by omega⟩
    have hpi : (stV4 st piece (ns + 1)).pieceIndex = st.pieceIndex + 1 := by simp [stV4, e]
    have hadr : (stV4 st piece (ns + 1)).address =
      st.address.set st.pieceIndex ((st.address.getD st.pieceIndex 0 * 0x100 + piece) % 65536) := rfl
    rw [hpi, hadr]
    intro j hj
    rw [getD_set, if_neg (by omega)]
    exact (h.2 h1).2 j (by omega)

theorem v4Loop_inv : ∀ (fuel : Nat) (p : List Nat) (ns : Nat) (st st' : Impl.V6St),
    Good st.address → ns ≤ 4 → 2 * st.pieceIndex ≤ 12 + ns → st.compress ≤ st.pieceIndex → V4Z ns st →
    Impl.v6V4Loop fuel p ns st = some st' → Inv st' := by
  intro fuel
  induction fuel with
  | zero => intro p ns st st' _ _ _ _ _ h; simp [Impl.v6V4Loop] at h
  | succ f ih =>
    intro p ns st st' hg hns hpi hcmp hz h
    cases p with
    | nil =>
      simp [Impl.v6V4Loop] at h
      obtain ⟨h4, rfl⟩ := h
      subst h4
      exact ⟨hg, by omega, hcmp, hz.1 (by omega)⟩
    | cons c r =>
      rw [v4Loop_step] at h
      split at h
      · simp at h
      · simp at h
      · rename_i d r' hp
        have hns3 : ns + 1 ≤ 4 := by
          by_cases h0 : ns > 0
          · simp only [h0, if_true] at hp
            split at hp
            · omega
            · simp at hp
          · omega
        by_cases hd : (!isDigit d) = true
        · simp [hd] at h
        · rw [if_neg hd] at h
          split at h
          · simp at h
          · rename_i piece rest hdig
            have hd' : isDigit d = true := by simpa using hd
            have hle : d - 0x30 ≤ 255 := by simp [isDigit] at hd'; omega
            have hpiece := (v6Digits_le _ _ _ _ hle hdig).1
            refine ih _ _ _ _ ?_ hns3 ?_ ?_ (V4Z_step ns st piece hz hpiece) h
            · exact Good_set _ _ _ hg (Nat.mod_lt _ (by omega))
            · simp only [stV4]; split <;> omega
            · simp only [stV4]; split <;> omega


/-! ### the parser as a composition of its phases -/

def implStart (s : List Nat) : Option (List Nat × Impl.V6St) :=
  match s with
  | 0x3A :: c1 :: r => if c1 ≠ 0x3A then none else some (r, { pieceIndex := 1, compress := 1 })
  | _ => some (s, {})

def implV4 (F : Nat) (res : Option (Impl.V6St × Option (List Nat))) : Option Impl.V6St :=
  match res with
  | none => none
  | some (st, none) => some st
  | some (st, some p) => if st.pieceIndex > 6 then none else Impl.v6V4Loop F p 0 st

def implFinal (st : Impl.V6St) : Option (List Nat) :=
  if st.compress ≠ 0 then
    (if 8 - st.pieceIndex ≠ 0 then
      some (Impl.v6Shift (8 - st.pieceIndex) st.compress (st.pieceIndex - st.compress) st.address)
     else some st.address)
  else if st.pieceIndex ≠ 8 then none
  else some st.address

theorem ipv6Parse_eq (s : List Nat) :
    Impl.ipv6Parse s =
      if s.length < 2 then none
      else (implStart s).bind (fun ps =>
        (implV4 (s.length + 1) (Impl.v6MainLoop (s.length + 1) ps.1 ps.2)).bind implFinal) := by
  unfold Impl.ipv6Parse
  split
  · rfl
  · show (match implStart s with
      | none => none
      | some (p, st) => _) = _
    cases implStart s with
    | none => rfl
    | some ps =>
      obtain ⟨p, st⟩ := ps
      simp only [Option.bind]
      cases Impl.v6MainLoop (s.length + 1) p st with
      | none => rfl
      | some res =>
        obtain ⟨st', v4⟩ := res
        cases v4 with
        | none => rfl
        | some q =>
          simp only [implV4]
          by_cases h6 : st'.pieceIndex > 6
          · simp only [h6, if_true]
          · simp only [h6, if_false]
            cases Impl.v6V4Loop (s.length + 1) q 0 st' <;> rfl


theorem zeros8_getD (j : Nat) : ([0, 0, 0, 0, 0, 0, 0, 0] : List Nat).getD j 0 = 0 := by
  have := getD_lt [0, 0, 0, 0, 0, 0, 0, 0] 1 (by omega) (by decide) j
  omega

theorem implStart_inv (s p : List Nat) (st : Impl.V6St) (h : implStart s = some (p, st)) : Inv st := by
  have h0 : Good [0, 0, 0, 0, 0, 0, 0, 0] := by constructor <;> decide
  unfold implStart at h
  split at h
  · split at h
    · simp at h
    · simp at h
      obtain ⟨_, rfl⟩ := h
      exact ⟨h0, by simp, by simp, fun j _ => zeros8_getD j⟩
  · simp at h
    obtain ⟨_, rfl⟩ := h
    exact ⟨h0, by simp, by simp, fun j _ => zeros8_getD j⟩

theorem implV4_inv (F fuel : Nat) (p : List Nat) (st st' : Impl.V6St) (hinv : Inv st)
    (h : implV4 F (Impl.v6MainLoop fuel p st) = some st') : Inv st' := by
  unfold implV4 at h
  split at h
  · simp at h
  · rename_i st1 heq
    simp at h; subst h
    exact mainLoop_inv _ _ _ _ _ hinv heq
  · rename_i st1 q heq
    have h1 := mainLoop_inv _ _ _ _ _ hinv heq
    split at h
    · simp at h
    · exact v4Loop_inv _ _ _ _ _ h1.good (by omega) (by omega) h1.cmp
        ⟨fun _ => h1.zeros, fun h => by omega⟩ h

theorem shift_good (diff c : Nat) : ∀ (k : Nat) (a : List Nat), Good a → Good (Impl.v6Shift diff c k a) := by
  intro k
  induction k with
  | zero => intro a h; exact h
  | succ k ih =>
    intro a h
    rw [Impl.v6Shift]
    exact ih _ (Good_set _ _ _ (Good_set _ _ _ h (Good_getD _ _ h)) (by omega))

theorem implFinal_good (st : Impl.V6St) (a : List Nat) (hinv : Inv st) (h : implFinal st = some a) :
    Good a := by
  unfold implFinal at h
  split at h
  · split at h
    · simp at h; subst h; exact shift_good _ _ _ _ hinv.good
    · simp at h; subst h; exact hinv.good
  · split at h
    · simp at h
    · simp at h; subst h; exact hinv.good

/-- the phases of a successful parse, with the invariant of the state before the final step -/
theorem parse_phases (s a : List Nat) (h : Impl.ipv6Parse s = some a) :
    ∃ p st st', 2 ≤ s.length ∧ implStart s = some (p, st) ∧
      implV4 (s.length + 1) (Impl.v6MainLoop (s.length + 1) p st) = some st' ∧
      implFinal st' = some a ∧ Inv st' := by
  rw [ipv6Parse_eq] at h
  split at h
  · simp at h
  · rename_i hl
    cases hs : implStart s with
    | none => simp [hs] at h
    | some ps =>
      obtain ⟨p, st⟩ := ps
      simp only [hs, Option.bind] at h
      cases hm : implV4 (s.length + 1) (Impl.v6MainLoop (s.length + 1) p st) with
      | none => simp [hm] at h
      | some st' =>
        simp only [hm] at h
        exact ⟨p, st, st', by omega, rfl, hm, h, implV4_inv _ _ _ _ _ (implStart_inv s p st hs) hm⟩

theorem parse_good (s a : List Nat) (h : Impl.ipv6Parse s = some a) : Good a := by
  obtain ⟨p, st, st', _, _, _, hf, hinv⟩ := parse_phases s a h
  exact implFinal_good st' a hinv hf

end Upa.Proofs.V6
