import Upa.Proofs.BoundsMiscAgree
/-
  Helper lemmas for C04g: `ipv6SerializeM` (src/url_ip.cpp:51-70, bounds-instrumented) computes
  `Impl.ipv6Serialize` on the eight pieces.
-/
namespace Upa.Impl.B

theorem slice_drop (a : Array Nat) (last : Nat) (hl : last ≤ a.size) :
    ∀ k p, p + k ≤ last → (slice a p last).drop k = slice a (p + k) last := by
  intro k
  induction k with
  | zero => intro p _; rfl
  | succ k ih =>
    intro p h
    rw [slice_cons a p last (by omega) hl, List.drop_succ_cons, ih (p + 1) (by omega)]
    congr 1
    omega

theorem ipv6SerLoop_cons (c : Option Nat) (n fuel x : Nat) (r : List Nat) (i : Nat) :
    Impl.ipv6SerLoop c n (fuel + 1) (x :: r) i =
      if c = some i then
        match (x :: r).drop n with
        | [] => (if i = 0 then [0x3A, 0x3A] else [0x3A])
        | b :: r' =>
          (if i = 0 then [0x3A, 0x3A] else [0x3A]) ++ Impl.unsignedToStr 16 hexDigitLower b ++
            (if r' = [] then [] else 0x3A :: Impl.ipv6SerLoop c n fuel r' (i + n + 1))
      else
        Impl.unsignedToStr 16 hexDigitLower x ++
          (if r = [] then [] else 0x3A :: Impl.ipv6SerLoop c n fuel r (i + 1)) := by
  rw [Impl.ipv6SerLoop]
  rfl

theorem ipv6SerLoop_fuel (c : Option Nat) (n : Nat) :
    ∀ fuel l i fuel', l.length < fuel → l.length < fuel' →
      Impl.ipv6SerLoop c n fuel l i = Impl.ipv6SerLoop c n fuel' l i := by
  intro fuel
  induction fuel with
  | zero => intro l i fuel' h _; omega
  | succ fuel ih =>
    intro l i fuel' h h'
    cases fuel' with
    | zero => omega
    | succ m =>
      cases l with
      | nil => simp [Impl.ipv6SerLoop]
      | cons x r =>
        simp only [List.length_cons] at h h'
        rw [ipv6SerLoop_cons, ipv6SerLoop_cons]
        split
        · have hlen : ((x :: r).drop n).length ≤ r.length + 1 := by
            rw [List.length_drop]; simp only [List.length_cons]; omega
          generalize (x :: r).drop n = d at hlen
          cases d with
          | nil => rfl
          | cons b r' =>
            simp only [List.length_cons] at hlen
            simp only []
            rw [ih r' (i + n + 1) m (by omega) (by omega)]
        · rw [ih r (i + 1) m (by omega) (by omega)]

theorem ipv6SerializeM_agrees (a : Array Nat) (first last : Nat) (h : first < last) (hl : last ≤ a.size)
    (hb : ∀ i, first ≤ i → i < last → a[i]! < 65536) :
    ipv6SerializeM a first last = .ok (Impl.ipv6Serialize (slice a first last)) := by
  apply R.sat_eq
  unfold ipv6SerializeM
  refine R.sat_bind (R.sat_and (longestZeroSequenceM_sat a first last (by omega) hl)
    (longestZeroSequenceM_agrees a first last (by omega) hl)) ?_
  intro ⟨len, compress0⟩ ⟨⟨hp1, hp0⟩, hag⟩
  simp only at hp1 hp0 hag ⊢
  generalize hcp : (if len = 1 then none else compress0) = compress
  have hc : ∀ c, compress = some c → first ≤ c ∧ c + len ≤ last ∧ 2 ≤ len := by
    intro c hcc
    rw [← hcp] at hcc
    split at hcc
    · cases hcc
    · have := hp1 c hcc
      omega
  have hiff : ∀ it, first ≤ it → (compress.map (fun p => p - first) = some (it - first) ↔ compress = some it) := by
    intro it hit
    cases hcc : compress with
    | none => simp
    | some c =>
      have := hc c hcc
      simp only [Option.map_some, Option.some.injEq]
      omega
  have hres : Impl.ipv6Serialize (slice a first last) =
      Impl.ipv6SerLoop (compress.map (fun p => p - first)) len (last - first + 1) (slice a first last) 0 := by
    unfold Impl.ipv6Serialize
    rw [← hag, slice_length a first last hl]
    simp only []
    congr 1
    rw [← hcp]
    by_cases hl1 : len = 1
    · simp [hl1]
    · cases hc0 : compress0 with
      | none => simp [hp0 hc0]
      | some p =>
        have := hp1 p hc0
        have hne0 : ¬ len = 0 := by omega
        simp [hl1, hne0, cidx]
  rw [hres]
  generalize compress.map (fun p => p - first) = cL at hiff
  refine iter_sat _ (fun s => first ≤ s.1 ∧ s.1 < last ∧
      s.2 ++ Impl.ipv6SerLoop cL len (last - s.1 + 1) (slice a s.1 last) (s.1 - first) =
        Impl.ipv6SerLoop cL len (last - first + 1) (slice a first last) 0) (fun s => last - s.1) _ ?_ _ _ ?_ ?_
  · intro ⟨it, out⟩ ⟨h1, h2, h3⟩
    simp only at h1 h2 h3 ⊢
    have hhex : ∀ j o, first ≤ j → j < last →
        unsignedToStrM (a[j]! % 65536) 16 o = .ok (Impl.unsignedToStr 16 hexDigitLower a[j]!) := by
      intro j o hj1 hj2
      have hlt := hb j hj1 hj2
      rw [Nat.mod_eq_of_lt hlt]
      exact unsignedToStrM_agrees _ 16 o (by omega) (by omega) (by omega)
    have hnil : ∀ j, j ≤ last → (slice a j last = [] ↔ j = last) := by
      intro j hj
      constructor
      · intro he
        have := slice_length a j last hl
        rw [he] at this
        simp at this
        omega
      · intro he; exact slice_nil a j last (by omega)
    rw [slice_cons a it last h2 hl, ipv6SerLoop_cons] at h3
    by_cases hci : compress = some it
    · have hcc := hc it hci
      rw [if_pos ((hiff it h1).2 hci), ← slice_cons a it last h2 hl, slice_drop a last hl len it (by omega)] at h3
      simp only [if_pos hci, Nat.add_zero]
      psimp
      have e0 : (it - first = 0) = (it = first) := by apply propext; omega
      simp only [e0] at h3
      by_cases hend : it + len = last
      · rw [if_pos hend]
        simp only [R.pure_bind']
        refine R.sat_pure ?_
        rw [hend, slice_nil a last last (by omega)] at h3
        exact h3
      · rw [if_neg hend]
        simp only [R.pure_bind']
        have hlt2 : it + len < last := by omega
        rw [slice_cons a (it + len) last hlt2 hl] at h3
        simp only [] at h3
        simp only [rd_ok (by omega : first ≤ it + len) hlt2 hl, R.ok_bind, hhex (it + len) _ (by omega) hlt2]
        psimp
        by_cases hend2 : it + len + 1 = last
        · rw [if_pos hend2]
          refine R.sat_pure ?_
          rw [if_pos ((hnil _ (by omega)).2 hend2)] at h3
          simpa using h3
        · rw [if_neg hend2]
          refine R.sat_pure ⟨⟨by simp only []; omega, by simp only []; omega, ?_⟩, by simp only []; omega⟩
          simp only []
          rw [if_neg (fun hh => hend2 ((hnil _ (by omega)).1 hh))] at h3
          rw [ipv6SerLoop_fuel cL len (last - it) _ _ (last - (it + len + 1) + 1)
            (by rw [slice_length a _ _ hl]; omega) (by rw [slice_length a _ _ hl]; omega)] at h3
          have e1 : it - first + len + 1 = it + len + 1 - first := by omega
          rw [e1] at h3
          rw [← h3]
          simp [List.append_assoc]
    · rw [if_neg (fun hh => hci ((hiff it h1).1 hh))] at h3
      simp only [if_neg hci, R.pure_bind']
      simp only [rd_ok h1 h2 hl, R.ok_bind, hhex it _ h1 h2]
      psimp
      by_cases hend2 : it + 1 = last
      · rw [if_pos hend2]
        refine R.sat_pure ?_
        rw [if_pos ((hnil _ (by omega)).2 hend2)] at h3
        simpa using h3
      · rw [if_neg hend2]
        refine R.sat_pure ⟨⟨by simp only []; omega, by simp only []; omega, ?_⟩, by simp only []; omega⟩
        simp only []
        rw [if_neg (fun hh => hend2 ((hnil _ (by omega)).1 hh))] at h3
        rw [ipv6SerLoop_fuel cL len (last - it) _ _ (last - (it + 1) + 1)
          (by rw [slice_length a _ _ hl]; omega) (by rw [slice_length a _ _ hl]; omega)] at h3
        have e1 : it - first + 1 = it + 1 - first := by omega
        rw [e1] at h3
        rw [← h3]
        simp [List.append_assoc]
  · refine ⟨Nat.le_refl _, h, ?_⟩
    simp
  · simp only []; omega

end Upa.Impl.B
