import Upa.Proofs.Setters
import Upa.Proofs.Canon
/-
  C03 — an invariant of the setters that implies `RecOk`, proved directly on the code blocks:

    RecInv u  :=  a special URL has a host, and a host whose serialization is empty is the empty host

  kept by every setter (and true of every parsed URL) provided ToASCII never returns the empty string
  (`IdnaNonEmpty`; weaker than `IdnaCanon` of C08).  Method: every tail block keeps `key u = (scheme, host)`;
  the host blocks keep the scheme and either keep the host or store a host produced by the host parser.
-/
namespace Upa.Proofs.C03
open Upa.Impl

/-- ToASCII never returns the empty string (the library treats an empty result as failure) -/
def IdnaNonEmpty (idna : Idna) : Prop := ∀ s r, idna s = some r → r ≠ []

theorem IdnaNonEmpty.of_canon {idna : Idna} (h : C08.IdnaCanon idna) : IdnaNonEmpty idna :=
  fun s r hr => (h.out_ascii s r hr).1

/-- a host whose serialization is empty is the empty host -/
def hostGood (h : Host) : Bool := h.text != [] || h.kind == .empty

def RecInv (u : Url) : Bool :=
  match u.host with
  | none => !u.isSpecial
  | some h => hostGood h

theorem RecInv.recOk {u : Url} (h : RecInv u = true) : RecOk u = true := by
  unfold RecInv at h
  unfold RecOk
  cases hh : u.host with
  | none =>
    rw [hh] at h
    simp only [Bool.not_eq_true', Url.isFile] at h ⊢
    cases hf : isFileScheme u.scheme with
    | false => rfl
    | true =>
      have := C08.file_special hf
      simp [Url.isSpecial, this] at h
  | some x => rw [hh] at h; exact h

/-! ## tail blocks keep scheme and host -/

def key (u : Url) : List Nat × Option Host := (u.scheme, u.host)

theorem RecInv.of_key {u v : Url} (hk : key v = key u) (h : RecInv u = true) : RecInv v = true := by
  simp only [key, Prod.mk.injEq] at hk
  unfold RecInv Url.isSpecial at *
  rw [hk.1, hk.2]; exact h

theorem key_fragmentState (u : Url) (p : List Nat) : key (fragmentState u p).url = key u := rfl

theorem key_queryState (ov : Option Override) (u : Url) (p : List Nat) :
    key (queryState ov u p).url = key u := by
  unfold queryState
  simp only
  split <;> rfl

theorem key_afterPath (ov : Option Override) (u : Url) (rest : List Nat) :
    key (afterPath ov u rest).url = key u := by
  unfold afterPath
  split
  · rfl
  · split
    · exact key_queryState _ _ _
    · rfl

theorem key_opaquePathState (ov : Option Override) (u : Url) (p : List Nat) :
    key (opaquePathState ov u p).url = key u := by
  unfold opaquePathState
  simp only
  rw [key_afterPath]; rfl

theorem key_shortenPath (u : Url) : key (shortenPath u) = key u := by
  unfold shortenPath
  repeat' (first | rfl | split)

theorem key_pathSegment (u : Url) (seg : List Nat) (l : Bool) : key (pathSegment u seg l) = key u := by
  unfold pathSegment
  split
  · simp only
    split
    · exact key_shortenPath u
    · exact key_shortenPath u
  · split
    · split <;> rfl
    · split
      · split <;> rfl
      · rfl

theorem key_pathSegments : ∀ (segs : List (List Nat)) (u : Url), key (pathSegments u segs) = key u := by
  intro segs
  induction segs with
  | nil => intro u; rfl
  | cons s rest ih =>
    intro u
    cases rest with
    | nil => exact key_pathSegment u s true
    | cons s2 r2 =>
      rw [pathSegments]
      · rw [ih, key_pathSegment]
      · simp

theorem key_parsePath (u : Url) (s : List Nat) : key (parsePath u s) = key u := by
  unfold parsePath
  exact key_pathSegments _ _

theorem key_pathState (ov : Option Override) (u : Url) (p : List Nat) :
    key (pathState ov u p).url = key u := by
  unfold pathState
  simp only
  rw [key_afterPath, key_parsePath]

theorem key_pathStartState (ov : Option Override) (u : Url) (p : List Nat) :
    key (pathStartState ov u p).url = key u := by
  unfold pathStartState
  split
  · split
    · split <;> exact key_pathState _ _ _
    · exact key_pathState _ _ _
  · split
    · split
      · split
        · exact key_queryState _ _ _
        · split
          · rfl
          · split <;> exact key_pathState _ _ _
      · split <;> exact key_pathState _ _ _
    · split <;> rfl

theorem key_portResult {u u' : Url} {digits : List Nat} (h : C08.portResult u digits = some u') :
    key u' = key u := by
  unfold C08.portResult at h
  split at h
  · dsimp only at h
    split at h
    · simp at h
    · split at h
      · simp at h
      · split at h <;> (simp only [Option.some.injEq] at h; subst h; rfl)
  · simp only [Option.some.injEq] at h; subst h; rfl

theorem key_portState (ov : Option Override) (u : Url) (p : List Nat) :
    key (portState ov u p).url = key u := by
  rw [C08.portState_eq]
  split
  · cases hr : C08.portResult u (p.takeWhile isDigit) with
    | none => rfl
    | some u' =>
      simp only
      split
      · exact key_portResult hr
      · rw [key_pathStartState]; exact key_portResult hr
  · rfl

/-! ## the host parser returns a good host -/

theorem hostGood_of_ne {h : Host} (hne : h.text ≠ []) : hostGood h = true := by
  simp [hostGood, hne]

theorem idnaPath_good {idna : Idna} (hi : IdnaNonEmpty idna) {s : List Nat} {h : Host}
    (hr : C08.idnaPath idna s = some h) : h.text ≠ [] := by
  unfold C08.idnaPath at hr
  split at hr
  · simp at hr
  · rename_i ascii hid
    have hne := hi _ _ hid
    split at hr
    · simp at hr
    · split at hr
      · exact (C08.hostOk_ipv4 hr).2
      · simp only [Option.some.injEq] at hr; subst hr; exact hne

theorem parseHost_good {idna : Idna} (hi : IdnaNonEmpty idna) (s : List Nat) (o : Bool) (h : Host)
    (hh : parseHost idna s o = some h) : hostGood h = true := by
  cases s with
  | nil =>
    simp only [parseHost] at hh
    split at hh
    · simp only [Option.some.injEq] at hh; subst hh; rfl
    · simp at hh
  | cons c0 r =>
    by_cases hb : c0 = 0x5B
    · unfold parseHost at hh
      simp only [if_pos hb] at hh
      split at hh
      · exact hostGood_of_ne (C08.hostOk_ipv6 hh).2
      · simp at hh
    · cases o with
      | true =>
        unfold parseHost at hh
        simp only [if_neg hb, if_true] at hh
        exact hostGood_of_ne ((C08.hostOk_opaque hh).2 (by simp))
      | false =>
        rw [C08.parseHost_domain idna c0 r hb] at hh
        split at hh
        · rename_i x hf
          rcases C08.hostOk_fast hf hh with h1 | h1
          · exact hostGood_of_ne h1.2
          · simp at h1
        · exact hostGood_of_ne (idnaPath_good hi hh)

/-! ## host blocks: scheme kept, host kept or replaced by a good one -/

def HostStep (u v : Url) : Prop :=
  v.scheme = u.scheme ∧ (v.host = u.host ∨ ∃ h, v.host = some h ∧ hostGood h = true)

theorem HostStep.of_key {u v : Url} (h : key v = key u) : HostStep u v := by
  simp only [key, Prod.mk.injEq] at h
  exact ⟨h.1, Or.inl h.2⟩

theorem HostStep.refl (u : Url) : HostStep u u := ⟨rfl, Or.inl rfl⟩

theorem HostStep.trans {u v w : Url} (h1 : HostStep u v) (h2 : HostStep v w) : HostStep u w := by
  refine ⟨h2.1.trans h1.1, ?_⟩
  rcases h2.2 with h | h
  · rcases h1.2 with h' | h'
    · exact Or.inl (h.trans h')
    · exact Or.inr (by rw [h]; exact h')
  · exact Or.inr h

theorem HostStep.key_right {u v w : Url} (h1 : HostStep u v) (h2 : key w = key v) : HostStep u w :=
  h1.trans (HostStep.of_key h2)

theorem HostStep.setHost (u : Url) (h : Host) (hg : hostGood h = true) : HostStep u { u with host := some h } :=
  ⟨rfl, Or.inr ⟨h, rfl, hg⟩⟩

theorem HostStep.recInv {u v : Url} (hs : HostStep u v) (h : RecInv u = true) : RecInv v = true := by
  obtain ⟨h1, h2⟩ := hs
  rcases h2 with h2 | ⟨x, hx, hg⟩
  · exact RecInv.of_key (by simp [key, h1, h2]) h
  · unfold RecInv; rw [hx]; exact hg

/-- a successful run has stored a good host -/
def SetsHost (r : Res) : Prop := r.out = .ok → ∃ h, r.url.host = some h ∧ hostGood h = true

theorem setsHost_of_key {u : Url} {r : Res} {h : Host} (hu : u.host = some h) (hg : hostGood h = true)
    (hk : key r.url = key u) : SetsHost r := by
  intro _
  simp only [key, Prod.mk.injEq] at hk
  exact ⟨h, by rw [hk.2, hu], hg⟩

theorem fileHostState_step {idna : Idna} (hi : IdnaNonEmpty idna) (ov : Option Override) (u : Url)
    (p : List Nat) : HostStep u (fileHostState idna ov u p).url := by
  rw [C08.fileHostState_eq]
  split
  · split
    · exact HostStep.setHost u _ rfl
    · exact (HostStep.setHost u _ rfl).key_right (key_pathStartState _ _ _)
  · split
    · exact HostStep.of_key (key_pathState _ _ _)
    · cases hp : parseHost idna (p.takeWhile fun c => !isSpecialAuthorityEnd c) (!u.isSpecial) with
      | none => exact HostStep.refl u
      | some h =>
        have hg := parseHost_good hi _ _ _ hp
        have hg' : hostGood (if h.text == sLocalhost then emptyHost else h) = true := by
          split
          · rfl
          · exact hg
        dsimp only
        split
        · exact HostStep.setHost u _ hg'
        · exact (HostStep.setHost u _ hg').key_right (key_pathStartState _ _ _)

theorem hostState_step {idna : Idna} (hi : IdnaNonEmpty idna) (ov : Option Override) (u : Url)
    (p : List Nat) :
    HostStep u (hostState idna ov u p).url ∧ (ov = none → SetsHost (hostState idna ov u p)) := by
  unfold hostState
  by_cases hfc : (ov.isSome && u.isFile) = true
  · rw [if_pos hfc]
    refine ⟨fileHostState_step hi ov u p, ?_⟩
    intro hov; subst hov; simp at hfc
  · rw [if_neg hfc]
    dsimp only
    generalize hostScan _ false = sc
    obtain ⟨hostPart, portPart⟩ := sc
    dsimp only
    split
    · exact ⟨HostStep.refl u, fun _ h => by simp at h⟩
    · split
      · exact ⟨HostStep.refl u, fun _ h => by simp at h⟩
      · split
        · exact ⟨HostStep.refl u, fun _ h => by simp at h⟩
        · cases hph : parseHost idna hostPart (!u.isSpecial) with
          | none => exact ⟨HostStep.refl u, fun _ h => by simp at h⟩
          | some h =>
            have hg := parseHost_good hi _ _ _ hph
            dsimp only
            cases portPart with
            | some pp =>
              dsimp only
              exact ⟨(HostStep.setHost u h hg).key_right (key_portState _ _ _),
                fun _ => setsHost_of_key (u := { u with host := some h }) rfl hg (key_portState _ _ _)⟩
            | none =>
              dsimp only
              split
              · exact ⟨HostStep.setHost u h hg, fun hov => by subst hov; simp at *⟩
              · exact ⟨(HostStep.setHost u h hg).key_right (key_pathStartState _ _ _),
                  fun _ => setsHost_of_key (u := { u with host := some h }) rfl hg (key_pathStartState _ _ _)⟩

theorem SetsHost.recInv {r : Res} (h : SetsHost r) (hok : r.out = .ok) : RecInv r.url = true := by
  obtain ⟨x, hx, hg⟩ := h hok
  unfold RecInv; rw [hx]; exact hg

theorem authorityState_step {idna : Idna} (hi : IdnaNonEmpty idna) (u : Url) (p : List Nat) :
    HostStep u (authorityState idna none u p).url ∧ SetsHost (authorityState idna none u p) := by
  unfold authorityState
  dsimp only
  split
  · exact ⟨(hostState_step hi none u p).1, (hostState_step hi none u p).2 rfl⟩
  · split
    · exact ⟨HostStep.refl u, fun h => by simp at h⟩
    · rename_i cred hostport _ _
      generalize hu' : (if (((cred.dropWhile (· != 0x3A)).drop 1 ≠ [] || cred.takeWhile (· != 0x3A) ≠ []) : Bool) = true then
          ({ u with username := percentEncode userinfoNoEnc (cred.takeWhile (· != 0x3A)),
                    password := if (cred.dropWhile (· != 0x3A)).drop 1 ≠ [] then
                      percentEncode userinfoNoEnc ((cred.dropWhile (· != 0x3A)).drop 1) else u.password } : Url)
          else u) = u'
      have hk : key u' = key u := by
        rw [← hu']; split <;> rfl
      have := hostState_step hi none u' (hostport ++ p.dropWhile (fun c => !(if u.isSpecial then isSpecialAuthorityEnd else isAuthorityEnd) c))
      exact ⟨(HostStep.of_key hk).trans this.1, this.2 rfl⟩

theorem ignoreSlashesState_step {idna : Idna} (hi : IdnaNonEmpty idna) (u : Url) (p : List Nat) :
    HostStep u (ignoreSlashesState idna none u p).url ∧ SetsHost (ignoreSlashesState idna none u p) :=
  authorityState_step hi u _

theorem specialAuthoritySlashesState_step {idna : Idna} (hi : IdnaNonEmpty idna) (u : Url) (p : List Nat) :
    HostStep u (specialAuthoritySlashesState idna none u p).url ∧
      SetsHost (specialAuthoritySlashesState idna none u p) := by
  unfold specialAuthoritySlashesState
  split <;> exact ignoreSlashesState_step hi u _

theorem pathOrAuthorityState_step {idna : Idna} (hi : IdnaNonEmpty idna) (u : Url) (p : List Nat) :
    HostStep u (pathOrAuthorityState idna none u p).url := by
  unfold pathOrAuthorityState
  split
  · exact (authorityState_step hi u _).1
  · exact HostStep.of_key (key_pathState _ _ _)

theorem fileSlashState_step {idna : Idna} (hi : IdnaNonEmpty idna) (u : Url) (p : List Nat) :
    HostStep u (fileSlashState idna none none u p).url := by
  unfold fileSlashState
  split
  · split
    · exact fileHostState_step hi none u _
    · exact HostStep.of_key (key_pathState _ _ _)
  · exact HostStep.of_key (key_pathState _ _ _)

theorem fileState_recInv {idna : Idna} (hi : IdnaNonEmpty idna) (u : Url) (p : List Nat) :
    RecInv (fileState idna none none u p).url = true := by
  unfold fileState
  dsimp only
  generalize (if (!u.isFile) = true then ({ u with scheme := sFile } : Url) else u) = u1
  have h2 : RecInv ({ u1 with host := some emptyHost } : Url) = true := rfl
  split
  · split
    · exact (fileSlashState_step hi _ _).recInv h2
    · exact (HostStep.of_key (key_pathState _ _ _)).recInv h2
  · exact (HostStep.of_key (key_pathState _ _ _)).recInv h2

theorem schemeState_recInv {idna : Idna} (hi : IdnaNonEmpty idna) (c0 : Nat) (r0 : List Nat)
    (hok : (schemeState idna none none {} (c0 :: r0)).out = .ok) :
    RecInv (schemeState idna none none {} (c0 :: r0)).url = true := by
  unfold schemeState at hok ⊢
  dsimp only at hok ⊢
  generalize (c0 :: r0.takeWhile isSchemeChar).map (· ||| 0x20) = scheme at hok ⊢
  have hno : (noSchemeState idna none none {} (c0 :: r0)).out ≠ .ok := by simp [noSchemeState]
  cases hrest : List.dropWhile isSchemeChar r0 with
  | nil =>
    rw [hrest] at hok
    simp only [Option.isSome_none, Bool.false_eq_true, if_false, Option.isNone_none, if_true] at hok
    exact absurd hok hno
  | cons c tl =>
    rw [hrest] at hok
    dsimp only at hok ⊢
    by_cases hc : (c == 0x3A) = true
    · rw [if_pos hc] at hok ⊢
      simp only [Option.isSome_none, Bool.false_eq_true, if_false] at hok ⊢
      split
      · exact fileState_recInv hi _ _
      · rename_i hnf
        rw [if_neg hnf] at hok
        split
        · rename_i hsp
          rw [if_pos hsp] at hok
          exact (specialAuthoritySlashesState_step hi _ _).2.recInv hok
        · rename_i hsp
          have h0 : RecInv ({ scheme := scheme } : Url) = true := by
            simpa [RecInv] using hsp
          split
          · exact (pathOrAuthorityState_step hi _ _).recInv h0
          · exact RecInv.of_key (key_opaquePathState _ _ _) (RecInv.of_key (u := { scheme := scheme }) rfl h0)
    · rw [if_neg hc] at hok
      simp only [Option.isNone_none, if_true] at hok
      exact absurd hok hno

theorem urlParse_recInv {idna : Idna} (hi : IdnaNonEmpty idna) (p : List Nat)
    (hok : (urlParse idna none none {} p).out = .ok) : RecInv (urlParse idna none none {} p).url = true := by
  cases p with
  | nil => simp [urlParse, noSchemeState] at hok
  | cons c r =>
    by_cases h0 : isAlpha c = true
    · have : urlParse idna none none {} (c :: r) = schemeState idna none none {} (c :: r) := by
        simp [urlParse, h0]
      rw [this] at hok ⊢
      exact schemeState_recInv hi _ _ hok
    · simp [urlParse, h0, noSchemeState] at hok

/-- every successfully parsed URL (no base) satisfies the invariant -/
theorem parse_recInv {idna : Idna} (hi : IdnaNonEmpty idna) (e : Enc) (units : List Nat) (u : Url)
    (h : parse idna e units none = some u) : RecInv u = true := by
  unfold parse at h
  have hg := urlParse_recInv hi (prep e (doTrim units))
  generalize urlParse idna none none {} (prep e (doTrim units)) = r at h hg
  obtain ⟨o, u'⟩ := r
  cases o with
  | ok => simp only [Option.some.injEq] at h; subst h; exact hg rfl
  | failure => simp at h
  | ignored => simp at h

/-! ## the setters keep the invariant -/

theorem implSchemeFin_recInv (u : Url) (s : List Nat) (h : RecInv u = true) :
    RecInv (implSchemeFin u s).url = true := by
  unfold implSchemeFin
  split
  · exact h
  · rename_i h1
    split
    · exact h
    · split
      · exact h
      · have hsp : isSpecialScheme s = u.isSpecial := by
          cases hx : u.isSpecial <;> cases hy : isSpecialScheme s <;> simp [hx, hy] at h1 ⊢
        have h' : RecInv ({ u with scheme := s } : Url) = true := by
          unfold RecInv Url.isSpecial at h ⊢
          simp only [hsp]
          exact h
        dsimp only
        split
        · exact RecInv.of_key (u := { u with scheme := s }) rfl h'
        · exact h'

theorem protocol_recInv (idna : Idna) (u : Url) (p : List Nat) (h : RecInv u = true) :
    RecInv (urlParse idna none (some .schemeStart) u p).url = true := by
  cases p with
  | nil => exact h
  | cons c0 r0 =>
    by_cases h0 : isAlpha c0 = true
    · have : urlParse idna none (some .schemeStart) u (c0 :: r0) =
          schemeState idna none (some .schemeStart) u (c0 :: r0) := by simp [urlParse, h0]
      rw [this]
      cases hd : r0.dropWhile isSchemeChar with
      | nil =>
        rw [schemeState_ov_scheme idna u c0 r0 (by rw [hd]; simp)]
        exact implSchemeFin_recInv u _ h
      | cons c t =>
        by_cases hc : c = 0x3A
        · rw [schemeState_ov_scheme idna u c0 r0 (by rw [hd]; simpa using hc)]
          exact implSchemeFin_recInv u _ h
        · rw [schemeState_ov_fail idna u c0 r0 c t hd hc]; exact h
    · have : urlParse idna none (some .schemeStart) u (c0 :: r0) = ⟨.failure, u⟩ := by
        simp [urlParse, h0]
      rw [this]; exact h

theorem key_stripTrailingSpaces (u : Url) : key (stripTrailingSpaces u) = key u := by
  unfold stripTrailingSpaces
  split <;> rfl

/-- every setter keeps `RecInv` (also when it reports failure) -/
theorem setValid_recInv {idna : Idna} (hi : IdnaNonEmpty idna) (s : Setter) (e : Enc) (units : List Nat)
    (u : Url) (h : RecInv u = true) : RecInv (setValid idna s e units u).1 = true := by
  unfold setValid
  cases s with
  | href =>
    dsimp only
    cases hp : parse idna e units none with
    | none => exact h
    | some u' => exact parse_recInv hi e units u' hp
  | protocol => exact protocol_recInv idna u _ h
  | username =>
    dsimp only
    split
    · exact RecInv.of_key (u := u) rfl h
    · exact h
  | password =>
    dsimp only
    split
    · exact RecInv.of_key (u := u) rfl h
    · exact h
  | host =>
    dsimp only
    split
    · exact (hostState_step hi (some .host) u _).1.recInv h
    · exact h
  | hostname =>
    dsimp only
    split
    · exact (hostState_step hi (some .hostname) u _).1.recInv h
    · exact h
  | port =>
    dsimp only
    split
    · split
      · exact RecInv.of_key (u := u) rfl h
      · exact RecInv.of_key (key_portState _ _ _) h
    · exact h
  | pathname =>
    dsimp only
    split
    · exact RecInv.of_key (key_pathStartState _ _ _) (RecInv.of_key (u := u) rfl h)
    · exact h
  | search =>
    dsimp only
    split
    · exact RecInv.of_key (key_stripTrailingSpaces _) (RecInv.of_key (u := u) rfl h)
    · exact RecInv.of_key (key_queryState _ _ _) h
  | hash =>
    dsimp only
    split
    · exact RecInv.of_key (key_stripTrailingSpaces _) (RecInv.of_key (u := u) rfl h)
    · exact RecInv.of_key (key_fragmentState _ _) h

#print axioms parse_recInv
#print axioms setValid_recInv
end Upa.Proofs.C03
