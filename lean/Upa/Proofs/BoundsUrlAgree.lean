import Upa.Proofs.BoundsUrl
import Upa.Proofs.BoundsAgree
/-
  Helper lemmas for C04d, part 5: the instrumented `do_remove_whitespace` / `do_trim` compute what the
  list models `Impl.removeWs` / `Impl.doTrim` (Upa/Impl/Api.lean) compute on the slice.
-/
namespace Upa.Impl.B
open UP

theorem slice_snocU (a : Array Nat) (first it : Nat) (h1 : first ≤ it) (h2 : it < a.size) :
    slice a first (it + 1) = slice a first it ++ [a[it]!] := by
  simp only [slice, Array.toList_extract, List.extract_eq_take_drop]
  have : it + 1 - first = (it - first) + 1 := by omega
  rw [this, List.take_add_one]
  congr 1
  have h3 : it - first < (List.drop first a.toList).length := by simp; omega
  rw [List.getElem?_eq_getElem h3]
  simp [getElem!_pos a it h2]
  congr 1
  omega

theorem removeWs_append (l m : List Nat) : removeWs (l ++ m) = removeWs l ++ removeWs m := by
  simp [removeWs]

theorem doRemoveWhitespaceB_agrees (a : Array Nat) (first last : Nat) (h : first ≤ last) (hl : last ≤ a.size) :
    (doRemoveWhitespaceB a first last).sat (fun r =>
      (match r with | none => slice a first last | some b => b) = removeWs (slice a first last)) := by
  unfold doRemoveWhitespaceB
  refine iter_sat _ (fun it => first ≤ it ∧ it ≤ last ∧ removeWs (slice a first it) = slice a first it)
    (fun it => last - it) _ ?_ _ _ ⟨Nat.le_refl _, h, by rw [slice_nil a first first (Nat.le_refl _)]; rfl⟩ (by omega)
  intro it hI
  try simp only [] at hI
  obtain ⟨h1, h2, h3⟩ := hI
  split
  · upsimp
    split
    · rename_i hlt hnr
      upsimp
      refine R.sat_pure ⟨⟨by omega, by omega, ?_⟩, by omega⟩
      rw [slice_snocU a first it h1 (by omega), removeWs_append, h3]
      simp only [removeWs, List.filter_cons, List.filter_nil]
      rw [if_pos hnr]
    · upsimp
      refine R.sat_bind (iter_sat _ (fun s => it ≤ s.1 ∧ s.1 ≤ last ∧ s.2 = removeWs (slice a first s.1))
        (fun s => last - s.1) (fun b => b = removeWs (slice a first last)) ?_ _ _ ⟨Nat.le_refl _, h2, h3.symm⟩
        (by simp only []; omega)) ?_
      · intro ⟨p, b⟩ hI'
        simp only [Nat.add_zero] at hI' ⊢
        obtain ⟨g1, g2, g3⟩ := hI'
        split
        · upsimp
          refine R.sat_pure ⟨⟨by omega, by omega, ?_⟩, by omega⟩
          rw [slice_snocU a first p (by omega) (by omega), removeWs_append, ← g3]
          simp only [removeWs, List.filter_cons, List.filter_nil]
          split <;> simp
        · have : p = last := by omega
          subst this
          exact R.sat_pure g3
      · intro b hb
        exact R.sat_pure hb
  · have : it = last := by omega
    subst this
    exact R.sat_pure h3.symm

theorem doTrimB_agrees (a : Array Nat) (first last : Nat) (h : first ≤ last) (hl : last ≤ a.size) :
    (doTrimB a first last).sat (fun r => first ≤ r.1 ∧ r.1 ≤ r.2 ∧ r.2 ≤ last ∧
      slice a r.1 r.2 = doTrim (slice a first last)) := by
  unfold doTrimB
  refine R.sat_bind (iter_sat _
    (fun f => first ≤ f ∧ f ≤ last ∧
      (slice a first last).dropWhile isTrimChar = (slice a f last).dropWhile isTrimChar)
    (fun f => last - f)
    (fun f => first ≤ f ∧ f ≤ last ∧ (slice a first last).dropWhile isTrimChar = slice a f last)
    ?_ _ _ ⟨Nat.le_refl _, h, rfl⟩ (by omega)) ?_
  · intro f hI
    try simp only [] at hI
    obtain ⟨h1, h2, h3⟩ := hI
    simp only [Nat.add_zero]
    split
    · rename_i hlt
      upsimp
      split
      · rename_i htc
        upsimp
        refine R.sat_pure ⟨⟨by omega, by omega, ?_⟩, by omega⟩
        rw [h3, slice_cons a f last hlt hl, List.dropWhile_cons, if_pos htc]
      · rename_i htc
        refine R.sat_pure ⟨h1, h2, ?_⟩
        rw [h3, slice_cons a f last hlt hl, List.dropWhile_cons, if_neg htc]
    · have : f = last := by omega
      subst this
      refine R.sat_pure ⟨h1, h2, ?_⟩
      rw [h3, slice_nil a f f (Nat.le_refl _)]; rfl
  · intro f hf
    obtain ⟨h1, h2, h3⟩ := hf
    refine R.sat_bind (iter_sat _
      (fun l => f ≤ l ∧ l ≤ last ∧
        (slice a f last).reverse.dropWhile isTrimChar = (slice a f l).reverse.dropWhile isTrimChar)
      (fun l => l - f)
      (fun l => f ≤ l ∧ l ≤ last ∧ (slice a f last).reverse.dropWhile isTrimChar = (slice a f l).reverse)
      ?_ _ _ ⟨h2, Nat.le_refl _, rfl⟩ (by omega)) ?_
    · intro l hI
      try simp only [] at hI
      obtain ⟨g1, g2, g3⟩ := hI
      split
      · rename_i hlt
        have hsn : slice a f l = slice a f (l - 1) ++ [a[l - 1]!] := by
          have := slice_snocU a f (l - 1) (by omega) (by omega)
          rwa [show l - 1 + 1 = l from by omega] at this
        upsimp
        split
        · rename_i htc
          upsimp
          refine R.sat_pure ⟨⟨by omega, by omega, ?_⟩, by omega⟩
          rw [g3, hsn, List.reverse_append, List.reverse_singleton, List.singleton_append, List.dropWhile_cons,
            if_pos htc]
        · rename_i htc
          refine R.sat_pure ⟨g1, g2, ?_⟩
          rw [g3, hsn, List.reverse_append, List.reverse_singleton, List.singleton_append, List.dropWhile_cons,
            if_neg htc]
      · have : l = f := by omega
        subst this
        refine R.sat_pure ⟨g1, g2, ?_⟩
        rw [g3, slice_nil a l l (Nat.le_refl _)]; rfl
    · intro l hl'
      obtain ⟨g1, g2, g3⟩ := hl'
      refine R.sat_pure ⟨h1, g1, g2, ?_⟩
      simp only [doTrim]
      rw [h3, g3, List.reverse_reverse]

end Upa.Impl.B
