import Upa.Proofs.OwnInv
/-
  C06b, layer 3 (continued): the operations that write pointers, allocate or destroy keep `OwnG`;
  every operation keeps key uniqueness; `stepH` keeps `OwnInv`.
-/
namespace Upa.Proofs.Own
open Upa Upa.Impl Upa.Impl.Own

/-! ## allocation of an isolated object -/

theorem newUrl_ownG (h : Heap) (hi : OwnG h) : OwnG (newUrl h).1 := by
  obtain ⟨f, b, fu, fp⟩ := hi
  unfold newUrl
  constructor <;> simp <;> grind

theorem urlCopyConstruct_ownG (h : Heap) (s : Nat) (hi : OwnG h) : OwnG (urlCopyConstruct h s).1 := by
  obtain ⟨f, b, fu, fp⟩ := hi
  unfold urlCopyConstruct
  constructor <;> simp <;> grind

theorem newParams_ownG (h : Heap) (l : List BPair) (hi : OwnG h) : OwnG (newParams h l).1 := by
  obtain ⟨f, b, fu, fp⟩ := hi
  unfold newParams
  constructor <;> simp <;> grind

theorem paramsCopyConstruct_ownG (h : Heap) (p : Nat) (hi : OwnG h) : OwnG (paramsCopyConstruct h p).1 := by
  obtain ⟨f, b, fu, fp⟩ := hi
  unfold paramsCopyConstruct
  constructor <;> simp <;> grind

theorem paramsMoveConstruct_ownG (h : Heap) (p : Nat) (hi : OwnG h) : OwnG (paramsMoveConstruct h p).1 := by
  obtain ⟨f, b, fu, fp⟩ := hi
  unfold paramsMoveConstruct
  constructor <;> simp <;> grind

theorem urlSearchParamsRvalue_ownG (h : Heap) (u : Nat) (hi : OwnG h) : OwnG (urlSearchParamsRvalue h u).1 := by
  unfold urlSearchParamsRvalue
  split
  · exact paramsMoveConstruct_ownG h _ hi
  · exact newParams_ownG h _ hi

/-! ## `search_params() &`: lazy `init(this)` -/

theorem urlSearchParams_ownG (h : Heap) (u : Nat) (hi : OwnG h) : OwnG (urlSearchParams h u) := by
  obtain ⟨f, b, fu, fp⟩ := hi
  unfold urlSearchParams
  rw [liveU_eq, spOf_eq]
  rcases hsu : sp h u with _ | _ | p
  · simpa using ⟨f, b, fu, fp⟩
  · have hlt : u < h.next := by
      by_cases hlt : u < h.next
      · exact hlt
      · rw [fu u (by omega)] at hsu; cases hsu
    constructor <;> simp [hsu] <;> grind
  · simpa using ⟨f, b, fu, fp⟩

/-! ## moves -/

theorem urlMoveConstruct_ownG (h : Heap) (s : Nat) (hi : OwnG h) : OwnG (urlMoveConstruct h s).1 := by
  obtain ⟨f, b, fu, fp⟩ := hi
  unfold urlMoveConstruct
  rw [spOf_eq]
  rcases hss : sp h s with _ | _ | p <;> constructor <;> simp [hss] <;> grind

theorem urlMoveAssign_ownG (h : Heap) (d s : Nat) (hi : OwnG h) : OwnG (urlMoveAssign h d s) := by
  unfold urlMoveAssign
  split
  · exact hi
  · rename_i hc
    simp only [liveU_eq, Bool.not_and, Bool.or_eq_true, Bool.not_eq_eq_eq_not, Bool.not_true, not_or,
      Bool.not_eq_false, Option.isSome_iff_ne_none] at hc
    obtain ⟨hds, hd, hs⟩ := hc
    obtain ⟨f, b, fu, fp⟩ := hi
    rw [spOf_eq, spOf_eq]
    rcases hsd : sp h d with _ | _ | pd
    · exact absurd hsd (by simpa using hd)
    all_goals
      rcases hss : sp h s with _ | _ | ps
      · exact absurd hss (by simpa using hs)
      all_goals constructor <;> simp [Ne.symm hds] <;> grind

theorem urlSafeAssign_ownG (h : Heap) (d s : Nat) (hi : OwnG h) : OwnG (urlSafeAssign h d s) := by
  unfold urlSafeAssign
  split
  · exact hi
  · obtain ⟨f, b, fu, fp⟩ := hi
    split
    · split
      · constructor <;> simp <;> grind
      · constructor <;> simp <;> grind
    · constructor <;> simp <;> grind

/-! ## destruction -/

theorem destroyUrl_ownG (h : Heap) (u : Nat) (hi : OwnG h) : OwnG (destroyUrl h u) := by
  obtain ⟨f, b, fu, fp⟩ := hi
  unfold destroyUrl
  rw [spOf_eq]
  rcases hsu : sp h u with _ | _ | p <;> constructor <;> simp <;> grind

/-- only a FREE object can be destroyed by the user -/
theorem destroyParams_ownG (h : Heap) (p : Nat) (hf : (h.urlPtrOf p).isNone = true) (hi : OwnG h) :
    OwnG (destroyParams h p) := by
  obtain ⟨f, b, fu, fp⟩ := hi
  rw [urlPtrOf_eq] at hf
  unfold destroyParams
  constructor <;> simp <;> grind

/-! ## compositions -/

theorem urlSwap_ownG (h : Heap) (a b : Nat) (hi : OwnG h) : OwnG (urlSwap h a b) := by
  unfold urlSwap
  split
  · exact hi
  · exact destroyUrl_ownG _ _ (urlMoveAssign_ownG _ _ _ (urlMoveAssign_ownG _ _ _ (urlMoveConstruct_ownG h a hi)))

theorem urlSetHref_ownG (h : Heap) (u : Nat) (res : Option Url) (hi : OwnG h) : OwnG (urlSetHref h u res) := by
  unfold urlSetHref
  split
  · exact hi
  · split
    · exact hi
    · refine destroyUrl_ownG _ _ (urlSafeAssign_ownG _ _ _ ?_)
      exact SameG.ownG (by unfold SameG; simp [newUrl]) (newUrl_ownG h hi)

theorem urlSet_ownG (idna : Idna) (h : Heap) (u : Nat) (s : Setter) (e : Enc) (units : List Nat) (hi : OwnG h) :
    OwnG (urlSet idna h u s e units) := by
  unfold urlSet
  split
  · exact urlSetHref_ownG h u _ hi
  · exact hi
  · exact (sameG_urlSetSearch ..).ownG hi
  · exact (sameG_urlSetOther ..).ownG hi

/-! ## key uniqueness -/

theorem nodupK_update (h : Heap) (p : Nat) (hn : NodupK h) : NodupK (update h p) := by
  unfold update; nodupK_tac
theorem nodupK_moveParams (h : Heap) (d s : Nat) (hn : NodupK h) : NodupK (moveParams h d s) := by
  unfold moveParams; nodupK_tac
theorem nodupK_moveRecord (h : Heap) (d s : Nat) (hn : NodupK h) : NodupK (moveRecord h d s) := by
  unfold moveRecord; nodupK_tac
theorem nodupK_clearSearchParams (h : Heap) (u : Nat) (hn : NodupK h) : NodupK (clearSearchParams h u) := by
  unfold clearSearchParams; nodupK_tac
theorem nodupK_parseSearchParams (h : Heap) (u : Nat) (hn : NodupK h) : NodupK (parseSearchParams h u) := by
  unfold parseSearchParams; nodupK_tac

/-- `nodupK_tac` with the building blocks -/
macro "nodupK_tac2" : tactic =>
  `(tactic| repeat (first
      | assumption
      | apply nodupK_update | apply nodupK_moveParams | apply nodupK_moveRecord
      | apply nodupK_clearSearchParams | apply nodupK_parseSearchParams
      | apply nodupK_setRec | apply nodupK_setSpPtr | apply nodupK_setContent | apply nodupK_setUrlPtr
      | apply nodupK_allocU | apply nodupK_allocP | apply nodupK_delU | apply nodupK_delP
      | split))

theorem nodupK_newUrl (h : Heap) (hn : NodupK h) : NodupK (newUrl h).1 := by unfold newUrl; nodupK_tac2
theorem nodupK_newParams (h : Heap) (l : List BPair) (hn : NodupK h) : NodupK (newParams h l).1 := by
  unfold newParams; nodupK_tac2
theorem nodupK_paramsCopyConstruct (h : Heap) (p : Nat) (hn : NodupK h) : NodupK (paramsCopyConstruct h p).1 := by
  unfold paramsCopyConstruct; nodupK_tac2
theorem nodupK_paramsMoveConstruct (h : Heap) (p : Nat) (hn : NodupK h) : NodupK (paramsMoveConstruct h p).1 := by
  unfold paramsMoveConstruct; nodupK_tac2
theorem nodupK_paramsCopyAssign (h : Heap) (d s : Nat) (hn : NodupK h) : NodupK (paramsCopyAssign h d s) := by
  unfold paramsCopyAssign; nodupK_tac2
theorem nodupK_paramsMoveAssign (h : Heap) (d s : Nat) (hn : NodupK h) : NodupK (paramsMoveAssign h d s) := by
  unfold paramsMoveAssign; nodupK_tac2
theorem nodupK_paramsSafeAssign (h : Heap) (d s : Nat) (hn : NodupK h) : NodupK (paramsSafeAssign h d s) := by
  unfold paramsSafeAssign; nodupK_tac2
theorem nodupK_paramsSwap (h : Heap) (a b : Nat) (hn : NodupK h) : NodupK (paramsSwap h a b) := by
  unfold paramsSwap; nodupK_tac2
theorem nodupK_paramsMutate (h : Heap) (p : Nat) (f : Params → Params) (a : Bool) (hn : NodupK h) :
    NodupK (paramsMutate h p f a) := by
  unfold paramsMutate; dsimp only; nodupK_tac2
theorem nodupK_destroyParams (h : Heap) (p : Nat) (hn : NodupK h) : NodupK (destroyParams h p) := by
  unfold destroyParams; nodupK_tac2
theorem nodupK_urlSearchParams (h : Heap) (u : Nat) (hn : NodupK h) : NodupK (urlSearchParams h u) := by
  unfold urlSearchParams; nodupK_tac2
theorem nodupK_urlClear (h : Heap) (u : Nat) (hn : NodupK h) : NodupK (urlClear h u) := by
  unfold urlClear; nodupK_tac2
theorem nodupK_urlDoParse (h : Heap) (u : Nat) (res : Option Url) (hn : NodupK h) : NodupK (urlDoParse h u res) := by
  unfold urlDoParse; dsimp only
  have := nodupK_urlClear h u hn
  nodupK_tac2
theorem nodupK_urlSetSearch (h : Heap) (u : Nat) (r : Url) (e : Bool) (hn : NodupK h) :
    NodupK (urlSetSearch h u r e) := by
  unfold urlSetSearch; dsimp only; nodupK_tac2
theorem nodupK_urlSetOther (h : Heap) (u : Nat) (r : Url) (hn : NodupK h) : NodupK (urlSetOther h u r) := by
  unfold urlSetOther; nodupK_tac2
theorem nodupK_urlCopyConstruct (h : Heap) (s : Nat) (hn : NodupK h) : NodupK (urlCopyConstruct h s).1 := by
  unfold urlCopyConstruct; nodupK_tac2
theorem nodupK_urlCopyAssign (h : Heap) (d s : Nat) (hn : NodupK h) : NodupK (urlCopyAssign h d s) := by
  unfold urlCopyAssign; dsimp only; nodupK_tac2
theorem nodupK_urlMoveConstruct (h : Heap) (s : Nat) (hn : NodupK h) : NodupK (urlMoveConstruct h s).1 := by
  unfold urlMoveConstruct; dsimp only; nodupK_tac2
theorem nodupK_urlMoveAssign (h : Heap) (d s : Nat) (hn : NodupK h) : NodupK (urlMoveAssign h d s) := by
  unfold urlMoveAssign; dsimp only; nodupK_tac2
theorem nodupK_urlSafeAssign (h : Heap) (d s : Nat) (hn : NodupK h) : NodupK (urlSafeAssign h d s) := by
  unfold urlSafeAssign; dsimp only; nodupK_tac2
theorem nodupK_destroyUrl (h : Heap) (u : Nat) (hn : NodupK h) : NodupK (destroyUrl h u) := by
  unfold destroyUrl; dsimp only; nodupK_tac2
theorem nodupK_urlSwap (h : Heap) (a b : Nat) (hn : NodupK h) : NodupK (urlSwap h a b) := by
  unfold urlSwap
  split
  · exact hn
  · exact nodupK_destroyUrl _ _ (nodupK_urlMoveAssign _ _ _ (nodupK_urlMoveAssign _ _ _ (nodupK_urlMoveConstruct h a hn)))
theorem nodupK_urlSetHref (h : Heap) (u : Nat) (res : Option Url) (hn : NodupK h) : NodupK (urlSetHref h u res) := by
  unfold urlSetHref
  split
  · exact hn
  · split
    · exact hn
    · exact nodupK_destroyUrl _ _ (nodupK_urlSafeAssign _ _ _ (nodupK_setRec _ _ _ (nodupK_newUrl h hn)))
theorem nodupK_urlSearchParamsRvalue (h : Heap) (u : Nat) (hn : NodupK h) : NodupK (urlSearchParamsRvalue h u).1 := by
  unfold urlSearchParamsRvalue
  split
  · exact nodupK_paramsMoveConstruct h _ hn
  · exact nodupK_newParams h _ hn
theorem nodupK_urlSet (idna : Idna) (h : Heap) (u : Nat) (s : Setter) (e : Enc) (units : List Nat) (hn : NodupK h) :
    NodupK (urlSet idna h u s e units) := by
  unfold urlSet
  split
  · exact nodupK_urlSetHref h u _ hn
  · exact hn
  · exact nodupK_urlSetSearch _ _ _ _ hn
  · exact nodupK_urlSetOther _ _ _ hn

/-! ## one step, and histories -/

theorem stepH_ownG (idna : Idna) (h : Heap) (op : HOp) (hp : pre h op = true) (hi : OwnG h) :
    OwnG (stepH idna h op) := by
  cases op with
  | newUrl => exact newUrl_ownG h hi
  | newParams l => exact newParams_ownG h l hi
  | urlSearchParams u => exact urlSearchParams_ownG h u hi
  | urlCopyConstruct s => exact urlCopyConstruct_ownG h s hi
  | urlCopyAssign d s => exact (sameG_urlCopyAssign h d s).ownG hi
  | urlMoveConstruct s => exact urlMoveConstruct_ownG h s hi
  | urlMoveAssign d s => exact urlMoveAssign_ownG h d s hi
  | urlSafeAssign d s => exact urlSafeAssign_ownG h d s hi
  | urlSwap a b => exact urlSwap_ownG h a b hi
  | urlClear u => exact (sameG_urlClear h u).ownG hi
  | urlParse u e units base => exact (sameG_urlDoParse h u _).ownG hi
  | urlSet u s e units => exact urlSet_ownG idna h u s e units hi
  | urlSearchParamsRvalue u => exact urlSearchParamsRvalue_ownG h u hi
  | destroyUrl u => exact destroyUrl_ownG h u hi
  | paramsCopyConstruct p => exact paramsCopyConstruct_ownG h p hi
  | paramsCopyAssign d s => exact (sameG_paramsCopyAssign h d s).ownG hi
  | paramsMoveConstruct p => exact paramsMoveConstruct_ownG h p hi
  | paramsMoveAssign d s => exact (sameG_paramsMoveAssign h d s).ownG hi
  | paramsSafeAssign d s => exact (sameG_paramsSafeAssign h d s).ownG hi
  | paramsSwap a b => exact (sameG_paramsSwap h a b).ownG hi
  | paramsMutate p m => exact (sameG_paramsMutate h p _ _).ownG hi
  | destroyParams p =>
    simp only [pre, live, asserts, Bool.and_true, Bool.and_eq_true] at hp
    exact destroyParams_ownG h p hp.2 hi

theorem stepH_nodupK (idna : Idna) (h : Heap) (op : HOp) (hn : NodupK h) : NodupK (stepH idna h op) := by
  cases op with
  | newUrl => exact nodupK_newUrl h hn
  | newParams l => exact nodupK_newParams h l hn
  | urlSearchParams u => exact nodupK_urlSearchParams h u hn
  | urlCopyConstruct s => exact nodupK_urlCopyConstruct h s hn
  | urlCopyAssign d s => exact nodupK_urlCopyAssign h d s hn
  | urlMoveConstruct s => exact nodupK_urlMoveConstruct h s hn
  | urlMoveAssign d s => exact nodupK_urlMoveAssign h d s hn
  | urlSafeAssign d s => exact nodupK_urlSafeAssign h d s hn
  | urlSwap a b => exact nodupK_urlSwap h a b hn
  | urlClear u => exact nodupK_urlClear h u hn
  | urlParse u e units base => exact nodupK_urlDoParse h u _ hn
  | urlSet u s e units => exact nodupK_urlSet idna h u s e units hn
  | urlSearchParamsRvalue u => exact nodupK_urlSearchParamsRvalue h u hn
  | destroyUrl u => exact nodupK_destroyUrl h u hn
  | paramsCopyConstruct p => exact nodupK_paramsCopyConstruct h p hn
  | paramsCopyAssign d s => exact nodupK_paramsCopyAssign h d s hn
  | paramsMoveConstruct p => exact nodupK_paramsMoveConstruct h p hn
  | paramsMoveAssign d s => exact nodupK_paramsMoveAssign h d s hn
  | paramsSafeAssign d s => exact nodupK_paramsSafeAssign h d s hn
  | paramsSwap a b => exact nodupK_paramsSwap h a b hn
  | paramsMutate p m => exact nodupK_paramsMutate h p _ _ hn
  | destroyParams p => exact nodupK_destroyParams h p hn

theorem stepH_ownInv (idna : Idna) (h : Heap) (op : HOp) (hp : pre h op = true) (hi : OwnInv h) :
    OwnInv (stepH idna h op) := by
  rw [ownInv_iff] at *
  exact ⟨stepH_ownG idna h op hp hi.1, stepH_nodupK idna h op hi.2⟩

theorem runH_ownInv (idna : Idna) (ops : List HOp) : ∀ h, OwnInv h → OwnInv (runH idna h ops) := by
  induction ops with
  | nil => intro h hi; exact hi
  | cons op ops ih =>
    intro h hi
    unfold runH
    simp only [List.foldl_cons]
    by_cases hp : pre h op = true
    · rw [if_pos hp]; exact ih _ (stepH_ownInv idna h op hp hi)
    · rw [if_neg hp]; exact ih _ hi

end Upa.Proofs.Own
