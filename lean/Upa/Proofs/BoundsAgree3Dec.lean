import Upa.Proofs.BoundsMiscAgree2
import Upa.Proofs.BoundsAgree3Ip4
/-
  Helper lemmas for C04h, part 3: the percent-DECODE loops (`decodeHexToByte`, `pctRun`, the second loop of
  `hostDecodeM`) decode lazily while they scan the raw code units; the list models work on the eagerly
  decoded scalar values.  The common reference is the Standard's "string percent-decode" of the decoded
  input, `G e l = Spec.stringPercentDecode (Impl.decode e l)` (UTF-8 encode, percent-decode bytes).
-/
namespace Upa.Impl.B
open Upa.Proofs.C10b
open Upa.Proofs.C14 (hex2 hex2_cons_nonhex hex2_utf8Encode pdb_other pdb_hex pdb_pct pdb_append utf8Encode_cons
  utf8EncodeChar_ascii utf8EncodeChar_no_pct utf8EncodeChar_hi scalar_le decode_scalar_split decode_scalar_cons
  decode_ascii_cons aux_eq spd_lt ascii_scalar)

/-- string percent-decode of the decoded units -/
def G (e : Enc) (l : List Nat) : List Nat := Spec.stringPercentDecode (Impl.decode e l)

theorem G_nil (e : Enc) : G e [] = [] := by
  simp [G, Impl.decode_nil, Spec.stringPercentDecode, Spec.utf8Encode, Spec.percentDecodeBytes]

theorem nonhex_hi (c : Nat) (hc : ¬ c < 0x80) : isHex c = false := by
  cases h : isHex c
  · rfl
  · have := Upa.Proofs.C14.isHex_lt c h; omega

/-- a non-ASCII first unit gives a non-ASCII first scalar value -/
theorem decode_cons_hi (e : Enc) (x : Nat) (r : List Nat) (hl : UOk e (x :: r)) (hx : ¬ x < 0x80) :
    Impl.decode e (x :: r) = cpOf (Impl.readChar e (x :: r)) :: Impl.decode e (Impl.readChar e (x :: r)).2.2 ∧
    ¬ cpOf (Impl.readChar e (x :: r)) < 0x80 ∧ Spec.isScalar (cpOf (Impl.readChar e (x :: r))) = true := by
  have hne : x :: r ≠ [] := by simp
  refine ⟨decode_step' e _ hne, ?_, (readChar_cp e _ hne hl).1⟩
  intro hlt
  have := (readChar_cp e _ hne hl).2 hlt
  simp only [List.cons.injEq] at this
  omega

theorem hex2_decode (e : Enc) (l : List Nat) (hl : UOk e l) : hex2 (Impl.decode e l) = hex2 l := by
  match l with
  | [] => rfl
  | x :: r =>
    by_cases hx : x < 0x80
    · rw [decode_cons_ascii e x r hx]
      cases hxh : isHex x
      · rw [hex2_cons_nonhex _ _ hxh, hex2_cons_nonhex _ _ hxh]
      · match r with
        | [] => rfl
        | y :: r' =>
          by_cases hy : y < 0x80
          · rw [decode_cons_ascii e y r' hy]; rfl
          · obtain ⟨hd, hc, _⟩ := decode_cons_hi e y r' hl.tail hy
            rw [hd]
            simp [hex2, nonhex_hi _ hc, nonhex_hi _ hy]
    · obtain ⟨hd, hc, _⟩ := decode_cons_hi e x r hl hx
      rw [hd, hex2_cons_nonhex _ _ (nonhex_hi _ hc), hex2_cons_nonhex _ _ (nonhex_hi _ hx)]

theorem G_ascii (e : Enc) (x : Nat) (r : List Nat) (hx : x < 0x80) (h25 : x ≠ 0x25) : G e (x :: r) = x :: G e r := by
  unfold G Spec.stringPercentDecode
  rw [decode_cons_ascii e x r hx, utf8Encode_cons, utf8EncodeChar_ascii x hx]
  exact pdb_other x _ h25

theorem G_pct_hex (e : Enc) (h1 h2 : Nat) (r : List Nat) (a1 : isHex h1 = true) (a2 : isHex h2 = true) :
    G e (0x25 :: h1 :: h2 :: r) = (hexVal h1 * 16 + hexVal h2) :: G e r := by
  unfold G Spec.stringPercentDecode
  have b1 := Upa.Proofs.C14.isHex_lt h1 a1
  have b2 := Upa.Proofs.C14.isHex_lt h2 a2
  rw [decode_cons_ascii e _ _ (by decide), decode_cons_ascii e h1 _ b1, decode_cons_ascii e h2 _ b2,
    utf8Encode_cons, utf8Encode_cons, utf8Encode_cons, utf8EncodeChar_ascii _ (by decide : 0x25 < 0x80),
    utf8EncodeChar_ascii h1 b1, utf8EncodeChar_ascii h2 b2]
  exact pdb_hex h1 h2 _ a1 a2

theorem G_pct_nohex (e : Enc) (r : List Nat) (hl : UOk e r) (h : hex2 r = false) : G e (0x25 :: r) = 0x25 :: G e r := by
  unfold G Spec.stringPercentDecode
  rw [decode_cons_ascii e _ _ (by decide), utf8Encode_cons, utf8EncodeChar_ascii _ (by decide : 0x25 < 0x80)]
  have := pdb_pct (Spec.utf8Encode (Impl.decode e r))
    (by rw [hex2_utf8Encode _ (decode_scalars e r hl), hex2_decode e r hl, h])
  exact this

theorem G_hi (e : Enc) (x : Nat) (r : List Nat) (hl : UOk e (x :: r)) (hx : ¬ x < 0x80) :
    G e (x :: r) = Spec.utf8EncodeChar (cpOf (Impl.readChar e (x :: r))) ++ G e (Impl.readChar e (x :: r)).2.2 := by
  obtain ⟨hd, hc, hs⟩ := decode_cons_hi e x r hl hx
  unfold G Spec.stringPercentDecode
  rw [hd, utf8Encode_cons]
  exact pdb_append _ _ (utf8EncodeChar_no_pct _ (scalar_le _ hs) (by omega))

/-- whatever follows a unit that is not `%`: UTF-8 decoding of `run ++ G …` splits after `run` -/
theorem decode_run_split (e : Enc) (run : List Nat) (l : List Nat) (hl : UOk e l)
    (hh : l = [] ∨ ∃ x r, l = x :: r ∧ x ≠ 0x25) :
    Impl.decode .u8 (run ++ G e l) = Impl.decode .u8 run ++ Impl.decode .u8 (G e l) := by
  rcases hh with rfl | ⟨x, r, rfl, hx⟩
  · rw [G_nil, List.append_nil, Impl.decode_nil, List.append_nil]
  · by_cases h80 : x < 0x80
    · rw [G_ascii e x r h80 hx, Impl.decode_ascii_split .u8 _ x h80 run, decode_ascii_cons x h80]
    · obtain ⟨_, _, hs⟩ := decode_cons_hi e x r hl h80
      rw [G_hi e x r hl h80, decode_scalar_split _ hs, decode_scalar_cons _ hs]

/-! ### decode_hex_to_byte -/

theorem decodeHexToByte_eq (a : Array Nat) (first last : Nat) (h : first ≤ last) (hl : last ≤ a.size) :
    decodeHexToByte a first last = .ok (
      if last - first ≥ 2 ∧ isHex a[first]! = true ∧ isHex a[first + 1]! = true then
        some (hexVal a[first]! * 16 + hexVal a[first + 1]!, first + 2)
      else none) := by
  unfold decodeHexToByte
  by_cases h2 : last - first < 2
  · rw [if_pos h2, if_neg (by omega)]; rfl
  · rw [if_neg h2]
    simp only [rd_ok (Nat.le_refl first) (by omega : first < last) hl, R.ok_bind]
    cases c0 : isHex a[first]!
    · simp [R.pure_eq]
    · simp only [Bool.not_true, Bool.false_eq_true, if_false, rd_ok (by omega : first ≤ first + 1) (by omega : first + 1 < last) hl,
        R.ok_bind]
      cases c1 : isHex a[first + 1]!
      · simp [R.pure_eq]
      · have b0 := Upa.Proofs.C14.isHex_lt _ c0
        have b1 := Upa.Proofs.C14.isHex_lt _ c1
        simp only [Bool.not_true, Bool.false_eq_true, if_false, Nat.mod_eq_of_lt (by omega : a[first]! < 256),
          Nat.mod_eq_of_lt (by omega : a[first + 1]! < 256), idx_ok (by omega : a[first]! / 0x20 < 8),
          idx_ok (by omega : a[first + 1]! / 0x20 < 8), R.ok_bind]
        psimp
        rw [if_pos ⟨by omega, trivial, trivial⟩]
        rfl

theorem hex2_slice (a : Array Nat) (first last : Nat) (h : first ≤ last) (hl : last ≤ a.size) :
    hex2 (slice a first last) = decide (last - first ≥ 2 ∧ isHex a[first]! = true ∧ isHex a[first + 1]! = true) := by
  by_cases h0 : first = last
  · rw [slice_nil a first last (by omega)]; simp [hex2]; omega
  · rw [slice_cons a first last (by omega) hl]
    by_cases h1 : first + 1 = last
    · rw [slice_nil a (first + 1) last (by omega)]; simp [hex2]; omega
    · rw [slice_cons a (first + 1) last (by omega) hl]
      simp [hex2]
      omega

/-! ### the inner `%XX` run -/

theorem UOk_suffix {e : Enc} (a : Array Nat) (first p last : Nat) (h1 : first ≤ p) (h2 : p ≤ last) (hl : last ≤ a.size)
    (hu : UOk e (slice a first last)) : UOk e (slice a p last) :=
  hu.subset (slice_subset a first p last h1 h2 hl)

theorem hexByte_lt (h1 h2 : Nat) (a1 : isHex h1 = true) (a2 : isHex h2 = true) : hexVal h1 * 16 + hexVal h2 < 256 := by
  have := Upa.Proofs.C14.hexVal_lt h1 a1
  have := Upa.Proofs.C14.hexVal_lt h2 a2
  omega

/-- `while (it != last && *it == '%') { ++it; … }`: the bytes appended are a prefix of the string
    percent-decode of the rest, and the loop stops at the end or in front of a unit that is not `%` -/
theorem pctRun_agrees (e : Enc) (a : Array Nat) (first last : Nat) (hl : last ≤ a.size) (it0 : Nat) (buff0 : List Nat)
    (h1 : first ≤ it0) (h2 : it0 ≤ last) (hu : UOk e (slice a it0 last)) (fuel : Nat) (hf : last - it0 < fuel) :
    (pctRun a first last fuel (it0, buff0)).sat (fun r => it0 ≤ r.1 ∧ r.1 ≤ last ∧ (r.1 = last ∨ a[r.1]! ≠ 0x25) ∧
      ∃ run, r.2 = buff0 ++ run ∧ (∀ x ∈ run, x < 256) ∧ G e (slice a it0 last) = run ++ G e (slice a r.1 last)) := by
  unfold pctRun
  refine iter_sat _ (fun s => it0 ≤ s.1 ∧ s.1 ≤ last ∧
      ∃ run, s.2 = buff0 ++ run ∧ (∀ x ∈ run, x < 256) ∧ G e (slice a it0 last) = run ++ G e (slice a s.1 last))
    (fun s => last - s.1) _ ?_ _ _ ?_ hf
  · intro ⟨it, buff⟩ ⟨i1, i2, run, hr1, hr2, hr3⟩
    simp only at i1 i2 hr1 hr3 ⊢
    split
    · rename_i hit
      exact R.sat_pure ⟨i1, i2, Or.inl hit, run, hr1, hr2, hr3⟩
    rename_i hit
    have hlt : it < last := by omega
    simp only [rd_ok (by omega : first ≤ it) hlt hl, R.ok_bind]
    split
    · rename_i hc
      exact R.sat_pure ⟨i1, i2, Or.inr hc, run, hr1, hr2, hr3⟩
    rename_i hc
    have hc' : a[it]! = 0x25 := by
      apply Classical.byContradiction
      intro hh; exact hc hh
    psimp
    simp only [sub_ok (by omega : first ≤ it + 1) (by omega : it + 1 ≤ last) (Nat.le_refl _), R.ok_bind]
    rw [decodeHexToByte_eq a (it + 1) last (by omega) hl]
    simp only [R.ok_bind]
    have hu1 : UOk e (slice a (it + 1) last) := UOk_suffix a it0 (it + 1) last (by omega) (by omega) hl hu
    have hx := hex2_slice a (it + 1) last (by omega) hl
    rw [slice_cons a it last hlt hl, hc'] at hr3
    by_cases hcond : last - (it + 1) ≥ 2 ∧ isHex a[it + 1]! = true ∧ isHex a[it + 1 + 1]! = true
    · simp only [if_pos hcond]
      refine R.sat_pure ⟨⟨by rarith, by rarith, run ++ [hexVal a[it + 1]! * 16 + hexVal a[it + 1 + 1]!], ?_, ?_, ?_⟩, by rarith⟩
      · simp only []; rw [hr1, List.append_assoc]
      · intro x hx'
        rcases List.mem_append.1 hx' with hx' | hx'
        · exact hr2 x hx'
        · simp only [List.mem_singleton] at hx'
          rw [hx']; exact hexByte_lt _ _ hcond.2.1 hcond.2.2
      · simp only []
        rw [hr3, slice_cons a (it + 1) last (by omega) hl, slice_cons a (it + 1 + 1) last (by omega) hl,
          G_pct_hex e _ _ _ hcond.2.1 hcond.2.2]
        simp
    · simp only [if_neg hcond]
      refine R.sat_pure ⟨⟨by rarith, by rarith, run ++ [0x25], ?_, ?_, ?_⟩, by rarith⟩
      · simp only []; rw [hr1, List.append_assoc]
      · intro x hx'
        rcases List.mem_append.1 hx' with hx' | hx'
        · exact hr2 x hx'
        · simp only [List.mem_singleton] at hx'
          rw [hx']; decide
      · simp only []
        rw [hr3, G_pct_nohex e _ hu1 (by rw [hx]; simpa using hcond)]
        simp
  · exact ⟨Nat.le_refl _, h2, [], by simp, by simp, by simp⟩

/-! ### convert_utf8_to_utf16 -/

theorem encodeUtf16_cons (c : Nat) (r : List Nat) :
    Impl.encodeUtf16 (c :: r) = Impl.encodeUtf16Char c ++ Impl.encodeUtf16 r := by
  simp [Impl.encodeUtf16]

theorem encodeUtf16_append (x y : List Nat) :
    Impl.encodeUtf16 (x ++ y) = Impl.encodeUtf16 x ++ Impl.encodeUtf16 y := by
  simp [Impl.encodeUtf16]

theorem encodeUtf16Char_ascii (c : Nat) (h : c < 0x80) : Impl.encodeUtf16Char c = [c] := by
  unfold Impl.encodeUtf16Char
  rw [if_pos (by omega)]

theorem convertUtf8ToUtf16M_agrees (a : Array Nat) (first last : Nat) (h : first ≤ last) (hl : last ≤ a.size)
    (hb : ∀ i, first ≤ i → i < last → a[i]! < 256) :
    (convertUtf8ToUtf16M a first last).sat
      (fun r => r.2 = Impl.encodeUtf16 (Impl.decode .u8 (slice a first last))) := by
  unfold convertUtf8ToUtf16M
  refine iter_sat _ (fun s => first ≤ s.1 ∧ s.1 ≤ last ∧
      s.2.2 ++ Impl.encodeUtf16 (Impl.decode .u8 (slice a s.1 last)) =
        Impl.encodeUtf16 (Impl.decode .u8 (slice a first last))) (fun s => last - s.1) _ ?_ _ _ ?_ ?_
  · intro ⟨it, success, out⟩ ⟨i1, i2, i3⟩
    simp only at i1 i2 i3 ⊢
    split
    · rename_i hit
      refine R.sat_pure ?_
      simp only []
      rw [slice_nil a it last (by omega), Impl.decode_nil] at i3
      rw [← i3]
      simp [Impl.encodeUtf16]
    rename_i hit
    have hlt : it < last := by omega
    simp only [sub_ok i1 (Nat.le_of_lt hlt) (Nat.le_refl _), R.ok_bind]
    refine R.sat_bind (R.sat_and (readU8_sat a it last hlt hl)
      (readU8_agrees a it last hlt hl (fun i hi1 hi2 => hb i (by omega) hi2))) ?_
    intro ⟨ok, cp, it'⟩ ⟨hpost, hag⟩
    simp only [ReadPost] at hpost hag ⊢
    have hne : slice a it last ≠ [] := by rw [slice_cons a it last hlt hl]; simp
    rw [Upa.Proofs.C14.decode_step_u8 _ hne, hag, encodeUtf16_cons] at i3
    simp only [] at i3
    refine R.sat_pure ?_
    simp only []
    refine ⟨⟨by omega, by omega, ?_⟩, by omega⟩
    rw [← i3, List.append_assoc]
  · exact ⟨Nat.le_refl _, h, by simp⟩
  · rarith

theorem slice_ofList (l : List Nat) : slice l.toArray 0 l.length = l := by
  simp [slice]

/-! ### the decode loops of parse_host -/

/-- UTF-8 decode with replacement, then UTF-16 encode -/
def E16 (x : List Nat) : List Nat := Impl.encodeUtf16 (Impl.decode .u8 x)

theorem E16_nil : E16 [] = [] := by simp [E16, Impl.decode_nil, Impl.encodeUtf16]

theorem E16_ascii (x : Nat) (y : List Nat) (hx : x < 0x80) : E16 (x :: y) = x :: E16 y := by
  unfold E16
  rw [decode_ascii_cons x hx, encodeUtf16_cons, encodeUtf16Char_ascii x hx]
  rfl

theorem E16_scalar (c : Nat) (y : List Nat) (hc : Spec.isScalar c = true) :
    E16 (Spec.utf8EncodeChar c ++ y) = Impl.encodeUtf16Char c ++ E16 y := by
  unfold E16
  rw [decode_scalar_cons c hc, encodeUtf16_cons]

theorem readUtfChar_agrees (e : Enc) (a : Array Nat) (first last it : Nat) (h1 : first ≤ it) (h2 : it < last)
    (hl : last ≤ a.size) (hu : UOk e (slice a it last)) :
    (readUtfChar e a first last it).sat (fun r => r.1 = cpOf (Impl.readChar e (slice a it last)) ∧
      slice a r.2 last = (Impl.readChar e (slice a it last)).2.2 ∧ it < r.2 ∧ r.2 ≤ last) := by
  unfold readUtfChar
  simp only [sub_ok h1 (Nat.le_of_lt h2) (Nat.le_refl _), R.ok_bind]
  refine R.sat_bind (readChar_agrees e a it last h2 hl hu) ?_
  intro ⟨ok, cp, it'⟩ ⟨hag, q1, q2⟩
  simp only at hag q1 q2 ⊢
  refine R.sat_pure ?_
  rw [hag]
  exact ⟨rfl, rfl, q1, q2⟩

theorem hostDecodeM_agrees (e : Enc) (a : Array Nat) (first last ptr : Nat) (h1 : first ≤ ptr) (h2 : ptr ≤ last)
    (hl : last ≤ a.size) (hu : UOk e (slice a first last))
    (hpre : ∀ i, first ≤ i → i < ptr → a[i]! < 0x80 ∧ a[i]! ≠ 0x25) :
    hostDecodeM e a first last ptr = .ok (E16 (G e (slice a first last))) := by
  apply R.sat_eq
  unfold hostDecodeM
  -- the prefix is copied; it is ASCII without `%`, so it is its own decoding
  have hcopy : ∀ k p, first ≤ p → p + k = ptr →
      E16 (G e (slice a p last)) = slice a p ptr ++ E16 (G e (slice a ptr last)) := by
    intro k
    induction k with
    | zero =>
      intro p _ hp
      have : p = ptr := by omega
      subst this
      rw [slice_nil a p p (Nat.le_refl _)]; rfl
    | succ k ih =>
      intro p hp1 hp2
      have hpp := hpre p hp1 (by omega)
      rw [slice_cons a p last (by omega) hl, slice_cons a p ptr (by omega) (by omega),
        G_ascii e _ _ hpp.1 hpp.2, E16_ascii _ _ hpp.1, ih (p + 1) (by omega) (by omega)]
      rfl
  refine R.sat_bind (iter_sat _ (fun s => first ≤ s.1 ∧ s.1 ≤ ptr ∧ s.2 = slice a first s.1) (fun s => ptr - s.1)
    (fun b => b = slice a first ptr) ?_ _ _ ?_ ?_) ?_
  · intro ⟨it, buff⟩ ⟨i1, i2, i3⟩
    simp only at i1 i2 i3 ⊢
    split
    · rename_i hit
      exact R.sat_pure (by rw [i3, hit])
    · rename_i hit
      simp only [rd_ok i1 (by omega : it < last) hl, R.ok_bind]
      psimp
      refine R.sat_pure ?_
      simp only []
      refine ⟨⟨by omega, by omega, ?_⟩, by omega⟩
      rw [slice_snoc a first (it + 1) (by omega) (by omega), i3]
      simp only [Nat.add_sub_cancel]
  · exact ⟨Nat.le_refl _, h1, by rw [slice_nil a first first (Nat.le_refl _)]⟩
  · rarith
  intro buff0 hb0
  subst hb0
  rw [hcopy (ptr - first) first (Nat.le_refl _) (by omega)]
  refine iter_sat _ (fun s => ptr ≤ s.1 ∧ s.1 ≤ last ∧
      s.2 ++ E16 (G e (slice a s.1 last)) = slice a first ptr ++ E16 (G e (slice a ptr last)))
    (fun s => last - s.1) _ ?_ _ _ ⟨Nat.le_refl _, h2, rfl⟩ (by rarith)
  intro ⟨it, buff⟩ ⟨i1, i2, i3⟩
  simp only at i1 i2 i3 ⊢
  split
  · rename_i hit
    refine R.sat_pure ?_
    rw [hit, slice_nil a last last (Nat.le_refl _), G_nil, E16_nil, List.append_nil] at i3
    exact i3
  rename_i hit
  have hlt : it < last := by omega
  have hfi : first ≤ it := by omega
  have hui : UOk e (slice a it last) := UOk_suffix a first it last hfi i2 hl hu
  have hu1 : UOk e (slice a (it + 1) last) := UOk_suffix a first (it + 1) last (by omega) (by omega) hl hu
  simp only [rd_ok hfi hlt hl, R.ok_bind]
  psimp
  rw [slice_cons a it last hlt hl] at i3
  split
  · rename_i h80
    split
    · rename_i h25
      rw [G_ascii e _ _ h80 h25, E16_ascii _ _ h80] at i3
      refine R.sat_pure ⟨⟨by rarith, by rarith, ?_⟩, by rarith⟩
      simp only []
      rw [← i3]; simp
    · rename_i h25
      have h25' : a[it]! = 0x25 := by
        apply Classical.byContradiction
        intro hh; exact h25 hh
      rw [h25'] at i3
      simp only [sub_ok (by omega : first ≤ it + 1) (by omega : it + 1 ≤ last) (Nat.le_refl _), R.ok_bind]
      rw [decodeHexToByte_eq a (it + 1) last (by omega) hl]
      simp only [R.ok_bind]
      have hx := hex2_slice a (it + 1) last (by omega) hl
      by_cases hcond : last - (it + 1) ≥ 2 ∧ isHex a[it + 1]! = true ∧ isHex a[it + 1 + 1]! = true
      · simp only [if_pos hcond]
        rw [slice_cons a (it + 1) last (by omega) hl, slice_cons a (it + 1 + 1) last (by omega) hl,
          G_pct_hex e _ _ _ hcond.2.1 hcond.2.2] at i3
        have hu3 : UOk e (slice a (it + 1 + 1 + 1) last) :=
          UOk_suffix a first (it + 1 + 1 + 1) last (by omega) (by omega) hl hu
        have e3 : it + 1 + 2 = it + 1 + 1 + 1 := by omega
        split
        · rename_i hv
          rw [E16_ascii _ _ hv] at i3
          refine R.sat_pure ⟨⟨by rarith, by rarith, ?_⟩, by rarith⟩
          simp only []
          rw [← i3, e3]; simp
        · rename_i hv
          refine R.sat_bind (pctRun_agrees e a first last hl (it + 1 + 2) [hexVal a[it + 1]! * 16 + hexVal a[it + 1 + 1]!]
            (by omega) (by omega) (by rw [e3]; exact hu3) _ (by omega)) ?_
          intro ⟨it', b8⟩ ⟨r1, r2, r3, run, rb, rlt, rG⟩
          simp only at r1 r2 r3 rb rG ⊢
          have hb8 : ∀ x ∈ b8, x < 256 := by
            intro x hx'
            rw [rb] at hx'
            rcases List.mem_append.1 hx' with hx' | hx'
            · simp only [List.mem_singleton] at hx'
              rw [hx']; exact hexByte_lt _ _ hcond.2.1 hcond.2.2
            · exact rlt x hx'
          refine R.sat_bind (convertUtf8ToUtf16M_agrees b8.toArray 0 b8.length (Nat.zero_le _) (by simp) ?_) ?_
          · intro i _ hi
            have : b8.toArray[i]! ∈ b8 := by
              rw [getElem!_pos b8.toArray i (by simpa using hi)]
              simp
            exact hb8 _ this
          intro ⟨_, u16⟩ hcv
          simp only [slice_ofList] at hcv ⊢
          refine R.sat_pure ⟨⟨by rarith, by rarith, ?_⟩, by rarith⟩
          simp only []
          have hu' : UOk e (slice a it' last) := UOk_suffix a first it' last (by omega) r2 hl hu
          have hsplit := decode_run_split e b8 (slice a it' last) hu' (by
            by_cases hend : it' = last
            · left; rw [hend, slice_nil a last last (Nat.le_refl _)]
            · right
              rcases r3 with r3 | r3
              · exact absurd r3 hend
              · exact ⟨_, _, slice_cons a it' last (by omega) hl, r3⟩)
          rw [e3] at rG
          rw [← i3, rG, hcv]
          have : (hexVal a[it + 1]! * 16 + hexVal a[it + 1 + 1]!) :: (run ++ G e (slice a it' last)) =
              b8 ++ G e (slice a it' last) := by rw [rb]; rfl
          rw [this]
          unfold E16
          rw [hsplit, encodeUtf16_append, List.append_assoc]
      · simp only [if_neg hcond]
        rw [G_pct_nohex e _ hu1 (by rw [hx]; simpa using hcond), E16_ascii _ _ (by decide)] at i3
        refine R.sat_pure ⟨⟨by rarith, by rarith, ?_⟩, by rarith⟩
        simp only []
        rw [← i3]; simp
  · rename_i h80
    simp only [Nat.add_sub_cancel]
    refine R.sat_bind (readUtfChar_agrees e a first last it hfi hlt hl hui) ?_
    intro ⟨cp, it'⟩ ⟨hcp, hrest, q1, q2⟩
    simp only at hcp hrest q1 q2 ⊢
    rw [← slice_cons a it last hlt hl] at i3
    have hsl := slice_cons a it last hlt hl
    have hG := G_hi e a[it]! (slice a (it + 1) last) (by rw [← hsl]; exact hui) h80
    obtain ⟨_, _, hs⟩ := decode_cons_hi e a[it]! (slice a (it + 1) last) (by rw [← hsl]; exact hui) h80
    rw [← hsl, ← hcp, ← hrest] at hG
    rw [← hsl, ← hcp] at hs
    rw [hG, E16_scalar _ _ hs] at i3
    refine R.sat_pure ⟨⟨by rarith, by rarith, ?_⟩, by rarith⟩
    simp only []
    rw [← i3]
    simp

end Upa.Impl.B
