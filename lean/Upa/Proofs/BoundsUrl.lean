import Upa.Impl.BoundsUrl
import Upa.Proofs.Bounds
/-
  Helper lemmas for C04d: the bounds-instrumented model of url_parser::url_parse
  (`Upa/Impl/BoundsUrl.lean`).  Part 1: the scans before url_parse, the small guarded tests, the callees.
-/
namespace Upa.Impl.B
open UP

/-- rewrite every checked access whose bounds follow from the context by linear arithmetic -/
macro "upsimp" : tactic =>
  `(tactic| try simp (disch := omega) only [rd_ok, rdPrev_ok, sub_ok, mkptr_ok, mkptrSub_ok, R.ok_bind, R.pure_bind'])

/-- close `(pure v).sat P` where `P v` is linear arithmetic after unfolding the `match` -/
macro "uppure" : tactic =>
  `(tactic| exact R.sat_pure (by first | omega | (simp only [] <;> first | omega | (simp <;> omega))))

theorem R.sat_trueU {α : Type} {r : R α} {P : α → Prop} (h : r.sat P) : r.sat (fun _ => True) :=
  R.sat_mono h (fun _ _ => trivial)

/-! ### do_trim, do_remove_whitespace -/

theorem doTrimB_sat (a : Array Nat) (first last fuel : Nat) (h : first ≤ last) (hl : last ≤ a.size)
    (hf : last - first < fuel) :
    (doTrimB a first last fuel).sat (fun r => first ≤ r.1 ∧ r.1 ≤ r.2 ∧ r.2 ≤ last) := by
  unfold doTrimB
  refine R.sat_bind (iter_sat _ (fun f => first ≤ f ∧ f ≤ last) (fun f => last - f)
    (fun f => first ≤ f ∧ f ≤ last) ?_ _ _ ?_ ?_) ?_
  · intro f hI
    simp only [Nat.add_zero]
    split
    · upsimp
      split
      · upsimp; uppure
      · exact R.sat_pure hI
    · exact R.sat_pure hI
  · omega
  · omega
  · intro f hf'
    refine R.sat_bind (iter_sat _ (fun l => f ≤ l ∧ l ≤ last) (fun l => l - f)
      (fun l => f ≤ l ∧ l ≤ last) ?_ _ _ ?_ ?_) ?_
    · intro l hI
      split
      · upsimp
        split
        · upsimp; uppure
        · exact R.sat_pure hI
      · exact R.sat_pure hI
    · omega
    · omega
    · intro l hl'
      uppure

theorem doRemoveWhitespaceB_sat (a : Array Nat) (first last fuel : Nat) (h : first ≤ last) (hl : last ≤ a.size)
    (hf : last - first < fuel) :
    (doRemoveWhitespaceB a first last fuel).sat (fun _ => True) := by
  unfold doRemoveWhitespaceB
  refine iter_sat _ (fun it => first ≤ it ∧ it ≤ last) (fun it => last - it) _ ?_ _ _ ?_ ?_
  · intro it hI
    split
    · upsimp
      split
      · upsimp; uppure
      · upsimp
        refine R.sat_bind (iter_sat _ (fun s => first ≤ s.1 ∧ s.1 ≤ last) (fun s => last - s.1)
          (fun _ => True) ?_ _ _ ?_ ?_) ?_
        · intro ⟨p, b⟩ hI'
          simp only [Nat.add_zero] at hI' ⊢
          split
          · upsimp; uppure
          · exact R.sat_pure trivial
        · simp only []; omega
        · simp only []; omega
        · intro _ _; exact R.sat_pure trivial
    · exact R.sat_pure trivial
  · omega
  · omega

/-! ### small guarded tests -/

theorem peekIsB_sat (a : Array Nat) (first last p ch : Nat) (h1 : first ≤ p) (hl : last ≤ a.size) :
    (peekIsB a first last p ch).sat (fun r => r = true → p < last) := by
  unfold peekIsB
  simp only [Nat.add_zero]
  split
  · upsimp; exact R.sat_pure (by intro _; omega)
  · exact R.sat_pure (by simp)

theorem peekOr0B_sat (a : Array Nat) (first last p : Nat) (h1 : first ≤ p) (h2 : p ≤ last) (hl : last ≤ a.size) :
    (peekOr0B a first last p).sat (fun r => r ≠ 0 → p < last) := by
  unfold peekOr0B
  simp only [Nat.add_zero]
  split
  · upsimp; exact R.sat_pure (by intro _; omega)
  · exact R.sat_pure (by simp)

theorem twoSlashesB_sat (a : Array Nat) (first last p : Nat) (h1 : first ≤ p) (hl : last ≤ a.size) :
    (twoSlashesB a first last p).sat (fun r => r = true → p + 2 ≤ last) := by
  unfold twoSlashesB
  split
  · upsimp
    split
    · upsimp; exact R.sat_pure (by intro _; omega)
    · exact R.sat_pure (by simp)
  · exact R.sat_pure (by simp)

/-! ### callees -/

theorem findLastB_sat (a : Array Nat) (first last value : Nat) (h : first ≤ last) (hl : last ≤ a.size) :
    (findLastB a first last value).sat (fun r => r = last ∨ (first ≤ r ∧ r < last)) := by
  unfold findLastB
  refine iter_sat _ (fun it => first ≤ it ∧ it ≤ last) (fun it => it - first) _ ?_ _ _ ?_ ?_
  · intro it hI
    try simp only [] at hI
    split
    · upsimp
      split
      · uppure
      · uppure
    · uppure
  · omega
  · omega

theorem encLoopB_sat (e : Enc) (a : Array Nat) (first last thr : Nat) (ne : Bool) (stop fuel p0 : Nat)
    (h1 : first ≤ p0) (h2 : p0 ≤ stop) (h3 : stop ≤ last) (hl : last ≤ a.size) (hf : stop - p0 < fuel) :
    (encLoopB e a first last thr ne stop fuel p0).sat (fun r => r = stop) := by
  unfold encLoopB
  refine iter_sat _ (fun p => p0 ≤ p ∧ p ≤ stop) (fun p => stop - p) _ ?_ _ _ ?_ ?_
  · intro p hI
    try simp only [] at hI
    have hstop : (if ne = true then p == stop else !decide (p < stop)) = true ↔ p = stop := by
      cases ne <;> simp <;> omega
    by_cases hps : p = stop
    · rw [if_pos (hstop.mpr hps)]; exact R.sat_pure hps
    · rw [if_neg (fun hc => hps (hstop.mp hc))]
      upsimp
      split
      · refine R.sat_bind (readUtfChar_sat e a p stop p (Nat.le_refl _) (by omega) (by omega)) ?_
        intro r hr
        uppure
      · upsimp; uppure
  · omega
  · omega

theorem appendUtf8PctB_sat (e : Enc) (a : Array Nat) (first last : Nat) (h : first ≤ last) (hl : last ≤ a.size) :
    (appendUtf8PctB e a first last).sat (fun _ => True) := by
  unfold appendUtf8PctB
  refine R.sat_bind (encLoopB_sat e a first last _ _ last _ first (Nat.le_refl _) h (Nat.le_refl _) hl (by omega)) ?_
  intro _ _
  exact R.sat_pure trivial

theorem doSimplePathB_sat (e : Enc) (a : Array Nat) (first last : Nat) (h : first ≤ last) (hl : last ≤ a.size) :
    (doSimplePathB e a first last).sat (fun _ => True) := by
  unfold doSimplePathB
  refine R.sat_bind (encLoopB_sat e a first last _ _ last _ first (Nat.le_refl _) h (Nat.le_refl _) hl (by omega)) ?_
  intro _ _
  exact R.sat_pure trivial

theorem pathSegmentB_sat (e : Enc) (a : Array Nat) (first last pointer eos : Nat) (file : Bool)
    (emptyPath : Nat → Bool) (h1 : first ≤ pointer) (h2 : pointer ≤ eos) (h3 : eos ≤ last) (hl : last ≤ a.size) :
    (pathSegmentB e a first last pointer eos file emptyPath).sat (fun _ => True) := by
  unfold pathSegmentB
  upsimp
  refine R.sat_bind (doubleDot_sat a pointer eos h2 (by omega)) ?_
  intro dd _
  split
  · exact R.sat_pure trivial
  refine R.sat_bind (singleDot_sat a pointer eos h2 (by omega)) ?_
  intro sd _
  split
  · exact R.sat_pure trivial
  refine R.sat_bind (P := fun _ => True) ?_ ?_
  · split
    · upsimp; exact R.sat_pure trivial
    · exact R.sat_pure trivial
  · intro wd _
    split
    · exact R.sat_pure trivial
    · exact appendUtf8PctB_sat e a pointer eos h2 (by omega)

theorem parsePathB_sat (e : Enc) (a : Array Nat) (first last : Nat) (special file : Bool) (emptyPath : Nat → Bool)
    (h : first ≤ last) (hl : last ≤ a.size) :
    (parsePathB e a first last special file emptyPath).sat (fun _ => True) := by
  unfold parsePathB
  refine iter_sat _ (fun p => first ≤ p ∧ p ≤ last) (fun p => last - p) _ ?_ _ _ ?_ ?_
  · intro p hI
    try simp only [] at hI
    upsimp
    refine R.sat_bind (P := fun eos => p ≤ eos ∧ eos ≤ last) ?_ ?_
    · split
      · exact R.sat_mono (findIf_sat a first last _ hl _ p hI.1 (by omega)) (by intro v hv; omega)
      · refine R.sat_bind (findCh_sat a first last 0x2F hl _ p hI.1 (by omega)) ?_
        intro r hr
        cases r with
        | none => exact R.sat_pure (by omega)
        | some q => have := hr q rfl; exact R.sat_pure (by omega)
    · intro eos heos
      refine R.sat_bind (pathSegmentB_sat e a first last p eos file emptyPath hI.1 heos.1 heos.2 hl) ?_
      intro _ _
      split
      · exact R.sat_pure trivial
      · upsimp; uppure
  · omega
  · omega

end Upa.Impl.B
