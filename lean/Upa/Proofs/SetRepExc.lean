import Upa.Impl.SetRepExc
/-
  Helpers for C20b, part 1: the computations `X` of `Impl/SetRepExc.lean` - the laws of `run`, and
  "the value returned when nothing fails is the function of SetRep.lean / SetRepApi.lean / UpdateRep.lean".
-/
set_option linter.unusedSimpArgs false

namespace Upa.Proofs.SetRepExc
open Upa Upa.Impl

/-! ### `pts` / `val` of the monad operations -/

@[simp] theorem pts_pure {α : Type} (a : α) : (pure a : X α).pts = [] := rfl
@[simp] theorem val_pure {α : Type} (a : α) : (pure a : X α).val = a := rfl
@[simp] theorem pts_bind {α β : Type} (m : X α) (f : α → X β) : (m >>= f).pts = m.pts ++ (f m.val).pts := rfl
@[simp] theorem val_bind {α β : Type} (m : X α) (f : α → X β) : (m >>= f).val = (f m.val).val := rfl
@[simp] theorem pts_mayThrow (r : Rep) : (mayThrow r).pts = [r] := rfl
@[simp] theorem pts_mayThrowN (n : Nat) (r : Rep) : (mayThrowN n r).pts = List.replicate n r := rfl
theorem pts_ite {α : Type} (c : Prop) [Decidable c] (a b : X α) :
    (if c then a else b).pts = if c then a.pts else b.pts := by split <;> rfl
theorem val_ite {α : Type} (c : Prop) [Decidable c] (a b : X α) :
    (if c then a else b).val = if c then a.val else b.val := by split <;> rfl

/-! ### the laws of `run`: a failure counter threaded through `pure`, `>>=`, `mayThrow` -/

theorem run_none {α : Type} (m : X α) : m.run none = (.done m.val, m.pts.length) := rfl

theorem run_lt {α : Type} (m : X α) (k : Nat) (h : k < m.pts.length) :
    m.run (some k) = (.threw m.pts[k], k) := by
  simp [X.run, List.getElem?_eq_getElem h]

theorem run_ge {α : Type} (m : X α) (k : Nat) (h : m.pts.length ≤ k) :
    m.run (some k) = (.done m.val, m.pts.length) := by
  simp [X.run, List.getElem?_eq_none h]

theorem run_pure {α : Type} (a : α) (k : Option Nat) : (pure a : X α).run k = (.done a, 0) := by
  cases k <;> rfl

theorem run_mayThrow (r : Rep) (k : Option Nat) :
    (mayThrow r).run k = if k = some 0 then (.threw r, 0) else (.done (), 1) := by
  cases k with
  | none => rfl
  | some k => cases k <;> rfl

/-- `>>=`: run `m`; if it threw, that is the outcome; otherwise run `f` of its value with the failure
    index lowered by the number of throwing primitives `m` passed, and add the counts -/
theorem run_bind {α β : Type} (m : X α) (f : α → X β) (k : Option Nat) :
    (m >>= f).run k =
      match m.run k with
      | (.threw r, n) => (.threw r, n)
      | (.done a, n) =>
        let p := (f a).run (k.map (· - n))
        (p.1, n + p.2) := by
  have hl : (m >>= f).pts.length = m.pts.length + (f m.val).pts.length := by simp
  cases k with
  | none => simp [run_none]
  | some k =>
    by_cases h : k < m.pts.length
    · rw [run_lt m k h, run_lt (m >>= f) k (by omega)]
      simp [List.getElem_append_left h]
    · have h' : m.pts.length ≤ k := by omega
      rw [run_ge m k h']
      simp only [Option.map_some]
      by_cases h2 : k - m.pts.length < (f m.val).pts.length
      · rw [run_lt (m >>= f) k (by omega), run_lt _ _ h2]
        simp only [pts_bind]
        rw [List.getElem_append_right h']
        congr 1
        omega
      · rw [run_ge (m >>= f) k (by omega), run_ge _ _ (by omega)]
        simp

theorem filterMap_range_getElem? {β : Type} (l : List β) :
    (List.range l.length).filterMap (fun k => l[k]?) = l := by
  induction l with
  | nil => rfl
  | cons a t ih =>
    rw [List.length_cons, List.range_succ_eq_map, List.filterMap_cons]
    simp only [List.getElem?_cons_zero, List.filterMap_map]
    congr 1

theorem filterMap_congr_mem {β γ : Type} (f g : β → Option γ) (l : List β) (h : ∀ x ∈ l, f x = g x) :
    l.filterMap f = l.filterMap g := by
  induction l with
  | nil => rfl
  | cons a t ih =>
    rw [List.filterMap_cons, List.filterMap_cons, h a List.mem_cons_self,
      ih (fun x hx => h x (List.mem_cons_of_mem _ hx))]

/-- the failure states are the points -/
theorem failStates_eq {α : Type} (m : X α) : m.failStates = m.pts := by
  unfold X.failStates
  rw [run_none]
  simp only
  rw [filterMap_congr_mem _ (fun k => m.pts[k]?) _ (fun k hk => by
    have hk' : k < m.pts.length := List.mem_range.mp hk
    rw [run_lt m k hk']
    simp [List.getElem?_eq_getElem hk'])]
  exact filterMap_range_getElem? m.pts

/-- a failure leaves one of the points -/
theorem run_threw_mem {α : Type} (m : X α) (k : Option Nat) (r' : Rep) (h : (m.run k).1 = .threw r') :
    r' ∈ m.pts := by
  cases k with
  | none => simp [run_none] at h
  | some k =>
    by_cases hk : k < m.pts.length
    · rw [run_lt m k hk] at h
      simp only [Res.threw.injEq] at h
      rw [← h]; exact List.getElem_mem hk
    · rw [run_ge m k (by omega)] at h
      simp at h

/-- … and every point is left by some failure -/
theorem mem_run {α : Type} (m : X α) (r' : Rep) (h : r' ∈ m.pts) : ∃ k, m.run (some k) = (.threw r', k) := by
  obtain ⟨k, hk, e⟩ := List.getElem_of_mem h
  exact ⟨k, by rw [run_lt m k hk, e]⟩

theorem setRepX_threw_mem (idna : Idna) (s : Setter) (e : Enc) (units : List Nat) (r : Rep)
    (k : Option Nat) (r' : Rep) (h : (setRepX idna s e units r k).1 = .threw r') :
    r' ∈ (setRepT idna s e units r).pts := by
  unfold setRepX at h
  apply run_threw_mem _ k
  generalize (setRepT idna s e units r).run k = p at h ⊢
  obtain ⟨o, n⟩ := p
  cases o with
  | done x => simp at h
  | threw r2 => simpa using h

theorem setRepX_eq (idna : Idna) (s : Setter) (e : Enc) (units : List Nat) (r : Rep) (k : Option Nat) :
    setRepX idna s e units r k =
      match k with
      | none => (.done (setRepT idna s e units r).val.1, (setRepT idna s e units r).pts.length)
      | some k =>
        match (setRepT idna s e units r).pts[k]? with
        | some r' => (.threw r', k)
        | none => (.done (setRepT idna s e units r).val.1, (setRepT idna s e units r).pts.length) := by
  unfold setRepX X.run
  cases k with
  | none => rfl
  | some k =>
    simp only
    cases (setRepT idna s e units r).pts[k]? <;> rfl

theorem failStates_setter_eq (idna : Idna) (s : Setter) (e : Enc) (units : List Nat) (r : Rep) :
    failStates idna s e units r = (setRepT idna s e units r).pts := by
  unfold failStates
  rw [setRepX_eq]
  simp only
  rw [filterMap_congr_mem _ (fun k => (setRepT idna s e units r).pts[k]?) _ (fun k hk => by
    have hk' : k < (setRepT idna s e units r).pts.length := List.mem_range.mp hk
    rw [setRepX_eq]
    simp [List.getElem?_eq_getElem hk'])]
  exact filterMap_range_getElem? _

/-! ### without a failure: the functions of SetRep.lean -/

theorem rep_norm_append_nil (r : Rep) : ({ r with norm := r.norm ++ [] } : Rep) = r := by
  cases r; simp

@[simp] theorem appendNormX_val (r : Rep) (t : List Nat) :
    (appendNormX r t).val = { r with norm := r.norm ++ t } := rfl

@[simp] theorem appendNormX_pts (r : Rep) (t : List Nat) : (appendNormX r t).pts = [r] := rfl

@[simp] theorem appendUnitsX_val (r : Rep) (t : List Nat) :
    (appendUnitsX r t).val = { r with norm := r.norm ++ t } := by
  induction t generalizing r with
  | nil => exact (rep_norm_append_nil r).symm
  | cons c t ih =>
    simp only [appendUnitsX, val_bind, appendNormX_val, ih]
    simp

@[simp] theorem replacePartX_val (r : Rep) (l f : Nat) (s : List Nat) (n : Nat) :
    (replacePartX r l f s n).val = replacePart r l f s n := rfl

@[simp] theorem replacePartX_pts (r : Rep) (l f : Nat) (s : List Nat) (n : Nat) :
    (replacePartX r l f s n).pts = [r] := rfl

@[simp] theorem replacePart1X_val (r : Rep) (pt : Nat) (s : List Nat) :
    (replacePart1X r pt s).val = replacePart1 r pt s := rfl

@[simp] theorem replacePart1X_pts (r : Rep) (pt : Nat) (s : List Nat) :
    (replacePart1X r pt s).pts = [r] := rfl

/-- the first switch of `serStartPart` -/
def serSwitch1 (r : Rep) (lastPt newPt : Nat) : Rep × Nat :=
  if lastPt = SCHEME then
    (if newPt ≤ HOST then { r with norm := r.norm ++ [0x2F, 0x2F] } else r, lastPt + 1)
  else if lastPt = USERNAME then
    if newPt = PASSWORD then ({ r with norm := r.norm ++ [0x3A] }, lastPt + 1)
    else
      let r' := { r with partEnd := r.partEnd.set PASSWORD r.norm.length }
      (if newPt = HOST then { r' with norm := r'.norm ++ [0x40] } else r', HOST_START)
  else if lastPt = PASSWORD then
    (if newPt = HOST then { r with norm := r.norm ++ [0x40] } else r, lastPt + 1)
  else (r, lastPt + 1)

theorem serStartPart_eq (r : Rep) (lastPt newPt : Nat) :
    serStartPart r lastPt newPt =
      if lastPt = PATH ∧ newPt = PATH then r
      else
        let r1 := serSwitch1 r lastPt newPt
        let r3 : Rep := { r1.1 with partEnd := fillRange r1.1.partEnd r1.2 newPt r1.1.norm.length }
        { r3 with norm := r3.norm ++ (if newPt = PORT then [0x3A] else if newPt = QUERY then [0x3F]
          else if newPt = FRAGMENT then [0x23] else []) } := rfl

@[simp] theorem serSwitch1X_val (r : Rep) (lastPt newPt : Nat) :
    (serSwitch1X r lastPt newPt).val = serSwitch1 r lastPt newPt := by
  unfold serSwitch1X serSwitch1
  split
  · split <;> rfl
  · split
    · split
      · rfl
      · split <;> rfl
    · split
      · split <;> rfl
      · rfl

@[simp] theorem serStartPartX_val (r : Rep) (lastPt newPt : Nat) :
    (serStartPartX r lastPt newPt).val = serStartPart r lastPt newPt := by
  rw [serStartPart_eq]
  unfold serStartPartX
  split
  · rfl
  · simp only [val_bind, serSwitch1X_val]
    generalize (if newPt = PORT then [0x3A] else if newPt = QUERY then [0x3F]
      else if newPt = FRAGMENT then [0x23] else ([] : List Nat)) = d
    by_cases hd : d = []
    · rw [if_pos hd, hd, val_pure]
      exact (rep_norm_append_nil _).symm
    · rw [if_neg hd]
      rfl

@[simp] theorem setStartPartX_val (r : Rep) (newPt : Nat) :
    (setStartPartX r newPt).val = setStartPart r newPt := by
  unfold setStartPartX setStartPart
  split
  · split
    · simp only [val_bind, val_pure]
    · simp only [val_bind, val_pure, serStartPartX_val]
  · simp only [val_bind, val_pure, serStartPartX_val]

@[simp] theorem appendX_val (o : Open) (t : List Nat) : (o.appendX t).val = o.append t := by
  unfold Open.appendX Open.append
  split
  · rfl
  · simp only [val_bind, val_pure, appendUnitsX_val]

@[simp] theorem setSavePartX_val (o : Open) : (setSavePartX o).val = setSavePart o := by
  unfold setSavePartX setSavePart
  simp only [val_ite, val_bind, val_pure, replacePartX_val, replacePart1X_val]

@[simp] theorem writePartX_val (r : Rep) (pt : Nat) (text : List Nat) :
    (writePartX r pt text).val = writePart r pt text := by
  simp only [writePartX, writePart, val_bind, setStartPartX_val, appendX_val, setSavePartX_val]

@[simp] theorem writePartFlagX_val (r : Rep) (pt : Nat) (text : List Nat) :
    (writePartFlagX r pt text).val = writePartFlag r pt text := by
  simp only [writePartFlagX, writePartFlag, val_bind, val_pure, writePartX_val]

@[simp] theorem clearPartX_val (r : Rep) (pt : Nat) : (clearPartX r pt).val = clearPart r pt := by
  unfold clearPartX clearPart
  split <;> rfl

@[simp] theorem emptyPartX_val (r : Rep) (pt : Nat) : (emptyPartX r pt).val = emptyPart r pt := by
  unfold emptyPartX emptyPart
  split <;> rfl

@[simp] theorem emptyHostRepX_val (r : Rep) : (emptyHostRepX r).val = emptyHostRep r := by
  simp only [emptyHostRepX, emptyHostRep, val_bind, val_pure, emptyPartX_val]

@[simp] theorem hostDoneX_val (o : Open) (ht : Nat) : (hostDoneX o ht).val = hostDone o ht := by
  unfold hostDoneX hostDone
  simp only [val_bind, setSavePartX_val, val_ite, val_pure, replacePart1X_val]

@[simp] theorem writeHostX_val (r : Rep) (text : List Nat) (ht : Nat) :
    (writeHostX r text ht).val = writeHost r text ht := by
  simp only [writeHostX, writeHost, val_bind, setStartPartX_val, appendX_val, hostDoneX_val]

@[simp] theorem setEmptyHostX_val (r : Rep) : (setEmptyHostX r).val = setEmptyHost r := by
  simp only [setEmptyHostX, setEmptyHost, val_bind, val_pure, writePartX_val]

@[simp] theorem adjustPathPrefixX_val (r : Rep) : (adjustPathPrefixX r).val = adjustPathPrefix r := by
  unfold adjustPathPrefixX adjustPathPrefix
  simp only [val_ite, val_pure, replacePart1X_val]

@[simp] theorem commitPathX_val (r : Rep) (t : List Nat) (n : Nat) :
    (commitPathX r t n).val = commitPath r t n := by
  simp only [commitPathX, commitPath, val_bind, replacePart1X_val, adjustPathPrefixX_val]

@[simp] theorem pushX_val (r : Rep) (b : PathBuf) (seg : List Nat) : (b.pushX r seg).val = b.push seg := rfl

@[simp] theorem pushX_pts (r : Rep) (b : PathBuf) (seg : List Nat) :
    (b.pushX r seg).pts = List.replicate (seg.length + 2) r := by
  simp [PathBuf.pushX]

@[simp] theorem commitPathBufX_val (r : Rep) (b : PathBuf) : (commitPathBufX r b).val = commitPathBuf r b := by
  simp only [commitPathBufX, commitPathBuf, commitPathX_val]

@[simp] theorem saveSchemeX_val (r : Rep) (s : List Nat) : (saveSchemeX r s).val = saveScheme r s := by
  simp only [saveSchemeX, saveScheme, val_bind, val_pure, replacePart1X_val]

/-! ### without a failure: the functions of SetRepApi.lean / UpdateRep.lean -/

@[simp] theorem val_mayThrow_bind {β : Type} (r : Rep) (f : Unit → X β) :
    (mayThrow r >>= f).val = (f ()).val := rfl

@[simp] theorem val_mayThrowN_bind {β : Type} (n : Nat) (r : Rep) (f : Unit → X β) :
    (mayThrowN n r >>= f).val = (f ()).val := rfl

@[simp] theorem val_preludeX_bind {β : Type} (r : Rep) (f : Unit → X β) :
    (preludeX r >>= f).val = (f ()).val := rfl

@[simp] theorem protocolRepX_val (r : Rep) (p : List Nat) : (protocolRepX r p).val = protocolRep r p := by
  unfold protocolRepX protocolRep
  cases p with
  | nil => rfl
  | cons c0 r0 =>
    simp only [val_ite, val_pure, val_bind, saveSchemeX_val, clearPartX_val]
    rfl

@[simp] theorem parseHostRepX_val (idna : Idna) (r : Rep) (s : List Nat) :
    (parseHostRepX idna r s).val = parseHostRep idna r s := by
  unfold parseHostRepX parseHostRep
  cases s with
  | nil => simp only [val_bind, val_pure, writeHostX_val]
  | cons c t =>
    simp only [val_bind]
    cases parseHost idna (c :: t) (!r.isSpecialScheme) with
    | none => rfl
    | some h => simp only [val_bind, val_pure, writeHostX_val]

@[simp] theorem portStateRepX_val (r : Rep) (p : List Nat) : (portStateRepX r p).val = portStateRep r p := by
  unfold portStateRepX portStateRep
  simp only [val_ite, val_pure, val_bind, writePartFlagX_val, clearPartX_val]

@[simp] theorem fileHostStateRepX_val (idna : Idna) (r : Rep) (p : List Nat) :
    (fileHostStateRepX idna r p).val = fileHostStateRep idna r p := by
  unfold fileHostStateRepX fileHostStateRep
  simp only [val_ite, val_pure, val_bind, setEmptyHostX_val, parseHostRepX_val, emptyHostRepX_val]

@[simp] theorem hostStateRepX_val (idna : Idna) (b : Bool) (r : Rep) (p : List Nat) :
    (hostStateRepX idna b r p).val = hostStateRep idna b r p := by
  unfold hostStateRepX hostStateRep
  simp only [val_ite, val_pure, val_bind, fileHostStateRepX_val, parseHostRepX_val]
  generalize hostScan _ false = sc
  obtain ⟨hp, pp⟩ := sc
  cases pp <;> simp only [val_pure, portStateRepX_val]

@[simp] theorem pathSegmentBufX_val (r : Rep) (isFile : Bool) (b : PathBuf) (seg : List Nat) (l : Bool) :
    (pathSegmentBufX r isFile b seg l).val = pathSegmentBuf isFile b seg l := by
  unfold pathSegmentBufX pathSegmentBuf
  split
  · simp only [val_ite, val_pure, pushX_val]
  · split
    · simp only [val_ite, val_pure, pushX_val]
    · rcases seg with _ | ⟨a, _ | ⟨c, _ | ⟨d, t⟩⟩⟩
      · rfl
      · rfl
      · simp only [val_ite, pushX_val]
      · rfl

@[simp] theorem pathSegmentsBufX_val (r : Rep) (isFile : Bool) (b : PathBuf) (segs : List (List Nat)) :
    (pathSegmentsBufX r isFile b segs).val = pathSegmentsBuf isFile b segs := by
  induction segs generalizing b with
  | nil => rfl
  | cons seg rest ih =>
    cases rest with
    | nil => exact pathSegmentBufX_val r isFile b seg true
    | cons s2 r2 =>
      rw [pathSegmentsBufX, pathSegmentsBuf]
      · simp only [val_bind, pathSegmentBufX_val, ih]
      · simp
      · simp

@[simp] theorem parsePathBufX_val (r : Rep) (s : List Nat) : (parsePathBufX r s).val = parsePathBuf r s := by
  simp only [parsePathBufX, parsePathBuf, pathSegmentsBufX_val]

@[simp] theorem pathStartStateRepX_val (r : Rep) (p : List Nat) :
    (pathStartStateRepX r p).val = pathStartStateRep r p := by
  unfold pathStartStateRepX pathStartStateRep
  split
  · simp only [val_bind, val_pure, parsePathBufX_val, commitPathBufX_val]
    rfl
  · cases p with
    | nil => simp only [val_bind, val_pure, val_ite, pushX_val, commitPathBufX_val]
    | cons c rest => simp only [val_bind, val_pure, parsePathBufX_val, commitPathBufX_val]

@[simp] theorem queryStateRepX_val (r : Rep) (p : List Nat) : (queryStateRepX r p).val = queryStateRep r p := by
  simp only [queryStateRepX, queryStateRep, val_bind, val_pure, writePartFlagX_val]

@[simp] theorem fragmentStateRepX_val (r : Rep) (p : List Nat) :
    (fragmentStateRepX r p).val = fragmentStateRep r p := by
  simp only [fragmentStateRepX, fragmentStateRep, val_bind, val_pure, writePartFlagX_val]

/-- no failure: the whole setter of SetRepApi.lean, returned bool included -/
theorem setRepT_val (idna : Idna) (s : Setter) (e : Enc) (units : List Nat) (r : Rep) :
    (setRepT idna s e units r).val = setRep idna s e units r := by
  unfold setRepT setRep
  cases s with
  | href => rfl
  | protocol => simp only [val_preludeX_bind, protocolRepX_val]
  | username => simp only [val_ite, val_pure, val_bind, val_mayThrow_bind, writePartX_val]
  | password => simp only [val_ite, val_pure, val_bind, val_mayThrow_bind, writePartX_val]
  | host => simp only [val_ite, val_pure, val_preludeX_bind, hostStateRepX_val]
  | hostname => simp only [val_ite, val_pure, val_preludeX_bind, hostStateRepX_val]
  | port => simp only [val_ite, val_pure, val_bind, val_preludeX_bind, portStateRepX_val, clearPartX_val]
  | pathname => simp only [val_ite, val_pure, val_preludeX_bind, pathStartStateRepX_val]
  | search =>
    cases units with
    | nil => simp only [val_bind, val_pure, clearPartX_val]
    | cons c rest => simp only [val_bind, val_pure, val_preludeX_bind, val_mayThrow_bind, queryStateRepX_val]
  | hash =>
    cases units with
    | nil => simp only [val_bind, val_pure, clearPartX_val]
    | cons c rest => simp only [val_preludeX_bind, fragmentStateRepX_val]

theorem updateRepT_val (r : Rep) (l : List BPair) : (updateRepT r l).val = updateRep r l := by
  unfold updateRepT updateRep
  simp only [val_ite, val_bind, val_pure, clearPartX_val, writePartFlagX_val]

theorem updateRepSerT_val (r : Rep) (ser : List Nat) : (updateRepSerT r ser).val = updateRepSer r ser := by
  unfold updateRepSerT updateRepSer
  simp only [val_ite, val_bind, val_pure, clearPartX_val, writePartFlagX_val]

end Upa.Proofs.SetRepExc
