import Upa.Proofs.BoundsMiscAgree2
/-
  Helper lemmas for C04g: `parsePathM` (url.h:2398-2469, bounds-instrumented; it scans the raw code
  units for the segment ends, tests the raw segment for dot segments / a Windows drive letter and decodes
  lazily inside do_path_segment) computes `Impl.parsePath` on the eagerly decoded input.
-/
namespace Upa.Impl.B
open Upa.Proofs.C10b

/-! ### splitOnP -/

theorem splitP_ne_nil (p : Nat → Bool) (s : List Nat) : splitOnP p s ≠ [] := by
  induction s with
  | nil => simp [splitOnP]
  | cons c cs ih =>
    unfold splitOnP
    split
    · simp
    · split <;> simp

theorem splitP_mid (p : Nat → Bool) (s : List Nat) (c : Nat) (r : List Nat) (h : ∀ x ∈ s, p x = false)
    (hc : p c = true) : splitOnP p (s ++ c :: r) = s :: splitOnP p r := by
  induction s with
  | nil => simp [splitOnP, hc]
  | cons x xs ih =>
    have hx := h x List.mem_cons_self
    have ih' := ih (fun y hy => h y (List.mem_cons_of_mem _ hy))
    simp only [List.cons_append, splitOnP, hx, Bool.false_eq_true, if_false, ih']

theorem splitP_nosep (p : Nat → Bool) (s : List Nat) (h : ∀ x ∈ s, p x = false) : splitOnP p s = [s] := by
  induction s with
  | nil => rfl
  | cons x xs ih =>
    have hx := h x List.mem_cons_self
    have ih' := ih (fun y hy => h y (List.mem_cons_of_mem _ hy))
    simp only [splitOnP, hx, Bool.false_eq_true, if_false, ih']

/-! ### decoding ASCII -/

theorem decode_of_ascii (e : Enc) : ∀ l : List Nat, (∀ c ∈ l, c < 0x80) → Impl.decode e l = l := by
  intro l
  induction l with
  | nil => intro _; rfl
  | cons x xs ih =>
    intro h
    rw [decode_cons_ascii e x xs (h x List.mem_cons_self), ih (fun c hc => h c (List.mem_cons_of_mem _ hc))]

theorem decode_ascii_eq (e : Enc) (l : List Nat) : UOk e l → (∀ c ∈ Impl.decode e l, c < 0x80) → Impl.decode e l = l := by
  refine Impl.decode_induction e (fun l => UOk e l → (∀ c ∈ Impl.decode e l, c < 0x80) → Impl.decode e l = l) ?_ ?_ l
  · intro _ _; rfl
  · intro l hne ih hu hall
    rw [decode_step' e l hne] at hall ⊢
    have h0 := hall _ List.mem_cons_self
    have hl := (readChar_cp e l hne hu).2 h0
    rw [ih (hu.rest hne) (fun c hc => hall c (List.mem_cons_of_mem _ hc))]
    exact hl.symm

/-- a test that only accepts ASCII strings gives the same verdict on the units and on the decoded text -/
theorem pred_decode (e : Enc) (P : List Nat → Bool) (hP : ∀ s, P s = true → ∀ c ∈ s, c < 0x80) (l : List Nat)
    (hu : UOk e l) : P (Impl.decode e l) = P l := by
  cases h1 : P l with
  | true => rw [decode_of_ascii e l (hP l h1), h1]
  | false =>
    cases h2 : P (Impl.decode e l) with
    | false => rfl
    | true =>
      rw [decode_ascii_eq e l hu (hP _ h2), h1] at h2
      cases h2

/-! ### the tests of parse_path accept ASCII strings only -/

theorem or20_lt (c : Nat) (h : c ||| 0x20 = 0x65) : c < 0x80 := by
  have := Nat.left_le_or (n := c) (m := 0x20); omega

theorem escapedDot3 (a b c : Nat) (h : Impl.escapedDot [a, b, c] = true) : a < 0x80 ∧ b < 0x80 ∧ c < 0x80 := by
  simp only [Impl.escapedDot, Bool.and_eq_true, beq_iff_eq] at h
  have := or20_lt c h.2; omega

theorem singleDot_ascii (s : List Nat) (h : Impl.singleDot s = true) : ∀ c ∈ s, c < 0x80 := by
  rcases s with _ | ⟨a, _ | ⟨b, _ | ⟨c, _ | ⟨d, t⟩⟩⟩⟩
  · simp [Impl.singleDot] at h
  · simp only [Impl.singleDot, beq_iff_eq] at h
    intro x hx; simp only [List.mem_singleton] at hx; omega
  · simp [Impl.singleDot] at h
  · simp only [Impl.singleDot] at h
    have := escapedDot3 a b c h
    intro x hx; simp only [List.mem_cons, List.not_mem_nil, or_false] at hx; omega
  · simp [Impl.singleDot] at h

theorem doubleDot_ascii (s : List Nat) (h : Impl.doubleDot s = true) : ∀ c ∈ s, c < 0x80 := by
  rcases s with _ | ⟨a, _ | ⟨b, _ | ⟨c, _ | ⟨d, _ | ⟨f, _ | ⟨g, _ | ⟨k, t⟩⟩⟩⟩⟩⟩⟩
  · simp [Impl.doubleDot] at h
  · simp [Impl.doubleDot] at h
  · simp only [Impl.doubleDot, Bool.and_eq_true, beq_iff_eq] at h
    intro x hx; simp only [List.mem_cons, List.not_mem_nil, or_false] at hx; omega
  · simp [Impl.doubleDot] at h
  · simp only [Impl.doubleDot, Bool.or_eq_true, Bool.and_eq_true, beq_iff_eq] at h
    intro x hx; simp only [List.mem_cons, List.not_mem_nil, or_false] at hx
    rcases h with ⟨h1, h2⟩ | ⟨h1, h2⟩
    · have := escapedDot3 b c d h2; omega
    · have := escapedDot3 a b c h1; omega
  · simp [Impl.doubleDot] at h
  · simp only [Impl.doubleDot, Bool.and_eq_true] at h
    have h1 := escapedDot3 a b c h.1
    have h2 := escapedDot3 d f g h.2
    intro x hx; simp only [List.mem_cons, List.not_mem_nil, or_false] at hx; omega
  · simp [Impl.doubleDot] at h

/-- `len == 2 && is_windows_drive(pointer[0], pointer[1])` -/
def driveL (s : List Nat) : Bool := match s with | [a, b] => Impl.isWindowsDrive a b | _ => false

theorem driveL_len (s : List Nat) (h : driveL s = true) : s.length = 2 := by
  rcases s with _ | ⟨a, _ | ⟨b, _ | ⟨c, t⟩⟩⟩ <;> simp [driveL] at h ⊢

theorem driveL_ascii (s : List Nat) (h : driveL s = true) : ∀ c ∈ s, c < 0x80 := by
  rcases s with _ | ⟨a, _ | ⟨b, _ | ⟨c, t⟩⟩⟩
  · simp [driveL] at h
  · simp [driveL] at h
  · simp only [driveL, Impl.isWindowsDrive, isAlpha, Bool.and_eq_true, Bool.or_eq_true, beq_iff_eq,
      decide_eq_true_eq] at h
    intro x hx; simp only [List.mem_cons, List.not_mem_nil, or_false] at hx; omega
  · simp [driveL] at h

/-- `Impl.pathSegment` with its `match seg with | [a, b] => …` spelled as the C++ condition -/
theorem pathSegment_eq (u : Url) (seg : List Nat) (isLast : Bool) :
    Impl.pathSegment u seg isLast =
      if Impl.doubleDot seg = true then
        (if isLast = true then { Impl.shortenPath u with path := (Impl.shortenPath u).path ++ [[]] } else Impl.shortenPath u)
      else if Impl.singleDot seg = true then (if isLast = true then { u with path := u.path ++ [[]] } else u)
      else if (u.isFile && u.path.isEmpty && driveL seg) = true then { u with path := u.path ++ [[seg.headD 0, 0x3A]] }
      else { u with path := u.path ++ [Impl.percentEncode Impl.pathNoEnc seg] } := by
  unfold Impl.pathSegment
  split
  · rfl
  split
  · rfl
  rcases seg with _ | ⟨a, _ | ⟨b, _ | ⟨c, t⟩⟩⟩ <;> simp [driveL]

theorem shortenPath_scheme (u : Url) : (Impl.shortenPath u).scheme = u.scheme := by
  unfold Impl.shortenPath
  split
  · rfl
  · split <;> split <;> rfl
  · rfl

theorem pathSegment_scheme (u : Url) (seg : List Nat) (isLast : Bool) :
    (Impl.pathSegment u seg isLast).scheme = u.scheme := by
  rw [pathSegment_eq]
  split
  · split
    · exact shortenPath_scheme u
    · exact shortenPath_scheme u
  · split
    · split <;> rfl
    · split <;> rfl

theorem pathSegments_one (u : Url) (seg : List Nat) : Impl.pathSegments u [seg] = Impl.pathSegment u seg true := rfl

theorem pathSegments_more (u : Url) (seg : List Nat) (r : List (List Nat)) (hr : r ≠ []) :
    Impl.pathSegments u (seg :: r) = Impl.pathSegments (Impl.pathSegment u seg false) r := by
  cases r with
  | nil => exact absurd rfl hr
  | cons x xs => rfl

/-! ### std::find_if with a pure predicate -/

theorem findIf_spec (a : Array Nat) (first last : Nat) (f : Nat → Bool) (hl : last ≤ a.size) :
    ∀ n p, first ≤ p → p + n ≤ last →
      (findIf a first last f n p).sat (fun q => p ≤ q ∧ q ≤ p + n ∧ (∀ i, p ≤ i → i < q → f a[i]! = false) ∧
        (q < p + n → f a[q]! = true)) := by
  intro n
  induction n with
  | zero => intro p _ _; exact R.sat_pure ⟨by omega, by omega, by intro i h1 h2; omega, by intro h; omega⟩
  | succ n ih =>
    intro p h1 h2
    simp only [findIf, rd_ok h1 (by omega : p < last) hl, R.ok_bind]
    split
    · rename_i hc
      exact R.sat_pure ⟨by omega, by omega, by intro i h1 h2; omega, by intro _; exact hc⟩
    · rename_i hc
      refine R.sat_mono (ih (p + 1) (by omega) (by omega)) ?_
      intro q ⟨q1, q2, q3, q4⟩
      refine ⟨by omega, by omega, ?_, by intro hq; exact q4 (by omega)⟩
      intro i hi1 hi2
      by_cases hip : i = p
      · subst hip; simpa using hc
      · exact q3 i (by omega) hi2

theorem slice_sub_subset (a : Array Nat) (first p q last : Nat) (h1 : first ≤ p) (h3 : q ≤ last)
    (hl : last ≤ a.size) : ∀ x ∈ slice a p q, x ∈ slice a first last := by
  intro x hx
  obtain ⟨i, hi1, hi2, rfl⟩ := mem_slice a p q x (by omega) hx
  exact slice_mem_of_idx a first last i (by omega) (by omega) hl

theorem slice_two (a : Array Nat) (p q : Nat) (h : q - p = 2) (hl : q ≤ a.size) : slice a p q = [a[p]!, a[p + 1]!] := by
  rw [slice_cons a p q (by omega) hl, slice_cons a (p + 1) q (by omega) hl, slice_nil a (p + 1 + 1) q (by omega)]

theorem slash_ascii (sp : Bool) : AsciiPred (if sp = true then Impl.isSlash else (· == 0x2F)) := by
  intro c h
  cases sp
  · simp only [Bool.false_eq_true, if_false, beq_iff_eq] at h; omega
  · simp only [if_true, Impl.isSlash, Bool.or_eq_true, beq_iff_eq] at h; omega

/-- `url_parser::parse_path` = `Impl.parsePath` on the decoded input, for every character width -/
theorem parsePathM_agrees (e : Enc) (a : Array Nat) (first last : Nat) (u : Url) (h : first ≤ last) (hl : last ≤ a.size)
    (hu : UOk e (slice a first last)) :
    parsePathM e a first last u = .ok (Impl.parsePath u (Impl.decode e (slice a first last))) := by
  apply R.sat_eq
  generalize hp : (if u.isSpecial = true then Impl.isSlash else (· == 0x2F)) = p
  have hpa : AsciiPred p := by rw [← hp]; exact slash_ascii _
  have hres : Impl.parsePath u (Impl.decode e (slice a first last)) =
      Impl.pathSegments u (splitOnP p (Impl.decode e (slice a first last))) := by
    unfold Impl.parsePath; rw [← hp]; cases u.isSpecial <;> rfl
  rw [hres]
  unfold parsePathM
  refine iter_sat _ (fun s => first ≤ s.1 ∧ s.1 ≤ last ∧ s.2.scheme = u.scheme ∧
      Impl.pathSegments s.2 (splitOnP p (Impl.decode e (slice a s.1 last))) =
        Impl.pathSegments u (splitOnP p (Impl.decode e (slice a first last)))) (fun s => last - s.1) _ ?_ _ _ ?_ ?_
  · intro ⟨pointer, u'⟩ ⟨h1, h2, hsch, h3⟩
    simp only at h1 h2 hsch h3 ⊢
    have hsp : (if u'.isSpecial = true then Impl.isSlash else (· == 0x2F)) = p := by
      rw [← hp]; unfold Url.isSpecial; rw [hsch]
    simp only [sub_ok h1 h2 (Nat.le_refl _), R.ok_bind, hsp]
    refine R.sat_bind (findIf_spec a first last p hl (last - pointer) pointer h1 (by omega)) ?_
    intro eos ⟨e1, e2, e3, e4⟩
    have he : eos ≤ last := by omega
    have huseg : UOk e (slice a pointer eos) := hu.subset (slice_sub_subset a first pointer eos last h1 he hl)
    have hnosep : ∀ x ∈ Impl.decode e (slice a pointer eos), p x = false := by
      intro x hx
      cases hpx : p x with
      | false => rfl
      | true =>
        have hm := decode_ascii_mem e _ huseg x hx (hpa x hpx)
        obtain ⟨i, hi1, hi2, rfl⟩ := mem_slice a pointer eos x (by omega) hm
        rw [e3 i hi1 hi2] at hpx; cases hpx
    simp only [sub_ok h1 e1 he, R.ok_bind, doubleDot_agrees a pointer eos e1 (by omega)]
    refine R.sat_bind (P := fun u'' =>
      u'' = Impl.pathSegment u' (Impl.decode e (slice a pointer eos)) (decide (eos = last))) ?_ ?_
    · rw [pathSegment_eq, pred_decode e Impl.doubleDot doubleDot_ascii _ huseg,
        pred_decode e Impl.singleDot singleDot_ascii _ huseg, pred_decode e driveL driveL_ascii _ huseg]
      by_cases hdd : Impl.doubleDot (slice a pointer eos) = true
      · simp only [hdd, if_true]
        exact R.sat_pure rfl
      simp only [hdd, if_false, Bool.false_eq_true, singleDot_agrees a pointer eos e1 (by omega), R.ok_bind]
      by_cases hsd : Impl.singleDot (slice a pointer eos) = true
      · simp only [hsd, if_true]
        exact R.sat_pure rfl
      simp only [hsd, if_false, Bool.false_eq_true]
      refine R.sat_bind (P := fun d => d = (u'.isFile && u'.path.isEmpty && driveL (slice a pointer eos))) ?_ ?_
      · by_cases hc : eos - pointer = 2 ∧ u'.isFile = true ∧ u'.path.isEmpty = true
        · rw [if_pos hc]
          simp only [rd_ok h1 (by omega : pointer < last) hl,
            rd_ok (by omega : first ≤ pointer + 1) (by omega : pointer + 1 < last) hl, R.ok_bind]
          refine R.sat_pure ?_
          rw [slice_two a pointer eos hc.1 (by omega), hc.2.1, hc.2.2]
          simp [driveL]
        · rw [if_neg hc]
          refine R.sat_pure ?_
          cases hD : (u'.isFile && u'.path.isEmpty && driveL (slice a pointer eos)) with
          | false => rfl
          | true =>
            simp only [Bool.and_eq_true] at hD
            have := driveL_len _ hD.2
            rw [slice_length a pointer eos (by omega)] at this
            exact absurd ⟨this, hD.1.1, hD.1.2⟩ hc
      · intro d hd
        subst hd
        by_cases hD : (u'.isFile && u'.path.isEmpty && driveL (slice a pointer eos)) = true
        · simp only [hD, if_true]
          have hD' := hD
          simp only [Bool.and_eq_true] at hD'
          have hlen := driveL_len _ hD'.2
          rw [slice_length a pointer eos (by omega)] at hlen
          simp only [rd_ok h1 (by omega : pointer < last) hl, R.ok_bind]
          refine R.sat_pure ?_
          rw [decode_of_ascii e _ (driveL_ascii _ hD'.2), slice_two a pointer eos hlen (by omega)]
          rfl
        · simp only [hD, if_false, Bool.false_eq_true]
          refine R.sat_bind (pathSegmentEncM_agrees e a pointer eos e1 (by omega) huseg) ?_
          intro ⟨ok, seg⟩ hs
          simp only at hs
          refine R.sat_pure ?_
          rw [hs]
    · intro u'' hu''
      subst hu''
      by_cases hlast : eos = last
      · subst hlast
        simp only [decide_true, if_true]
        refine R.sat_pure ?_
        rw [splitP_nosep p _ hnosep, pathSegments_one] at h3
        exact h3
      · have hlt : eos < last := by omega
        simp only [hlast, decide_false, Bool.false_eq_true, if_false]
        psimp
        have hsep : p a[eos]! = true := e4 (by omega)
        refine R.sat_pure ⟨⟨by simp only []; omega, by simp only []; omega, ?_, ?_⟩, by simp only []; omega⟩
        · simp only []
          rw [pathSegment_scheme]; exact hsch
        · simp only []
          rw [← slice_append a pointer eos last e1 he hl, slice_cons a eos last hlt hl,
            Impl.decode_ascii_split e _ _ (hpa _ hsep), splitP_mid p _ _ _ hnosep hsep,
            pathSegments_more _ _ _ (splitP_ne_nil _ _)] at h3
          exact h3
  · exact ⟨Nat.le_refl _, h, rfl, rfl⟩
  · simp only []; omega

end Upa.Impl.B
