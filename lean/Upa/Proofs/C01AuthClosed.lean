import Upa.Proofs.C01Auth
import Upa.Proofs.C01Tail
/-
  C01 — the authority-group simulations of Upa/Proofs/C01Auth.lean with the tail-state hypotheses
  (`sim_path`, `sim_pathStart` from Upa/Proofs/C01Tail.lean) discharged.  What remains as hypotheses:

  * `hHost` — the host parser equality (C07, under its IDNA hypotheses);
  * `sim_fileHost` — the file host state under a state override (only for `ov.isSome`; the host state
    jumps there when a host/hostname setter runs on a file URL).  Not needed for `ov = none`.
-/
namespace Upa.Proofs.C01
open Upa.Spec (State Cfg StepResult step run)

section
variable {idna : Idna} {base : Option Url}

/-- port state, any state override -/
theorem sim_port_closed (ov : Option Override) :
    SimAt idna base ov .port 1 3 (fun _ => True) (Impl.portState ov) :=
  sim_port (sim_pathStart idna base ov)

/-- host state, any state override -/
theorem sim_host_closed (ov : Option Override)
    (hHost : ∀ s o, (∀ c ∈ s, Spec.isScalar c = true) → Impl.parseHost idna s o = Spec.hostParse idna s o)
    (sim_fileHost : ov.isSome = true →
      SimAt idna base ov .fileHost 1 1 (fun _ => True) (Impl.fileHostState idna ov)) :
    SimAt idna base ov .host 1 3 (fun k => k.insideBrackets = false) (Impl.hostState idna ov) :=
  sim_host hHost (sim_pathStart idna base ov) sim_fileHost

/-- hostname state, any state override -/
theorem sim_hostname_closed (ov : Option Override)
    (hHost : ∀ s o, (∀ c ∈ s, Spec.isScalar c = true) → Impl.parseHost idna s o = Spec.hostParse idna s o)
    (sim_fileHost : ov.isSome = true →
      SimAt idna base ov .fileHost 1 1 (fun _ => True) (Impl.fileHostState idna ov)) :
    SimAt idna base ov .hostname 1 3 (fun k => k.insideBrackets = false) (Impl.hostState idna ov) :=
  sim_hostname hHost (sim_pathStart idna base ov) sim_fileHost

variable (hHost : ∀ s o, (∀ c ∈ s, Spec.isScalar c = true) → Impl.parseHost idna s o = Spec.hostParse idna s o)
include hHost

/-- host state, no state override -/
theorem sim_host_none :
    SimAt idna base none .host 1 3 (fun k => k.insideBrackets = false) (Impl.hostState idna none) :=
  sim_host hHost (sim_pathStart idna base none) (fun h => by simp at h)

/-- authority state, no state override (weak form, see `ResAgree`) -/
theorem sim_authority_none :
    SimAtW idna base none .authority 2 4 AuthPre (Impl.authorityState idna none) :=
  sim_authority_partial (sim_host_none hHost)

/-- special authority ignore slashes state, no state override (weak form) -/
theorem sim_ignoreSlashes_none :
    SimAtW idna base none .specialAuthorityIgnoreSlashes 2 5 AuthPre (Impl.ignoreSlashesState idna none) :=
  sim_ignoreSlashes_partial (sim_authority_none hHost)

/-- special authority slashes state, no state override (weak form) -/
theorem sim_specialAuthoritySlashes_none :
    SimAtW idna base none .specialAuthoritySlashes 2 6 AuthPre (Impl.specialAuthoritySlashesState idna none) :=
  sim_specialAuthoritySlashes_partial (sim_authority_none hHost)

/-- path or authority state, no state override (weak form) -/
theorem sim_pathOrAuthority_none :
    SimAtW idna base none .pathOrAuthority 2 3 AuthPre (Impl.pathOrAuthorityState idna none) :=
  sim_pathOrAuthority_partial (sim_path idna base none) (sim_authority_none hHost)

/-- plain form for the authority state: fresh flags, no credentials yet, first component of `Spec.run`
    with the fuel shape of `Spec.basicParse` -/
theorem authority_basic (inp : Array Nat) (i : Nat) (u : Url) (fuel : Nat)
    (hu : u.username = []) (hp : u.password = [])
    (hi : i ≤ inp.size) (hsc : ∀ x ∈ inp.toList, Spec.isScalar x = true)
    (hf : fuel ≥ 4 * (inp.size - i) + 16) :
    (run idna inp base none fuel { url := u, state := .authority, p := (i : Int) }).1
      = okUrl (Impl.authorityState idna none u (inp.toList.drop i)) :=
  (sim_authority_none hHost).basic (by decide) (by decide) inp i u fuel ⟨rfl, rfl, rfl, hu, hp⟩ hi hsc hf
end

#print axioms sim_port_closed
#print axioms sim_host_closed
#print axioms sim_hostname_closed
#print axioms sim_authority_none
#print axioms sim_ignoreSlashes_none
#print axioms sim_specialAuthoritySlashes_none
#print axioms sim_pathOrAuthority_none
#print axioms authority_basic

end Upa.Proofs.C01
