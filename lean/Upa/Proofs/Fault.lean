import Upa.Impl.Fault
/-
  All-or-nothing for every operation of the shape "may-throw steps first, target-modifying steps
  last" (`Upa.Impl.Fault.Shape`).  Used by `Upa.Props.C20`.
-/
namespace Upa.Impl.Fault
variable {α β : Type}

/-- steps that cannot throw run to completion, whatever the failure schedule -/
theorem runOp_noThrow (steps : List (Step α β)) (h : ∀ st ∈ steps, st.mayThrow = false)
    (failAt : Option Nat) (s : St α β) :
    runOp steps failAt s = .done (steps.foldl (fun s st => st.eff.apply s) s) := by
  induction steps generalizing s with
  | nil => rfl
  | cons st r ih =>
    have h0 : st.mayThrow = false := h st (by simp)
    simp only [runOp, h0, List.foldl_cons]
    exact ih (fun b hb => h b (by simp [hb])) _

theorem shape_cons {st : Step α β} {r : List (Step α β)} (h : Shape (st :: r)) :
    (st.eff.isMutTarget = true → st.mayThrow = false ∧ ∀ b ∈ r, b.mayThrow = false) ∧ Shape r := by
  obtain ⟨h1, h2⟩ := h
  rw [List.pairwise_cons] at h2
  exact ⟨fun hm => ⟨h1 st (by simp) hm, fun b hb => h2.1 b hb hm⟩,
    fun b hb => h1 b (by simp [hb]), h2.2⟩

theorem apply_target_of_temp {e : Effect α β} (h : e.isMutTarget = false) (s : St α β) :
    (e.apply s).target = s.target := by
  cases e <;> simp_all [Effect.isMutTarget, Effect.apply]

theorem atomic_general (steps : List (Step α β)) (hs : Shape steps) (failAt : Option Nat)
    (s s' : St α β) (e : Exn) (h : runOp steps failAt s = .threw e s') : s'.target = s.target := by
  induction steps generalizing failAt s with
  | nil => simp [runOp] at h
  | cons st r ih =>
    obtain ⟨hst, hr⟩ := shape_cons hs
    cases hm : st.eff.isMutTarget with
    | true =>
      obtain ⟨h0, hall⟩ := hst hm
      simp [runOp, h0, runOp_noThrow r hall] at h
    | false =>
      have ht := apply_target_of_temp hm s
      simp only [runOp] at h
      split at h
      · split at h
        · cases h; rfl
        · split at h
          · cases h; rfl
          · rw [ih hr _ _ h, ht]
          · rw [ih hr _ _ h, ht]
      · rw [ih hr _ _ h, ht]

/-- a prefix of temp-only steps in front of a shaped operation keeps the shape -/
theorem shape_append_temp (pre post : List (Step α β)) (hpre : ∀ st ∈ pre, st.eff.isMutTarget = false)
    (hpost : Shape post) : Shape (pre ++ post) := by
  obtain ⟨h1, h2⟩ := hpost
  refine ⟨?_, ?_⟩
  · intro st hst hm
    rcases List.mem_append.mp hst with h | h
    · rw [hpre st h] at hm; cases hm
    · exact h1 st h hm
  · rw [List.pairwise_append]
    refine ⟨?_, h2, ?_⟩
    · exact List.Pairwise.imp_of_mem (R := fun _ _ => True) (fun ha _ _ hm => by rw [hpre _ ha] at hm; cases hm)
        (List.pairwise_of_forall (by simp))
    · intro a ha b _ hm
      rw [hpre a ha] at hm; cases hm

/-- where an exception can come from -/
theorem threw_cause (steps : List (Step α β)) (failAt : Option Nat) (s s' : St α β) (e : Exn)
    (h : runOp steps failAt s = .threw e s') :
    (e = .badAlloc ∧ failAt.isSome = true) ∨
    (e = .lengthError ∧ ∃ st ∈ steps, st.mayThrow = true ∧ st.tooLong s' = true) := by
  induction steps generalizing failAt s with
  | nil => simp [runOp] at h
  | cons st r ih =>
    simp only [runOp] at h
    have lift : ∀ fa : Option Nat, ((e = .badAlloc ∧ fa.isSome = true) ∨
        (e = .lengthError ∧ ∃ st ∈ r, st.mayThrow = true ∧ st.tooLong s' = true)) → fa.isSome = failAt.isSome →
        (e = .badAlloc ∧ failAt.isSome = true) ∨
        (e = .lengthError ∧ ∃ st' ∈ st :: r, st'.mayThrow = true ∧ st'.tooLong s' = true) := by
      intro fa h hfa
      rcases h with h | ⟨h, b, hb, hb'⟩
      · exact .inl ⟨h.1, hfa ▸ h.2⟩
      · exact .inr ⟨h, b, by simp [hb], hb'⟩
    split at h
    · rename_i hthrow
      split at h
      · rename_i hlong
        cases h
        exact .inr ⟨rfl, st, by simp, hthrow, hlong⟩
      · split at h
        · cases h; exact .inl ⟨rfl, rfl⟩
        · exact lift _ (ih _ _ h) rfl
        · exact lift _ (ih _ _ h) rfl
    · exact lift _ (ih _ _ h) rfl

/-- without an injected failure and without an oversize string the operation completes -/
theorem runOp_completes (steps : List (Step α β)) (h : ∀ st ∈ steps, ∀ s, st.tooLong s = false)
    (s : St α β) : runOp steps none s = .done (steps.foldl (fun s st => st.eff.apply s) s) := by
  induction steps generalizing s with
  | nil => rfl
  | cons st r ih =>
    have h0 := h st (by simp) s
    have := ih (fun b hb => h b (by simp [hb])) (st.eff.apply s)
    cases hm : st.mayThrow <;> simp [runOp, hm, h0, this]

end Upa.Impl.Fault
