import Upa.Proofs.SettersHist
import Upa.Props.C08
/-
  C03 — the setters conform to the URL Standard.  (Separate file: the proofs use the assembled C01.)

  `Impl.setValid idna s e units u` is the model of the code (guards, then `url_parse` with a state
  override on the preprocessed value); `Spec.apiSet idna s e units u` is the Standard's API setter over
  the Standard-shaped basic URL parser (`Spec.basicParse … (some state)`), the URL being what the state
  machine leaves behind — also when it fails after having written something.

  `RecOk u` (Upa/Proofs/Setters.lean) is the well-formedness of the start record the theorem needs:
      a `file` URL has a host, and a host whose serialization is empty is the empty host.
  The code tests "host text is empty (or scheme is file)", the Standard "host is null or the empty host
  (or scheme is file)"; they differ exactly on the records `RecOk` excludes (examples below).
-/
namespace Upa.Props
open Upa Upa.Impl
open Upa.Proofs.C01 (ovState resOf)
open Upa.Proofs.C03 (RecOk RecInv IdnaNonEmpty emptyIdna)
open Upa.Proofs.C08 (IdnaCanon sampleIdna sampleIdna_canon)

/-- "http://u:p@h:81/a/b?q#f" (the start record of the examples) -/
def c03Start : Url :=
  { scheme := asciiStr "http", username := asciiStr "u", password := asciiStr "p",
    host := some ⟨.domain, asciiStr "h"⟩, port := some 81, path := [asciiStr "a", asciiStr "b"],
    query := some (asciiStr "q"), fragment := some (asciiStr "f") }

/-! ### 1. the state-override entry points of `url_parse`, as full pairs -/

/-- host, hostname, port, path start: the Standard's parser with that state override returns exactly
    (result, URL as left behind) of the code's run, for every URL record -/
theorem C03_override_entry (idna : Idna) (h : IdnaOk idna) (u : Url) (inp : List Nat)
    (hsc : ∀ x ∈ inp, Spec.isScalar x = true) :
    ∀ ov : Override, ov = .host ∨ ov = .hostname ∨ ov = .port ∨ ov = .pathStart →
      Spec.basicParse idna inp none u (some (ovState ov)) =
        resOf (some ov) (Impl.urlParse idna none (some ov) u inp) := by
  intro ov hov
  rcases hov with rfl | rfl | rfl | rfl
  · exact Proofs.C03.entry_host (Proofs.C03.hHost_of h) u inp hsc
  · exact Proofs.C03.entry_hostname (Proofs.C03.hHost_of h) u inp hsc
  · exact Proofs.C03.entry_port u inp hsc
  · exact Proofs.C03.entry_pathStart u inp hsc

/-- query and fragment: the Standard appends to the component (which the API empties first), the code
    overwrites it -/
theorem C03_override_entry_query_fragment (idna : Idna) (u : Url) (inp : List Nat)
    (hsc : ∀ x ∈ inp, Spec.isScalar x = true) :
    Spec.basicParse idna inp none { u with query := some [] } (some .query) =
      resOf (some .query) (Impl.urlParse idna none (some .query) u inp) ∧
    Spec.basicParse idna inp none { u with fragment := some [] } (some .fragment) =
      resOf (some .fragment) (Impl.urlParse idna none (some .fragment) u inp) :=
  ⟨Proofs.C03.entry_query_reset u inp hsc, Proofs.C03.entry_fragment_reset u inp hsc⟩

/-- the same with the precondition instead of the reset: query null or empty, fragment empty -/
theorem C03_override_entry_query_fragment_pre (idna : Idna) (u : Url) (inp : List Nat)
    (hsc : ∀ x ∈ inp, Spec.isScalar x = true) :
    (u.query.getD [] = [] → Spec.basicParse idna inp none u (some .query) =
      resOf (some .query) (Impl.urlParse idna none (some .query) u inp)) ∧
    (u.fragment = some [] → Spec.basicParse idna inp none u (some .fragment) =
      resOf (some .fragment) (Impl.urlParse idna none (some .fragment) u inp)) :=
  ⟨Proofs.C03.entry_query u inp hsc, Proofs.C03.entry_fragment u inp hsc⟩

-- port "8080" / "99999" (failure, URL untouched) / "80" (default port of http: port removed), both sides
example : ∀ x ∈ asciiStr "99999", Spec.isScalar x = true := by decide +kernel
example :
    Spec.basicParse C07_stubIdna (asciiStr "8080") none c03Start (some .port) =
      (some { c03Start with port := some 8080 }, { c03Start with port := some 8080 }) ∧
    resOf (some .port) (Impl.urlParse C07_stubIdna none (some .port) c03Start (asciiStr "8080")) =
      (some { c03Start with port := some 8080 }, { c03Start with port := some 8080 }) ∧
    Spec.basicParse C07_stubIdna (asciiStr "99999") none c03Start (some .port) = (none, c03Start) ∧
    resOf (some .port) (Impl.urlParse C07_stubIdna none (some .port) c03Start (asciiStr "99999")) = (none, c03Start) ∧
    Spec.basicParse C07_stubIdna (asciiStr "80") none c03Start (some .port) =
      (some { c03Start with port := none }, { c03Start with port := none }) ∧
    resOf (some .port) (Impl.urlParse C07_stubIdna none (some .port) c03Start (asciiStr "80")) =
      (some { c03Start with port := none }, { c03Start with port := none }) := by decide +kernel
-- query "k=v w" on the record with the query emptied / path start "/../c d"
example :
    Spec.basicParse C07_stubIdna (asciiStr "k=v w") none { c03Start with query := some [] } (some .query) =
      (some { c03Start with query := some (asciiStr "k=v%20w") }, { c03Start with query := some (asciiStr "k=v%20w") }) ∧
    resOf (some .query) (Impl.urlParse C07_stubIdna none (some .query) c03Start (asciiStr "k=v w")) =
      (some { c03Start with query := some (asciiStr "k=v%20w") }, { c03Start with query := some (asciiStr "k=v%20w") }) ∧
    Spec.basicParse C07_stubIdna (asciiStr "/../c d") none { c03Start with path := [] } (some .pathStart) =
      (some { c03Start with path := [asciiStr "c%20d"] }, { c03Start with path := [asciiStr "c%20d"] }) := by
  decide +kernel

/-- protocol: the Standard parses `value ++ ":"` from the scheme start state, the code takes the end
    of the value for the colon; same ignore rules, same default-port reset, same failures (any input) -/
theorem C03_override_entry_scheme (idna : Idna) (u : Url) (hok : RecOk u = true) (inp : List Nat) :
    Spec.basicParse idna (inp ++ [0x3A]) none u (some .schemeStart) =
      resOf (some .schemeStart) (Impl.urlParse idna none (some .schemeStart) u inp) :=
  Proofs.C03.sim_scheme_ov idna u hok inp

-- "WSS" (+ ":"): scheme replaced; "file": ignored (credentials and port); "w s": failure
example :
    Spec.basicParse C07_stubIdna (asciiStr "WSS" ++ [0x3A]) none c03Start (some .schemeStart) =
      (some { c03Start with scheme := asciiStr "wss" }, { c03Start with scheme := asciiStr "wss" }) ∧
    resOf (some .schemeStart) (Impl.urlParse C07_stubIdna none (some .schemeStart) c03Start (asciiStr "WSS")) =
      (some { c03Start with scheme := asciiStr "wss" }, { c03Start with scheme := asciiStr "wss" }) ∧
    Spec.basicParse C07_stubIdna (asciiStr "file" ++ [0x3A]) none c03Start (some .schemeStart) =
      (some c03Start, c03Start) ∧
    resOf (some .schemeStart) (Impl.urlParse C07_stubIdna none (some .schemeStart) c03Start (asciiStr "file")) =
      (some c03Start, c03Start) ∧
    Spec.basicParse C07_stubIdna (asciiStr "w s" ++ [0x3A]) none c03Start (some .schemeStart) = (none, c03Start) ∧
    resOf (some .schemeStart) (Impl.urlParse C07_stubIdna none (some .schemeStart) c03Start (asciiStr "w s")) =
      (none, c03Start) := by decide +kernel

/-! ### 2. the ten setters -/

/-- every setter, on every record satisfying `RecOk`, with every value in every encoding, leaves the
    URL the Standard's setter leaves -/
theorem C03_setter_conforms :
    ∀ idna, IdnaOk idna → ∀ (s : Setter) (e : Enc) (units : List Nat) (u : Url),
      UnitsOk e units → RecOk u = true →
      (Impl.setValid idna s e units u).1 = Spec.apiSet idna s e units u :=
  fun _ h s e units u hu hok => Proofs.C03.setter_conforms h s e units u hu hok

/-- whenever the Standard ignores an assignment (leaves the URL as it was), so does the library -/
theorem C03_ignored_unchanged :
    ∀ idna, IdnaOk idna → ∀ (s : Setter) (e : Enc) (units : List Nat) (u : Url),
      UnitsOk e units → RecOk u = true →
      Spec.apiSet idna s e units u = u → (Impl.setValid idna s e units u).1 = u :=
  fun idna h s e units u hu hok hig => (C03_setter_conforms idna h s e units u hu hok).trans hig

/-- `RecOk` is exactly the condition: a record satisfies it iff every setter call on it conforms
    (on a record violating it, protocol "http" or username "a" / "b" separates code and Standard) -/
theorem C03_recok_exact :
    ∀ idna, IdnaOk idna → ∀ u : Url,
      (RecOk u = true ↔ ∀ (s : Setter) (e : Enc) (units : List Nat), UnitsOk e units →
        (Impl.setValid idna s e units u).1 = Spec.apiSet idna s e units u) := by
  intro idna h u
  constructor
  · exact fun hok s e units hu => C03_setter_conforms idna h s e units u hu hok
  · intro hall
    cases hr : RecOk u with
    | true => rfl
    | false =>
      obtain ⟨s, units, hu, hd⟩ := Proofs.C03.recOk_necessary idna u hr
      exact absurd (hall s .u8 units hu) hd

/-- canonical records (C08: everything the parser and the setters produce) satisfy `RecOk` -/
theorem C03_canon_recok (u : Url) (h : Impl.Canon u = true) : RecOk u = true := by
  obtain ⟨ha, _, _, _⟩ := (Proofs.C08.canon_iff u).1 h
  unfold RecOk
  cases hh : u.host with
  | none =>
    cases hf : u.isFile with
    | false => rfl
    | true =>
      obtain ⟨h', hh'⟩ := ha.fileHost hf
      rw [hh] at hh'; cases hh'
  | some h' =>
    have hk := ha.host h' hh
    obtain ⟨k, t⟩ := h'
    cases t with
    | nil => cases k <;> simp_all [Impl.hostOk]
    | cons a t => simp

/-! ### 3. call sequences -/

/-- `RecInv` (Upa/Proofs/SettersInv.lean): a special URL has a host, and a host whose serialization
    is empty is the empty host.  It implies `RecOk` … -/
theorem C03_recinv_recok (u : Url) (h : RecInv u = true) : RecOk u = true := Proofs.C03.RecInv.recOk h

/-- … holds of every canonical record (C08) … -/
theorem C03_canon_recinv (u : Url) (h : Impl.Canon u = true) : RecInv u = true := Proofs.C03.canon_recInv u h

/-- … and of every URL the parser returns, provided ToASCII never returns the empty string
    (`IdnaNonEmpty idna := ∀ s r, idna s = some r → r ≠ []`; implied by `IdnaCanon` of C08) -/
theorem C03_parse_recinv :
    ∀ idna, IdnaNonEmpty idna → ∀ (e : Enc) (units : List Nat) (u : Url),
      Impl.parse idna e units none = some u → RecInv u = true :=
  fun _ hi e units u h => Proofs.C03.parse_recInv hi e units u h

/-- The setters keep the record inside `RecOk`.  `RecOk` itself is the weakest condition for ONE call
    and is not an invariant — `{scheme := "http", host := null}` satisfies it, the protocol setter turns
    it into `{scheme := "file", host := null}`, which does not (example below) — so this is stated for the
    invariant `RecInv` (adds: a special URL has a host); and ToASCII must never return the empty string
    (`IdnaNonEmpty`; `IdnaOk` does not say that: `emptyIdna` below).  Holds also when the setter reports
    failure.  Hypotheses changed w.r.t. the plain statement: `IdnaNonEmpty idna` added, `RecInv` for `RecOk`. -/
theorem C03_recok_preserved_partial :
    ∀ idna, IdnaNonEmpty idna → ∀ (s : Setter) (e : Enc) (units : List Nat) (u : Url),
      RecInv u = true →
      RecInv (Impl.setValid idna s e units u).1 = true ∧ RecOk (Impl.setValid idna s e units u).1 = true :=
  fun _ hi s e units u h =>
    ⟨Proofs.C03.setValid_recInv hi s e units u h, C03_recinv_recok _ (Proofs.C03.setValid_recInv hi s e units u h)⟩

/-- every sequence of setter calls leaves the URL the Standard's setters leave.
    Hypotheses changed w.r.t. the plain statement: `IdnaNonEmpty idna` added, `RecInv u` for `RecOk u`
    (see `C03_recok_preserved_partial`; the plain statement is false, examples in section 5). -/
theorem C03_history_partial :
    ∀ idna, IdnaOk idna → IdnaNonEmpty idna → ∀ (calls : List (Setter × Enc × List Nat)) (u : Url),
      (∀ c ∈ calls, UnitsOk c.2.1 c.2.2) → RecInv u = true →
      calls.foldl (fun u c => (Impl.setValid idna c.1 c.2.1 c.2.2 u).1) u =
        calls.foldl (fun u c => Spec.apiSet idna c.1 c.2.1 c.2.2 u) u :=
  fun _ h hi calls u hu hinv =>
    Proofs.C03.history_of_inv h (fun u => RecInv u = true) C03_recinv_recok
      (fun s e units u _ hj => Proofs.C03.setValid_recInv hi s e units u hj) calls u hu hinv

/-- in particular for every URL obtained by parsing, and for every canonical URL -/
theorem C03_history_parsed :
    ∀ idna, IdnaOk idna → IdnaNonEmpty idna → ∀ (e0 : Enc) (units0 : List Nat) (u : Url),
      Impl.parse idna e0 units0 none = some u →
      ∀ calls : List (Setter × Enc × List Nat), (∀ c ∈ calls, UnitsOk c.2.1 c.2.2) →
      calls.foldl (fun u c => (Impl.setValid idna c.1 c.2.1 c.2.2 u).1) u =
        calls.foldl (fun u c => Spec.apiSet idna c.1 c.2.1 c.2.2 u) u :=
  fun idna h hi e0 units0 u hp calls hu =>
    C03_history_partial idna h hi calls u hu (C03_parse_recinv idna hi e0 units0 u hp)

theorem C03_history_canon :
    ∀ idna, IdnaOk idna → IdnaCanon idna → ∀ (calls : List (Setter × Enc × List Nat)) (u : Url),
      (∀ c ∈ calls, UnitsOk c.2.1 c.2.2) → Impl.Canon u = true →
      calls.foldl (fun u c => (Impl.setValid idna c.1 c.2.1 c.2.2 u).1) u =
        calls.foldl (fun u c => Spec.apiSet idna c.1 c.2.1 c.2.2 u) u :=
  fun idna h hc calls u hu hcan =>
    C03_history_partial idna h (Proofs.C03.IdnaNonEmpty.of_canon hc) calls u hu (C03_canon_recinv u hcan)

/-! ### 4. non-vacuity: concrete instances, both sides evaluated by the kernel -/

theorem c03_units (s : String) (h : ∀ x ∈ asciiStr s, x < 256) : UnitsOk .u8 (asciiStr s) := h

-- the hypotheses are satisfiable: the stub of C07, a parsed start record
example : IdnaOk C07_stubIdna := C07_stubIdna_ok
example : Impl.parse C07_stubIdna .u8 (asciiStr "http://u:p@h:81/a/b?q#f") none = some c03Start := by
  decide +kernel
example : RecOk c03Start = true ∧ RecInv c03Start = true ∧ Impl.Canon c03Start = true := by decide +kernel
example : UnitsOk .u8 (asciiStr "x.y:443") := c03_units _ (by decide +kernel)
example : IdnaOk sampleIdna ∧ IdnaCanon sampleIdna ∧ IdnaNonEmpty sampleIdna :=
  ⟨Proofs.C03.sampleIdna_ok, sampleIdna_canon, Proofs.C03.IdnaNonEmpty.of_canon sampleIdna_canon⟩

-- protocol "https" (and "https:8080" stops at the first ':'; "1a" fails; "file" is ignored: credentials)
example : (Impl.setValid C07_stubIdna .protocol .u8 (asciiStr "https") c03Start).1 = { c03Start with scheme := asciiStr "https" } ∧
    Spec.apiSet C07_stubIdna .protocol .u8 (asciiStr "https") c03Start = { c03Start with scheme := asciiStr "https" } ∧
    Spec.apiSet C07_stubIdna .protocol .u8 (asciiStr "https:8080") c03Start = { c03Start with scheme := asciiStr "https" } ∧
    (Impl.setValid C07_stubIdna .protocol .u8 (asciiStr "https:8080") c03Start).1 = { c03Start with scheme := asciiStr "https" } ∧
    Spec.apiSet C07_stubIdna .protocol .u8 (asciiStr "1a") c03Start = c03Start ∧
    Impl.setValid C07_stubIdna .protocol .u8 (asciiStr "1a") c03Start = (c03Start, false) ∧
    Spec.apiSet C07_stubIdna .protocol .u8 (asciiStr "file") c03Start = c03Start ∧
    Impl.setValid C07_stubIdna .protocol .u8 (asciiStr "file") c03Start = (c03Start, false) ∧
    Spec.apiSet C07_stubIdna .protocol .u8 (asciiStr "a") c03Start = c03Start ∧
    Impl.setValid C07_stubIdna .protocol .u8 (asciiStr "a") c03Start = (c03Start, false) := by
  decide +kernel
-- default-port reset on protocol change: "https://h:80/" with protocol "http"
example :
    Spec.apiSet C07_stubIdna .protocol .u8 (asciiStr "http")
      { scheme := asciiStr "https", host := some ⟨.domain, asciiStr "h"⟩, port := some 80, path := [[]] } =
      { scheme := asciiStr "http", host := some ⟨.domain, asciiStr "h"⟩, port := none, path := [[]] } ∧
    (Impl.setValid C07_stubIdna .protocol .u8 (asciiStr "http")
      { scheme := asciiStr "https", host := some ⟨.domain, asciiStr "h"⟩, port := some 80, path := [[]] }).1 =
      { scheme := asciiStr "http", host := some ⟨.domain, asciiStr "h"⟩, port := none, path := [[]] } := by
  decide +kernel
-- port "" and "8080" / pathname "/../c d" / search "?k=v w" / hash "" and "#x y" / username "a b"
example :
    (Impl.setValid C07_stubIdna .port .u8 (asciiStr "") c03Start).1 = { c03Start with port := none } ∧
    Spec.apiSet C07_stubIdna .port .u8 (asciiStr "") c03Start = { c03Start with port := none } ∧
    (Impl.setValid C07_stubIdna .port .u8 (asciiStr "8080") c03Start).1 = { c03Start with port := some 8080 } ∧
    Spec.apiSet C07_stubIdna .port .u8 (asciiStr "8080") c03Start = { c03Start with port := some 8080 } ∧
    (Impl.setValid C07_stubIdna .pathname .u8 (asciiStr "/../c d") c03Start).1 = { c03Start with path := [asciiStr "c%20d"] } ∧
    Spec.apiSet C07_stubIdna .pathname .u8 (asciiStr "/../c d") c03Start = { c03Start with path := [asciiStr "c%20d"] } ∧
    (Impl.setValid C07_stubIdna .search .u8 (asciiStr "?k=v w") c03Start).1 = { c03Start with query := some (asciiStr "k=v%20w") } ∧
    Spec.apiSet C07_stubIdna .search .u8 (asciiStr "?k=v w") c03Start = { c03Start with query := some (asciiStr "k=v%20w") } ∧
    (Impl.setValid C07_stubIdna .hash .u8 (asciiStr "") c03Start).1 = { c03Start with fragment := none } ∧
    Spec.apiSet C07_stubIdna .hash .u8 (asciiStr "") c03Start = { c03Start with fragment := none } ∧
    (Impl.setValid C07_stubIdna .hash .u8 (asciiStr "#x y") c03Start).1 = { c03Start with fragment := some (asciiStr "x%20y") } ∧
    Spec.apiSet C07_stubIdna .hash .u8 (asciiStr "#x y") c03Start = { c03Start with fragment := some (asciiStr "x%20y") } ∧
    (Impl.setValid C07_stubIdna .username .u8 (asciiStr "a b") c03Start).1 = { c03Start with username := asciiStr "a%20b" } ∧
    Spec.apiSet C07_stubIdna .username .u8 (asciiStr "a b") c03Start = { c03Start with username := asciiStr "a%20b" } := by
  decide +kernel
-- host "x.y:443" (the kernel cannot run the Standard's host parser: Spec side through the theorem), and
-- host "x.y:99999": the Standard has written the host when the port fails, and so has the library
example : Spec.apiSet C07_stubIdna .host .u8 (asciiStr "x.y:443") c03Start =
    { c03Start with host := some ⟨.domain, asciiStr "x.y"⟩, port := some 443 } := by
  rw [← C03_setter_conforms _ C07_stubIdna_ok .host .u8 _ _ (c03_units _ (by decide +kernel)) (by decide +kernel)]
  decide +kernel
example : Spec.apiSet C07_stubIdna .host .u8 (asciiStr "x.y:99999") c03Start =
    { c03Start with host := some ⟨.domain, asciiStr "x.y"⟩ } := by
  rw [← C03_setter_conforms _ C07_stubIdna_ok .host .u8 _ _ (c03_units _ (by decide +kernel)) (by decide +kernel)]
  decide +kernel
-- an ignored assignment: hostname with a port ("x:8") is ignored by the Standard, hence by the library
example : Spec.apiSet C07_stubIdna .hostname .u8 (asciiStr "x:8") c03Start = c03Start ∧
    (Impl.setValid C07_stubIdna .hostname .u8 (asciiStr "x:8") c03Start).1 = c03Start := by
  have h : (Impl.setValid C07_stubIdna .hostname .u8 (asciiStr "x:8") c03Start).1 = c03Start := by decide +kernel
  rw [← C03_setter_conforms _ C07_stubIdna_ok .hostname .u8 _ _ (c03_units _ (by decide +kernel)) (by decide +kernel)]
  exact ⟨h, h⟩

/-- protocol "https", host "x.y:443", port "", pathname "/../c d", search "?k=v w", hash "", username "a b" -/
def c03Calls : List (Setter × Enc × List Nat) :=
  [(.protocol, .u8, asciiStr "https"), (.host, .u8, asciiStr "x.y:443"), (.port, .u8, asciiStr ""),
   (.pathname, .u8, asciiStr "/../c d"), (.search, .u8, asciiStr "?k=v w"), (.hash, .u8, asciiStr ""),
   (.username, .u8, asciiStr "a b")]

/-- "https://a%20b:p@x.y/c%20d?k=v%20w" (443 is the default port of https: dropped) -/
def c03End : Url :=
  { scheme := asciiStr "https", username := asciiStr "a%20b", password := asciiStr "p",
    host := some ⟨.domain, asciiStr "x.y"⟩, port := none, path := [asciiStr "c%20d"],
    query := some (asciiStr "k=v%20w"), fragment := none }

example : c03Calls.foldl (fun u c => (Impl.setValid sampleIdna c.1 c.2.1 c.2.2 u).1) c03Start = c03End ∧
    Impl.serialize c03End = asciiStr "https://a%20b:p@x.y/c%20d?k=v%20w" := by decide +kernel
example : c03Calls.foldl (fun u c => Spec.apiSet sampleIdna c.1 c.2.1 c.2.2 u) c03Start = c03End := by
  rw [← C03_history_partial sampleIdna Proofs.C03.sampleIdna_ok
    (Proofs.C03.IdnaNonEmpty.of_canon sampleIdna_canon) c03Calls c03Start
    (Proofs.C03.unitsOk_u8_calls _ (by decide +kernel)) (by decide +kernel)]
  decide +kernel

/-! ### 5. `RecOk` is needed, and is not an invariant -/

-- a `file` URL without host: the code ignores the protocol setter, the Standard does not
example : RecOk { scheme := sFile, path := [[]] } = false ∧
    (Impl.setValid C07_stubIdna .protocol .u8 (asciiStr "http") { scheme := sFile, path := [[]] }).1 =
      { scheme := sFile, path := [[]] } ∧
    Spec.apiSet C07_stubIdna .protocol .u8 (asciiStr "http") { scheme := sFile, path := [[]] } =
      { scheme := sHttp, path := [[]] } := by decide +kernel
-- a non-empty kind of host with an empty serialization: the code refuses a username, the Standard sets it
example : RecOk { scheme := sHttp, host := some ⟨.domain, []⟩, path := [[]] } = false ∧
    (Impl.setValid C07_stubIdna .username .u8 (asciiStr "a") { scheme := sHttp, host := some ⟨.domain, []⟩, path := [[]] }).1 =
      { scheme := sHttp, host := some ⟨.domain, []⟩, path := [[]] } ∧
    Spec.apiSet C07_stubIdna .username .u8 (asciiStr "a") { scheme := sHttp, host := some ⟨.domain, []⟩, path := [[]] } =
      { scheme := sHttp, username := asciiStr "a", host := some ⟨.domain, []⟩, path := [[]] } := by decide +kernel
-- `RecOk` holds of `{http, host null}` (which no parse produces) but not after protocol "file"; the
-- sequence protocol "file", protocol "http" then separates the code from the Standard
example : RecOk { scheme := sHttp, path := [[]] } = true ∧
    RecOk (Impl.setValid C07_stubIdna .protocol .u8 (asciiStr "file") { scheme := sHttp, path := [[]] }).1 = false ∧
    [(Setter.protocol, Enc.u8, asciiStr "file"), (Setter.protocol, Enc.u8, asciiStr "http")].foldl
      (fun u c => (Impl.setValid C07_stubIdna c.1 c.2.1 c.2.2 u).1) { scheme := sHttp, path := [[]] } =
      { scheme := sFile, path := [[]] } ∧
    [(Setter.protocol, Enc.u8, asciiStr "file"), (Setter.protocol, Enc.u8, asciiStr "http")].foldl
      (fun u c => Spec.apiSet C07_stubIdna c.1 c.2.1 c.2.2 u) { scheme := sHttp, path := [[]] } =
      { scheme := sHttp, path := [[]] } := by decide +kernel

#print axioms C03_override_entry
#print axioms C03_override_entry_query_fragment
#print axioms C03_override_entry_query_fragment_pre
#print axioms C03_override_entry_scheme
#print axioms C03_setter_conforms
#print axioms C03_ignored_unchanged
#print axioms C03_recok_exact
#print axioms C03_canon_recok
-- `IdnaOk` alone does not suffice for histories: `emptyIdna` satisfies it; hostname "é" then stores a
-- domain host with an empty serialization (no longer `RecOk`), and the username setter that follows
-- separates code (refuses: host text empty) and Standard (sets it: host is not the empty host)
example : IdnaOk emptyIdna := Proofs.C03.emptyIdna_ok
example : RecInv c03Start = true ∧
    RecOk (Impl.setValid emptyIdna .hostname .u32 [0xE9] c03Start).1 = false ∧
    [(Setter.hostname, Enc.u32, [0xE9]), (Setter.username, Enc.u8, [0x61])].foldl
      (fun u c => (Impl.setValid emptyIdna c.1 c.2.1 c.2.2 u).1) c03Start =
      { c03Start with host := some ⟨.domain, []⟩ } ∧
    [(Setter.hostname, Enc.u32, [0xE9]), (Setter.username, Enc.u8, [0x61])].foldl
      (fun u c => Spec.apiSet emptyIdna c.1 c.2.1 c.2.2 u) c03Start =
      { c03Start with host := some ⟨.domain, []⟩, username := [0x61] } := by
  have step1 : (Impl.setValid emptyIdna .hostname .u32 [0xE9] c03Start).1 =
      { c03Start with host := some ⟨.domain, []⟩ } := by
    have hs : ∀ f : Idna, (Impl.setValid f .hostname .u32 [0xE9] c03Start).1 =
        match parseHost f [0xE9] false with
        | none => c03Start
        | some h => { c03Start with host := some h } := by
      intro f
      have h1 : (Impl.setValid f .hostname .u32 [0xE9] c03Start).1 =
          (hostState f (some .hostname) c03Start [0xE9]).url := rfl
      have h2 : hostState f (some .hostname) c03Start [0xE9] = match parseHost f [0xE9] false with
        | none => ⟨.failure, c03Start⟩
        | some h => ⟨.ok, { c03Start with host := some h }⟩ := rfl
      rw [h1, h2]
      cases parseHost f [0xE9] false <;> rfl
    rw [hs, Proofs.C03.emptyIdna_host]
  have step1s : Spec.apiSet emptyIdna .hostname .u32 [0xE9] c03Start =
      { c03Start with host := some ⟨.domain, []⟩ } := by
    rw [← C03_setter_conforms _ Proofs.C03.emptyIdna_ok .hostname .u32 _ _ trivial (by decide +kernel), step1]
  simp only [List.foldl_cons, List.foldl_nil]
  rw [step1, step1s]
  decide +kernel

#print axioms C03_recinv_recok
#print axioms C03_canon_recinv
#print axioms C03_parse_recinv
#print axioms C03_history_canon
#print axioms C03_recok_preserved_partial
#print axioms C03_history_partial
#print axioms C03_history_parsed
end Upa.Props
