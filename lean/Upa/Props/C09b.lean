import Upa.Proofs.HostNS
import Upa.Proofs.CanParse
/-
  C09b — the validate-only run INSIDE the host parser (include/upa/url_host.h:158-361 with
  `dest.need_save() == false`, guards at lines 198, 280, 305, 340, 353).

  `Upa/Impl/CanParse.lean` models the host parser of the `url::can_parse` run by the shortcut
  `Impl.parseHostNS := (Impl.parseHost …).isSome` ("same verdict as the saving run").
  `Upa/Impl/HostNS.lean` models it explicitly: `Impl.HostNS.parseHostNS` takes every `need_save()`
  guard with the value false — no IPv4 / IPv6 serialization, no lower-casing copy, no percent-encoding
  of the opaque host, no copy of the ToASCII result — and makes every check the C++ still makes.
  The theorems below show that the shortcut was sound: same verdict for EVERY input, for EVERY
  `idna : List Nat → Option (List Nat)` (no IDNA hypothesis is needed: both runs call
  `domain_to_ascii` on the same `buff_uc` and use its result for the same decisions), and therefore
  the same `can_parse`.

  No input was found on which the C++ validate-only host parser can reach a different verdict from the
  saving one: all five guards enclose only writes to `dest`, after the last decision of their branch.
-/
namespace Upa.Props
open Upa Upa.Impl Upa.Proofs.HostNS

private def stubB : Idna := fun l => some l
private def sB (x : String) : List Nat := asciiStr x

/-! ## 1. the host parser -/

/-- `parse_host` with `need_save() == false` returns `ok` exactly when the saving `parse_host` does -/
theorem C09_host_ns_agree :
    ∀ (idna : Idna) (s : List Nat) (o : Bool),
      HostNS.parseHostNS idna s o = (Impl.parseHost idna s o).isSome :=
  parseHostNS_agree

/-- the same, per callee (`parse_ipv4`, `parse_ipv6`, `parse_opaque_host`) -/
theorem C09_host_ns_callees :
    (∀ s, HostNS.hostParseIpv4NS s = (Impl.hostParseIpv4 s).isSome) ∧
    (∀ s, HostNS.hostParseIpv6NS s = (Impl.hostParseIpv6 s).isSome) ∧
    (∀ s, HostNS.parseOpaqueHostNS s = (Impl.parseOpaqueHost s).isSome) :=
  ⟨ipv4_agree, ipv6_agree, opaque_agree⟩

/-- evaluated instances, one per branch of `parse_host`; both sides are computed independently and
    both verdicts occur.  The saving run's VALUE (right column) shows the work the validate-only run
    skips: lower-casing, IPv4 / IPv6 serialization, percent-encoding. -/
example :  -- fast ASCII-domain path (url_host.h:198)
    HostNS.parseHostNS stubB (sB "EXAMPLE.Com") false = true ∧
    Impl.parseHost stubB (sB "EXAMPLE.Com") false = some ⟨.domain, sB "example.com"⟩ := by decide +kernel
example :  -- ends in a number: parse_ipv4 (url_host.h:340), success and failure
    HostNS.parseHostNS stubB (sB "0x7f.1") false = true ∧
    Impl.parseHost stubB (sB "0x7f.1") false = some ⟨.ipv4, sB "127.0.0.1"⟩ ∧
    HostNS.parseHostNS stubB (sB "1.2.3.4.5") false = false ∧
    Impl.parseHost stubB (sB "1.2.3.4.5") false = none := by decide +kernel
example :  -- parse_ipv6 (url_host.h:353), success, failure, unclosed
    HostNS.parseHostNS stubB (sB "[1:0:0:0:0:0:0:A]") false = true ∧
    Impl.parseHost stubB (sB "[1:0:0:0:0:0:0:A]") false = some ⟨.ipv6, sB "[1::a]"⟩ ∧
    HostNS.parseHostNS stubB (sB "[1::2::3]") true = false ∧
    Impl.parseHost stubB (sB "[1::2::3]") true = none ∧
    HostNS.parseHostNS stubB (sB "[::1") false = false ∧
    Impl.parseHost stubB (sB "[::1") false = none := by decide +kernel
example :  -- parse_opaque_host (url_host.h:296, 305), success (C0 control and non-ASCII get encoded), failure, empty
    HostNS.parseHostNS stubB ([0x61, 0x1F, 0xE9]) true = true ∧
    Impl.parseHost stubB ([0x61, 0x1F, 0xE9]) true = some ⟨.opaque, sB "a%1F%C3%A9"⟩ ∧
    HostNS.parseHostNS stubB (sB "a b") true = false ∧
    Impl.parseHost stubB (sB "a b") true = none ∧
    HostNS.parseHostNS stubB [] true = true ∧ Impl.parseHost stubB [] true = some ⟨.empty, []⟩ ∧
    HostNS.parseHostNS stubB [] false = false ∧ Impl.parseHost stubB [] false = none := by decide +kernel
example :  -- early failure on a forbidden ASCII code point (url_host.h:206-213)
    HostNS.parseHostNS stubB (sB "a^b") false = false ∧
    Impl.parseHost stubB (sB "a^b") false = none := by decide +kernel
/-- IDNA path (url_host.h:216-286), reached through an `xn--` label and through `<` before a percent sign
    (lines 210-213 let it pass).  `percentDecode` is not unfolded by the kernel, so the IDNA functions
    of these instances are constant: a ToASCII result that is used as it is, a ToASCII failure, a result
    that ends in a number (IPv4 parser, success and failure), a result with a forbidden code point. -/
example :
    HostNS.parseHostNS (fun _ => some (sB "xn--a.b")) (sB "xn--a.B") false = true ∧
    Impl.parseHost (fun _ => some (sB "xn--a.b")) (sB "xn--a.B") false = some ⟨.domain, sB "xn--a.b"⟩ ∧
    HostNS.parseHostNS (fun _ => some (sB "x")) (sB "a<%CC%B8") false = true ∧
    Impl.parseHost (fun _ => some (sB "x")) (sB "a<%CC%B8") false = some ⟨.domain, sB "x"⟩ ∧
    HostNS.parseHostNS (fun _ => none) (sB "xn--a") false = false ∧
    Impl.parseHost (fun _ => none) (sB "xn--a") false = none ∧
    HostNS.parseHostNS (fun _ => some (sB "1.2")) (sB "xn--a") false = true ∧
    Impl.parseHost (fun _ => some (sB "1.2")) (sB "xn--a") false = some ⟨.ipv4, sB "1.0.0.2"⟩ ∧
    HostNS.parseHostNS (fun _ => some (sB "1.256.3.4")) (sB "xn--a") false = false ∧
    Impl.parseHost (fun _ => some (sB "1.256.3.4")) (sB "xn--a") false = none ∧
    HostNS.parseHostNS (fun _ => some (sB "a/b")) (sB "xn--a") false = false ∧
    Impl.parseHost (fun _ => some (sB "a/b")) (sB "xn--a") false = none := by decide +kernel
/-- the same path with the identity IDNA stub, through the theorem -/
example : HostNS.parseHostNS stubB (sB "xn--a.%41b") false =
    (Impl.parseHost stubB (sB "xn--a.%41b") false).isSome := C09_host_ns_agree _ _ _

/-! ## 2. `can_parse` -/

/-- `Impl.canParse` with the explicit validate-only host parser in the host state (url.h:2014) and the
    file host state (url.h:2187) is `Impl.canParse` -/
theorem C09_canParse_ns :
    ∀ (idna : Idna) (e : Enc) (units : List Nat) (base : Option Url),
      HostNS.canParseNS' idna e units base = Impl.canParse idna e units base :=
  canParseNS_eq

/-- hence the fully explicit validate-only run agrees with `parse` -/
theorem C09_agree_ns :
    ∀ (idna : Idna) (e : Enc) (units : List Nat) (base : Option Url),
      HostNS.canParseNS' idna e units base = (Impl.parse idna e units base).isSome := by
  intro idna e units base
  rw [C09_canParse_ns]
  exact Upa.Proofs.C09.canParse_eq idna e units base

/-- the two blocks that call the host parser, for every input -/
theorem C09_host_blocks_ns :
    (∀ idna sp p, HostNS.hostStateNS' idna sp p = Impl.hostStateNS idna sp p) ∧
    (∀ idna sp p, HostNS.fileHostStateNS' idna sp p = Impl.fileHostStateNS idna sp p) :=
  ⟨hostStateNS_eq, fileHostStateNS_eq⟩

/-- evaluated: host state and file host state reached, both verdicts -/
example :
    HostNS.canParseNS' stubB .u8 (sB "http://u:p@EXAMPLE.com:80/p?q#f") none = true ∧
    HostNS.canParseNS' stubB .u8 (sB "http://[1::2::3]/") none = false ∧
    HostNS.canParseNS' stubB .u8 (sB "http://1.2.3.4.5/") none = false ∧
    HostNS.canParseNS' stubB .u8 (sB "file://LocalHost/c|/x") none = true ∧
    HostNS.canParseNS' stubB .u8 (sB "file://a^b/") none = false ∧
    HostNS.canParseNS' stubB .u8 (sB "x://a b/") none = false ∧
    HostNS.canParseNS' stubB .u8 (sB "x://a%1fb/") none = true ∧
    (Impl.parse stubB .u8 (sB "http://[1::2::3]/") none).isSome = false ∧
    (Impl.parse stubB .u8 (sB "x://a%1fb/") none).isSome = true := by decide +kernel

end Upa.Props

#print axioms Upa.Props.C09_host_ns_agree
#print axioms Upa.Props.C09_host_ns_callees
#print axioms Upa.Props.C09_canParse_ns
#print axioms Upa.Props.C09_agree_ns
#print axioms Upa.Props.C09_host_blocks_ns
