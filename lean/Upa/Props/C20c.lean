import Upa.Props.C20b
import Upa.Props.C05e
import Upa.Props.C05g
import Upa.Proofs.C20c
/-
  C20c - "every object involved can still be destroyed, copied, assigned to and RE-PARSED WITH CORRECT
  RESULTS" after ANY failure: a setter aborted by an exception (the half-edited objects of C20b,
  `failStates`), `url_search_params::update()` aborted, or a parse aborted.

  Model: `Upa/Impl/ParseRepExc.lean`.
    parseRepOn idna r e units base   `url::do_parse` (url.h:1439-1452) on an object whose RECORD MEMBERS
                                     are `r` - any `Rep` whatsoever: `new_url()`, then the parser of
                                     Impl/ParseRep.lean.  `parseRep` is `parseRepOn Rep.cleared`.
    Rep.newUrl                       `if (!url_.empty()) url_.clear();`  -  `empty()` is `norm_url_.empty()`
    doParseExc idna o e units base pre trace k
                                     the whole of `url::do_parse` on the object `o : ObjR` (raw members,
                                     VALID_FLAG, params object) under the schedule "the k-th throwing
                                     primitive fails", with the `catch (...) { reset_record(); throw; }`
                                     handler explicit (`doParseWith handler`); `trace` = the (arbitrary)
                                     representations the object passes at the throwing primitives
                                     of `url_parse`, `pre` = the throwing primitives before the `try`.

  1. `C20c_parse_ignores_state` as asked for - for EVERY `r` - is FALSE of the model, because `new_url`
     resets nothing when the string is empty: `C20c_newUrl_leak` (members with an empty string and
     left-over offsets / flags / segment count leak into the new url).  The strongest true variant is
     `C20c_parse_ignores_state_partial` (hypothesis added: `r.norm ≠ [] ∨ r = Rep.cleared`, which is
     EXACTLY `r.newUrl = Rep.cleared`: `C20c_newUrl_iff`).  Every state the operations modelled here
     can leave an object in satisfies it (`C20c_reachable_resettable`): a valid url, the reset record,
     every failure state of every setter and of `update()`, every state a failing `do_parse` leaves.
     So the C++ is not at fault, but it relies on "empty string ⇒ all members reset" as an invariant.
  2. `C20c_reparse_after_failed_setter`, `C20c_reparse_obj`.
  3. `C20c_assign_after_failure`, `C20c_assign_after_failure_raw`.
  4. `C20c_parse_failure_empty`, `C20c_parse_failure_classes`, `C20c_failed_parse_lockstep`,
     `C20c_after_parse_failure`, `C20c_catch_bites`, `C20c_doParse_refines`.
     FOUND while modelling, repaired by commit 46fa9a3: `parse_search_params()` stood AFTER the `try`
     (url.h:1461 then): a failure there left a VALID url with the new record whose params object still
     held what `new_url` left (the emptied list - or, for an object that was empty before, its old
     list).  The old order is kept as `doParseParamsOutsideTry`; `C20c_params_outside_try_bites` is the
     witness, `C20c_params_outside_try_same` says the two orders differ nowhere else.  In the library as
     it is now the call is inside the `try` (url.h:1454-1459): every exception from `new_url()` on leaves
     the empty url (two classes in `C20c_parse_failure_classes`), and no valid url is ever left with a
     parameter list that was not rebuilt from its query (`C20c_failed_parse_lockstep`).
  5. `C20c_nonvacuous`.

  Checked on the real library (/repo before commit 46fa9a3, g++ -O0, friend access through UPA_VERIF_HOOKS,
  counting `operator new`; program and output: /tmp/proofs/pc3/cpp/pc3demo.cpp, out.txt, out_ndebug.txt):
    * `C20c_newUrl_leak`: a default-constructed url whose members were set BY HAND (friend access) to
      `c20cLeakRep`, then `parse("a:b")` resp. `parse("a:/x")`: raw state exactly as the theorem says
      ([1,2,2,2,2,2,2,2,3,0,9], HOST flag on, segment count 3 resp. 4) with NDEBUG; with assertions on,
      `assert(url_.path_segment_count_ == 0)` of `save_path_string` (url.h:2731) fires for "a:b".
      No public operation produces such a state (`C20c_reachable_resettable`; it is what a moved-from url
      looked like before F1 was repaired).
    * `C20c_nonvacuous`: `hash(64 x 'v')` on a copy of http://h/p?q#old, n = 2, 3, 4: "http://h/p?q#vvv…",
      `part_end_[FRAGMENT] = 0`, flag on; `parse("s://x:1/y?z")` into it, copy assignment into it, copy
      construction from it: raw state equal to that of a fresh parse / of the source, for every n.
    * `C20c_params_outside_try_bites` (on /repo BEFORE commit 46fa9a3): http://h/?a=1 with a params object,
      `parse("http://h2/?x=1&y=2")`, n = 2, 3 (the list nodes of `parse_search_params`): valid, href
      "http://h2/?x=1&y=2", params list EMPTY.  On an empty url owning the list [a=b]: valid, same href,
      list still [a=b]; a following `search_params().append("c","d")` rewrites the url to
      "http://h2/?a=b&c=d".
-/
namespace Upa.Props
open Upa Upa.Impl Upa.Impl.FaultRep Upa.Proofs.C05 Upa.Proofs.SetRep Upa.Proofs.SetRepApi
  Upa.Proofs.SetRepExc Upa.Proofs.ObjRep Upa.Proofs.C20c
open Upa.Proofs.C02b (IdnaStable)

/-! ## 1. `do_parse` and the old state of the object -/

/-- `new_url()` resets the record members exactly when the string is non-empty or there is nothing
    to reset -/
theorem C20c_newUrl_iff : ∀ r : Rep, r.newUrl = Rep.cleared ↔ (r.norm ≠ [] ∨ r = Rep.cleared) :=
  newUrl_eq_cleared_iff

/-- (`C20c_parse_ignores_state` with the hypothesis `r.norm ≠ [] ∨ r = Rep.cleared` added; without it the
    statement is false: `C20c_newUrl_leak`.)  Parsing into an object whose record members are `r`
    gives, for every input and every base, exactly what parsing into a default-constructed object
    gives: nothing of `r` is read. -/
theorem C20c_parse_ignores_state_partial :
    ∀ (idna : Idna) (r : Rep), (r.norm ≠ [] ∨ r = Rep.cleared) →
    ∀ (e : Enc) (units : List Nat) (base : Option Rep),
      parseRepOn idna r e units base = parseRep idna e units base :=
  fun idna _ h e units base => parseRepOn_eq idna h e units base

example : (c20bExampleRep.norm ≠ [] ∨ c20bExampleRep = Rep.cleared) ∧
    (Rep.cleared.norm ≠ [] ∨ Rep.cleared = Rep.cleared) ∧
    parseRepOn c05dIdna c20bExampleRep .u8 (asciiStr "a:b") none = parseRep c05dIdna .u8 (asciiStr "a:b") none := by
  decide +kernel

/-- record members with an EMPTY string and left-overs: `part_end_[FRAGMENT] = 9`, the HOST flag and
    host type, a segment count -/
def c20cLeakRep : Rep :=
  { Rep.cleared with hostNotNull := true, hostType := 2, segCount := 3,
                     partEnd := [0, 0, 0, 0, 0, 0, 0, 0, 0, 0, 9] }

/-- the counterexample to the unconditional statement: `new_url()` does not touch `c20cLeakRep`, and
    the parser, which starts only the parts it meets, lets the left-overs through: after
    `parse("a:b")` the url has a non-null host flag, `part_end_[FRAGMENT] = 9` in a 3-unit string (offsets
    out of bounds: `hash()` would read 9 units), segment count 3; after `parse("a:/x")` segment count 4 -/
theorem C20c_newUrl_leak :
    c20cLeakRep.norm = [] ∧ c20cLeakRep ≠ Rep.cleared ∧ c20cLeakRep.newUrl = c20cLeakRep ∧
    parseRep c05dIdna .u8 (asciiStr "a:b") none =
      some { norm := asciiStr "a:b", partEnd := [1, 2, 2, 2, 2, 2, 2, 2, 3, 0, 0],
             hostNotNull := false, portNotNull := false, queryNotNull := false, fragmentNotNull := false,
             opaquePath := true, hostType := 0, segCount := 0, schemeIdx := none } ∧
    parseRepOn c05dIdna c20cLeakRep .u8 (asciiStr "a:b") none =
      some { norm := asciiStr "a:b", partEnd := [1, 2, 2, 2, 2, 2, 2, 2, 3, 0, 9],
             hostNotNull := true, portNotNull := false, queryNotNull := false, fragmentNotNull := false,
             opaquePath := true, hostType := 2, segCount := 3, schemeIdx := none } ∧
    (parseRepOn c05dIdna c20cLeakRep .u8 (asciiStr "a:b") none).map (fun r => decide (OffsetsOk r)) = some false ∧
    (parseRepOn c05dIdna c20cLeakRep .u8 (asciiStr "a:/x") none).map (·.segCount) = some 4 ∧
    (parseRep c05dIdna .u8 (asciiStr "a:/x") none).map (·.segCount) = some 1 := by
  decide +kernel

/-- the states an object is left in by the operations modelled: a representation of a record; the reset
    record (default-constructed, cleared, moved-from, failed parse); a failure state of a setter; a
    failure state of `url_search_params::update()`.  All of them are reset completely by `new_url()`. -/
theorem C20c_reachable_resettable :
    ∀ (idna : Idna) (u : Url) (r : Rep), RepOk u → RepFor r u →
    ∀ r' : Rep,
      (r' = r ∨ r' = Rep.cleared ∨ (∃ s e units, r' ∈ failStates idna s e units r) ∨
        (∃ l, r' ∈ updateFailStates r l)) →
      (r'.norm ≠ [] ∨ r' = Rep.cleared) ∧ r'.newUrl = Rep.cleared := by
  intro idna u r ok h r' hr'
  have key : r'.norm ≠ [] ∨ r' = Rep.cleared := by
    rcases hr' with rfl | rfl | ⟨s, e, units, hm⟩ | ⟨l, hm⟩
    · exact Or.inl (repFor_norm_ne ok.1 h)
    · exact Or.inr rfl
    · exact Or.inl (failStates_norm_ne idna s e units ok h r' hm)
    · exact Or.inl (updateFailStates_norm_ne ok h l r' hm)
  exact ⟨key, newUrl_resettable key⟩

/-- hence: parsing into any of them is parsing into a fresh object -/
theorem C20c_parse_ignores_reachable :
    ∀ (idna : Idna) (u : Url) (r : Rep), RepOk u → RepFor r u →
    ∀ r' : Rep,
      (r' = r ∨ r' = Rep.cleared ∨ (∃ s e units, r' ∈ failStates idna s e units r) ∨
        (∃ l, r' ∈ updateFailStates r l)) →
    ∀ (e : Enc) (units : List Nat) (base : Option Rep),
      parseRepOn idna r' e units base = parseRep idna e units base :=
  fun idna u r ok h r' hr' e units base =>
    parseRepOn_eq idna (C20c_reachable_resettable idna u r ok h r' hr').1 e units base

example : RepOk c05Full ∧ RepFor (layout c05Full) c05Full ∧
    (failStates c05dIdna .hash .u8 (asciiStr "ab") (layout c05Full)).length = 6 := by decide +kernel

/-- the object of `Impl/ObjRep.lean`: `RObj.parse` reads of the object only whether it is valid and
    whether it owns a params object; in particular two valid objects with ANY two representations
    (the second one half-edited, say) and any two params lists parse alike, … -/
theorem C20c_obj_parse_ignores_state :
    ∀ (idna : Idna) (r r' : Rep) (sp sp' : Option Params), sp.isSome = sp'.isSome →
    ∀ (e : Enc) (units : List Nat) (base : Option (Option Rep)),
      (⟨some r, sp⟩ : RObj).parse idna e units base = (⟨some r', sp'⟩ : RObj).parse idna e units base := by
  intro idna r r' sp sp' hsp e units base
  cases sp <;> cases sp' <;> first | rfl | cases hsp

/-- … and the record of the result, and the returned value, are those of a default-constructed object -/
theorem C20c_obj_parse_fresh :
    ∀ (idna : Idna) (o : RObj) (e : Enc) (units : List Nat) (base : Option (Option Rep)),
      (o.parse idna e units base).1.rep = (({} : RObj).parse idna e units base).1.rep ∧
      (o.parse idna e units base).2 = (({} : RObj).parse idna e units base).2 := by
  intro idna o e units base
  unfold RObj.parse
  cases base with
  | none =>
    simp only [Option.bind]
    cases hp : parseRep idna e units none <;> simp [RObj.reparseParams] <;> split <;> simp
  | some b =>
    cases b with
    | none => simp
    | some rb =>
      simp only [Option.bind, id]
      cases hp : parseRep idna e units (some rb) <;> simp [RObj.reparseParams] <;> split <;> simp

/-! ## 2. re-parse after a failed setter -/

/-- For every representation `r` of a record `u` (`RepOk u`), every setter call and every failure point:
    parsing ANY input - without a base, or against any representation `rb` of a base record `b` - into
    the object the failure left behind (`r' ∈ failStates …`) yields the representation a fresh object
    gets (`parseRep`); it succeeds exactly when the record-level parser `Impl.parse` succeeds, and the
    result is a representation of the record `Impl.parse` computes (C05e).  Hypotheses on `b`: those
    of `C05e_parse_base`. -/
theorem C20c_reparse_after_failed_setter :
    ∀ (idna : Idna) (s : Setter) (e : Enc) (units : List Nat) (u : Url) (r : Rep),
      RepOk u → RepFor r u → ∀ r' ∈ failStates idna s e units r,
      ∀ (e' : Enc) (units' : List Nat),
        (parseRepOn idna r' e' units' none = parseRep idna e' units' none ∧
         (parseRepOn idna r' e' units' none).isSome = (parse idna e' units' none).isSome ∧
         ∀ rr u', parseRepOn idna r' e' units' none = some rr → parse idna e' units' none = some u' →
           RepFor rr u') ∧
        ∀ (b : Url) (rb : Rep), RepOk b → HostInv b → RecShape b → (b.isFile = true → b.port = none) →
          RepFor rb b →
          parseRepOn idna r' e' units' (some rb) = parseRep idna e' units' (some rb) ∧
          (parseRepOn idna r' e' units' (some rb)).isSome = (parse idna e' units' (some b)).isSome ∧
          ∀ rr u', parseRepOn idna r' e' units' (some rb) = some rr → parse idna e' units' (some b) = some u' →
            RepFor rr u' := by
  intro idna s e units u r ok h r' hr' e' units'
  have hres : Resettable r' := Or.inl (failStates_norm_ne idna s e units ok h r' hr')
  refine ⟨?_, ?_⟩
  · have h0 := parseRepOn_eq idna hres e' units' none
    obtain ⟨h1, h2⟩ := C05e_parse_nobase idna e' units'
    refine ⟨h0, by rw [h0]; exact h1, fun rr u' hrr hu' => ?_⟩
    rw [h0] at hrr
    exact (h2 rr u' hrr hu').1
  · intro b rb okb hib shb fpb hb
    have h0 := parseRepOn_eq idna hres e' units' (some rb)
    obtain ⟨h1, h2⟩ := C05e_parse_base idna e' units' b rb okb hib shb fpb hb
    refine ⟨h0, by rw [h0]; exact h1, fun rr u' hrr hu' => ?_⟩
    rw [h0] at hrr
    exact (h2 rr u' hrr hu').1

/-- the same for `url_search_params::update()` aborted by an exception -/
theorem C20c_reparse_after_failed_update :
    ∀ (idna : Idna) (u : Url) (r : Rep) (l : List BPair), RepOk u → RepFor r u →
      ∀ r' ∈ updateFailStates r l, ∀ (e' : Enc) (units' : List Nat) (base : Option Rep),
        parseRepOn idna r' e' units' base = parseRep idna e' units' base :=
  fun idna _ _ l ok h r' hr' e' units' base =>
    parseRepOn_eq idna (Or.inl (updateFailStates_norm_ne ok h l r' hr')) e' units' base

/-- On objects.  `⟨some r, sp⟩` is related (`Sim`, C05g) to the record-level object `o`; a setter call on
    it is aborted and leaves `r'` (and the params object in whatever state, `sp'`).  Parsing into the
    post-failure object - raw members `r'`, VALID_FLAG still set - with `do_parse` (no failure this
    time) is `RObj.parse` on the ORIGINAL object, and therefore related to the record-level parse:
    without a base, or with another related object as base. -/
theorem C20c_reparse_obj :
    ∀ (idna : Idna), IdnaStable idna →
    ∀ (s : Setter) (e : Enc) (units : List Nat) (u : Url) (r : Rep) (sp sp' : Option Params) (o : UrlObj)
      (rs : RObj) (ob : UrlObj),
      RepOk u → RepFor r u → Sim idna ⟨some r, sp⟩ o → Sim idna rs ob → sp'.isSome = sp.isSome →
      ∀ r' ∈ failStates idna s e units r,
      ∀ (e' : Enc) (units' : List Nat) (pre : Nat) (trace : List Rep),
        let post : ObjR := { rep := r', valid := true, sp := sp' }
        post.Wf ∧
        (doParseExc idna post e' units' none pre trace none).1.toRObj =
          ((⟨some r, sp⟩ : RObj).parse idna e' units' none).1 ∧
        Sim idna (doParseExc idna post e' units' none pre trace none).1.toRObj (o.parse idna e' units' none).1 ∧
        (doParseExc idna post e' units' none pre trace none).2 = .returned (o.parse idna e' units' none).2 ∧
        Sim idna (doParseExc idna post e' units' (some rs.rep) pre trace none).1.toRObj
          (o.parse idna e' units' (some ob.url)).1 ∧
        (doParseExc idna post e' units' (some rs.rep) pre trace none).2 =
          .returned (o.parse idna e' units' (some ob.url)).2 := by
  intro idna hi s e units u r sp sp' o rs ob ok h hsim hsb hsp r' hr' e' units' pre trace
  have hne := failStates_norm_ne idna s e units ok h r' hr'
  have hw : ({ rep := r', valid := true, sp := sp' } : ObjR).Wf := ⟨fun _ => hne, fun hc => by cases hc⟩
  have hto : ({ rep := r', valid := true, sp := sp' } : ObjR).toRObj = ⟨some r', sp'⟩ := rfl
  obtain ⟨p1, p2, _⟩ := C05g_ops idna hi ⟨some r, sp⟩ rs o ob hsim hsb
  have a1 := doParse_refines idna _ hw e' units' none pre trace
  have a2 := doParse_refines idna _ hw e' units' (some rs.rep) pre trace
  rw [hto, C20c_obj_parse_ignores_state idna r' r sp' sp hsp] at a1 a2
  refine ⟨hw, a1.1, ?_, ?_, ?_, ?_⟩
  · rw [a1.1]; exact (p1 e' units').1
  · rw [a1.2, (p1 e' units').2]
  · rw [a2.1]; exact (p2 e' units').1
  · rw [a2.2, (p2 e' units').2]

open Upa.Proofs.C02b (sampleIdna_stable) in
open Upa.Proofs.C08 (sampleIdna) in
/-- the hypotheses of `C20c_reparse_obj` on http://example.org/ owning no params object, the base
    being s://h with an (empty) params object -/
example : IdnaStable sampleIdna ∧ RepOk c20bExample ∧ RepFor c20bExampleRep c20bExample ∧
    Sim sampleIdna ⟨some c20bExampleRep, none⟩ ⟨some c20bExample, none⟩ ∧
    Sim sampleIdna ⟨some c05bHostOnlyRep, some { list := [], isSorted := true }⟩
      ⟨some c05bHostOnly, some { list := [], isSorted := true }⟩ ∧
    (failStates sampleIdna .hash .u8 (asciiStr "ab") c20bExampleRep).length = 6 :=
  ⟨sampleIdna_stable, by decide +kernel, by decide +kernel, by decide +kernel, by decide +kernel, by decide +kernel⟩

/-! ## 3. assignment and copy after a failure -/

/-- `Impl/ObjRep.lean`: assigning INTO an object reads of it only whether it owns a params object - not
    its representation `r'` (half-edited or not), not the content of the params.  The destination gets
    the source's representation.  COPYING an object with representation `r'` gives an object with
    representation `r'`. -/
theorem C20c_assign_after_failure :
    ∀ (r' : Rep) (sp : Option Params) (src : RObj),
      -- copy assignment, move assignment, safe_assign INTO ⟨some r', sp⟩
      (rCopyAssign ⟨some r', sp⟩ src).rep = src.rep ∧
      (∀ (x : Option Rep) (sp₂ : Option Params), sp₂.isSome = sp.isSome →
        rCopyAssign ⟨some r', sp⟩ src = rCopyAssign ⟨x, sp₂⟩ src) ∧
      (rMoveAssign src).1 = src ∧
      (rSafeAssign ⟨some r', sp⟩ src).1.rep = src.rep ∧
      (∀ (x : Option Rep) (sp₂ : Option Params), sp₂.isSome = sp.isSome →
        rSafeAssign ⟨some r', sp⟩ src = rSafeAssign ⟨x, sp₂⟩ src) ∧
      -- copies OF ⟨some r', sp⟩
      (rCopyConstruct ⟨some r', sp⟩).rep = some r' ∧
      (∀ dst : RObj, (rCopyAssign dst ⟨some r', sp⟩).rep = some r') ∧
      (rMoveAssign ⟨some r', sp⟩).1.rep = some r' ∧
      (∀ dst : RObj, (rSafeAssign dst ⟨some r', sp⟩).1.rep = some r') := by
  intro r' sp src
  refine ⟨?_, ?_, rfl, ?_, ?_, rfl, ?_, rfl, ?_⟩
  · unfold rCopyAssign; cases sp <;> cases src.sp <;> simp [RObj.reparseParams]
  · intro x sp₂ h; unfold rCopyAssign
    cases sp <;> cases sp₂ <;> first | (cases src.sp <;> rfl) | cases h
  · unfold rSafeAssign; cases sp <;> cases src.sp <;> rfl
  · intro x sp₂ h; unfold rSafeAssign
    cases sp <;> cases sp₂ <;> first | (cases src.sp <;> rfl) | cases h
  · intro dst; unfold rCopyAssign; cases dst.sp <;> cases sp <;> simp [RObj.reparseParams]
  · intro dst; unfold rSafeAssign; cases dst.sp <;> cases sp <;> rfl

/-- the same on the raw members (`ObjR`: the record members are there whatever VALID_FLAG says): all
    members of the source are taken, nothing of the destination but the ownership of a params object is
    read; and on the states `RObj` stands for (`ObjR.Wf`) the raw operations ARE the `RObj` ones -/
theorem C20c_assign_after_failure_raw :
    ∀ (dst src : ObjR),
      ((dst.copyAssign src).rep = src.rep ∧ (dst.copyAssign src).valid = src.valid) ∧
      ((ObjR.moveAssign src).1 = src ∧ (ObjR.moveAssign src).2.rep = Rep.cleared) ∧
      ((dst.safeAssign src).1.rep = src.rep ∧ (dst.safeAssign src).1.valid = src.valid ∧
        (dst.safeAssign src).2.rep = Rep.cleared ∧ (dst.safeAssign src).2.valid = false) ∧
      ((ObjR.copyConstruct src).rep = src.rep ∧ (ObjR.copyConstruct src).valid = src.valid) ∧
      (src.Wf →
        (dst.copyAssign src).toRObj = rCopyAssign dst.toRObj src.toRObj ∧
        (ObjR.copyConstruct src).toRObj = rCopyConstruct src.toRObj ∧
        ((ObjR.moveAssign src).1.toRObj, (ObjR.moveAssign src).2.toRObj) = rMoveAssign src.toRObj ∧
        ((dst.safeAssign src).1.toRObj, (dst.safeAssign src).2.toRObj) = rSafeAssign dst.toRObj src.toRObj) := by
  intro dst src
  refine ⟨⟨rfl, rfl⟩, ⟨rfl, rfl⟩, ⟨rfl, rfl, rfl, rfl⟩, ⟨rfl, rfl⟩, ?_⟩
  intro hw
  obtain ⟨srep, svalid, ssp⟩ := src
  obtain ⟨drep, dvalid, dsp⟩ := dst
  cases svalid with
  | true =>
    refine ⟨?_, rfl, rfl, ?_⟩
    · unfold ObjR.copyAssign ObjR.toRObj rCopyAssign
      cases dsp <;> cases ssp <;> simp [RObj.reparseParams, rQueryView]
    · unfold ObjR.safeAssign ObjR.toRObj rSafeAssign
      cases dsp <;> cases ssp <;> simp [rQueryView]
  | false =>
    have hc : srep = Rep.cleared := hw.2 rfl
    subst hc
    refine ⟨?_, rfl, rfl, ?_⟩
    · unfold ObjR.copyAssign ObjR.toRObj rCopyAssign
      cases dsp <;> cases ssp <;> simp [RObj.reparseParams, rQueryView, cleared_partView]
    · unfold ObjR.safeAssign ObjR.toRObj rSafeAssign
      cases dsp <;> cases ssp <;> simp [rQueryView, cleared_partView]

/-! ## 4. the parse itself aborted by an exception -/

/-- what "the empty url" means for the getters of `Impl/Rep.lean` -/
def GettersEmpty (r : Rep) : Prop :=
  r.href = [] ∧ r.protocol = [] ∧ r.username = [] ∧ r.password = [] ∧ r.host = [] ∧ r.hostname = [] ∧
  r.port = [] ∧ r.pathname = [] ∧ r.path = [] ∧ r.search = [] ∧ r.hash = [] ∧
  r.serializeNoFragment = [] ∧ ∀ t, r.partView t = []

theorem C20c_empty_url_getters : GettersEmpty Rep.cleared :=
  ⟨by decide, by decide, by decide, by decide, by decide, by decide, by decide, by decide, by decide,
   by decide, by decide, by decide, cleared_partView⟩

/-- A failure at ANY throwing primitive inside the `try` block of `do_parse` - a primitive of `url_parse`
    (`k < pre + trace.length`), or `parse_search_params()` after a successful parse of an object that
    owns a params object (`k = pre + trace.length`; inside the `try` since commit 46fa9a3) - whatever
    object `o` the call started on, whatever half-built representations `trace` the parser passes,
    the base being a valid object or absent: the exception propagates and the object is the EMPTY url:
    all record members reset, `is_valid() = false`, every getter returns the empty view; the params
    object is as `new_url()` left it. -/
theorem C20c_parse_failure_empty :
    ∀ (idna : Idna) (o : ObjR) (e : Enc) (units : List Nat) (base : Option (Option Rep)) (pre : Nat)
      (trace : List Rep) (k : Nat), base ≠ some none → pre ≤ k →
      (k < pre + trace.length ∨
        (k = pre + trace.length ∧ (parseRepOn idna o.rep e units (base.bind id)).isSome = true ∧
          o.newUrl.sp.isSome = true)) →
      ∃ o', doParseExc idna o e units base pre trace (some k) = (o', .threw) ∧
        o' = { rep := Rep.cleared, valid := false, sp := o.newUrl.sp } ∧
        o'.valid = false ∧ GettersEmpty o'.rep ∧ o'.Wf ∧ o'.toRObj = ⟨none, o.newUrl.sp⟩ := by
  intro idna o e units base pre trace k hb h1 h2
  have rest : ∀ o' : ObjR, o' = { rep := Rep.cleared, valid := false, sp := o.newUrl.sp } →
      o' = { rep := Rep.cleared, valid := false, sp := o.newUrl.sp } ∧
      o'.valid = false ∧ GettersEmpty o'.rep ∧ o'.Wf ∧ o'.toRObj = ⟨none, o.newUrl.sp⟩ := by
    intro o' ho'
    subst ho'
    exact ⟨rfl, rfl, C20c_empty_url_getters, ⟨fun hc => (by cases hc), fun _ => rfl⟩, rfl⟩
  rcases h2 with h2 | ⟨h2, h3, h4⟩
  · exact ⟨_, doParseWith_inside ObjR.resetRecord ObjR.resetRecord idna o e units hb pre trace k h1 h2, rest _ rfl⟩
  · cases hp : parseRepOn idna o.rep e units (base.bind id) with
    | none => rw [hp] at h3; cases h3
    | some r' =>
      subst h2
      exact ⟨_, doParseWith_params ObjR.resetRecord ObjR.resetRecord idna o e units hb pre trace r' hp h4, rest _ rfl⟩

/-- ALL the ways `do_parse` can end in an exception, for every schedule - TWO since commit 46fa9a3:
    (i)   before the `try` (copy of a base / an input that is the object itself): the object is untouched;
    (ii)  anywhere inside the `try`, `parse_search_params()` included: the empty url, as above. -/
theorem C20c_parse_failure_classes :
    ∀ (idna : Idna) (o : ObjR) (e : Enc) (units : List Nat) (base : Option (Option Rep)) (pre : Nat)
      (trace : List Rep) (k : Option Nat) (o' : ObjR),
      doParseExc idna o e units base pre trace k = (o', .threw) →
      o' = o ∨
      (o' = { rep := Rep.cleared, valid := false, sp := o.newUrl.sp } ∧ GettersEmpty o'.rep) := by
  intro idna o e units base pre trace k o' h
  rcases doParseWith_cases _ _ idna o e units base pre trace k o' _ h with
    ⟨h1, _⟩ | ⟨half, _, h1, _⟩ | ⟨r', _, _, h1, _⟩ | ⟨_, _, _, h1⟩ | ⟨_, _, h1⟩
  · exact Or.inl h1
  · right; rw [h1]; exact ⟨rfl, C20c_empty_url_getters⟩
  · right; rw [h1]; exact ⟨rfl, C20c_empty_url_getters⟩
  · cases h1
  · cases h1

/-- Lock-step after a failed parse (C06 meets C20).  Whatever the schedule and however the call ends:
    * an exception leaves the object untouched or leaves the EMPTY (invalid) url;
    * an object that is valid afterwards is either the untouched one, or `do_parse` RETURNED ok and the
      params object (if any) was rebuilt from the QUERY part of the new record.
    So no valid url is ever left with a parameter list that was not rebuilt from its query. -/
theorem C20c_failed_parse_lockstep :
    ∀ (idna : Idna) (o : ObjR) (e : Enc) (units : List Nat) (base : Option (Option Rep)) (pre : Nat)
      (trace : List Rep) (k : Option Nat) (o' : ObjR) (en : ParseEnd),
      doParseExc idna o e units base pre trace k = (o', en) →
      (en = .threw → o' = o ∨ (o'.rep = Rep.cleared ∧ o'.valid = false ∧ o'.sp = o.newUrl.sp)) ∧
      (o'.valid = true → (o' = o ∧ en = .threw) ∨
        (en = .returned true ∧
          ∀ p, o'.sp = some p → p.list = formParse false (o'.rep.partView QUERY) ∧ p.isSorted = false)) := by
  intro idna o e units base pre trace k o' en h
  rcases doParseWith_cases _ _ idna o e units base pre trace k o' en h with
    ⟨h1, h2⟩ | ⟨half, _, h1, h2⟩ | ⟨r', _, _, h1, h2⟩ | ⟨r', _, h1, h2⟩ | ⟨_, h1, h2⟩
  · exact ⟨fun _ => Or.inl h1, fun _ => Or.inl ⟨h1, h2⟩⟩
  · subst h1; exact ⟨fun _ => Or.inr ⟨rfl, rfl, rfl⟩, fun hv => (by cases hv)⟩
  · subst h1; exact ⟨fun _ => Or.inr ⟨rfl, rfl, rfl⟩, fun hv => (by cases hv)⟩
  · subst h1 h2
    refine ⟨fun hc => (by cases hc), fun _ => Or.inr ⟨rfl, ?_⟩⟩
    intro p hp
    simp only at hp
    unfold parseSp at hp
    split at hp
    · cases hp; exact ⟨rfl, rfl⟩
    · cases hp
  · subst h1 h2; exact ⟨fun hc => (by cases hc), fun hv => (by cases hv)⟩

/-- http://example.org/ (C20b) being re-parsed from "http://us…": the object as it is when the user
    name is being appended - "http://us", `part_end_` = [4, 7, 0, …] -/
def c20cHalf : Rep := (((Ser.new.writeScheme (asciiStr "http")).startPart USERNAME).append (asciiStr "us")).rep

/-- the same as a statement about the list `parseFailStates` -/
theorem C20c_parseFailStates :
    ∀ (idna : Idna) (o : ObjR) (e : Enc) (units : List Nat) (base : Option (Option Rep)) (pre : Nat)
      (trace : List Rep), ∀ o' ∈ parseFailStates idna o e units base pre trace,
      o' = o ∨ o' = { rep := Rep.cleared, valid := false, sp := o.newUrl.sp } := by
  intro idna o e units base pre trace o' ho'
  unfold parseFailStates at ho'
  obtain ⟨k, _, hk⟩ := List.mem_filterMap.mp ho'
  split at hk
  · rename_i o'' heq
    cases hk
    rcases C20c_parse_failure_classes idna o e units base pre trace (some k) _ heq with h | ⟨h, _⟩
    · exact Or.inl h
    · exact Or.inr h
  · cases hk

example :
    parseFailStates c05dIdna ⟨c20bExampleRep, true, none⟩ .u8 (asciiStr "http://user@h/") none 1
      [Rep.cleared, c20cHalf] =
      [⟨c20bExampleRep, true, none⟩, ⟨Rep.cleared, false, none⟩, ⟨Rep.cleared, false, none⟩] := by
  decide +kernel

/-- … and when it RETURNS an error (the parser rejected the input, or the base object is invalid) the
    object is the empty url too (F13) -/
theorem C20c_parse_error_empty :
    ∀ (idna : Idna) (o : ObjR) (e : Enc) (units : List Nat) (base : Option (Option Rep)) (pre : Nat)
      (trace : List Rep) (o' : ObjR),
      doParseExc idna o e units base pre trace none = (o', .returned false) →
      o' = { rep := Rep.cleared, valid := false, sp := o.newUrl.sp } := by
  intro idna o e units base pre trace o' h
  rcases doParseWith_cases _ _ idna o e units base pre trace none o' _ h with
    ⟨_, h1⟩ | ⟨_, _, _, h1⟩ | ⟨_, _, _, _, h1⟩ | ⟨_, _, _, h1⟩ | ⟨_, h1, _⟩
  · cases h1
  · cases h1
  · cases h1
  · cases h1
  · exact h1

/-- 1-3 apply to whatever a failing `do_parse` leaves, provided the object it started on was one of the
    states `RObj` stands for (`o.Wf`; e.g. a valid url, an empty one, a post-failure object of 2):
    the object left behind is again such a state and `new_url()` resets it completely, so the next
    parse (`doParseExc … none`) is `RObj.parse`: the parse of a fresh object.  (Since `parse_search_params()`
    is inside the `try` no hypothesis on the result of the aborted parse is needed any more.) -/
theorem C20c_after_parse_failure :
    ∀ (idna : Idna) (o : ObjR) (e : Enc) (units : List Nat) (base : Option (Option Rep)) (pre : Nat)
      (trace : List Rep) (k : Option Nat) (o' : ObjR), o.Wf →
      doParseExc idna o e units base pre trace k = (o', .threw) →
      o'.Wf ∧ o'.rep.newUrl = Rep.cleared ∧
      (∀ (e' : Enc) (units' : List Nat) (base' : Option Rep),
        parseRepOn idna o'.rep e' units' base' = parseRep idna e' units' base') ∧
      (∀ (e' : Enc) (units' : List Nat) (base' : Option (Option Rep)) (pre' : Nat) (trace' : List Rep),
        (doParseExc idna o' e' units' base' pre' trace' none).1.toRObj = (o'.toRObj.parse idna e' units' base').1 ∧
        (doParseExc idna o' e' units' base' pre' trace' none).1.toRObj.rep =
          (({} : RObj).parse idna e' units' base').1.rep) := by
  intro idna o e units base pre trace k o' hw h
  have hwf : o'.Wf := by
    rcases C20c_parse_failure_classes idna o e units base pre trace k o' h with h1 | ⟨h1, _⟩
    · rw [h1]; exact hw
    · rw [h1]; exact ⟨fun hc => (by cases hc), fun _ => rfl⟩
  have hr := wf_resettable hwf
  refine ⟨hwf, newUrl_resettable hr, fun e' units' base' => parseRepOn_eq idna hr e' units' base', ?_⟩
  intro e' units' base' pre' trace'
  have a := doParse_refines idna o' hwf e' units' base' pre' trace'
  exact ⟨a.1, by rw [a.1]; exact (C20c_obj_parse_fresh idna _ e' units' base').1⟩

/-- (was the side condition of `C20c_after_parse_failure` while `parse_search_params()` stood outside the
    `try`; kept: it is what makes a SUCCESSFULLY parsed object a state `new_url()` resets.)  By C05e, without
    a base or against a representation of a base record, a parse result has a non-empty string -/
theorem C20c_result_nonempty :
    ∀ (idna : Idna), IdnaStable idna → ∀ (e : Enc) (units : List Nat),
      (∀ r', parseRep idna e units none = some r' → r'.norm ≠ []) ∧
      (∀ (b : Url) (rb : Rep), Norm idna b → RepFor rb b →
        ∀ r', parseRep idna e units (some rb) = some r' → r'.norm ≠ []) := by
  intro idna hi e units
  constructor
  · intro r' hr'
    obtain ⟨u', hu', hf⟩ := (C05e_parse_nobase_iff idna e units).1 r' hr'
    exact repFor_norm_ne (C05e_parse_repok idna hi e units none u' (Or.inl rfl) hu').1.1 hf
  · intro b rb hn hb r' hr'
    obtain ⟨k1, k2, k3, k4⟩ := C05e_norm_base idna b hn
    obtain ⟨h1, h2⟩ := C05e_parse_base idna e units b rb k1 k2 k3 k4 hb
    rw [hr'] at h1
    cases hp : parse idna e units (some b) with
    | none => rw [hp] at h1; cases h1
    | some u' =>
      have hf := (h2 r' u' hr' hp).1
      exact repFor_norm_ne (C05e_parse_repok idna hi e units (some b) u' (Or.inr ⟨b, rfl, hn⟩) hp).1.1 hf

/-- the handler bites (F15): the same failure WITHOUT the `catch (...)` block leaves the half-built
    url - invalid, but with a non-empty string and getters that return text; with the handler the
    empty url.  The next parse repairs either (the string is non-empty: `new_url` clears). -/
theorem C20c_catch_bites :
    let o : ObjR := { rep := c20bExampleRep, valid := true, sp := none }
    let inp := asciiStr "http://user@h/"
    c20cHalf.norm = asciiStr "http://us" ∧ c20cHalf.partEnd = [4, 7, 0, 0, 0, 0, 0, 0, 0, 0, 0] ∧
    doParseNoCatch c05dIdna o .u8 inp none 0 [Rep.cleared, c20cHalf] (some 1) =
      ({ rep := c20cHalf, valid := false, sp := none }, .threw) ∧
    ¬ ({ rep := c20cHalf, valid := false, sp := none } : ObjR).Wf ∧
    c20cHalf.href = asciiStr "http://us" ∧ c20cHalf.protocol = asciiStr "http:" ∧
    doParseExc c05dIdna o .u8 inp none 0 [Rep.cleared, c20cHalf] (some 1) =
      ({ rep := Rep.cleared, valid := false, sp := none }, .threw) ∧
    (doParseExc c05dIdna o .u8 inp none 0 [Rep.cleared, c20cHalf] none).2 = .returned true ∧
    (doParseExc c05dIdna o .u8 inp none 0 [Rep.cleared, c20cHalf] none).1.rep.norm = asciiStr "http://user@h/" ∧
    parseRepOn c05dIdna c20cHalf .u8 inp none = parseRep c05dIdna .u8 inp none := by
  decide +kernel

/-- The order bites (the finding repaired by commit 46fa9a3), on the OLD model `doParseParamsOutsideTry`
    (`parse_search_params()` after the handler): http://example.org/?a=1 owning a params object is
    re-parsed from "http://b/?y=2"; 2 throwing primitives in the parser, the 3rd is `parse_search_params()`.
    When it fails the OLD code leaves a VALID url that reads "http://b/?y=2" whose params list is the EMPTY
    list `clear()` left (not the parse of "y=2"): url and params out of step.  The library (`doParseExc`)
    leaves the empty url under the same schedule; both agree on every other schedule shown (an earlier
    failure: the empty url; no failure: the list refilled from the new query). -/
theorem C20c_params_outside_try_bites :
    let r0 : Rep := { c20bExampleRep with norm := asciiStr "http://example.org/?a=1",
                                          partEnd := [4, 7, 7, 7, 7, 18, 18, 18, 19, 23, 0], queryNotNull := true }
    let o : ObjR := { rep := r0, valid := true, sp := some { list := [(asciiStr "a", asciiStr "1")], isSorted := false } }
    let inp := asciiStr "http://b/?y=2"
    let tr := [Rep.cleared, Rep.cleared]
    (∃ r', parseRep c05dIdna .u8 inp none = some r' ∧ r'.norm = inp ∧ r'.partView QUERY = asciiStr "y=2" ∧
      doParseParamsOutsideTry c05dIdna o .u8 inp none 0 tr (some 2) =
        ({ rep := r', valid := true, sp := some { list := [], isSorted := true } }, .threw) ∧
      (doParseExc c05dIdna o .u8 inp none 0 tr none).2 = .returned true ∧
      (doParseExc c05dIdna o .u8 inp none 0 tr none).1.rep = r' ∧
      (doParseExc c05dIdna o .u8 inp none 0 tr none).1.sp =
        some { list := formParse false (r'.partView QUERY), isSorted := false } ∧
      doParseParamsOutsideTry c05dIdna o .u8 inp none 0 tr none = doParseExc c05dIdna o .u8 inp none 0 tr none) ∧
    doParseExc c05dIdna o .u8 inp none 0 tr (some 2) =
      ({ rep := Rep.cleared, valid := false, sp := some { list := [], isSorted := true } }, .threw) ∧
    doParseExc c05dIdna o .u8 inp none 0 tr (some 1) =
      ({ rep := Rep.cleared, valid := false, sp := some { list := [], isSorted := true } }, .threw) ∧
    doParseParamsOutsideTry c05dIdna o .u8 inp none 0 tr (some 1) =
      doParseExc c05dIdna o .u8 inp none 0 tr (some 1) := by
  refine ⟨⟨_, rfl, by decide +kernel, by decide +kernel, by decide +kernel, by decide +kernel, by decide +kernel,
    rfl, rfl⟩, by decide +kernel, by decide +kernel, by decide +kernel⟩

/-- … and the two models differ ONLY there: without a failing `parse_search_params()` the old order and
    the new one are the same function -/
theorem C20c_params_outside_try_same :
    ∀ (idna : Idna) (o : ObjR) (e : Enc) (units : List Nat) (base : Option (Option Rep)) (pre : Nat)
      (trace : List Rep),
      doParseParamsOutsideTry idna o e units base pre trace none = doParseExc idna o e units base pre trace none ∧
      ∀ k, k < pre + (tryBodyT idna o.rep e units base trace).pts.length →
        doParseParamsOutsideTry idna o e units base pre trace (some k) =
          doParseExc idna o e units base pre trace (some k) := by
  intro idna o e units base pre trace
  refine ⟨?_, ?_⟩
  · unfold doParseParamsOutsideTry doParseExc doParseWith parseFinish
    simp
  · intro k hk
    unfold doParseParamsOutsideTry doParseExc doParseWith
    simp only
    by_cases h1 : k < pre
    · rw [if_pos h1, if_pos h1]
    · rw [if_neg h1, if_neg h1, run_lt _ _ (by omega)]

/-- without a failure `doParseExc` is the `RObj.parse` of `Impl/ObjRep.lean` (the function the
    correspondence driver replays against the real library), on every state `RObj` stands for -/
theorem C20c_doParse_refines :
    ∀ (idna : Idna) (o : ObjR), o.Wf →
    ∀ (e : Enc) (units : List Nat) (base : Option (Option Rep)) (pre : Nat) (trace : List Rep),
      (doParseExc idna o e units base pre trace none).1.toRObj = (o.toRObj.parse idna e units base).1 ∧
      (doParseExc idna o e units base pre trace none).2 = .returned (o.toRObj.parse idna e units base).2 :=
  fun idna o hw e units base pre trace => doParse_refines idna o hw e units base pre trace

/-! ## 5. not vacuous -/

/-- `hash("ab")` on http://h/p?q#old (C20b): the 6th throwing primitive fails - the object reads
    "http://h/p?q#a", `part_end_[FRAGMENT] = 0`, FRAGMENT flag on: neither the old url (…#old) nor the
    new one (…#ab).  Parsing "s://x:1/y?z" into it gives exactly the fresh parse, whose raw
    representation is evaluated; so does parsing "../r" against a base; an unparsable input fails as on a
    fresh object; and on the object level the result is the empty-record / fresh result. -/
theorem C20c_nonvacuous :
    let r := layout { scheme := asciiStr "http", host := some ⟨.domain, asciiStr "h"⟩, path := [asciiStr "p"],
                      query := some (asciiStr "q"), fragment := some (asciiStr "old") }
    let half : Rep := { r with norm := asciiStr "http://h/p?q#a", partEnd := [4, 7, 7, 7, 7, 8, 8, 8, 10, 12, 0] }
    let new : Rep := { r with norm := asciiStr "http://h/p?q#ab", partEnd := [4, 7, 7, 7, 7, 8, 8, 8, 10, 12, 15] }
    r.norm = asciiStr "http://h/p?q#old" ∧
    (failStates c05dIdna .hash .u8 (asciiStr "ab") r)[5]? = some half ∧
    (setRepX c05dIdna .hash .u8 (asciiStr "ab") r (some 5)).1 = .threw half ∧
    (setRepX c05dIdna .hash .u8 (asciiStr "ab") r none).1 = .done new ∧
    half ≠ r ∧ half ≠ new ∧ half.fragmentNotNull = true ∧ half.pe FRAGMENT = 0 ∧
    parseRepOn c05dIdna half .u8 (asciiStr "s://x:1/y?z") none =
      some { norm := asciiStr "s://x:1/y?z", partEnd := [1, 4, 4, 4, 4, 5, 7, 7, 9, 11, 0],
             hostNotNull := true, portNotNull := true, queryNotNull := true, fragmentNotNull := false,
             opaquePath := false, hostType := 1, segCount := 1, schemeIdx := none } ∧
    parseRepOn c05dIdna half .u8 (asciiStr "s://x:1/y?z") none = parseRep c05dIdna .u8 (asciiStr "s://x:1/y?z") none ∧
    (parseRepOn c05dIdna half .u8 (asciiStr "../r") (some r)).map (·.norm) = some (asciiStr "http://h/r") ∧
    parseRepOn c05dIdna half .u8 (asciiStr "//") none = none ∧
    (doParseExc c05dIdna ⟨half, true, none⟩ .u8 (asciiStr "s://x:1/y?z") none 0 [] none).1.rep.norm =
      asciiStr "s://x:1/y?z" ∧
    doParseExc c05dIdna ⟨half, true, none⟩ .u8 (asciiStr "//") none 0 [] none =
      (⟨Rep.cleared, false, none⟩, .returned false) := by
  decide +kernel

end Upa.Props

#print axioms Upa.Props.C20c_newUrl_iff
#print axioms Upa.Props.C20c_parse_ignores_state_partial
#print axioms Upa.Props.C20c_newUrl_leak
#print axioms Upa.Props.C20c_reachable_resettable
#print axioms Upa.Props.C20c_parse_ignores_reachable
#print axioms Upa.Props.C20c_obj_parse_ignores_state
#print axioms Upa.Props.C20c_obj_parse_fresh
#print axioms Upa.Props.C20c_reparse_after_failed_setter
#print axioms Upa.Props.C20c_reparse_after_failed_update
#print axioms Upa.Props.C20c_reparse_obj
#print axioms Upa.Props.C20c_assign_after_failure
#print axioms Upa.Props.C20c_assign_after_failure_raw
#print axioms Upa.Props.C20c_empty_url_getters
#print axioms Upa.Props.C20c_parse_failure_empty
#print axioms Upa.Props.C20c_parse_failure_classes
#print axioms Upa.Props.C20c_failed_parse_lockstep
#print axioms Upa.Props.C20c_parseFailStates
#print axioms Upa.Props.C20c_parse_error_empty
#print axioms Upa.Props.C20c_after_parse_failure
#print axioms Upa.Props.C20c_result_nonempty
#print axioms Upa.Props.C20c_catch_bites
#print axioms Upa.Props.C20c_params_outside_try_bites
#print axioms Upa.Props.C20c_params_outside_try_same
#print axioms Upa.Props.C20c_doParse_refines
#print axioms Upa.Props.C20c_nonvacuous
