import Upa.Proofs.SimpleBuffer
/-
  C04 / C18 / C20 on `upa::simple_buffer<T, fixed_capacity>` (include/upa/buffer.h) and the arithmetic helpers
  of include/upa/util.h.  Model: Impl/SimpleBuffer.lean (the object with its memory cells, every store
  checked, allocation a step that may fail).  Lemmas: Proofs/SimpleBuffer.lean.
  `Good s Q o` (Impl/SimpleBuffer.lean) = the outcome `o` of a member function called on `s` is not a memory
  error; if it returns, the class invariant `Inv` holds again, `fixedCap` / `maxSize` are unchanged, the
  capacity has not shrunk and `Q`; if it throws, the object is exactly as before the call.
-/
namespace Upa.Props
open Upa.Impl Upa.Impl.SB

/-! ### C04: every access in bounds, the invariant -/

/-- The class invariant holds after construction (both constructors, every `fixed_capacity`, 0 included) and
    is preserved by every member function; no store or load leaves the allocated cells, in any history.
    `pop_back` needs a non-empty buffer: on an empty one `size_` wraps to 2^64-1 and the invariant is lost. -/
theorem C04_buffer_inbounds (e : Env) :
    (∀ F M, F ≤ M → SB.Inv (init e F M)) ∧
    (∀ F M c, F ≤ M →
      Good (init e F M) (fun s' => abs s' = [] ∧ s'.size = 0 ∧ s'.capacity = max F c) (construct e F M c)) ∧
    (∀ s op, SB.Inv s → (op = .popBack → 0 < s.size) →
      step e s op ≠ .oob ∧ ∀ s', step e s op = .ok s' → SB.Inv s') ∧
    (∀ s ops, SB.Inv s → run e s ops ≠ .oob ∧ ∀ s', run e s ops = .ok s' → SB.Inv s') ∧
    (∀ s, SB.Inv s → s.size = 0 → s.maxSize < 18446744073709551615 →
      (popBack s).size = 18446744073709551615 ∧ ¬ SB.Inv (popBack s)) := by
  refine ⟨fun F M h => init_inv e F M h, fun F M c h => construct_good e F M c h, ?_, ?_, ?_⟩
  · intro s op hi hp
    have hg := step_good e s op hi hp
    constructor
    · intro h; rw [h] at hg; exact hg
    · intro s' h; rw [h] at hg; exact hg.1
  · intro s ops hi
    exact ⟨run_not_oob e ops s hi, fun s' h => (run_ok e ops s s' hi h).1⟩
  · intro s hi h0 hM
    have hsz := popBack_empty s h0
    refine ⟨hsz, fun hi' => ?_⟩
    have h1 := hi'.size_le
    have h2 := hi'.cap_max
    have h3 : (popBack s).maxSize = s.maxSize := rfl
    omega

example : SB.Inv (init env0 0 maxSize0) := (C04_buffer_inbounds env0).1 0 maxSize0 (by decide)
example : step env0 (init env0 0 maxSize0) (.pushBack 65) =
    .ok { fixedCap := 0, maxSize := maxSize0, onHeap := true, mem := 65 :: List.replicate 31 0, size := 1,
          capacity := 32, nalloc := 1 } := by decide +kernel
example : (popBack (init env0 4 maxSize0)).size = 18446744073709551615 := by decide +kernel

/-! ### C04: refinement of the list operations -/

/-- Each member function does to `[begin(), end())` what its list counterpart does: `push_back v` appends
    `[v]`, `append` appends the range, `clear` empties, `pop_back` drops the last element, `reserve` changes
    nothing, `resize n` truncates to `n` (n ≤ size) or extends to length `n` keeping the old contents as a
    prefix (the new cells hold whatever the memory held).  Also the new `size()`. -/
theorem C04_buffer_refines (e : Env) (s : State) (op : Op) (hi : SB.Inv s) (hp : op = .popBack → 0 < s.size) :
    Good s (fun s' => Refines (abs s) op (abs s') ∧ s'.size = sizeAfter s.size op) (step e s op) :=
  step_good e s op hi hp

/-- spelled out for the operations that return -/
theorem C04_buffer_refines_ok (e : Env) (s s' : State) (op : Op) (hi : SB.Inv s) (hp : op = .popBack → 0 < s.size)
    (h : step e s op = .ok s') : Refines (abs s) op (abs s') := by
  have := step_good e s op hi hp
  rw [h] at this
  exact this.2.2.2.2.1

example : (step env0 (init env0 2 maxSize0) (.append [1, 2, 3])).obs = some ([1, 2, 3], 3, 4) := by decide +kernel

/-- Any history (the caller respects the precondition of `pop_back`) from a fresh buffer, for every
    `fixed_capacity` and every pattern of allocation failures: when it returns, the contents are those of the
    list operations applied in order to `[]`, and `size()` is the size they give. -/
theorem C04_buffer_history (e : Env) (F M : Nat) (hFM : F ≤ M) (ops : List Op) (s' : State)
    (h : run e (init e F M) ops = .ok s') :
    SB.Inv s' ∧ RefinesAll [] ops (abs s') ∧ s'.size = ops.foldl sizeAfter 0 ∧ (abs s').length = s'.size := by
  have := run_ok e ops (init e F M) s' (init_inv e F M hFM) h
  rw [init_abs] at this
  exact ⟨this.1, this.2.2.2.2.1, this.2.2.2.2.2, abs_length this.1⟩

example : (run env0 (init env0 2 maxSize0) [.pushBack 1, .append [2, 3], .popBack, .reserve 100, .resize 1]).obs =
    some ([1], 1, 100) := by decide +kernel

/-! ### C18: the inline capacity is not observable -/

/-- Two buffers with different `fixed_capacity` (and different garbage in fresh memory, different allocators'
    `max_size()`) that run the same history hold the same contents, `specRun [] ops`, provided no `resize` of
    the history makes the buffer longer (`NoExpose`: only then could stale / uninitialised cells be read).
    Without that proviso the SIZES still agree. -/
theorem C18_buffer_fixed_capacity_irrelevant (e1 e2 : Env) (F1 F2 M1 M2 : Nat) (h1 : F1 ≤ M1) (h2 : F2 ≤ M2)
    (ops : List Op) (s1 s2 : State)
    (r1 : run e1 (init e1 F1 M1) ops = .ok s1) (r2 : run e2 (init e2 F2 M2) ops = .ok s2) :
    (abs s1).length = (abs s2).length ∧
    (NoExpose 0 ops → abs s1 = specRun [] ops ∧ abs s2 = specRun [] ops ∧ abs s1 = abs s2) := by
  obtain ⟨i1, a1, z1, l1⟩ := C04_buffer_history e1 F1 M1 h1 ops s1 r1
  obtain ⟨i2, a2, z2, l2⟩ := C04_buffer_history e2 F2 M2 h2 ops s2 r2
  refine ⟨by omega, fun hn => ?_⟩
  have b1 := RefinesAll_spec ops [] (abs s1) a1 hn
  have b2 := RefinesAll_spec ops [] (abs s2) a2 hn
  exact ⟨b1, b2, by rw [b1, b2]⟩

example : NoExpose 0 [.pushBack 1, .append [2, 3], .popBack, .reserve 100, .resize 1] := by
  simp [NoExpose, sizeAfter]
/-- the proviso is needed: after `clear` the old elements are still in the cells; `reserve(4)` moves a buffer
    with `fixed_capacity` 2 to fresh memory and leaves one with `fixed_capacity` 4 where it is -/
example :
    (run env0 (init env0 2 maxSize0) [.pushBack 65, .pushBack 66, .clear, .reserve 4, .resize 2]).obs = some ([0, 0], 2, 4) ∧
    (run env0 (init env0 4 maxSize0) [.pushBack 65, .pushBack 66, .clear, .reserve 4, .resize 2]).obs = some ([65, 66], 2, 4) :=
  ⟨by decide +kernel, by decide +kernel⟩

/-! ### C20: the strong exception guarantee -/

/-- A member function that throws (`std::bad_alloc` from the allocator, `std::length_error` from `grow` /
    `add_sizes`) leaves every member of the object as it was (`nalloc` is the ghost allocation counter). -/
theorem C20_buffer_strong_guarantee (e : Env) (s s' : State) (op : Op) (hi : SB.Inv s)
    (h : step e s op = .badAlloc s' ∨ step e s op = .lengthError s') :
    s' = { s with nalloc := s'.nalloc } ∧ abs s' = abs s ∧ s'.capacity = s.capacity ∧ s'.onHeap = s.onHeap ∧ SB.Inv s' := by
  have hp : op = .popBack → 0 < s.size := by
    intro hop; subst hop; rcases h with h | h <;> simp [step] at h
  have hg := step_good e s op hi hp
  have key : s' = { s with nalloc := s'.nalloc } := by
    rcases h with h | h
    · rw [h] at hg; exact hg
    · rw [h] at hg; have : s' = s := hg; rw [this]
  refine ⟨key, ?_, ?_, ?_, ?_⟩
  · rw [key]; rfl
  · rw [key]
  · rw [key]
  · rw [key]; exact Inv_nalloc hi _

/-- the first allocation fails: `push_back` on a full inline buffer throws and nothing changed -/
example : step { allocFails := fun k => k == 0, junk := fun _ _ => 0 } (init env0 0 maxSize0) (.pushBack 65) =
    .badAlloc { init env0 0 maxSize0 with nalloc := 1 } := by decide +kernel
/-- the guard of `grow`: `max_size()` 40, capacity 32 full → `length_error` -/
example : run env0 (init env0 32 40) [.append (List.replicate 32 7), .pushBack 1] =
    .lengthError { fixedCap := 32, maxSize := 40, onHeap := false, mem := List.replicate 32 7, size := 32,
                   capacity := 32, nalloc := 0 } := by decide +kernel

/-- Histories with failing allocations (`allocFails` arbitrary — in particular "exactly the n-th allocation
    fails"):
    (1) if the exception propagates, the operations before the throwing one all completed and the object is
        exactly as they left it;
    (2) if every exception is caught and the history goes on with the same object, no memory error occurs and
        the buffer finally holds what the list operations that COMPLETED (a sub-list of the history) make of
        `[]`: a failed operation has no effect at all. -/
theorem C20_buffer_alloc_failure_history (e : Env) (F M : Nat) (hFM : F ≤ M) (ops : List Op) :
    (∀ s', (run e (init e F M) ops = .badAlloc s' ∨ run e (init e F M) ops = .lengthError s') →
      ∃ done op rest s'', ops = done ++ op :: rest ∧ run e (init e F M) done = .ok s'' ∧
        (stepG e s'' op = .badAlloc s' ∨ stepG e s'' op = .lengthError s') ∧
        s' = { s'' with nalloc := s'.nalloc } ∧ RefinesAll [] done (abs s')) ∧
    (∃ s' done, runCatch e (init e F M) ops = some (s', done) ∧ SB.Inv s' ∧ done.Sublist ops ∧
      RefinesAll [] done (abs s')) := by
  have hi := init_inv e F M hFM
  constructor
  · intro s' h
    obtain ⟨done, op, rest, s'', h1, h2, h3, h4⟩ := run_throw e ops _ s' hi h
    refine ⟨done, op, rest, s'', h1, h2, h3, h4, ?_⟩
    have := (run_ok e done _ s'' hi h2).2.2.2.2.1
    rw [init_abs] at this
    rw [h4]; exact this
  · obtain ⟨s', done, h1, h2, _, _, h5, h6⟩ := runCatch_good e ops _ hi
    rw [init_abs] at h6
    exact ⟨s', done, h1, h2, h5, h6⟩

/-- exactly the allocation number 1 (the second one) fails: the `append` that needs it is dropped, the rest
    of the history is unaffected -/
example : (runCatch { allocFails := fun k => k == 1, junk := fun _ _ => 0 } (init env0 0 maxSize0)
      [.pushBack 1, .append (List.replicate 40 2), .pushBack 3]).map (fun p => (abs p.1, p.2)) =
    some ([1, 3], [.pushBack 1, .pushBack 3]) := by decide +kernel

/-! ### growth -/

/-- `grow(min_cap)`: with c0 = `capacity_` (16 when the capacity is 0 — NOT max(capacity, 16): a capacity of 2
    grows to 4) the new capacity is c0·2^k for the least k ≥ 1 with c0·2^k ≥ min_cap, provided the candidates
    before it pass the guard `new_cap ≤ max_size()/2`; `length_error` exactly when the guard stops the loop at
    a candidate that has not reached `min_cap` (the fuel of `growLoop` never runs out).  This sharpens
    `C04_buffer_grow` (Props/C04.lean), whose bounds follow: min_cap ≤ r ≤ max_size(), capacity < r. -/
theorem C04_buffer_grow_exact (M cap minCap : Nat) :
    (∀ r, bufGrow M cap minCap = some r ↔
      ∃ k, GrowsTo M (if cap = 0 then 16 else cap) minCap k ∧ r = (if cap = 0 then 16 else cap) * 2 ^ k) ∧
    (bufGrow M cap minCap = none ↔ ∃ k, GuardStops M (if cap = 0 then 16 else cap) minCap k) ∧
    (∀ r, bufGrow M cap minCap = some r → minCap ≤ r ∧ r ≤ M ∧ cap < r) :=
  ⟨(bufGrow_exact M cap minCap).1, (bufGrow_exact M cap minCap).2, fun _ h => bufGrow_some h⟩

/-- and that is the capacity of the object after `grow` -/
theorem C04_buffer_grow_capacity (e : Env) (s s' : State) (n : Nat) (hi : SB.Inv s) (h : grow e s n = .ok s') :
    bufGrow s.maxSize s.capacity n = some s'.capacity := grow_capacity e s s' n hi h

example : bufGrow maxSize0 2 3 = some 4 := by decide +kernel
example : bufGrow maxSize0 0 1 = some 32 := by decide +kernel
example : GrowsTo maxSize0 1024 5000 3 := by
  refine ⟨by omega, by omega, ?_, by decide⟩
  intro j h1 h2
  have : j = 1 ∨ j = 2 := by omega
  rcases this with h | h <;> subst h <;> omega
example : bufGrow 40 32 33 = none := by decide +kernel

/-! ### util.h -/

/-- `simple_buffer::add_sizes` / `util::add_sizes` on the machine (64-bit `size_t`, wrapping `-` and `+`)
    compute the mathematical sum or throw, as long as n1 ≤ max_size < 2^64: nothing wraps. -/
theorem C04_add_sizes_machine (M n1 n2 : Nat) (hM : M < 18446744073709551616) (h1 : n1 ≤ M)
    (h2 : n2 < 18446744073709551616) :
    addSizesW M n1 n2 = bufAddSizes M n1 n2 ∧
    utilAddSizesW n1 n2 M = (if n1 + n2 ≤ M then some (n1 + n2) else none) ∧
    bufAddSizes M n1 n2 = (if n1 + n2 ≤ M then some (n1 + n2) else none) := by
  refine ⟨addSizesW_eq M n1 n2 hM h1 h2, utilAddSizesW_eq n1 n2 M hM h1 h2, ?_⟩
  unfold bufAddSizes
  split
  · rw [if_pos (by omega)]
  · rw [if_neg (by omega)]

example : utilAddSizesW 5 7 100 = some 12 := by decide +kernel
/-- without n1 ≤ max_size the subtraction wraps and the check passes wrongly -/
example : addSizesW 10 11 5 = some 16 := by decide +kernel

/-- `util::checked_diff<Out>(a, b)`: the difference a − b when `Out` can represent it, else `length_error` —
    for the instantiation of the library (`checked_diff<std::ptrdiff_t>(size_t, size_t)`, url.h:2826, 2863)
    and the two of test/test-util.cpp with 32-bit `int` (`<int>(int,int)`, `<unsigned>(int,int)`). -/
theorem C04_checked_diff :
    (∀ a b : Int, 0 ≤ a ∧ a < 2^64 → 0 ≤ b ∧ b < 2^64 →
      checkedDiff 64 true 64 a b = if -(2^63) ≤ a - b ∧ a - b ≤ 2^63 - 1 then some (a - b) else none) ∧
    (∀ a b : Int, -(2^31) ≤ a ∧ a < 2^31 → -(2^31) ≤ b ∧ b < 2^31 →
      checkedDiff 32 true 32 a b = if -(2^31) ≤ a - b ∧ a - b ≤ 2^31 - 1 then some (a - b) else none) ∧
    (∀ a b : Int, -(2^31) ≤ a ∧ a < 2^31 → -(2^31) ≤ b ∧ b < 2^31 →
      checkedDiff 32 false 32 a b = if 0 ≤ a - b ∧ a - b ≤ 2^32 - 1 then some (a - b) else none) :=
  ⟨checkedDiff_size_ptrdiff, checkedDiff_int_int, checkedDiff_int_unsigned⟩

example : checkedDiff 64 true 64 0 (2^63) = some (-(2^63)) := by decide +kernel
example : checkedDiff 64 true 64 (2^63) 0 = none := by decide +kernel

/-! ### the harness operation `r<n>` of `runBufLine` -/

/-- `resize(n)` followed by zero-filling `[old size, n)` through `data()`: deterministic contents -/
theorem C04_buffer_resize_zero (e : Env) (s : State) (n : Nat) (hi : SB.Inv s) :
    Good s (fun s' => s'.size = n ∧ abs s' = (abs s).take n ++ List.replicate (n - s.size) 0)
      (resizeZero e s n) := resizeZero_good e s n hi

example : runBufLine 2 "p41;p42;p43;c;a4445" = "buf 1/2 2/2 3/4 0/4 2/4 data=4445" := by decide +kernel

#print axioms C04_buffer_inbounds
#print axioms C04_buffer_refines
#print axioms C04_buffer_refines_ok
#print axioms C04_buffer_history
#print axioms C18_buffer_fixed_capacity_irrelevant
#print axioms C20_buffer_strong_guarantee
#print axioms C20_buffer_alloc_failure_history
#print axioms C04_buffer_grow_exact
#print axioms C04_buffer_grow_capacity
#print axioms C04_add_sizes_machine
#print axioms C04_checked_diff
#print axioms C04_buffer_resize_zero
end Upa.Props
