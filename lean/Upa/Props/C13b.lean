import Upa.Proofs.Scheme
import Upa.Gen.Tables
/-
  C13b — the scheme lookup `url::get_scheme_info` (src/url.cpp:47-82) for ALL strings.

  `Upa/Props/C13.lean` (`C13_schemes_cppNN`) compares the regenerated lookup results with the model on
  the six table entries and 15 near misses.  Here the lookup ALGORITHM (length-indexed range
  `kLengthToSchemesInd[len] .. [len+1]`, linear scan, `traits::compare` on `len` characters) is modelled
  in the code's shape over the tables as parameters (`Impl.Scheme.getSchemeInfo`), and proved, under a
  DECIDABLE condition on the tables that `decide` checks for the concrete ones, to be the search by
  equality over the whole table — for every string of every length — without any out-of-range table
  access, and to agree with the literal comparisons the model uses (`Impl.schemeIndex`,
  `Impl.isSpecialScheme`, `Impl.isFileScheme`, `Impl.defaultPort`).
-/
namespace Upa.Props
open Upa Upa.Impl Upa.Impl.Scheme Upa.Proofs.Scheme

/-! ## 1. the concrete tables satisfy the conditions -/

theorem C13_tables_ok : TablesOk schemeNames lengthToSchemesInd maxSchemeLength := by decide

theorem C13_info_ok : InfoOk schemeNames schemePorts schemeSpecial schemeFile := by decide +kernel

/-- the conditions are not idle: each of these one-place edits of the tables is rejected
    (entries swapped so that the table is no longer sorted by length; an index off by one; the index
    table one entry short; `max_scheme_length` too small; too large) -/
example : ¬ TablesOk [[119, 115, 115], [119, 115], [102, 116, 112], [104, 116, 116, 112],
    [102, 105, 108, 101], [104, 116, 116, 112, 115]] lengthToSchemesInd maxSchemeLength := by decide
example : ¬ TablesOk schemeNames [0, 0, 0, 1, 2, 5, 6] maxSchemeLength := by decide
example : ¬ TablesOk schemeNames [0, 0, 0, 1, 3, 5] maxSchemeLength := by decide
example : ¬ TablesOk schemeNames lengthToSchemesInd 4 := by decide
example : ¬ TablesOk schemeNames lengthToSchemesInd 6 := by decide
example : ¬ InfoOk schemeNames [80, 443, 21, 80, -1, 80] schemeSpecial schemeFile := by decide +kernel
example : ¬ InfoOk schemeNames schemePorts schemeSpecial [false, false, false, true, false, false] := by
  decide +kernel
example : ¬ InfoOk (schemeNames.take 5) (schemePorts.take 5) (schemeSpecial.take 5) (schemeFile.take 5) := by
  decide +kernel

/-! ## 2. lookup = search by equality, for every string -/

/-- `get_scheme_info(s)` returns `&kSchemes[i]` for the first `i` with `kSchemes[i].scheme == s`, and
    `nullptr` when there is none — for every `s`, whatever its length and characters -/
theorem C13_scheme_lookup {names : List (List Nat)} {lenToInd : List Nat} {maxLen : Nat} :
    TablesOk names lenToInd maxLen →
    ∀ s, getSchemeInfo names lenToInd maxLen s = Res.ofOption (names.idxOf? s) :=
  fun h s => getSchemeInfo_eq h s

/-- no access outside `kLengthToSchemesInd`, `kSchemes` or the characters of an entry -/
theorem C13_scheme_lookup_in_range {names : List (List Nat)} {lenToInd : List Nat} {maxLen : Nat} :
    TablesOk names lenToInd maxLen →
    ∀ s, getSchemeInfo names lenToInd maxLen s ≠ Res.oob :=
  fun h s => getSchemeInfo_ne_oob h s

/-- the same as an `Option` -/
theorem C13_scheme_lookup_idx {names : List (List Nat)} {lenToInd : List Nat} {maxLen : Nat} :
    TablesOk names lenToInd maxLen →
    ∀ s, (getSchemeInfo names lenToInd maxLen s).toOption = names.idxOf? s := by
  intro h s
  rw [getSchemeInfo_eq h, toOption_ofOption]

/-- `TablesOk` implies what the comment at the table demands: sorted by length -/
theorem C13_tables_sorted {names : List (List Nat)} {lenToInd : List Nat} {maxLen : Nat} :
    TablesOk names lenToInd maxLen →
    ∀ i j, i < j → j < names.length → (names.getD i []).length ≤ (names.getD j []).length :=
  fun h i j hij hj => tables_sorted h i j hij hj

/-- for the concrete tables -/
theorem C13_scheme_lookup_concrete (s : List Nat) :
    getSchemeInfo schemeNames lengthToSchemesInd maxSchemeLength s = Res.ofOption (schemeNames.idxOf? s) ∧
    getSchemeInfo schemeNames lengthToSchemesInd maxSchemeLength s ≠ Res.oob :=
  ⟨C13_scheme_lookup C13_tables_ok s, C13_scheme_lookup_in_range C13_tables_ok s⟩

/-- evaluated: found, not found (near misses: prefix, extension, other case, too long, empty) -/
example :
    getSchemeInfo schemeNames lengthToSchemesInd maxSchemeLength (asciiStr "file") = .at 4 ∧
    getSchemeInfo schemeNames lengthToSchemesInd maxSchemeLength (asciiStr "wss") = .at 1 ∧
    getSchemeInfo schemeNames lengthToSchemesInd maxSchemeLength (asciiStr "htt") = .null ∧
    getSchemeInfo schemeNames lengthToSchemesInd maxSchemeLength (asciiStr "httpss") = .null ∧
    getSchemeInfo schemeNames lengthToSchemesInd maxSchemeLength (asciiStr "HTTP") = .null ∧
    getSchemeInfo schemeNames lengthToSchemesInd maxSchemeLength (asciiStr "w") = .null ∧
    getSchemeInfo schemeNames lengthToSchemesInd maxSchemeLength [] = .null := by decide +kernel

/-- the hypothesis is needed, and the model shows what the C++ would do without it:
    * table not sorted by length ("wss" in the range of length 2): `compare(…, 2)` matches "ws" against
      the first two characters of "wss" and the WRONG entry is returned;
    * index table too short: out-of-range read of `kLengthToSchemesInd[len + 1]`;
    * range reaching past the end of `kSchemes`: out-of-range read of `kSchemes[ind]`. -/
example :
    getSchemeInfo [[119, 115, 115], [119, 115], [102, 116, 112], [104, 116, 116, 112],
      [102, 105, 108, 101], [104, 116, 116, 112, 115]] lengthToSchemesInd maxSchemeLength (asciiStr "ws") = .at 0 ∧
    getSchemeInfo schemeNames [0, 0, 0, 1, 3, 5] maxSchemeLength (asciiStr "httpx") = .oob ∧
    getSchemeInfo schemeNames [0, 0, 0, 1, 3, 5, 7] maxSchemeLength (asciiStr "httpx") = .oob := by
  decide +kernel

/-! ## 3. bridge to the model -/

/-- with tables that satisfy the two decidable conditions, the lookup is the model's: the index is
    `Impl.schemeIndex`, a non-null result means `Impl.isSpecialScheme`, and the `is_special`, `is_file`
    and `default_port` columns read through the result are `Impl.isSpecialScheme`,
    `Impl.isFileScheme`, `Impl.defaultPort` — for every string -/
theorem C13_scheme_model {names : List (List Nat)} {lenToInd : List Nat} {maxLen : Nat}
    {ports : List Int} {special file : List Bool} :
    TablesOk names lenToInd maxLen → InfoOk names ports special file →
    ∀ s,
      getSchemeInfo names lenToInd maxLen s = Res.ofOption (schemeIndex s) ∧
      (getSchemeInfo names lenToInd maxLen s).toOption.isSome = isSpecialScheme s ∧
      (getSchemeInfo names lenToInd maxLen s).flag special = isSpecialScheme s ∧
      (getSchemeInfo names lenToInd maxLen s).flag file = isFileScheme s ∧
      (getSchemeInfo names lenToInd maxLen s).port ports = defaultPort s := by
  intro ht hi s
  obtain ⟨h1, h2, h3, h4⟩ := bridge ht hi s
  refine ⟨h1, ?_, h2, h3, h4⟩
  rw [h1, toOption_ofOption, schemeIndex_isSome]

/-- for the concrete tables -/
theorem C13_scheme_model_concrete (s : List Nat) :
    getSchemeInfo schemeNames lengthToSchemesInd maxSchemeLength s = Res.ofOption (schemeIndex s) ∧
    (getSchemeInfo schemeNames lengthToSchemesInd maxSchemeLength s).toOption.isSome = isSpecialScheme s ∧
    (getSchemeInfo schemeNames lengthToSchemesInd maxSchemeLength s).flag schemeSpecial = isSpecialScheme s ∧
    (getSchemeInfo schemeNames lengthToSchemesInd maxSchemeLength s).flag schemeFile = isFileScheme s ∧
    (getSchemeInfo schemeNames lengthToSchemesInd maxSchemeLength s).port schemePorts = defaultPort s :=
  C13_scheme_model C13_tables_ok C13_info_ok s

/-- evaluated: both sides computed independently -/
example :
    (getSchemeInfo schemeNames lengthToSchemesInd maxSchemeLength (asciiStr "https")).port schemePorts = some 443 ∧
    defaultPort (asciiStr "https") = some 443 ∧
    (getSchemeInfo schemeNames lengthToSchemesInd maxSchemeLength (asciiStr "file")).port schemePorts = none ∧
    defaultPort (asciiStr "file") = none ∧
    (getSchemeInfo schemeNames lengthToSchemesInd maxSchemeLength (asciiStr "file")).flag schemeFile = true ∧
    (getSchemeInfo schemeNames lengthToSchemesInd maxSchemeLength (asciiStr "file")).flag schemeSpecial = true ∧
    (getSchemeInfo schemeNames lengthToSchemesInd maxSchemeLength (asciiStr "ftps")).flag schemeSpecial = false ∧
    isSpecialScheme (asciiStr "ftps") = false := by decide +kernel

/-! ### the tables of the CURRENT tree (regenerated from src/url.cpp on every run, `Gen/Tables.lean`) -/

/-- the declared lengths of the `str_view` literals in `kSchemes` are the lengths of the texts -/
theorem C13_scheme_decl_lens_gen : Gen.schemeDeclLens = Gen.schemeNames.map List.length := by decide

theorem C13_tables_ok_gen : TablesOk Gen.schemeNames Gen.lengthToSchemesInd Gen.maxSchemeLength := by decide

theorem C13_info_ok_gen : InfoOk Gen.schemeNames Gen.schemePorts Gen.schemeSpecial Gen.schemeFile := by decide +kernel

/-- `url::get_scheme_info` with the tables of the current tree, for EVERY string: no table access out of range,
    the result is the entry whose text equals the string (none otherwise), and its columns are what the parser
    model uses (`Impl.isSpecialScheme`, `Impl.isFileScheme`, `Impl.defaultPort`) -/
theorem C13_scheme_model_gen (s : List Nat) :
    getSchemeInfo Gen.schemeNames Gen.lengthToSchemesInd Gen.maxSchemeLength s ≠ Res.oob ∧
    getSchemeInfo Gen.schemeNames Gen.lengthToSchemesInd Gen.maxSchemeLength s = Res.ofOption (Gen.schemeNames.idxOf? s) ∧
    getSchemeInfo Gen.schemeNames Gen.lengthToSchemesInd Gen.maxSchemeLength s = Res.ofOption (schemeIndex s) ∧
    (getSchemeInfo Gen.schemeNames Gen.lengthToSchemesInd Gen.maxSchemeLength s).flag Gen.schemeSpecial = isSpecialScheme s ∧
    (getSchemeInfo Gen.schemeNames Gen.lengthToSchemesInd Gen.maxSchemeLength s).flag Gen.schemeFile = isFileScheme s ∧
    (getSchemeInfo Gen.schemeNames Gen.lengthToSchemesInd Gen.maxSchemeLength s).port Gen.schemePorts = defaultPort s := by
  obtain ⟨a, _, c, d, e⟩ := C13_scheme_model C13_tables_ok_gen C13_info_ok_gen s
  exact ⟨C13_scheme_lookup_in_range C13_tables_ok_gen s, C13_scheme_lookup C13_tables_ok_gen s, a, c, d, e⟩

end Upa.Props

#print axioms Upa.Props.C13_tables_ok
#print axioms Upa.Props.C13_info_ok
#print axioms Upa.Props.C13_scheme_lookup
#print axioms Upa.Props.C13_scheme_lookup_in_range
#print axioms Upa.Props.C13_scheme_lookup_idx
#print axioms Upa.Props.C13_tables_sorted
#print axioms Upa.Props.C13_scheme_lookup_concrete
#print axioms Upa.Props.C13_scheme_model
#print axioms Upa.Props.C13_scheme_model_concrete
#print axioms Upa.Props.C13_scheme_decl_lens_gen
#print axioms Upa.Props.C13_tables_ok_gen
#print axioms Upa.Props.C13_info_ok_gen
#print axioms Upa.Props.C13_scheme_model_gen
