import Upa.Proofs.Lockstep
/-
  C06 — a `upa::url` and the `url_search_params` object it owns stay in lock-step across all histories
  (include/upa/url.h: do_parse 1385-1410, safe_assign 1085-1110, search setter 1545-1570;
   include/upa/url_search_params-inl.h: update; model: Upa/Impl/Api.lean `UrlObj`).

  Defined in `Upa/Proofs/Lockstep.lean` (namespace `Upa.Proofs.C06`), restated below by `Iff.rfl`/`rfl`:
    WFB b      := Impl.checkFixUtf8 b = b ∧ ∀ x ∈ b, x < 256        a well-formed UTF-8 byte string
    WFP x      := WFB x.1 ∧ WFB x.2                                  (a stored name/value pair)
    AllWFP l   := ∀ x ∈ l, WFP x
    Lock o     := ∀ u p, o.url = some u → o.sp = some p →
                    p.list = Impl.formParse false (Impl.queryBytes (some u))
    QBytes u   := ∀ x ∈ Impl.queryBytes u, x < 256
    LockS o    := Lock o ∧ QBytes o.url ∧ ∀ p, o.sp = some p → AllWFP p.list   (the inductive invariant)
    Op, Op.WF, step, run := foldl step                               (operations on ONE object)
    stubIdna   := fun l => some (l.map toLower)                      (IDNA stub of the examples)

  Byte strings in the examples are written with `asciiStr "…"`; `decide` evaluates them.
-/
namespace Upa.Props
open Upa Upa.Impl Upa.Proofs.C06

/-! ## 0. the definitions, spelled out -/

theorem C06_WFB_def (b : List Nat) : WFB b ↔ (Impl.checkFixUtf8 b = b ∧ ∀ x ∈ b, x < 256) := Iff.rfl

/-- the other reading of `WFB`: the UTF-8 encoding of a string of scalar values -/
theorem C06_WFB_scalar (b : List Nat) :
    WFB b ↔ ∃ s : List Nat, (∀ c ∈ s, Spec.isScalar c = true) ∧ b = Spec.utf8Encode s := WFB_iff b

/-- what `do_parse` stores is well-formed: names and values are `check_fix_utf8` results -/
theorem C06_parse_wf : ∀ (remQmark : Bool) (bytes : List Nat), (∀ x ∈ bytes, x < 256) →
    ∀ x ∈ Impl.formParse remQmark bytes, WFB x.1 ∧ WFB x.2 :=
  fun r bytes h => formParse_wfp' r bytes h

theorem C06_Lock_def (o : UrlObj) :
    Lock o ↔ ∀ u p, o.url = some u → o.sp = some p →
      p.list = Impl.formParse false (Impl.queryBytes (some u)) := Iff.rfl

theorem C06_LockS_def (o : UrlObj) :
    LockS o ↔ (Lock o ∧ (∀ x ∈ Impl.queryBytes o.url, x < 256) ∧
      ∀ p, o.sp = some p → ∀ x ∈ p.list, WFB x.1 ∧ WFB x.2) :=
  ⟨fun h => ⟨h.lock, h.qbytes, h.wf⟩, fun h => ⟨h.1, h.2.1, h.2.2⟩⟩

/-- `step`: which model function each operation runs -/
theorem C06_step_def (idna : Idna) (o : UrlObj) :
    (∀ e units base, step idna o (.parse e units base) = (o.parse idna e units base).1) ∧
    step idna o .clear = o.clear ∧
    (∀ s e units, step idna o (.set s e units) = (o.set idna s e units).1) ∧
    step idna o .searchParams = o.searchParams ∧
    (∀ n v, step idna o (.append n v) = o.spApply (·.append n v)) ∧
    (∀ n v, step idna o (.spSet n v) = o.spApply (·.set n v)) ∧
    (∀ n, step idna o (.del n) = o.spApply (·.del n)) ∧
    (∀ n v, step idna o (.del2 n v) = o.spApply (·.del2 n v)) ∧
    (∀ n, step idna o (.remove n) = o.spApply (·.del n) false) ∧
    (∀ n v, step idna o (.remove2 n v) = o.spApply (·.del2 n v) false) ∧
    step idna o .sort = o.spApply (·.sort) ∧
    step idna o .clearParams = o.spApply (·.clear) ∧
    (∀ r bytes, step idna o (.parseParams r bytes) = o.spApply (·.parse r bytes)) ∧
    (∀ l isS, step idna o (.assignParams l isS) = o.spApply (fun _ => { list := l, isSorted := isS })) ∧
    (∀ ops, run idna o ops = ops.foldl (step idna) o) :=
  ⟨fun _ _ _ => rfl, rfl, fun _ _ _ => rfl, rfl, fun _ _ => rfl, fun _ _ => rfl, fun _ => rfl,
   fun _ _ => rfl, fun _ => rfl, fun _ _ => rfl, rfl, rfl, fun _ _ => rfl, fun _ _ => rfl, fun _ => rfl⟩

/-- the side condition an operation carries: caller-supplied names, values and list elements are
    well-formed UTF-8 (finding F3); a query string given to `search_params().parse` and the query of a
    base URL are byte strings; everything else is unconstrained -/
theorem C06_Op_WF_def :
    (∀ e units base, (Op.parse e units base).WF ↔ ∀ b, base = some (some b) → QBytes (some b)) ∧
    (∀ n v, (Op.append n v).WF ↔ (WFB n ∧ WFB v)) ∧
    (∀ n v, (Op.spSet n v).WF ↔ (WFB n ∧ WFB v)) ∧
    (∀ r bytes, (Op.parseParams r bytes).WF ↔ ∀ x ∈ bytes, x < 256) ∧
    (∀ l isS, (Op.assignParams l isS).WF ↔ ∀ x ∈ l, WFB x.1 ∧ WFB x.2) ∧
    Op.clear.WF ∧ (∀ s e units, (Op.set s e units).WF) ∧ Op.searchParams.WF ∧ (∀ n, (Op.del n).WF) ∧
    (∀ n v, (Op.del2 n v).WF) ∧ (∀ n, (Op.remove n).WF) ∧ (∀ n v, (Op.remove2 n v).WF) ∧ Op.sort.WF ∧
    Op.clearParams.WF :=
  ⟨fun _ _ _ => Iff.rfl, fun _ _ => Iff.rfl, fun _ _ => Iff.rfl, fun _ _ => Iff.rfl, fun _ _ => Iff.rfl,
   trivial, fun _ _ _ => trivial, trivial, fun _ => trivial, fun _ _ => trivial, fun _ => trivial,
   fun _ _ => trivial, trivial, trivial⟩

/-- the base-URL side condition is met by every URL that `parse` produced from such a base (so by
    every URL reachable from nothing) -/
theorem C06_parse_qbytes : ∀ (idna : Idna) (e : Enc) (units : List Nat) (base : Option Url) (u : Url),
    QBytes base → Impl.parse idna e units base = some u → QBytes (some u) :=
  fun idna e units base u hb h => parse_qbytes idna e units base u hb h

example : QBytes none := by decide
example : Impl.parse stubIdna .u8 (asciiStr "http://h/p?old") none =
    some { scheme := asciiStr "http", host := some ⟨.domain, asciiStr "h"⟩, path := [asciiStr "p"],
           query := some (asciiStr "old") } := by decide
example : QBytes (some { scheme := asciiStr "http", host := some ⟨.domain, asciiStr "h"⟩,
                         path := [asciiStr "p"], query := some (asciiStr "old") }) := by decide

/-! ## 1. the invariant holds after every history -/

/-- the nine setters other than `search` and `href` never change the query (success, failure or
    ignored alike) -/
theorem C06_setters_keep_query : ∀ (idna : Idna) (s : Setter) (e : Enc) (units : List Nat) (u : Url),
    s ≠ .href → s ≠ .search → (Impl.setValid idna s e units u).1.query = u.query :=
  fun idna s e units u h1 h2 => setValid_query idna s e units u h1 h2

-- pathname setter with `?` and `#` in the value: they are percent-encoded into the path, the query stays
example : (Impl.setValid stubIdna .pathname .u8 (asciiStr "/a?b#c")
      { scheme := asciiStr "http", host := some ⟨.domain, asciiStr "h"⟩, path := [[]],
        query := some (asciiStr "q=1") }).1 =
    { scheme := asciiStr "http", host := some ⟨.domain, asciiStr "h"⟩, path := [asciiStr "a%3Fb%23c"],
      query := some (asciiStr "q=1") } := by decide

theorem C06_init : LockS {} := lockS_init

/-- **Lock-step invariant.**  From any object satisfying the invariant, every history of well-formed
    operations leads to an object satisfying it. -/
theorem C06_inv : ∀ (idna : Idna) (o : UrlObj) (ops : List Op),
    LockS o → (∀ op ∈ ops, op.WF) → LockS (run idna o ops) :=
  fun idna o ops h hw => run_lockS idna ops o h hw

/-- in particular, from a default-constructed object: after any history, the params object (if it was
    ever asked for) lists exactly the pairs of the URL's current query -/
theorem C06_inv_lock : ∀ (idna : Idna) (ops : List Op), (∀ op ∈ ops, op.WF) →
    ∀ u p, (run idna {} ops).url = some u → (run idna {} ops).sp = some p →
      p.list = Impl.formParse false (Impl.queryBytes (some u)) :=
  fun idna ops hw => (run_lockS idna ops {} lockS_init hw).lock

/-- one step (so the invariant also holds between the operations) -/
theorem C06_step : ∀ (idna : Idna) (o : UrlObj) (op : Op), LockS o → op.WF → LockS (step idna o op) :=
  fun idna o op h hw => step_lockS idna o op h hw

private def c06Http (path : List (List Nat)) (q f : Option (List Nat)) : Url :=
  { scheme := asciiStr "http", host := some ⟨.domain, asciiStr "h"⟩, path := path, query := q, fragment := f }
private def c06Foo (op : List Nat) (q f : Option (List Nat)) : Url :=
  { scheme := asciiStr "foo", hasOpaquePath := true, opaquePath := op, query := q, fragment := f }

/-- a history through every kind of operation:
    parse "http://h/?b=2&a=1"; search_params(); sort(); append("c", " &"); hash("#f"); pathname("/p");
    set("b", "€"); search("?x=%41&y"); remove("z"); href("foo:bar ?y=%ff#f"); hash(""); del("y") -/
private def c06History : List Op :=
  [.parse .u8 (asciiStr "http://h/?b=2&a=1") none, .searchParams, .sort, .append (asciiStr "c") (asciiStr " &"),
   .set .hash .u8 (asciiStr "#f"), .set .pathname .u8 (asciiStr "/p"), .spSet (asciiStr "b") [0xE2, 0x82, 0xAC],
   .set .search .u8 (asciiStr "?x=%41&y"), .remove (asciiStr "z"),
   .set .href .u8 (asciiStr "foo:bar ?y=%ff#f"), .set .hash .u8 [], .del (asciiStr "y")]

-- the hypotheses of C06_inv are satisfiable on it
example : ∀ op ∈ c06History, op.WF := by decide

set_option maxRecDepth 8000 in
/-- the state after the first 10 operations: the `href` setter replaced the record and refilled the
    params object; the list holds U+FFFD for the escaped ill-formed byte while the query keeps `%ff`
    — and `Lock` holds, because it compares the list with the PARSE of the query -/
private theorem c06History_10 : run stubIdna {} (c06History.take 10) =
    { url := some (c06Foo (asciiStr "bar ") (some (asciiStr "y=%ff")) (some (asciiStr "f"))),
      sp := some { list := [(asciiStr "y", [0xEF, 0xBF, 0xBD])], isSorted := false } } := by
  simp only [c06History, List.take_succ_cons, List.take_zero]
  -- parse: record written, no params object yet
  rw [run_cons, eval_parse_fresh stubIdna .u8 _ (c06Http [[]] (some (asciiStr "b=2&a=1")) none) (by decide)]
  -- first search_params(): created from the current query
  rw [run_cons, eval_searchParams _ _ [(asciiStr "b", asciiStr "2"), (asciiStr "a", asciiStr "1")] (by decide)]
  -- sort() and update(): query rewritten "a=1&b=2"
  rw [run_cons, eval_mut _ .sort _ _ (fun _ => rfl) _ _
    { list := [(asciiStr "a", asciiStr "1"), (asciiStr "b", asciiStr "2")], isSorted := true }
    (by simp (decide := true) [Params.sort, List.mergeSort, List.MergeSort.Internal.splitInTwo])
    { url := some (c06Http [[]] (some (asciiStr "a=1&b=2")) none),
      sp := some { list := [(asciiStr "a", asciiStr "1"), (asciiStr "b", asciiStr "2")], isSorted := true } }
    (by decide)]
  -- append("c", " &")
  rw [run_cons, eval_mut _ (.append _ _) _ _ (fun _ => rfl) _ _
    { list := [(asciiStr "a", asciiStr "1"), (asciiStr "b", asciiStr "2"), (asciiStr "c", asciiStr " &")],
      isSorted := false } (by decide)
    { url := some (c06Http [[]] (some (asciiStr "a=1&b=2&c=+%26")) none),
      sp := some { list := [(asciiStr "a", asciiStr "1"), (asciiStr "b", asciiStr "2"),
        (asciiStr "c", asciiStr " &")], isSorted := false } } (by decide)]
  -- hash("#f"), pathname("/p"): query and params untouched
  rw [run_cons, eval_set_other stubIdna .hash .u8 _ _ _
    (c06Http [[]] (some (asciiStr "a=1&b=2&c=+%26")) (some (asciiStr "f"))) (by decide) (by decide) (by decide)]
  rw [run_cons, eval_set_other stubIdna .pathname .u8 _ _ _
    (c06Http [asciiStr "p"] (some (asciiStr "a=1&b=2&c=+%26")) (some (asciiStr "f")))
    (by decide) (by decide) (by decide)]
  -- set("b", "€")
  rw [run_cons, eval_mut _ (.spSet _ _) _ _ (fun _ => rfl) _ _
    { list := [(asciiStr "a", asciiStr "1"), (asciiStr "b", [0xE2, 0x82, 0xAC]), (asciiStr "c", asciiStr " &")],
      isSorted := false } (by decide)
    { url := some (c06Http [asciiStr "p"] (some (asciiStr "a=1&b=%E2%82%AC&c=+%26")) (some (asciiStr "f"))),
      sp := some { list := [(asciiStr "a", asciiStr "1"), (asciiStr "b", [0xE2, 0x82, 0xAC]),
        (asciiStr "c", asciiStr " &")], isSorted := false } } (by decide)]
  -- search("?x=%41&y"): query replaced, params re-parsed
  rw [run_cons, eval_set_search stubIdna .u8 _ _ _
    (c06Http [asciiStr "p"] (some (asciiStr "x=%41&y")) (some (asciiStr "f")))
    [(asciiStr "x", asciiStr "A"), (asciiStr "y", [])] (by decide) (by decide) (by decide)]
  -- remove("z"): nothing removed, no update
  rw [run_cons, eval_mut _ (.remove _) _ _ (fun _ => rfl) _ _
    { list := [(asciiStr "x", asciiStr "A"), (asciiStr "y", [])], isSorted := false } (by decide)
    { url := some (c06Http [asciiStr "p"] (some (asciiStr "x=%41&y")) (some (asciiStr "f"))),
      sp := some { list := [(asciiStr "x", asciiStr "A"), (asciiStr "y", [])], isSorted := false } } (by decide)]
  -- href("foo:bar ?y=%ff#f")
  rw [run_cons, eval_set_href stubIdna .u8 _ _ _
    (c06Foo (asciiStr "bar ") (some (asciiStr "y=%ff")) (some (asciiStr "f")))
    [(asciiStr "y", [0xEF, 0xBF, 0xBD])] (by decide) (by decide)]
  rfl

set_option maxRecDepth 8000 in
/-- the whole history: `hash("")` keeps the query; `del("y")` empties the list, so the query becomes
    null and the trailing space of the opaque path is stripped -/
private theorem c06History_all : run stubIdna {} c06History =
    { url := some (c06Foo (asciiStr "bar") none none), sp := some { list := [], isSorted := false } } := by
  have : c06History = c06History.take 10 ++ [.set .hash .u8 [], .del (asciiStr "y")] := rfl
  rw [this, run_append, c06History_10]
  rw [run_cons, eval_set_other stubIdna .hash .u8 _ _ _
    (c06Foo (asciiStr "bar ") (some (asciiStr "y=%ff")) none) (by decide) (by decide) (by decide)]
  rw [run_cons, eval_mut _ (.del _) _ _ (fun _ => rfl) _ _ { list := [], isSorted := false } (by decide)
    { url := some (c06Foo (asciiStr "bar") none none), sp := some { list := [], isSorted := false } }
    (by decide)]
  rfl

-- the conclusion of C06_inv on the two evaluated states
example : (run stubIdna {} (c06History.take 10)).url.bind (·.query) = some (asciiStr "y=%ff") ∧
    (run stubIdna {} (c06History.take 10)).sp.map (·.list) = some [(asciiStr "y", [0xEF, 0xBF, 0xBD])] := by
  rw [c06History_10]; decide
example : Lock (run stubIdna {} (c06History.take 10)) :=
  (C06_inv stubIdna {} _ C06_init (by decide)).lock
example : (run stubIdna {} c06History).url.bind (·.query) = none ∧
    (run stubIdna {} c06History).sp.map (·.list) = some [] := by
  rw [c06History_all]; decide
example : Lock (run stubIdna {} c06History) := (C06_inv stubIdna {} _ C06_init (by decide)).lock

/-- a second history on an object that already has a params object: clear(), a parse against an
    invalid base object (fails, object invalid), then "?k=v#z" against the base "http://h/p?old" -/
private def c06History2 : List Op :=
  [.parse .u8 (asciiStr "http://h/?a=1") none, .searchParams, .clear,
   .parse .u8 (asciiStr "x") (some none),
   .parse .u8 (asciiStr "?k=v#z") (some (some (c06Http [asciiStr "p"] (some (asciiStr "old")) none)))]

example : ∀ op ∈ c06History2, op.WF := by decide

set_option maxRecDepth 8000 in
example : run stubIdna {} c06History2 =
    { url := some (c06Http [asciiStr "p"] (some (asciiStr "k=v")) (some (asciiStr "z"))),
      sp := some { list := [(asciiStr "k", asciiStr "v")], isSorted := false } } := by
  unfold c06History2
  rw [run_cons, eval_parse_fresh stubIdna .u8 _ (c06Http [[]] (some (asciiStr "a=1")) none) (by decide)]
  rw [run_cons, eval_searchParams _ _ [(asciiStr "a", asciiStr "1")] (by decide)]
  -- clear(): invalid, params emptied
  rw [run_cons, show step stubIdna _ Op.clear = { url := none, sp := some { list := [], isSorted := true } }
    from by decide]
  -- parse with an invalid base: stays invalid
  rw [run_cons, show step stubIdna _ (Op.parse .u8 (asciiStr "x") (some none)) =
    { url := none, sp := some { list := [], isSorted := true } } from by decide]
  rw [run_cons, eval_parse_sp stubIdna .u8 _ _ _ _
    (c06Http [asciiStr "p"] (some (asciiStr "k=v")) (some (asciiStr "z"))) [(asciiStr "k", asciiStr "v")]
    (by decide) (by decide) (by decide)]
  rfl

/-! ## 2. after a params mutation the query IS the serialization -/

/-- `spApply f`: the params object of a valid URL (created on first use) is mutated by `f`, then
    `update()` runs.  Afterwards the URL is still valid, the params object holds `f p`, and the URL's
    query is the serialization of the list — null iff the list is empty.  (No well-formedness is needed
    for this direction; it is needed for the converse, `C06_after_edit_parse`.) -/
theorem C06_after_edit : ∀ (o : UrlObj) (f : Params → Params), o.url.isSome →
    let o' := o.spApply f
    let list := (o'.sp.map (·.list)).getD []
    o'.url.isSome ∧ o'.sp = o.searchParams.sp.map f ∧ o'.sp.isSome ∧
    o'.url.bind (·.query) = (if list = [] then none else some (Impl.formSerialize list)) := by
  intro o f h
  obtain ⟨u', p, h1, h2, h3, h4⟩ := spApply_query o f h
  simp only [h1, h2, h3, h4, Option.map_some, Option.getD_some, Option.isSome_some, Option.bind_some,
    true_and]

/-- and under the invariant, parsing that query gives the list back -/
theorem C06_after_edit_parse : ∀ (o : UrlObj) (f : Params → Params), LockS o →
    (∀ p, AllWFP p.list → AllWFP (f p).list) →
    ∀ u' p', (o.spApply f).url = some u' → (o.spApply f).sp = some p' →
      Impl.formParse false (Impl.queryBytes (some u')) = p'.list :=
  fun o f h hf u' p' hu hp => ((spApply_lockS o f h hf).lock u' p' hu hp).symm

-- hypotheses satisfiable: the state after the first 10 operations of the history above, `append("k","")`
example : (run stubIdna {} (c06History.take 10)).url.isSome := by rw [c06History_10]; decide
example : LockS (run stubIdna {} (c06History.take 10)) := C06_inv stubIdna {} _ C06_init (by decide)
example : ∀ p : Params, AllWFP p.list → AllWFP (p.append (asciiStr "k") []).list :=
  append_wf _ _ (by decide) (by decide)
example :
    let o' := (run stubIdna {} (c06History.take 10)).spApply (·.append (asciiStr "k") [])
    o'.url.bind (·.query) = some (asciiStr "y=%EF%BF%BD&k=") ∧
    o'.sp.map (·.list) = some [(asciiStr "y", [0xEF, 0xBF, 0xBD]), (asciiStr "k", [])] := by
  rw [c06History_10]; decide
-- the last element removed: query null (not empty)
example :
    let o' := (run stubIdna {} (c06History.take 10)).spApply (·.del (asciiStr "y"))
    o'.url.bind (·.query) = none ∧ o'.sp.map (·.list) = some [] := by
  rw [c06History_10]; decide

/-! ## 3. finding F3: without the side condition the invariant is false -/

/-- `char`-typed arguments are stored as they are (no `check_fix_utf8`): after
    `parse "http://h/"; search_params(); append("\xFF", "v")` the list holds the raw byte FF, the query
    is "%FF=v", and parsing that query gives U+FFFD — the params object and the URL disagree. -/
theorem C06_illformed_counterexample :
    let ops : List Op := [.parse .u8 (asciiStr "http://h/") none, .searchParams, .append [0xFF] [0x76]]
    (∀ op ∈ ops.take 2, op.WF) ∧ ¬ (Op.append [0xFF] [0x76]).WF ∧
    run stubIdna {} ops =
      { url := some { scheme := asciiStr "http", host := some ⟨.domain, asciiStr "h"⟩, path := [[]],
                      query := some (asciiStr "%FF=v") },
        sp := some { list := [([0xFF], [0x76])], isSorted := false } } ∧
    Impl.formParse false (asciiStr "%FF=v") = [([0xEF, 0xBF, 0xBD], [0x76])] ∧
    ¬ Lock (run stubIdna {} ops) := by
  have hrun : run stubIdna {} [.parse .u8 (asciiStr "http://h/") none, .searchParams, .append [0xFF] [0x76]] =
      { url := some { scheme := asciiStr "http", host := some ⟨.domain, asciiStr "h"⟩, path := [[]],
                      query := some (asciiStr "%FF=v") },
        sp := some { list := [([0xFF], [0x76])], isSorted := false } } := by
    rw [run_cons, eval_parse_fresh stubIdna .u8 _
      { scheme := asciiStr "http", host := some ⟨.domain, asciiStr "h"⟩, path := [[]] } (by decide)]
    rw [run_cons, eval_searchParams _ _ [] (by decide)]
    rw [run_cons, eval_mut _ (.append _ _) _ _ (fun _ => rfl) _ _
      { list := [([0xFF], [0x76])], isSorted := false } (by decide)
      { url := some { scheme := asciiStr "http", host := some ⟨.domain, asciiStr "h"⟩, path := [[]],
                      query := some (asciiStr "%FF=v") },
        sp := some { list := [([0xFF], [0x76])], isSorted := false } } (by decide)]
    rfl
  have hparse : Impl.formParse false (asciiStr "%FF=v") = [([0xEF, 0xBF, 0xBD], [0x76])] := by
    rw [Upa.Proofs.C15.formParse_eqK]; decide
  refine ⟨by decide, by decide, hrun, hparse, ?_⟩
  intro hl
  have := hl _ _ (by rw [hrun]) (by rw [hrun])
  rw [show Impl.queryBytes (some ({ scheme := asciiStr "http", host := some ⟨.domain, asciiStr "h"⟩,
                                    path := [[]], query := some (asciiStr "%FF=v") } : Url)) =
    asciiStr "%FF=v" from rfl, hparse] at this
  revert this
  decide

/-! ## 4. two objects -/

/-- Copy assignment, copy construction, move and `safe_assign` keep the invariant of every object
    involved.  (For the destination only the source's invariant matters: the destination's record and
    params content are overwritten.)  After a move the destination has the record and the params object,
    the source is invalid and has none; after `safe_assign` the source is invalid with emptied params. -/
theorem C06_two_objects : ∀ dst src : UrlObj, LockS src →
    LockS (Impl.copyAssign dst src) ∧
    LockS (Impl.copyConstruct src) ∧
    LockS (Impl.moveAssign src).1 ∧ LockS (Impl.moveAssign src).2 ∧
    (Impl.moveAssign src).1 = src ∧ (Impl.moveAssign src).2 = { url := none, sp := none } ∧
    LockS (Impl.safeAssign dst src).1 ∧ LockS (Impl.safeAssign dst src).2 ∧
    (Impl.safeAssign dst src).2.url = none :=
  fun dst src hs =>
    ⟨copyAssign_lockS dst src hs, copyConstruct_lockS src hs, (moveAssign_lockS src hs).1,
     (moveAssign_lockS src hs).2, rfl, rfl, (safeAssign_lockS dst src hs).1, (safeAssign_lockS dst src hs).2,
     rfl⟩

/-- the same in terms of `Lock`, for objects with any well-formed past -/
theorem C06_two_objects_lock : ∀ (idna : Idna) (opsD opsS : List Op),
    (∀ op ∈ opsD, op.WF) → (∀ op ∈ opsS, op.WF) →
    let dst := run idna {} opsD
    let src := run idna {} opsS
    Lock (Impl.copyAssign dst src) ∧ Lock (Impl.copyConstruct src) ∧
    Lock (Impl.moveAssign src).1 ∧ Lock (Impl.moveAssign src).2 ∧
    Lock (Impl.safeAssign dst src).1 ∧ Lock (Impl.safeAssign dst src).2 := by
  intro idna opsD opsS _ hS
  have hs := run_lockS idna opsS {} lockS_init hS
  exact ⟨(copyAssign_lockS _ _ hs).lock, (copyConstruct_lockS _ hs).lock, (moveAssign_lockS _ hs).1.lock,
    (moveAssign_lockS _ hs).2.lock, (safeAssign_lockS _ _ hs).1.lock, (safeAssign_lockS _ _ hs).2.lock⟩

/-- A copy never shares the params object: the copy-constructed URL has the record and NO params object
    (it creates its own from its own query on first use).

    Isolation — "a params object updates the URL that owns it and no other object" — holds in this
    value-semantics model by construction: `UrlObj.spApply` takes one object and returns only the new
    state of that object (the owner); there is no operation through which a params mutation could reach
    a second `UrlObj`.  What the model does check is that no operation hands the SAME params content to
    two owners without re-establishing `Lock` for both (`C06_two_objects`). -/
theorem C06_copies_detached : ∀ src : UrlObj,
    (Impl.copyConstruct src).sp = none ∧ (Impl.copyConstruct src).url = src.url ∧
    ((Impl.copyConstruct src).searchParams.sp.map (·.list)) =
      some (Impl.formParse false (Impl.queryBytes src.url)) :=
  fun _ => ⟨rfl, rfl, rfl⟩

-- src: the state after 10 operations (valid, with params); dst: a valid URL whose params object exists
private def c06Src : UrlObj :=
  { url := some (c06Foo (asciiStr "bar ") (some (asciiStr "y=%ff")) (some (asciiStr "f"))),
    sp := some { list := [(asciiStr "y", [0xEF, 0xBF, 0xBD])], isSorted := false } }
private def c06Dst : UrlObj :=
  { url := some (c06Http [[]] (some (asciiStr "a=1")) none),
    sp := some { list := [(asciiStr "a", asciiStr "1")], isSorted := false } }

example : LockS c06Src := by
  rw [c06Src, ← c06History_10]; exact C06_inv stubIdna {} _ C06_init (by decide)
example : Impl.copyAssign c06Dst c06Src = c06Src ∧
    Impl.copyConstruct c06Src = { url := c06Src.url, sp := none } ∧
    Impl.moveAssign c06Src = (c06Src, {}) ∧
    Impl.safeAssign c06Dst c06Src =
      (c06Src, { url := none, sp := some { list := [], isSorted := false } }) := by decide
-- destination with params, source without: the destination's params are re-parsed from the new query
example : Impl.copyAssign c06Dst { url := c06Src.url, sp := none } =
    { url := c06Src.url, sp := some { list := [(asciiStr "y", [0xEF, 0xBF, 0xBD])], isSorted := false } } := by
  simp only [Impl.copyAssign, c06Dst, c06Src, UrlObj.reparseParams, Upa.Proofs.C15.formParse_eqK]; decide
-- a copy, mutated through ITS params object: the copy's query changes, the source value is what it was
example :
    let copy := Impl.copyConstruct c06Dst
    let copy' := copy.spApply (·.append (asciiStr "z") [])
    copy.sp = none ∧ copy'.url.bind (·.query) = some (asciiStr "a=1&z=") ∧
    c06Dst.url.bind (·.query) = some (asciiStr "a=1") := by
  simp only [Impl.copyConstruct, c06Dst, UrlObj.spApply, UrlObj.searchParams, Upa.Proofs.C15.formParse_eqK]
  decide

end Upa.Props

#print axioms Upa.Props.C06_WFB_scalar
#print axioms Upa.Props.C06_parse_wf
#print axioms Upa.Props.C06_parse_qbytes
#print axioms Upa.Props.C06_setters_keep_query
#print axioms Upa.Props.C06_init
#print axioms Upa.Props.C06_inv
#print axioms Upa.Props.C06_inv_lock
#print axioms Upa.Props.C06_step
#print axioms Upa.Props.C06_after_edit
#print axioms Upa.Props.C06_after_edit_parse
#print axioms Upa.Props.C06_illformed_counterexample
#print axioms Upa.Props.C06_two_objects
#print axioms Upa.Props.C06_two_objects_lock
#print axioms Upa.Props.C06_copies_detached
