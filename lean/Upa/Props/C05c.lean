import Upa.Props.C05
import Upa.Props.C02
import Upa.Props.C02b
import Upa.Props.C03
/-
  C05 — "a valid URL object is indistinguishable from one freshly parsed from its own href".
  At the level of the stored representation: the object's representation is `layout u` of its record
  (tied to the C++ by the hidden-state correspondence after every operation); parsing the stored
  string again — with no base or any base — yields a record with the SAME representation, for every URL
  in normal form, hence (C02b) for every parsed URL and every URL reached by setters, except the two
  Standard-made file exceptions.  Everything observable (getters, null/empty status, host type, path
  kind, equality and hash of the string, use as a base, further edits) is a function of the
  representation.
-/
namespace Upa.Props
open Upa Upa.Impl Upa.Proofs.C02 Upa.Proofs.C02b

/-- a fresh parse of the object's own href has the same representation -/
theorem C05_fresh_parse_same_representation (idna : Idna) (u : Url) (h : Norm idna u) (base : Option Url) :
    (Impl.parse idna .u8 (Impl.layout u).norm base).map Impl.layout = some (Impl.layout u) := by
  rw [C05_layout_href]
  have := C02_reparse idna u h base (by cases base <;> simp)
  rw [this]; rfl

/-- … in particular for every successfully parsed URL (any input, any encoding, any normal-form base) -/
theorem C05_parsed_equals_fresh_parse (idna : Idna) (hs : IdnaStable idna) (e : Enc) (units : List Nat)
    (base : Option Url) (u : Url) (hb : base = none ∨ ∃ b, base = some b ∧ Norm idna b)
    (hp : Impl.parse idna e units base = some u) (base' : Option Url) :
    (Impl.parse idna .u8 (Impl.layout u).norm base').map Impl.layout = some (Impl.layout u) :=
  C05_fresh_parse_same_representation idna u (C02_parse_norm idna hs e units base u hb hp) base'

/-- an empty / failed object is inert and a failing href setter changes nothing (restated from C03) -/
theorem C05_invalid_inert (idna : Idna) (sp : Option Params) (s : Setter) (e : Enc) (units : List Nat)
    (h : s ≠ .href) : UrlObj.set idna ⟨none, sp⟩ s e units = (⟨none, sp⟩, false) :=
  C03_invalid_inert idna sp s e units h

theorem C05_href_atomic (idna : Idna) (o : UrlObj) (e : Enc) (units : List Nat)
    (h : Impl.parse idna e units none = none) : o.set idna .href e units = (o, false) :=
  C03_href_atomic idna o e units h

#print axioms C05_fresh_parse_same_representation
#print axioms C05_parsed_equals_fresh_parse
#print axioms C05_invalid_inert
#print axioms C05_href_atomic
end Upa.Props
