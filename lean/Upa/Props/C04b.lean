import Upa.Proofs.Bounds
import Upa.Proofs.BoundsAgree
/-
  C04b — no out-of-bounds read or write in the pointer-arithmetic scanners.

  `Upa/Impl/Bounds.lean` holds BOUNDS-INSTRUMENTED models (namespace `Upa.Impl.B`): the input is an
  `Array Nat` with the valid range `[first, last)`, every element read goes through the checked accessor
  `rd` / `rdPrev` (outcome `.oob` outside the range), every access to a fixed-size local array or lookup
  table is checked against its declared size, and the control flow mirrors the C++ guard by guard.
  For every function:
    * `C04_inbounds_<name>` : `.oob` is unreachable for ALL inputs (under `first ≤ last ≤ a.size` and the
      documented precondition, if any);
    * `C04_terminates_<name>` (functions with loops): the fuel the model supplies is never exhausted;
    * `C04_ptrs_<name>` : `.badptr` is unreachable — every pointer the function FORMS by arithmetic
      (`++p`, `p + k`, `p += k`, `last - k`, `--p`; checked constructors `mkptr` / `mkptrSub`) lies in
      `[first, last]`, one past the end included, nothing beyond ([expr.add]);
    * `C04_old_ipv4_sentinel_badptr*`: the finding fixed by commit b0c7a48 — ipv4_parse used to form
      `last + 1` — as kernel-checked statements about the old code (`ipv4ParseOldSentinel`);
    * `C04_noassert_compare_by_code_units`: the one `assert` among these functions never fails;
    * an evaluated instance;
    * a NON-VACUITY example: the same model with ONE guard set to a wrong value (the optional last
      argument, whose default is what the C++ has) reaches `.oob` (or `.badptr`) on a concrete input —
      so the theorem really depends on that guard.
    * where it was cheap, `C04_agrees_<name>`: the instrumented model returns what the list model of
      `Upa/Impl/*.lean` returns on `slice a first last = (a.extract first last).toList` (a returned
      pointer `p` corresponds to the suffix `slice a p last`), so the in-bounds theorems are about the
      same functions the other properties are proved for.
  Helper lemmas (a small Hoare logic for the `R` monad): `Upa/Proofs/Bounds.lean`, `Upa/Proofs/BoundsAgree.lean`.
-/
namespace Upa.Props
open Upa Upa.Impl.B

/-! ### 0  the checked pointer constructors -/

example : mkptr 0 7 7 = .ok 7 := by decide              -- one past the end may be formed
example : mkptr 0 7 8 = .badptr := by decide            -- two past the end may not (`last + 1`)
example : mkptrSub 2 7 7 4 = .ok 3 := by decide         -- `last - 4`
example : mkptrSub 2 7 2 1 = .badptr := by decide       -- `first - 1` (plain `Nat` subtraction would say 1)
example : mkptrSub 0 3 3 4 = .badptr := by decide       -- `last - 4` with `last - first = 3` (would truncate to 0)

/-! ### 1, 2  url_utf.h  read_code_point (char, char16_t, char32_t) -/

/-- precondition `first < last`: every caller tests `it != last` / `it < last` first -/
theorem C04_inbounds_read_code_point_u8 : ∀ (a : Array Nat) (first last : Nat), first < last → last ≤ a.size →
    readU8 a first last ≠ .oob :=
  fun a f l h hl => R.sat_ne_oob (readU8_sat a f l h hl)
theorem C04_ptrs_read_code_point_u8 : ∀ (a : Array Nat) (first last : Nat), first < last → last ≤ a.size →
    readU8 a first last ≠ .badptr :=
  fun a f l h hl => R.sat_ne_badptr (readU8_sat a f l h hl)
/-- … and the pointer it returns is in `(first, last]` (progress, no overrun) -/
theorem C04_read_code_point_u8_advances : ∀ (a : Array Nat) (first last : Nat), first < last → last ≤ a.size →
    ∃ ok c p, readU8 a first last = .ok (ok, c, p) ∧ first < p ∧ p ≤ last := by
  intro a f l h hl
  obtain ⟨⟨ok, c, p⟩, hv, hp⟩ := readU8_sat a f l h hl
  exact ⟨ok, c, p, hv, hp⟩
example : readU8 #[0xE2, 0x82, 0xAC] 0 3 = .ok (true, 0x20AC, 3) := by decide
example : readU8 #[0x41, 0xF0, 0x9F, 0x98] 1 4 = .ok (false, 0xFFFD, 4) := by decide   -- truncated 4-byte sequence
-- non-vacuity: without the `first != last` test a lone lead byte reads past the end
example : readU8 #[0xC3] 0 1 (slack := 1) = .oob := by decide
-- … and the precondition is needed
example : readU8 #[0x41] 1 1 = .oob := by decide
/-- agreement with `Impl.readU8` (which C10 proves equal to the Encoding Standard's UTF-8 decoder) -/
theorem C04_agrees_read_code_point_u8 : ∀ (a : Array Nat) (first last : Nat), first < last → last ≤ a.size →
    (∀ i, first ≤ i → i < last → a[i]! < 256) →
    ∃ ok c p, readU8 a first last = .ok (ok, c, p) ∧ Impl.readU8 (slice a first last) = (ok, c, slice a p last) := by
  intro a f l h hl hb
  obtain ⟨⟨ok, c, p⟩, hv, hp⟩ := readU8_agrees a f l h hl hb
  exact ⟨ok, c, p, hv, hp⟩

theorem C04_inbounds_read_code_point_u16 : ∀ (a : Array Nat) (first last : Nat), first < last → last ≤ a.size →
    readU16 a first last ≠ .oob :=
  fun a f l h hl => R.sat_ne_oob (readU16_sat a f l h hl)
theorem C04_ptrs_read_code_point_u16 : ∀ (a : Array Nat) (first last : Nat), first < last → last ≤ a.size →
    readU16 a first last ≠ .badptr :=
  fun a f l h hl => R.sat_ne_badptr (readU16_sat a f l h hl)
example : readU16 #[0xD83D, 0xDE00] 0 2 = .ok (true, 0x1F600, 2) := by decide
example : readU16 #[0xD83D] 0 1 = .ok (false, 0xFFFD, 1) := by decide
example : readU16 #[0xD83D] 0 1 (slack := 1) = .oob := by decide
theorem C04_agrees_read_code_point_u16 : ∀ (a : Array Nat) (first last : Nat), first < last → last ≤ a.size →
    ∃ ok c p, readU16 a first last = .ok (ok, c, p) ∧ Impl.readU16 (slice a first last) = (ok, c, slice a p last) := by
  intro a f l h hl
  obtain ⟨⟨ok, c, p⟩, hv, hp⟩ := readU16_agrees a f l h hl
  exact ⟨ok, c, p, hv, hp⟩

theorem C04_inbounds_read_code_point_u32 : ∀ (a : Array Nat) (first last : Nat), first < last → last ≤ a.size →
    readU32 a first last ≠ .oob :=
  fun a f l h hl => R.sat_ne_oob (readU32_sat a f l h hl)
theorem C04_ptrs_read_code_point_u32 : ∀ (a : Array Nat) (first last : Nat), first < last → last ≤ a.size →
    readU32 a first last ≠ .badptr :=
  fun a f l h hl => R.sat_ne_badptr (readU32_sat a f l h hl)
example : readU32 #[0x1F600] 0 1 = .ok (true, 0x1F600, 1) := by decide
example : readU32 #[0x1F600] 1 1 = .oob := by decide          -- the only guard is the precondition
theorem C04_agrees_read_code_point_u32 : ∀ (a : Array Nat) (first last : Nat), first < last → last ≤ a.size →
    ∃ ok c p, readU32 a first last = .ok (ok, c, p) ∧ Impl.readU32 (slice a first last) = (ok, c, slice a p last) := by
  intro a f l h hl
  obtain ⟨⟨ok, c, p⟩, hv, hp⟩ := readU32_agrees a f l h hl
  exact ⟨ok, c, p, hv, hp⟩

/-! ### 3  src/url_utf.cpp  check_fix_utf8, compare_by_code_units -/

theorem C04_inbounds_check_fix_utf8 : ∀ (a : Array Nat) (first last : Nat), first ≤ last → last ≤ a.size →
    checkFixUtf8 a first last ≠ .oob :=
  fun a f l h hl => R.sat_ne_oob (checkFixUtf8_sat a f l h hl)
theorem C04_ptrs_check_fix_utf8 : ∀ (a : Array Nat) (first last : Nat), first ≤ last → last ≤ a.size →
    checkFixUtf8 a first last ≠ .badptr :=
  fun a f l h hl => R.sat_ne_badptr (checkFixUtf8_sat a f l h hl)
theorem C04_terminates_check_fix_utf8 : ∀ (a : Array Nat) (first last : Nat), first ≤ last → last ≤ a.size →
    checkFixUtf8 a first last ≠ .hang :=
  fun a f l h hl => R.sat_ne_hang (checkFixUtf8_sat a f l h hl)
example : checkFixUtf8 #[0x41, 0xE2, 0x82, 0x42, 0xFF] 0 5 = .ok [0x41, 0xEF, 0xBF, 0xBD, 0x42, 0xEF, 0xBF, 0xBD] := by
  decide
example : checkFixUtf8 #[0x41] 0 1 (slack := 1) = .oob := by decide      -- `it != last` off by one

theorem C04_inbounds_compare_by_code_units : ∀ (a1 : Array Nat) (first1 last1 : Nat) (a2 : Array Nat)
    (first2 last2 : Nat), first1 ≤ last1 → last1 ≤ a1.size → first2 ≤ last2 → last2 ≤ a2.size →
    compareByCodeUnits a1 first1 last1 a2 first2 last2 ≠ .oob :=
  fun a1 f1 l1 a2 f2 l2 h1 hl1 h2 hl2 => R.wsat_ne_oob (compareByCodeUnits_wsat a1 f1 l1 a2 f2 l2 h1 hl1 h2 hl2)
theorem C04_ptrs_compare_by_code_units : ∀ (a1 : Array Nat) (first1 last1 : Nat) (a2 : Array Nat)
    (first2 last2 : Nat), first1 ≤ last1 → last1 ≤ a1.size → first2 ≤ last2 → last2 ≤ a2.size →
    compareByCodeUnits a1 first1 last1 a2 first2 last2 ≠ .badptr :=
  fun a1 f1 l1 a2 f2 l2 h1 hl1 h2 hl2 => R.wsat_ne_badptr (compareByCodeUnits_wsat a1 f1 l1 a2 f2 l2 h1 hl1 h2 hl2)
theorem C04_terminates_compare_by_code_units : ∀ (a1 : Array Nat) (first1 last1 : Nat) (a2 : Array Nat)
    (first2 last2 : Nat), first1 ≤ last1 → last1 ≤ a1.size → first2 ≤ last2 → last2 ≤ a2.size →
    compareByCodeUnits a1 first1 last1 a2 first2 last2 ≠ .hang :=
  fun a1 f1 l1 a2 f2 l2 h1 hl1 h2 hl2 => R.wsat_ne_hang (compareByCodeUnits_wsat a1 f1 l1 a2 f2 l2 h1 hl1 h2 hl2)
/-- the only `assert` in the scanned functions, `assert(detail::u16_is_lead(cu1))` (src/url_utf.cpp:94),
    never fails on byte buffers (`const char*`): the decoder yields scalar values only (via
    `C04_agrees_read_code_point_u8` and `Impl.readU8A_scalar`), so two different code points with the
    same first UTF-16 unit are both supplementary -/
theorem C04_noassert_compare_by_code_units : ∀ (a1 : Array Nat) (first1 last1 : Nat) (a2 : Array Nat)
    (first2 last2 : Nat), first1 ≤ last1 → last1 ≤ a1.size → first2 ≤ last2 → last2 ≤ a2.size →
    (∀ i, first1 ≤ i → i < last1 → a1[i]! < 256) → (∀ i, first2 ≤ i → i < last2 → a2[i]! < 256) →
    compareByCodeUnits a1 first1 last1 a2 first2 last2 ≠ .abort :=
  fun a1 f1 l1 a2 f2 l2 h1 hl1 h2 hl2 hb1 hb2 =>
    R.sat_ne_abort (compareByCodeUnits_sat a1 f1 l1 a2 f2 l2 h1 hl1 h2 hl2 hb1 hb2)
-- U+1F600 against U+1F601: same lead surrogate, the run passes through the assert
example : compareByCodeUnits #[0xF0, 0x9F, 0x98, 0x80] 0 4 #[0xF0, 0x9F, 0x98, 0x81] 0 4 = .ok (-1) := by decide
example : compareByCodeUnits #[0x61, 0xC3, 0xA9] 0 3 #[0x61, 0xC3, 0xA8] 0 3 = .ok 1 := by decide
example : compareByCodeUnits #[0x61, 0x62] 0 2 #[0x61] 0 1 = .ok 1 := by decide
example : compareByCodeUnits #[0x61, 0x62] 0 2 #[0x61] 0 1 (slack := 1) = .oob := by decide   -- `it2 != last2` off by one

/-! ### 4  url_percent_encode.h  decode_hex_to_byte, append_percent_decoded -/

theorem C04_inbounds_decode_hex_to_byte : ∀ (a : Array Nat) (first last : Nat), first ≤ last → last ≤ a.size →
    decodeHexToByte a first last ≠ .oob :=
  fun a f l h hl => R.sat_ne_oob (decodeHexToByte_sat a f l h hl)
theorem C04_ptrs_decode_hex_to_byte : ∀ (a : Array Nat) (first last : Nat), first ≤ last → last ≤ a.size →
    decodeHexToByte a first last ≠ .badptr :=
  fun a f l h hl => R.sat_ne_badptr (decodeHexToByte_sat a f l h hl)
example : decodeHexToByte (ofStr "%e2") 1 3 = .ok (some (0xE2, 3)) := by decide
example : decodeHexToByte (ofStr "%4") 1 2 = .ok none := by decide
example : decodeHexToByte (ofStr "%4") 1 2 (minLen := 1) = .oob := by decide     -- `last - first < 1`

theorem C04_inbounds_append_percent_decoded : ∀ (e : Enc) (a : Array Nat) (first last : Nat), first ≤ last →
    last ≤ a.size → appendPercentDecoded e a first last ≠ .oob :=
  fun e a f l h hl => R.sat_ne_oob (appendPercentDecoded_sat e a f l h hl)
theorem C04_ptrs_append_percent_decoded : ∀ (e : Enc) (a : Array Nat) (first last : Nat), first ≤ last →
    last ≤ a.size → appendPercentDecoded e a first last ≠ .badptr :=
  fun e a f l h hl => R.sat_ne_badptr (appendPercentDecoded_sat e a f l h hl)
theorem C04_terminates_append_percent_decoded : ∀ (e : Enc) (a : Array Nat) (first last : Nat), first ≤ last →
    last ≤ a.size → appendPercentDecoded e a first last ≠ .hang :=
  fun e a f l h hl => R.sat_ne_hang (appendPercentDecoded_sat e a f l h hl)
example : appendPercentDecoded .u8 (ofStr "a%41%e2%82%ac%zz%4") 0 18 =
    .ok [0x61, 0x41, 0xE2, 0x82, 0xAC, 0x25, 0x7A, 0x7A, 0x25, 0x34] := by decide
example : appendPercentDecoded .u8 #[0x80] 0 1 (back := 0) = .oob := by decide   -- the `--it` forgotten

/-! ### 5  util.h  has_xn_label -/

theorem C04_inbounds_has_xn_label : ∀ (a : Array Nat) (first last : Nat), first ≤ last → last ≤ a.size →
    hasXnLabel a first last ≠ .oob :=
  fun a f l h hl => R.sat_ne_oob (hasXnLabel_sat a f l h hl)
theorem C04_ptrs_has_xn_label : ∀ (a : Array Nat) (first last : Nat), first ≤ last → last ≤ a.size →
    hasXnLabel a first last ≠ .badptr :=
  fun a f l h hl => R.sat_ne_badptr (hasXnLabel_sat a f l h hl)
theorem C04_terminates_has_xn_label : ∀ (a : Array Nat) (first last : Nat), first ≤ last → last ≤ a.size →
    hasXnLabel a first last ≠ .hang :=
  fun a f l h hl => R.sat_ne_hang (hasXnLabel_sat a f l h hl)
example : hasXnLabel (ofStr "a.b.XN--a") 0 9 = .ok true := by decide
example : hasXnLabel (ofStr "a.b.xn-") 0 7 = .ok false := by decide      -- the last `p` is `last - 4`
-- `last - first >= 3`: already `end = last - 4` is a pointer before `first` (then p[3] would be read)
example : hasXnLabel (ofStr "xn-") 0 3 (minLen := 3) = .badptr := by decide
theorem C04_agrees_has_xn_label : ∀ (a : Array Nat) (first last : Nat), first ≤ last → last ≤ a.size →
    hasXnLabel a first last = .ok (Impl.hasXnLabel (slice a first last)) :=
  hasXnLabel_agrees

/-! ### 6  url_ip.h -/

theorem C04_inbounds_hostname_ends_in_a_number : ∀ (a : Array Nat) (first last : Nat), first ≤ last →
    last ≤ a.size → endsInNumber a first last ≠ .oob :=
  fun a f l h hl => R.sat_ne_oob (endsInNumber_sat a f l h hl)
theorem C04_ptrs_hostname_ends_in_a_number : ∀ (a : Array Nat) (first last : Nat), first ≤ last →
    last ≤ a.size → endsInNumber a first last ≠ .badptr :=
  fun a f l h hl => R.sat_ne_badptr (endsInNumber_sat a f l h hl)
theorem C04_terminates_hostname_ends_in_a_number : ∀ (a : Array Nat) (first last : Nat), first ≤ last →
    last ≤ a.size → endsInNumber a first last ≠ .hang :=
  fun a f l h hl => R.sat_ne_hang (endsInNumber_sat a f l h hl)
example : endsInNumber (ofStr "a.0x1f.") 0 7 = .ok true := by decide
example : endsInNumber (ofStr "0") 0 1 = .ok true := by decide
example : endsInNumber (ofStr ".") 0 1 = .ok false := by decide
example : endsInNumber (ofStr "0") 0 1 (minLen := 1) = .oob := by decide  -- `len >= 1`: start_of_label[1] is read

theorem C04_inbounds_ipv4_parse_number : ∀ (a : Array Nat) (first last : Nat), first ≤ last → last ≤ a.size →
    ipv4ParseNumber a first last ≠ .oob :=
  fun a f l h hl => R.sat_ne_oob (ipv4ParseNumber_sat a f l h hl)
theorem C04_ptrs_ipv4_parse_number : ∀ (a : Array Nat) (first last : Nat), first ≤ last → last ≤ a.size →
    ipv4ParseNumber a first last ≠ .badptr :=
  fun a f l h hl => R.sat_ne_badptr (ipv4ParseNumber_sat a f l h hl)
theorem C04_terminates_ipv4_parse_number : ∀ (a : Array Nat) (first last : Nat), first ≤ last → last ≤ a.size →
    ipv4ParseNumber a first last ≠ .hang :=
  fun a f l h hl => R.sat_ne_hang (ipv4ParseNumber_sat a f l h hl)
example : ipv4ParseNumber (ofStr "0x1f") 0 4 = .ok (some 31) := by decide
example : ipv4ParseNumber (ofStr "0") 0 1 = .ok (some 0) := by decide
example : ipv4ParseNumber (ofStr "0") 0 1 (oneLen := 0) = .oob := by decide   -- without `len == 1`: first[1]
/-- agreement with `Impl.ipv4ParseNumber` (which C11 proves equal to the Standard's IPv4 number parser).
    The units must fit `unsigned char`: the hex branch casts `*it` to it ("safe because chars are
    ASCII" — ipv4_parse has filtered them). -/
theorem C04_agrees_ipv4_parse_number : ∀ (a : Array Nat) (first last : Nat), first ≤ last → last ≤ a.size →
    (∀ i, first ≤ i → i < last → a[i]! < 256) →
    ipv4ParseNumber a first last = .ok (Impl.ipv4ParseNumber (slice a first last)) :=
  ipv4ParseNumber_agrees

theorem C04_inbounds_ipv4_parse : ∀ (a : Array Nat) (first last : Nat), first ≤ last → last ≤ a.size →
    ipv4Parse a first last ≠ .oob :=
  fun a f l h hl => R.sat_ne_oob (ipv4Parse_sat a f l h hl)
theorem C04_ptrs_ipv4_parse : ∀ (a : Array Nat) (first last : Nat), first ≤ last → last ≤ a.size →
    ipv4Parse a first last ≠ .badptr :=
  fun a f l h hl => R.sat_ne_badptr (ipv4Parse_sat a f l h hl)
theorem C04_terminates_ipv4_parse : ∀ (a : Array Nat) (first last : Nat), first ≤ last → last ≤ a.size →
    ipv4Parse a first last ≠ .hang :=
  fun a f l h hl => R.sat_ne_hang (ipv4Parse_sat a f l h hl)
example : ipv4Parse (ofStr "0x7f.1") 0 6 = .ok (some 2130706433) := by decide
example : ipv4Parse (ofStr "1.2.3.4.") 0 8 = .ok (some 16909060) := by decide
example : ipv4Parse (ofStr "1.1.1.1.1.1.1") 0 13 = .ok none := by decide
-- `dot_count == 6` instead of `== 4`: the sixth dot writes part[6]
example : ipv4Parse (ofStr "1.1.1.1.1.1.1") 0 13 (maxDots := 6) = .oob := by decide

/-- FINDING (fixed by commit b0c7a48): before the fix ipv4_parse stored the sentinel
    `part[part_count] = last + 1`, a pointer TWO past the end of the input, which is undefined to form
    ([expr.add]) although it was never dereferenced.  `ipv4ParseOldSentinel` is the old code. -/
theorem C04_old_ipv4_sentinel_badptr :
    ∃ (a : Array Nat) (first last : Nat), first ≤ last ∧ last ≤ a.size ∧ ipv4ParseOldSentinel a first last = .badptr :=
  ⟨ofStr "1.2.3.4", 0, 7, by decide, by decide, by decide⟩
example : ipv4ParseOldSentinel (ofStr "1.2.3.4") 0 7 = .badptr := by decide
example : ipv4ParseOldSentinel (ofStr "1") 0 1 = .badptr := by decide
example : ipv4ParseOldSentinel (ofStr "1.2.3.4.") 0 8 = .ok (some 16909060) := by decide   -- trailing dot: no sentinel
example : ipv4Parse (ofStr "1.2.3.4") 0 7 = .ok (some 16909060) := by decide                -- the fixed code
/-- characterisation: EVERY non-empty input that gets past the splitting loop (only IPv4 characters,
    no empty part before a dot, at most four dots) and whose last part is not dropped reaches it … -/
theorem C04_old_ipv4_sentinel_badptr_all : ∀ (a : Array Nat) (first last dc : Nat) (part : Loc), first < last →
    last ≤ a.size → ipv4Scan a first last = .ok (some (dc, part)) → ¬ (dc > 0 ∧ part.get dc = last) →
    ipv4ParseOldSentinel a first last = .badptr :=
  fun a f l dc part hlt hl hscan hnd =>
    ipv4ParseOldSentinel_badptr a f l (by omega) (by omega) hl dc part hscan hnd
/-- … in particular every such input that does not end in a dot -/
theorem C04_old_ipv4_sentinel_badptr_no_trailing_dot : ∀ (a : Array Nat) (first last dc : Nat) (part : Loc),
    first < last → last ≤ a.size → a[last - 1]! ≠ 0x2E → ipv4Scan a first last = .ok (some (dc, part)) →
    ipv4ParseOldSentinel a first last = .badptr :=
  fun a f l dc part hlt hl hdot hscan =>
    ipv4ParseOldSentinel_badptr_of_no_trailing_dot a f l hlt hl hdot dc part hscan

theorem C04_inbounds_ipv6_parse : ∀ (a : Array Nat) (first last : Nat), first ≤ last → last ≤ a.size →
    ipv6Parse a first last ≠ .oob :=
  fun a f l h hl => R.sat_ne_oob (ipv6Parse_sat a f l h hl)
theorem C04_ptrs_ipv6_parse : ∀ (a : Array Nat) (first last : Nat), first ≤ last → last ≤ a.size →
    ipv6Parse a first last ≠ .badptr :=
  fun a f l h hl => R.sat_ne_badptr (ipv6Parse_sat a f l h hl)
theorem C04_terminates_ipv6_parse : ∀ (a : Array Nat) (first last : Nat), first ≤ last → last ≤ a.size →
    ipv6Parse a first last ≠ .hang :=
  fun a f l h hl => R.sat_ne_hang (ipv6Parse_sat a f l h hl)
example : ipv6Parse (ofStr "1:2::7:8") 0 8 = .ok (some [1, 2, 0, 0, 0, 0, 7, 8]) := by decide
example : ipv6Parse (ofStr "::ffff:1.2.3.4") 0 14 = .ok (some [0, 0, 0, 0, 0, 0xFFFF, 0x0102, 0x0304]) := by decide
example : ipv6Parse (ofStr "1:2:3:4:5:6:7:8:9") 0 17 = .ok none := by decide
example : ipv6Parse (ofStr ":") 0 1 = .ok none := by decide
-- `piece_index == 9` instead of `== 8`: the ninth piece writes address[8]
example : ipv6Parse (ofStr "1:2:3:4:5:6:7:8:9") 0 17 (maxPieces := 9) = .oob := by decide

/-! ### 7  url.h, url_search_params.h -/

theorem C04_inbounds_starts_with_windows_drive : ∀ (a : Array Nat) (first last : Nat), first ≤ last →
    last ≤ a.size → startsWithWindowsDrive a first last ≠ .oob :=
  fun a f l h hl => R.sat_ne_oob (startsWithWindowsDrive_sat a f l h hl)
theorem C04_ptrs_starts_with_windows_drive : ∀ (a : Array Nat) (first last : Nat), first ≤ last →
    last ≤ a.size → startsWithWindowsDrive a first last ≠ .badptr :=
  fun a f l h hl => R.sat_ne_badptr (startsWithWindowsDrive_sat a f l h hl)
example : startsWithWindowsDrive (ofStr "c:/x") 0 4 = .ok true := by decide
example : startsWithWindowsDrive (ofStr "c") 0 1 = .ok false := by decide
example : startsWithWindowsDrive (ofStr "c") 0 1 (minLen := 0) = .oob := by decide    -- `length > 0`: pointer[2]
theorem C04_agrees_starts_with_windows_drive : ∀ (a : Array Nat) (first last : Nat), first ≤ last → last ≤ a.size →
    startsWithWindowsDrive a first last = .ok (Impl.startsWithWindowsDrive (slice a first last)) :=
  startsWithWindowsDrive_agrees

theorem C04_inbounds_pathname_has_windows_drive : ∀ (a : Array Nat) (first last : Nat), first ≤ last →
    last ≤ a.size → pathnameHasWindowsDrive a first last ≠ .oob :=
  fun a f l h hl => R.sat_ne_oob (pathnameHasWindowsDrive_sat a f l h hl)
theorem C04_ptrs_pathname_has_windows_drive : ∀ (a : Array Nat) (first last : Nat), first ≤ last →
    last ≤ a.size → pathnameHasWindowsDrive a first last ≠ .badptr :=
  fun a f l h hl => R.sat_ne_badptr (pathnameHasWindowsDrive_sat a f l h hl)
example : pathnameHasWindowsDrive (ofStr "/c:/x") 0 5 = .ok true := by decide
example : pathnameHasWindowsDrive (ofStr "/c") 0 2 = .ok false := by decide
example : pathnameHasWindowsDrive (ofStr "/c") 0 2 (minLen := 1) = .oob := by decide  -- `length > 1`: pathname[3]
theorem C04_agrees_pathname_has_windows_drive : ∀ (a : Array Nat) (first last : Nat), first ≤ last → last ≤ a.size →
    pathnameHasWindowsDrive a first last = .ok (Impl.pathnameHasWindowsDrive (slice a first last)) :=
  pathnameHasWindowsDrive_agrees

theorem C04_inbounds_is_windows_drive_absolute_path : ∀ (a : Array Nat) (first last : Nat), first ≤ last →
    last ≤ a.size → isWindowsDriveAbsolutePath a first last ≠ .oob :=
  fun a f l h hl => R.sat_ne_oob (isWindowsDriveAbsolutePath_sat a f l h hl)
theorem C04_ptrs_is_windows_drive_absolute_path : ∀ (a : Array Nat) (first last : Nat), first ≤ last →
    last ≤ a.size → isWindowsDriveAbsolutePath a first last ≠ .badptr :=
  fun a f l h hl => R.sat_ne_badptr (isWindowsDriveAbsolutePath_sat a f l h hl)
example : isWindowsDriveAbsolutePath (ofStr "c:\\x") 0 4 = .ok (some 3) := by decide
example : isWindowsDriveAbsolutePath (ofStr "c:") 0 2 = .ok none := by decide
example : isWindowsDriveAbsolutePath (ofStr "c:") 0 2 (minLen := 1) = .oob := by decide   -- `last - pointer > 1`
theorem C04_agrees_is_windows_drive_absolute_path : ∀ (a : Array Nat) (first last : Nat), first ≤ last →
    last ≤ a.size → ∃ o, isWindowsDriveAbsolutePath a first last = .ok o ∧
      o.map (fun p => slice a p last) = Impl.isWindowsDriveAbsolutePath (slice a first last) :=
  isWindowsDriveAbsolutePath_agrees

theorem C04_inbounds_has_dot_dot_segment : ∀ (isSl : Nat → Bool) (a : Array Nat) (first last : Nat), first ≤ last →
    last ≤ a.size → hasDotDotSegment isSl a first last ≠ .oob :=
  fun s a f l h hl => R.sat_ne_oob (hasDotDotSegment_sat s a f l h hl)
theorem C04_ptrs_has_dot_dot_segment : ∀ (isSl : Nat → Bool) (a : Array Nat) (first last : Nat), first ≤ last →
    last ≤ a.size → hasDotDotSegment isSl a first last ≠ .badptr :=
  fun s a f l h hl => R.sat_ne_badptr (hasDotDotSegment_sat s a f l h hl)
theorem C04_terminates_has_dot_dot_segment : ∀ (isSl : Nat → Bool) (a : Array Nat) (first last : Nat),
    first ≤ last → last ≤ a.size → hasDotDotSegment isSl a first last ≠ .hang :=
  fun s a f l h hl => R.sat_ne_hang (hasDotDotSegment_sat s a f l h hl)
example : hasDotDotSegment Impl.isWindowsSlash (ofStr "a/b/..") 0 6 = .ok true := by decide
example : hasDotDotSegment Impl.isWindowsSlash (ofStr "../a..b/.") 0 9 = .ok true := by decide
example : hasDotDotSegment Impl.isWindowsSlash (ofStr "a/..b/.") 0 7 = .ok false := by decide
-- without `last - ptr == 2 ||`: ptr[2] is read behind a trailing ".."
example : hasDotDotSegment Impl.isWindowsSlash (ofStr "a/b/..") 0 6 (tailLen := 0) = .oob := by decide
theorem C04_agrees_has_dot_dot_segment : ∀ (isSl : Nat → Bool) (a : Array Nat) (first last : Nat), first ≤ last →
    last ≤ a.size → hasDotDotSegment isSl a first last = .ok (Impl.hasDotDotSegment isSl none (slice a first last)) :=
  hasDotDotSegment_agrees

theorem C04_inbounds_is_unc_path : ∀ (a : Array Nat) (first last : Nat), first ≤ last → last ≤ a.size →
    isUncPath a first last ≠ .oob :=
  fun a f l h hl => R.sat_ne_oob (isUncPath_sat a f l h hl)
theorem C04_ptrs_is_unc_path : ∀ (a : Array Nat) (first last : Nat), first ≤ last → last ≤ a.size →
    isUncPath a first last ≠ .badptr :=
  fun a f l h hl => R.sat_ne_badptr (isUncPath_sat a f l h hl)
theorem C04_terminates_is_unc_path : ∀ (a : Array Nat) (first last : Nat), first ≤ last → last ≤ a.size →
    isUncPath a first last ≠ .hang :=
  fun a f l h hl => R.sat_ne_hang (isUncPath_sat a f l h hl)
example : isUncPath (ofStr "host\\share\\x") 0 12 = .ok (some 10) := by decide
example : isUncPath (ofStr "c:\\share") 0 8 = .ok none := by decide
-- without `if (pcend == last) break;` the next `start` is `last + 1`
example : isUncPath (ofStr "h") 0 1 (slack := 1) = .badptr := by decide

/-- `escaped_dot(pointer)` has no guard of its own: the callers pass at least three units -/
theorem C04_inbounds_escaped_dot : ∀ (a : Array Nat) (first last p : Nat), first ≤ p → p + 3 ≤ last →
    last ≤ a.size → escapedDot a first last p ≠ .oob :=
  fun a f l p h1 h2 hl => R.sat_ne_oob (escapedDot_sat a f l p hl h1 h2)
theorem C04_ptrs_escaped_dot : ∀ (a : Array Nat) (first last p : Nat), first ≤ p → p + 3 ≤ last →
    last ≤ a.size → escapedDot a first last p ≠ .badptr :=
  fun a f l p h1 h2 hl => R.sat_ne_badptr (escapedDot_sat a f l p hl h1 h2)
example : escapedDot (ofStr "%2E") 0 3 0 = .ok true := by decide
example : escapedDot (ofStr "%2") 0 2 0 = .oob := by decide               -- the precondition is needed

theorem C04_inbounds_double_dot : ∀ (a : Array Nat) (first last : Nat), first ≤ last → last ≤ a.size →
    doubleDot a first last ≠ .oob :=
  fun a f l h hl => R.sat_ne_oob (doubleDot_sat a f l h hl)
theorem C04_ptrs_double_dot : ∀ (a : Array Nat) (first last : Nat), first ≤ last → last ≤ a.size →
    doubleDot a first last ≠ .badptr :=
  fun a f l h hl => R.sat_ne_badptr (doubleDot_sat a f l h hl)
example : doubleDot (ofStr ".%2e") 0 4 = .ok true := by decide
example : doubleDot (ofStr "%2E%2e") 0 6 = .ok true := by decide
example : doubleDot (ofStr ".%2") 0 3 = .ok false := by decide
example : doubleDot (ofStr ".%2") 0 3 (midLen := 3) = .oob := by decide   -- `case 3:` instead of `case 4:`
theorem C04_agrees_double_dot : ∀ (a : Array Nat) (first last : Nat), first ≤ last → last ≤ a.size →
    doubleDot a first last = .ok (Impl.doubleDot (slice a first last)) :=
  doubleDot_agrees

theorem C04_inbounds_single_dot : ∀ (a : Array Nat) (first last : Nat), first ≤ last → last ≤ a.size →
    singleDot a first last ≠ .oob :=
  fun a f l h hl => R.sat_ne_oob (singleDot_sat a f l h hl)
theorem C04_ptrs_single_dot : ∀ (a : Array Nat) (first last : Nat), first ≤ last → last ≤ a.size →
    singleDot a first last ≠ .badptr :=
  fun a f l h hl => R.sat_ne_badptr (singleDot_sat a f l h hl)
example : singleDot (ofStr "%2e") 0 3 = .ok true := by decide
example : singleDot (ofStr "%2") 0 2 (escLen := 2) = .oob := by decide    -- `case 2:` instead of `case 3:`
theorem C04_agrees_single_dot : ∀ (a : Array Nat) (first last : Nat), first ≤ last → last ≤ a.size →
    singleDot a first last = .ok (Impl.singleDot (slice a first last)) :=
  singleDot_agrees

theorem C04_inbounds_do_parse : ∀ (remQmark : Bool) (a : Array Nat) (first last : Nat), first ≤ last →
    last ≤ a.size → doParse remQmark a first last ≠ .oob :=
  fun q a f l h hl => R.sat_ne_oob (doParse_sat q a f l h hl)
theorem C04_ptrs_do_parse : ∀ (remQmark : Bool) (a : Array Nat) (first last : Nat), first ≤ last →
    last ≤ a.size → doParse remQmark a first last ≠ .badptr :=
  fun q a f l h hl => R.sat_ne_badptr (doParse_sat q a f l h hl)
theorem C04_terminates_do_parse : ∀ (remQmark : Bool) (a : Array Nat) (first last : Nat), first ≤ last →
    last ≤ a.size → doParse remQmark a first last ≠ .hang :=
  fun q a f l h hl => R.sat_ne_hang (doParse_sat q a f l h hl)
example : doParse true (ofStr "?a=b%20c&d=%zz&&e+f=%4") 0 22 =
    .ok [([0x61], [0x62, 0x20, 0x63]), ([0x64], [0x25, 0x7A, 0x7A]), ([0x65, 0x20, 0x66], [0x25, 0x34])] := by decide
example : doParse false (ofStr "%4") 0 2 (minDist := 1) = .oob := by decide   -- `std::distance(it, e) > 1`

#print axioms C04_inbounds_read_code_point_u8
#print axioms C04_read_code_point_u8_advances
#print axioms C04_inbounds_read_code_point_u16
#print axioms C04_inbounds_read_code_point_u32
#print axioms C04_inbounds_check_fix_utf8
#print axioms C04_terminates_check_fix_utf8
#print axioms C04_inbounds_compare_by_code_units
#print axioms C04_terminates_compare_by_code_units
#print axioms C04_noassert_compare_by_code_units
#print axioms C04_inbounds_decode_hex_to_byte
#print axioms C04_inbounds_append_percent_decoded
#print axioms C04_terminates_append_percent_decoded
#print axioms C04_inbounds_has_xn_label
#print axioms C04_terminates_has_xn_label
#print axioms C04_inbounds_hostname_ends_in_a_number
#print axioms C04_terminates_hostname_ends_in_a_number
#print axioms C04_inbounds_ipv4_parse_number
#print axioms C04_terminates_ipv4_parse_number
#print axioms C04_inbounds_ipv4_parse
#print axioms C04_terminates_ipv4_parse
#print axioms C04_inbounds_ipv6_parse
#print axioms C04_terminates_ipv6_parse
#print axioms C04_inbounds_starts_with_windows_drive
#print axioms C04_inbounds_pathname_has_windows_drive
#print axioms C04_inbounds_is_windows_drive_absolute_path
#print axioms C04_inbounds_has_dot_dot_segment
#print axioms C04_terminates_has_dot_dot_segment
#print axioms C04_inbounds_is_unc_path
#print axioms C04_terminates_is_unc_path
#print axioms C04_inbounds_escaped_dot
#print axioms C04_inbounds_double_dot
#print axioms C04_inbounds_single_dot
#print axioms C04_inbounds_do_parse
#print axioms C04_terminates_do_parse
#print axioms C04_agrees_read_code_point_u8
#print axioms C04_agrees_read_code_point_u16
#print axioms C04_agrees_read_code_point_u32
#print axioms C04_agrees_has_xn_label
#print axioms C04_agrees_starts_with_windows_drive
#print axioms C04_agrees_pathname_has_windows_drive
#print axioms C04_agrees_is_windows_drive_absolute_path
#print axioms C04_agrees_double_dot
#print axioms C04_agrees_has_dot_dot_segment
#print axioms C04_agrees_ipv4_parse_number
#print axioms C04_agrees_single_dot
#print axioms C04_ptrs_read_code_point_u8
#print axioms C04_ptrs_read_code_point_u16
#print axioms C04_ptrs_read_code_point_u32
#print axioms C04_ptrs_check_fix_utf8
#print axioms C04_ptrs_compare_by_code_units
#print axioms C04_ptrs_decode_hex_to_byte
#print axioms C04_ptrs_append_percent_decoded
#print axioms C04_ptrs_has_xn_label
#print axioms C04_ptrs_hostname_ends_in_a_number
#print axioms C04_ptrs_ipv4_parse_number
#print axioms C04_ptrs_ipv4_parse
#print axioms C04_old_ipv4_sentinel_badptr
#print axioms C04_old_ipv4_sentinel_badptr_all
#print axioms C04_old_ipv4_sentinel_badptr_no_trailing_dot
#print axioms C04_ptrs_ipv6_parse
#print axioms C04_ptrs_starts_with_windows_drive
#print axioms C04_ptrs_pathname_has_windows_drive
#print axioms C04_ptrs_is_windows_drive_absolute_path
#print axioms C04_ptrs_has_dot_dot_segment
#print axioms C04_ptrs_is_unc_path
#print axioms C04_ptrs_escaped_dot
#print axioms C04_ptrs_double_dot
#print axioms C04_ptrs_single_dot
#print axioms C04_ptrs_do_parse
end Upa.Props
