import Upa.Proofs.Canon
/-
  C08 — every valid URL is in canonical, delimiter-safe form: the executable predicate `Impl.Canon`
  (Upa/Impl/Canon.lean) holds for every URL the parser model returns (given a canonical base) and is
  kept by every setter and by `url_search_params::update`.
  Helper lemmas: Upa/Proofs/Canon.lean (namespace Upa.Proofs.C08).

  No hypothesis on the input code units / scalar values is needed anywhere: the model's
  `encodeUtf8Char` emits bytes < 256 for EVERY `Nat`, so each `%XX` is `%` + two upper-case hex digits.

  `IdnaCanon idna` (Upa/Proofs/Canon.lean) is the only assumption on the IDNA parameter:
      out_ascii : ∀ s r, idna s = some r → r ≠ [] ∧ ∀ c ∈ r, c < 0x80 ∧ isUpperAlpha c = false
  (ToASCII output is non-empty lower-case ASCII; the forbidden-domain check is done by the code itself).

  Strings used in the examples (the kernel cannot evaluate `asciiStr "…"`, so they are spelled out):
    sampleUrl  = "http://EXAMPLE.com:80/a/../b c?q'#f g"
    sampleRel  = "../x y?#"
-/
namespace Upa.Props
open Upa.Proofs.C08 (IdnaCanon sampleIdna sampleIdna_canon)

/-! ### 1. output alphabets of the encode loops, in the form `Canon` uses them -/

/-- credentials: printable, none of `/ : @ ? #` -/
theorem C08_userinfo_alphabet :
    ∀ s : List Nat, Impl.userinfoOk (Impl.percentEncode Impl.userinfoNoEnc s) = true :=
  fun s => Proofs.C08.userinfo_all s

-- "a:/@?#%" U+00E9 DEL ' ' U+110000(not a scalar value)
example : Impl.percentEncode Impl.userinfoNoEnc [0x61, 0x3A, 0x2F, 0x40, 0x3F, 0x23, 0x25, 0xE9, 0x7F, 0x20] =
    [0x61, 0x25, 0x33, 0x41, 0x25, 0x32, 0x46, 0x25, 0x34, 0x30, 0x25, 0x33, 0x46, 0x25, 0x32, 0x33, 0x25,
     0x25, 0x43, 0x33, 0x25, 0x41, 0x39, 0x25, 0x37, 0x46, 0x25, 0x32, 0x30] := by decide +kernel
example : Impl.userinfoOk (Impl.percentEncode Impl.userinfoNoEnc [0x110000, 0xD800, 2^40]) = true := by
  decide +kernel

/-- path segment: printable, none of `? # /` — `/` is in the path no-encode set, the segment is cut at it -/
theorem C08_path_alphabet :
    ∀ s : List Nat, (∀ c ∈ s, c ≠ 0x2F) →
      (Impl.percentEncode Impl.pathNoEnc s).all
        (fun c => Impl.isPrintable c && c != 0x3F && c != 0x23 && c != 0x2F) = true :=
  fun s hs => Proofs.C08.path_all s hs

-- "a b?#\{}" U+20AC
example : ∀ c ∈ ([0x61, 0x20, 0x62, 0x3F, 0x23, 0x5C, 0x7B, 0x7D, 0x20AC] : List Nat), c ≠ 0x2F := by decide
example : Impl.percentEncode Impl.pathNoEnc [0x61, 0x20, 0x62, 0x3F, 0x23, 0x5C, 0x7B, 0x7D, 0x20AC] =
    [0x61, 0x25, 0x32, 0x30, 0x62, 0x25, 0x33, 0x46, 0x25, 0x32, 0x33, 0x5C, 0x25, 0x37, 0x42, 0x25, 0x37, 0x44,
     0x25, 0x45, 0x32, 0x25, 0x38, 0x32, 0x25, 0x41, 0x43] := by decide +kernel
-- the hypothesis is needed: `/` passes through the path encoder
example : Impl.percentEncode Impl.pathNoEnc [0x2F] = [0x2F] := by decide +kernel

/-- query of a non-special URL: printable, no `#` -/
theorem C08_query_alphabet :
    ∀ s : List Nat,
      (Impl.percentEncode Impl.queryNoEnc s).all
        (fun c => Impl.isPrintable c && c != 0x23 && (c != 0x27 || !false)) = true :=
  fun s => Proofs.C08.query_all s

/-- query of a special URL: additionally no `'` -/
theorem C08_specialQuery_alphabet :
    ∀ s : List Nat,
      (Impl.percentEncode Impl.specialQueryNoEnc s).all
        (fun c => Impl.isPrintable c && c != 0x23 && (c != 0x27 || !true)) = true :=
  fun s => Proofs.C08.specialQuery_all s

-- "q'# <>" : `'` stays in a non-special query, is encoded in a special one
example : Impl.percentEncode Impl.queryNoEnc [0x71, 0x27, 0x23, 0x20, 0x3C, 0x3E] =
    [0x71, 0x27, 0x25, 0x32, 0x33, 0x25, 0x32, 0x30, 0x25, 0x33, 0x43, 0x25, 0x33, 0x45] := by decide +kernel
example : Impl.percentEncode Impl.specialQueryNoEnc [0x71, 0x27, 0x23, 0x20, 0x3C, 0x3E] =
    [0x71, 0x25, 0x32, 0x37, 0x25, 0x32, 0x33, 0x25, 0x32, 0x30, 0x25, 0x33, 0x43, 0x25, 0x33, 0x45] := by
  decide +kernel

/-- fragment: printable -/
theorem C08_fragment_alphabet :
    ∀ s : List Nat, (Impl.percentEncode Impl.fragmentNoEnc s).all Impl.isPrintable = true :=
  fun s => Proofs.C08.fragment_all s

-- "f g`#?" : `#` and `?` stay, space and backtick are encoded
example : Impl.percentEncode Impl.fragmentNoEnc [0x66, 0x20, 0x67, 0x60, 0x23, 0x3F] =
    [0x66, 0x25, 0x32, 0x30, 0x67, 0x25, 0x36, 0x30, 0x23, 0x3F] := by decide +kernel

/-- opaque path: printable or space, no `? #` — the C0 encoder keeps 0x20..0x7E, `?` and `#` are cut
    before it runs -/
theorem C08_opaquePath_alphabet :
    ∀ s : List Nat, (∀ c ∈ s, c ≠ 0x3F ∧ c ≠ 0x23) →
      (Impl.percentEncodeC0 s).all
        (fun c => (Impl.isPrintable c || c == 0x20) && c != 0x3F && c != 0x23) = true :=
  fun s hs => Proofs.C08.opaque_all s hs

-- "a b" TAB DEL U+00E9
example : ∀ c ∈ ([0x61, 0x20, 0x62, 0x09, 0x7F, 0xE9] : List Nat), c ≠ 0x3F ∧ c ≠ 0x23 := by decide
example : Impl.percentEncodeC0 [0x61, 0x20, 0x62, 0x09, 0x7F, 0xE9] =
    [0x61, 0x20, 0x62, 0x25, 0x30, 0x39, 0x25, 0x37, 0x46, 0x25, 0x43, 0x33, 0x25, 0x41, 0x39] := by
  decide +kernel
-- the hypothesis is needed
example : Impl.percentEncodeC0 [0x3F, 0x23] = [0x3F, 0x23] := by decide +kernel

/-- opaque host: printable and no forbidden host code point, when the input has none (space included) -/
theorem C08_opaqueHost_alphabet :
    ∀ s : List Nat, (∀ c ∈ s, Spec.forbiddenHost c = false) →
      (Impl.percentEncodeC0 s).all (fun c => Impl.isPrintable c && !Spec.forbiddenHost c) = true :=
  fun s hs => Proofs.C08.opaqueHost_all s hs

example : ∀ c ∈ ([0x61, 0x21, 0x7F, 0x1F, 0xE9] : List Nat), Spec.forbiddenHost c = false := by decide
example : Impl.percentEncodeC0 [0x61, 0x21, 0x7F, 0x1F, 0xE9] =
    [0x61, 0x21, 0x25, 0x37, 0x46, 0x25, 0x31, 0x46, 0x25, 0x43, 0x33, 0x25, 0x41, 0x39] := by decide +kernel

/-! ### 2. the host parser returns a canonical host -/

theorem C08_host_ok :
    ∀ idna, IdnaCanon idna → ∀ (s : List Nat) (o : Bool) (h : Host),
      Impl.parseHost idna s o = some h → Impl.hostOk h = true :=
  fun idna hi s o h hh => (Proofs.C08.C08_host idna hi s o h hh).1

/-- and the host text is empty only for empty input (kind `.empty`) -/
theorem C08_host_nonempty :
    ∀ idna, IdnaCanon idna → ∀ (s : List Nat) (o : Bool) (h : Host),
      Impl.parseHost idna s o = some h → s ≠ [] → h.text ≠ [] :=
  fun idna hi s o h hh => (Proofs.C08.C08_host idna hi s o h hh).2

-- the hypothesis on the IDNA parameter is satisfiable
example : IdnaCanon sampleIdna := sampleIdna_canon
-- "EXA.c" (fast path), "0x7f.1" (IPv4), "[::1]" (IPv6), "a!b" opaque, "" opaque
example : Impl.parseHost sampleIdna [0x45, 0x58, 0x41, 0x2E, 0x63] false =
    some { kind := .domain, text := [0x65, 0x78, 0x61, 0x2E, 0x63] } := by decide +kernel
example : Impl.parseHost sampleIdna [0x30, 0x78, 0x37, 0x66, 0x2E, 0x31] false =
    some { kind := .ipv4, text := [0x31, 0x32, 0x37, 0x2E, 0x30, 0x2E, 0x30, 0x2E, 0x31] } := by decide +kernel
example : Impl.parseHost sampleIdna [0x5B, 0x3A, 0x3A, 0x31, 0x5D] false =
    some { kind := .ipv6, text := [0x5B, 0x3A, 0x3A, 0x31, 0x5D] } := by decide +kernel
example : Impl.parseHost sampleIdna [0x61, 0x21, 0x7F] true =
    some { kind := .opaque, text := [0x61, 0x21, 0x25, 0x37, 0x46] } := by decide +kernel
example : Impl.parseHost sampleIdna [] true = some { kind := .empty, text := [] } := by decide +kernel
-- `hostOk` is a real restriction
example : Impl.hostOk { kind := .domain, text := [0x41] } = false ∧
    Impl.hostOk { kind := .opaque, text := [0x20] } = false ∧
    Impl.hostOk { kind := .ipv6, text := [0x5B, 0x47, 0x5D] } = false ∧
    Impl.hostOk { kind := .domain, text := [] } = false := by decide

/-! ### 3. every successfully parsed URL is canonical -/

theorem C08_parse_canon :
    ∀ idna, IdnaCanon idna → ∀ (e : Enc) (units : List Nat) (base : Option Url) (u : Url),
      (base = none ∨ ∃ b, base = some b ∧ Impl.Canon b = true) →
      Impl.parse idna e units base = some u → Impl.Canon u = true := by
  intro idna hi e units base u hb h
  refine Proofs.C08.parse_canon idna hi e units base ?_ u h
  intro b hbb
  rcases hb with hb | ⟨b', hb', hc⟩
  · rw [hb] at hbb; simp at hbb
  · rw [hb'] at hbb; simp only [Option.some.injEq] at hbb; subst hbb; exact hc

/-- "http://EXAMPLE.com:80/a/../b c?q'#f g" -/
def sampleUrl : List Nat :=
  [0x68, 0x74, 0x74, 0x70, 0x3A, 0x2F, 0x2F, 0x45, 0x58, 0x41, 0x4D, 0x50, 0x4C, 0x45, 0x2E, 0x63, 0x6F, 0x6D,
   0x3A, 0x38, 0x30, 0x2F, 0x61, 0x2F, 0x2E, 0x2E, 0x2F, 0x62, 0x20, 0x63, 0x3F, 0x71, 0x27, 0x23, 0x66, 0x20,
   0x67]
/-- "../x y?#" -/
def sampleRel : List Nat := [0x2E, 0x2E, 0x2F, 0x78, 0x20, 0x79, 0x3F, 0x23]

-- without a base: scheme lower-cased, default port dropped, `..` resolved, space / `'` encoded;
-- serialization "http://example.com/b%20c?q%27#f%20g"
example : Impl.parse sampleIdna .u8 sampleUrl none =
    some { scheme := [0x68, 0x74, 0x74, 0x70],
           host := some { kind := .domain,
                          text := [0x65, 0x78, 0x61, 0x6D, 0x70, 0x6C, 0x65, 0x2E, 0x63, 0x6F, 0x6D] },
           path := [[0x62, 0x25, 0x32, 0x30, 0x63]],
           query := some [0x71, 0x25, 0x32, 0x37],
           fragment := some [0x66, 0x25, 0x32, 0x30, 0x67] } := by decide +kernel
example : (Impl.parse sampleIdna .u8 sampleUrl none).map Impl.Canon = some true := by decide +kernel
-- with that (canonical) URL as the base: "http://example.com/x%20y?#"
example : ∃ b, Impl.parse sampleIdna .u8 sampleUrl none = some b ∧ Impl.Canon b = true ∧
    Impl.parse sampleIdna .u16 sampleRel (some b) =
      some { b with path := [[0x78, 0x25, 0x32, 0x30, 0x79]], query := some [], fragment := some [] } := by
  decide +kernel
-- "file://LOCALHOST/C|/x/../y" ↦ "file:///C:/y" (localhost dropped, drive letter normalised and kept)
example : (Impl.parse sampleIdna .u8 [0x66, 0x69, 0x6C, 0x65, 0x3A, 0x2F, 0x2F, 0x4C, 0x4F, 0x43, 0x41, 0x4C,
      0x48, 0x4F, 0x53, 0x54, 0x2F, 0x43, 0x7C, 0x2F, 0x78, 0x2F, 0x2E, 0x2E, 0x2F, 0x79] none).map
      (fun u => (Impl.serialize u, Impl.Canon u)) =
    some ([0x66, 0x69, 0x6C, 0x65, 0x3A, 0x2F, 0x2F, 0x2F, 0x43, 0x3A, 0x2F, 0x79], true) := by decide +kernel
-- "Ab://u s:p@h!:8/x?'" ↦ "ab://u%20s:p@h!:8/x?'" (non-special: opaque host, `'` stays in the query)
example : (Impl.parse sampleIdna .u8 [0x41, 0x62, 0x3A, 0x2F, 0x2F, 0x75, 0x20, 0x73, 0x3A, 0x70, 0x40, 0x68,
      0x21, 0x3A, 0x38, 0x2F, 0x78, 0x3F, 0x27] none).map (fun u => (Impl.serialize u, Impl.Canon u)) =
    some ([0x61, 0x62, 0x3A, 0x2F, 0x2F, 0x75, 0x25, 0x32, 0x30, 0x73, 0x3A, 0x70, 0x40, 0x68, 0x21, 0x3A, 0x38,
      0x2F, 0x78, 0x3F, 0x27], true) := by decide +kernel
-- `Canon` is a real restriction: an upper-case scheme, an explicit default port, a raw space in the query,
-- a special URL without host are all rejected
example : Impl.Canon { scheme := [0x41] } = false ∧
    Impl.Canon { scheme := [0x68, 0x74, 0x74, 0x70], host := some { kind := .domain, text := [0x61] },
                 port := some 80, path := [[]] } = false ∧
    Impl.Canon { scheme := [0x61], query := some [0x20] } = false ∧
    Impl.Canon { scheme := [0x68, 0x74, 0x74, 0x70], path := [[]] } = false ∧
    Impl.Canon { scheme := [0x61] } = true := by decide +kernel

/-! ### 4. the setters and `url_search_params::update` keep the URL canonical -/

/-- also when the setter reports failure: a failing state-override run may have written parts (exactly
    as in the Standard); whatever was written is canonical -/
theorem C08_set_canon :
    ∀ idna, IdnaCanon idna → ∀ (s : Impl.Setter) (e : Enc) (units : List Nat) (u : Url),
      Impl.Canon u = true → Impl.Canon (Impl.setValid idna s e units u).1 = true :=
  fun idna hi s e units u h => Proofs.C08.set_canon idna hi s e units u h

-- host setter with a bad port, "X.y:99999": reports failure, but has already written the host
example : ∃ b, Impl.parse sampleIdna .u8 sampleUrl none = some b ∧ Impl.Canon b = true ∧
    Impl.setValid sampleIdna .host .u8 [0x58, 0x2E, 0x79, 0x3A, 0x39, 0x39, 0x39, 0x39, 0x39] b =
      ({ b with host := some { kind := .domain, text := [0x78, 0x2E, 0x79] } }, false) := by
  decide +kernel
-- protocol setter "WSS:" and port setter "443" (the new default port is dropped)
example : ∃ b, Impl.parse sampleIdna .u8 sampleUrl none = some b ∧
    Impl.setValid sampleIdna .protocol .u8 [0x57, 0x53, 0x53, 0x3A] b = ({ b with scheme := [0x77, 0x73, 0x73] }, true) ∧
    Impl.setValid sampleIdna .port .u8 [0x34, 0x34, 0x33] { b with scheme := [0x77, 0x73, 0x73] } =
      ({ b with scheme := [0x77, 0x73, 0x73] }, true) ∧
    Impl.setValid sampleIdna .port .u8 [0x38, 0x30] { b with scheme := [0x77, 0x73, 0x73] } =
      ({ b with scheme := [0x77, 0x73, 0x73], port := some 80 }, true) := by
  decide +kernel

/-- `update` writes `formSerialize list` (bytes < 256) as the query, or removes the query -/
theorem C08_update_canon :
    ∀ o : Impl.UrlObj, (∀ u, o.url = some u → Impl.Canon u = true) →
      (∀ p, o.sp = some p → ∀ pr ∈ p.list, (∀ b ∈ pr.1, b < 256) ∧ (∀ b ∈ pr.2, b < 256)) →
      ∀ u', o.update.url = some u' → Impl.Canon u' = true :=
  fun o hu hsp => Proofs.C08.update_canon o hu hsp

/-- "a:x" -/
def sampleOpaque : Url := { scheme := [0x61], hasOpaquePath := true, opaquePath := [0x78] }

-- params [("a b", "'#")] on "a:x": query becomes "a+b=%27%23"
example : Impl.Canon sampleOpaque = true := by decide +kernel
example : (Impl.UrlObj.update
      { sp := some { list := [([0x61, 0x20, 0x62], [0x27, 0x23])] }, url := some sampleOpaque }).url =
    some { sampleOpaque with query := some [0x61, 0x2B, 0x62, 0x3D, 0x25, 0x32, 0x37, 0x25, 0x32, 0x33] } := by
  decide +kernel

end Upa.Props

#print axioms Upa.Props.C08_userinfo_alphabet
#print axioms Upa.Props.C08_path_alphabet
#print axioms Upa.Props.C08_query_alphabet
#print axioms Upa.Props.C08_specialQuery_alphabet
#print axioms Upa.Props.C08_fragment_alphabet
#print axioms Upa.Props.C08_opaquePath_alphabet
#print axioms Upa.Props.C08_opaqueHost_alphabet
#print axioms Upa.Props.C08_host_ok
#print axioms Upa.Props.C08_host_nonempty
#print axioms Upa.Props.C08_parse_canon
#print axioms Upa.Props.C08_set_canon
#print axioms Upa.Props.C08_update_canon
