import Upa.Proofs.BoundsUrlVerdictTop
import Upa.Props.C01
import Upa.Props.C04d
/-
  C04f — the bounds-instrumented model of `url_parser::url_parse` (`Upa/Impl/BoundsUrl.lean`, the model
  C04d proves free of out-of-bounds reads, bad pointers, hangs and null-base dereferences) takes the same
  branches and reaches the same verdict as the list model `Impl.urlParse` (`Upa/Impl/Url.lean`) every other
  theorem is about — for EVERY input, base, state override and URL under modification, in all three encodings.

  The instrumented model works on code units, the list model on the decoded scalar values
  (`Impl.prep e units = decode e (removeWs units)`).  Lemmas: `Upa/Proofs/BoundsUrlVerdict*.lean`:
  * `BoundsUrlVerdict`      : `Dl e a p q = decode e (slice a p q)`; delimiter scans on the units find the positions
                              `takeWhile` / `dropWhile` find on the decoded list (`Dl_scan_delim`, `Dl_scan_pos`, `Dl_peek`, …)
  * `BoundsUrlVerdictChain` : the chain of blocks cut into named suffixes; from path_start_state on both models answer ok
  * `…File`, `…Port`, `…Host`, `…Auth`, `…Rel`, `…Scheme` : one agreement lemma per state
                              (`sim_fileHost`, `sim_fileSlash`, `sim_file`, `sim_port`, `sim_host`, `sim_authority`, `sim_sais`,
                               `sim_sas`, `sim_relativeSlash`, `sim_relative`, `sim_pathOrAuthority`, `sim_sroa`, `sim_noScheme`,
                               `sim_scheme`): `k<State> c m = .ok (verdict of Impl.<state>State on the decoded rest at m.pointer)`
  * `…Top`                  : scheme_start_state / override dispatch, the whole chain, whitespace removal.

  The only hypothesis is `UnitsOk e units` (code units are in the range of their character type); no further
  hypothesis was needed, and no disagreement between the two models was found.
-/
namespace Upa.Props
open Upa Upa.Impl Upa.Impl.B Upa.Impl.B.UP

theorem unitsOk_uok {e : Enc} {l : List Nat} (h : UnitsOk e l) : Upa.Proofs.C10b.UOk e l := by
  cases e <;> exact h

/-- url_parse from its first line (whitespace removal, then the states), real host parser plugged in:
    the verdict of the instrumented model is the verdict of the list model on the prepared input. -/
theorem C04_agrees_url_parse : ∀ (idna : Idna) (e : Enc) (units : List Nat) (base : Option Url)
    (ov : Option Override) (u : Url), UnitsOk e units →
    urlParseVerdictB idna e units base ov u = some ((Impl.urlParse idna base ov u (Impl.prep e units)).out == .ok) :=
  fun idna e units base ov u h => urlParseVerdictB_agrees idna e units base ov u (unitsOk_uok h)

/-- stage 1 of the task (UTF-32 input; `UnitsOk .u32` is `True`): no hypothesis at all, ill-formed units
    (surrogates, values above U+10FFFF) included -/
theorem C04_agrees_url_parse_u32 : ∀ (idna : Idna) (units : List Nat) (base : Option Url)
    (ov : Option Override) (u : Url),
    urlParseVerdictB idna .u32 units base ov u =
      some ((Impl.urlParse idna base ov u (Impl.prep .u32 units)).out == .ok) :=
  fun idna units base ov u => C04_agrees_url_parse idna .u32 units base ov u trivial

/-- the chain of state blocks itself, on any sub-range `[first, last)` of any buffer, with any sufficient
    fuel: it runs to `.ok` and its verdict is the list model's verdict on the decoded sub-range -/
theorem C04_agrees_url_parse_range : ∀ (idna : Idna) (e : Enc) (a : Array Nat) (first last : Nat)
    (base : Option Url) (ov : Option Override) (u : Url) (fuel : Nat),
    first ≤ last → last ≤ a.size → fuel ≥ last - first + 1 → UnitsOk e a.toList →
    urlParseB e a first last ov (base.map BaseInfo.ofUrl) (UrlInfo.ofUrl u) (Oracles.real idna e a) fuel =
      .ok ((Impl.urlParse idna base ov u (Impl.decode e (slice a first last))).out == .ok) :=
  fun idna e a first last base ov u fuel h hl hf hu =>
    sim_urlParse ⟨idna, e, a, first, last, ov, base, u, fuel⟩ ⟨h, hl, by show last - first < fuel; omega, unitsOk_uok hu⟩

/-! hypotheses satisfiable on non-trivial inputs; instances -/

-- "http://h:8x/é?#" with a truncated UTF-8 sequence: bytes are bytes
example : UnitsOk .u8 [0x68,0x74,0x74,0x70,0x3A,0x2F,0x2F,0x68,0x3A,0x38,0x78,0x2F,0xC3,0xA9,0x3F,0xE2,0x82,0x23] := by
  intro x hx; simp at hx; omega
example : urlParseVerdictB c04dIdna .u8 [0x68,0x74,0x74,0x70,0x3A,0x2F,0x2F,0x68,0x3A,0x38,0x78,0x2F,0xC3,0xA9,0x3F,0xE2,0x82,0x23]
      none none {} =
    some ((Impl.urlParse c04dIdna none none {} (Impl.prep .u8
      [0x68,0x74,0x74,0x70,0x3A,0x2F,0x2F,0x68,0x3A,0x38,0x78,0x2F,0xC3,0xA9,0x3F,0xE2,0x82,0x23])).out == .ok) :=
  C04_agrees_url_parse _ _ _ _ _ _ (by intro x hx; simp at hx; omega)
-- both sides evaluated: port_invalid
example : urlParseVerdictB c04dIdna .u8 [0x68,0x74,0x74,0x70,0x3A,0x2F,0x2F,0x68,0x3A,0x38,0x78,0x2F,0xC3,0xA9,0x3F,0xE2,0x82,0x23]
      none none {} = some false := by decide +kernel
-- UTF-16 with a lone lead surrogate in the host of "a://\uD83D/": the opaque-host parser sees U+FFFD
example : UnitsOk .u16 [0x61,0x3A,0x2F,0x2F,0xD83D,0x2F] := by intro x hx; simp at hx; omega
example : urlParseVerdictB c04dIdna .u16 [0x61,0x3A,0x2F,0x2F,0xD83D,0x2F] none none {} =
    some ((Impl.urlParse c04dIdna none none {} (Impl.prep .u16 [0x61,0x3A,0x2F,0x2F,0xD83D,0x2F])).out == .ok) :=
  C04_agrees_url_parse _ _ _ _ _ _ (by intro x hx; simp at hx; omega)
-- "a://\uD83D:9\uD83D" (port followed by a lone surrogate): port_invalid in both
example : (urlParseVerdictB c04dIdna .u16 [0x61,0x3A,0x2F,0x2F,0x68,0x3A,0x39,0xD83D] none none {},
    (Impl.urlParse c04dIdna none none {} (Impl.prep .u16 [0x61,0x3A,0x2F,0x2F,0x68,0x3A,0x39,0xD83D])).out == .ok) =
    (some false, false) := by decide +kernel
-- a setter (state override) instance
example : urlParseVerdictB c04dIdna .u8 (asciiStr "h2:8080") none (some .host) c04dUH =
    some ((Impl.urlParse c04dIdna none (some .host) c04dUH (Impl.prep .u8 (asciiStr "h2:8080"))).out == .ok) :=
  C04_agrees_url_parse _ _ _ _ _ _ (by show ∀ x ∈ asciiStr "h2:8080", x < 256; decide)
-- a sub-range of a larger buffer
example : urlParseB .u8 (ofStr "??http://h/p#!!") 2 12 none none (UrlInfo.ofUrl {}) (Oracles.real c04dIdna .u8 (ofStr "??http://h/p#!!")) =
    .ok ((Impl.urlParse c04dIdna none none {} (Impl.decode .u8 (slice (ofStr "??http://h/p#!!") 2 12))).out == .ok) :=
  C04_agrees_url_parse_range c04dIdna .u8 _ 2 12 none none {} _ (by decide) (by decide) (by decide)
    (by show ∀ x ∈ (ofStr "??http://h/p#!!").toList, x < 256; decide)

#print axioms C04_agrees_url_parse
#print axioms C04_agrees_url_parse_u32
#print axioms C04_agrees_url_parse_range
#print axioms unitsOk_uok
end Upa.Props
