import Upa.Proofs.BoundsUrlTop
import Upa.Proofs.BoundsUrlAgree
/-
  C04d — no out-of-bounds read, no pointer outside `[first, last]`, no hang, no null `base` dereference in
  the main parser loop `url_parser::url_parse` (include/upa/url.h:1671-2389) and in the scans that run
  before it (`do_trim`, `do_remove_whitespace`).

  Model: `Upa/Impl/BoundsUrl.lean` (`urlParseB`: one function per `if (state == …)` block, chained in
  source order; every `*pointer` / `pointer[k]` an `rd`, every `pointer + k` / `++pointer` / `--pointer` a
  `mkptr`, every range handed to a callee a `sub`).  Lemmas: `Upa/Proofs/BoundsUrl*.lean` (each block keeps
  `first ≤ pointer ≤ last`).  The theorems hold for EVERY buffer, range, state override, base information,
  information about the URL being modified, and callee verdicts (`Oracles`: host parser, …).

  * `C04_inbounds_url_parse`   : `.oob` unreachable
  * `C04_ptrs_url_parse`       : `.badptr` unreachable
  * `C04_terminates_url_parse` : with any fuel `≥ last - first + 1` for each loop, `.hang` unreachable
  * `C04_nonull_url_parse`     : `.abort` (= `*base` with `base == nullptr`) unreachable
  * `C04_safe_url_parse`       : all four at once, for any sufficient fuel
  * `…_url_parse_ws`           : the same for url_parse from its first line (whitespace removal included)
  * `C04d_…_do_trim`, `C04d_…_do_remove_whitespace` (in bounds, pointers, termination, and agreement with the
    list models `Impl.doTrim` / `Impl.removeWs`)
  * non-vacuity: runs to `.ok`; each of the five optional guards set to a wrong value reaches `.oob` on an
    exactly sized input
  * cross-check: `urlParseVerdictB` (instrumented model with the REAL list-level host parser plugged in)
    against the verdict of the list model `Impl.urlParse`, on concrete inputs.
-/
namespace Upa.Props
open Upa Upa.Impl Upa.Impl.B Upa.Impl.B.UP

/-! ### url_parse -/

theorem C04_inbounds_url_parse : ∀ (e : Enc) (a : Array Nat) (first last : Nat) (ov : Option Override)
    (base : Option BaseInfo) (ui : UrlInfo) (orc : Oracles), first ≤ last → last ≤ a.size →
    urlParseB e a first last ov base ui orc ≠ .oob :=
  fun e a f l ov b ui orc h hl => R.sat_ne_oob (urlParseB_sat e a f l ov b ui orc _ h hl (by omega))

theorem C04_ptrs_url_parse : ∀ (e : Enc) (a : Array Nat) (first last : Nat) (ov : Option Override)
    (base : Option BaseInfo) (ui : UrlInfo) (orc : Oracles), first ≤ last → last ≤ a.size →
    urlParseB e a first last ov base ui orc ≠ .badptr :=
  fun e a f l ov b ui orc h hl => R.sat_ne_badptr (urlParseB_sat e a f l ov b ui orc _ h hl (by omega))

/-- every loop of url_parse (scheme copy, slash skipping, host scan, port digits, query and fragment
    encoding) is given `fuel` iterations: `last - first + 1` suffice -/
theorem C04_terminates_url_parse : ∀ (e : Enc) (a : Array Nat) (first last : Nat) (ov : Option Override)
    (base : Option BaseInfo) (ui : UrlInfo) (orc : Oracles) (fuel : Nat), first ≤ last → last ≤ a.size →
    fuel ≥ last - first + 1 → urlParseB e a first last ov base ui orc fuel ≠ .hang :=
  fun e a f l ov b ui orc fuel h hl hf => R.sat_ne_hang (urlParseB_sat e a f l ov b ui orc fuel h hl (by omega))

/-- `*base` (relative_state, relative_slash_state) is reached only with `base != nullptr` -/
theorem C04_nonull_url_parse : ∀ (e : Enc) (a : Array Nat) (first last : Nat) (ov : Option Override)
    (base : Option BaseInfo) (ui : UrlInfo) (orc : Oracles), first ≤ last → last ≤ a.size →
    urlParseB e a first last ov base ui orc ≠ .abort :=
  fun e a f l ov b ui orc h hl => R.sat_ne_abort (urlParseB_sat e a f l ov b ui orc _ h hl (by omega))

/-- all at once: with sufficient fuel the run ends in a verdict -/
theorem C04_safe_url_parse : ∀ (e : Enc) (a : Array Nat) (first last : Nat) (ov : Option Override)
    (base : Option BaseInfo) (ui : UrlInfo) (orc : Oracles) (fuel : Nat), first ≤ last → last ≤ a.size →
    fuel ≥ last - first + 1 → ∃ v, urlParseB e a first last ov base ui orc fuel = .ok v := by
  intro e a f l ov b ui orc fuel h hl hf
  obtain ⟨v, hv, _⟩ := urlParseB_sat e a f l ov b ui orc fuel h hl (by omega)
  exact ⟨v, hv⟩

/-! url_parse from its first line: do_remove_whitespace, then the states on the cleaned buffer -/

theorem C04_inbounds_url_parse_ws : ∀ (e : Enc) (a : Array Nat) (first last : Nat) (ov : Option Override)
    (base : Option BaseInfo) (ui : UrlInfo) (orc : Array Nat → Oracles), first ≤ last → last ≤ a.size →
    urlParseWsB e a first last ov base ui orc ≠ .oob :=
  fun e a f l ov b ui orc h hl => R.sat_ne_oob (urlParseWsB_sat e a f l ov b ui orc h hl)
theorem C04_ptrs_url_parse_ws : ∀ (e : Enc) (a : Array Nat) (first last : Nat) (ov : Option Override)
    (base : Option BaseInfo) (ui : UrlInfo) (orc : Array Nat → Oracles), first ≤ last → last ≤ a.size →
    urlParseWsB e a first last ov base ui orc ≠ .badptr :=
  fun e a f l ov b ui orc h hl => R.sat_ne_badptr (urlParseWsB_sat e a f l ov b ui orc h hl)
theorem C04_terminates_url_parse_ws : ∀ (e : Enc) (a : Array Nat) (first last : Nat) (ov : Option Override)
    (base : Option BaseInfo) (ui : UrlInfo) (orc : Array Nat → Oracles), first ≤ last → last ≤ a.size →
    urlParseWsB e a first last ov base ui orc ≠ .hang :=
  fun e a f l ov b ui orc h hl => R.sat_ne_hang (urlParseWsB_sat e a f l ov b ui orc h hl)
theorem C04_nonull_url_parse_ws : ∀ (e : Enc) (a : Array Nat) (first last : Nat) (ov : Option Override)
    (base : Option BaseInfo) (ui : UrlInfo) (orc : Array Nat → Oracles), first ≤ last → last ≤ a.size →
    urlParseWsB e a first last ov base ui orc ≠ .abort :=
  fun e a f l ov b ui orc h hl => R.sat_ne_abort (urlParseWsB_sat e a f l ov b ui orc h hl)

/-! ### do_trim, do_remove_whitespace -/

theorem C04d_inbounds_do_trim : ∀ (a : Array Nat) (first last : Nat), first ≤ last → last ≤ a.size →
    doTrimB a first last ≠ .oob :=
  fun a f l h hl => R.sat_ne_oob (doTrimB_sat a f l _ h hl (by omega))
theorem C04d_ptrs_do_trim : ∀ (a : Array Nat) (first last : Nat), first ≤ last → last ≤ a.size →
    doTrimB a first last ≠ .badptr :=
  fun a f l h hl => R.sat_ne_badptr (doTrimB_sat a f l _ h hl (by omega))
theorem C04d_terminates_do_trim : ∀ (a : Array Nat) (first last fuel : Nat), first ≤ last → last ≤ a.size →
    fuel ≥ last - first + 1 → doTrimB a first last fuel ≠ .hang :=
  fun a f l fuel h hl hf => R.sat_ne_hang (doTrimB_sat a f l fuel h hl (by omega))
/-- … and the trimmed range is a sub-range of the input -/
theorem C04d_do_trim_range : ∀ (a : Array Nat) (first last : Nat), first ≤ last → last ≤ a.size →
    ∃ f l, doTrimB a first last = .ok (f, l) ∧ first ≤ f ∧ f ≤ l ∧ l ≤ last := by
  intro a f l h hl
  obtain ⟨⟨f', l'⟩, hv, hp⟩ := doTrimB_sat a f l (l - f + 1) h hl (by omega)
  exact ⟨f', l', hv, hp⟩

theorem C04d_inbounds_do_remove_whitespace : ∀ (a : Array Nat) (first last : Nat), first ≤ last →
    last ≤ a.size → doRemoveWhitespaceB a first last ≠ .oob :=
  fun a f l h hl => R.sat_ne_oob (doRemoveWhitespaceB_sat a f l _ h hl (by omega))
theorem C04d_ptrs_do_remove_whitespace : ∀ (a : Array Nat) (first last : Nat), first ≤ last →
    last ≤ a.size → doRemoveWhitespaceB a first last ≠ .badptr :=
  fun a f l h hl => R.sat_ne_badptr (doRemoveWhitespaceB_sat a f l _ h hl (by omega))
theorem C04d_terminates_do_remove_whitespace : ∀ (a : Array Nat) (first last fuel : Nat), first ≤ last →
    last ≤ a.size → fuel ≥ last - first + 1 → doRemoveWhitespaceB a first last fuel ≠ .hang :=
  fun a f l fuel h hl hf => R.sat_ne_hang (doRemoveWhitespaceB_sat a f l fuel h hl (by omega))

/-- agreement with the list models `Impl.doTrim` / `Impl.removeWs` (Upa/Impl/Api.lean) the other properties
    are proved for: the trimmed range is the trimmed slice … -/
theorem C04d_agrees_do_trim : ∀ (a : Array Nat) (first last : Nat), first ≤ last → last ≤ a.size →
    ∃ f l, doTrimB a first last = .ok (f, l) ∧ first ≤ f ∧ f ≤ l ∧ l ≤ last ∧
      slice a f l = Impl.doTrim (slice a first last) := by
  intro a f l h hl
  obtain ⟨⟨f', l'⟩, hv, hp⟩ := doTrimB_agrees a f l h hl
  exact ⟨f', l', hv, hp⟩
/-- … and the buffer url_parse continues on (`buff_no_ws`, or the untouched input when nothing was removed) is
    the slice without tabs and newlines -/
theorem C04d_agrees_do_remove_whitespace : ∀ (a : Array Nat) (first last : Nat), first ≤ last → last ≤ a.size →
    ∃ r, doRemoveWhitespaceB a first last = .ok r ∧
      (match r with | none => slice a first last | some b => b) = Impl.removeWs (slice a first last) := by
  intro a f l h hl
  obtain ⟨r, hv, hp⟩ := doRemoveWhitespaceB_agrees a f l h hl
  exact ⟨r, hv, hp⟩

example : doTrimB (ofStr "  a b \n") 0 7 = .ok (2, 5) := by decide
example : doTrimB (ofStr "   ") 0 3 = .ok (3, 3) := by decide
example : doTrimB (ofStr " ") 0 1 (slack := 1) = .oob := by decide                -- `first < last + 1`: *first at `last`
example : doTrimB (ofStr " ") 0 1 (fuel := 1) = .hang := by decide                -- the fuel bound is sharp
example : doRemoveWhitespaceB (ofStr "ab") 0 2 = .ok none := by decide
example : doRemoveWhitespaceB (ofStr "a\tb\nc") 0 5 = .ok (some [0x61, 0x62, 0x63]) := by decide
example : doRemoveWhitespaceB (ofStr "a\t") 0 2 (slack := 1) = .oob := by decide  -- inner `it < last + 1`

/-! ### non-vacuity of the url_parse theorems -/

/-- callee verdicts used by the evaluated instances: every host is accepted -/
def c04dOrc : Oracles := ⟨fun _ _ _ => true, fun _ => false, fun _ => false⟩
/-- an http base (special, not file, hierarchical path, scheme "http") -/
def c04dHttpBase : BaseInfo := ⟨true, false, false, fun s => s == asciiStr "http"⟩
def c04dFileBase : BaseInfo := ⟨true, true, false, fun s => s == asciiStr "file"⟩

example : urlParseB .u8 (ofStr "http://u:p@h:80/a/../b?q#f") 0 26 none none {} c04dOrc = .ok true := by decide
example : urlParseB .u8 (ofStr "http:/") 0 6 none (some c04dHttpBase) {} c04dOrc = .ok true := by decide
example : urlParseB .u8 (ofStr "http:/") 0 6 none none {} c04dOrc = .ok false := by decide     -- host_missing
example : urlParseB .u8 (ofStr "a:/") 0 3 none none {} c04dOrc = .ok true := by decide
example : urlParseB .u8 (ofStr "file:") 0 5 none none {} c04dOrc = .ok true := by decide
example : urlParseB .u8 (ofStr "file:/") 0 6 none (some c04dFileBase) {} c04dOrc = .ok true := by decide
example : urlParseB .u8 (ofStr "http://h:8") 0 10 none none {} c04dOrc = .ok true := by decide
example : urlParseB .u8 (ofStr "http://h:8x") 0 11 none none {} c04dOrc = .ok false := by decide
example : urlParseB .u8 (ofStr "x") 0 1 none none {} c04dOrc = .ok false := by decide      -- no scheme, no base
-- a sub-range of a larger buffer: only `[first, last)` is read
example : urlParseB .u8 (ofStr "??http://h/p#!!") 2 12 none none {} c04dOrc = .ok true := by decide
-- `last - pointer > 0` instead of `> 1` in special_relative_or_authority_state: `http:/` against an http
-- base reads pointer[1] one past the end
example : urlParseB .u8 (ofStr "http:/") 0 6 none (some c04dHttpBase) {} c04dOrc (sraDist := 0) = .oob := by decide
-- the same guard in special_authority_slashes_state (no base)
example : urlParseB .u8 (ofStr "http:/") 0 6 none none {} c04dOrc (sasDist := 0) = .oob := by decide
-- `pointer < last + 1` in path_or_authority_state: `a:/` reads pointer[0] at `last`
example : urlParseB .u8 (ofStr "a:/") 0 3 none none {} c04dOrc (poaSlack := 1) = .oob := by decide
-- `pointer != last + 1 ? *pointer : 0` in file_state / file_slash_state
example : urlParseB .u8 (ofStr "file:") 0 5 none none {} c04dOrc (fileSlack := 1) = .oob := by decide
example : urlParseB .u8 (ofStr "file:/") 0 6 none (some c04dFileBase) {} c04dOrc (fileSlack := 1) = .oob := by decide
-- `end_of_digits == last + 1 ||` in port_state: end_of_digits[0] at `last`
example : urlParseB .u8 (ofStr "http://h:8") 0 10 none none {} c04dOrc (portSlack := 1) = .oob := by decide
-- the fuel bound `last - first + 1` is sharp: the fragment loop needs one test per unit plus the last one
example : urlParseB .u8 (ofStr "#ab") 0 3 (some .fragment) none {} c04dOrc (fuel := 3) = .hang := by decide
example : urlParseB .u8 (ofStr "#ab") 0 3 (some .fragment) none {} c04dOrc (fuel := 4) = .ok true := by decide
-- `*base` with a null base is what `.abort` stands for
example : bRelative (ofStr "x") 0 1 none ⟨.relative, 0, false, false⟩ = .abort := by decide

/-! ### cross-check of the instrumented model against the list model `Impl.urlParse`

  `urlParseVerdictB` runs whitespace removal and the instrumented states on the code units, with the real
  list-level host parser (`Impl.parseHost` on the decoded slice) as `Oracles.hostOk`; the second component
  is the verdict of the list model (`Upa/Impl/Url.lean`) on the same input.  Every run ends in `.ok`
  (`some _`) and the two verdicts agree. -/

/-- the helper always yields a verdict (never `none`), for every input, base, override and IDNA function -/
theorem C04_verdict_total : ∀ (idna : Idna) (e : Enc) (units : List Nat) (base : Option Url) (ov : Option Override)
    (u : Url), ∃ v, urlParseVerdictB idna e units base ov u = some v := by
  intro idna e units base ov u
  unfold urlParseVerdictB
  obtain ⟨v, hv, _⟩ := urlParseWsB_sat e units.toArray 0 units.toArray.size ov (base.map BaseInfo.ofUrl)
    (UrlInfo.ofUrl u) (Oracles.real idna e) (Nat.zero_le _) (Nat.le_refl _)
  exact ⟨v, by simp only [hv]⟩

def c04dIdna : Idna := fun l => some (l.map toLower)
def c04dUrl (s : String) : Option Url := Impl.parse c04dIdna .u8 (asciiStr s) none
def c04dBoth (units : List Nat) (base : Option Url := none) (ov : Option Override := none) (u : Url := {}) :
    Option Bool × Bool :=
  (urlParseVerdictB c04dIdna .u8 units base ov u, (Impl.urlParse c04dIdna base ov u (prep .u8 units)).out == .ok)
def c04dCmp (s : String) (base : Option Url := none) (ov : Option Override := none) (u : Url := {}) :
    Option Bool × Bool :=
  c04dBoth (asciiStr s) base ov u
def c04dHttp := c04dUrl "http://h/p/q?x#y"
def c04dFile := c04dUrl "file:///c:/a/b"
def c04dMailto := c04dUrl "mailto:x"
def c04dNs := c04dUrl "a://h/p"
def c04dUH : Url := (c04dUrl "http://u:p@h:81/p?q#f").getD {}
def c04dUF : Url := (c04dUrl "file:///p").getD {}
def c04dUFh : Url := (c04dUrl "file://h/p").getD {}
def c04dUA : Url := (c04dUrl "a://h/p").getD {}
def c04dUAu : Url := (c04dUrl "a://u@h/p").getD {}

-- absolute URLs, special schemes: credentials, ports, IPv4 / IPv6 hosts, backslashes
example : c04dCmp "http://example.com/a/b?q#f" = (some true, true) := by decide +kernel
example : c04dCmp "https://u:p@h:443/" = (some true, true) := by decide +kernel
example : c04dCmp "http://u:p@/" = (some false, false) := by decide +kernel
example : c04dCmp "http://u:@h" = (some true, true) := by decide +kernel
example : c04dCmp "http://:p@h" = (some true, true) := by decide +kernel
example : c04dCmp "http://h:99999/" = (some false, false) := by decide +kernel
example : c04dCmp "http://h:65535" = (some true, true) := by decide +kernel
example : c04dCmp "http://h:65536" = (some false, false) := by decide +kernel
example : c04dCmp "http://h:8x/" = (some false, false) := by decide +kernel
example : c04dCmp "http://h:000000080" = (some true, true) := by decide +kernel
example : c04dCmp "ws://[::1]:80/p" = (some true, true) := by decide +kernel
example : c04dCmp "http://[::1/p" = (some false, false) := by decide +kernel
example : c04dCmp "http://1.2.3.4.5/" = (some false, false) := by decide +kernel
example : c04dCmp "http://0x7f.1/" = (some true, true) := by decide +kernel
example : c04dCmp "http:\\\\h\\p" = (some true, true) := by decide +kernel
example : c04dCmp "http:/" = (some false, false) := by decide +kernel
example : c04dCmp "http:" = (some false, false) := by decide +kernel
example : c04dCmp "http://" = (some false, false) := by decide +kernel
example : c04dCmp "ftp://h/%2e%2E/./a" = (some true, true) := by decide +kernel
example : c04dCmp "wss://h:443/x" = (some true, true) := by decide +kernel
example : c04dCmp "http://EXAMPLE.com./" = (some true, true) := by decide +kernel
example : c04dCmp "http://a<b/" = (some false, false) := by decide +kernel
example : c04dCmp "ht\ttp://h/a\nb" = (some true, true) := by decide +kernel
-- file scheme quirks
example : c04dCmp "file:///c:/x" = (some true, true) := by decide +kernel
example : c04dCmp "file:c|/x" = (some true, true) := by decide +kernel
example : c04dCmp "file://localhost/p" = (some true, true) := by decide +kernel
example : c04dCmp "file://c:/p" = (some true, true) := by decide +kernel
example : c04dCmp "file:" = (some true, true) := by decide +kernel
example : c04dCmp "file:/" = (some true, true) := by decide +kernel
example : c04dCmp "file://h\\p?q" = (some true, true) := by decide +kernel
example : c04dCmp "file://a b/" = (some false, false) := by decide +kernel
-- non-special schemes: opaque path, path-or-authority, opaque hosts
example : c04dCmp "a:b" = (some true, true) := by decide +kernel
example : c04dCmp "a:/" = (some true, true) := by decide +kernel
example : c04dCmp "a://h:1/p?q#f" = (some true, true) := by decide +kernel
example : c04dCmp "a://u@h" = (some true, true) := by decide +kernel
example : c04dCmp "a://@" = (some false, false) := by decide +kernel
example : c04dCmp "a://h:/" = (some true, true) := by decide +kernel
example : c04dCmp "a:// /" = (some false, false) := by decide +kernel
example : c04dCmp "mailto:a@b?c#d" = (some true, true) := by decide +kernel
-- no scheme and no base
example : c04dCmp "x" = (some false, false) := by decide +kernel
example : c04dCmp "" = (some false, false) := by decide +kernel
example : c04dCmp "//h" = (some false, false) := by decide +kernel
example : c04dCmp "1http://h" = (some false, false) := by decide +kernel
-- relative references against an http base
example : c04dCmp "" c04dHttp = (some true, true) := by decide +kernel
example : c04dCmp "x" c04dHttp = (some true, true) := by decide +kernel
example : c04dCmp "/x" c04dHttp = (some true, true) := by decide +kernel
example : c04dCmp "//x/y" c04dHttp = (some true, true) := by decide +kernel
example : c04dCmp "?z" c04dHttp = (some true, true) := by decide +kernel
example : c04dCmp "#z" c04dHttp = (some true, true) := by decide +kernel
example : c04dCmp "\\x" c04dHttp = (some true, true) := by decide +kernel
example : c04dCmp "../a" c04dHttp = (some true, true) := by decide +kernel
example : c04dCmp "http:x" c04dHttp = (some true, true) := by decide +kernel
example : c04dCmp "http:/" c04dHttp = (some true, true) := by decide +kernel
example : c04dCmp "http://" c04dHttp = (some false, false) := by decide +kernel
example : c04dCmp "https:/x" c04dHttp = (some true, true) := by decide +kernel
example : c04dCmp "//" c04dHttp = (some false, false) := by decide +kernel
example : c04dCmp "/\\h2/p" c04dHttp = (some true, true) := by decide +kernel
example : c04dCmp "http:/\\h3" c04dHttp = (some true, true) := by decide +kernel
-- … against a file base
example : c04dCmp "" c04dFile = (some true, true) := by decide +kernel
example : c04dCmp "x" c04dFile = (some true, true) := by decide +kernel
example : c04dCmp "/x" c04dFile = (some true, true) := by decide +kernel
example : c04dCmp "//h/x" c04dFile = (some true, true) := by decide +kernel
example : c04dCmp "?q" c04dFile = (some true, true) := by decide +kernel
example : c04dCmp "#f" c04dFile = (some true, true) := by decide +kernel
example : c04dCmp "d:/y" c04dFile = (some true, true) := by decide +kernel
example : c04dCmp "\\\\\\" c04dFile = (some true, true) := by decide +kernel
example : c04dCmp "file:x" c04dFile = (some true, true) := by decide +kernel
example : c04dCmp "/d|/y" c04dFile = (some true, true) := by decide +kernel
example : c04dCmp "//c:/x" c04dFile = (some true, true) := by decide +kernel
example : c04dCmp "//a b" c04dFile = (some false, false) := by decide +kernel
-- … against a base with an opaque path
example : c04dCmp "#f" c04dMailto = (some true, true) := by decide +kernel
example : c04dCmp "x" c04dMailto = (some false, false) := by decide +kernel
example : c04dCmp "" c04dMailto = (some false, false) := by decide +kernel
example : c04dCmp "a:b" c04dMailto = (some true, true) := by decide +kernel
-- … against a non-special hierarchical base
example : c04dCmp "x" c04dNs = (some true, true) := by decide +kernel
example : c04dCmp "//h2" c04dNs = (some true, true) := by decide +kernel
example : c04dCmp "/\\x" c04dNs = (some true, true) := by decide +kernel
example : c04dCmp "?q" c04dNs = (some true, true) := by decide +kernel
-- setters (state overrides) on http://u:p@h:81/p?q#f
example : c04dCmp "https" none (some .schemeStart) c04dUH = (some true, true) := by decide +kernel
example : c04dCmp "https:" none (some .schemeStart) c04dUH = (some true, true) := by decide +kernel
example : c04dCmp "mailto" none (some .schemeStart) c04dUH = (some false, false) := by decide +kernel
example : c04dCmp "file" none (some .schemeStart) c04dUH = (some false, false) := by decide +kernel
example : c04dCmp "1x" none (some .schemeStart) c04dUH = (some false, false) := by decide +kernel
example : c04dCmp "" none (some .schemeStart) c04dUH = (some false, false) := by decide +kernel
example : c04dCmp "ws:ignored" none (some .schemeStart) c04dUH = (some true, true) := by decide +kernel
example : c04dCmp "h2" none (some .host) c04dUH = (some true, true) := by decide +kernel
example : c04dCmp "h2:8080" none (some .host) c04dUH = (some true, true) := by decide +kernel
example : c04dCmp "" none (some .host) c04dUH = (some false, false) := by decide +kernel
example : c04dCmp "h2:x" none (some .host) c04dUH = (some true, true) := by decide +kernel
example : c04dCmp ":80" none (some .host) c04dUH = (some false, false) := by decide +kernel
example : c04dCmp "[::1]:9" none (some .host) c04dUH = (some true, true) := by decide +kernel
example : c04dCmp "h/x" none (some .host) c04dUH = (some true, true) := by decide +kernel
example : c04dCmp "h2" none (some .hostname) c04dUH = (some true, true) := by decide +kernel
example : c04dCmp "h2:80" none (some .hostname) c04dUH = (some false, false) := by decide +kernel
example : c04dCmp "8080" none (some .port) c04dUH = (some true, true) := by decide +kernel
example : c04dCmp "99999" none (some .port) c04dUH = (some false, false) := by decide +kernel
example : c04dCmp "8x" none (some .port) c04dUH = (some true, true) := by decide +kernel
example : c04dCmp "x" none (some .port) c04dUH = (some true, true) := by decide +kernel
example : c04dCmp "0000000001" none (some .port) c04dUH = (some true, true) := by decide +kernel
example : c04dCmp "/a/b" none (some .pathStart) c04dUH = (some true, true) := by decide +kernel
example : c04dCmp "a\\b" none (some .pathStart) c04dUH = (some true, true) := by decide +kernel
example : c04dCmp "" none (some .pathStart) c04dUH = (some true, true) := by decide +kernel
example : c04dCmp "../.." none (some .pathStart) c04dUH = (some true, true) := by decide +kernel
example : c04dCmp "a b#c" none (some .query) c04dUH = (some true, true) := by decide +kernel
example : c04dCmp "x y" none (some .fragment) c04dUH = (some true, true) := by decide +kernel
-- … on file:///p, file://h/p, a://h/p, a://u@h/p
example : c04dCmp "http" none (some .schemeStart) c04dUF = (some false, false) := by decide +kernel
example : c04dCmp "h2" none (some .host) c04dUFh = (some true, true) := by decide +kernel
example : c04dCmp "" none (some .host) c04dUFh = (some true, true) := by decide +kernel
example : c04dCmp "c:" none (some .host) c04dUFh = (some false, false) := by decide +kernel
example : c04dCmp "localhost" none (some .host) c04dUFh = (some true, true) := by decide +kernel
example : c04dCmp "" none (some .host) c04dUA = (some true, true) := by decide +kernel
example : c04dCmp "" none (some .host) c04dUAu = (some false, false) := by decide +kernel
example : c04dCmp "x" none (some .host) c04dUAu = (some true, true) := by decide +kernel
example : c04dCmp "/a/b" none (some .pathStart) c04dUA = (some true, true) := by decide +kernel
example : c04dCmp "" none (some .pathStart) c04dUA = (some true, true) := by decide +kernel
example : c04dCmp "?x" none (some .pathStart) c04dUA = (some true, true) := by decide +kernel
-- non-ASCII units (UTF-8): path, query with a truncated sequence, fragment with an invalid byte; opaque path
example : c04dBoth [0x68,0x74,0x74,0x70,0x3A,0x2F,0x2F,0x68,0x2F,0xC3,0xA9,0x3F,0xE2,0x82,0x23,0xFF] = (some true, true) := by
  decide +kernel
example : c04dBoth [0x61,0x3A,0xC3,0xA9,0x80] = (some true, true) := by decide +kernel

#print axioms C04_inbounds_url_parse
#print axioms C04_ptrs_url_parse
#print axioms C04_terminates_url_parse
#print axioms C04_nonull_url_parse
#print axioms C04_safe_url_parse
#print axioms C04_inbounds_url_parse_ws
#print axioms C04_ptrs_url_parse_ws
#print axioms C04_terminates_url_parse_ws
#print axioms C04_nonull_url_parse_ws
#print axioms C04_verdict_total
#print axioms C04d_inbounds_do_trim
#print axioms C04d_ptrs_do_trim
#print axioms C04d_terminates_do_trim
#print axioms C04d_do_trim_range
#print axioms C04d_agrees_do_trim
#print axioms C04d_agrees_do_remove_whitespace
#print axioms C04d_inbounds_do_remove_whitespace
#print axioms C04d_ptrs_do_remove_whitespace
#print axioms C04d_terminates_do_remove_whitespace
end Upa.Props
