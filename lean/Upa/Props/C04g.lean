import Upa.Proofs.BoundsMiscAgree2Ip
import Upa.Proofs.BoundsMiscAgree2Host
import Upa.Proofs.BoundsMiscAgree2Path
import Upa.Proofs.BoundsMiscAgree2Dom
import Upa.Props.C01
/-
  C04g — further AGREEMENT theorems for the bounds-instrumented models of `Upa/Impl/BoundsMisc.lean`
  (in-bounds / pointer / termination: `Upa/Props/C04e.lean`): the instrumented model returns `.ok` of what
  the list model of `Upa/Impl/*.lean` computes — on `slice a first last` where the function works on code
  units that are never decoded (ipv6_serialize), on `Impl.decode e (slice a first last)` where the C++
  decodes lazily while it scans (parse_opaque_host, parse_path; the encoders themselves are in
  `Upa/Props/C10d.lean`).
  Lemmas: `Upa/Proofs/BoundsMiscAgree2Ip.lean`, `Upa/Proofs/BoundsMiscAgree2Host.lean`,
  `Upa/Proofs/BoundsMiscAgree2Path.lean`, `Upa/Proofs/BoundsMiscAgree2Dom.lean`.
-/
namespace Upa.Props
open Upa Upa.Impl.B

theorem unitsOk_uOk_g {e : Enc} {l : List Nat} (h : UnitsOk e l) : Upa.Proofs.C10b.UOk e l := by
  cases e <;> exact h

/-! ### src/url_ip.cpp ipv6_serialize -/

/-- `ipv6_serialize(address, output)` = `Impl.ipv6Serialize` on the pieces.  The pieces are `uint16_t`
    (third hypothesis; the instrumented model reads `*it` as `% 65536`, the list model takes the numbers
    as they are: see the last example). -/
theorem C04_agrees_ipv6_serialize : ∀ (a : Array Nat) (first last : Nat), first < last → last ≤ a.size →
    (∀ i, first ≤ i → i < last → a[i]! < 65536) →
    ipv6SerializeM a first last = .ok (Impl.ipv6Serialize (slice a first last)) :=
  ipv6SerializeM_agrees
example : ∀ i, i < 8 → 0 ≤ i → (#[1, 0, 0, 2, 0, 0, 0, 0xFFFF] : Array Nat)[i]! < 65536 := by decide
example : ipv6SerializeM #[1, 0, 0, 2, 0, 0, 0, 0xFFFF] 0 8 = .ok (asciiStr "1:0:0:2::ffff") := by decide
example : Impl.ipv6Serialize [1, 0, 0, 2, 0, 0, 0, 0xFFFF] = asciiStr "1:0:0:2::ffff" := by decide
-- outside the type the two differ (not reachable: `uint16_t address[8]`)
example : ipv6SerializeM #[65536, 1] 0 2 = .ok (asciiStr "0:1") ∧ Impl.ipv6Serialize [65536, 1] = asciiStr "10000:1" := by
  decide

/-! ### url_host.h parse_opaque_host, parse_host(is_opaque = true) -/

/-- `host_parser::parse_opaque_host(first, last, dest)`: the forbidden-host-code-point scan runs over the
    raw code units, the encode loop decodes lazily; the result is `Impl.parseOpaqueHost` of the eagerly
    decoded input, for every character width, ill-formed input included -/
theorem C04_agrees_parse_opaque_host : ∀ (e : Enc) (a : Array Nat) (first last : Nat), first ≤ last →
    last ≤ a.size → UnitsOk e (slice a first last) →
    parseOpaqueHostM e a first last = .ok (Impl.parseOpaqueHost (Impl.decode e (slice a first last))) :=
  fun e a f l h hl hu => parseOpaqueHostM_agrees e a f l h hl (unitsOk_uOk_g hu)
example : parseOpaqueHostM .u16 #[0x61, 0xD800, 0x01, 0xE9] 0 4 =
    .ok (some { kind := .opaque, text := asciiStr "a%EF%BF%BD%01%C3%A9" }) := by decide
example : Impl.parseOpaqueHost (Impl.decode .u16 [0x61, 0xD800, 0x01, 0xE9]) =
    some { kind := .opaque, text := asciiStr "a%EF%BF%BD%01%C3%A9" } := by decide
example : parseOpaqueHostM .u8 #[0x61, 0xC3, 0x20] 0 3 = .ok none := by decide

/-- `host_parser::parse_host(first, last, is_opaque = true, dest)` = `Impl.parseHost … true` on the decoded
    input, when the input does not start with `[`.
    PARTIAL: missing are (i) bracketed input (needs an agreement theorem for `ipv6Parse` of
    `Upa/Impl/Bounds.lean` with `Impl.ipv6Parse`), (ii) `is_opaque = false` beyond the fast-path decision
    of `C04_agrees_parse_host_fast_path` (needs agreement theorems for `endsInNumber`, `ipv4Parse`,
    `hostDecodeM`). -/
theorem C04_agrees_parse_host_partial : ∀ (idna : Idna) (e : Enc) (a : Array Nat) (first last : Nat),
    first ≤ last → last ≤ a.size → UnitsOk e (slice a first last) → (first < last → a[first]! ≠ 0x5B) →
    parseHostM idna e a first last true = .ok (Impl.parseHost idna (Impl.decode e (slice a first last)) true) :=
  fun i e a f l h hl hu hb => parseHostM_opaque_agrees i e a f l h hl (unitsOk_uOk_g hu) hb
example : parseHostM some .u8 (ofStr "a\x01b") 0 3 true = .ok (some { kind := .opaque, text := asciiStr "a%01b" }) := by decide
example : parseHostM some .u8 (ofStr "") 0 0 true = .ok (some { kind := .empty, text := [] }) := by decide

/-- url_ip.h `hostname_ends_in_a_number(first, last)` (instrumented model: `endsInNumber` of
    `Upa/Impl/Bounds.lean`) = `Impl.endsInNumber` -/
theorem C04_agrees_hostname_ends_in_a_number : ∀ (a : Array Nat) (first last : Nat), first ≤ last → last ≤ a.size →
    endsInNumber a first last = .ok (Impl.endsInNumber (slice a first last)) :=
  endsInNumber_agrees
example : endsInNumber (ofStr "a.0x1F.") 0 7 = .ok true := by decide
example : endsInNumber (ofStr "a.0x1G") 0 6 = .ok false := by decide

/-- `parse_host(first, last, is_opaque = false, dest)` on a host of ASCII domain characters only, without an
    `xn--` label, that does not end in a number (the common case `example.com`): the lower-cased domain =
    `Impl.parseHost … false`, for every character width.
    PARTIAL: see `C04_agrees_parse_host_partial`; for the non-opaque case the hosts that end in a number
    (`parseIpv4M` vs `Impl.hostParseIpv4`) and the IDNA path (non-ASCII-domain unit, `%`, `xn--`) are missing. -/
theorem C04_agrees_parse_host_domain_partial : ∀ (idna : Idna) (e : Enc) (a : Array Nat) (first last : Nat),
    first < last → last ≤ a.size → (∀ i, first ≤ i → i < last → Spec.asciiDomainChar a[i]! = true) →
    Impl.hasXnLabel (slice a first last) = false → Impl.endsInNumber (slice a first last) = false →
    parseHostM idna e a first last false = .ok (Impl.parseHost idna (Impl.decode e (slice a first last)) false) :=
  parseHostM_domain_agrees
example : (∀ i, i < 11 → 0 ≤ i → Spec.asciiDomainChar (ofStr "EXAMPLE.com")[i]! = true) ∧
    Impl.hasXnLabel (slice (ofStr "EXAMPLE.com") 0 11) = false ∧
    Impl.endsInNumber (slice (ofStr "EXAMPLE.com") 0 11) = false := by decide
example : parseHostM some .u16 (ofStr "EXAMPLE.com") 0 11 false =
    .ok (some { kind := .domain, text := asciiStr "example.com" }) := by decide

/-! ### url.h parse_path -/

/-- `url_parser::parse_path(urls, first, last)` = `Impl.parsePath` (what `Impl.pathState` runs on the path
    part) on the decoded input — every character width, every serializer state `u`, ill-formed input
    included.  The C++ finds the segment ends, the dot segments and the Windows drive letter on the RAW
    code units and decodes only inside do_path_segment; the list model splits and tests the decoded text:
    the delimiters and every accepted pattern are ASCII, and an ASCII unit always ends a pending sequence. -/
theorem C04_agrees_parse_path : ∀ (e : Enc) (a : Array Nat) (first last : Nat) (u : Url), first ≤ last →
    last ≤ a.size → UnitsOk e (slice a first last) →
    parsePathM e a first last u = .ok (Impl.parsePath u (Impl.decode e (slice a first last))) :=
  fun e a f l u h hl hu => parsePathM_agrees e a f l u h hl (unitsOk_uOk_g hu)
example : UnitsOk .u8 (slice (ofStr "a/../b/%2E/c|") 0 13) := by
  show ∀ x ∈ slice (ofStr "a/../b/%2E/c|") 0 13, x < 256
  decide
example : parsePathM .u8 (ofStr "a/../b/%2E/c|") 0 13 { scheme := Impl.sHttp } =
    .ok { scheme := Impl.sHttp, path := [asciiStr "b", asciiStr "c|"] } := by decide
example : Impl.parsePath { scheme := Impl.sHttp } (Impl.decode .u8 (asciiStr "a/../b/%2E/c|")) =
    { scheme := Impl.sHttp, path := [asciiStr "b", asciiStr "c|"] } := by decide
-- ill-formed UTF-8 next to a delimiter (E2 82 then '/'), a two-unit segment that is one scalar value
example : parsePathM .u8 #[0xE2, 0x82, 0x2F, 0xC3, 0xA9] 0 5 { scheme := Impl.sFile } =
    .ok { scheme := Impl.sFile, path := [asciiStr "%EF%BF%BD", asciiStr "%C3%A9"] } := by decide
example : Impl.parsePath { scheme := Impl.sFile } (Impl.decode .u8 [0xE2, 0x82, 0x2F, 0xC3, 0xA9]) =
    { scheme := Impl.sFile, path := [asciiStr "%EF%BF%BD", asciiStr "%C3%A9"] } := by decide

#print axioms C04_agrees_ipv6_serialize
#print axioms C04_agrees_parse_opaque_host
#print axioms C04_agrees_parse_host_partial
#print axioms C04_agrees_parse_path
#print axioms C04_agrees_hostname_ends_in_a_number
#print axioms C04_agrees_parse_host_domain_partial
#print axioms unitsOk_uOk_g
end Upa.Props
