import Upa.Proofs.ObjRepEval
import Upa.Props.C04c
import Upa.Props.C05c
/-
  C05g — property C05 at the level of OBJECTS and arbitrary histories.

  "After any sequence of completed operations (parse on a new or reused object, clear, setters,
   URLSearchParams edits, copy, move, swap, safe_assign, use as base) a valid URL object is
   indistinguishable from one freshly parsed from its own href … An empty object or one whose last
   parse failed reports is_valid() == false and ignores every setter except href, and a failing href
   setter leaves the object unchanged."

  Two object models run the same operation list (`Op`, Impl/ObjRep.lean: two object slots; parse with
  no base / a string base / the other slot / the same slot as base; the ten setters; search_params();
  the URLSearchParams edits incl. `remove` (update() only when something was removed); a list assigned
  or safe_assign-ed from a standalone params object; `search_params() &&` (the owned list is moved out);
  clear; copy assignment / construction; move assignment; safe_assign; swap):

    runR   on `RObj`   = (stored representation `Rep`, params object): `parseRep`, `setRep`, `updateRep`,
                         the params refilled from the QUERY part VIEW — the operations the C++ executes;
                         nothing at this level looks at a record              (Impl/ObjRep.lean)
    runU   on `UrlObj` = (abstract record `Url`, params object): `Impl.parse`, `setValid`, `UrlObj.update`
                         — the model C01 / C03 / C06 tie to the Standard       (Impl/Api.lean)

  The relation (Proofs/ObjRep.lean):

    Sim idna ro o  :=  ro.sp = o.sp  ∧  SpBytes o.sp  ∧
                       match ro.rep, o.url with
                       | some r, some u => RepFor r u ∧ Good idna u
                       | none,   none   => True
                       | _,      _      => False                              (`C05g_sim_def`)

    RepFor r u     r ≈ layout u ∧ r.wf (C05b): r is a representation of the record u
    Good idna u    := NormX idna u  (C02b: `Norm` without its two file-only clauses;
                       Good ↔ Norm ∨ (NormX ∧ FileExc), `C05g_good_iff`).  It is the weakest predicate
                       available that EVERY operation keeps, the protocol setter included
                       (`C02_set_normx`; `Norm` itself is not kept: `C02_set_protocol`), and it implies
                       every hypothesis of the representation theorems (`C05g_good_ok`):
                         RepOk, HostInv         hypotheses of `C05d_setter` (setRep ~ setValid)
                         RepOk                  hypothesis of `C05f_update` (updateRep ~ UrlObj.update)
                         RecWF, RecShape        hypotheses of `C05b_getters`, `C05d_toRecord`
                         RepOk, HostInv, RecShape, file ⇒ no port
                                                hypotheses on the base of `C05e_parse_base`
                       kept by:  parse     `Proofs.C02b.parse_all` (no base, or a Good base)
                                 setters   `C02_set_normx` (= `Proofs.C02b.set_all`), all ten
                                 update    `Proofs.C02b.update_all` (needs `SpBytes`)
    SpBytes sp     the stored names and values are byte strings (< 256).  In the C++ a `char` IS a
                   byte; in the model a code unit is a `Nat`, so the operations that hand in names,
                   values or a query string carry the side condition `Op.WF` (bytes < 256).
                   It is needed: `C05g_needs_bytes`.

  Hypothesis on the IDNA parameter: `IdnaStable` of C02b (needed by `parse_all` / `set_all`).

  The helper lemmas are proved for two strengths of the invariant at once (`GoodS idna st`: `Norm` for
  `st = true`, `NormX` for `st = false`; `SimS`, `SimS₂`; `Sim = SimS · false`).  `Norm` is kept by every
  operation but the protocol setter, hence `C05g_no_protocol`: a history without a protocol call
  never meets the file exception.

  Evaluated examples go through `runRK_eq` / `runUK_eq` (Proofs/ObjRepEval.lean: the same interpreters
  with fuel-driven copies of `formParse` and `List.mergeSort`, which the kernel cannot unfold).
-/
namespace Upa.Props
open Upa Upa.Impl Upa.Proofs.C05 Upa.Proofs.SetRep Upa.Proofs.ObjRep
open Upa.Proofs.C02b (IdnaStable sampleIdna_stable)
open Upa.Proofs.C08 (sampleIdna)
open Upa.Proofs.SetRepApi (RecShape)

/-! ## 0. the relation -/

theorem C05g_sim_def : ∀ (idna : Idna) (ro : RObj) (o : UrlObj),
    Sim idna ro o ↔
      (ro.sp = o.sp ∧
       (∀ p, o.sp = some p → ∀ pr ∈ p.list, (∀ b ∈ pr.1, b < 256) ∧ (∀ b ∈ pr.2, b < 256)) ∧
       match ro.rep, o.url with
       | some r, some u => RepFor r u ∧ Good idna u
       | none, none => True
       | _, _ => False) := by
  intro idna ro o
  unfold Sim SimS SpBytes PairsBytes RecSimS Good
  cases ro.rep <;> cases o.url <;> exact Iff.rfl

theorem C05g_good_iff : ∀ (idna : Idna) (u : Url),
    (Good idna u ↔ NormX idna u) ∧ (Good idna u ↔ (Norm idna u ∨ (NormX idna u ∧ FileExc u))) :=
  fun idna u => ⟨Iff.rfl, good_iff idna u⟩

/-- `Good` implies every hypothesis the representation theorems C05b / C05d / C05e / C05f ask for -/
theorem C05g_good_ok : ∀ (idna : Idna) (u : Url), Good idna u →
    RepOk u ∧ HostInv u ∧ RecShape u ∧ (u.isFile = true → u.port = none) :=
  fun _ _ h => h.ok

/-- the two default-constructed objects are related -/
theorem C05g_init : ∀ idna : Idna, Sim₂ idna ({}, {}) ({}, {}) :=
  fun idna => ⟨sim_empty idna false, sim_empty idna false⟩

/-! ## 1. one operation -/

/-- Every operation keeps the relation on both slots, and returns the same result on both levels
    (`parse(...) == ok`, the setter's bool).  For the string-base overload the base is parsed first
    into a fresh object, on both levels (`stepR` / `stepU`); a base string that does not parse
    counts as an invalid base object: the parse fails and the url is left empty and invalid. -/
theorem C05g_step :
    ∀ (idna : Idna), IdnaStable idna → ∀ (op : Op), op.WF →
    ∀ (rs : RObj × RObj) (us : UrlObj × UrlObj), Sim₂ idna rs us →
      Sim₂ idna (stepR idna op rs).1 (stepU idna op us).1 ∧ (stepR idna op rs).2 = (stepU idna op us).2 :=
  fun _ hi op hop _ _ h => sim_step hi op hop (fun hc => by cases hc) h

/-- the operations one by one, on two related objects (what `C05g_step` is assembled from) -/
theorem C05g_ops :
    ∀ (idna : Idna), IdnaStable idna → ∀ (ro rs : RObj) (o s : UrlObj), Sim idna ro o → Sim idna rs s →
      -- parse: no base, the other object as base, the object itself as base
      (∀ e units, Sim idna (ro.parse idna e units none).1 (o.parse idna e units none).1 ∧
        (ro.parse idna e units none).2 = (o.parse idna e units none).2) ∧
      (∀ e units, Sim idna (ro.parse idna e units (some rs.rep)).1 (o.parse idna e units (some s.url)).1 ∧
        (ro.parse idna e units (some rs.rep)).2 = (o.parse idna e units (some s.url)).2) ∧
      (∀ e units, Sim idna (ro.parse idna e units (some ro.rep)).1 (o.parse idna e units (some o.url)).1 ∧
        (ro.parse idna e units (some ro.rep)).2 = (o.parse idna e units (some o.url)).2) ∧
      -- the ten setters
      (∀ st e units, Sim idna (ro.set idna st e units).1 (o.set idna st e units).1 ∧
        (ro.set idna st e units).2 = (o.set idna st e units).2) ∧
      -- search_params(), a params mutation that keeps byte strings + update(), clear
      Sim idna ro.searchParams o.searchParams ∧
      (∀ (f : SpOp) (always : Bool), f.WF → Sim idna (ro.spApply f.fn always) (o.spApply f.fn always)) ∧
      Sim idna ro.clear o.clear ∧
      -- copy, move, safe_assign, swap
      Sim idna (rCopyAssign ro rs) (copyAssign o s) ∧
      Sim idna (rCopyConstruct rs) (copyConstruct s) ∧
      (Sim idna (rMoveAssign rs).1 (moveAssign s).1 ∧ Sim idna (rMoveAssign rs).2 (moveAssign s).2) ∧
      (Sim idna (rSafeAssign ro rs).1 (safeAssign o s).1 ∧ Sim idna (rSafeAssign ro rs).2 (safeAssign o s).2) ∧
      rSwap ro rs = (rs, ro) ∧ uSwap o s = (s, o) :=
  fun idna hi _ _ _ _ h hs =>
    ⟨fun e units => sim_parse hi h e units (BaseSimS.none (idna := idna) (st := false)),
     fun e units => sim_parse hi h e units (BaseSimS.obj hs.2.2),
     fun e units => sim_parse hi h e units (BaseSimS.obj h.2.2),
     fun st e units => sim_set hi h st e units (fun _ => rfl),
     sim_searchParams h,
     fun f always hf => sim_spApply h f.fn (pairsBytes_spOp f hf) always,
     sim_clear h, sim_copyAssign h hs, sim_copyConstruct hs, sim_moveAssign hs, sim_safeAssign h hs,
     rfl, rfl⟩

/-- … and the operations on the owned params object that are not a `SpOp`: a list taken from a
    standalone params object (`search_params() = other`, `search_params().safe_assign(std::move(other))`:
    the list replaced, then `update()`), with or without the unconditional `update()`; and
    `search_params() &&`, which moves the owned list out WITHOUT `update()`: the list no longer lists
    the query (`C06b_move_from_owned_breaks_lock`), but it does so on both levels alike, and the
    record is not touched, so the relation is kept -/
theorem C05g_ops_params :
    ∀ (idna : Idna) (ro : RObj) (o : UrlObj), Sim idna ro o →
      (∀ (list : List BPair) (sorted always : Bool),
        (∀ pr ∈ list, (∀ b ∈ pr.1, b < 256) ∧ (∀ b ∈ pr.2, b < 256)) →
        Sim idna (ro.spApply (fun _ => { list := list, isSorted := sorted }) always)
          (o.spApply (fun _ => { list := list, isSorted := sorted }) always)) ∧
      Sim idna ro.searchParamsRvalue (uSearchParamsRvalue o) :=
  fun _ _ _ h =>
    ⟨fun list sorted always hl =>
      sim_spApply h (fun _ => { list := list, isSorted := sorted }) (fun _ _ => hl) always,
     sim_searchParamsRvalue h⟩

/-- the history of the examples.  Slot 0 is parsed (upper-case host, explicit port);
    slot 1 is parsed against slot 0; its protocol becomes https, which makes 443 the default port:
    the port is cleared; slot 0 gets a params object, a pair is appended, the list is sorted (query
    rewritten); slot 1 gets a params object; slot 1 safe_assign-s slot 0 (both have params: the list
    moves, slot 0 is left invalid with an empty list); slot 1 is parsed against ITSELF; the invalid
    slot 0 ignores `hostname`, a failing `href` on slot 1 changes nothing; slot 0 is parsed against
    a string base. -/
def c05gHist : List Op :=
  [.parse false .u8 (asciiStr " http://user@EXAMPLE.org:443/p/q?b=2&a=1#f") .none,
   .parse true .u8 (asciiStr "../x?y") .other,
   .set true .protocol .u8 (asciiStr "https"),
   .searchParams false, .sp false (.append (asciiStr "c") (asciiStr "d e")), .sp false .sort,
   .searchParams true,
   .safeAssign true false,
   .parse true .u8 (asciiStr "?z=1#g") .same,
   .set false .hostname .u8 (asciiStr "x"),
   .set true .href .u8 (asciiStr "//no-scheme"),
   .parse false .u8 (asciiStr "..\\e") (.str .u8 (asciiStr "file:///C:/d/"))]

-- the side condition is satisfiable on it
example : ∀ op ∈ c05gHist, op.WF := by decide

-- one step evaluated on both levels: the protocol setter on slot 1 (after the first two operations)
-- removes the port that has become the default one, in place, and the relation holds again
example :
    let rs := runR sampleIdna (c05gHist.take 2) ({}, {})
    let us := runU sampleIdna (c05gHist.take 2) ({}, {})
    let op : Op := .set true .protocol .u8 (asciiStr "https")
    rs.2.rep.map (fun r => (r.norm, r.partEnd)) =
      some (asciiStr "http://user@example.org:443/x?y", [4, 7, 11, 11, 12, 23, 27, 27, 29, 31, 0]) ∧
    (stepR sampleIdna op rs).1.2.rep.map (fun r => (r.norm, r.partEnd, r.schemeIdx)) =
      some (asciiStr "https://user@example.org/x?y", [5, 8, 12, 12, 13, 24, 24, 24, 26, 28, 0], some 5) ∧
    (stepU sampleIdna op us).1.2.url.map serialize = some (asciiStr "https://user@example.org/x?y") ∧
    (stepR sampleIdna op rs).2 = true ∧ (stepU sampleIdna op us).2 = true ∧
    Sim₂ sampleIdna rs us ∧ Sim₂ sampleIdna (stepR sampleIdna op rs).1 (stepU sampleIdna op us).1 := by
  simp only [← runRK_eq, ← runUK_eq, ← stepRK_eq, ← stepUK_eq]
  decide +kernel

-- a string base that does not parse (url.h:202-212): as with an invalid base object, the parse fails
-- and the url — here the valid slot 1 at the end of the example history, with its params object —
-- is left empty and invalid, its list cleared; on both levels alike
example :
    let rs := runR sampleIdna c05gHist ({}, {})
    let us := runU sampleIdna c05gHist ({}, {})
    let op : Op := .parse true .u8 (asciiStr "x") (.str .u8 (asciiStr "//no-scheme"))
    rs.2.rep.map (·.norm) = some (asciiStr "http://user@example.org:443/p/q?z=1#g") ∧
    (stepR sampleIdna op rs).1.2 = { rep := none, sp := some { list := [], isSorted := true } } ∧
    (stepU sampleIdna op us).1.2 = { url := none, sp := some { list := [], isSorted := true } } ∧
    (stepR sampleIdna op rs).1.1 = rs.1 ∧
    (stepR sampleIdna op rs).2 = false ∧ (stepU sampleIdna op us).2 = false ∧
    -- the same as parsing against the (cleared, hence invalid) object in slot 0
    (stepR sampleIdna op rs).1.2 =
      (stepR sampleIdna (.parse true .u8 (asciiStr "x") .other) (rs.1.clear, rs.2)).1.2 ∧
    Sim₂ sampleIdna (stepR sampleIdna op rs).1 (stepU sampleIdna op us).1 := by
  simp only [← runRK_eq, ← runUK_eq, ← stepRK_eq, ← stepUK_eq]
  decide +kernel

/-! ## 2. arbitrary histories -/

/-- After ANY history from the two default-constructed objects, both slots are related, and the
    operations returned the same results on both levels. -/
theorem C05g_history :
    ∀ (idna : Idna), IdnaStable idna → ∀ ops : List Op, (∀ op ∈ ops, op.WF) →
      Sim₂ idna (runR idna ops ({}, {})) (runU idna ops ({}, {})) ∧
      retR idna ops ({}, {}) = retU idna ops ({}, {}) :=
  fun idna hi ops hops => sim_run hi ops hops (fun hc => by cases hc) (C05g_init idna)

/-- … and from any related pair of states -/
theorem C05g_history_from :
    ∀ (idna : Idna), IdnaStable idna → ∀ ops : List Op, (∀ op ∈ ops, op.WF) →
    ∀ (rs : RObj × RObj) (us : UrlObj × UrlObj), Sim₂ idna rs us →
      Sim₂ idna (runR idna ops rs) (runU idna ops us) ∧ retR idna ops rs = retU idna ops us :=
  fun _ hi ops hops _ _ h => sim_run hi ops hops (fun hc => by cases hc) h

-- the example history evaluated on both levels
example :
    let rs := runR sampleIdna c05gHist ({}, {})
    let us := runU sampleIdna c05gHist ({}, {})
    -- slot 0: parsed against the string base
    rs.1.rep.map (fun r => (r.norm, r.partEnd, r.segCount)) =
      some (asciiStr "file:///C:/e", [4, 7, 7, 7, 7, 7, 7, 7, 12, 0, 0], 2) ∧
    rs.1.sp = some { list := [], isSorted := false } ∧
    us.1.url.map serialize = some (asciiStr "file:///C:/e") ∧
    -- slot 1: parsed against itself after the safe_assign
    rs.2.rep.map (fun r => (r.norm, r.partEnd)) =
      some (asciiStr "http://user@example.org:443/p/q?z=1#g", [4, 7, 11, 11, 12, 23, 27, 27, 31, 35, 37]) ∧
    rs.2.sp = some { list := [(asciiStr "z", asciiStr "1")], isSorted := false } ∧
    us.2.url.map serialize = some (asciiStr "http://user@example.org:443/p/q?z=1#g") ∧
    us.2.sp = rs.2.sp ∧
    -- the results of the twelve operations
    retR sampleIdna c05gHist ({}, {}) = [true, true, true, true, true, true, true, true, true, false, false, true] ∧
    retU sampleIdna c05gHist ({}, {}) = retR sampleIdna c05gHist ({}, {}) ∧
    -- the conclusion of the theorem, evaluated
    Sim₂ sampleIdna rs us := by
  simp only [← runRK_eq, ← runUK_eq, ← retRK_eq, ← retUK_eq]
  decide +kernel
-- the state 7 operations in (after the sort and `u1.search_params()`, before the safe_assign)
example :
    let rs := runR sampleIdna (c05gHist.take 7) ({}, {})
    rs.1.rep.map (·.norm) = some (asciiStr "http://user@example.org:443/p/q?a=1&b=2&c=d+e#f") ∧
    rs.1.sp = some { list := [(asciiStr "a", asciiStr "1"), (asciiStr "b", asciiStr "2"),
                              (asciiStr "c", asciiStr "d e")], isSorted := true } ∧
    rs.2.rep.map (·.norm) = some (asciiStr "https://user@example.org/x?y") ∧
    rs.2.sp = some { list := [(asciiStr "y", [])], isSorted := false } ∧
    -- … and after it: the list has moved with the record, the source is invalid with an empty list
    runR sampleIdna (c05gHist.take 8) ({}, {}) =
      ({ rep := none, sp := some { list := [], isSorted := false } }, { rep := rs.1.rep, sp := rs.1.sp }) := by
  simp only [← runRK_eq]
  decide +kernel
-- an instance of the theorem
example : Sim₂ sampleIdna (runR sampleIdna c05gHist ({}, {})) (runU sampleIdna c05gHist ({}, {})) :=
  (C05g_history sampleIdna sampleIdna_stable c05gHist (by decide)).1

/-- a second history, through the operations on the owned params object: `remove("zz")` creates the
    params object and removes nothing (no `update()`); `remove("a", "3")` removes a pair (`update()`:
    query rewritten); `search_params() &&` moves the list out (query kept, list empty — no longer in
    lock-step); `remove("a")` on the empty list removes nothing, so the query STAYS (`del("a")` would
    null it, see the example); a list assigned from a standalone params object; slot 1 copy-constructed
    (no params object: `search_params() &&` does not touch it); a sorted list safe_assign-ed into
    slot 1 (its params object is created first); `del` of an absent name (always `update()`). -/
def c05gHist2 : List Op :=
  [.parse false .u8 (asciiStr "http://h/p?a=1&b=2&a=3") .none,
   .sp false (.remove (asciiStr "zz")),
   .sp false (.remove2 (asciiStr "a") (asciiStr "3")),
   .searchParamsRvalue false,
   .sp false (.remove (asciiStr "a")),
   .spAssign false [(asciiStr "x", asciiStr "1 2")] false,
   .copyConstruct true false,
   .searchParamsRvalue true,
   .spSafeAssign true [(asciiStr "k", asciiStr "v"), (asciiStr "j", asciiStr "w")] true,
   .sp true (.del (asciiStr "nothing"))]

example : (∀ op ∈ c05gHist2, op.WF) ∧ (∀ op ∈ c05gHist2, op.NoProtocol) := by decide

-- evaluated, state by state (slot 0)
example :
    let stAt (n : Nat) := runR sampleIdna (c05gHist2.take n) ({}, {})
    let q (o : RObj) := o.rep.map (·.search)
    let l (o : RObj) := o.sp.map (·.list)
    -- remove("zz"): params object created, nothing removed, query as parsed
    q (stAt 2).1 = some (asciiStr "?a=1&b=2&a=3") ∧
    l (stAt 2).1 = some [(asciiStr "a", asciiStr "1"), (asciiStr "b", asciiStr "2"), (asciiStr "a", asciiStr "3")] ∧
    -- remove("a", "3"): one pair removed, update()
    q (stAt 3).1 = some (asciiStr "?a=1&b=2") ∧
    l (stAt 3).1 = some [(asciiStr "a", asciiStr "1"), (asciiStr "b", asciiStr "2")] ∧
    -- search_params() &&: the list is gone, the query stays
    q (stAt 4).1 = some (asciiStr "?a=1&b=2") ∧ l (stAt 4).1 = some [] ∧
    -- remove("a") removes nothing from the empty list: no update(), the query stays …
    q (stAt 5).1 = some (asciiStr "?a=1&b=2") ∧ l (stAt 5).1 = some [] ∧
    -- … where del("a") updates and nulls the query
    q (stepR sampleIdna (.sp false (.del (asciiStr "a"))) (stAt 4)).1.1 = some [] ∧
    -- search_params() = other
    q (stAt 6).1 = some (asciiStr "?x=1+2") ∧ l (stAt 6).1 = some [(asciiStr "x", asciiStr "1 2")] := by
  simp only [← runRK_eq, ← stepRK_eq]
  decide +kernel
-- slot 1: copy, `&&` without a params object, safe_assign of a sorted list, del of an absent name
example :
    let stAt (n : Nat) := runR sampleIdna (c05gHist2.take n) ({}, {})
    (stAt 8).2 = (stAt 7).2 ∧ (stAt 7).2.sp = none ∧
    (stAt 10).2.rep.map (·.search) = some (asciiStr "?k=v&j=w") ∧
    (stAt 10).2.sp =
      some { list := [(asciiStr "k", asciiStr "v"), (asciiStr "j", asciiStr "w")], isSorted := true } ∧
    (stAt 10).1 = (stAt 6).1 := by
  simp only [← runRK_eq]
  decide +kernel
-- the record level did the same; the relation holds at the end and in the lock-broken state
example :
    let us5 := runU sampleIdna (c05gHist2.take 5) ({}, {})
    Sim₂ sampleIdna (runR sampleIdna c05gHist2 ({}, {})) (runU sampleIdna c05gHist2 ({}, {})) ∧
    Sim₂ sampleIdna (runR sampleIdna (c05gHist2.take 5) ({}, {})) us5 ∧
    us5.1.url.map getSearch = some (asciiStr "?a=1&b=2") ∧ us5.1.sp.map (·.list) = some [] := by
  simp only [← runRK_eq, ← runUK_eq]
  decide +kernel
-- an instance of the theorem
example : Sim₂ sampleIdna (runR sampleIdna c05gHist2 ({}, {})) (runU sampleIdna c05gHist2 ({}, {})) :=
  (C05g_history sampleIdna sampleIdna_stable c05gHist2 (by decide)).1
/-! ## 3. what can be observed of a valid object -/

/-- In every reachable state, for each slot: the two levels agree on validity and on the params
    object; and for a valid object with stored representation `r` and record `u`:
    * the twelve getters computed from the offsets of `r` are the record-level getters of `u`;
    * the null status of host / port / query / fragment, the path kind, the host type, the segment
      count and the scheme index stored in `r` are those of `u`;
    * `r.toRecord` reads the record back; the offsets are inside the string (`OffsetsOk`, C04c);
    * unless `u` is one of the two file-exception records of C02 (`FileExc u`: scheme `file` and
      the host text is `localhost` or a two-character drive letter, or the first path segment is
      `X|` — `C02_file_exception`; only the protocol setter produces them, `C02_set_norm` /
      `C02_parse_norm`, and copies and a parse against such an object as base pass them on):
      parsing the href again, with no base or any base, gives the record `u` back, and — at the
      representation level — `parseRep` on the href, with no base or against the representation of
      any related base, succeeds with a representation that is indistinguishable from `r`
      (`Indist`: ≈, all flags, host type, segment count, scheme index, the twelve getters, and the
      record read back). -/
theorem C05g_getters :
    ∀ (idna : Idna), IdnaStable idna → ∀ ops : List Op, (∀ op ∈ ops, op.WF) → ∀ k : Slot,
      let ro := getSlot (runR idna ops ({}, {})) k
      let o := getSlot (runU idna ops ({}, {})) k
      ro.sp = o.sp ∧ ro.rep.isSome = o.url.isSome ∧
      ∀ r, ro.rep = some r → ∃ u, o.url = some u ∧
        (r.href = serialize u ∧ r.protocol = getProtocol u ∧ r.username = u.username ∧
         r.password = u.password ∧ r.host = getHost u ∧ r.hostname = getHostname u ∧
         r.port = getPort u ∧ r.pathname = pathText u ∧ r.path = getPath u ∧
         r.search = getSearch u ∧ r.hash = getHash u ∧ r.serializeNoFragment = serialize u true) ∧
        (r.hostNotNull = u.host.isSome ∧ r.portNotNull = u.port.isSome ∧ r.queryNotNull = u.query.isSome ∧
         r.fragmentNotNull = u.fragment.isSome ∧ r.opaquePath = u.hasOpaquePath ∧
         r.hostType = (match u.host with | some x => hostKindCode x.kind | none => 0) ∧
         r.segCount = (if u.hasOpaquePath then 0 else u.path.length) ∧ r.schemeIdx = schemeIndex u.scheme) ∧
        r.toRecord = u ∧ OffsetsOk r ∧
        (¬ FileExc u →
          (∀ base' : Option Url, parse idna .u8 r.href base' = some u) ∧
          (∀ (rb : Option Rep) (b : Option Url), RecSim idna rb b →
            ∃ r', parseRep idna .u8 r.href rb = some r' ∧ Indist r' r)) := by
  intro idna hi ops hops k
  have h := sim₂_get (C05g_history idna hi ops hops).1 k
  generalize getSlot (runR idna ops ({}, {})) k = ro at h
  generalize getSlot (runU idna ops ({}, {})) k = o at h
  refine ⟨h.1, h.2.2.isSome, fun r hr => ?_⟩
  have h3 := h.2.2
  rw [hr] at h3
  cases hu : o.url with
  | none => rw [hu] at h3; exact absurd h3 (by simp [RecSimS])
  | some u =>
    rw [hu] at h3
    obtain ⟨hrep, hg⟩ := h3
    obtain ⟨ok, _, sh, _⟩ := hg.ok
    refine ⟨u, rfl, C05b_getters u r ok.1 hrep, flags_of_repFor ok.1 hrep, C05d_toRecord u r ok.1 sh hrep,
      C04_rep_offsets_ok r u hrep, fun hx => ?_⟩
    have hn := hg.norm hx
    refine ⟨fun base' => ?_, fun rb b hb => ?_⟩
    · rw [(C05b_getters u r ok.1 hrep).1]
      exact C02_reparse idna u hn base' (by cases base' <;> simp)
    · obtain ⟨r', h1, h2⟩ := fresh_parse hi hrep hn hb
      exact ⟨r', h1, indist_of_repFor ok.1 sh h2 hrep⟩

/-- The same at the representation level only (no record in the statement): in every reachable
    state the stored representation `r` of a valid object has its offsets in bounds, and — unless
    the record it stands for (`r.toRecord`) is a file-exception record — a fresh object parsed
    from `r.href`, with no base or with ANY reachable valid object as base, is indistinguishable
    from it. -/
theorem C05g_fresh_parse :
    ∀ (idna : Idna), IdnaStable idna → ∀ ops : List Op, (∀ op ∈ ops, op.WF) → ∀ (k : Slot) (r : Rep),
      (getSlot (runR idna ops ({}, {})) k).rep = some r →
      OffsetsOk r ∧
      (¬ FileExc r.toRecord →
        (∃ r', parseRep idna .u8 r.href none = some r' ∧ Indist r' r) ∧
        ∀ (ops' : List Op) (k' : Slot) (rb : Rep), (∀ op ∈ ops', op.WF) →
          (getSlot (runR idna ops' ({}, {})) k').rep = some rb →
          ∃ r', parseRep idna .u8 r.href (some rb) = some r' ∧ Indist r' r) := by
  intro idna hi ops hops k r hr
  obtain ⟨_, _, g⟩ := C05g_getters idna hi ops hops k
  obtain ⟨u, _, _, _, htr, hoff, hfresh⟩ := g r hr
  refine ⟨hoff, fun hx => ?_⟩
  rw [htr] at hx
  obtain ⟨_, hf⟩ := hfresh hx
  refine ⟨hf none none (recSim_none idna false), fun ops' k' rb hops' hrb => ?_⟩
  have h' := (sim₂_get (C05g_history idna hi ops' hops').1 k').2.2
  rw [hrb] at h'
  cases hb : (getSlot (runU idna ops' ({}, {})) k').url with
  | none => rw [hb] at h'; exact absurd h' (by simp [RecSimS])
  | some b =>
    rw [hb] at h'
    exact hf (some rb) (some b) h'

-- the getters of the two objects at the end of the example history, computed from the offsets
example :
    let rs := runR sampleIdna c05gHist ({}, {})
    rs.2.rep.map (fun r => [r.protocol, r.username, r.password, r.host, r.hostname, r.port]) =
      some [asciiStr "http:", asciiStr "user", [], asciiStr "example.org:443", asciiStr "example.org",
            asciiStr "443"] ∧
    rs.2.rep.map (fun r => [r.pathname, r.path, r.search, r.hash, r.serializeNoFragment]) =
      some [asciiStr "/p/q", asciiStr "/p/q?z=1", asciiStr "?z=1", asciiStr "#g",
            asciiStr "http://user@example.org:443/p/q?z=1"] ∧
    rs.1.rep.map (fun r => [r.protocol, r.host, r.port, r.pathname, r.search, r.hash]) =
      some [asciiStr "file:", [], [], asciiStr "/C:/e", [], []] := by
  simp only [← runRK_eq]
  decide +kernel
-- the record read back is the record of the other level; a fresh parse of the href of slot 1 (no
-- base; slot 0 as base) gives the same representation, here even with the same raw offsets
example :
    let rs := runR sampleIdna c05gHist ({}, {})
    let us := runU sampleIdna c05gHist ({}, {})
    rs.2.rep.map (·.toRecord) = us.2.url ∧ rs.1.rep.map (·.toRecord) = us.1.url ∧
    rs.2.rep.bind (fun r => parseRep sampleIdna .u8 r.href none) = rs.2.rep ∧
    rs.2.rep.bind (fun r => parseRep sampleIdna .u8 r.href rs.1.rep) = rs.2.rep := by
  simp only [← runRK_eq, ← runUK_eq]
  decide +kernel
-- after in-place edits the raw offsets of never-started parts differ from a fresh parse (`≈`, not `=`):
-- parse `s://h`, port "8", port "": PORT was started and keeps the end-of-string offset
example :
    let ops : List Op := [.parse false .u8 (asciiStr "s://h") .none, .set false .port .u8 (asciiStr "8"),
                          .set false .port .u8 []]
    let rs := runR sampleIdna ops ({}, {})
    rs.1.rep.map (·.partEnd) = some [1, 4, 4, 4, 4, 5, 5, 0, 0, 0, 0] ∧
    (rs.1.rep.bind (fun r => parseRep sampleIdna .u8 r.href none)).map (·.partEnd) =
      some [1, 4, 4, 4, 4, 5, 0, 0, 0, 0, 0] ∧
    (rs.1.rep.bind (fun r => (parseRep sampleIdna .u8 r.href none).map (fun r' => decide (Indist r' r)))) =
      some true := by
  simp only [← runRK_eq]
  decide +kernel

/-- Histories WITHOUT a call of the protocol setter never meet the exception: they keep the relation
    with `Norm` in place of `NormX` (every operation but the protocol setter keeps `Norm`:
    `C02_parse_norm`, `C02_set_norm`, `C02_update_norm`), so every valid object's record is in normal
    form, is not a file-exception record, and a fresh object parsed from the href is
    indistinguishable from the object — without any exception. -/
theorem C05g_no_protocol :
    ∀ (idna : Idna), IdnaStable idna → ∀ ops : List Op, (∀ op ∈ ops, op.WF) → (∀ op ∈ ops, op.NoProtocol) →
      SimS₂ idna true (runR idna ops ({}, {})) (runU idna ops ({}, {})) ∧
      (∀ (k : Slot) (u : Url), (getSlot (runU idna ops ({}, {})) k).url = some u → Norm idna u ∧ ¬ FileExc u) ∧
      (∀ (k : Slot) (r : Rep), (getSlot (runR idna ops ({}, {})) k).rep = some r →
        ¬ FileExc r.toRecord ∧ ∃ r', parseRep idna .u8 r.href none = some r' ∧ Indist r' r) := by
  intro idna hi ops hops hnp
  have h0 : SimS₂ idna true (({}, {}) : RObj × RObj) (({}, {}) : UrlObj × UrlObj) :=
    ⟨sim_empty idna true, sim_empty idna true⟩
  have h := (sim_run hi ops hops (fun _ => hnp) h0).1
  refine ⟨h, fun k u hu => ?_, fun k r hr => ?_⟩
  · have h3 := (sim₂_get h k).2.2
    rw [hu] at h3
    cases hr : (getSlot (runR idna ops ({}, {})) k).rep with
    | none => rw [hr] at h3; exact absurd h3 (by simp [RecSimS])
    | some r => rw [hr] at h3; exact ⟨h3.2, h3.2.not_fileExc⟩
  · have h3 := (sim₂_get h k).2.2
    rw [hr] at h3
    cases hu : (getSlot (runU idna ops ({}, {})) k).url with
    | none => rw [hu] at h3; exact absurd h3 (by simp [RecSimS])
    | some u =>
      rw [hu] at h3
      obtain ⟨hrep, hg⟩ := h3
      obtain ⟨ok, _, sh, _⟩ := hg.ok
      have hx : ¬ FileExc r.toRecord := by
        rw [C05d_toRecord u r ok.1 sh hrep]; exact hg.not_fileExc
      exact ⟨hx, ((C05g_fresh_parse idna hi ops hops k r hr).2 hx).1⟩

-- the example history without its protocol call satisfies the hypothesis; with it, it does not
example : (∀ op ∈ c05gHist.take 2 ++ c05gHist.drop 3, op.NoProtocol) ∧ ¬ (∀ op ∈ c05gHist, op.NoProtocol) := by
  decide
example : ∀ (k : Slot) (r : Rep),
    (getSlot (runR sampleIdna (c05gHist.take 2 ++ c05gHist.drop 3) ({}, {})) k).rep = some r →
    ∃ r', parseRep sampleIdna .u8 r.href none = some r' ∧ Indist r' r :=
  fun k r hr => ((C05g_no_protocol sampleIdna sampleIdna_stable _ (by decide) (by decide)).2.2 k r hr).2

-- the second history has no protocol call either (its lock-broken states included)
example : ∀ (k : Slot) (r : Rep), (getSlot (runR sampleIdna c05gHist2 ({}, {})) k).rep = some r →
    ∃ r', parseRep sampleIdna .u8 r.href none = some r' ∧ Indist r' r :=
  fun k r hr => ((C05g_no_protocol sampleIdna sampleIdna_stable _ (by decide) (by decide)).2.2 k r hr).2

/-- The file exception is real and reachable: `http://localhost/C|/x`, then `protocol = "file"`.
    The object is related to its record (the theorem applies), its record is a `FileExc` record,
    and a fresh parse of its href `file://localhost/C|/x` is a DIFFERENT URL, `file:///C:/x`
    (the Standard's file host state maps `localhost` to the empty host and the path state
    normalises the drive letter; the protocol setter does neither). -/
theorem C05g_file_exception :
    let ops : List Op := [.parse false .u8 (asciiStr "http://localhost/C|/x") .none,
                          .set false .protocol .u8 (asciiStr "file")]
    let rs := runR sampleIdna ops ({}, {})
    let us := runU sampleIdna ops ({}, {})
    Sim₂ sampleIdna rs us ∧
    rs.1.rep.map (·.href) = some (asciiStr "file://localhost/C|/x") ∧
    us.1.url.map (fun u => decide (FileExc u)) = some true ∧
    rs.1.rep.map (fun r => decide (FileExc r.toRecord)) = some true ∧
    (rs.1.rep.bind (fun r => parseRep sampleIdna .u8 r.href none)).map (·.href) =
      some (asciiStr "file:///C:/x") := by
  simp only [← runRK_eq, ← runUK_eq]
  decide +kernel

/-! ## 4. invalid objects, failing href -/

/-- an invalid object (never parsed, cleared, moved-from, or the last parse failed) ignores every
    setter but `href`: representation and params object unchanged, `false` returned -/
theorem C05g_invalid_inert :
    ∀ (idna : Idna) (sp : Option Params) (s : Setter) (e : Enc) (units : List Nat), s ≠ .href →
      RObj.set idna ⟨none, sp⟩ s e units = (⟨none, sp⟩, false) := by
  intro idna sp s e units hs
  cases s <;> first | exact absurd rfl hs | rfl

/-- … and `update()` of its params object does not touch it either -/
theorem C05g_invalid_update : ∀ (sp : Option Params), RObj.update ⟨none, sp⟩ = ⟨none, sp⟩ :=
  fun _ => rfl

/-- a failing `href` setter leaves the object — representation and params object — unchanged; it
    fails exactly when the parser fails on the input without a base, on either level -/
theorem C05g_href_atomic :
    ∀ (idna : Idna) (o : RObj) (e : Enc) (units : List Nat),
      ((o.set idna .href e units).2 = false → (o.set idna .href e units).1 = o) ∧
      ((o.set idna .href e units).2 = false ↔ parseRep idna e units none = none) ∧
      ((o.set idna .href e units).2 = false ↔ parse idna e units none = none) := by
  intro idna o e units
  have e1 : o.set idna .href e units =
      match (({} : RObj).parse idna e units none) with
      | (fresh, true) => ((rSafeAssign o fresh).1, true)
      | (_, false) => (o, false) := by
    unfold RObj.set; rfl
  have e2 : ({} : RObj).parse idna e units none =
      match parseRep idna e units none with
      | some r => (⟨some r, none⟩, true)
      | none => (⟨none, none⟩, false) := by
    unfold RObj.parse
    simp only [Option.isSome_none, Bool.false_eq_true, if_false, Option.bind_none]
    cases parseRep idna e units none <;> rfl
  have hiff : (parseRep idna e units none = none) ↔ (parse idna e units none = none) := by
    have := (C05e_parse_nobase idna e units).1
    cases h1 : parseRep idna e units none <;> cases h2 : parse idna e units none <;> simp_all
  rw [e1, e2, ← hiff]
  cases parseRep idna e units none <;> simp

-- evaluated: slot 0 of the example history is invalid after the safe_assign (9 operations in), with
-- an (empty) params object: `hostname` is ignored; and a failing `href` on the valid slot 1
example :
    let rs := runR sampleIdna (c05gHist.take 9) ({}, {})
    rs.1 = { rep := none, sp := some { list := [], isSorted := false } } ∧
    stepR sampleIdna (.set false .hostname .u8 (asciiStr "x")) rs = (rs, false) ∧
    rs.2.rep.map (·.norm) = some (asciiStr "http://user@example.org:443/p/q?z=1#g") ∧
    parseRep sampleIdna .u8 (asciiStr "//no-scheme") none = none ∧
    stepR sampleIdna (.set true .href .u8 (asciiStr "//no-scheme")) rs = (rs, false) ∧
    -- a succeeding href on the invalid slot 0 makes it valid again and refills its params object
    (stepR sampleIdna (.set false .href .u8 (asciiStr "a:b?k=v")) rs).1.1 =
      { rep := parseRep sampleIdna .u8 (asciiStr "a:b?k=v") none,
        sp := some { list := [(asciiStr "k", asciiStr "v")], isSorted := false } } := by
  simp only [← runRK_eq, ← stepRK_eq]
  decide +kernel

/-! ## 5. the side condition is needed; the relation bites -/

/-- `Op.WF` is needed (in the MODEL, where a code unit is a `Nat`; a C++ `char` is always a byte):
    appending the "name" [4096] makes `urlencode` write the "hex digit" 311 into the query; the
    representation still stands for the record (`RepFor`), but the record is no longer `Good`,
    and a fresh parse of the href yields a different string. -/
theorem C05g_needs_bytes :
    let ops : List Op := [.parse false .u8 (asciiStr "http://h/") .none, .sp false (.append [4096] [])]
    let rs := runR sampleIdna ops ({}, {})
    let us := runU sampleIdna ops ({}, {})
    ¬ (∀ op ∈ ops, op.WF) ∧ ¬ Sim₂ sampleIdna rs us ∧
    rs.1.rep.map (·.norm) = some (asciiStr "http://h/?%" ++ [311] ++ asciiStr "0=") ∧
    (rs.1.rep.bind fun r => us.1.url.map fun u => (decide (RepFor r u), decide (Good sampleIdna u))) =
      some (true, false) ∧
    (rs.1.rep.bind (fun r => parseRep sampleIdna .u8 r.href none)).map (·.norm) =
      some (asciiStr "http://h/?%%EF%BF%BD0=") := by
  simp only [← runRK_eq, ← runUK_eq]
  decide +kernel

/-- a WRONG `safe_assign` that moves the record but keeps the destination's old params list (the
    kind of the seeded changes `c05_stale_params_on_reuse` / `c20_safe_assign_record_first`) -/
def rSafeAssignStale (dst src : RObj) : RObj × RObj :=
  let dst' : RObj :=
    match dst.sp with
    | some p => { rep := src.rep, sp := some p }
    | none => { rep := src.rep, sp := none }
  (dst', { rep := none, sp := src.sp.map (fun _ => { list := [], isSorted := false }) })

/-- … agrees with the real one when the destination has no params object, but after
    `u1.search_params()` it leaves the list of the OLD query `y` next to the new record
    (`…?a=1&b=2&c=d+e#f`): the relation fails (first conjunct), and observably so — the list is not
    the parse of `search()` -/
theorem C05g_bites_stale_params :
    let rs := runR sampleIdna (c05gHist.take 7) ({}, {})
    let us := runU sampleIdna (c05gHist.take 7) ({}, {})
    let good := rSafeAssign rs.2 rs.1
    let bad := rSafeAssignStale rs.2 rs.1
    Sim₂ sampleIdna rs us ∧
    rSafeAssignStale { rs.2 with sp := none } rs.1 = rSafeAssign { rs.2 with sp := none } rs.1 ∧
    Sim sampleIdna good.1 (safeAssign us.2 us.1).1 ∧
    bad.1.rep = good.1.rep ∧ bad.2 = good.2 ∧
    bad.1.sp = some { list := [(asciiStr "y", [])], isSorted := false } ∧
    good.1.sp = some { list := [(asciiStr "a", asciiStr "1"), (asciiStr "b", asciiStr "2"),
                                (asciiStr "c", asciiStr "d e")], isSorted := true } ∧
    ¬ Sim sampleIdna bad.1 (safeAssign us.2 us.1).1 ∧
    good.1.rep.map (·.search) = some (asciiStr "?a=1&b=2&c=d+e") := by
  simp only [← runRK_eq, ← runUK_eq]
  decide +kernel

#print axioms C05g_sim_def
#print axioms C05g_good_iff
#print axioms C05g_good_ok
#print axioms C05g_init
#print axioms C05g_step
#print axioms C05g_ops
#print axioms C05g_ops_params
#print axioms C05g_history
#print axioms C05g_history_from
#print axioms C05g_getters
#print axioms C05g_fresh_parse
#print axioms C05g_no_protocol
#print axioms C05g_file_exception
#print axioms C05g_invalid_inert
#print axioms C05g_invalid_update
#print axioms C05g_href_atomic
#print axioms C05g_needs_bytes
#print axioms C05g_bites_stale_params

end Upa.Props
