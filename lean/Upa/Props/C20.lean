import Upa.Proofs.Fault
/-
  C20 — an allocation failure at any point is safe; `url::href` / `url::safe_assign` are all-or-nothing.
  Model: `Upa.Impl.Fault` (operation = list of steps in program order, each tagged may-throw or not and
  temp-only or target-modifying; a failure schedule makes one may-throw step fail).  The theorems
  quantify over ALL failure points (`failAt`), all start states and all lengths of the parse phase.
  Taken from the C++ side, not proved here: the tags themselves, i.e. that `move_record` and
  `move_params` cannot throw (string/list move-assignment with std::allocator and POD copies;
  declared `noexcept` by the library from C++17 on) and that parsing writes only to the temporary `u`.
-/
namespace Upa.Props
open Upa.Impl.Fault

/-- 1. all-or-nothing for ANY operation in which every may-throw step precedes every
    target-modifying step (and no step is both): whichever step fails, the target object is
    exactly as before when the exception leaves the operation -/
theorem C20_atomic_general {α β : Type} (steps : List (Step α β))
    (hshape : (∀ st ∈ steps, st.eff.isMutTarget = true → st.mayThrow = false) ∧
      steps.Pairwise (fun a b => a.eff.isMutTarget = true → b.mayThrow = false))
    (failAt : Option Nat) (s s' : St α β) (e : Exn)
    (h : runOp steps failAt s = .threw e s') : s'.target = s.target :=
  atomic_general steps hshape failAt s s' e h

/-- … and once the first target-modifying step has been reached the operation completes -/
theorem C20_commit_completes {α β : Type} (steps : List (Step α β))
    (h : ∀ st ∈ steps, st.mayThrow = false) (failAt : Option Nat) (s : St α β) :
    runOp steps failAt s = .done (steps.foldl (fun s st => st.eff.apply s) s) :=
  runOp_noThrow steps h failAt s

/-- the three branches of `safe_assign` have the shape -/
theorem safeAssign_shape (thisHasParams otherHasParams : Bool) :
    Shape (safeAssignSteps thisHasParams otherHasParams) := by
  cases thisHasParams <;> cases otherHasParams <;> decide

/-- `href` has the shape, for every parser output (every length of the parse phase) -/
theorem href_shape (maxSize : Nat) (thisHasParams : Bool) (output : List Nat) (valid : Bool) :
    Shape (hrefSteps maxSize thisHasParams output valid) := by
  apply shape_append_temp
  · intro st hst
    obtain ⟨c, _, rfl⟩ := List.mem_map.mp hst
    rfl
  · cases valid
    · simp [Shape]
    · exact safeAssign_shape thisHasParams false

/-- 2a. `url::safe_assign`: if it does not complete, the url record and the search params of `*this`
    are exactly as before (all three branches, every failure point) -/
theorem C20_safe_assign_atomic (thisHasParams otherHasParams : Bool) (failAt : Option Nat)
    (s s' : St UrlObj Temps) (e : Exn)
    (h : runOp (safeAssignSteps thisHasParams otherHasParams) failAt s = .threw e s') :
    s'.target.record = s.target.record ∧ s'.target.params = s.target.params := by
  rw [atomic_general _ (safeAssign_shape _ _) failAt s s' e h]; exact ⟨rfl, rfl⟩

/-- 2b. `url::href`: the same, for every input and every failure point in the parse phase or after -/
theorem C20_href_atomic (maxSize : Nat) (thisHasParams : Bool) (output : List Nat) (valid : Bool)
    (failAt : Option Nat) (s s' : St UrlObj Temps) (e : Exn)
    (h : runOp (hrefSteps maxSize thisHasParams output valid) failAt s = .threw e s') :
    s'.target.record = s.target.record ∧ s'.target.params = s.target.params := by
  rw [atomic_general _ (href_shape _ _ _ _) failAt s s' e h]; exact ⟨rfl, rfl⟩

/-- and `href` without failure does what it should (so "nothing" is not all it ever does): the
    record becomes the parser's output, the params object (if there is one) is rebuilt from it; an
    invalid input leaves the target alone -/
theorem C20_href_completes (maxSize : Nat) (thisHasParams : Bool) (output : List Nat) (valid : Bool)
    (s : St UrlObj Temps) (hsize : s.temp.u.record.length + output.length ≤ maxSize) :
    ∃ s', runOp (hrefSteps maxSize thisHasParams output valid) none s = .done s' ∧
      s'.target = if valid then
          { record := s.temp.u.record ++ output,
            params := if thisHasParams then some (paramsOf (s.temp.u.record ++ output)) else s.target.params }
        else s.target := by
  induction output generalizing s with
  | nil =>
    cases valid <;> cases thisHasParams <;>
      simp [hrefSteps, safeAssignSteps, runOp, buildParams, moveRecord, moveParamsLocal, Effect.apply]
  | cons c r ih =>
    have h1 : ¬ maxSize ≤ s.temp.u.record.length := by simp at hsize; omega
    have := ih ((parseStep maxSize c).eff.apply s) (by simp [parseStep, Effect.apply] at hsize ⊢; omega)
    simpa [hrefSteps, runOp, parseStep, h1, Effect.apply] using this

/-- start state of the examples: `*this` = "a?x" with a search-params object [x]; `u` fresh -/
def exStart : St UrlObj Temps :=
  { target := { record := [97, 63, 120], params := some [120] }, temp := { u := { record := [], params := none } } }

/-- non-vacuity of 2: `href("b?yz")` on `exStart` — no failure: record and params both replaced;
    failure in the parse phase (index 1), at the params construction (index 4): an exception and the
    target untouched; index 5 is past the last may-throw step: completes;
    with `max_size` 3 the fourth growth step raises `length_error`, target untouched -/
example :
    runOp (hrefSteps 1000 true [98, 63, 121, 122] true) none exStart =
      .done { target := { record := [98, 63, 121, 122], params := some [121, 122] },
              temp := { u := { record := [], params := none }, params := [] } } ∧
    runOp (hrefSteps 1000 true [98, 63, 121, 122] true) (some 1) exStart =
      .threw .badAlloc { exStart with temp := { u := { record := [98], params := none } } } ∧
    runOp (hrefSteps 1000 true [98, 63, 121, 122] true) (some 4) exStart =
      .threw .badAlloc { exStart with temp := { u := { record := [98, 63, 121, 122], params := none } } } ∧
    (∃ s, runOp (hrefSteps 1000 true [98, 63, 121, 122] true) (some 5) exStart = .done s) ∧
    runOp (hrefSteps 3 true [98, 63, 121, 122] true) none exStart =
      .threw .lengthError { exStart with temp := { u := { record := [98, 63, 121], params := none } } } ∧
    runOp (hrefSteps 1000 true [98, 63, 121, 122] false) none exStart =
      .done { exStart with temp := { u := { record := [98, 63, 121, 122], params := none } } } := by
  refine ⟨by decide, by decide, by decide, ⟨_, rfl⟩, by decide, by decide⟩

/-- 3. the shape matters: a `safe_assign` that moved the record BEFORE building the params violates
    it, and the failure of the params construction leaves `*this` with the new record and the old
    params (an inconsistent object) -/
theorem C20_not_vacuous :
    ¬ Shape badSafeAssignSteps ∧
    runOp badSafeAssignSteps (some 0) { exStart with temp := { u := { record := [98, 63, 121], params := none } } } =
      .threw .badAlloc { target := { record := [98, 63, 121], params := some [120] },
                         temp := { u := { record := [], params := none } } } ∧
    ({ record := [98, 63, 121], params := some [120] } : UrlObj) ≠ exStart.target := by
  decide

/-- 4. the exception class: `Exn` has exactly two values, and which one is raised is determined:
    `bad_alloc` only on an injected allocation failure, `length_error` only from a may-throw step's
    size check -/
theorem C20_exception_class :
    (∀ e : Exn, e = .badAlloc ∨ e = .lengthError) ∧
    ∀ {α β : Type} (steps : List (Step α β)) (failAt : Option Nat) (s s' : St α β) (e : Exn),
      runOp steps failAt s = .threw e s' →
      (e = .badAlloc ∧ failAt.isSome = true) ∨
      (e = .lengthError ∧ ∃ st ∈ steps, st.mayThrow = true ∧ st.tooLong s' = true) :=
  ⟨fun e => by cases e <;> simp, fun steps failAt s s' e h => threw_cause steps failAt s s' e h⟩

#print axioms C20_atomic_general
#print axioms C20_commit_completes
#print axioms C20_safe_assign_atomic
#print axioms C20_href_atomic
#print axioms C20_href_completes
#print axioms C20_not_vacuous
#print axioms C20_exception_class

end Upa.Props
