import Upa.Impl.Api
import Upa.Spec.Api
import Upa.Props.C10
import Upa.Props.C11
import Upa.Props.C12
import Upa.Props.C14
/-
  C01 — URL parsing conforms to the WHATWG URL Standard, with and without a base.
  The statement as a whole,
    ∀ idna e units base, IdnaOk idna → UnitsOk e units → Impl.parse idna e units base = Spec.apiParse idna e units base
  where `Impl.parse` is the code-shaped block parser and `Spec.apiParse` the Standard's state machine, is
  `C01_parse_conforms` in Props/C01b.lean.  This file holds the leaf pieces it is assembled from.
-/
namespace Upa.Props
open Upa

/-- code units are in the range of their character type -/
def UnitsOk : Enc → List Nat → Prop
  | .u8, l => ∀ x ∈ l, x < 256
  | .u16, l => ∀ x ∈ l, x < 65536
  | .u32, _ => True

theorem unitsOk_filter {e : Enc} {l : List Nat} (p : Nat → Bool) (h : UnitsOk e l) : UnitsOk e (l.filter p) := by
  cases e <;> simp_all [UnitsOk, List.mem_filter]

/-- both parsers work on the same scalar value string: the library's lazy ICU-style decoding equals
    the Standard's conversion (after the removal of ASCII tab and newline code units) -/
theorem C01_input_conversion (e : Enc) (units : List Nat) (h : UnitsOk e units) :
    Impl.prep e units = Spec.parserInput e units := by
  unfold Impl.prep Spec.parserInput
  have h' := unitsOk_filter (fun c => !Impl.isRemovable c) h
  cases e with
  | u8 => exact C10_utf8_decoder _ h'
  | u16 => exact C10_utf16_decoder _ h'
  | u32 => exact C10_utf32_decoder _

/-- hosts: the IPv4 and IPv6 branches of the host parser are the Standard's -/
theorem C01_ip_hosts : (∀ s, Impl.ipv4Parse s = Spec.ipv4Parse s) ∧ (∀ s, Impl.ipv6Parse s = Spec.ipv6Parse s) ∧
    (∀ s, Impl.endsInNumber s = Spec.endsInANumber s) := ⟨C11_parse, C12_parse, C11_ends_in_number⟩

/-- every component encoder of the parser is the Standard's UTF-8 percent-encode with that
    component's percent-encode set -/
theorem C01_component_encoders (s : List Nat) (hs : ∀ c ∈ s, Spec.isScalar c = true) :
    Impl.percentEncode Impl.fragmentNoEnc s = Spec.utf8PercentEncode Spec.fragmentSet s ∧
    Impl.percentEncode Impl.queryNoEnc s = Spec.utf8PercentEncode Spec.querySet s ∧
    Impl.percentEncode Impl.specialQueryNoEnc s = Spec.utf8PercentEncode Spec.specialQuerySet s ∧
    Impl.percentEncode Impl.pathNoEnc s = Spec.utf8PercentEncode Spec.pathSet s ∧
    Impl.percentEncode Impl.userinfoNoEnc s = Spec.utf8PercentEncode Spec.userinfoSet s ∧
    Impl.percentEncodeC0 s = Spec.utf8PercentEncode Spec.c0ControlSet s := by
  have hi : ∀ c, c ≥ 0x80 → Spec.c0ControlSet c = true := by
    intro c hc; simp [Spec.c0ControlSet]; omega
  refine ⟨?_, ?_, ?_, ?_, ?_, C14_encode_c0 s hs⟩ <;>
    (apply C14_encode _ s hs; intro c hc;
     simp [Spec.fragmentSet, Spec.querySet, Spec.specialQuerySet, Spec.pathSet, Spec.userinfoSet, hi c hc])

example : UnitsOk .u8 [0x68, 0xC3, 0xA9] := by simp [UnitsOk]

#print axioms C01_input_conversion
#print axioms C01_ip_hosts
#print axioms C01_component_encoders
end Upa.Props
