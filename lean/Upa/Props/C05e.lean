import Upa.Proofs.ParseRepTop
/-
  C05e — the PARSER executed on the stored representation.

  `Impl.parseRep` (Upa/Impl/ParseRep.lean) is the operational model of `url::do_parse` /
  `url_parser::url_parse` without state override driving a `detail::url_serializer` on a fresh
  `upa::url`: start_scheme / save_scheme / set_scheme, start_part / save_part with the explicit
  `last_pt_`, the direct appends of the path segments, shorten_path, commit_path, set_empty_host,
  empty_host, hostStart / hostDone and `append_parts(base, t1, t2, pathOpFn)` reading the RAW
  representation of the base (zeros of never-started parts included).  It was validated against the
  real library on 2 265 666 parses (see the header of Impl/ParseRep.lean): exact equality of
  `norm_url_`, the eleven `part_end_`, the flag bits, `path_segment_count_`, the scheme index.

  This file proves that it computes a representation of the record the record-level parser
  `Impl.parse` computes (the one C01 ties to the Standard):

      parseRep idna e units rbase = some r,  parse idna e units base = some u   ⟹   RepFor r u
      (parseRep …).isSome = (parse …).isSome

  without a base (`C05e_parse_nobase`) and with a base `b` given by ANY representation `rb` of it
  (`RepFor rb b`: any pattern of never-started trailing parts — `C05e_parse_base`; this is where
  `append_parts` is proved).  `RepFor r u := r ≈ layout u ∧ r.wf` (C05b); the `_exact` variants say
  which trailing offsets are `0`: exactly those after the last started part `l = last_pt_ ≥ HOST`,
  the others being those of the from-scratch layout.  Composed with C05d (`C05e_parse_then_setters`):
  after a parse followed by any history of non-href setter calls, all executed on the stored
  representation, every getter computed from the offsets is the getter of the record the
  record-level (Standard-conformant) parser and setters compute.

  Hypotheses on the base record `b` (all decidable; every parsed URL satisfies them: `C05e_norm_base`,
  `C05e_parse_repok`):
    RepOk b, HostInv b, RecShape b     as in C05d
    b.isFile → b.port = none           needed (`C05e_base_needs_file_noport`): `append_parts(base, HOST, …)`
                                       copies the port text of a file base, the Standard's file state
                                       copies host, path and query only; no parse and no setter history
                                       gives a file URL a port (Norm of C02, `canHaveUsernamePasswordPort`).
  No hypothesis on the IDNA parameter is needed for the representation theorems (the host parser is
  the same function on both sides); `IdnaStable` of C02 is used only to know that parsed URLs are
  in normal form (`C05e_parse_repok`, `C05e_parse_then_setters`).
-/
namespace Upa.Props
open Upa Upa.Impl Upa.Proofs.C05 Upa.Proofs.SetRep Upa.Proofs.SetRepApi Upa.Proofs.ParseRep

/-! ## 1. no base URL -/

/-- Without a base URL: `parseRep` succeeds exactly when the record-level parser `parse` succeeds, and
    the raw representation it yields is a representation of the record `parse` yields. -/
theorem C05e_parse_nobase :
    ∀ (idna : Idna) (e : Enc) (units : List Nat),
      (parseRep idna e units none).isSome = (parse idna e units none).isSome ∧
      ∀ (r : Rep) (u : Url), parseRep idna e units none = some r → parse idna e units none = some u →
        RepFor r u ∧
        -- the raw offsets: the layout's up to the last started part `l`, `0` after it
        ∃ l, 5 ≤ l ∧ l ≤ 10 ∧
          r = { layout u with partEnd := (layout u).partEnd.take (l + 1) ++ List.replicate (10 - l) 0 } ∧
          ∀ i, l < i → i ≤ 10 → (layout u).pe i = (layout u).norm.length := by
  intro idna e units
  have h := sim_urlParse_nobase idna (prep e (doTrim units))
  have hp := parse_eq idna e units none
  constructor
  · show (urlParseSer idna none Ser.new (prep e (doTrim units))).isSome = _
    rw [agree_isSome h, hp]
    split <;> simp_all
  · intro r u hr hu
    have hr' : urlParseSer idna none Ser.new (prep e (doTrim units)) = some r := hr
    rw [hr'] at h
    simp only [Agree] at h
    rw [hp, if_pos h.1] at hu
    rw [← Option.some.inj hu]
    exact ⟨h.2.repFor, h.2.exact⟩

/-- the same as an equivalence -/
theorem C05e_parse_nobase_iff :
    ∀ (idna : Idna) (e : Enc) (units : List Nat),
      (∀ r, parseRep idna e units none = some r → ∃ u, parse idna e units none = some u ∧ RepFor r u) ∧
      (∀ u, parse idna e units none = some u → ∃ r, parseRep idna e units none = some r ∧ RepFor r u) := by
  intro idna e units
  obtain ⟨h1, h2⟩ := C05e_parse_nobase idna e units
  constructor
  · intro r hr
    cases hp : parse idna e units none with
    | none => rw [hr, hp] at h1; simp at h1
    | some u => exact ⟨u, rfl, (h2 r u hr hp).1⟩
  · intro u hu
    cases hp : parseRep idna e units none with
    | none => rw [hu, hp] at h1; simp at h1
    | some r => exact ⟨r, rfl, (h2 r u hp hu).1⟩

-- an evaluated instance: credentials, IPv6 host, port, dot segments, query, fragment; the raw
-- representation is the one the C++ object has (here every part is started)
example :
    parseRep c05dIdna .u8 (asciiStr " http://u:p@[0::1]:8080/a/../x?y#z ") none =
      some { norm := asciiStr "http://u:p@[::1]:8080/x?y#z",
             partEnd := [4, 7, 8, 10, 11, 16, 21, 21, 23, 25, 27],
             hostNotNull := true, portNotNull := true, queryNotNull := true, fragmentNotNull := true,
             opaquePath := false, hostType := 4, segCount := 1, schemeIdx := some 3 } ∧
    parse c05dIdna .u8 (asciiStr " http://u:p@[0::1]:8080/a/../x?y#z ") none =
      some { scheme := asciiStr "http", username := asciiStr "u", password := asciiStr "p",
             host := some ⟨.ipv6, asciiStr "[::1]"⟩, port := some 8080, path := [asciiStr "x"],
             query := some (asciiStr "y"), fragment := some (asciiStr "z") } := by decide +kernel
-- never-started trailing parts keep offset 0; "/." prefix; default port not written
example :
    (parseRep c05dIdna .u8 (asciiStr "a:/.//p") none).map (fun r => (r.norm, r.partEnd, r.segCount)) =
      some (asciiStr "a:/.//p", [1, 2, 2, 2, 2, 2, 2, 4, 7, 0, 0], 2) ∧
    (parseRep c05dIdna .u8 (asciiStr "s://h") none).map (fun r => (r.norm, r.partEnd)) =
      some (asciiStr "s://h", [1, 4, 4, 4, 4, 5, 0, 0, 0, 0, 0]) ∧
    (parseRep c05dIdna .u8 (asciiStr "https://h:443") none).map (fun r => (r.norm, r.partEnd)) =
      some (asciiStr "https://h/", [5, 8, 8, 8, 8, 9, 9, 9, 10, 0, 0]) ∧
    parseRep c05dIdna .u8 (asciiStr "http://u@/x") none = none ∧
    parse c05dIdna .u8 (asciiStr "http://u@/x") none = none := by decide +kernel

/-! ## 2. with a base URL -/

/-- With a base URL given by ANY representation `rb` of the base record `b`: `parseRep` succeeds
    exactly when `parse` succeeds, and yields a representation of the record `parse` yields. -/
theorem C05e_parse_base :
    ∀ (idna : Idna) (e : Enc) (units : List Nat) (b : Url) (rb : Rep),
      RepOk b → HostInv b → RecShape b → (b.isFile = true → b.port = none) → RepFor rb b →
      (parseRep idna e units (some rb)).isSome = (parse idna e units (some b)).isSome ∧
      ∀ (r : Rep) (u : Url), parseRep idna e units (some rb) = some r → parse idna e units (some b) = some u →
        RepFor r u ∧
        ∃ l, 5 ≤ l ∧ l ≤ 10 ∧
          r = { layout u with partEnd := (layout u).partEnd.take (l + 1) ++ List.replicate (10 - l) 0 } ∧
          ∀ i, l < i → i ≤ 10 → (layout u).pe i = (layout u).norm.length := by
  intro idna e units b rb h1 h2 h3 h4 hrb
  have ok : BaseOk b := ⟨h1, h2, h3, h4⟩
  obtain ⟨B, hB, rfl⟩ := base_present ok hrb
  have h := sim_urlParse_base idna ok hB (prep e (doTrim units))
  have hp := parse_eq idna e units (some b)
  constructor
  · show (urlParseSer idna (some (mkRep (layout b) B)) Ser.new (prep e (doTrim units))).isSome = _
    rw [agree_isSome h, hp]
    split <;> simp_all
  · intro r u hr hu
    have hr' : urlParseSer idna (some (mkRep (layout b) B)) Ser.new (prep e (doTrim units)) = some r := hr
    rw [hr'] at h
    simp only [Agree] at h
    rw [hp, if_pos h.1] at hu
    rw [← Option.some.inj hu]
    exact ⟨h.2.repFor, h.2.exact⟩

/-- in particular from the from-scratch layout of the base -/
theorem C05e_parse_base_layout :
    ∀ (idna : Idna) (e : Enc) (units : List Nat) (b : Url),
      RepOk b → HostInv b → RecShape b → (b.isFile = true → b.port = none) →
      ∀ (r : Rep) (u : Url), parseRep idna e units (some (layout b)) = some r →
        parse idna e units (some b) = some u → RepFor r u :=
  fun idna e units b h1 h2 h3 h4 r u hr hu =>
    ((C05e_parse_base idna e units b (layout b) h1 h2 h3 h4 (C05b_layout b h1.1)).2 r u hr hu).1

/-- the normal form of C02 (every parsed URL under `IdnaStable`) implies the four hypotheses -/
theorem C05e_norm_base : ∀ (idna : Idna) (b : Url), Norm idna b →
    RepOk b ∧ HostInv b ∧ RecShape b ∧ (b.isFile = true → b.port = none) := by
  intro idna b h
  obtain ⟨a1, a2, a3⟩ := C05d_norm_ok idna b h
  obtain ⟨_, _, _, _, _, h6, _⟩ := h
  exact ⟨a1, a2, a3, fun hf => (h6 (Or.inl hf)).2.2⟩

/-- a relative reference with ".." against a file base with a drive letter (the drive letter is
    kept: `get_shorten_path`), the base given as `parseRep` (= the C++) leaves it -/
example :
    ∃ rb, parseRep c05dIdna .u8 (asciiStr "file:///C:/a/b/c") none = some rb ∧
      rb.partEnd = [4, 7, 7, 7, 7, 7, 7, 7, 16, 0, 0] ∧
      (parseRep c05dIdna .u8 (asciiStr "../x") (some rb)).map (fun r => (r.norm, r.partEnd, r.segCount)) =
        some (asciiStr "file:///C:/a/x", [4, 7, 7, 7, 7, 7, 7, 7, 14, 0, 0], 3) ∧
      (parseRep c05dIdna .u8 (asciiStr "../../../../x/.") (some rb)).map (fun r => (r.norm, r.segCount)) =
        some (asciiStr "file:///C:/x/", 3) ∧
      parse c05dIdna .u8 (asciiStr "../x") (parse c05dIdna .u8 (asciiStr "file:///C:/a/b/c") none) =
        some { scheme := sFile, host := some emptyHost, path := [asciiStr "C:", asciiStr "a", asciiStr "x"] } :=
  ⟨_, rfl, by decide +kernel⟩
/-- `a:/.//p` + `?q` (the "/." prefix is copied with the path), + `..//x` (it is recomputed), and a
    fragment-only reference against an opaque path -/
example :
    ∃ rb, parseRep c05dIdna .u8 (asciiStr "a:/.//p") none = some rb ∧
      (parseRep c05dIdna .u8 (asciiStr "?q") (some rb)).map (fun r => (r.norm, r.partEnd, r.segCount)) =
        some (asciiStr "a:/.//p?q", [1, 2, 2, 2, 2, 2, 2, 4, 7, 9, 0], 2) ∧
      (parseRep c05dIdna .u8 (asciiStr "..//x") (some rb)).map (fun r => (r.norm, r.partEnd, r.segCount)) =
        some (asciiStr "a:/.//x", [1, 2, 2, 2, 2, 2, 2, 4, 7, 0, 0], 2) ∧
      parse c05dIdna .u8 (asciiStr "?q") (parse c05dIdna .u8 (asciiStr "a:/.//p") none) =
        some { scheme := asciiStr "a", path := [[], asciiStr "p"], query := some (asciiStr "q") } :=
  ⟨_, rfl, by decide +kernel⟩
example :
    ∃ rb, parseRep c05dIdna .u8 (asciiStr "mailto:a@b?s") none = some rb ∧
      (parseRep c05dIdna .u8 (asciiStr "#f") (some rb)).map (fun r => (r.norm, r.partEnd)) =
        some (asciiStr "mailto:a@b?s#f", [6, 7, 7, 7, 7, 7, 7, 7, 10, 12, 14]) ∧
      parseRep c05dIdna .u8 (asciiStr "x") (some rb) = none :=
  ⟨_, rfl, by decide +kernel⟩
-- an instance of the theorem with a representation of the base that is NOT its layout
-- (`s://h` as the C++ leaves it: nothing after HOST started)
example :
    RepFor c05bHostOnlyRep c05bHostOnly ∧ c05bHostOnlyRep ≠ layout c05bHostOnly ∧
    (parseRep c05dIdna .u8 (asciiStr "x?y") (some c05bHostOnlyRep)).map (fun r => (r.norm, r.partEnd)) =
      some (asciiStr "s://h/x?y", [1, 4, 4, 4, 4, 5, 5, 5, 7, 9, 0]) ∧
    parseRep c05dIdna .u8 (asciiStr "x?y") (some c05bHostOnlyRep) =
      parseRep c05dIdna .u8 (asciiStr "x?y") (some (layout c05bHostOnly)) := by decide +kernel

/-- `b.isFile → b.port = none` is needed: on the record {file, host h, port 8, path [p]} (which no
    parse and no setter history produces) `append_parts(base, HOST, PATH, get_shorten_path)` copies
    ":8" with the host, the record-level (Standard) file state copies host and path only -/
theorem C05e_base_needs_file_noport :
    let b : Url := { scheme := sFile, host := some ⟨.domain, asciiStr "h"⟩, port := some 8, path := [asciiStr "p"] }
    RepOk b ∧ HostInv b ∧ RecShape b ∧
    (parseRep c05dIdna .u8 (asciiStr "x") (some (layout b))).map (·.norm) = some (asciiStr "file://h:8/x") ∧
    (parse c05dIdna .u8 (asciiStr "x") (some b)).map serialize = some (asciiStr "file://h/x") := by
  decide +kernel

/-! ## 3. the invariants of the setter theorems hold after a parse -/

/-- Every URL the parser returns (without base, or against a base in normal form) satisfies the
    hypotheses of C05d and of `C05e_parse_base`: it can be edited in place and used as a base again. -/
theorem C05e_parse_repok :
    ∀ (idna : Idna), Proofs.C02b.IdnaStable idna → ∀ (e : Enc) (units : List Nat) (base : Option Url) (u : Url),
      (base = none ∨ ∃ b, base = some b ∧ Norm idna b) → parse idna e units base = some u →
      RepOk u ∧ HostInv u ∧ RecShape u ∧ (u.isFile = true → u.port = none) ∧ Norm idna u := by
  intro idna hi e units base u hb hp
  have hn := C02_parse_norm idna hi e units base u hb hp
  obtain ⟨a1, a2, a3, a4⟩ := C05e_norm_base idna u hn
  exact ⟨a1, a2, a3, a4, hn⟩

/-- Parse (with or without base), then any history of non-href setter calls, everything executed on
    the stored representation (`parseRep`, then `setRep` call by call): the final representation is a
    representation of the record the record-level parser and setters compute, the setters return
    the same bools, and all twelve getters computed from the offsets are the record-level getters. -/
theorem C05e_parse_then_setters :
    ∀ (idna : Idna), Proofs.C02b.IdnaStable idna →
    ∀ (e : Enc) (units : List Nat) (base : Option Url) (rbase : Option Rep),
      ((base = none ∧ rbase = none) ∨
        ∃ b rb, base = some b ∧ rbase = some rb ∧ Norm idna b ∧ RepFor rb b) →
    ∀ (r₀ : Rep) (u₀ : Url), parseRep idna e units rbase = some r₀ → parse idna e units base = some u₀ →
    ∀ calls : List Call, (∀ c ∈ calls, c.1 ≠ .href) →
      let r := (runRep idna calls r₀).1
      let u := applySetters idna u₀ calls
      RepFor r u ∧ (runRep idna calls r₀).2 = (runRec idna calls u₀).2 ∧
      r.href = serialize u ∧ r.protocol = getProtocol u ∧ r.username = u.username ∧
      r.password = u.password ∧ r.host = getHost u ∧ r.hostname = getHostname u ∧
      r.port = getPort u ∧ r.pathname = pathText u ∧ r.path = getPath u ∧
      r.search = getSearch u ∧ r.hash = getHash u ∧
      r.serializeNoFragment = serialize u true ∧ r.toRecord = u := by
  intro idna hi e units base rbase hb r₀ u₀ hr hp calls hc
  have hrep : RepFor r₀ u₀ ∧ (base = none ∨ ∃ b, base = some b ∧ Norm idna b) := by
    rcases hb with ⟨rfl, rfl⟩ | ⟨b, rb, rfl, rfl, hn, hrb⟩
    · exact ⟨((C05e_parse_nobase idna e units).2 r₀ u₀ hr hp).1, Or.inl rfl⟩
    · obtain ⟨a1, a2, a3, a4⟩ := C05e_norm_base idna b hn
      exact ⟨((C05e_parse_base idna e units b rb a1 a2 a3 a4 hrb).2 r₀ u₀ hr hp).1, Or.inr ⟨b, rfl, hn⟩⟩
  obtain ⟨ok, hinv, sh, _, _⟩ := C05e_parse_repok idna hi e units base u₀ hrep.2 hp
  obtain ⟨k1, k2, _⟩ := C05d_history idna calls u₀ r₀ hc ok hinv hrep.1
  rw [runRec_fst] at k1
  obtain ⟨g1, g2, g3, g4, g5, g6, g7, g8, g9, g10, g11, g12, g13⟩ :=
    C05d_history_getters idna calls u₀ r₀ hc ok hinv hrep.1
  exact ⟨k1, k2, g1, g2, g3, g4, g5, g6, g7, g8, g9, g10, g11, g12, g13 sh⟩

-- evaluated: parse against a base, then protocol / host / pathname / hash on the raw representation
example :
    ∃ rb r₀, parseRep c05dIdna .u8 (asciiStr "https://user:pw@example.org:8080/a/b?q=1#frag") none = some rb ∧
      parseRep c05dIdna .u8 (asciiStr "../c?d") (some rb) = some r₀ ∧
      r₀.partEnd = [5, 8, 12, 15, 16, 27, 32, 32, 34, 36, 0] ∧
      (runRep c05dIdna [(.protocol, .u8, asciiStr "http"), (.host, .u8, asciiStr "X.y:80"),
          (.pathname, .u8, asciiStr "/../c d/./e/.."), (.hash, .u8, asciiStr "h")] r₀).1.norm =
        asciiStr "http://user:pw@x.y/c%20d/?d#h" :=
  ⟨_, _, rfl, rfl, by decide +kernel⟩

/-! ## 4. non-vacuity: the model of `append_parts` bites -/

/-- `append_parts` with two switches: `useDelta` — the offsets of the copied parts are shifted by
    `delta` (url.h:2800, 2806, 2809); `copySeg` — `path_segment_count_` is taken from the source
    (url.h:2791, 2793).  With both on it is `Ser.appendParts`. -/
def appendPartsG (useDelta copySeg : Bool) (s : Ser) (src : Rep) (t1 t2 : Nat) (op : Option PathOp) : Ser :=
  let ifirst :=
    if t1 ≤ HOST then
      if src.hostNotNull then (if t1 = USERNAME ∧ src.hasCredentials then USERNAME else HOST)
      else PATH_PREFIX
    else t1
  let s0 : Ser := { s with rep := copyFlags s.rep src t1 t2 }
  if ifirst ≤ t2 then
    match scanDown src ifirst (t2 + 1) with
    | none => s0
    | some ilast =>
      let s1 := s0.startPart ifirst
      let lastpEnd0 := src.pe ilast
      let setSeg (r : Rep) (n : Nat) : Rep := if copySeg then { r with segCount := n } else r
      let (lastpEnd, r1) :=
        if op.isSome ∧ ilast = PATH then
          match op.bind src.pathOp with
          | some (pe', sc') => (pe', setSeg s1.rep sc')
          | none => (lastpEnd0, setSeg s1.rep src.segCount)
        else if ifirst ≤ PATH ∧ PATH ≤ ilast then (lastpEnd0, setSeg s1.rep src.segCount)
        else (lastpEnd0, s1.rep)
      let offset := src.pe (ifirst - 1) + kPartStart.getD ifirst 0
      let len := r1.norm.length
      let shift (x : Nat) : Nat := if useDelta then x + len - offset else x
      let norm' := r1.norm ++ slice src.norm offset lastpEnd
      let pe' := r1.partEnd.take ifirst ++
        ((src.partEnd.drop ifirst).take (ilast - ifirst)).map shift ++ [shift lastpEnd] ++
        r1.partEnd.drop (ilast + 1)
      ⟨{ r1 with norm := norm', partEnd := pe' }, ilast⟩
  else s0

theorem C05e_appendPartsG_model : appendPartsG true true = Ser.appendParts := by
  funext s src t1 t2 op
  rfl

/-- WITHOUT the `delta` shift: a file base with credentials `file://u@h/p` (satisfies the hypotheses
    of `C05e_parse_base`; the copied text starts after "u@", two characters further than in the
    destination) and the reference `x` (file state: `append_parts(base, HOST, PATH, get_shorten_path)`).
    The real operation yields a representation of {file, host h, path []}, the one without the
    shift does not (offsets beyond the end of the string). -/
theorem C05e_bites_append_no_delta :
    let b : Url := { scheme := sFile, username := asciiStr "u", host := some ⟨.domain, asciiStr "h"⟩,
                     path := [asciiStr "p"] }
    let s : Ser := (Ser.new.setSchemeStr sFile).setEmptyHost
    let expected : Url := { scheme := sFile, host := some ⟨.domain, asciiStr "h"⟩ }
    RepOk b ∧ HostInv b ∧ RecShape b ∧ (b.isFile = true → b.port = none) ∧
    (layout b).norm = asciiStr "file://u@h/p" ∧
    (s.appendParts (layout b) HOST PATH (some .shorten)).rep.norm = asciiStr "file://h" ∧
    (s.appendParts (layout b) HOST PATH (some .shorten)).rep.partEnd = [4, 7, 7, 7, 7, 8, 8, 8, 8, 0, 0] ∧
    RepFor (s.appendParts (layout b) HOST PATH (some .shorten)).rep expected ∧
    (appendPartsG false true s (layout b) HOST PATH (some .shorten)).rep.partEnd =
      [4, 7, 7, 7, 7, 10, 10, 10, 10, 0, 0] ∧
    ¬ RepFor (appendPartsG false true s (layout b) HOST PATH (some .shorten)).rep expected ∧
    (parseRep c05dIdna .u8 (asciiStr "x") (some (layout b))).map (fun r => (r.norm, r.partEnd)) =
      some (asciiStr "file://h/x", [4, 7, 7, 7, 7, 8, 8, 8, 10, 0, 0]) := by decide +kernel

/-- WITHOUT copying `path_segment_count_`: base `http://h/a/b`, reference `?q` (relative state:
    `append_parts(base, USERNAME, PATH)`): the count stays 0 instead of 2 -/
theorem C05e_bites_append_no_segcount :
    let b : Url := { scheme := asciiStr "http", host := some ⟨.domain, asciiStr "h"⟩,
                     path := [asciiStr "a", asciiStr "b"] }
    let s : Ser := Ser.new.setSchemeOf (layout b)
    let expected : Url := b
    (s.appendParts (layout b) USERNAME PATH none).rep.norm = asciiStr "http://h/a/b" ∧
    (s.appendParts (layout b) USERNAME PATH none).rep.segCount = 2 ∧
    RepFor (s.appendParts (layout b) USERNAME PATH none).rep expected ∧
    (appendPartsG true false s (layout b) USERNAME PATH none).rep.norm = asciiStr "http://h/a/b" ∧
    (appendPartsG true false s (layout b) USERNAME PATH none).rep.segCount = 0 ∧
    ¬ RepFor (appendPartsG true false s (layout b) USERNAME PATH none).rep expected := by decide +kernel

#print axioms C05e_parse_nobase
#print axioms C05e_parse_nobase_iff
#print axioms C05e_parse_base
#print axioms C05e_parse_base_layout
#print axioms C05e_norm_base
#print axioms C05e_base_needs_file_noport
#print axioms C05e_parse_repok
#print axioms C05e_parse_then_setters
#print axioms C05e_appendPartsG_model
#print axioms C05e_bites_append_no_delta
#print axioms C05e_bites_append_no_segcount

end Upa.Props
