import Upa.Proofs.ParseRepFinal
/-
  C05e (first part: no base URL)
-/
namespace Upa.Props
open Upa Upa.Impl Upa.Proofs.C05 Upa.Proofs.SetRep Upa.Proofs.SetRepApi Upa.Proofs.ParseRep

/-- Without a base URL: `parseRep` succeeds exactly when the record-level parser `parse` succeeds, and
    the raw representation it yields is a representation of the record `parse` yields. -/
theorem C05e_parse_nobase :
    ∀ (idna : Idna) (e : Enc) (units : List Nat),
      (parseRep idna e units none).isSome = (parse idna e units none).isSome ∧
      ∀ (r : Rep) (u : Url), parseRep idna e units none = some r → parse idna e units none = some u →
        RepFor r u := by
  intro idna e units
  have h := sim_urlParse_nobase idna (prep e (doTrim units))
  have hp := parse_eq idna e units none
  constructor
  · show (urlParseSer idna none Ser.new (prep e (doTrim units))).isSome = _
    rw [agree_isSome h, hp]
    split <;> simp_all
  · intro r u hr hu
    have hr' : urlParseSer idna none Ser.new (prep e (doTrim units)) = some r := hr
    rw [hr'] at h
    simp only [Agree] at h
    rw [hp, if_pos h.1] at hu
    rw [← Option.some.inj hu]
    exact h.2.repFor

example :
    parseRep c05dIdna .u8 (asciiStr " HTTPS://user:pw@EXAMPLE.org:8080/x/../a/b?q=1#frag") none =
      some (layout c05Full) := by decide +kernel

#print axioms C05e_parse_nobase
end Upa.Props
