import Upa.Proofs.EncIndep
import Upa.Proofs.FilePath
import Upa.Props.C01
/-
  C10 (API level) — "the same sequence of Unicode scalar values supplied as UTF-8, UTF-16, UTF-32 produces
  identical results in every API; ill-formed input behaves exactly as if each maximal ill-formed
  subsequence — taken after the parser's removal of ASCII tab and newline code units — were U+FFFD".

  The decoder theorems of `Upa/Props/C10.lean` lifted to the models of the public API
  (`Upa/Impl/Api.lean`, `CanParse.lean`, `Host.lean`, `Percent.lean`, `FilePath.lean`, `Utf.lean`).
  Helper lemmas: `Upa/Proofs/EncIndep.lean` (namespace `Upa.Proofs.C10b`).
  The UTF-32 API is the reference: its code units are the scalar values themselves.
-/
namespace Upa.Props
open Upa Upa.Proofs.C10b

/-- stub IDNA (ASCII lower-casing) for the evaluated instances -/
def c10Idna : Idna := fun l => some (l.map toLower)
def c10Txt (x : String) : List Nat := x.toList.map Char.toNat
def c10Ser (u : Option Url) : Option (List Nat) := u.map (fun u => Impl.serialize u)

/-- the running example: leading/trailing C0-or-space, tab/newline inside, 2-, 3- and 4-byte characters
    in path, query and fragment -/
private def sample : List Nat := c10Txt "  ht\ttp://BUECHER.de/ä€😀?ö#\nü \t\n "
/-- the same with a non-ASCII host.  (Its host goes through `percentDecode`, which is compiled by
    well-founded recursion and does not evaluate in the kernel: it is used with the theorems only.) -/
private def sampleH : List Nat := c10Txt "http://bücher.de/ä?ö#ü"

example : ∀ c ∈ sample, Spec.isScalar c = true := by decide +kernel
example : ∀ c ∈ sampleH, Spec.isScalar c = true := by decide +kernel
example : Spec.encode .u8 sample =
    [0x20, 0x20, 0x68, 0x74, 0x09, 0x74, 0x70, 0x3A, 0x2F, 0x2F, 0x42, 0x55, 0x45, 0x43, 0x48, 0x45, 0x52, 0x2E,
     0x64, 0x65, 0x2F, 0xC3, 0xA4, 0xE2, 0x82, 0xAC, 0xF0, 0x9F, 0x98, 0x80, 0x3F, 0xC3, 0xB6, 0x23, 0x0A,
     0xC3, 0xBC, 0x20, 0x09, 0x0A, 0x20] := by decide +kernel
example : Spec.encode .u16 sample =
    [0x20, 0x20, 0x68, 0x74, 0x09, 0x74, 0x70, 0x3A, 0x2F, 0x2F, 0x42, 0x55, 0x45, 0x43, 0x48, 0x45, 0x52, 0x2E,
     0x64, 0x65, 0x2F, 0xE4, 0x20AC, 0xD83D, 0xDE00, 0x3F, 0xF6, 0x23, 0x0A, 0xFC, 0x20, 0x09, 0x0A, 0x20] := by
  decide +kernel

/-! ### 1. preprocessing commutes with every encoder -/

/-- `do_trim` on code units = `do_trim` on the text: an ASCII scalar value is encoded as exactly that one
    unit and no unit of a multi-unit sequence is ≤ 0x20.  (No well-formedness hypothesis is needed.) -/
theorem C10_trim_encode :
    ∀ (e : Enc) (s : List Nat), Impl.doTrim (Spec.encode e s) = Spec.encode e (Impl.doTrim s) :=
  doTrim_encode

/-- `do_remove_whitespace` on code units = on the text -/
theorem C10_removeWs_encode :
    ∀ (e : Enc) (s : List Nat), Impl.removeWs (Spec.encode e s) = Spec.encode e (Impl.removeWs s) :=
  removeWs_encode

example : Impl.doTrim (Spec.encode .u8 sample) = Spec.encode .u8 (c10Txt "ht\ttp://BUECHER.de/ä€😀?ö#\nü") ∧
    Impl.doTrim (Spec.encode .u16 sample) = Spec.encode .u16 (c10Txt "ht\ttp://BUECHER.de/ä€😀?ö#\nü") ∧
    Impl.doTrim sample = c10Txt "ht\ttp://BUECHER.de/ä€😀?ö#\nü" := by decide +kernel
example : Impl.removeWs (Spec.encode .u8 sample) = Spec.encode .u8 (c10Txt "  http://BUECHER.de/ä€😀?ö#ü  ") ∧
    Impl.removeWs (Spec.encode .u16 sample) = Spec.encode .u16 (c10Txt "  http://BUECHER.de/ä€😀?ö#ü  ") ∧
    Impl.removeWs sample = c10Txt "  http://BUECHER.de/ä€😀?ö#ü  " := by decide +kernel

/-- the parser sees the same scalar value string whatever the encoding -/
theorem C10_prep_same_text :
    ∀ (e : Enc) (s : List Nat), (∀ c ∈ s, Spec.isScalar c = true) →
      Impl.prep e (Impl.doTrim (Spec.encode e s)) = Impl.removeWs (Impl.doTrim s) :=
  prep_trim_encode

example : Impl.prep .u8 (Impl.doTrim (Spec.encode .u8 sample)) = c10Txt "http://BUECHER.de/ä€😀?ö#ü" ∧
    Impl.prep .u16 (Impl.doTrim (Spec.encode .u16 sample)) = c10Txt "http://BUECHER.de/ä€😀?ö#ü" ∧
    Impl.prep .u32 (Impl.doTrim (Spec.encode .u32 sample)) = c10Txt "http://BUECHER.de/ä€😀?ö#ü" := by
  decide +kernel

/-! ### 2. every API gives the same result for the same text -/

theorem C10_parse_same_text :
    ∀ (idna : Idna) (e : Enc) (s : List Nat) (base : Option Url), (∀ c ∈ s, Spec.isScalar c = true) →
      Impl.parse idna e (Spec.encode e s) base = Impl.parse idna .u32 s base :=
  fun idna e s base h => parse_encode idna e s base h

/-- … hence for any two encodings -/
theorem C10_parse_indep :
    ∀ (idna : Idna) (e₁ e₂ : Enc) (s : List Nat) (base : Option Url), (∀ c ∈ s, Spec.isScalar c = true) →
      Impl.parse idna e₁ (Spec.encode e₁ s) base = Impl.parse idna e₂ (Spec.encode e₂ s) base :=
  fun idna e₁ e₂ s base h => (parse_encode idna e₁ s base h).trans (parse_encode idna e₂ s base h).symm

-- the three runs, computed independently
example : c10Ser (Impl.parse c10Idna .u8 (Spec.encode .u8 sample) none) =
      some (c10Txt "http://buecher.de/%C3%A4%E2%82%AC%F0%9F%98%80?%C3%B6#%C3%BC") ∧
    c10Ser (Impl.parse c10Idna .u16 (Spec.encode .u16 sample) none) =
      some (c10Txt "http://buecher.de/%C3%A4%E2%82%AC%F0%9F%98%80?%C3%B6#%C3%BC") ∧
    c10Ser (Impl.parse c10Idna .u32 sample none) =
      some (c10Txt "http://buecher.de/%C3%A4%E2%82%AC%F0%9F%98%80?%C3%B6#%C3%BC") := by decide +kernel
-- non-ASCII host: instance of the theorem
example : Impl.parse c10Idna .u8 (Spec.encode .u8 sampleH) none = Impl.parse c10Idna .u16 (Spec.encode .u16 sampleH) none :=
  C10_parse_indep c10Idna .u8 .u16 sampleH none (by decide +kernel)

theorem C10_can_parse_same_text :
    ∀ (idna : Idna) (e : Enc) (s : List Nat) (base : Option Url), (∀ c ∈ s, Spec.isScalar c = true) →
      Impl.canParse idna e (Spec.encode e s) base = Impl.canParse idna .u32 s base :=
  fun idna e s base h => canParse_encode idna e s base h

example : Impl.canParse c10Idna .u8 (Spec.encode .u8 sample) none = true ∧
    Impl.canParse c10Idna .u16 (Spec.encode .u16 sample) none = true ∧
    Impl.canParse c10Idna .u32 sample none = true ∧
    Impl.canParse c10Idna .u8 (Spec.encode .u8 (c10Txt "//ä")) none = false ∧
    Impl.canParse c10Idna .u16 (Spec.encode .u16 (c10Txt "//ä")) none = false ∧
    Impl.canParse c10Idna .u32 (c10Txt "//ä") none = false := by decide +kernel

/-- all ten setters, including the raw-unit tests of `port` (empty value) and `search` / `hash`
    (one leading `?` / `#`): `Spec.encode e s = [] ↔ s = []`, and the head unit is `?` iff the head
    scalar value is -/
theorem C10_set_same_text :
    ∀ (idna : Idna) (st : Impl.Setter) (e : Enc) (s : List Nat) (u : Url), (∀ c ∈ s, Spec.isScalar c = true) →
      Impl.setValid idna st e (Spec.encode e s) u = Impl.setValid idna st .u32 s u :=
  fun idna st e s u h => setValid_encode idna st e s u h

theorem C10_encode_nil_iff : ∀ (e : Enc) (s : List Nat), Spec.encode e s = [] ↔ s = [] := encode_eq_nil_iff

theorem C10_encode_head :
    ∀ (e : Enc) (a : Nat), a < 0x80 → ∀ (c : Nat) (r : List Nat),
      ((Spec.encode e (c :: r)).head? = some a ↔ c = a) ∧
      (c = a → Spec.encode e (c :: r) = a :: Spec.encode e r) := by
  intro e a ha c r
  rcases encode_head e a ha c r with ⟨hc, henc⟩ | ⟨hc, x, xs, henc, hx⟩
  · exact ⟨⟨fun _ => hc, fun _ => by rw [henc]; rfl⟩, fun _ => henc⟩
  · refine ⟨⟨fun h => ?_, fun h => absurd h hc⟩, fun h => absurd h hc⟩
    rw [henc] at h
    exact absurd (Option.some.inj h) hx

example : (Spec.encode .u8 (c10Txt "?ä")).head? = some 0x3F ∧ (Spec.encode .u16 (c10Txt "😀?")).head? = some 0xD83D ∧
    (Spec.encode .u8 (c10Txt "ä?")).head? = some 0xC3 := by decide +kernel

private def u0 : Url := (Impl.parse c10Idna .u8 (c10Txt "http://u:p@h:81/p?q#f") none).getD {}
private def serSet (r : Url × Bool) : List Nat × Bool := (Impl.serialize r.1, r.2)

example : Impl.serialize u0 = c10Txt "http://u:p@h:81/p?q#f" := by decide +kernel
example : ∀ st ∈ [Impl.Setter.href, .protocol, .username, .password, .host, .hostname, .port, .pathname, .search,
      .hash], ∀ e ∈ [Enc.u8, .u16], ∀ v ∈ [c10Txt "?ä€\t😀", c10Txt "#ü", c10Txt "/ä/😀", c10Txt "", c10Txt "8\n2", c10Txt "wss",
      c10Txt "x:😀@h/€?ü#\t☃"],
    (∀ c ∈ v, Spec.isScalar c = true) ∧
    Impl.setValid c10Idna st e (Spec.encode e v) u0 = Impl.setValid c10Idna st .u32 v u0 := by decide +kernel
example : serSet (Impl.setValid c10Idna .search .u8 (Spec.encode .u8 (c10Txt "?ä€\t😀")) u0) =
      (c10Txt "http://u:p@h:81/p?%C3%A4%E2%82%AC%F0%9F%98%80#f", true) ∧
    serSet (Impl.setValid c10Idna .search .u16 (Spec.encode .u16 (c10Txt "?ä€\t😀")) u0) =
      (c10Txt "http://u:p@h:81/p?%C3%A4%E2%82%AC%F0%9F%98%80#f", true) ∧
    serSet (Impl.setValid c10Idna .search .u32 (c10Txt "?ä€\t😀") u0) =
      (c10Txt "http://u:p@h:81/p?%C3%A4%E2%82%AC%F0%9F%98%80#f", true) ∧
    serSet (Impl.setValid c10Idna .hash .u16 (Spec.encode .u16 (c10Txt "ü")) u0) =
      (c10Txt "http://u:p@h:81/p?q#%C3%BC", true) ∧
    serSet (Impl.setValid c10Idna .pathname .u8 (Spec.encode .u8 (c10Txt "/Ö/€")) u0) =
      (c10Txt "http://u:p@h:81/%C3%96/%E2%82%AC?q#f", true) ∧
    serSet (Impl.setValid c10Idna .username .u16 (Spec.encode .u16 (c10Txt "😀\n")) u0) =
      (c10Txt "http://%F0%9F%98%80%0A:p@h:81/p?q#f", true) ∧
    serSet (Impl.setValid c10Idna .port .u16 (Spec.encode .u16 []) u0) = (c10Txt "http://u:p@h/p?q#f", true) := by
  decide +kernel

/-- the `url` object (record + owned `url_search_params`): `parse` and the setters -/
theorem C10_obj_same_text :
    ∀ (idna : Idna) (o : Impl.UrlObj) (e : Enc) (s : List Nat), (∀ c ∈ s, Spec.isScalar c = true) →
      (∀ base, Impl.UrlObj.parse idna o e (Spec.encode e s) base = Impl.UrlObj.parse idna o .u32 s base) ∧
      (∀ st, Impl.UrlObj.set idna o st e (Spec.encode e s) = Impl.UrlObj.set idna o st .u32 s) :=
  fun idna o e s h => ⟨fun base => objParse_encode idna o e s base h, fun st => objSet_encode idna o st e s h⟩

private def o0 : Impl.UrlObj := Impl.UrlObj.searchParams { url := some u0 }
-- (`formParse` percent-decodes: instance of the theorem; the record part evaluated)
example : Impl.UrlObj.set c10Idna o0 .search .u16 (Spec.encode .u16 (c10Txt "?ä=€&b=😀")) =
    Impl.UrlObj.set c10Idna o0 .search .u32 (c10Txt "?ä=€&b=😀") :=
  (C10_obj_same_text c10Idna o0 .u16 (c10Txt "?ä=€&b=😀") (by decide +kernel)).2 .search
example : c10Ser (Impl.UrlObj.set c10Idna o0 .search .u16 (Spec.encode .u16 (c10Txt "?ä=€&b=😀"))).1.url =
      some (c10Txt "http://u:p@h:81/p?%C3%A4=%E2%82%AC&b=%F0%9F%98%80#f") ∧
    c10Ser (Impl.UrlObj.set c10Idna o0 .search .u8 (Spec.encode .u8 (c10Txt "?ä=€&b=😀"))).1.url =
      some (c10Txt "http://u:p@h:81/p?%C3%A4=%E2%82%AC&b=%F0%9F%98%80#f") := by decide +kernel

/-- `url_host` / host parser -/
theorem C10_host_same_text :
    ∀ (idna : Idna) (e : Enc) (s : List Nat) (isOpaque : Bool), (∀ c ∈ s, Spec.isScalar c = true) →
      Impl.parseHost idna (Impl.decode e (Spec.encode e s)) isOpaque = Impl.parseHost idna s isOpaque :=
  fun idna e s o h => by rw [C10_roundtrip e s h]

example : Impl.parseHost c10Idna (Impl.decode .u8 (Spec.encode .u8 (c10Txt "BÜcher.%41.😀"))) true =
      some { kind := .opaque, text := c10Txt "B%C3%9Ccher.%41.%F0%9F%98%80" } ∧
    Impl.parseHost c10Idna (Impl.decode .u16 (Spec.encode .u16 (c10Txt "BÜcher.%41.😀"))) true =
      some { kind := .opaque, text := c10Txt "B%C3%9Ccher.%41.%F0%9F%98%80" } ∧
    Impl.parseHost c10Idna (c10Txt "BÜcher.%41.😀") true =
      some { kind := .opaque, text := c10Txt "B%C3%9Ccher.%41.%F0%9F%98%80" } := by decide +kernel
-- a domain (IDNA path, not evaluable in the kernel): instance of the theorem
example : Impl.parseHost c10Idna (Impl.decode .u16 (Spec.encode .u16 (c10Txt "BÜcher.%41.😀"))) false =
    Impl.parseHost c10Idna (c10Txt "BÜcher.%41.😀") false :=
  C10_host_same_text c10Idna .u16 (c10Txt "BÜcher.%41.😀") false (by decide +kernel)

/-- `percent_encode` / `encode_url_component` / `percent_decode` (the driver calls the models on
    `Impl.decode e units`) -/
theorem C10_percent_same_text :
    ∀ (noEnc : Nat → Bool) (e : Enc) (s : List Nat), (∀ c ∈ s, Spec.isScalar c = true) →
      Impl.percentEncode noEnc (Impl.decode e (Spec.encode e s)) = Impl.percentEncode noEnc s ∧
      Impl.percentDecode (Impl.decode e (Spec.encode e s)) = Impl.percentDecode s :=
  fun noEnc e s h => by rw [C10_roundtrip e s h]; exact ⟨rfl, rfl⟩

example : Impl.percentEncode Impl.pathNoEnc (Impl.decode .u8 (Spec.encode .u8 (c10Txt "a ä€😀"))) =
      c10Txt "a%20%C3%A4%E2%82%AC%F0%9F%98%80" ∧
    Impl.percentEncode Impl.pathNoEnc (Impl.decode .u16 (Spec.encode .u16 (c10Txt "a ä€😀"))) =
      c10Txt "a%20%C3%A4%E2%82%AC%F0%9F%98%80" ∧
    Impl.percentEncode Impl.pathNoEnc (c10Txt "a ä€😀") = c10Txt "a%20%C3%A4%E2%82%AC%F0%9F%98%80" := by decide +kernel
-- (`percentDecodeAux` is compiled by well-founded recursion: the input is evaluated in the kernel, the
-- decoding unfolded with its equations)
example : Impl.decode .u8 (Spec.encode .u8 (c10Txt "%41ä%E2%82%AC%FF€")) = c10Txt "%41ä%E2%82%AC%FF€" ∧
    Impl.decode .u16 (Spec.encode .u16 (c10Txt "%41ä%E2%82%AC%FF€")) = c10Txt "%41ä%E2%82%AC%FF€" ∧
    c10Txt "%41ä%E2%82%AC%FF€" =
      [0x25, 0x34, 0x31, 0xE4, 0x25, 0x45, 0x32, 0x25, 0x38, 0x32, 0x25, 0x41, 0x43, 0x25, 0x46, 0x46, 0x20AC] := by
  decide +kernel
example : Impl.percentDecode
      [0x25, 0x34, 0x31, 0xE4, 0x25, 0x45, 0x32, 0x25, 0x38, 0x32, 0x25, 0x41, 0x43, 0x25, 0x46, 0x46, 0x20AC] =
    [0x41, 0xC3, 0xA4, 0xE2, 0x82, 0xAC, 0xEF, 0xBF, 0xBD, 0xE2, 0x82, 0xAC] := by
  have h1 : Impl.checkFixUtf8 [0xE2, 0x82, 0xAC, 0xFF] = [0xE2, 0x82, 0xAC, 0xEF, 0xBF, 0xBD] := by decide +kernel
  have h2 : Impl.encodeUtf8Char 0xE4 = [0xC3, 0xA4] := by decide +kernel
  have h3 : Impl.encodeUtf8Char 0x20AC = [0xE2, 0x82, 0xAC] := by decide +kernel
  simp [Impl.percentDecode, Impl.percentDecodeAux, isHex, isDigit, hexVal, h1, h2, h3]

/-- `url_from_file_path` -/
theorem C10_file_path_same_text :
    ∀ (idna : Idna) (e : Enc) (s : List Nat) (fmt : Impl.PathFormat), (∀ c ∈ s, Spec.isScalar c = true) →
      Impl.urlFromFilePath idna (Impl.decode e (Spec.encode e s)) fmt = Impl.urlFromFilePath idna s fmt :=
  fun idna e s fmt h => by rw [C10_roundtrip e s h]

-- (`hasDotDotSegment` is compiled by well-founded recursion: the input is evaluated in the kernel, the
-- scan replaced by its characterisation `Proofs.C17.urlFromFilePath_posix`, the parse evaluated)
example : Impl.decode .u8 (Spec.encode .u8 (c10Txt "/tmp/ä €/😀")) = c10Txt "/tmp/ä €/😀" ∧
    Impl.decode .u16 (Spec.encode .u16 (c10Txt "/tmp/ä €/😀")) = c10Txt "/tmp/ä €/😀" := by decide +kernel
example : c10Ser (Impl.urlFromFilePath c10Idna (c10Txt "/tmp/ä €/😀") .posix) =
    some (c10Txt "file:///tmp/%C3%A4%20%E2%82%AC/%F0%9F%98%80") := by
  rw [Proofs.C17.urlFromFilePath_posix, if_pos (by decide +kernel)]
  decide +kernel
example : Impl.urlFromFilePath c10Idna (Impl.decode .u16 (Spec.encode .u16 (c10Txt "C:\\ä\\😀"))) .windows =
    Impl.urlFromFilePath c10Idna (c10Txt "C:\\ä\\😀") .windows :=
  C10_file_path_same_text c10Idna .u16 (c10Txt "C:\\ä\\😀") .windows (by decide +kernel)

/-- `url_search_params`: the stored string is the UTF-8 encoding of the text in every encoding — for
    `char` input too, where `make_string` is the identity (finding F3 concerns ill-formed bytes only) -/
theorem C10_params_same_text :
    ∀ (e : Enc) (s : List Nat), (∀ c ∈ s, Spec.isScalar c = true) →
      Impl.makeString e (Spec.encode e s) = Spec.utf8Encode s :=
  makeString_encode

example : ∀ e ∈ [Enc.u8, .u16, .u32], Impl.makeString e (Spec.encode e (c10Txt "a=ä€😀")) =
    [0x61, 0x3D, 0xC3, 0xA4, 0xE2, 0x82, 0xAC, 0xF0, 0x9F, 0x98, 0x80] := by decide +kernel
-- F3: with ill-formed bytes the `char` API keeps them, the other APIs repair
example : Impl.makeString .u8 [0x61, 0xE2, 0x82] = [0x61, 0xE2, 0x82] ∧
    Impl.makeString .u16 [0x61, 0xD83D] = [0x61, 0xEF, 0xBF, 0xBD] := by decide +kernel

/-! ### 3. ill-formed input -/

theorem unitsOk_iff (e : Enc) (units : List Nat) : UnitsOk e units ↔ UOk e units := by cases e <;> exact Iff.rfl

/-- the parser input is the Standard's decoding — one U+FFFD per maximal ill-formed subsequence — of the
    units that remain AFTER tab/newline removal (`C01_input_conversion`, restated with `Spec.decode`) -/
theorem C10_illformed_as_replacement :
    ∀ (e : Enc) (units : List Nat), UnitsOk e units →
      Impl.prep e units = Spec.decode e (Impl.removeWs units) :=
  fun e units h => C01_input_conversion e units h

example : UnitsOk .u8 [0x61, 0xE2, 0x0A, 0x82, 0xAC, 0xE2, 0x20, 0x82, 0xAC, 0xC3, 0x09, 0xF0, 0x9F, 0x0D, 0x98] := by
  simp [UnitsOk]
example : Impl.prep .u8 [0x61, 0xE2, 0x0A, 0x82, 0xAC, 0xE2, 0x20, 0x82, 0xAC, 0xC3, 0x09, 0xF0, 0x9F, 0x0D, 0x98] =
      [0x61, 0x20AC, 0xFFFD, 0x20, 0xFFFD, 0xFFFD, 0xFFFD, 0xFFFD] ∧
    Spec.decode .u8 (Impl.removeWs [0x61, 0xE2, 0x0A, 0x82, 0xAC, 0xE2, 0x20, 0x82, 0xAC, 0xC3, 0x09, 0xF0, 0x9F,
      0x0D, 0x98]) = [0x61, 0x20AC, 0xFFFD, 0x20, 0xFFFD, 0xFFFD, 0xFFFD, 0xFFFD] := by decide +kernel
example : UnitsOk .u16 [0xD83D, 0x0A, 0xDE00, 0xD83D, 0x20, 0xDE00, 0xD800] := by simp [UnitsOk]
example : Impl.prep .u16 [0xD83D, 0x0A, 0xDE00, 0xD83D, 0x20, 0xDE00, 0xD800] =
      [0x1F600, 0xFFFD, 0x20, 0xFFFD, 0xFFFD] ∧
    Impl.removeWs [0xD83D, 0x0A, 0xDE00, 0xD83D, 0x20, 0xDE00, 0xD800] =
      [0xD83D, 0xDE00, 0xD83D, 0x20, 0xDE00, 0xD800] := by decide +kernel
-- (`Spec.utf16Decode` is compiled by well-founded recursion: unfolded with its equations)
example : Spec.decode .u16 [0xD83D, 0xDE00, 0xD83D, 0x20, 0xDE00, 0xD800] =
    [0x1F600, 0xFFFD, 0x20, 0xFFFD, 0xFFFD] := by
  simp [Spec.decode, Impl.utf16Decode_two, Impl.utf16Decode_one]

/-- the decoded parser input is well-formed text on which the whole preprocessing of the UTF-32 API is
    the identity: it contains no tab/newline (the decoder never produces an ASCII value that was not a
    unit) and neither end is ≤ 0x20 (the first / last scalar value is ASCII only if the first / last
    unit is) -/
theorem C10_decoded_input_clean :
    ∀ (e : Enc) (units : List Nat), UnitsOk e units →
      let t := Spec.decode e (Impl.removeWs (Impl.doTrim units))
      (∀ c ∈ t, Spec.isScalar c = true) ∧ Impl.removeWs t = t ∧ Impl.doTrim t = t ∧
        Impl.prep .u32 (Impl.doTrim t) = t := by
  intro e units h
  have hl := (unitsOk_iff e units).1 h
  have hE := C10_illformed_as_replacement e _ (unitsOk_iff e _ |>.2 hl.doTrim)
  unfold Impl.prep at hE
  simp only [← hE]
  refine ⟨decode_scalars e _ hl.doTrim.removeWs, removeWs_decode_self e _ hl.doTrim, ?_,
    prep_u32_decoded e units hl⟩
  exact doTrim_self (trimFree_decode e hl.doTrim.removeWs (trimFree_removeWs (trimFree_doTrim units)))

/-- parsing ill-formed units = parsing the well-formed text obtained by the replacement (no further
    hypothesis on trimming is needed) -/
theorem C10_parse_illformed :
    ∀ (idna : Idna) (e : Enc) (units : List Nat) (base : Option Url), UnitsOk e units →
      Impl.parse idna e units base =
        Impl.parse idna .u32 (Spec.decode e (Impl.removeWs (Impl.doTrim units))) base := by
  intro idna e units base h
  have hl := (unitsOk_iff e units).1 h
  have hE := C10_illformed_as_replacement e _ (unitsOk_iff e _ |>.2 hl.doTrim)
  unfold Impl.prep at hE
  rw [← hE]
  exact parse_illformed idna e units base hl

/-- the same with the Standard's conversion of the untrimmed units (`Spec.parserInput`): trimming
    commutes with decoding, tab/newline removal does not -/
theorem C10_parse_illformed_input :
    ∀ (idna : Idna) (e : Enc) (units : List Nat) (base : Option Url), UnitsOk e units →
      Impl.parse idna e units base = Impl.parse idna .u32 (Spec.parserInput e units) base ∧
      Impl.canParse idna e units base = Impl.canParse idna .u32 (Spec.parserInput e units) base := by
  intro idna e units base h
  have hl := (unitsOk_iff e units).1 h
  rw [← C01_input_conversion e units h]
  exact ⟨parse_parserInput idna e units base hl, canParse_parserInput idna e units base hl⟩

theorem C10_trim_decode :
    ∀ (e : Enc) (units : List Nat), UnitsOk e units →
      Impl.doTrim (Impl.decode e units) = Impl.decode e (Impl.doTrim units) :=
  fun e units h => doTrim_decode e units ((unitsOk_iff e units).1 h)

private def bad8 : List Nat :=
  [0x20, 0x09] ++ c10Txt "http://h/" ++ [0xE2, 0x0A, 0x82, 0xAC, 0x2F, 0xE2, 0x20, 0x82, 0xAC, 0xC3, 0x09, 0x20, 0x0A]
private def bad16 : List Nat := c10Txt " http://h/" ++ [0xD83D, 0x0A, 0xDE00, 0x2F, 0xD83D, 0x20, 0xDE00, 0xD800, 0x09]

example : UnitsOk .u8 bad8 ∧ UnitsOk .u16 bad16 := by
  constructor <;> (simp only [UnitsOk]; decide +kernel)
example : Spec.decode .u8 (Impl.removeWs (Impl.doTrim bad8)) =
      c10Txt "http://h/€/\uFFFD \uFFFD\uFFFD\uFFFD" ∧
    Spec.parserInput .u8 bad8 = c10Txt " http://h/€/\uFFFD \uFFFD\uFFFD\uFFFD " ∧
    c10Ser (Impl.parse c10Idna .u8 bad8 none) =
      some (c10Txt "http://h/%E2%82%AC/%EF%BF%BD%20%EF%BF%BD%EF%BF%BD%EF%BF%BD") ∧
    c10Ser (Impl.parse c10Idna .u32 (c10Txt "http://h/€/\uFFFD \uFFFD\uFFFD\uFFFD") none) =
      some (c10Txt "http://h/%E2%82%AC/%EF%BF%BD%20%EF%BF%BD%EF%BF%BD%EF%BF%BD") := by decide +kernel
example : Impl.decode .u16 (Impl.removeWs (Impl.doTrim bad16)) = c10Txt "http://h/😀/\uFFFD \uFFFD\uFFFD" ∧
    c10Ser (Impl.parse c10Idna .u16 bad16 none) = some (c10Txt "http://h/%F0%9F%98%80/%EF%BF%BD%20%EF%BF%BD%EF%BF%BD") ∧
    c10Ser (Impl.parse c10Idna .u32 (c10Txt "http://h/😀/\uFFFD \uFFFD\uFFFD") none) =
      some (c10Txt "http://h/%F0%9F%98%80/%EF%BF%BD%20%EF%BF%BD%EF%BF%BD") := by decide +kernel
-- tab/newline removal does NOT commute with decoding (that is the clause of C10)
example : Impl.removeWs (Impl.decode .u8 [0xE2, 0x0A, 0x82, 0xAC]) = [0xFFFD, 0xFFFD, 0xFFFD] ∧
    Impl.decode .u8 (Impl.removeWs [0xE2, 0x0A, 0x82, 0xAC]) = [0x20AC] := by decide +kernel

/-- setters on ill-formed input.  Every parser-based setter sees the Standard's conversion taken after
    tab/newline removal; `port`, `search`, `hash` test the raw units (empty value, one leading `?` / `#`)
    BEFORE tab/newline removal — as the Standard's setters do — so for them the first unit must not be a
    tab/newline (counterexample below: `port` with value "\n" is a no-op, with value "" it resets the port).
    `username` / `password` never reach the parser and use the plain conversion. -/
theorem C10_set_illformed :
    ∀ (idna : Idna) (st : Impl.Setter) (e : Enc) (units : List Nat) (u : Url), UnitsOk e units →
      ((st ≠ .username ∧ st ≠ .password) →
        ((st = .port ∨ st = .search ∨ st = .hash) →
          ∀ c, units.head? = some c → Impl.isRemovable c = false) →
        Impl.setValid idna st e units u = Impl.setValid idna st .u32 (Spec.parserInput e units) u) ∧
      ((st = .username ∨ st = .password) →
        Impl.setValid idna st e units u = Impl.setValid idna st .u32 (Impl.decode e units) u) := by
  intro idna st e units u h
  have hl := (unitsOk_iff e units).1 h
  rw [← C01_input_conversion e units h]
  exact ⟨setValid_illformed idna st e units u hl, setValid_illformed_cred idna st e units u hl⟩

example : serSet (Impl.setValid c10Idna .search .u8 [0x3F, 0xE2, 0x0A, 0x82, 0xAC, 0xE2, 0x20, 0x82] u0) =
      (c10Txt "http://u:p@h:81/p?%E2%82%AC%EF%BF%BD%20%EF%BF%BD#f", true) ∧
    Spec.parserInput .u8 [0x3F, 0xE2, 0x0A, 0x82, 0xAC, 0xE2, 0x20, 0x82] = c10Txt "?€\uFFFD \uFFFD" ∧
    serSet (Impl.setValid c10Idna .search .u32 (c10Txt "?€\uFFFD \uFFFD") u0) =
      (c10Txt "http://u:p@h:81/p?%E2%82%AC%EF%BF%BD%20%EF%BF%BD#f", true) := by decide +kernel
example : serSet (Impl.setValid c10Idna .pathname .u8 [0x2F, 0xE2, 0x0A, 0x82, 0xAC, 0x2F, 0xE2, 0x82] u0) =
      (c10Txt "http://u:p@h:81/%E2%82%AC/%EF%BF%BD?q#f", true) ∧
    Spec.parserInput .u8 [0x2F, 0xE2, 0x0A, 0x82, 0xAC, 0x2F, 0xE2, 0x82] = c10Txt "/€/\uFFFD" ∧
    serSet (Impl.setValid c10Idna .pathname .u32 (c10Txt "/€/\uFFFD") u0) =
      (c10Txt "http://u:p@h:81/%E2%82%AC/%EF%BF%BD?q#f", true) ∧
    serSet (Impl.setValid c10Idna .username .u8 [0xE2, 0x0A, 0x82, 0xAC] u0) =
      (c10Txt "http://%EF%BF%BD%0A%EF%BF%BD%EF%BF%BD:p@h:81/p?q#f", true) ∧
    serSet (Impl.setValid c10Idna .username .u32 (Impl.decode .u8 [0xE2, 0x0A, 0x82, 0xAC]) u0) =
      (c10Txt "http://%EF%BF%BD%0A%EF%BF%BD%EF%BF%BD:p@h:81/p?q#f", true) := by decide +kernel
-- the port counterexample mentioned above
example : serSet (Impl.setValid c10Idna .port .u8 [0x0A] u0) = (c10Txt "http://u:p@h:81/p?q#f", true) ∧
    Spec.parserInput .u8 [0x0A] = [] ∧
    serSet (Impl.setValid c10Idna .port .u32 [] u0) = (c10Txt "http://u:p@h/p?q#f", true) := by decide +kernel

/-! ### 4. the tab/newline clause on a concrete URL -/

/-- `E2 0A 82 AC` — the UTF-8 of U+20AC interrupted by a newline — is parsed as `%E2%82%AC`;
    `E2 20 82 AC` — interrupted by a space — is three maximal ill-formed subsequences around `%20`.
    The same for a surrogate pair in UTF-16. -/
theorem C10_tab_newline_example :
    c10Ser (Impl.parse c10Idna .u8 (c10Txt "http://h/" ++ [0xE2, 0x0A, 0x82, 0xAC]) none) =
      some (c10Txt "http://h/%E2%82%AC") ∧
    c10Ser (Impl.parse c10Idna .u8 (c10Txt "http://h/" ++ [0xE2, 0x20, 0x82, 0xAC]) none) =
      some (c10Txt "http://h/%EF%BF%BD%20%EF%BF%BD%EF%BF%BD") ∧
    c10Ser (Impl.parse c10Idna .u16 (c10Txt "http://h/" ++ [0xD83D, 0x09, 0xDE00]) none) =
      some (c10Txt "http://h/%F0%9F%98%80") ∧
    c10Ser (Impl.parse c10Idna .u16 (c10Txt "http://h/" ++ [0xD83D, 0x20, 0xDE00]) none) =
      some (c10Txt "http://h/%EF%BF%BD%20%EF%BF%BD") := by decide +kernel

end Upa.Props

#print axioms Upa.Props.C10_trim_encode
#print axioms Upa.Props.C10_removeWs_encode
#print axioms Upa.Props.C10_prep_same_text
#print axioms Upa.Props.C10_parse_same_text
#print axioms Upa.Props.C10_parse_indep
#print axioms Upa.Props.C10_can_parse_same_text
#print axioms Upa.Props.C10_set_same_text
#print axioms Upa.Props.C10_encode_nil_iff
#print axioms Upa.Props.C10_encode_head
#print axioms Upa.Props.C10_obj_same_text
#print axioms Upa.Props.C10_host_same_text
#print axioms Upa.Props.C10_percent_same_text
#print axioms Upa.Props.C10_file_path_same_text
#print axioms Upa.Props.C10_params_same_text
#print axioms Upa.Props.C10_illformed_as_replacement
#print axioms Upa.Props.C10_decoded_input_clean
#print axioms Upa.Props.C10_parse_illformed
#print axioms Upa.Props.C10_parse_illformed_input
#print axioms Upa.Props.C10_trim_decode
#print axioms Upa.Props.C10_set_illformed
#print axioms Upa.Props.C10_tab_newline_example
