import Upa.Proofs.Host
import Upa.Impl.Api
import Upa.Gen.Tables
/-
  C07 — "host parsing conforms to the WHATWG host parser for domains, IPv4, IPv6 and opaque hosts".

  Models: `Impl.parseHost` (include/upa/url_host.h:159-361, code-shaped: bracket check, opaque branch,
  fast path for pure-ASCII domains, early rejection of a forbidden ASCII character, percent-decode →
  UTF-16 → ToASCII → forbidden check → ends-in-a-number → IPv4 / domain) against `Spec.hostParse`
  (URL Standard §3.5 host parser and opaque-host parser).

  "domain to ASCII" (UTS #46 ToASCII through ICU, `beStrict = false`) is a PARAMETER `idna : Idna`
  (UTF-16 code units in, ASCII out, `none` = failure or empty result).  The conformance theorem
  quantifies over every `idna` that satisfies the two hypotheses of `IdnaOk`; both are properties of
  UTS #46 ToASCII with the Standard's flags (CheckHyphens = false, CheckBidi = true, CheckJoiners = true,
  UseSTD3ASCIIRules = false, Transitional_Processing = false, VerifyDnsLength = false) and are validated
  against ICU by testing (`upa::domain_to_ascii`: all inputs of length ≤ 3 plus random long ones for
  `ascii`, 3.3 M structured / random inputs around U+0338, other marks, ignorables, full-width forms,
  `xn--`, surrogates for `persist`: no violation with ICU 72), not proved here.
  Helper lemmas: Upa/Proofs/Host.lean.
-/
namespace Upa.Props

/-! ### 1. what the proof needs from "domain to ASCII" -/

/-- Hypotheses on the IDNA parameter.  Exactly two are needed: `ascii` makes the fast path of
    url_host.h:189-205 equal to the full path, `persist` makes the early rejection of
    url_host.h:206-214 sound.  Everything after the call (forbidden-domain check on the output,
    ends-in-a-number, IPv4) is the same function of the output in the code and in the Standard, so no
    property of the output (ASCII-ness, non-emptiness, …) is required. -/
structure IdnaOk (idna : Idna) : Prop where
  /-- A non-empty input that consists of "ASCII domain characters" only (U+0020..U+007F minus the
      forbidden domain code points, i.e. ``! " $ & ' ( ) * + , - . 0-9 ; = A-Z _ ` a-z { } ~``) and has
      no label starting with `xn--` (any case; labels are delimited by U+002E, the only ASCII label
      separator of UTS #46) maps to its ASCII lower-casing.
      UTS #46: with UseSTD3ASCIIRules = false every ASCII code point is valid, A-Z map to a-z; NFC, the
      Punycode step, CheckBidi and CheckJoiners leave a pure-ASCII string alone; no label is an A-label,
      so nothing is Punycode-decoded or validated; the only errors that can be recorded (empty label,
      label / domain name too long, leading / trailing hyphen, hyphens in positions 3 and 4) belong to
      CheckHyphens and VerifyDnsLength, which the Standard switches off (`C07_idna_fatal_mask`);
      the result is not empty because the input is not. -/
  ascii : ∀ s : List Nat, s ≠ [] → (∀ c ∈ s, Spec.asciiDomainChar c = true) →
    Impl.hasXnLabel s = false → idna s = some (s.map toLower)
  /-- An ASCII forbidden domain code point in the input persists.  The UTF-16 input is
      `pre ++ p :: post` where `pre` consists of ASCII domain characters, `p` is an ASCII code unit that
      is a forbidden domain code point other than `%` (so: a C0 control, space, `#` `/` `:` `<` `>` `?`
      `@` `[` `\` `]` `^` `|` or DEL) and — when `p` is `<` or `>` — the unit after it, if any, is ASCII
      (`=` U+003D is inside the code's range test `0x3C..0x3E` but is not a forbidden domain code point, so
      it never is `p`).  Then ToASCII fails or its output still contains a forbidden domain code point.
      UTS #46: with UseSTD3ASCIIRules = false `p` is valid and maps to itself; NFC changes an ASCII
      non-letter only by composing `<` `=` `>` with an immediately following U+0338 (canonical
      reordering can move U+0338 only across other combining marks, all ≥ U+0080; an ASCII unit is a
      starter and blocks composition), which the side condition excludes; Punycode encoding copies
      basic code points; an A-label of the input is decoded, validated (`p` is valid) and kept.
      `post` is restricted to 16-bit units (it is UTF-16). -/
  persist : ∀ (pre : List Nat) (p : Nat) (post : List Nat),
    (∀ c ∈ pre, Spec.asciiDomainChar c = true) →
    p < 0x80 → p ≠ 0x25 → Spec.forbiddenDomain p = true →
    (∀ u ∈ post, u < 0x10000) →
    ¬ ((p = 0x3C ∨ p = 0x3E) ∧ ∃ n r, post = n :: r ∧ 0x80 ≤ n) →
    ∀ a, idna (pre ++ p :: post) = some a → a.any Spec.forbiddenDomain = true

/-- The test stub "lower-case every unit" satisfies both hypotheses: `ascii` by definition, and
    `persist` because it never composes or drops anything — the forbidden `p` is not a letter, so it is
    copied to the output.  (A real ToASCII differs from the stub on non-ASCII input and on `xn--` labels,
    where `IdnaOk` says nothing.)  So `IdnaOk` is not contradictory. -/
def C07_stubIdna : Idna := fun l => some (l.map toLower)

theorem C07_stubIdna_ok : IdnaOk C07_stubIdna where
  ascii := fun _ _ _ _ => rfl
  persist := by
    intro pre p post _ hlt _ hf _ _ a ha
    have hlow : ∀ c, c < 128 → Spec.forbiddenDomain c = true → Spec.forbiddenDomain (toLower c) = true := by
      decide
    simp only [C07_stubIdna, Option.some.injEq] at ha
    subst ha
    rw [List.any_eq_true]
    exact ⟨toLower p, by simp, hlow p hlt hf⟩

/-! ### 2. conformance -/

/-- The library's host parser returns what the Standard's host parser returns — failure, host type and
    serialization — for every scalar-value input, for the opaque and the non-opaque case.
    Contains: empty input; the bracket rule and IPv6 (C12); the opaque-host parser (forbidden host code
    points, C0 control percent-encode set, C14); fast path = full path (`ascii`; IPv4 parsing is
    insensitive to ASCII case); soundness of the early rejection (`persist`); `buff_uc` = UTF-8 decode
    without BOM of the string percent-decoding, as UTF-16 (C14 + C10); forbidden domain code point check;
    ends-in-a-number routing and IPv4 (C11). -/
theorem C07_host_conforms :
    ∀ idna : Idna, IdnaOk idna → ∀ (s : List Nat) (isOpaque : Bool),
      (∀ c ∈ s, Spec.isScalar c = true) →
      Impl.parseHost idna s isOpaque = Spec.hostParse idna s isOpaque :=
  fun idna h s isOpaque hs => Proofs.C07.parseHost_eq idna h.ascii h.persist s isOpaque hs

-- hypotheses satisfiable: `C07_stubIdna_ok`, and a non-trivial scalar input
example : ∀ c ∈ asciiStr "EXAMPLE.com" ++ [0xE9, 0x1F600], Spec.isScalar c = true := by decide

-- Evaluated instances, both parsers, stub IDNA.  The kernel evaluates the code's fast path, IPv6 and the
-- opaque branch directly; `percent_decode` (code) and "percent-decode" (Standard) are compiled by
-- well-founded recursion, so where they are reached the instance is computed with the equations
-- `Proofs.C07.impl_eval_slow` / `Proofs.C07.spec_eval` (+ `specBuf_*`) and the rest by evaluation.
section Instances
open Upa.Proofs.C07

-- fast path, lower-casing
example : Impl.parseHost C07_stubIdna (asciiStr "EXAMPLE.com") false = some ⟨.domain, asciiStr "example.com"⟩ := by
  decide +kernel
example : Spec.hostParse C07_stubIdna (asciiStr "EXAMPLE.com") false = some ⟨.domain, asciiStr "example.com"⟩ := by
  rw [spec_eval C07_stubIdna _ _ (by decide) (specBuf_plain _ (by decide))]; decide +kernel
-- fast path, ends in a number → IPv4 (hex, fewer than four parts); upper-case `0X7F` as well
example : Impl.parseHost C07_stubIdna (asciiStr "0x7f.1") false = some ⟨.ipv4, asciiStr "127.0.0.1"⟩ ∧
    Impl.parseHost C07_stubIdna (asciiStr "0X7F.1") false = some ⟨.ipv4, asciiStr "127.0.0.1"⟩ := by
  decide +kernel
example : Spec.hostParse C07_stubIdna (asciiStr "0x7f.1") false = some ⟨.ipv4, asciiStr "127.0.0.1"⟩ := by
  rw [spec_eval C07_stubIdna _ _ (by decide) (specBuf_plain _ (by decide))]; decide +kernel
example : Spec.hostParse C07_stubIdna (asciiStr "0X7F.1") false = some ⟨.ipv4, asciiStr "127.0.0.1"⟩ := by
  rw [spec_eval C07_stubIdna _ _ (by decide) (specBuf_plain _ (by decide))]; decide +kernel
-- IPv6, opaque or not; unclosed bracket
example : Impl.parseHost C07_stubIdna (asciiStr "[::1]") false = some ⟨.ipv6, asciiStr "[::1]"⟩ ∧
    Spec.hostParse C07_stubIdna (asciiStr "[::1]") false = some ⟨.ipv6, asciiStr "[::1]"⟩ ∧
    Impl.parseHost C07_stubIdna (asciiStr "[::1]") true = some ⟨.ipv6, asciiStr "[::1]"⟩ ∧
    Spec.hostParse C07_stubIdna (asciiStr "[::1]") true = some ⟨.ipv6, asciiStr "[::1]"⟩ := by
  decide +kernel
example : Impl.parseHost C07_stubIdna (asciiStr "[::1") false = none ∧
    Spec.hostParse C07_stubIdna (asciiStr "[::1") false = none := by decide +kernel
-- space: forbidden host and domain code point (early rejection in the code / step 7 in the Standard)
example : Impl.parseHost C07_stubIdna (asciiStr "a b") false = none ∧
    Impl.parseHost C07_stubIdna (asciiStr "a b") true = none ∧
    Spec.hostParse C07_stubIdna (asciiStr "a b") true = none := by decide +kernel
example : Spec.hostParse C07_stubIdna (asciiStr "a b") false = none := by
  rw [spec_eval C07_stubIdna _ _ (by decide) (specBuf_plain _ (by decide))]; decide +kernel
-- opaque host: C0 control percent-encode set (DEL and non-ASCII are encoded, `!` is not); empty input
example : Impl.parseHost C07_stubIdna [0x61, 0x7F, 0x21, 0xE9] true = some ⟨.opaque, asciiStr "a%7F!%C3%A9"⟩ ∧
    Spec.hostParse C07_stubIdna [0x61, 0x7F, 0x21, 0xE9] true = some ⟨.opaque, asciiStr "a%7F!%C3%A9"⟩ := by
  decide +kernel
example : Impl.parseHost C07_stubIdna [] true = some ⟨.empty, []⟩ ∧
    Spec.hostParse C07_stubIdna [] true = some ⟨.empty, []⟩ ∧
    Impl.parseHost C07_stubIdna [] false = none ∧ Spec.hostParse C07_stubIdna [] false = none := by decide
-- percent-decoding before ToASCII (full path)
example : Impl.parseHost C07_stubIdna (asciiStr "%41") false = some ⟨.domain, asciiStr "a"⟩ := by
  rw [impl_eval_slow C07_stubIdna _ [0x41] (by decide) (by decide +kernel)
    (by simp [asciiStr, Impl.percentDecode, Impl.percentDecodeAux, isHex, isDigit, hexVal])]
  decide +kernel
example : Spec.hostParse C07_stubIdna (asciiStr "%41") false = some ⟨.domain, asciiStr "a"⟩ := by
  rw [show asciiStr "%41" = [0x25, 0x34, 0x31] by decide,
    spec_eval C07_stubIdna _ [0x41] (by decide)
      (by rw [specBuf_hex_ascii _ _ _ (by decide) (by decide) (by decide), specBuf_nil]; rfl)]
  decide +kernel
-- an `xn--` label leaves the fast path (the stub keeps it; a real ToASCII validates it)
example : Impl.hasXnLabel (asciiStr "xn--a") = true ∧ Impl.hasXnLabel (asciiStr "a.XN--b") = true ∧
    Impl.hasXnLabel (asciiStr "axn--a") = false := by decide
example : Impl.parseHost C07_stubIdna (asciiStr "xn--a") false = some ⟨.domain, asciiStr "xn--a"⟩ := by
  rw [impl_eval_slow C07_stubIdna _ (asciiStr "xn--a") (by decide) (by decide +kernel)
    (by simp [asciiStr, Impl.percentDecode, Impl.percentDecodeAux])]
  decide +kernel
example : Spec.hostParse C07_stubIdna (asciiStr "xn--a") false = some ⟨.domain, asciiStr "xn--a"⟩ := by
  rw [spec_eval C07_stubIdna _ _ (by decide) (specBuf_plain _ (by decide))]; decide +kernel
-- ends in a number but is not an IPv4 address
example : Impl.parseHost C07_stubIdna (asciiStr "1.2.3.4.5") false = none := by decide +kernel
example : Spec.hostParse C07_stubIdna (asciiStr "1.2.3.4.5") false = none := by
  rw [spec_eval C07_stubIdna _ _ (by decide) (specBuf_plain _ (by decide))]; decide +kernel
-- `<` followed by an escape is not rejected early; it is caught after ToASCII
example : implFast (asciiStr "a<%41") = none ∧ implFast (asciiStr "a<b") = some none := by decide +kernel
example : Impl.parseHost C07_stubIdna (asciiStr "a<%41") false = none := by
  rw [impl_eval_slow C07_stubIdna _ (asciiStr "a<A") (by decide) (by decide +kernel)
    (by simp [asciiStr, Impl.percentDecode, Impl.percentDecodeAux, isHex, isDigit, hexVal])]
  decide +kernel
example : Spec.hostParse C07_stubIdna (asciiStr "a<%41") false = none := by
  rw [show asciiStr "a<%41" = [0x61, 0x3C] ++ [0x25, 0x34, 0x31] by decide,
    spec_eval C07_stubIdna _ (asciiStr "a<A") (by decide)
      (by rw [specBuf_append _ (by decide), specBuf_hex_ascii _ _ _ (by decide) (by decide) (by decide),
            specBuf_nil]; rfl)]
  decide +kernel
-- non-ASCII input reaches ToASCII as UTF-16 (U+1F600 → D83D DE00; the stub returns it unchanged)
example : Impl.parseHost C07_stubIdna [0x61, 0x1F600] false = some ⟨.domain, [0x61, 0xD83D, 0xDE00]⟩ := by
  rw [impl_eval_slow C07_stubIdna _ [0x61, 0xF0, 0x9F, 0x98, 0x80] (by decide) (by decide +kernel)
    (by simp [Impl.percentDecode, Impl.percentDecodeAux]; decide +kernel)]
  decide +kernel
example : Spec.hostParse C07_stubIdna [0x61, 0x1F600] false = some ⟨.domain, [0x61, 0xD83D, 0xDE00]⟩ := by
  rw [spec_eval C07_stubIdna _ [0x61, 0xD83D, 0xDE00] (by decide)
    (by rw [specBuf_cons _ (by decide) (by decide), specBuf_scalar _ (by decide) (by decide) _ (by decide),
          specBuf_nil]; decide +kernel)]
  decide +kernel

-- both hypotheses are needed: a "ToASCII" that drops `<` violates `persist`, one that always fails
-- violates `ascii`, and for each the code and the Standard disagree
example : Impl.parseHost (fun l => some ((l.filter (· != 0x3C)).map toLower)) (asciiStr "a<b") false = none := by
  decide +kernel
example : Spec.hostParse (fun l => some ((l.filter (· != 0x3C)).map toLower)) (asciiStr "a<b") false =
    some ⟨.domain, asciiStr "ab"⟩ := by
  rw [spec_eval _ _ _ (by decide) (specBuf_plain _ (by decide))]; decide +kernel
example : Impl.parseHost (fun _ => none) (asciiStr "a") false = some ⟨.domain, asciiStr "a"⟩ := by
  decide +kernel
example : Spec.hostParse (fun _ => none) (asciiStr "a") false = none := by
  rw [spec_eval _ _ _ (by decide) (specBuf_plain _ (by decide))]; rfl

end Instances

/-! ### 3. "localhost" becomes the empty host in the file host state, and only there -/

/-- The file host state (url.h file_host_state, `Impl.fileHostState`) never leaves a host whose text is
    "localhost": if the URL did not have such a host before (the file state has just set the empty host),
    it does not have one afterwards — whatever the host type. -/
theorem C07_localhost_file_only_text :
    ∀ (idna : Idna) (ov : Option Override) (u : Url) (p : List Nat),
      (∀ h, u.host = some h → h.text ≠ Impl.sLocalhost) →
      ∀ h, (Impl.fileHostState idna ov u p).url.host = some h → h.text ≠ Impl.sLocalhost := by
  intro idna ov u p h0 h hh
  rcases Proofs.C07.fileHostState_host idna ov u p with e | e | ⟨h', hne, e⟩
  · exact h0 h (e ▸ hh)
  · rw [e] at hh; cases hh; decide
  · rw [e] at hh; cases hh; exact hne

/-- the same for the domain "localhost" -/
theorem C07_localhost_file_only :
    ∀ (idna : Idna) (ov : Option Override) (u : Url) (p : List Nat),
      u.host ≠ some { kind := .domain, text := Impl.sLocalhost } →
      (Impl.fileHostState idna ov u p).url.host ≠ some { kind := .domain, text := Impl.sLocalhost } := by
  intro idna ov u p h0 hh
  rcases Proofs.C07.fileHostState_host idna ov u p with e | e | ⟨h', hne, e⟩
  · exact h0 (e ▸ hh)
  · rw [e] at hh; exact absurd hh (by decide)
  · rw [e] at hh; cases hh; exact hne rfl

/-- Outside the file host state (`hostState` enters it only for a "file" URL under a state override)
    the host state stores exactly what the host parser returned — "localhost" included. -/
theorem C07_host_state_keeps :
    ∀ (idna : Idna) (ov : Option Override) (u : Url) (p : List Nat),
      (ov.isSome && u.isFile) = false →
      (Impl.hostState idna ov u p).url.host = u.host ∨
      ∃ hostPart h, Impl.parseHost idna hostPart (!u.isSpecial) = some h ∧
        (Impl.hostState idna ov u p).url.host = some h :=
  Proofs.C07.hostState_host

-- hypotheses satisfiable (the file state enters with the empty host) and evaluated instances:
-- file://localhost/x and file://LOCALHOST/x get the empty host, http://localhost/ keeps "localhost"
example : (Impl.emptyHost).text ≠ Impl.sLocalhost := by decide
example : (Impl.parse C07_stubIdna .u8 (asciiStr "file://localhost/x") none).map (·.host) =
    some (some ⟨.empty, []⟩) := by decide +kernel
example : (Impl.parse C07_stubIdna .u8 (asciiStr "file://LOCALHOST/x") none).map (·.host) =
    some (some ⟨.empty, []⟩) := by decide +kernel
example : (Impl.parse C07_stubIdna .u8 (asciiStr "file://example/x") none).map (·.host) =
    some (some ⟨.domain, asciiStr "example"⟩) := by decide +kernel
example : (Impl.parse C07_stubIdna .u8 (asciiStr "http://localhost/") none).map (·.host) =
    some (some ⟨.domain, Impl.sLocalhost⟩) := by decide +kernel
example : (Impl.parse C07_stubIdna .u8 (asciiStr "foo://localhost/") none).map (·.host) =
    some (some ⟨.opaque, Impl.sLocalhost⟩) := by decide +kernel

/-! ### 4. how ICU is called (regenerated from src/url_idna.cpp on every run) -/

/-- `uidna_openUTS46` options: UIDNA_CHECK_BIDI (4) | UIDNA_CHECK_CONTEXTJ (8) |
    UIDNA_NONTRANSITIONAL_TO_ASCII (0x10) | UIDNA_NONTRANSITIONAL_TO_UNICODE (0x20) = 60:
    CheckBidi, CheckJoiners, Transitional_Processing = false; UIDNA_USE_STD3_RULES (2) is not set
    (UseSTD3ASCIIRules = false). -/
theorem C07_idna_options : Upa.Gen.idnaOptions = 60 := rfl

example : (4 ||| 8 ||| 0x10 ||| 0x20 : Nat) = 60 ∧ (60 &&& 2 : Nat) = 0 := by decide

/-- Every UIDNAInfo error bit is fatal except UIDNA_ERROR_EMPTY_LABEL (1), LABEL_TOO_LONG (2),
    DOMAIN_NAME_TOO_LONG (4), LEADING_HYPHEN (8), TRAILING_HYPHEN (0x10), HYPHEN_3_4 (0x20): the errors
    the Standard ignores because CheckHyphens and VerifyDnsLength are false. -/
theorem C07_idna_fatal_mask : Upa.Gen.idnaFatalMask = 0xFFFFFFC0 := rfl

example : (0xFFFFFFC0 : Nat) = 0xFFFFFFFF - (1 ||| 2 ||| 4 ||| 8 ||| 0x10 ||| 0x20) := by decide

/-- an empty ToASCII result is a failure (`idna … = none`) -/
theorem C07_idna_empty_fatal : Upa.Gen.idnaEmptyFatal = true := rfl

end Upa.Props

#print axioms Upa.Props.C07_stubIdna_ok
#print axioms Upa.Props.C07_host_conforms
#print axioms Upa.Props.C07_localhost_file_only_text
#print axioms Upa.Props.C07_localhost_file_only
#print axioms Upa.Props.C07_host_state_keeps
#print axioms Upa.Props.C07_idna_options
#print axioms Upa.Props.C07_idna_fatal_mask
#print axioms Upa.Props.C07_idna_empty_fatal
