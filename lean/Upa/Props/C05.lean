import Upa.Proofs.Rep
/-
  C05 — the stored representation (one normalised string + 11 part end offsets + flags,
  include/upa/url.h:681-686) and the getters computed from the offsets (url.h:1110-1290:
  get_part_view, is_empty, host(), path(), search(), hash(), serialize(exclude_fragment)).

  `Impl.layout u` is the representation url_serializer produces for the record `u`; `Impl.serialize`
  and `Impl.getX` are the record-level (Standard-shaped) serializer and getters.

  Defined in `Upa/Proofs/Rep.lean` (namespace `Upa.Proofs.C05`):
    RecWF u := u.scheme ≠ [] ∧ (u.host = none → u.username = [] ∧ u.password = [] ∧ u.port = none)
  (decidable).  It is needed only by `protocol`, `username`, `password`, `port`
  (`C05_getters_unconditional` covers the other getters without it) and it is exactly the weakest
  such condition (`C05_RecWF_necessary`).  Nothing is required of `hasOpaquePath/opaquePath/path`,
  `query`, `fragment`.
-/
namespace Upa.Props
open Upa Upa.Proofs.C05

/-! ### concrete records used for the non-vacuity examples -/

/-- https://user:pw@example.org:8080/a/b?q=1#frag -/
def c05Full : Url :=
  { scheme := asciiStr "https", username := asciiStr "user", password := asciiStr "pw",
    host := some ⟨.domain, asciiStr "example.org"⟩, port := some 8080,
    path := [asciiStr "a", asciiStr "b"], query := some (asciiStr "q=1"),
    fragment := some (asciiStr "frag") }

/-- null host, path [[], "x"]: serialised with the `/.` path prefix, `a:/.//x` -/
def c05Prefix : Url := { scheme := asciiStr "a", path := [[], asciiStr "x"] }

/-- opaque path: `mailto:x@y?` with an empty (non-null) query -/
def c05Opaque : Url :=
  { scheme := asciiStr "mailto", hasOpaquePath := true, opaquePath := asciiStr "x@y",
    query := some [] }

/-- username only, empty host, no port: `s://u@/p` -/
def c05UserOnly : Url :=
  { scheme := asciiStr "s", username := asciiStr "u", host := some ⟨.empty, []⟩,
    path := [asciiStr "p"] }

/-! ## 1. the laid-out string is the Standard's serialization of the record -/

theorem C05_layout_href : ∀ u : Url, (Impl.layout u).norm = Impl.serialize u := fun u => by
  rw [layout_norm, serialize_false_seg]

example : (Impl.layout c05Full).href = asciiStr "https://user:pw@example.org:8080/a/b?q=1#frag" ∧
    Impl.serialize c05Full = asciiStr "https://user:pw@example.org:8080/a/b?q=1#frag" := by decide
example : (Impl.layout c05Prefix).href = asciiStr "a:/.//x" ∧
    Impl.serialize c05Prefix = asciiStr "a:/.//x" := by decide
example : (Impl.layout c05Opaque).href = asciiStr "mailto:x@y?" ∧
    Impl.serialize c05Opaque = asciiStr "mailto:x@y?" := by decide
example : (Impl.layout c05UserOnly).href = asciiStr "s://u@/p" ∧
    Impl.serialize c05UserOnly = asciiStr "s://u@/p" := by decide

/-! ## 2. offsets are monotone and within the string (the safety of every getter slice) -/

theorem C05_layout_monotone : ∀ u : Url,
    List.Pairwise (· ≤ ·) (Impl.layout u).partEnd ∧ (Impl.layout u).partEnd.length = 11 ∧
    ∀ x ∈ (Impl.layout u).partEnd, x ≤ (Impl.layout u).norm.length := fun u => by
  rw [layout_partEnd, layout_norm]
  exact ⟨segEnds_pairwise u, segEnds_length u, segEnds_le u⟩

--                         SCHEME SEP USER PASS HOST_START HOST PORT PREFIX PATH QUERY FRAGMENT
example : (Impl.layout c05Full).partEnd = [5, 8, 12, 15, 16, 27, 32, 32, 36, 40, 45] ∧
    (Impl.layout c05Full).norm.length = 45 := by decide
example : (Impl.layout c05Prefix).partEnd = [1, 2, 2, 2, 2, 2, 2, 4, 7, 7, 7] ∧
    (Impl.layout c05Prefix).norm.length = 7 := by decide
example : (Impl.layout c05Opaque).partEnd = [6, 7, 7, 7, 7, 7, 7, 7, 10, 11, 11] ∧
    (Impl.layout c05Opaque).norm.length = 11 := by decide
example : (Impl.layout c05UserOnly).partEnd = [1, 4, 5, 5, 6, 6, 6, 6, 8, 8, 8] := by decide

/-! ## 3. every getter computed from offsets = the record-level getter -/

theorem C05_getters : ∀ u : Url, RecWF u →
    let r := Impl.layout u
    r.protocol = Impl.getProtocol u ∧ r.username = u.username ∧ r.password = u.password ∧
    r.host = Impl.getHost u ∧ r.hostname = Impl.getHostname u ∧ r.port = Impl.getPort u ∧
    r.pathname = Impl.pathText u ∧ r.path = Impl.getPath u ∧ r.search = Impl.getSearch u ∧
    r.hash = Impl.getHash u ∧ r.serializeNoFragment = Impl.serialize u true := fun u wf => by
  obtain ⟨hs, hh⟩ := wf
  refine ⟨protocol_eq u hs, ?_, ?_, ?_, hostname_seg u, ?_, pathname_seg u, path_seg u, ?_, ?_, ?_⟩
  · rw [username_seg]; exact userSeg_eq u (fun h => (hh h).1)
  · rw [password_seg]; exact passSeg_eq u (fun h => (hh h).2.1)
  · rw [host_seg, getHost_seg]
  · rw [port_seg]; exact portSeg_eq u (fun h => (hh h).2.2)
  · rw [search_seg, getSearch_seg]
  · rw [hash_seg, getHash_seg]
  · rw [serializeNoFragment_seg, serialize_true_seg]

/-- the getters that need no side condition at all -/
theorem C05_getters_unconditional : ∀ u : Url,
    let r := Impl.layout u
    r.href = Impl.serialize u ∧
    r.host = Impl.getHost u ∧ r.hostname = Impl.getHostname u ∧
    r.pathname = Impl.pathText u ∧ r.path = Impl.getPath u ∧ r.search = Impl.getSearch u ∧
    r.hash = Impl.getHash u ∧ r.serializeNoFragment = Impl.serialize u true := fun u => by
  refine ⟨C05_layout_href u, ?_, hostname_seg u, pathname_seg u, path_seg u, ?_, ?_, ?_⟩
  · rw [host_seg, getHost_seg]
  · rw [search_seg, getSearch_seg]
  · rw [hash_seg, getHash_seg]
  · rw [serializeNoFragment_seg, serialize_true_seg]

/-- `RecWF` is the weakest side condition: the four getters it is used for force it -/
theorem C05_RecWF_necessary : ∀ u : Url,
    (Impl.layout u).protocol = Impl.getProtocol u → (Impl.layout u).username = u.username →
    (Impl.layout u).password = u.password → (Impl.layout u).port = Impl.getPort u → RecWF u :=
  recWF_of_getters

-- `RecWF` is satisfiable, on records of every shape
example : RecWF c05Full ∧ RecWF c05Prefix ∧ RecWF c05Opaque ∧ RecWF c05UserOnly := by decide

-- concrete evaluated instances
example :
    let r := Impl.layout c05Full
    r.protocol = asciiStr "https:" ∧ r.username = asciiStr "user" ∧ r.password = asciiStr "pw" ∧
    r.host = asciiStr "example.org:8080" ∧ r.hostname = asciiStr "example.org" ∧
    r.port = asciiStr "8080" ∧ r.pathname = asciiStr "/a/b" ∧ r.path = asciiStr "/a/b?q=1" ∧
    r.search = asciiStr "?q=1" ∧ r.hash = asciiStr "#frag" ∧
    r.serializeNoFragment = asciiStr "https://user:pw@example.org:8080/a/b?q=1" := by decide
example :
    let r := Impl.layout c05Prefix
    r.protocol = asciiStr "a:" ∧ r.username = [] ∧ r.password = [] ∧ r.host = [] ∧ r.hostname = [] ∧
    r.port = [] ∧ r.pathname = asciiStr "//x" ∧ r.path = asciiStr "//x" ∧ r.search = [] ∧
    r.hash = [] ∧ r.serializeNoFragment = asciiStr "a:/.//x" ∧
    r.partView Impl.PATH_PREFIX = asciiStr "/." := by decide
example :
    let r := Impl.layout c05Opaque
    r.protocol = asciiStr "mailto:" ∧ r.pathname = asciiStr "x@y" ∧ r.path = asciiStr "x@y?" ∧
    r.search = [] ∧ r.hash = [] ∧ r.host = [] ∧ r.serializeNoFragment = asciiStr "mailto:x@y?" := by
  decide
example :
    let r := Impl.layout c05UserOnly
    r.username = asciiStr "u" ∧ r.password = [] ∧ r.host = [] ∧ r.hostname = [] ∧ r.port = [] ∧
    r.pathname = asciiStr "/p" := by decide

-- counterexamples: each conjunct of `RecWF` is needed
-- (a) empty scheme: `protocol()` yields "" where the record getter yields ":"
example : ¬ RecWF {} ∧ (Impl.layout {}).protocol = [] ∧ Impl.getProtocol {} = asciiStr ":" := by
  decide
-- (b) null host with a username: the string has no place for it
example :
    let u : Url := { scheme := asciiStr "a", username := asciiStr "u", path := [asciiStr "x"] }
    ¬ RecWF u ∧ (Impl.layout u).norm = asciiStr "a:/x" ∧ (Impl.layout u).username = [] ∧
    (Impl.layout u).username ≠ u.username := by decide
-- (c) null host with a password
example :
    let u : Url := { scheme := asciiStr "a", password := asciiStr "p", path := [asciiStr "x"] }
    ¬ RecWF u ∧ (Impl.layout u).password = [] ∧ (Impl.layout u).password ≠ u.password := by decide
-- (d) null host with a port
example :
    let u : Url := { scheme := asciiStr "a", port := some 80, path := [asciiStr "x"] }
    ¬ RecWF u ∧ (Impl.layout u).port = [] ∧ Impl.getPort u = asciiStr "80" := by decide

/-! ## 4. the record-level getters are mutually consistent -/

theorem C05_getter_consistency : ∀ u : Url, RecWF u →
    Impl.getHost u = (if u.host.isNone then [] else
      Impl.getHostname u ++ (match u.port with | some p => 0x3A :: toDecimal p | none => [])) ∧
    Impl.getPath u = Impl.pathText u ++ (match u.query with | some q => 0x3F :: q | none => []) ∧
    Impl.serialize u true ++ (match u.fragment with | some f => 0x23 :: f | none => []) =
      Impl.serialize u false := fun u _ => by
  refine ⟨?_, rfl, ?_⟩
  · cases hh : u.host <;> simp [Impl.getHost, Impl.getHostname, Url.hostText, hh] <;> rfl
  · cases hf : u.fragment <;> simp [Impl.serialize, hf]

/-- the same, and the same three facts on the offset getters, with no side condition -/
theorem C05_getter_consistency_unconditional : ∀ u : Url,
    (Impl.getHost u = (if u.host.isNone then [] else
      Impl.getHostname u ++ (match u.port with | some p => 0x3A :: toDecimal p | none => [])) ∧
    Impl.getPath u = Impl.pathText u ++ (match u.query with | some q => 0x3F :: q | none => []) ∧
    Impl.serialize u true ++ (match u.fragment with | some f => 0x23 :: f | none => []) =
      Impl.serialize u false) ∧
    (let r := Impl.layout u
     r.host = (if u.host.isNone then [] else
       r.hostname ++ (match u.port with | some p => 0x3A :: toDecimal p | none => [])) ∧
     r.path = r.pathname ++ (match u.query with | some q => 0x3F :: q | none => []) ∧
     r.serializeNoFragment ++ (match u.fragment with | some f => 0x23 :: f | none => []) =
       r.href) := fun u => by
  have h : (Impl.getHost u = (if u.host.isNone then [] else
      Impl.getHostname u ++ (match u.port with | some p => 0x3A :: toDecimal p | none => [])) ∧
    Impl.getPath u = Impl.pathText u ++ (match u.query with | some q => 0x3F :: q | none => []) ∧
    Impl.serialize u true ++ (match u.fragment with | some f => 0x23 :: f | none => []) =
      Impl.serialize u false) := by
    refine ⟨?_, rfl, ?_⟩
    · cases hh : u.host <;> simp [Impl.getHost, Impl.getHostname, Url.hostText, hh] <;> rfl
    · cases hf : u.fragment <;> simp [Impl.serialize, hf]
  obtain ⟨_, hho, hhn, hpn, hp, _, _, hs⟩ := C05_getters_unconditional u
  refine ⟨h, ?_⟩
  show _ ∧ _ ∧ _
  rw [hho, hhn, hpn, hp, hs]
  exact ⟨h.1, h.2.1, by rw [h.2.2]; exact (C05_layout_href u).symm⟩

example : RecWF c05Full ∧ Impl.getHost c05Full = asciiStr "example.org:8080" ∧
    Impl.getHostname c05Full = asciiStr "example.org" ∧ Impl.getPath c05Full = asciiStr "/a/b?q=1" ∧
    Impl.pathText c05Full = asciiStr "/a/b" ∧
    Impl.serialize c05Full true = asciiStr "https://user:pw@example.org:8080/a/b?q=1" ∧
    Impl.serialize c05Full false = asciiStr "https://user:pw@example.org:8080/a/b?q=1#frag" := by
  decide
example : RecWF c05Prefix ∧ Impl.getHost c05Prefix = [] ∧ Impl.getPath c05Prefix = asciiStr "//x" ∧
    Impl.serialize c05Prefix true = Impl.serialize c05Prefix false := by decide
example : RecWF c05Opaque ∧ Impl.getPath c05Opaque = asciiStr "x@y?" ∧
    Impl.pathText c05Opaque = asciiStr "x@y" := by decide

#print axioms C05_layout_href
#print axioms C05_layout_monotone
#print axioms C05_getters
#print axioms C05_getters_unconditional
#print axioms C05_RecWF_necessary
#print axioms C05_getter_consistency
#print axioms C05_getter_consistency_unconditional

end Upa.Props
