import Upa.Proofs.Params
/-
  C16 — URLSearchParams list operations and sort (include/upa/url_search_params.h:478-666,
  src/url_utf.cpp:70-107).

  `Ops`, `run`, `Sorted`, `nameLe` are defined in `Upa/Proofs/Params.lean` / `ParamsCmp.lean`
  (namespace `Upa.Proofs.C16`):
    Sorted l   := List.Pairwise (fun x y => Impl.nameLess y x = false) l
    nameLe a b := !Impl.nameLess b a          (the `le` that `Params.sort` hands to `mergeSort`)
    run p ops  := ops.foldl step p            (`step` dispatches an `Ops` to the `Impl.Params` method)
-/
namespace Upa.Props
open Upa Upa.Proofs.C16

/-! ## 1. list operations = the Standard's algorithms -/

theorem C16_append (p : Impl.Params) (n v : List Nat) :
    (p.append n v).list = Spec.spAppend p.list n v := rfl

theorem C16_del (p : Impl.Params) (n : List Nat) :
    (p.del n).list = Spec.spDelete p.list n := rfl

theorem C16_del2 (p : Impl.Params) (n v : List Nat) :
    (p.del2 n v).list = Spec.spDelete2 p.list n v := rfl

theorem C16_get (p : Impl.Params) (n : List Nat) : p.get n = Spec.spGet p.list n := rfl

theorem C16_getAll (p : Impl.Params) (n : List Nat) : p.getAll n = Spec.spGetAll p.list n := rfl

theorem C16_has (p : Impl.Params) (n : List Nat) : p.has n = Spec.spHas p.list n := rfl

theorem C16_has2 (p : Impl.Params) (n v : List Nat) : p.has2 n v = Spec.spHas2 p.list n v := rfl

/-- `set`: the first pair named `n` gets value `v`, the other pairs named `n` are removed; when there
    is none, `(n, v)` is appended. -/
theorem C16_set (p : Impl.Params) (n v : List Nat) :
    (p.set n v).list = Spec.spSet p.list n v := set_list p n v

theorem C16_ops (p : Impl.Params) (n v : List Nat) :
    (p.append n v).list = Spec.spAppend p.list n v ∧
    (p.del n).list = Spec.spDelete p.list n ∧
    (p.del2 n v).list = Spec.spDelete2 p.list n v ∧
    p.get n = Spec.spGet p.list n ∧
    p.getAll n = Spec.spGetAll p.list n ∧
    p.has n = Spec.spHas p.list n ∧
    p.has2 n v = Spec.spHas2 p.list n v ∧
    (p.set n v).list = Spec.spSet p.list n v :=
  ⟨rfl, rfl, rfl, rfl, rfl, rfl, rfl, set_list p n v⟩

-- non-vacuity: `set` on a list with two matches rewrites the first and drops the second
example :
    (Impl.Params.set { list := [([1], [10]), ([2], [20]), ([1], [30])], isSorted := true } [1] [99]).list
      = [([1], [99]), ([2], [20])] := by decide
example :
    Spec.spSet [([1], [10]), ([2], [20]), ([1], [30])] [1] [99] = [([1], [99]), ([2], [20])] := by decide
-- and appends when there is no match
example : (Impl.Params.set { list := [([2], [20])] } [1] [99]).list = [([2], [20]), ([1], [99])] := by
  decide
example : (Impl.Params.del2 { list := [([1], [10]), ([1], [30])] } [1] [30]).list = [([1], [10])] := by
  decide
example : Impl.Params.get { list := [([1], [10]), ([1], [30])] } [1] = some [10] := by decide

/-! ## 2. the comparator orders UTF-8 strings by their UTF-16 code units -/

theorem C16_cmp : ∀ a b : List Nat, (∀ c ∈ a, Spec.isScalar c = true) → (∀ c ∈ b, Spec.isScalar c = true) →
    (Impl.compareByCodeUnits (Spec.utf8Encode a) (Spec.utf8Encode b) < 0 ↔
      Spec.lexLt (Spec.utf16Encode a) (Spec.utf16Encode b) = true) ∧
    (Impl.compareByCodeUnits (Spec.utf8Encode a) (Spec.utf8Encode b) > 0 ↔
      Spec.lexLt (Spec.utf16Encode b) (Spec.utf16Encode a) = true) ∧
    (Impl.compareByCodeUnits (Spec.utf8Encode a) (Spec.utf8Encode b) = 0 ↔ a = b) := by
  intro a b ha hb
  have ka := key_encode a ha
  have kb := key_encode b hb
  refine ⟨?_, ?_, ?_⟩
  · rw [cmp_lt_iff, ka, kb]
  · rw [cmp_gt_iff, ka, kb]
  · rw [cmp_eq_iff, ka, kb]
    exact ⟨utf16Encode_inj a b ha hb, fun h => by rw [h]⟩

/-- The same for ARBITRARY byte strings (no well-formedness hypothesis): the comparator orders by the
    UTF-16 code units of what `read_utf_char` decodes (ill-formed subsequences read as U+FFFD). -/
theorem C16_cmp_all : ∀ x y : List Nat,
    (Impl.compareByCodeUnits x y < 0 ↔
      Spec.lexLt (Spec.utf16Encode (Impl.decode .u8 x)) (Spec.utf16Encode (Impl.decode .u8 y)) = true) ∧
    (Impl.compareByCodeUnits x y > 0 ↔
      Spec.lexLt (Spec.utf16Encode (Impl.decode .u8 y)) (Spec.utf16Encode (Impl.decode .u8 x)) = true) ∧
    (Impl.compareByCodeUnits x y = 0 ↔
      Spec.utf16Encode (Impl.decode .u8 x) = Spec.utf16Encode (Impl.decode .u8 y)) :=
  fun x y => ⟨cmp_lt_iff x y, cmp_gt_iff x y, cmp_eq_iff x y⟩

-- non-vacuity: U+1F600 (surrogate pair D83D DE00) sorts BELOW U+FFFD although 0x1F600 > 0xFFFD
example : (∀ c ∈ [0x1F600], Spec.isScalar c = true) ∧ (∀ c ∈ [0xFFFD], Spec.isScalar c = true) := by
  decide
example : Spec.utf8Encode [0x1F600] = [0xF0, 0x9F, 0x98, 0x80] ∧ Spec.utf8Encode [0xFFFD] = [0xEF, 0xBF, 0xBD] := by
  decide
example : Impl.compareByCodeUnits (Spec.utf8Encode [0x1F600]) (Spec.utf8Encode [0xFFFD]) < 0 := by decide
example : Spec.lexLt (Spec.utf16Encode [0x1F600]) (Spec.utf16Encode [0xFFFD]) = true := by decide
-- two supplementary code points with the same lead surrogate are ordered by the trail surrogate
example : Impl.compareByCodeUnits (Spec.utf8Encode [0x61, 0x1F600]) (Spec.utf8Encode [0x61, 0x1F601]) < 0 := by
  decide
example : Impl.compareByCodeUnits (Spec.utf8Encode [0x61, 0xE9]) (Spec.utf8Encode [0x61]) > 0 := by decide

/-! ## 3. `nameLess` is a strict weak order (the precondition of std::list::sort) -/

/-- Holds for ALL pairs, not only those with well-formed UTF-8 names. -/
theorem C16_cmp_strict_weak :
    (∀ a : Impl.BPair, Impl.nameLess a a = false) ∧
    (∀ a b c : Impl.BPair, Impl.nameLess a b = true → Impl.nameLess b c = true → Impl.nameLess a c = true) ∧
    (∀ a b c : Impl.BPair,
      Impl.nameLess a b = false → Impl.nameLess b a = false →
      Impl.nameLess b c = false → Impl.nameLess c b = false →
      Impl.nameLess a c = false ∧ Impl.nameLess c a = false) :=
  ⟨nameLess_irrefl, fun _ _ _ => nameLess_trans, fun _ _ _ => nameLess_incomp_trans⟩

example : Impl.nameLess ([0xF0, 0x9F, 0x98, 0x80], []) ([0xEF, 0xBF, 0xBD], []) = true := by decide
-- incomparable but different byte strings exist (ill-formed ones): a lone 0x80 and a lone 0xFF both
-- read as U+FFFD
example : Impl.nameLess ([0x80], []) ([0xFF], []) = false ∧ Impl.nameLess ([0xFF], []) ([0x80], []) = false := by
  decide

/-! ## 4. the `is_sorted_` cache is sound after any history -/

theorem C16_flag_inv : ∀ (p : Impl.Params) (ops : List Ops),
    (p.isSorted = true → List.Pairwise (fun x y => Impl.nameLess y x = false) p.list) →
    let q := run p ops
    q.isSorted = true → List.Pairwise (fun x y => Impl.nameLess y x = false) q.list :=
  fun p ops h => run_inv p ops h

-- non-vacuity.  The hypothesis holds for a fresh object (flag false) and for a truthful flag:
example : ((({} : Impl.Params)).isSorted = true →
    List.Pairwise (fun x y => Impl.nameLess y x = false) ({} : Impl.Params).list) := by decide
example : (({ list := [([0x61], [1]), ([0x62], [2])], isSorted := true } : Impl.Params).isSorted = true →
    List.Pairwise (fun x y => Impl.nameLess y x = false) [([0x61], [1]), ([0x62], [2])]) := by decide

/-- a concrete history: do_parse(true, "?b=1&%F0%9F%98%80=2&%EF%BF%BD=3&a=4&b=5"), sort, set("b","9"),
    delete("z"): the flag is still set at the end and the list (a, b, U+1F600, U+FFFD) is in UTF-16
    code unit order (`example_parse` in Proofs/Params.lean is the evaluated `formParse`) -/
example :
    run {} [.parse true [63, 98, 61, 49, 38, 37, 70, 48, 37, 57, 70, 37, 57, 56, 37, 56, 48, 61, 50, 38,
      37, 69, 70, 37, 66, 70, 37, 66, 68, 61, 51, 38, 97, 61, 52, 38, 98, 61, 53],
      .sort, .set [98] [57], .del [0x7A]] =
    { list := [([97], [52]), ([98], [57]), ([240, 159, 152, 128], [50]), ([239, 191, 189], [51])],
      isSorted := true } := by
  simp (decide := true) [run, step, Impl.Params.parse, example_parse, Impl.Params.sort, List.mergeSort,
    List.MergeSort.Internal.splitInTwo, Impl.Params.set, Impl.setLoop, Impl.Params.del]

-- an `append` after `sort` clears the flag, so the conclusion is about the flag being set only
example : (run { list := [([0x62], [])], isSorted := true } [.append [0x61] []]).isSorted = false := by decide

/-! ## 5. `sort` -/

/-- After `sort` (whether or not the cache flag was set, provided the flag was truthful): the list is a
    permutation of the old one, the flag is set, the list is sorted by the UTF-16 code units of the
    (decoded) names, every sublist of the old list that was already in order is still a sublist
    (stability; in particular pairs with equal names keep their relative order), and the result is
    exactly the stable merge sort of the old list. -/
theorem C16_sort : ∀ p : Impl.Params,
    (p.isSorted = true → List.Pairwise (fun x y => Impl.nameLess y x = false) p.list) →
    p.sort.isSorted = true ∧
    p.sort.list.Perm p.list ∧
    List.Pairwise (fun x y =>
      Spec.lexLt (Spec.utf16Encode (Impl.decode .u8 y.1)) (Spec.utf16Encode (Impl.decode .u8 x.1)) = false)
      p.sort.list ∧
    (∀ c : List Impl.BPair, List.Pairwise (fun x y => Impl.nameLess y x = false) c →
      List.Sublist c p.list → List.Sublist c p.sort.list) ∧
    (∀ a b : Impl.BPair, Impl.nameLess b a = false → List.Sublist [a, b] p.list →
      List.Sublist [a, b] p.sort.list) ∧
    p.sort.list = p.list.mergeSort (fun a b => !Impl.nameLess b a) := by
  intro p hinv
  refine ⟨sort_flag p, sort_perm p hinv, ?_, sort_stable p hinv, ?_, sort_list_eq p hinv⟩
  · have := sort_sorted p hinv
    unfold Sorted at this
    simpa only [nameLess_eq, key] using this
  · intro a b hab hsub
    exact sort_stable p hinv [a, b] (List.pairwise_pair.2 hab) hsub

-- non-vacuity: flag not set; U+1F600 goes below U+FFFD, "a" first, the two U+FFFD pairs keep their order
example :
    (Impl.Params.sort { list := [([0xEF, 0xBF, 0xBD], [1]), ([0xF0, 0x9F, 0x98, 0x80], [2]), ([0x61], [3]),
        ([0xEF, 0xBF, 0xBD], [4])] }).list =
      [([0x61], [3]), ([0xF0, 0x9F, 0x98, 0x80], [2]), ([0xEF, 0xBF, 0xBD], [1]), ([0xEF, 0xBF, 0xBD], [4])] := by
  simp (decide := true) [Impl.Params.sort, List.mergeSort, List.MergeSort.Internal.splitInTwo]
-- flag set and truthful: the list is returned as it is
example :
    (Impl.Params.sort {
        list := [([0x61], [3]), ([0xF0, 0x9F, 0x98, 0x80], [2]), ([0xEF, 0xBF, 0xBD], [1])],
        isSorted := true }).list =
      [([0x61], [3]), ([0xF0, 0x9F, 0x98, 0x80], [2]), ([0xEF, 0xBF, 0xBD], [1])] := by decide
example : List.Pairwise (fun x y => Impl.nameLess y x = false)
    [([0x61], [3]), ([0xF0, 0x9F, 0x98, 0x80], [2]), ([0xEF, 0xBF, 0xBD], [1])] := by decide

/-- Against the Standard's sort: if the stored list is the UTF-8 encoding of a list `dl` of
    scalar-value-string pairs, the list after `sort` is the encoding of `spSort dl`. -/
theorem C16_sort_spec : ∀ (p : Impl.Params) (dl : List Spec.Pair),
    (p.isSorted = true → List.Pairwise (fun x y => Impl.nameLess y x = false) p.list) →
    (∀ x ∈ dl, ∀ c ∈ x.1, Spec.isScalar c = true) →
    p.list = dl.map (fun x => (Spec.utf8Encode x.1, Spec.utf8Encode x.2)) →
    p.sort.list = (Spec.spSort dl).map (fun x => (Spec.utf8Encode x.1, Spec.utf8Encode x.2)) :=
  fun p dl hinv hdl hview => sort_spec Spec.utf8Encode p hinv dl hdl hview

-- non-vacuity of the decoded view: dl = [(U+FFFD, "1"), (U+1F600, "2"), ("a", "3")]
example : (∀ x ∈ [([0xFFFD], [0x31]), ([0x1F600], [0x32]), ([0x61], [0x33])],
    ∀ c ∈ (x : Spec.Pair).1, Spec.isScalar c = true) := by decide
example : ([([0xFFFD], [0x31]), ([0x1F600], [0x32]), ([0x61], [0x33])] : List Spec.Pair).map
      (fun x => (Spec.utf8Encode x.1, Spec.utf8Encode x.2)) =
    [([0xEF, 0xBF, 0xBD], [0x31]), ([0xF0, 0x9F, 0x98, 0x80], [0x32]), ([0x61], [0x33])] := by decide
example : Spec.spSort [([0xFFFD], [0x31]), ([0x1F600], [0x32]), ([0x61], [0x33])] =
    [([0x61], [0x33]), ([0x1F600], [0x32]), ([0xFFFD], [0x31])] := by
  simp (decide := true) [Spec.spSort, List.mergeSort, List.MergeSort.Internal.splitInTwo]

#print axioms C16_append
#print axioms C16_del
#print axioms C16_del2
#print axioms C16_get
#print axioms C16_getAll
#print axioms C16_has
#print axioms C16_has2
#print axioms C16_set
#print axioms C16_ops
#print axioms C16_cmp
#print axioms C16_cmp_all
#print axioms C16_cmp_strict_weak
#print axioms C16_flag_inv
#print axioms C16_sort
#print axioms C16_sort_spec

end Upa.Props
