import Upa.Props.C02
import Upa.Proofs.ReparseParsed
/-
  C02b — closes the gap between "parsed" and "normal form" of C02: every URL the parser model returns
  (any input, any encoding, no base or a normal-form base) satisfies `Norm` (Upa/Props/C02.lean), hence
  `C02_reparse` applies to it: parsing its href again, with no base or against any base, yields the
  identical URL.
  (url_parser::url_parse, include/upa/url.h:1593-2303; host_parser, include/upa/url_host.h:159-361;
  models `Impl.parse`, `Impl.parseHost`.)
  Helper lemmas: Upa/Proofs/ReparseParsed.lean (namespace Upa.Proofs.C02b), in the block structure of
  Upa/Proofs/Canon.lean.

  No hypothesis on the input code units is needed (not even a range).

  `IdnaStable idna` (Upa/Proofs/ReparseParsed.lean) is the only assumption on the IDNA parameter:
      out_ascii : ∀ s r, idna s = some r → r ≠ [] ∧ ∀ c ∈ r, c < 0x80 ∧ isUpperAlpha c = false
      idem      : ∀ s r, idna s = some r → (∀ c ∈ r, forbiddenDomain c = false) →
                    endsInNumber r = false → hasXnLabel r = true → idna r = some r
  (ToASCII output is non-empty lower-case ASCII — the hypothesis of C08 —, and ToASCII maps an output of
  its own that has an `xn--` label and that the host parser keeps as a domain to itself.  An output
  without `xn--` label re-parses through the fast path, which does not call the IDNA function.)
-/
namespace Upa.Props
open Upa Upa.Impl Upa.Proofs.C02
open Upa.Proofs.C02b (IdnaStable sampleIdna_stable)
open Upa.Proofs.C08 (sampleIdna)

/-! ### 0. the hypothesis on the IDNA parameter is satisfiable -/

-- ASCII lower-casing that fails on empty or non-ASCII input
example : IdnaStable sampleIdna := sampleIdna_stable
-- it implies the hypothesis of C08
example : ∀ idna, IdnaStable idna → Proofs.C08.IdnaCanon idna := fun _ h => h.canon

/-- `Norm` (a conjunction) and the structure `NormP` used by the helper lemmas are the same -/
theorem Norm.ofNormP {idna : Idna} {u : Url} (h : NormP idna u) : Norm idna u := by
  obtain ⟨s1, s2, s3, s4, s5, s6⟩ := h.shape
  refine ⟨h.scheme, s1, s2, s3, s4, s5, s6, h.user, h.pass, fun x hx => h.host x hx, h.port, h.segs,
    h.drive, h.opq, ?_, ?_⟩
  · intro q hq
    have := h.query
    rw [show u.query = some q from hq] at this
    exact this
  · intro f hf
    have := h.frag
    rw [show u.fragment = some f from hf] at this
    exact this

/-! ### 1. every host the host parser returns is reproduced by the host parser -/

/-- All five host kinds: domain (fast path: the lower-cased text has no `xn--` label and does not end
    in a number either; IDNA path: see `IdnaStable`), IPv4 (the dotted-decimal text ends in a number and
    parses to the same address), IPv6, opaque (the C0-control encoder is the identity on its output
    and `%`, hex digits are not forbidden host code points; an opaque host `1.2.3.4` stays opaque),
    empty.  `!o` is the `special` flag of the URL the host belongs to. -/
theorem C02_host_stable :
    ∀ idna, IdnaStable idna → ∀ (s : List Nat) (o : Bool) (h : Host),
      Impl.parseHost idna s o = some h → HostStable idna (!o) h :=
  fun idna hi s o h hh => Proofs.C02b.host_stable idna hi s o h hh

-- "EXA.c" (fast path), "0x7f.1" (IPv4), "[0:0::1]" (IPv6), "a!%7F" + DEL (opaque), "xn--A" (IDNA path)
example : Impl.parseHost sampleIdna (asciiStr "EXA.c") false = some ⟨.domain, asciiStr "exa.c"⟩ ∧
    Impl.parseHost sampleIdna (asciiStr "exa.c") false = some ⟨.domain, asciiStr "exa.c"⟩ := by
  decide +kernel
example : Impl.parseHost sampleIdna (asciiStr "0x7f.1") false = some ⟨.ipv4, asciiStr "127.0.0.1"⟩ ∧
    Impl.parseHost sampleIdna (asciiStr "127.0.0.1") false = some ⟨.ipv4, asciiStr "127.0.0.1"⟩ := by
  decide +kernel
example : Impl.parseHost sampleIdna (asciiStr "[0:0::1]") true = some ⟨.ipv6, asciiStr "[::1]"⟩ ∧
    Impl.parseHost sampleIdna (asciiStr "[::1]") true = some ⟨.ipv6, asciiStr "[::1]"⟩ := by
  decide +kernel
example : Impl.parseHost sampleIdna (asciiStr "a!%7F" ++ [0x7F]) true = some ⟨.opaque, asciiStr "a!%7F%7F"⟩ ∧
    Impl.parseHost sampleIdna (asciiStr "a!%7F%7F") true = some ⟨.opaque, asciiStr "a!%7F%7F"⟩ := by
  decide +kernel
-- (the IDNA path runs `percentDecode`, which the kernel does not unfold; through the theorem instead)
example : ∀ h, Impl.parseHost sampleIdna (asciiStr "xn--A") false = some h → HostStable sampleIdna true h :=
  fun h hh => C02_host_stable sampleIdna sampleIdna_stable _ false h hh
-- an opaque host that looks like an IPv4 address is kept as it is
example : Impl.parseHost sampleIdna (asciiStr "0x7f.1") true = some ⟨.opaque, asciiStr "0x7f.1"⟩ := by
  decide +kernel
-- an instance of the theorem
example : HostStable sampleIdna true ⟨.ipv4, asciiStr "127.0.0.1"⟩ :=
  C02_host_stable sampleIdna sampleIdna_stable (asciiStr "0x7f.1") false _ (by decide +kernel)

/-! ### 2. every successfully parsed URL is in normal form -/

theorem C02_parse_norm :
    ∀ idna, IdnaStable idna → ∀ (e : Enc) (units : List Nat) (base : Option Url) (u : Url),
      (base = none ∨ ∃ b, base = some b ∧ Norm idna b) →
      Impl.parse idna e units base = some u → Norm idna u := by
  intro idna hi e units base u hb h
  refine Norm.ofNormP (Proofs.C02b.parse_norm hi e units base ?_ u h)
  intro b hbb
  rcases hb with hb | ⟨b', hb', hc⟩
  · rw [hb] at hbb; simp at hbb
  · rw [hb'] at hbb; simp only [Option.some.injEq] at hbb; subst hbb; exact hc.toNormP

/-- " HTTP://EXAMPLE.com:80/a/../%2e/b c/.?q'#f g " with surrounding spaces and an inner tab -/
def c02bInput : List Nat := asciiStr " HTTP://EXA\tMPLE.com:80/a/../%2e/b c/.?q'#f g "
/-- "../x/%2E%2e/C|/y?#" -/
def c02bRel : List Nat := asciiStr "../x/%2E%2e/C|/y?#"

-- without a base
example : Impl.parse sampleIdna .u8 c02bInput none =
    some { scheme := asciiStr "http", host := some ⟨.domain, asciiStr "example.com"⟩,
           path := [asciiStr "b%20c", []], query := some (asciiStr "q%27"),
           fragment := some (asciiStr "f%20g") } := by decide +kernel
example : (Impl.parse sampleIdna .u8 c02bInput none).map (fun u => decide (Norm sampleIdna u)) = some true := by
  decide +kernel
-- against a file base: "file:///D:/C:/y?#" (the drive letter of the base is kept, `C|` is not first)
example : (Impl.parse sampleIdna .u16 c02bRel (some c02BaseFile)).map (fun u => (serialize u, decide (Norm sampleIdna u))) =
    some (asciiStr "file:///D:/C|/y?#", true) := by decide +kernel
-- the hypothesis on the base is satisfiable
example : Norm sampleIdna c02BaseFile ∧ Norm sampleIdna c02BaseHttps ∧ Norm sampleIdna c02BaseOpaque := by
  decide +kernel
-- an instance of the theorem
example : ∀ u, Impl.parse sampleIdna .u16 c02bRel (some c02BaseFile) = some u → Norm sampleIdna u :=
  fun u => C02_parse_norm sampleIdna sampleIdna_stable .u16 c02bRel _ u (Or.inr ⟨_, rfl, by decide +kernel⟩)
-- opaque path: trailing spaces / tabs never survive the preprocessing; an inner space does
example : Impl.parse sampleIdna .u8 (asciiStr "a:x y \t \n") none =
    some { scheme := asciiStr "a", hasOpaquePath := true, opaquePath := asciiStr "x y" } := by decide +kernel
example : Impl.parse sampleIdna .u8 (asciiStr "a:x \t?") none =
    some { scheme := asciiStr "a", hasOpaquePath := true, opaquePath := asciiStr "x ", query := some [] } := by
  decide +kernel

/-! ### 3. parsing the href of a parsed URL again gives the same URL -/

theorem C02_reparse_parsed :
    ∀ idna, IdnaStable idna → ∀ (e : Enc) (units : List Nat) (base : Option Url) (u : Url),
      (base = none ∨ ∃ b, base = some b ∧ Norm idna b) →
      Impl.parse idna e units base = some u →
      ∀ base' : Option Url, Impl.parse idna .u8 (Impl.serialize u) base' = some u :=
  fun idna hi e units base u hb h base' =>
    C02_reparse idna u (C02_parse_norm idna hi e units base u hb h) base' (by cases base' <;> simp)

/-- parsing twice is parsing once (also when the first parse fails) -/
theorem C02_reparse_idempotent :
    ∀ idna, IdnaStable idna → ∀ (e : Enc) (units : List Nat) (base base' : Option Url),
      (base = none ∨ ∃ b, base = some b ∧ Norm idna b) →
      (Impl.parse idna e units base).bind (fun u => Impl.parse idna .u8 (Impl.serialize u) base') =
        Impl.parse idna e units base := by
  intro idna hi e units base base' hb
  cases h : Impl.parse idna e units base with
  | none => rfl
  | some u => exact C02_reparse_parsed idna hi e units base u hb h base'

/-- a parsed URL can serve as a base again: the set of normal-form URLs is closed under parsing -/
theorem C02_parse_norm_chain :
    ∀ idna, IdnaStable idna → ∀ (e1 e2 : Enc) (units1 units2 : List Nat) (b u : Url),
      Impl.parse idna e1 units1 none = some b → Impl.parse idna e2 units2 (some b) = some u →
      Norm idna u ∧ ∀ base' : Option Url, Impl.parse idna .u8 (Impl.serialize u) base' = some u := by
  intro idna hi e1 e2 units1 units2 b u h1 h2
  have hb := C02_parse_norm idna hi e1 units1 none b (Or.inl rfl) h1
  exact ⟨C02_parse_norm idna hi e2 units2 (some b) u (Or.inr ⟨b, rfl, hb⟩) h2,
    C02_reparse_parsed idna hi e2 units2 (some b) u (Or.inr ⟨b, rfl, hb⟩) h2⟩

-- evaluated instances (kernel evaluation of the parser model, independent of the proof)
example : (Impl.parse sampleIdna .u8 c02bInput none).bind
      (fun u => Impl.parse sampleIdna .u8 (Impl.serialize u) (some c02BaseFile)) =
    Impl.parse sampleIdna .u8 c02bInput none := by decide +kernel
example : (Impl.parse sampleIdna .u8 c02bInput none).map (fun u => Impl.serialize u) =
    some (asciiStr "http://example.com/b%20c/?q%27#f%20g") := by decide +kernel
-- an instance of the theorem
example : ∀ u, Impl.parse sampleIdna .u8 c02bInput none = some u →
    Impl.parse sampleIdna .u8 (Impl.serialize u) (some c02BaseOpaque) = some u :=
  fun u h => C02_reparse_parsed sampleIdna sampleIdna_stable .u8 c02bInput none u (Or.inl rfl) h _

/-! ### 4. the setters keep the normal form, up to the Standard-made exception -/

/-- The two kinds of file URL records that "serialise, parse again" changes (`C02_file_exception`):
    the host text is `localhost` or a drive letter, or the first path segment is `X|`. -/
def FileExc (u : Url) : Prop :=
  u.isFile = true ∧ (hostFileOk u.hostText = false ∨ driveOk u.path = false)

instance (u : Url) : Decidable (FileExc u) := by unfold FileExc; infer_instance

/-- `Norm` without its two file-only clauses: the host text clause is taken as for a non-file URL
    (`hostTextOk u.isSpecial false`) and the `driveOk` clause is dropped.  Everything else is as in `Norm`. -/
def NormX (idna : Idna) (u : Url) : Prop :=
  Proofs.C02.schemeOk u.scheme = true ∧
  (u.hasOpaquePath = true → u.host = none ∧ u.path = [] ∧ u.isSpecial = false) ∧
  (u.hasOpaquePath = false → u.opaquePath = []) ∧
  (u.isSpecial = true → u.host ≠ none ∧ u.path ≠ []) ∧
  (u.isSpecial = true → u.isFile = false → u.hostText ≠ []) ∧
  (u.isFile = true ∨ u.hostText = [] → u.username = [] ∧ u.password = [] ∧ u.port = none) ∧
  (u.isSpecial = false → u.host = none → u.hasOpaquePath = false → u.path ≠ []) ∧
  Proofs.C02.userinfoOk u.username = true ∧ Proofs.C02.userinfoOk u.password = true ∧
  (∀ h ∈ u.host, hostTextOk u.isSpecial false h.text = true ∧ HostStable idna u.isSpecial h) ∧
  portOk u.scheme u.port = true ∧
  (∀ seg ∈ u.path, segOk u.isSpecial seg = true) ∧
  (u.hasOpaquePath = true → opaqueOk u.opaquePath (u.query.isNone && u.fragment.isNone) = true) ∧
  (∀ q ∈ u.query, queryOk u.isSpecial q = true) ∧
  (∀ f ∈ u.fragment, fragmentOk f = true)

instance (idna : Idna) (u : Url) : Decidable (NormX idna u) := by unfold NormX; infer_instance

theorem NormX.toAll {idna : Idna} {u : Url} (h : NormX idna u) : Proofs.C02b.All idna false u := by
  obtain ⟨h1, h2, h3, h4, h5, h6, h7, h8, h9, h10, h11, h12, h14, h15, h16⟩ := h
  refine Proofs.C02b.all_of_normPX
    ⟨h1, ⟨h2, h3, h4, h5, h6, h7⟩, h8, h9, fun h hh => h10 h hh, h11, h12, fun hc => by simp at hc, h14, ?_, ?_⟩
  · cases hq : u.query with
    | none => rfl
    | some q => exact h15 q hq
  · cases hf : u.fragment with
    | none => rfl
    | some f => exact h16 f hf

theorem NormX.ofAll {idna : Idna} {u : Url} (h : Proofs.C02b.All idna false u) : NormX idna u := by
  have h := Proofs.C02b.normPX_of_all h
  obtain ⟨s1, s2, s3, s4, s5, s6⟩ := h.shape
  refine ⟨h.scheme, s1, s2, s3, s4, s5, s6, h.user, h.pass, fun x hx => h.host x hx, h.port, h.segs,
    h.opq, ?_, ?_⟩
  · intro q hq
    have := h.query
    rw [show u.query = some q from hq] at this
    exact this
  · intro f hf
    have := h.frag
    rw [show u.fragment = some f from hf] at this
    exact this

/-- `Norm` is `NormX` plus "not one of the two exceptional file URL records" -/
theorem C02_norm_iff_normx : ∀ (idna : Idna) (u : Url), Norm idna u ↔ (NormX idna u ∧ ¬ FileExc u) := by
  intro idna u
  constructor
  · intro h
    have ha := Proofs.C02b.all_of_normP h.toNormP
    refine ⟨NormX.ofAll ha.weaken, ?_⟩
    rintro ⟨hf, hx⟩
    obtain ⟨a, b⟩ := ha.fileClauses hf
    rcases hx with hx | hx
    · rw [a] at hx; exact absurd hx (by simp)
    · rw [b] at hx; exact absurd hx (by simp)
  · rintro ⟨h, hx⟩
    refine Norm.ofNormP (Proofs.C02b.normP_of_all (h.toAll.strengthen ?_))
    intro hf
    constructor
    · cases ha : hostFileOk u.hostText with
      | true => rfl
      | false => exact absurd ⟨hf, Or.inl ha⟩ hx
    · cases ha : driveOk u.path with
      | true => rfl
      | false => exact absurd ⟨hf, Or.inr ha⟩ hx

/-- every setter other than `protocol` keeps the normal form (also when it reports failure: a failing
    state-override run may have written parts, exactly as in the Standard) -/
theorem C02_set_norm :
    ∀ idna, IdnaStable idna → ∀ (s : Impl.Setter) (e : Enc) (units : List Nat) (u : Url),
      s ≠ .protocol → Norm idna u → Norm idna (Impl.setValid idna s e units u).1 :=
  fun _ hi s e units u hs h =>
    Norm.ofNormP (Proofs.C02b.normP_of_all
      (Proofs.C02b.set_all hi s e units u (Proofs.C02b.all_of_normP h.toNormP) (fun hc => absurd hc hs)))

/-- every setter, `protocol` included, keeps `NormX` -/
theorem C02_set_normx :
    ∀ idna, IdnaStable idna → ∀ (s : Impl.Setter) (e : Enc) (units : List Nat) (u : Url),
      NormX idna u → NormX idna (Impl.setValid idna s e units u).1 :=
  fun _ hi s e units u h => NormX.ofAll (Proofs.C02b.set_all hi s e units u h.toAll (fun _ => rfl))

/-- the protocol setter: the result is in normal form, or it is one of the two exceptional records -/
theorem C02_set_protocol :
    ∀ idna, IdnaStable idna → ∀ (e : Enc) (units : List Nat) (u : Url), Norm idna u →
      Norm idna (Impl.setValid idna .protocol e units u).1 ∨
        FileExc (Impl.setValid idna .protocol e units u).1 := by
  intro idna hi e units u h
  have hx := C02_set_normx idna hi .protocol e units u ((C02_norm_iff_normx idna u).1 h).1
  by_cases hf : FileExc (Impl.setValid idna .protocol e units u).1
  · exact Or.inr hf
  · exact Or.inl ((C02_norm_iff_normx idna _).2 ⟨hx, hf⟩)

/-- a sequence of setter calls -/
def applySetters (idna : Idna) (u : Url) (calls : List (Impl.Setter × Enc × List Nat)) : Url :=
  calls.foldl (fun u c => (Impl.setValid idna c.1 c.2.1 c.2.2 u).1) u

/-- After any sequence of setter calls on a normal-form URL (in particular: on a parsed URL), the URL
    is re-parsed from its href to itself, unless it is one of the two exceptional file URL records. -/
theorem C02_setters_reparse :
    ∀ idna, IdnaStable idna → ∀ (u : Url), Norm idna u → ∀ calls : List (Impl.Setter × Enc × List Nat),
      NormX idna (applySetters idna u calls) ∧
      (¬ FileExc (applySetters idna u calls) →
        Norm idna (applySetters idna u calls) ∧
        ∀ base' : Option Url,
          Impl.parse idna .u8 (Impl.serialize (applySetters idna u calls)) base' = some (applySetters idna u calls)) := by
  intro idna hi u h calls
  have hx : NormX idna (applySetters idna u calls) := by
    have h0 := ((C02_norm_iff_normx idna u).1 h).1
    unfold applySetters
    clear h
    induction calls generalizing u with
    | nil => exact h0
    | cons c cs ih => exact ih _ (C02_set_normx idna hi c.1 c.2.1 c.2.2 u h0)
  refine ⟨hx, fun hf => ?_⟩
  have hn := (C02_norm_iff_normx idna _).2 ⟨hx, hf⟩
  exact ⟨hn, fun base' => C02_reparse idna _ hn base' (by cases base' <;> simp)⟩

/-- without a `protocol` call there is no exception -/
theorem C02_setters_norm :
    ∀ idna, IdnaStable idna → ∀ (u : Url), Norm idna u → ∀ calls : List (Impl.Setter × Enc × List Nat),
      (∀ c ∈ calls, c.1 ≠ .protocol) → Norm idna (applySetters idna u calls) := by
  intro idna hi u h calls hc
  unfold applySetters
  induction calls generalizing u with
  | nil => exact h
  | cons c cs ih =>
    exact ih _ (C02_set_norm idna hi c.1 c.2.1 c.2.2 u (hc c List.mem_cons_self) h)
      (fun d hd => hc d (List.mem_cons_of_mem _ hd))

/-- `url_search_params::update` (query := serialised list, or query removed and trailing spaces of an
    opaque path stripped) keeps the normal form -/
theorem C02_update_norm :
    ∀ (idna : Idna) (o : Impl.UrlObj), (∀ u, o.url = some u → Norm idna u) →
      (∀ p, o.sp = some p → ∀ pr ∈ p.list, (∀ b ∈ pr.1, b < 256) ∧ (∀ b ∈ pr.2, b < 256)) →
      ∀ u', o.update.url = some u' → Norm idna u' :=
  fun _ o hu hsp u' hu' =>
    Norm.ofNormP (Proofs.C02b.normP_of_all
      (Proofs.C02b.update_all o (fun u h => Proofs.C02b.all_of_normP (hu u h).toNormP) hsp u' hu'))

-- the exception arises (http://h/C|/x, protocol := "file") and disappears again (pathname := "/C|/y":
-- now the drive letter is normalised by the path block)
example : ∃ b, Impl.parse sampleIdna .u8 (asciiStr "http://h/C|/x") none = some b ∧ Norm sampleIdna b ∧
    applySetters sampleIdna b [(.protocol, .u8, asciiStr "file")] = c02DriveBar ∧
    FileExc c02DriveBar ∧ NormX sampleIdna c02DriveBar ∧ ¬ Norm sampleIdna c02DriveBar ∧
    applySetters sampleIdna b [(.protocol, .u8, asciiStr "file"), (.pathname, .u16, asciiStr "/C|/y")] =
      { c02DriveBar with path := [asciiStr "C:", asciiStr "y"] } ∧
    Norm sampleIdna { c02DriveBar with path := [asciiStr "C:", asciiStr "y"] } := by decide +kernel
-- the other exception: http://localhost/x, protocol := "file"; then host := "LocalHost" gives the empty host
example : ∃ b, Impl.parse sampleIdna .u8 (asciiStr "http://localhost/x") none = some b ∧ Norm sampleIdna b ∧
    applySetters sampleIdna b [(.protocol, .u8, asciiStr "file")] = c02Localhost ∧
    FileExc c02Localhost ∧ NormX sampleIdna c02Localhost ∧
    applySetters sampleIdna b [(.protocol, .u8, asciiStr "file"), (.host, .u8, asciiStr "LocalHost")] =
      { c02Localhost with host := some emptyHost } ∧
    Norm sampleIdna { c02Localhost with host := some emptyHost } := by decide +kernel
-- search := "" strips the trailing space of an opaque path (the href would lose it otherwise)
example : ∃ b, Impl.parse sampleIdna .u8 (asciiStr "a:x ?q") none = some b ∧
    b = { scheme := asciiStr "a", hasOpaquePath := true, opaquePath := asciiStr "x ", query := some (asciiStr "q") } ∧
    applySetters sampleIdna b [(.search, .u8, [])] =
      { scheme := asciiStr "a", hasOpaquePath := true, opaquePath := asciiStr "x" } ∧
    Norm sampleIdna (applySetters sampleIdna b [(.search, .u8, [])]) := by decide +kernel
-- an instance of the theorem: any calls on a parsed URL
example : ∀ b calls, Impl.parse sampleIdna .u8 (asciiStr "http://h/C|/x") none = some b →
    NormX sampleIdna (applySetters sampleIdna b calls) :=
  fun b calls h => (C02_setters_reparse sampleIdna sampleIdna_stable b
    (C02_parse_norm sampleIdna sampleIdna_stable .u8 _ none b (Or.inl rfl) h) calls).1

end Upa.Props

#print axioms Upa.Props.C02_host_stable
#print axioms Upa.Props.C02_parse_norm
#print axioms Upa.Props.C02_reparse_parsed
#print axioms Upa.Props.C02_reparse_idempotent
#print axioms Upa.Props.C02_parse_norm_chain
#print axioms Upa.Props.C02_norm_iff_normx
#print axioms Upa.Props.C02_set_norm
#print axioms Upa.Props.C02_set_normx
#print axioms Upa.Props.C02_set_protocol
#print axioms Upa.Props.C02_setters_reparse
#print axioms Upa.Props.C02_setters_norm
#print axioms Upa.Props.C02_update_norm
