import Upa.Impl.RemoveIf
import Upa.Proofs.Params
/-
  C16b — `remove_if` with an arbitrary user predicate, `remove(name)`, `remove(name, value)`
  (include/upa/url_search_params.h:566-596).  Model: Impl/RemoveIf.lean.
-/
namespace Upa.Props
open Upa Upa.Impl Upa.Proofs.C16

/-- the list afterwards is the Standard's "remove all items matching": exactly the pairs that fail the
    predicate, in their old order (a sublist of the old list), and none of them satisfies it -/
theorem C16b_removeIf_list (p : Params) (pred : BPair → Bool) :
    (p.removeIf pred).params.list = p.list.filter (fun x => !pred x) ∧
    (p.removeIf pred).params.list.Sublist p.list ∧
    (∀ x ∈ (p.removeIf pred).params.list, pred x = false) ∧
    (∀ x ∈ p.list, pred x = false → x ∈ (p.removeIf pred).params.list) := by
  refine ⟨rfl, List.filter_sublist, ?_, ?_⟩
  · intro x hx
    simp only [Params.removeIf, List.mem_filter] at hx
    simpa using hx.2
  · intro x hx hp
    simp only [Params.removeIf, List.mem_filter]
    exact ⟨hx, by simp [hp]⟩

theorem filter_not_length (l : List BPair) (pred : BPair → Bool) :
    (l.filter (fun x => !pred x)).length + l.countP pred = l.length := by
  induction l with
  | nil => rfl
  | cons a t ih =>
    cases h : pred a <;> simp [h] <;> omega

/-- the returned number is the number of pairs satisfying the predicate (what the C++20 branch,
    `std::list::remove_if` returning the count, yields), and sizes add up -/
theorem C16b_removeIf_count (p : Params) (pred : BPair → Bool) :
    (p.removeIf pred).count = p.list.countP pred ∧
    (p.removeIf pred).params.list.length + (p.removeIf pred).count = p.list.length := by
  have h := filter_not_length p.list pred
  simp only [Params.removeIf]
  omega

/-- `if (count) update()`: the write-back is skipped exactly when nothing matched, and then the list is
    unchanged — so skipping it keeps url and list in step (C06) -/
theorem C16b_removeIf_update (p : Params) (pred : BPair → Bool) :
    ((p.removeIf pred).updated = false ↔ ∀ x ∈ p.list, pred x = false) ∧
    ((p.removeIf pred).updated = false → (p.removeIf pred).params = p) := by
  have hc := (C16b_removeIf_count p pred).1
  have hz : (p.removeIf pred).updated = false ↔ (p.removeIf pred).count = 0 := by
    simp [Params.removeIf]
  have hall : (p.removeIf pred).count = 0 ↔ ∀ x ∈ p.list, pred x = false := by
    rw [hc, List.countP_eq_zero]; simp
  refine ⟨hz.trans hall, ?_⟩
  intro hu
  have hf := hall.1 (hz.1 hu)
  have : p.list.filter (fun x => !pred x) = p.list := by
    rw [List.filter_eq_self]; intro x hx; simp [hf x hx]
  simp [Params.removeIf, this]

/-- the object model of the owning url (`Impl.UrlObj.spApply f false`, the rendering of `remove` /
    `remove2` on an owned list) writes back exactly when the length changed: that is this model's
    `updated` flag, i.e. the C++ `if (count) update()` -/
theorem C16b_update_iff_length (p : Params) (pred : BPair → Bool) :
    (p.removeIf pred).updated = true ↔ (p.removeIf pred).params.list.length ≠ p.list.length := by
  have h := (C16b_removeIf_count p pred).2
  have hz : (p.removeIf pred).updated = true ↔ (p.removeIf pred).count ≠ 0 := by
    simp [Params.removeIf]
  rw [hz]; omega

/-- `remove(name)` / `remove(name, value)` are `del` with a result -/
theorem C16b_remove (p : Params) (n v : List Nat) :
    (p.remove n).params = p.del n ∧ (p.remove2 n v).params = p.del2 n v ∧
    (p.remove n).params.list = Spec.spDelete p.list n ∧
    (p.remove2 n v).params.list = Spec.spDelete2 p.list n v ∧
    (p.remove n).count = p.list.length - (Spec.spDelete p.list n).length ∧
    (p.remove2 n v).count = p.list.length - (Spec.spDelete2 p.list n v).length := by
  refine ⟨?_, ?_, ?_, ?_, ?_, ?_⟩ <;>
    simp [Params.remove, Params.remove2, Params.removeIf, Params.del, Params.del2,
      Spec.spDelete, Spec.spDelete2]

/-- the `is_sorted_` cache stays sound: the flag is not touched and a sublist of a sorted list is sorted -/
theorem C16b_removeIf_flag (p : Params) (pred : BPair → Bool)
    (h : p.isSorted = true → Sorted p.list) :
    (p.removeIf pred).params.isSorted = p.isSorted ∧
    ((p.removeIf pred).params.isSorted = true → Sorted (p.removeIf pred).params.list) := by
  refine ⟨rfl, fun hs => ?_⟩
  exact List.Pairwise.sublist List.filter_sublist (h hs)

/-! histories that mix the operations of C16 with `remove_if` calls carrying arbitrary predicates -/

inductive Ops2 where
  | base (o : Ops)
  | removeIf (pred : BPair → Bool)

def step2 (p : Params) : Ops2 → Params
  | .base o => step p o
  | .removeIf pred => (p.removeIf pred).params

def run2 (p : Params) (ops : List Ops2) : Params := ops.foldl step2 p

theorem C16b_flag_inv (p : Params) (ops : List Ops2) (h : p.isSorted = true → Sorted p.list) :
    (run2 p ops).isSorted = true → Sorted (run2 p ops).list := by
  induction ops generalizing p with
  | nil => exact h
  | cons o os ih =>
    apply ih (step2 p o)
    cases o with
    | base o => exact step_inv p o h
    | removeIf pred => exact (C16b_removeIf_flag p pred h).2

/-- hence `sort` after any such history yields the stable sort of the list at that point -/
theorem C16b_sort_after (p : Params) (ops : List Ops2) (h : p.isSorted = true → Sorted p.list) :
    (run2 p ops).sort.list = (run2 p ops).list.mergeSort nameLe ∧ (run2 p ops).sort.isSorted = true :=
  ⟨sort_list_eq _ (C16b_flag_inv p ops h), sort_flag _⟩

-- non-vacuity: a predicate on the VALUE (not expressible as del / del2) removes two of three pairs
example : ({ list := [([1], [10]), ([2], [20]), ([3], [11])], isSorted := true } : Params).removeIf
      (fun x => x.2.head? != some 20) =
    { params := { list := [([2], [20])], isSorted := true }, count := 2, updated := true } := by decide
-- nothing matches: no update, object unchanged
example : ({ list := [([1], [10])], isSorted := true } : Params).removeIf (fun x => x.1 == [9]) =
    { params := { list := [([1], [10])], isSorted := true }, count := 0, updated := false } := by decide
example : (({} : Params).isSorted = true → Sorted ({} : Params).list) := by intro h; cases h
example : (run2 {} [.base (.append [0x62] []), .base (.append [0x61] []), .base .sort,
    .removeIf (fun x => x.1 == [0x62])]) = { list := [([0x61], [])], isSorted := true } := by
  simp (decide := true) [run2, step2, step, Params.append, Params.sort, Params.removeIf, List.mergeSort,
    List.MergeSort.Internal.splitInTwo]

end Upa.Props
