import Upa.Gen.Tables
import Upa.Proofs.Conc
/-
  C19 — independent objects are usable concurrently; the IDNA handle is initialised exactly once.
  Model: `Upa.Impl.Conc` (N threads, arbitrary programs, micro-steps of the C++11 magic-static protocol
  of `get_uidna()::once`, src/url_idna.cpp:49-72).  Every theorem quantifies over the number of threads,
  their programs and ALL schedules (`List Nat`, non-enabled picks are skipped, so blocking is covered).
  What is NOT proved here but assumed from the language/runtime: that the compiler implements
  [stmt.dcl]/4 as the `checkGuard`/`finishInit` protocol (`C19_guarded`: the guard variable exists in the
  object file), and that `pure` calls touch no shared writable memory (`C19_no_other_writable`: there is
  none besides the three objects of the model).
-/
namespace Upa.Props
open Upa.Impl.Conc

/-- 1. under the magic-static protocol, for every number of threads and every schedule, the
    initialiser is started at most once and every `idna` call observed the fully initialised pair -/
theorem C19_init_once (progs : List (List Call)) (sched : List Nat) :
    let s := exec .magicStatic (init progs) sched
    s.initCount ≤ 1 ∧ ∀ t obs, obs ∈ (s.thr t).log → obs = (some (freshHandle 0), some icuMajor) := by
  intro s
  have h : Inv s := exec_inv (inv_init progs) sched
  refine ⟨?_, h.logs⟩
  rcases hg : s.guard with _ | t | _
  · have := (h.uninit hg).1; omega
  · rcases (h.inprog t hg).1 with h | h | h <;> have := h.2.1 <;> omega
  · have := (h.done hg).1; omega

/-- the inductive invariant behind it, spelled out on the model's fields only -/
theorem C19_guard_invariant (progs : List (List Call)) (sched : List Nat) :
    let s := exec .magicStatic (init progs) sched
    (s.guard = .uninit → s.initCount = 0 ∧ s.uidnaPtr = none ∧ s.icuVersion = none) ∧
    (∀ t, s.guard = .inProgress t →
      ((s.thr t).pc = .initPtr ∨ (s.thr t).pc = .initVer ∨ (s.thr t).pc = .finishInit) ∧
      ∀ u, u ≠ t → (s.thr u).pc = .idle ∨ (s.thr u).pc = .checkGuard) ∧
    (s.guard = .done →
      s.initCount = 1 ∧ s.uidnaPtr = some (freshHandle 0) ∧ s.icuVersion = some icuMajor) ∧
    (∀ t, (s.thr t).pc = .readHandle ∨ (∃ a, (s.thr t).pc = .readVersion a) → s.guard = .done) := by
  intro s
  obtain ⟨_, hu, hi, hd⟩ : Inv s := exec_inv (inv_init progs) sched
  simp only [InitPhase, Pc.outside, Pc.reader] at hu hi hd
  refine ⟨by grind, by grind, by grind, ?_⟩
  intro t ht
  rcases hg : s.guard with _ | t' | _ <;> grind

/-- non-vacuity: three threads, one of them blocked on the guard in the middle of the schedule;
    the initialiser ran once and both `idna` calls that completed saw the handle -/
example :
    let s := exec .magicStatic (init [[.idna], [.pure (· + 1), .idna], [.idna]])
      [0, 1, 0, 1, 1, 0, 1, 1, 0, 2, 0, 1, 1, 1, 0, 0]
    s.initCount = 1 ∧ s.guard = .done ∧ (s.thr 0).log = [good] ∧ (s.thr 1).log = [good] ∧
    (s.thr 2).log = [] ∧ (s.thr 2).pc = .checkGuard ∧ (s.thr 1).priv = 1 := by decide

/-- 2. what the guard buys: with the unguarded `if (!uidna_ptr) init();` two threads run the
    initialiser twice (the first handle is leaked), and a thread reads `uidna_ptr` set but
    `icu_version_major` still zero; the same two schedules under the magic static do neither -/
theorem C19_plain_check_races :
    (exec .plainCheck (init [[.idna], [.idna]]) [0, 1, 0, 1, 0, 1]).initCount = 2 ∧
    (exec .plainCheck (init [[.idna], [.idna]]) [0, 1, 0, 1, 0, 1]).uidnaPtr = some (freshHandle 1) ∧
    ((exec .plainCheck (init [[.idna], [.idna]]) [0, 0, 0, 1, 1, 1, 1]).thr 1).log
      = [(some (freshHandle 0), none)] ∧
    (exec .magicStatic (init [[.idna], [.idna]]) [0, 1, 0, 1, 0, 1]).initCount = 1 ∧
    ((exec .magicStatic (init [[.idna], [.idna]]) [0, 0, 0, 1, 1, 1, 1]).thr 1).log = [] ∧
    ((exec .magicStatic (init [[.idna], [.idna]]) [0, 0, 0, 1, 1, 1, 1]).thr 1).pc = .checkGuard := by
  decide

/-- 3. per-thread results do not depend on the schedule: whenever thread `t` has completed its
    program, its observation log and its private state are the sequential meaning of the program -/
theorem C19_sequential_results (progs : List (List Call)) (sched : List Nat) (t : Nat) :
    let th := (exec .magicStatic (init progs) sched).thr t
    th.finished = true →
    th.log = seqLog (progs.getD t []) ∧ th.priv = seqPriv (progs.getD t []) 0 := by
  intro th hf
  exact track_finished (exec_track (inv_init progs) (track_init progs) sched t) hf

/-- … hence equal to running the thread alone on a state initialised beforehand … -/
theorem C19_equals_solo_run (progs : List (List Call)) (sched : List Nat) (t : Nat) :
    let th := (exec .magicStatic (init progs) sched).thr t
    th.finished = true →
    th.log = (soloRun (progs.getD t [])).log ∧ th.priv = (soloRun (progs.getD t [])).priv := by
  intro th hf
  have h := C19_sequential_results progs sched t hf
  have hs := soloRun_eq (progs.getD t [])
  exact ⟨h.1.trans hs.2.1.symm, h.2.trans hs.2.2.symm⟩

/-- … and equal for any two schedules under which the thread completes -/
theorem C19_schedule_independent (progs : List (List Call)) (sched₁ sched₂ : List Nat) (t : Nat) :
    let th₁ := (exec .magicStatic (init progs) sched₁).thr t
    let th₂ := (exec .magicStatic (init progs) sched₂).thr t
    th₁.finished = true → th₂.finished = true → th₁.log = th₂.log ∧ th₁.priv = th₂.priv := by
  intro th₁ th₂ h₁ h₂
  have a := C19_sequential_results progs sched₁ t h₁
  have b := C19_sequential_results progs sched₂ t h₂
  exact ⟨a.1.trans b.1.symm, a.2.trans b.2.symm⟩

/-- no schedule deadlocks: while some thread is unfinished some thread is enabled (the holder of the
    guard is never blocked), so completing schedules exist for every program -/
theorem C19_no_deadlock (progs : List (List Call)) (sched : List Nat) (u : Nat) :
    let s := exec .magicStatic (init progs) sched
    (s.thr u).finished = false → ∃ t, (step .magicStatic s t).isSome = true := by
  intro s hu
  exact inv_progress (exec_inv (inv_init progs) sched) hu

/-- non-vacuity of 3: two different complete schedules of the same two programs (in the second one
    thread 1 wins the race for the guard and thread 0 blocks), both threads finished, same results -/
example :
    let progs : List (List Call) := [[.pure (· * 2), .idna, .idna], [.idna, .pure (· + 7)]]
    let s₁ := exec .magicStatic (init progs) [0, 0, 0, 0, 0, 0, 0, 0, 0, 0, 0, 0, 1, 1, 1, 1, 1, 1]
    let s₂ := exec .magicStatic (init progs) [1, 0, 1, 0, 0, 0, 1, 1, 1, 0, 1, 0, 1, 0, 0, 1, 0, 0, 0, 0, 0]
    (s₁.thr 0).finished = true ∧ (s₁.thr 1).finished = true ∧
    (s₂.thr 0).finished = true ∧ (s₂.thr 1).finished = true ∧
    (s₂.thr 0).log = [good, good] ∧ (s₂.thr 1).log = [good] ∧ (s₂.thr 1).priv = 7 ∧
    (soloRun [.idna, .pure (· + 7)]).log = [good] := by decide

/-- 4. regenerated facts (tools/gen.py, from the object files of the current tree): the
    initialisation is behind a compiler-generated guard variable … -/
theorem C19_guarded : Upa.Gen.idnaInitGuarded = true := by decide

/-- … and the library has no writable global besides that guard and the two variables it protects -/
theorem C19_no_other_writable : Upa.Gen.writableGlobals =
    [ "url_idna.cpp:guard variable for upa::(anonymous namespace)::get_uidna()::once",
      "url_idna.cpp:upa::(anonymous namespace)::icu_version_major",
      "url_idna.cpp:upa::(anonymous namespace)::uidna_ptr" ] := by decide

#print axioms C19_init_once
#print axioms C19_guard_invariant
#print axioms C19_plain_check_races
#print axioms C19_sequential_results
#print axioms C19_equals_solo_run
#print axioms C19_schedule_independent
#print axioms C19_no_deadlock
#print axioms C19_guarded
#print axioms C19_no_other_writable

end Upa.Props
