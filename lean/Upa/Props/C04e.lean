import Upa.Proofs.BoundsMisc
import Upa.Proofs.BoundsMiscAgree
/-
  C04e — no out-of-bounds read or write, no pointer outside `[first, last]`, no non-terminating loop in
  the remaining scanners / serializers (bounds-instrumented models of `Upa/Impl/BoundsMisc.lean`,
  namespace `Upa.Impl.B`, names ending in `M`; conventions as in `Upa/Impl/Bounds.lean` and
  `Upa/Props/C04b.lean`).  For every function `f` of the C++:
    * `C04_inbounds_<f>`   : the model never yields `.oob`  (array reads `rd` / `rdPrev`, sub-range
      hand-over `sub`, fixed-size tables `idx`, resized string cells `Loc`),
    * `C04_ptrs_<f>`       : never `.badptr` (every pointer formed lies in `[first, last]`),
    * `C04_terminates_<f>` : never `.hang` with the fuel the model supplies (functions with loops),
    * `C04_agrees_<f>`     : where a list model exists in `Upa/Impl/*.lean`, the result equals it on
      `slice a first last`,
    * an evaluated instance and a NON-VACUITY example (one guard set to a wrong value reaches `.oob` /
      `.badptr` on an exactly sized input).
  Lemmas: `Upa/Proofs/BoundsMisc.lean`, `Upa/Proofs/BoundsMiscAgree.lean`.
-/
namespace Upa.Props
open Upa Upa.Impl.B

/-! ### 0  the two code point tables (url_percent_encode.h:90-94, 272-276) -/

theorem C04_inbounds_char_in_set : ∀ (set : Nat → Bool) (c : Nat), charInSetM set c ≠ .oob :=
  fun s c => R.sat_ne_oob (charInSetM_sat s c)
theorem C04_inbounds_code_point_set_get : ∀ (set : Nat → Bool) (c : Nat), cpsetGetM set c ≠ .oob :=
  fun s c => R.sat_ne_oob (cpsetGetM_sat s c)
example : charInSetM Spec.forbiddenHost 0x2F = .ok true := by decide
example : charInSetM Spec.forbiddenHost 0x12F = .ok false := by decide
example : charInSetM Spec.forbiddenHost 0x12F (lim := 0xFFFF) = .oob := by decide     -- without `is_8bit`: arr_[0x12F]
example : cpsetGetM Impl.pathNoEnc 0x2000 (lim := 0xFFFF) = .oob := by decide          -- arr_[0x2000 >> 3]

/-! ### 3  util.h unsigned_to_str; src/url_ip.cpp -/

/-- preconditions: `num` fits `uint32_t`; `2 ≤ base ≤ 16` (the callers pass 10 and 16) -/
theorem C04_inbounds_unsigned_to_str : ∀ (num base outLen : Nat), num < 2 ^ 32 → 2 ≤ base → base ≤ 16 →
    unsignedToStrM num base outLen ≠ .oob :=
  fun n b o h1 h2 h3 => R.sat_ne_oob (unsignedToStrM_sat n b o h1 h2 h3)
theorem C04_terminates_unsigned_to_str : ∀ (num base outLen : Nat), num < 2 ^ 32 → 2 ≤ base → base ≤ 16 →
    unsignedToStrM num base outLen ≠ .hang :=
  fun n b o h1 h2 h3 => R.sat_ne_hang (unsignedToStrM_sat n b o h1 h2 h3)
example : unsignedToStrM 255 10 0 = .ok [0x32, 0x35, 0x35] := by decide
/-- agreement with `Impl.unsignedToStr` (digit table = `hexDigitLower`), whatever `output.length()` was -/
theorem C04_agrees_unsigned_to_str : ∀ (num base outLen : Nat), num < 2 ^ 32 → 2 ≤ base → base ≤ 16 →
    unsignedToStrM num base outLen = .ok (Impl.unsignedToStr base hexDigitLower num) :=
  unsignedToStrM_agrees
example : unsignedToStrM 0xBEEF 16 5 = .ok [0x62, 0x65, 0x65, 0x66] := by decide
example : unsignedToStrM 7 10 0 (extra := 0) = .oob := by decide      -- `count = output.length()`: output[--count] with count = 0
example : unsignedToStrM 17 18 0 = .oob := by decide                   -- the precondition on `base` is needed: digit[17]
example : unsignedToStrM 5 1 0 = .hang := by decide                    -- … and `2 ≤ base`

theorem C04_inbounds_ipv4_serialize : ∀ ipv4 : Nat, ipv4SerializeM ipv4 ≠ .oob :=
  fun n => R.sat_ne_oob (ipv4SerializeM_sat n)
theorem C04_terminates_ipv4_serialize : ∀ ipv4 : Nat, ipv4SerializeM ipv4 ≠ .hang :=
  fun n => R.sat_ne_hang (ipv4SerializeM_sat n)
example : ipv4SerializeM 0x7F000001 = .ok (asciiStr "127.0.0.1") := by decide
theorem C04_agrees_ipv4_serialize : ∀ ipv4 : Nat, ipv4SerializeM ipv4 = .ok (Impl.ipv4Serialize ipv4) :=
  ipv4SerializeM_agrees

theorem C04_inbounds_longest_zero_sequence : ∀ (a : Array Nat) (first last : Nat), first ≤ last → last ≤ a.size →
    longestZeroSequenceM a first last ≠ .oob :=
  fun a f l h hl => R.sat_ne_oob (longestZeroSequenceM_sat a f l h hl)
theorem C04_ptrs_longest_zero_sequence : ∀ (a : Array Nat) (first last : Nat), first ≤ last → last ≤ a.size →
    longestZeroSequenceM a first last ≠ .badptr :=
  fun a f l h hl => R.sat_ne_badptr (longestZeroSequenceM_sat a f l h hl)
theorem C04_terminates_longest_zero_sequence : ∀ (a : Array Nat) (first last : Nat), first ≤ last → last ≤ a.size →
    longestZeroSequenceM a first last ≠ .hang :=
  fun a f l h hl => R.sat_ne_hang (longestZeroSequenceM_sat a f l h hl)
/-- what the caller relies on: `compress + compress_length` is still inside the array -/
theorem C04_longest_zero_sequence_range : ∀ (a : Array Nat) (first last : Nat), first ≤ last → last ≤ a.size →
    ∃ n c, longestZeroSequenceM a first last = .ok (n, c) ∧
      (∀ p, c = some p → first ≤ p ∧ p + n ≤ last ∧ 1 ≤ n) ∧ (c = none → n = 0) := by
  intro a f l h hl
  obtain ⟨⟨n, c⟩, hv, hp⟩ := longestZeroSequenceM_sat a f l h hl
  exact ⟨n, c, hv, hp⟩
example : longestZeroSequenceM #[1, 0, 0, 2, 0, 0, 0, 3] 0 8 = .ok (3, some 4) := by decide
/-- agreement with `Impl.longestZeroSeq` (count, index of the run; `cidx` turns the pointer into the index,
    `nullptr` into the list model's initial 0) -/
theorem C04_agrees_longest_zero_sequence : ∀ (a : Array Nat) (first last : Nat), first ≤ last → last ≤ a.size →
    ∃ n c, longestZeroSequenceM a first last = .ok (n, c) ∧
      (n, cidx first c) = Impl.longestZeroSeq (slice a first last) 0 0 0 0 := by
  intro a f l h hl
  obtain ⟨⟨n, c⟩, hv, hp⟩ := longestZeroSequenceM_agrees a f l h hl
  exact ⟨n, c, hv, hp⟩
example : longestZeroSequenceM #[0, 0, 0, 0, 0, 0, 0, 0] 0 8 = .ok (8, some 0) := by decide
example : longestZeroSequenceM #[1, 0, 0, 2, 0, 0, 0, 0] 0 8 (slack := 1) = .oob := by decide   -- without `ite != last &&`

/-- `address` is an array of 8 (`first < last` is all that is used) -/
theorem C04_inbounds_ipv6_serialize : ∀ (a : Array Nat) (first last : Nat), first < last → last ≤ a.size →
    ipv6SerializeM a first last ≠ .oob :=
  fun a f l h hl => R.sat_ne_oob (ipv6SerializeM_sat a f l h hl)
theorem C04_ptrs_ipv6_serialize : ∀ (a : Array Nat) (first last : Nat), first < last → last ≤ a.size →
    ipv6SerializeM a first last ≠ .badptr :=
  fun a f l h hl => R.sat_ne_badptr (ipv6SerializeM_sat a f l h hl)
theorem C04_terminates_ipv6_serialize : ∀ (a : Array Nat) (first last : Nat), first < last → last ≤ a.size →
    ipv6SerializeM a first last ≠ .hang :=
  fun a f l h hl => R.sat_ne_hang (ipv6SerializeM_sat a f l h hl)
example : ipv6SerializeM #[1, 0, 0, 2, 0, 0, 0, 3] 0 8 = .ok (asciiStr "1:0:0:2::3") := by decide
example : ipv6SerializeM #[0, 0, 0, 0, 0, 0, 0, 0] 0 8 = .ok (asciiStr "::") := by decide
example : ipv6SerializeM #[1, 2, 3, 4, 5, 6, 0, 0] 0 8 = .ok (asciiStr "1:2:3:4:5:6::") := by decide
-- without `if (it == last) break;` after `it += compress_length` the next `*it` is address[8]
example : ipv6SerializeM #[1, 2, 3, 4, 5, 6, 0, 0] 0 8 (slack := 1) = .oob := by decide

/-! ### 4  url_percent_encode.h (encode side), url_utf.h append_utf8, url_search_params.h urlencode,
          src/url_utf.cpp convert_utf8_to_utf16 -/

/-- `uc` is an `unsigned char` -/
theorem C04_inbounds_append_percent_encoded_byte : ∀ uc : Nat, uc < 256 → appendPercentEncodedByteM uc ≠ .oob :=
  fun uc h => R.sat_ne_oob (appendPercentEncodedByteM_sat uc h)
example : appendPercentEncodedByteM 0x1F = .ok (asciiStr "%1F") := by decide
example : appendPercentEncodedByteM 0x1F (mask := 0x1F) = .oob := by decide     -- `uc & 0x1f`: kHexCharLookup[31]
example : appendPercentEncodedByteM 0x100 = .oob := by decide                    -- the precondition is needed

theorem C04_inbounds_append_utf8_percent_encoded_byte : ∀ cp : Nat, appendUtf8PctM cp ≠ .oob :=
  fun cp => R.sat_ne_oob (appendUtf8PctM_sat cp)
example : appendUtf8PctM 0x20AC = .ok (asciiStr "%E2%82%AC") := by decide

/-- precondition `it < last`: every caller is inside `while (pointer < last)` -/
theorem C04_inbounds_append_utf8_percent_encoded_char : ∀ (e : Enc) (a : Array Nat) (first last it : Nat),
    first ≤ it → it < last → last ≤ a.size → appendUtf8PercentEncodedCharM e a first last it ≠ .oob :=
  fun e a f l i h1 h2 hl => R.sat_ne_oob (appendUtf8PercentEncodedCharM_sat e a f l i h1 h2 hl)
theorem C04_ptrs_append_utf8_percent_encoded_char : ∀ (e : Enc) (a : Array Nat) (first last it : Nat),
    first ≤ it → it < last → last ≤ a.size → appendUtf8PercentEncodedCharM e a first last it ≠ .badptr :=
  fun e a f l i h1 h2 hl => R.sat_ne_badptr (appendUtf8PercentEncodedCharM_sat e a f l i h1 h2 hl)
example : appendUtf8PercentEncodedCharM .u8 #[0x61, 0xC3, 0xA9] 0 3 1 = .ok (true, 3, asciiStr "%C3%A9") := by decide
example : appendUtf8PercentEncodedCharM .u8 #[0x61] 0 1 1 = .oob := by decide     -- the precondition is needed

theorem C04_inbounds_append_utf8_percent_encoded : ∀ (e : Enc) (noEnc : Nat → Bool) (a : Array Nat) (first last : Nat),
    first ≤ last → last ≤ a.size → appendUtf8PercentEncodedM e noEnc a first last ≠ .oob :=
  fun e n a f l h hl => R.sat_ne_oob (appendUtf8PercentEncodedM_sat e n a f l h hl)
theorem C04_ptrs_append_utf8_percent_encoded : ∀ (e : Enc) (noEnc : Nat → Bool) (a : Array Nat) (first last : Nat),
    first ≤ last → last ≤ a.size → appendUtf8PercentEncodedM e noEnc a first last ≠ .badptr :=
  fun e n a f l h hl => R.sat_ne_badptr (appendUtf8PercentEncodedM_sat e n a f l h hl)
theorem C04_terminates_append_utf8_percent_encoded : ∀ (e : Enc) (noEnc : Nat → Bool) (a : Array Nat) (first last : Nat),
    first ≤ last → last ≤ a.size → appendUtf8PercentEncodedM e noEnc a first last ≠ .hang :=
  fun e n a f l h hl => R.sat_ne_hang (appendUtf8PercentEncodedM_sat e n a f l h hl)
example : appendUtf8PercentEncodedM .u8 Impl.componentNoEnc (ofStr "a b&") 0 4 = .ok (asciiStr "a%20b%26") := by decide
example : appendUtf8PercentEncodedM .u16 Impl.componentNoEnc #[0x61, 0xD83D, 0xDE00, 0xD800] 0 4 =
    .ok (asciiStr "a%F0%9F%98%80%EF%BF%BD") := by decide
example : appendUtf8PercentEncodedM .u8 Impl.componentNoEnc (ofStr "a") 0 1 (slack := 1) = .oob := by decide  -- `it <= last`

theorem C04_inbounds_do_path_segment : ∀ (e : Enc) (a : Array Nat) (first last : Nat), first ≤ last → last ≤ a.size →
    pathSegmentEncM e a first last ≠ .oob :=
  fun e a f l h hl => R.sat_ne_oob (pathSegmentEncM_sat e a f l h hl)
theorem C04_ptrs_do_path_segment : ∀ (e : Enc) (a : Array Nat) (first last : Nat), first ≤ last → last ≤ a.size →
    pathSegmentEncM e a first last ≠ .badptr :=
  fun e a f l h hl => R.sat_ne_badptr (pathSegmentEncM_sat e a f l h hl)
theorem C04_terminates_do_path_segment : ∀ (e : Enc) (a : Array Nat) (first last : Nat), first ≤ last → last ≤ a.size →
    pathSegmentEncM e a first last ≠ .hang :=
  fun e a f l h hl => R.sat_ne_hang (pathSegmentEncM_sat e a f l h hl)
example : pathSegmentEncM .u8 (ofStr "a b{") 0 4 = .ok (true, asciiStr "a%20b%7B") := by decide
example : pathSegmentEncM .u8 #[0x61, 0xE2, 0x82] 0 3 = .ok (false, asciiStr "a%EF%BF%BD") := by decide
example : pathSegmentEncM .u8 (ofStr "a") 0 1 (slack := 1) = .oob := by decide                     -- `pointer <= last`

theorem C04_inbounds_do_simple_path : ∀ (e : Enc) (a : Array Nat) (first last : Nat), first ≤ last → last ≤ a.size →
    simplePathM e a first last ≠ .oob :=
  fun e a f l h hl => R.sat_ne_oob (simplePathM_sat e a f l h hl)
theorem C04_ptrs_do_simple_path : ∀ (e : Enc) (a : Array Nat) (first last : Nat), first ≤ last → last ≤ a.size →
    simplePathM e a first last ≠ .badptr :=
  fun e a f l h hl => R.sat_ne_badptr (simplePathM_sat e a f l h hl)
theorem C04_terminates_do_simple_path : ∀ (e : Enc) (a : Array Nat) (first last : Nat), first ≤ last → last ≤ a.size →
    simplePathM e a first last ≠ .hang :=
  fun e a f l h hl => R.sat_ne_hang (simplePathM_sat e a f l h hl)
example : simplePathM .u16 #[0x7F, 0x1F, 0xD83D, 0xDE00, 0x41] 0 5 = .ok (true, asciiStr "%7F%1F%F0%9F%98%80A") := by decide
example : simplePathM .u32 #[0x41] 0 1 (slack := 1) = .oob := by decide

theorem C04_inbounds_urlencode : ∀ (a : Array Nat) (first last : Nat), first ≤ last → last ≤ a.size →
    urlencodeM a first last ≠ .oob :=
  fun a f l h hl => R.sat_ne_oob (urlencodeM_sat a f l h hl)
theorem C04_terminates_urlencode : ∀ (a : Array Nat) (first last : Nat), first ≤ last → last ≤ a.size →
    urlencodeM a first last ≠ .hang :=
  fun a f l h hl => R.sat_ne_hang (urlencodeM_sat a f l h hl)
example : urlencodeM (ofStr "a b&c") 0 5 = .ok (asciiStr "a+b%26c") := by decide
/-- agreement with `Impl.urlencode` (C13 ties it to the urlencoded serializer); the units are bytes -/
theorem C04_agrees_urlencode : ∀ (a : Array Nat) (first last : Nat), first ≤ last → last ≤ a.size →
    (∀ i, first ≤ i → i < last → a[i]! < 256) →
    urlencodeM a first last = .ok (Impl.urlencode (slice a first last)) :=
  urlencodeM_agrees
-- a `char` that is not cast to `unsigned char` (here: a unit ≥ 0x100) indexes past kEncByte[0x100]
example : urlencodeM #[300] 0 1 (cast := 65536) = .oob := by decide

theorem C04_inbounds_convert_utf8_to_utf16 : ∀ (a : Array Nat) (first last : Nat), first ≤ last → last ≤ a.size →
    convertUtf8ToUtf16M a first last ≠ .oob :=
  fun a f l h hl => R.sat_ne_oob (convertUtf8ToUtf16M_sat a f l h hl)
theorem C04_ptrs_convert_utf8_to_utf16 : ∀ (a : Array Nat) (first last : Nat), first ≤ last → last ≤ a.size →
    convertUtf8ToUtf16M a first last ≠ .badptr :=
  fun a f l h hl => R.sat_ne_badptr (convertUtf8ToUtf16M_sat a f l h hl)
theorem C04_terminates_convert_utf8_to_utf16 : ∀ (a : Array Nat) (first last : Nat), first ≤ last → last ≤ a.size →
    convertUtf8ToUtf16M a first last ≠ .hang :=
  fun a f l h hl => R.sat_ne_hang (convertUtf8ToUtf16M_sat a f l h hl)
example : convertUtf8ToUtf16M #[0xF0, 0x9F, 0x98, 0x80, 0xFF] 0 5 = .ok (false, [0xD83D, 0xDE00, 0xFFFD]) := by decide
example : convertUtf8ToUtf16M #[0x41] 0 1 (slack := 1) = .oob := by decide

/-! ### 1  url_host.h -/

theorem C04_inbounds_host_parse_ipv4 : ∀ (a : Array Nat) (first last : Nat), first ≤ last → last ≤ a.size →
    parseIpv4M a first last ≠ .oob :=
  fun a f l h hl => R.sat_ne_oob (parseIpv4M_sat a f l h hl)
theorem C04_inbounds_host_parse_ipv6 : ∀ (a : Array Nat) (first last : Nat), first ≤ last → last ≤ a.size →
    parseIpv6M a first last ≠ .oob :=
  fun a f l h hl => R.sat_ne_oob (parseIpv6M_sat a f l h hl)

theorem C04_inbounds_parse_opaque_host : ∀ (e : Enc) (a : Array Nat) (first last : Nat), first ≤ last → last ≤ a.size →
    parseOpaqueHostM e a first last ≠ .oob :=
  fun e a f l h hl => R.sat_ne_oob (parseOpaqueHostM_sat e a f l h hl)
theorem C04_ptrs_parse_opaque_host : ∀ (e : Enc) (a : Array Nat) (first last : Nat), first ≤ last → last ≤ a.size →
    parseOpaqueHostM e a first last ≠ .badptr :=
  fun e a f l h hl => R.sat_ne_badptr (parseOpaqueHostM_sat e a f l h hl)
theorem C04_terminates_parse_opaque_host : ∀ (e : Enc) (a : Array Nat) (first last : Nat), first ≤ last → last ≤ a.size →
    parseOpaqueHostM e a first last ≠ .hang :=
  fun e a f l h hl => R.sat_ne_hang (parseOpaqueHostM_sat e a f l h hl)
example : parseOpaqueHostM .u8 (ofStr "a\x01b") 0 3 = .ok (some { kind := .opaque, text := asciiStr "a%01b" }) := by decide
example : parseOpaqueHostM .u8 (ofStr "a b") 0 3 = .ok none := by decide

/-- the `<`, `=`, `>` + U+0338 pre-check: `ptr[1]` is read only behind `ptr + 1 < last` -/
theorem C04_inbounds_parse_host_precheck : ∀ (a : Array Nat) (first last ptr : Nat), first ≤ ptr → ptr < last →
    last ≤ a.size → hostForbiddenCheckM a first last ptr ≠ .oob :=
  fun a f l p h1 h2 hl => R.sat_ne_oob (hostForbiddenCheckM_sat a f l p h1 h2 hl)
theorem C04_ptrs_parse_host_precheck : ∀ (a : Array Nat) (first last ptr : Nat), first ≤ ptr → ptr < last →
    last ≤ a.size → hostForbiddenCheckM a first last ptr ≠ .badptr :=
  fun a f l p h1 h2 hl => R.sat_ne_badptr (hostForbiddenCheckM_sat a f l p h1 h2 hl)
example : hostForbiddenCheckM (ofStr "a<") 0 2 1 = .ok true := by decide
example : hostForbiddenCheckM (ofStr "a<%") 0 3 1 = .ok false := by decide
example : hostForbiddenCheckM (ofStr "a<") 0 2 1 (slack := 1) = .oob := by decide     -- `ptr + 1 <= last`: ptr[1]

/-- host_parser::parse_host, any `domain_to_ascii`, any character width, opaque or not -/
theorem C04_inbounds_parse_host : ∀ (idna : Idna) (e : Enc) (a : Array Nat) (first last : Nat) (isOpaque : Bool),
    first ≤ last → last ≤ a.size → parseHostM idna e a first last isOpaque ≠ .oob :=
  fun i e a f l o h hl => R.sat_ne_oob (parseHostM_sat i e a f l o h hl)
theorem C04_ptrs_parse_host : ∀ (idna : Idna) (e : Enc) (a : Array Nat) (first last : Nat) (isOpaque : Bool),
    first ≤ last → last ≤ a.size → parseHostM idna e a first last isOpaque ≠ .badptr :=
  fun i e a f l o h hl => R.sat_ne_badptr (parseHostM_sat i e a f l o h hl)
theorem C04_terminates_parse_host : ∀ (idna : Idna) (e : Enc) (a : Array Nat) (first last : Nat) (isOpaque : Bool),
    first ≤ last → last ≤ a.size → parseHostM idna e a first last isOpaque ≠ .hang :=
  fun i e a f l o h hl => R.sat_ne_hang (parseHostM_sat i e a f l o h hl)
/-- agreement of the fast-path DECISION with `Impl.parseHost`: `hostFastL` is the `let fast` of
    `Impl.parseHost` verbatim (`C04_parse_host_list_shape`); the instrumented scan finds the same `ptr`
    (`find_if_not`), goes on to the IDNA path for exactly the same inputs, and returns the same verdict
    whenever a non-domain character was found (the remaining case is the result of IPv4 parsing / lower-casing) -/
theorem C04_agrees_parse_host_fast_path : ∀ (a : Array Nat) (first last : Nat), first ≤ last → last ≤ a.size →
    ∃ ptr fast, hostFastPathM a first last = .ok (ptr, fast) ∧
      slice a ptr last = (slice a first last).dropWhile Spec.asciiDomainChar ∧
      (fast = none ↔ hostFastL (slice a first last) = none) ∧
      (ptr ≠ last → fast = hostFastL (slice a first last)) := by
  intro a f l h hl
  obtain ⟨⟨ptr, fast⟩, hv, hp⟩ := hostFastPathM_agrees a f l h hl
  exact ⟨ptr, fast, hv, hp⟩
theorem C04_parse_host_list_shape : ∀ (idna : Idna) (c0 : Nat) (t : List Nat), c0 ≠ 0x5B →
    Impl.parseHost idna (c0 :: t) false =
      match hostFastL (c0 :: t) with
      | some r => r
      | none =>
        match idna (Impl.encodeUtf16 (Impl.decode .u8 (Impl.percentDecode (c0 :: t)))) with
        | none => none
        | some ascii =>
          if ascii.any Spec.forbiddenDomain then none
          else if Impl.endsInNumber ascii then Impl.hostParseIpv4 ascii
          else some { kind := .domain, text := ascii } :=
  parseHost_eq_fast
/-- the pre-check returns what the list model computes from `*ptr` and the rest -/
theorem C04_agrees_parse_host_precheck : ∀ (a : Array Nat) (first last ptr : Nat), first ≤ ptr → ptr < last →
    last ≤ a.size → hostForbiddenCheckM a first last ptr = .ok (hostBadL a[ptr]! (slice a (ptr + 1) last)) :=
  hostForbiddenCheckM_agrees
example : parseHostM some .u8 (ofStr "[1::2]") 0 6 false = .ok (some { kind := .ipv6, text := asciiStr "[1::2]" }) := by decide
example : parseHostM some .u8 (ofStr "[") 0 1 false = .ok none := by decide      -- `*(last - 1)` is `*first`: no `]`
example : parseHostM some .u8 (ofStr "[]") 0 2 false = .ok none := by decide     -- parse_ipv6(first + 1, last - 1): empty range
example : parseHostM some .u8 (ofStr "EXAMPLE.com") 0 11 false =
    .ok (some { kind := .domain, text := asciiStr "example.com" }) := by decide
example : parseHostM some .u8 (ofStr "0x7f.1") 0 6 false = .ok (some { kind := .ipv4, text := asciiStr "127.0.0.1" }) := by decide
example : parseHostM some .u8 (ofStr "xn--a.%41") 0 9 false = .ok (some { kind := .domain, text := asciiStr "xn--a.A" }) := by decide
example : parseHostM some .u8 (ofStr "a<") 0 2 false = .ok none := by decide
example : parseHostM some .u8 (ofStr "a<") 0 2 false (slack := 1) = .oob := by decide

/-! ### 2  url.h -/

theorem C04_inbounds_port_from_str : ∀ (a : Array Nat) (first last : Nat), first ≤ last → last ≤ a.size →
    portFromStrM a first last ≠ .oob :=
  fun a f l h hl => R.sat_ne_oob (portFromStrM_sat a f l h hl)
theorem C04_ptrs_port_from_str : ∀ (a : Array Nat) (first last : Nat), first ≤ last → last ≤ a.size →
    portFromStrM a first last ≠ .badptr :=
  fun a f l h hl => R.sat_ne_badptr (portFromStrM_sat a f l h hl)
theorem C04_terminates_port_from_str : ∀ (a : Array Nat) (first last : Nat), first ≤ last → last ≤ a.size →
    portFromStrM a first last ≠ .hang :=
  fun a f l h hl => R.sat_ne_hang (portFromStrM_sat a f l h hl)
example : portFromStrM (ofStr "8080") 0 4 = .ok 8080 := by decide
theorem C04_agrees_port_from_str : ∀ (a : Array Nat) (first last : Nat), first ≤ last → last ≤ a.size →
    portFromStrM a first last = .ok (decimalValue (slice a first last)) :=
  portFromStrM_agrees
example : portFromStrM (ofStr "8080") 0 4 (slack := 1) = .oob := by decide

theorem C04_inbounds_do_trim : ∀ (a : Array Nat) (first last : Nat), first ≤ last → last ≤ a.size →
    trimM a first last ≠ .oob :=
  fun a f l h hl => R.sat_ne_oob (trimM_sat a f l h hl)
theorem C04_ptrs_do_trim : ∀ (a : Array Nat) (first last : Nat), first ≤ last → last ≤ a.size →
    trimM a first last ≠ .badptr :=
  fun a f l h hl => R.sat_ne_badptr (trimM_sat a f l h hl)
theorem C04_terminates_do_trim : ∀ (a : Array Nat) (first last : Nat), first ≤ last → last ≤ a.size →
    trimM a first last ≠ .hang :=
  fun a f l h hl => R.sat_ne_hang (trimM_sat a f l h hl)
/-- the new range is a sub-range of the old one -/
theorem C04_do_trim_range : ∀ (a : Array Nat) (first last : Nat), first ≤ last → last ≤ a.size →
    ∃ f l, trimM a first last = .ok (f, l) ∧ first ≤ f ∧ f ≤ l ∧ l ≤ last := by
  intro a f l h hl
  obtain ⟨⟨f', l'⟩, hv, hp⟩ := trimM_sat a f l h hl
  exact ⟨f', l', hv, hp⟩
example : trimM (ofStr "  a b \n") 0 7 = .ok (2, 5) := by decide
/-- agreement with `Impl.doTrim`: the new range holds exactly the trimmed list -/
theorem C04_agrees_do_trim : ∀ (a : Array Nat) (first last : Nat), first ≤ last → last ≤ a.size →
    ∃ f l, trimM a first last = .ok (f, l) ∧ first ≤ f ∧ f ≤ l ∧ l ≤ last ∧
      slice a f l = Impl.doTrim (slice a first last) := by
  intro a f l h hl
  obtain ⟨⟨f', l'⟩, hv, hp⟩ := trimM_agrees a f l h hl
  exact ⟨f', l', hv, hp⟩
example : trimM (ofStr "   ") 0 3 = .ok (3, 3) := by decide
example : trimM (ofStr " ") 0 1 (slack := 1) = .oob := by decide                -- `first <= last`: *first at `last`

theorem C04_inbounds_do_remove_whitespace : ∀ (a : Array Nat) (first last : Nat), first ≤ last → last ≤ a.size →
    removeWhitespaceM a first last ≠ .oob :=
  fun a f l h hl => R.sat_ne_oob (removeWhitespaceM_sat a f l h hl)
theorem C04_ptrs_do_remove_whitespace : ∀ (a : Array Nat) (first last : Nat), first ≤ last → last ≤ a.size →
    removeWhitespaceM a first last ≠ .badptr :=
  fun a f l h hl => R.sat_ne_badptr (removeWhitespaceM_sat a f l h hl)
theorem C04_terminates_do_remove_whitespace : ∀ (a : Array Nat) (first last : Nat), first ≤ last → last ≤ a.size →
    removeWhitespaceM a first last ≠ .hang :=
  fun a f l h hl => R.sat_ne_hang (removeWhitespaceM_sat a f l h hl)
example : removeWhitespaceM (ofStr "ab") 0 2 = .ok none := by decide
/-- agreement with `Impl.removeWs`: `none` = the input is kept (and then contains nothing removable),
    `some buff` = the new buffer -/
theorem C04_agrees_do_remove_whitespace : ∀ (a : Array Nat) (first last : Nat), first ≤ last → last ≤ a.size →
    ∃ r, removeWhitespaceM a first last = .ok r ∧
      r.getD (slice a first last) = Impl.removeWs (slice a first last) := by
  intro a f l h hl
  obtain ⟨r, hv, hp⟩ := removeWhitespaceM_agrees a f l h hl
  exact ⟨r, hv, hp⟩
example : removeWhitespaceM (ofStr "a\tb\nc") 0 5 = .ok (some (asciiStr "abc")) := by decide
example : removeWhitespaceM (ofStr "a\t") 0 2 (slack := 1) = .oob := by decide  -- inner loop `it <= last`

/-- url_parser::parse_path with do_path_segment, any serializer state `u`, any character width -/
theorem C04_inbounds_parse_path : ∀ (e : Enc) (a : Array Nat) (first last : Nat) (u : Url), first ≤ last →
    last ≤ a.size → parsePathM e a first last u ≠ .oob :=
  fun e a f l u h hl => R.sat_ne_oob (parsePathM_sat e a f l u h hl)
theorem C04_ptrs_parse_path : ∀ (e : Enc) (a : Array Nat) (first last : Nat) (u : Url), first ≤ last →
    last ≤ a.size → parsePathM e a first last u ≠ .badptr :=
  fun e a f l u h hl => R.sat_ne_badptr (parsePathM_sat e a f l u h hl)
theorem C04_terminates_parse_path : ∀ (e : Enc) (a : Array Nat) (first last : Nat) (u : Url), first ≤ last →
    last ≤ a.size → parsePathM e a first last u ≠ .hang :=
  fun e a f l u h hl => R.sat_ne_hang (parsePathM_sat e a f l u h hl)
example : parsePathM .u8 (ofStr "a/../b/./c%2e") 0 13 { scheme := Impl.sHttp } =
    .ok { scheme := Impl.sHttp, path := [asciiStr "b", asciiStr "c%2e"] } := by decide
example : parsePathM .u8 (ofStr "C|/x") 0 4 { scheme := Impl.sFile } =
    .ok { scheme := Impl.sFile, path := [asciiStr "C:", asciiStr "x"] } := by decide
example : parsePathM .u8 (ofStr "") 0 0 { scheme := Impl.sFile } = .ok { scheme := Impl.sFile, path := [[]] } := by decide
-- `len == 1` instead of `len == 2` before `is_windows_drive(pointer[0], pointer[1])`
example : parsePathM .u8 (ofStr "C") 0 1 { scheme := Impl.sFile } (driveLen := 1) = .oob := by decide

theorem C04_inbounds_find_last : ∀ (a : Array Nat) (first last value : Nat), first ≤ last → last ≤ a.size →
    findLastM a first last value ≠ .oob :=
  fun a f l v h hl => R.sat_ne_oob (findLastM_sat a f l v h hl)
theorem C04_ptrs_find_last : ∀ (a : Array Nat) (first last value : Nat), first ≤ last → last ≤ a.size →
    findLastM a first last value ≠ .badptr :=
  fun a f l v h hl => R.sat_ne_badptr (findLastM_sat a f l v h hl)
theorem C04_terminates_find_last : ∀ (a : Array Nat) (first last value : Nat), first ≤ last → last ≤ a.size →
    findLastM a first last value ≠ .hang :=
  fun a f l v h hl => R.sat_ne_hang (findLastM_sat a f l v h hl)
example : findLastM (ofStr "/a/b") 0 4 0x2F = .ok 2 := by decide
example : findLastM (ofStr "ab") 0 2 0x2F = .ok 2 := by decide
example : findLastM (ofStr "ab") 0 2 0x2F (stop := 1) = .badptr := by decide    -- `it >= first`: `--it` below `first`

theorem C04_inbounds_get_path_first_string : ∀ (a : Array Nat) (first last len : Nat) (opaquePath : Bool),
    first ≤ last → last ≤ a.size → getPathFirstStringM a first last len opaquePath ≠ .oob :=
  fun a f l n o h hl => R.sat_ne_oob (getPathFirstStringM_sat a f l n o h hl)
theorem C04_ptrs_get_path_first_string : ∀ (a : Array Nat) (first last len : Nat) (opaquePath : Bool),
    first ≤ last → last ≤ a.size → getPathFirstStringM a first last len opaquePath ≠ .badptr :=
  fun a f l n o h hl => R.sat_ne_badptr (getPathFirstStringM_sat a f l n o h hl)
example : getPathFirstStringM (ofStr "/C:/x") 0 5 2 false = .ok (1, 3) := by decide
example : getPathFirstStringM (ofStr "/C") 0 2 2 false = .ok (1, 1) := by decide
example : getPathFirstStringM (ofStr "/C") 0 2 2 false (slack := 2) = .oob := by decide   -- `length() + 2 > len`: pathv[2]

#print axioms C04_inbounds_char_in_set
#print axioms C04_inbounds_code_point_set_get
#print axioms C04_inbounds_unsigned_to_str
#print axioms C04_terminates_unsigned_to_str
#print axioms C04_inbounds_ipv4_serialize
#print axioms C04_terminates_ipv4_serialize
#print axioms C04_inbounds_longest_zero_sequence
#print axioms C04_ptrs_longest_zero_sequence
#print axioms C04_terminates_longest_zero_sequence
#print axioms C04_longest_zero_sequence_range
#print axioms C04_inbounds_ipv6_serialize
#print axioms C04_ptrs_ipv6_serialize
#print axioms C04_terminates_ipv6_serialize
#print axioms C04_inbounds_append_percent_encoded_byte
#print axioms C04_inbounds_append_utf8_percent_encoded_byte
#print axioms C04_inbounds_append_utf8_percent_encoded_char
#print axioms C04_ptrs_append_utf8_percent_encoded_char
#print axioms C04_inbounds_append_utf8_percent_encoded
#print axioms C04_ptrs_append_utf8_percent_encoded
#print axioms C04_terminates_append_utf8_percent_encoded
#print axioms C04_inbounds_do_path_segment
#print axioms C04_ptrs_do_path_segment
#print axioms C04_terminates_do_path_segment
#print axioms C04_inbounds_do_simple_path
#print axioms C04_ptrs_do_simple_path
#print axioms C04_terminates_do_simple_path
#print axioms C04_inbounds_urlencode
#print axioms C04_terminates_urlencode
#print axioms C04_inbounds_convert_utf8_to_utf16
#print axioms C04_ptrs_convert_utf8_to_utf16
#print axioms C04_terminates_convert_utf8_to_utf16
#print axioms C04_inbounds_host_parse_ipv4
#print axioms C04_inbounds_host_parse_ipv6
#print axioms C04_inbounds_parse_opaque_host
#print axioms C04_ptrs_parse_opaque_host
#print axioms C04_terminates_parse_opaque_host
#print axioms C04_inbounds_parse_host_precheck
#print axioms C04_ptrs_parse_host_precheck
#print axioms C04_inbounds_parse_host
#print axioms C04_ptrs_parse_host
#print axioms C04_terminates_parse_host
#print axioms C04_inbounds_port_from_str
#print axioms C04_ptrs_port_from_str
#print axioms C04_terminates_port_from_str
#print axioms C04_inbounds_do_trim
#print axioms C04_ptrs_do_trim
#print axioms C04_terminates_do_trim
#print axioms C04_do_trim_range
#print axioms C04_inbounds_do_remove_whitespace
#print axioms C04_ptrs_do_remove_whitespace
#print axioms C04_terminates_do_remove_whitespace
#print axioms C04_inbounds_parse_path
#print axioms C04_ptrs_parse_path
#print axioms C04_terminates_parse_path
#print axioms C04_inbounds_find_last
#print axioms C04_ptrs_find_last
#print axioms C04_terminates_find_last
#print axioms C04_inbounds_get_path_first_string
#print axioms C04_ptrs_get_path_first_string
#print axioms C04_agrees_unsigned_to_str
#print axioms C04_agrees_ipv4_serialize
#print axioms C04_agrees_longest_zero_sequence
#print axioms C04_agrees_urlencode
#print axioms C04_agrees_port_from_str
#print axioms C04_agrees_do_trim
#print axioms C04_agrees_do_remove_whitespace
#print axioms C04_agrees_parse_host_fast_path
#print axioms C04_parse_host_list_shape
#print axioms C04_agrees_parse_host_precheck
end Upa.Props
