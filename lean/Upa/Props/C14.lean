import Upa.Proofs.Percent
import Upa.Impl.Url
/-
  C14 — percent_encode / percent_decode (include/upa/url_percent_encode.h:449-547; model:
  Upa/Impl/Percent.lean) against the URL Standard's §1.3 algorithms (Upa/Spec/Percent.lean).
  Helper lemmas: Upa/Proofs/Percent.lean (namespace Upa.Proofs.C14).
-/
namespace Upa.Props
open Upa.Proofs.C14 (PctWord sample dsample)

/-! ### 1. the encode loop with a no-encode set = UTF-8 percent-encode with the complementary set -/

theorem C14_encode :
    ∀ (inSet : Nat → Bool) (s : List Nat), (∀ c ∈ s, Spec.isScalar c = true) →
      (∀ c, c ≥ 0x80 → inSet c = true) →
      Impl.percentEncode (Spec.noEncode inSet) s = Spec.utf8PercentEncode inSet s :=
  fun inSet s hs hset => Proofs.C14.percentEncode_eq_spec inSet hset s hs

-- hypotheses satisfiable (path percent-encode set; 1-, 2-, 3-, 4-byte scalars, `%`, DEL, `?`)
example : (∀ c ∈ sample, Spec.isScalar c = true) ∧ (∀ c, c ≥ 0x80 → Spec.pathSet c = true) :=
  ⟨by decide, Proofs.C14.path_hi⟩
example : Impl.percentEncode (Spec.noEncode Spec.pathSet) sample =
    asciiStr "a%20%C3%A9%E2%82%AC%F0%9F%98%80%%7F%3F" := by decide +kernel
example : Spec.utf8PercentEncode Spec.pathSet sample =
    asciiStr "a%20%C3%A9%E2%82%AC%F0%9F%98%80%%7F%3F" := by decide +kernel

theorem C14_encode_c0 :
    ∀ s : List Nat, (∀ c ∈ s, Spec.isScalar c = true) →
      Impl.percentEncodeC0 s = Spec.utf8PercentEncode Spec.c0ControlSet s :=
  fun s hs => Proofs.C14.percentEncodeC0_eq_spec s hs

example : Impl.percentEncodeC0 (0x1F :: sample) =
    asciiStr "%1Fa %C3%A9%E2%82%AC%F0%9F%98%80%%7F?" := by decide +kernel
example : Spec.utf8PercentEncode Spec.c0ControlSet (0x1F :: sample) =
    asciiStr "%1Fa %C3%A9%E2%82%AC%F0%9F%98%80%%7F?" := by decide +kernel

/-! ### 2. output alphabet, for an arbitrary (user-built) no-encode set -/

theorem C14_alphabet :
    ∀ (noEnc : Nat → Bool) (s : List Nat), (∀ c ∈ s, Spec.isScalar c = true) →
      PctWord (fun c => decide (c < 0x80) && noEnc c) (Impl.percentEncode noEnc s) :=
  fun noEnc s hs => Proofs.C14.percentEncode_word noEnc s hs

theorem C14_ascii_output :
    ∀ (noEnc : Nat → Bool) (s : List Nat), (∀ c ∈ s, Spec.isScalar c = true) →
      ∀ x ∈ Impl.percentEncode noEnc s, x < 0x80 :=
  fun noEnc s hs =>
    (Proofs.C14.percentEncode_word noEnc s hs).all_lt
      (fun c hc => by simp only [Bool.and_eq_true, decide_eq_true_eq] at hc; exact hc.1)

-- a user-built set with a non-ASCII "member" (U+00E9): it is percent-encoded all the same
example : Impl.percentEncode (fun c => c == 0x61 || c == 0xE9) [0x61, 0x62, 0xE9] =
    asciiStr "a%62%C3%A9" := by decide +kernel
-- `PctWord` is a real restriction: it accepts `a%62`, rejects lower-case hex digits and a bare `%`
example : PctWord (fun c => c == 0x61) (asciiStr "a%62") :=
  .single _ _ (by decide) (.triplet _ _ _ (by decide) (by decide) .nil)
example : ¬ PctWord (fun c => c == 0x61) [0x25, 0x63, 0x33] := by
  intro h
  cases h with
  | single _ _ hc _ => simp at hc
  | triplet _ _ _ h1 _ _ => simp [Proofs.C14.isUpperHex] at h1
example : ¬ PctWord (fun c => c == 0x61) [0x25] := by
  intro h
  cases h with
  | single _ _ hc _ => simp at hc

/-! ### 3. encodeURIComponent-style encoding -/

theorem C14_component :
    ∀ s : List Nat, (∀ c ∈ s, Spec.isScalar c = true) →
      Impl.percentEncode Impl.componentNoEnc s = Spec.utf8PercentEncode Spec.componentSet s :=
  fun s hs => Proofs.C14.percentEncode_eq_spec Spec.componentSet Proofs.C14.component_hi s hs

example : Impl.percentEncode Impl.componentNoEnc sample =
    asciiStr "a%20%C3%A9%E2%82%AC%F0%9F%98%80%25%7F%3F" := by decide +kernel
example : Spec.utf8PercentEncode Spec.componentSet sample =
    asciiStr "a%20%C3%A9%E2%82%AC%F0%9F%98%80%25%7F%3F" := by decide +kernel

/-! ### 4. percent_decode = string percent-decode, then UTF-8 decode with replacement (as UTF-8) -/

theorem C14_decode :
    ∀ s : List Nat, (∀ c ∈ s, Spec.isScalar c = true) →
      Impl.percentDecode s = Spec.utf8Encode (Spec.utf8Decode (Spec.stringPercentDecode s)) :=
  fun s hs => Proofs.C14.percentDecode_eq_spec s hs

-- `dsample` = `%41%C3%A9%E2%82` U+20AC `%E2%82%41%C3%zz%ff%4` (see Upa/Proofs/Percent.lean): an ASCII escape,
-- a well-formed run, a truncated run closed by a raw non-ASCII scalar, a truncated sequence followed
-- by an ASCII escape inside the same run, a run continued by a non-hex `%`, `%ff`, an incomplete `%4`
example : ∀ c ∈ dsample, Spec.isScalar c = true := by decide +kernel
example : Impl.percentDecode dsample =
    [0x41, 0xC3, 0xA9, 0xEF, 0xBF, 0xBD, 0xE2, 0x82, 0xAC, 0xEF, 0xBF, 0xBD, 0x41, 0xEF, 0xBF, 0xBD,
     0x25, 0x7A, 0x7A, 0xEF, 0xBF, 0xBD, 0x25, 0x34] := by
  -- (`percentDecodeAux` is compiled by well-founded recursion: unfold with its equations)
  simp [dsample, Impl.percentDecode, Impl.percentDecodeAux, isHex, isDigit, hexVal]
  decide +kernel
example : Spec.stringPercentDecode dsample =
    [0x41, 0xC3, 0xA9, 0xE2, 0x82, 0xE2, 0x82, 0xAC, 0xE2, 0x82, 0x41, 0xC3, 0x25, 0x7A, 0x7A, 0xFF,
     0x25, 0x34] := by
  have h : Spec.utf8Encode dsample =
      [0x25, 0x34, 0x31, 0x25, 0x43, 0x33, 0x25, 0x41, 0x39, 0x25, 0x45, 0x32, 0x25, 0x38, 0x32,
       0xE2, 0x82, 0xAC, 0x25, 0x45, 0x32, 0x25, 0x38, 0x32, 0x25, 0x34, 0x31, 0x25, 0x43, 0x33,
       0x25, 0x7A, 0x7A, 0x25, 0x66, 0x66, 0x25, 0x34] := by decide +kernel
  unfold Spec.stringPercentDecode
  rw [h]
  simp [Spec.percentDecodeBytes, isHex, isDigit, hexVal]
example : Spec.utf8Decode [0x41, 0xC3, 0xA9, 0xE2, 0x82, 0xE2, 0x82, 0xAC, 0xE2, 0x82, 0x41, 0xC3, 0x25,
      0x7A, 0x7A, 0xFF, 0x25, 0x34] =
    [0x41, 0xE9, 0xFFFD, 0x20AC, 0xFFFD, 0x41, 0xFFFD, 0x25, 0x7A, 0x7A, 0xFFFD, 0x25, 0x34] := by
  decide +kernel
example : Spec.utf8Encode [0x41, 0xE9, 0xFFFD, 0x20AC, 0xFFFD, 0x41, 0xFFFD, 0x25, 0x7A, 0x7A, 0xFFFD,
      0x25, 0x34] =
    [0x41, 0xC3, 0xA9, 0xEF, 0xBF, 0xBD, 0xE2, 0x82, 0xAC, 0xEF, 0xBF, 0xBD, 0x41, 0xEF, 0xBF, 0xBD,
     0x25, 0x7A, 0x7A, 0xEF, 0xBF, 0xBD, 0x25, 0x34] := by decide +kernel

/-! ### 5. round trip -/

theorem C14_roundtrip :
    ∀ (noEnc : Nat → Bool) (s : List Nat), (∀ c ∈ s, Spec.isScalar c = true) →
      noEnc 0x25 = false →
      Impl.percentDecode (Impl.percentEncode noEnc s) = Spec.utf8Encode s :=
  fun noEnc s hs h25 => Proofs.C14.percentDecode_percentEncode noEnc s hs h25

example : (∀ c ∈ sample, Spec.isScalar c = true) ∧ Impl.componentNoEnc 0x25 = false := by decide
example : Impl.percentDecode (Impl.percentEncode Impl.componentNoEnc sample) =
    [0x61, 0x20, 0xC3, 0xA9, 0xE2, 0x82, 0xAC, 0xF0, 0x9F, 0x98, 0x80, 0x25, 0x7F, 0x3F] := by
  have h : Impl.percentEncode Impl.componentNoEnc sample =
      -- a%20%C3%A9%E2%82%AC%F0%9F%98%80%25%7F%3F
      [0x61, 0x25, 0x32, 0x30, 0x25, 0x43, 0x33, 0x25, 0x41, 0x39, 0x25, 0x45, 0x32, 0x25, 0x38, 0x32,
       0x25, 0x41, 0x43, 0x25, 0x46, 0x30, 0x25, 0x39, 0x46, 0x25, 0x39, 0x38, 0x25, 0x38, 0x30,
       0x25, 0x32, 0x35, 0x25, 0x37, 0x46, 0x25, 0x33, 0x46] := by decide +kernel
  rw [h]
  simp [Impl.percentDecode, Impl.percentDecodeAux, isHex, isDigit, hexVal]
  decide +kernel
example : Spec.utf8Encode sample =
    [0x61, 0x20, 0xC3, 0xA9, 0xE2, 0x82, 0xAC, 0xF0, 0x9F, 0x98, 0x80, 0x25, 0x7F, 0x3F] := by
  decide +kernel
-- the hypothesis `noEnc '%' = false` is needed: the fragment set keeps `%`, and `%41` comes back as `A`
example : Impl.fragmentNoEnc 0x25 = true ∧
    Impl.percentDecode (Impl.percentEncode Impl.fragmentNoEnc [0x25, 0x34, 0x31]) = [0x41] := by
  have h : Impl.percentEncode Impl.fragmentNoEnc [0x25, 0x34, 0x31] = [0x25, 0x34, 0x31] := by
    decide +kernel
  rw [h]
  refine ⟨by decide, ?_⟩
  simp [Impl.percentDecode, Impl.percentDecodeAux, isHex, isDigit, hexVal]

/-! ### 6. re-encoding the library's own output is the identity when `%` and hex digits are kept -/

theorem C14_encode_idem :
    ∀ (noEnc : Nat → Bool) (s : List Nat), (∀ c ∈ s, Spec.isScalar c = true) →
      noEnc 0x25 = true → (∀ c, isHex c = true → noEnc c = true) →
      Impl.percentEncode noEnc (Impl.percentEncode noEnc s) = Impl.percentEncode noEnc s :=
  fun noEnc s hs h25 hhex =>
    Proofs.C14.percentEncode_fix noEnc h25 hhex (Proofs.C14.percentEncode_word noEnc s hs)

theorem C14_encode_idem_fragment :
    ∀ s : List Nat, (∀ c ∈ s, Spec.isScalar c = true) →
      Impl.percentEncode Impl.fragmentNoEnc (Impl.percentEncode Impl.fragmentNoEnc s) =
        Impl.percentEncode Impl.fragmentNoEnc s :=
  fun s hs => C14_encode_idem _ s hs (by decide) (Proofs.C14.hex_side _ (by decide))

theorem C14_encode_idem_query :
    ∀ s : List Nat, (∀ c ∈ s, Spec.isScalar c = true) →
      Impl.percentEncode Impl.queryNoEnc (Impl.percentEncode Impl.queryNoEnc s) =
        Impl.percentEncode Impl.queryNoEnc s :=
  fun s hs => C14_encode_idem _ s hs (by decide) (Proofs.C14.hex_side _ (by decide))

theorem C14_encode_idem_specialQuery :
    ∀ s : List Nat, (∀ c ∈ s, Spec.isScalar c = true) →
      Impl.percentEncode Impl.specialQueryNoEnc (Impl.percentEncode Impl.specialQueryNoEnc s) =
        Impl.percentEncode Impl.specialQueryNoEnc s :=
  fun s hs => C14_encode_idem _ s hs (by decide) (Proofs.C14.hex_side _ (by decide))

theorem C14_encode_idem_path :
    ∀ s : List Nat, (∀ c ∈ s, Spec.isScalar c = true) →
      Impl.percentEncode Impl.pathNoEnc (Impl.percentEncode Impl.pathNoEnc s) =
        Impl.percentEncode Impl.pathNoEnc s :=
  fun s hs => C14_encode_idem _ s hs (by decide) (Proofs.C14.hex_side _ (by decide))

theorem C14_encode_idem_userinfo :
    ∀ s : List Nat, (∀ c ∈ s, Spec.isScalar c = true) →
      Impl.percentEncode Impl.userinfoNoEnc (Impl.percentEncode Impl.userinfoNoEnc s) =
        Impl.percentEncode Impl.userinfoNoEnc s :=
  fun s hs => C14_encode_idem _ s hs (by decide) (Proofs.C14.hex_side _ (by decide))

theorem C14_encode_c0_idem :
    ∀ s : List Nat, (∀ c ∈ s, Spec.isScalar c = true) →
      Impl.percentEncodeC0 (Impl.percentEncodeC0 s) = Impl.percentEncodeC0 s :=
  fun s hs => Proofs.C14.percentEncodeC0_fix (Proofs.C14.percentEncodeC0_word s hs)

example : Impl.percentEncode Impl.pathNoEnc (Impl.percentEncode Impl.pathNoEnc sample) =
    asciiStr "a%20%C3%A9%E2%82%AC%F0%9F%98%80%%7F%3F" := by decide +kernel
example : Impl.percentEncodeC0 (Impl.percentEncodeC0 (0x1F :: sample)) =
    asciiStr "%1Fa %C3%A9%E2%82%AC%F0%9F%98%80%%7F?" := by decide +kernel
-- the hypothesis `noEnc '%' = true` is needed: the component set encodes `%`, so `%` → `%25` → `%2525`
example : Impl.componentNoEnc 0x25 = false ∧
    Impl.percentEncode Impl.componentNoEnc (asciiStr "%") = asciiStr "%25" ∧
    Impl.percentEncode Impl.componentNoEnc (Impl.percentEncode Impl.componentNoEnc (asciiStr "%")) =
      asciiStr "%2525" := by decide +kernel

end Upa.Props

#print axioms Upa.Props.C14_encode
#print axioms Upa.Props.C14_encode_c0
#print axioms Upa.Props.C14_alphabet
#print axioms Upa.Props.C14_ascii_output
#print axioms Upa.Props.C14_component
#print axioms Upa.Props.C14_decode
#print axioms Upa.Props.C14_roundtrip
#print axioms Upa.Props.C14_encode_idem
#print axioms Upa.Props.C14_encode_idem_fragment
#print axioms Upa.Props.C14_encode_idem_query
#print axioms Upa.Props.C14_encode_idem_specialQuery
#print axioms Upa.Props.C14_encode_idem_path
#print axioms Upa.Props.C14_encode_idem_userinfo
#print axioms Upa.Props.C14_encode_c0_idem
