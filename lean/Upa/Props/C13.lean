import Upa.Gen.Tables
import Upa.Spec.Sets
import Upa.Impl.Rep
/-
  C13 — percent-encode sets and code point classes equal the Standard's, in every build.
  `Upa.Gen.*` is regenerated on every run by executing the current tree compiled as C++11/14/17/20 and
  querying every set / class through the public lookups for all 256 one-byte values (three character
  widths each; `_any` is the OR over the widths and spellings, the plain name the AND, so the two
  coincide iff all lookups agree).  The theorems below are re-checked by the kernel on every run:
  a one-bit edit of a table, of a constexpr builder or of a lookup makes `decide +kernel` fail.
-/
namespace Upa.Props
open Upa Upa.Gen Upa.Spec

/-- a regenerated 256-bit membership mask agrees with a predicate on every one-byte value, through
    every lookup -/
def tableOk (tbl any : Nat) (spec : Nat → Bool) : Bool :=
  (List.range 256).all (fun c => tbl.testBit c == spec c && any.testBit c == spec c) && decide (any < 2 ^ 256)

theorem tableOk_spec {tbl any : Nat} {spec : Nat → Bool} (h : tableOk tbl any spec = true) :
    ∀ c, c < 256 → tbl.testBit c = spec c ∧ any.testBit c = spec c := by
  intro c hc
  simp only [tableOk, Bool.and_eq_true, List.all_eq_true, List.mem_range, beq_iff_eq] at h
  exact h.1 c hc

/-- one observed `get_scheme_info` result equals the model's scheme functions -/
def schemeEntryOk (e : List Nat × Option (Nat × Bool × Bool × Bool × Bool × Nat)) : Bool :=
  match e.2 with
  | some (dp, special, file, _http, _ws, idx) =>
    Impl.isSpecialScheme e.1 == special && Impl.isFileScheme e.1 == file &&
    (Impl.defaultPort e.1).map (· + 1) == (if dp = 0 then none else some dp) && Impl.schemeIndex e.1 == some idx
  | none => !Impl.isSpecialScheme e.1 && Impl.schemeIndex e.1 == none && Impl.defaultPort e.1 == none

/-- a no-encode set never contains a code point above U+00FF (the `is_8bit` guard) -/
theorem C13_wide_never_member (set : Nat → Bool) (c : Nat) (h : c ≥ 256) : noEncode set c = false := by
  simp [noEncode]; omega

/-- cpp11: all 8 sets and 8 classes, all 256 values, all lookups -/
theorem C13_tables_cpp11 :
    (tableOk cpp11_fragment cpp11_fragment_any (noEncode fragmentSet) &&
    tableOk cpp11_query cpp11_query_any (noEncode querySet) &&
    tableOk cpp11_squery cpp11_squery_any (noEncode specialQuerySet) &&
    tableOk cpp11_path cpp11_path_any (noEncode pathSet) &&
    tableOk cpp11_rawpath cpp11_rawpath_any (noEncode rawPathSet) &&
    tableOk cpp11_posixpath cpp11_posixpath_any (noEncode posixPathSet) &&
    tableOk cpp11_userinfo cpp11_userinfo_any (noEncode userinfoSet) &&
    tableOk cpp11_component cpp11_component_any (noEncode componentSet) &&
    tableOk cpp11_fhost cpp11_fhost_any (fun c => forbiddenHost c) &&
    tableOk cpp11_fdomain cpp11_fdomain_any (fun c => forbiddenDomain c) &&
    tableOk cpp11_hex cpp11_hex_any (fun c => isHex c) &&
    tableOk cpp11_ipv4char cpp11_ipv4char_any (fun c => ipv4Char c) &&
    tableOk cpp11_scheme cpp11_scheme_any (fun c => isSchemeChar c) &&
    tableOk cpp11_asciidomain cpp11_asciidomain_any (fun c => asciiDomainChar c) &&
    tableOk cpp11_digit cpp11_digit_any (fun c => isDigit c) &&
    tableOk cpp11_alpha cpp11_alpha_any (fun c => isAlpha c)) = true := by decide +kernel

theorem C13_encbyte_cpp11 : ∀ c, c < 256 → cpp11_encbyte.getD c 0 = urlencodedByte c := by decide +kernel
theorem C13_hexnum_cpp11 : ∀ c, c < 256 → isHex c = true → cpp11_hexnum.getD c 0 = hexVal c := by decide +kernel
theorem C13_misc_cpp11 : cpp11_pctbyte_ok = true ∧ cpp11_widemembers = 0 ∧ cpp11_partstart = Impl.kPartStart := by decide +kernel
/-- every table lookup (and a parse / encode_url_component) made DURING STATIC INITIALIZATION, before the library's own
    initializers, gives the answer it gives afterwards: the tables are constant-initialized in this mode -/
theorem C13_static_init_cpp11 : cpp11_earlydiff = 0 := by decide

/-- the scheme table as observed through `get_scheme_info` equals the model's scheme functions -/
theorem C13_schemes_cpp11 : cpp11_schemes.all schemeEntryOk = true := by decide +kernel

/-- cpp14: all 8 sets and 8 classes, all 256 values, all lookups -/
theorem C13_tables_cpp14 :
    (tableOk cpp14_fragment cpp14_fragment_any (noEncode fragmentSet) &&
    tableOk cpp14_query cpp14_query_any (noEncode querySet) &&
    tableOk cpp14_squery cpp14_squery_any (noEncode specialQuerySet) &&
    tableOk cpp14_path cpp14_path_any (noEncode pathSet) &&
    tableOk cpp14_rawpath cpp14_rawpath_any (noEncode rawPathSet) &&
    tableOk cpp14_posixpath cpp14_posixpath_any (noEncode posixPathSet) &&
    tableOk cpp14_userinfo cpp14_userinfo_any (noEncode userinfoSet) &&
    tableOk cpp14_component cpp14_component_any (noEncode componentSet) &&
    tableOk cpp14_fhost cpp14_fhost_any (fun c => forbiddenHost c) &&
    tableOk cpp14_fdomain cpp14_fdomain_any (fun c => forbiddenDomain c) &&
    tableOk cpp14_hex cpp14_hex_any (fun c => isHex c) &&
    tableOk cpp14_ipv4char cpp14_ipv4char_any (fun c => ipv4Char c) &&
    tableOk cpp14_scheme cpp14_scheme_any (fun c => isSchemeChar c) &&
    tableOk cpp14_asciidomain cpp14_asciidomain_any (fun c => asciiDomainChar c) &&
    tableOk cpp14_digit cpp14_digit_any (fun c => isDigit c) &&
    tableOk cpp14_alpha cpp14_alpha_any (fun c => isAlpha c)) = true := by decide +kernel

theorem C13_encbyte_cpp14 : ∀ c, c < 256 → cpp14_encbyte.getD c 0 = urlencodedByte c := by decide +kernel
theorem C13_hexnum_cpp14 : ∀ c, c < 256 → isHex c = true → cpp14_hexnum.getD c 0 = hexVal c := by decide +kernel
theorem C13_misc_cpp14 : cpp14_pctbyte_ok = true ∧ cpp14_widemembers = 0 ∧ cpp14_partstart = Impl.kPartStart := by decide +kernel
/-- every table lookup (and a parse / encode_url_component) made DURING STATIC INITIALIZATION, before the library's own
    initializers, gives the answer it gives afterwards: the tables are constant-initialized in this mode -/
theorem C13_static_init_cpp14 : cpp14_earlydiff = 0 := by decide

/-- the scheme table as observed through `get_scheme_info` equals the model's scheme functions -/
theorem C13_schemes_cpp14 : cpp14_schemes.all schemeEntryOk = true := by decide +kernel

/-- cpp17: all 8 sets and 8 classes, all 256 values, all lookups -/
theorem C13_tables_cpp17 :
    (tableOk cpp17_fragment cpp17_fragment_any (noEncode fragmentSet) &&
    tableOk cpp17_query cpp17_query_any (noEncode querySet) &&
    tableOk cpp17_squery cpp17_squery_any (noEncode specialQuerySet) &&
    tableOk cpp17_path cpp17_path_any (noEncode pathSet) &&
    tableOk cpp17_rawpath cpp17_rawpath_any (noEncode rawPathSet) &&
    tableOk cpp17_posixpath cpp17_posixpath_any (noEncode posixPathSet) &&
    tableOk cpp17_userinfo cpp17_userinfo_any (noEncode userinfoSet) &&
    tableOk cpp17_component cpp17_component_any (noEncode componentSet) &&
    tableOk cpp17_fhost cpp17_fhost_any (fun c => forbiddenHost c) &&
    tableOk cpp17_fdomain cpp17_fdomain_any (fun c => forbiddenDomain c) &&
    tableOk cpp17_hex cpp17_hex_any (fun c => isHex c) &&
    tableOk cpp17_ipv4char cpp17_ipv4char_any (fun c => ipv4Char c) &&
    tableOk cpp17_scheme cpp17_scheme_any (fun c => isSchemeChar c) &&
    tableOk cpp17_asciidomain cpp17_asciidomain_any (fun c => asciiDomainChar c) &&
    tableOk cpp17_digit cpp17_digit_any (fun c => isDigit c) &&
    tableOk cpp17_alpha cpp17_alpha_any (fun c => isAlpha c)) = true := by decide +kernel

theorem C13_encbyte_cpp17 : ∀ c, c < 256 → cpp17_encbyte.getD c 0 = urlencodedByte c := by decide +kernel
theorem C13_hexnum_cpp17 : ∀ c, c < 256 → isHex c = true → cpp17_hexnum.getD c 0 = hexVal c := by decide +kernel
theorem C13_misc_cpp17 : cpp17_pctbyte_ok = true ∧ cpp17_widemembers = 0 ∧ cpp17_partstart = Impl.kPartStart := by decide +kernel
/-- every table lookup (and a parse / encode_url_component) made DURING STATIC INITIALIZATION, before the library's own
    initializers, gives the answer it gives afterwards: the tables are constant-initialized in this mode -/
theorem C13_static_init_cpp17 : cpp17_earlydiff = 0 := by decide

/-- the scheme table as observed through `get_scheme_info` equals the model's scheme functions -/
theorem C13_schemes_cpp17 : cpp17_schemes.all schemeEntryOk = true := by decide +kernel

/-- cpp20: all 8 sets and 8 classes, all 256 values, all lookups -/
theorem C13_tables_cpp20 :
    (tableOk cpp20_fragment cpp20_fragment_any (noEncode fragmentSet) &&
    tableOk cpp20_query cpp20_query_any (noEncode querySet) &&
    tableOk cpp20_squery cpp20_squery_any (noEncode specialQuerySet) &&
    tableOk cpp20_path cpp20_path_any (noEncode pathSet) &&
    tableOk cpp20_rawpath cpp20_rawpath_any (noEncode rawPathSet) &&
    tableOk cpp20_posixpath cpp20_posixpath_any (noEncode posixPathSet) &&
    tableOk cpp20_userinfo cpp20_userinfo_any (noEncode userinfoSet) &&
    tableOk cpp20_component cpp20_component_any (noEncode componentSet) &&
    tableOk cpp20_fhost cpp20_fhost_any (fun c => forbiddenHost c) &&
    tableOk cpp20_fdomain cpp20_fdomain_any (fun c => forbiddenDomain c) &&
    tableOk cpp20_hex cpp20_hex_any (fun c => isHex c) &&
    tableOk cpp20_ipv4char cpp20_ipv4char_any (fun c => ipv4Char c) &&
    tableOk cpp20_scheme cpp20_scheme_any (fun c => isSchemeChar c) &&
    tableOk cpp20_asciidomain cpp20_asciidomain_any (fun c => asciiDomainChar c) &&
    tableOk cpp20_digit cpp20_digit_any (fun c => isDigit c) &&
    tableOk cpp20_alpha cpp20_alpha_any (fun c => isAlpha c)) = true := by decide +kernel

theorem C13_encbyte_cpp20 : ∀ c, c < 256 → cpp20_encbyte.getD c 0 = urlencodedByte c := by decide +kernel
theorem C13_hexnum_cpp20 : ∀ c, c < 256 → isHex c = true → cpp20_hexnum.getD c 0 = hexVal c := by decide +kernel
theorem C13_misc_cpp20 : cpp20_pctbyte_ok = true ∧ cpp20_widemembers = 0 ∧ cpp20_partstart = Impl.kPartStart := by decide +kernel
/-- every table lookup (and a parse / encode_url_component) made DURING STATIC INITIALIZATION, before the library's own
    initializers, gives the answer it gives afterwards: the tables are constant-initialized in this mode -/
theorem C13_static_init_cpp20 : cpp20_earlydiff = 0 := by decide

/-- the scheme table as observed through `get_scheme_info` equals the model's scheme functions -/
theorem C13_schemes_cpp20 : cpp20_schemes.all schemeEntryOk = true := by decide +kernel

/-- the property as stated: for every code point and every language mode, membership equals the
    Standard's definition (shown for the fragment set; the other 15 tables are the remaining
    conjuncts of `C13_tables_*`) -/
theorem C13_fragment_all_modes (c : Nat) (hc : c < 256) :
    cpp11_fragment.testBit c = noEncode fragmentSet c ∧ cpp14_fragment.testBit c = noEncode fragmentSet c ∧
    cpp17_fragment.testBit c = noEncode fragmentSet c ∧ cpp20_fragment.testBit c = noEncode fragmentSet c := by
  have h11 := C13_tables_cpp11; have h14 := C13_tables_cpp14; have h17 := C13_tables_cpp17; have h20 := C13_tables_cpp20
  simp only [Bool.and_eq_true] at h11 h14 h17 h20
  exact ⟨(tableOk_spec h11.1.1.1.1.1.1.1.1.1.1.1.1.1.1.1 c hc).1, (tableOk_spec h14.1.1.1.1.1.1.1.1.1.1.1.1.1.1.1 c hc).1,
         (tableOk_spec h17.1.1.1.1.1.1.1.1.1.1.1.1.1.1.1 c hc).1, (tableOk_spec h20.1.1.1.1.1.1.1.1.1.1.1.1.1.1.1 c hc).1⟩

/-- the urlencoded byte rule is the Standard's serializer: space → '+', members of the
    application/x-www-form-urlencoded percent-encode set → %XX, everything else unchanged -/
theorem C13_urlencoded_rule : ∀ b, b < 256 →
    (urlencodedByte b = 0x2B ↔ b = 0x20) ∧
    (urlencodedByte b = 0x25 ↔ (b ≠ 0x20 ∧ urlencodedSet b = true)) ∧
    (urlencodedByte b ≠ 0x25 → urlencodedByte b ≠ 0x2B → urlencodedByte b = b) := by decide +kernel

/-- the two file-path sets equal their documented definition -/
theorem C13_file_path_sets (c : Nat) :
    rawPathSet c = (pathSet c || c == 0x25) ∧ posixPathSet c = (rawPathSet c || c == 0x3A || c == 0x5C || c == 0x7C) := by
  simp [rawPathSet, posixPathSet]

-- non-vacuity: the generated tables are not constant
example : cpp11_fragment.testBit 0x41 = true ∧ cpp11_fragment.testBit 0x20 = false ∧ cpp17_userinfo.testBit 0x40 = false := by decide


#print axioms C13_tables_cpp11
#print axioms C13_encbyte_cpp11
#print axioms C13_schemes_cpp11
#print axioms C13_tables_cpp14
#print axioms C13_encbyte_cpp14
#print axioms C13_schemes_cpp14
#print axioms C13_tables_cpp17
#print axioms C13_encbyte_cpp17
#print axioms C13_schemes_cpp17
#print axioms C13_tables_cpp20
#print axioms C13_encbyte_cpp20
#print axioms C13_schemes_cpp20
#print axioms C13_fragment_all_modes
#print axioms C13_urlencoded_rule

end Upa.Props
