import Upa.Proofs.CanParse
/-
  C09 — `url::can_parse`, `url::parse` and the throwing constructor always agree
  (include/upa/url.h:214-251 can_parse, 1374-1435 do_parse / for_can_parse, 1597-2310 url_parse).

  `Impl.canParse` is the `need_save() == false` run (one `…NS` function per block, which only takes
  the decisions that can fail and returns right after the authority / file-host states, url.h:2124);
  `Impl.parse` is the saving run.  The helpers (namespace `Upa.Proofs.C09`, `Upa/Proofs/CanParse.lean`)
  prove for every block `X`, with no state override,
      XStateNS … p = ((XState idna base none u p).out == .ok)          (`X_sim`)
  for every record `u` whose scheme flags are the ones the NS block was given (`u.isSpecial = special`).
-/
namespace Upa.Props
open Upa Upa.Proofs.C09

/-- stub IDNA (identity) and ASCII input for the evaluated instances -/
private def stub : Idna := fun l => some l
private def s (x : String) : List Nat := asciiStr x
private def show' (u : Option Url) : Option String :=
  u.map fun u => String.ofList ((Impl.serialize u).map Char.ofNat)
private def baseHttp : Option Url := Impl.parse stub .u8 (s "http://example.org/a/b?q") none
private def baseOpaque : Option Url := Impl.parse stub .u8 (s "a:b") none

/-! ## 1. the blocks behind the authority cannot fail (no state override) -/

theorem C09_tail_total :
    (∀ u p, (Impl.pathStartState none u p).out = .ok) ∧
    (∀ u p, (Impl.pathState none u p).out = .ok) ∧
    (∀ u p, (Impl.opaquePathState none u p).out = .ok) ∧
    (∀ u p, (Impl.queryState none u p).out = .ok) ∧
    (∀ u p, (Impl.fragmentState u p).out = .ok) ∧
    (∀ u p, (Impl.afterPath none u p).out = .ok) :=
  ⟨pathStart_ok, path_ok, opaquePath_ok, query_ok, fragment_ok, afterPath_ok⟩

/-- a concrete run of the tail: path start, path (with a `..`), query and fragment are all visited -/
example :
    let r := Impl.pathStartState none { scheme := Impl.sHttp } (s "/a/../b c?q r#f")
    r.out = .ok ∧ r.url.path = [s "b%20c"] ∧ r.url.query = some (s "q%20r") ∧
      r.url.fragment = some (s "f") := by decide +kernel

/-! ## 2. `can_parse` = "`parse` succeeds" -/

theorem C09_agree :
    ∀ (idna : Idna) (e : Enc) (units : List Nat) (base : Option Url),
      Impl.canParse idna e units base = (Impl.parse idna e units base).isSome :=
  canParse_eq

/-- evaluated instances: both sides computed independently, both verdicts occur -/
example : Impl.canParse stub .u8 (s "http://u:p@h:80/p?q#f") none = true ∧
    show' (Impl.parse stub .u8 (s "http://u:p@h:80/p?q#f") none) = some "http://u:p@h/p?q#f" := by
  decide +kernel
example : Impl.canParse stub .u8 (s "http://h:99999/") none = false ∧
    Impl.parse stub .u8 (s "http://h:99999/") none = none := by decide +kernel
example : baseHttp.isSome = true ∧ Impl.canParse stub .u8 (s "//x") baseHttp = true ∧
    show' (Impl.parse stub .u8 (s "//x") baseHttp) = some "http://x/" := by decide +kernel
example : Impl.canParse stub .u8 (s "//x") none = false ∧
    Impl.parse stub .u8 (s "//x") none = none := by decide +kernel
example : Impl.canParse stub .u8 (s "a:b") none = true ∧
    show' (Impl.parse stub .u8 (s "a:b") none) = some "a:b" := by decide +kernel
example : Impl.canParse stub .u8 (s "") none = false ∧
    Impl.parse stub .u8 (s "") none = none := by decide +kernel
/-- file host state: "localhost" (any case), Windows drive letter; trimming and `\` in a special URL;
    missing host after credentials; opaque-path base with and without `#` -/
example : Impl.canParse stub .u8 (s "file://LocalHost/c|/x") none = true ∧
    show' (Impl.parse stub .u8 (s "file://LocalHost/c|/x") none) = some "file:///c:/x" := by
  decide +kernel
example : Impl.canParse stub .u8 (s "  HtTp:\\\\h:65535\\x  ") none = true ∧
    show' (Impl.parse stub .u8 (s "  HtTp:\\\\h:65535\\x  ") none) = some "http://h:65535/x" := by
  decide +kernel
example : Impl.canParse stub .u8 (s "http://u@/") none = false ∧
    Impl.parse stub .u8 (s "http://u@/") none = none := by decide +kernel
example : Impl.canParse stub .u8 (s "#f") baseOpaque = true ∧
    show' (Impl.parse stub .u8 (s "#f") baseOpaque) = some "a:b#f" := by decide +kernel
example : Impl.canParse stub .u8 (s "x") baseOpaque = false ∧
    Impl.parse stub .u8 (s "x") baseOpaque = none := by decide +kernel

/-- `url::parse(str, base)` on any object (so also the throwing constructor, which is `parse` on a fresh
    object followed by `throw` when the result is not ok) returns ok, and leaves a valid object,
    exactly when `can_parse` says so.  `base` is absent or a valid object here; the invalid base
    object is `C09_invalid_base`. -/
theorem C09_agree_obj (idna : Idna) (o : Impl.UrlObj) (e : Enc) (units : List Nat) (base : Option Url) :
    (o.parse idna e units (base.map some)).2 = Impl.canParse idna e units base ∧
    (o.parse idna e units (base.map some)).1.url.isSome = Impl.canParse idna e units base := by
  have h := objParse_valid idna o e units base
  rw [C09_agree, h.1, h.2]
  exact ⟨rfl, rfl⟩

example : (({} : Impl.UrlObj).parse stub .u8 (s "//x") (baseHttp.map some)).2 = true ∧
    (({} : Impl.UrlObj).parse stub .u8 (s "http://h:99999/") ((none : Option Url).map some)).2 = false := by
  decide +kernel

/-- `can_parse` reads only the scheme and the opaque-path flag of the base URL.  (In the two-string
    overload `can_parse(str_url, str_base)`, url.h:244-251, the base object is itself produced by a
    `need_save() == false` run, which has saved exactly these: `save_scheme` and `set_has_opaque_path`
    in the scheme state, url.h:1650-1703, are not guarded by `need_save()`.) -/
theorem C09_base_key (idna : Idna) (e : Enc) (units : List Nat) (b : Url) :
    Impl.canParse idna e units (some { scheme := b.scheme, hasOpaquePath := b.hasOpaquePath }) =
      Impl.canParse idna e units (some b) :=
  canParse_baseKey idna e units b

example : baseHttp.map baseKey ≠ baseHttp ∧
    Impl.canParse stub .u8 (s "//x:1") (baseHttp.map baseKey) = true := by decide +kernel

/-! ## 3. invalid base object -/

theorem C09_invalid_base :
    ∀ (idna : Idna) (o : Impl.UrlObj) (e : Enc) (units : List Nat),
      ((o.parse idna e units (some none)).2 = false) ∧
      ((o.parse idna e units (some none)).1.url = none) :=
  fun _ _ _ _ => ⟨rfl, rfl⟩

/-- a valid object, a parsable absolute input: the invalid base alone makes it fail and invalidates
    the object; without a base the same call succeeds -/
example :
    let o : Impl.UrlObj := { url := baseHttp }
    o.url.isSome = true ∧
    (o.parse stub .u8 (s "http://h/") (some none)).2 = false ∧
    (o.parse stub .u8 (s "http://h/") (some none)).1.url = none ∧
    (o.parse stub .u8 (s "http://h/") none).2 = true := by decide +kernel

/-! ## 4. `can_parse` is static -/

/-- `Impl.canParse : Idna → Enc → List Nat → Option Url → Bool` has no object argument and no object
    result, so there is nothing an evaluation could change: any `UrlObj` paired with the evaluation
    is the `UrlObj` one started with.  (Trivial by the type of the model; stated for the record.  The
    content-bearing statement about objects is `C09_agree_obj`: the verdict equals that of `parse`
    on every object.) -/
theorem C09_pure (o : Impl.UrlObj) (idna : Idna) (e : Enc) (units : List Nat) (base : Option Url) :
    ((fun o' : Impl.UrlObj => (o', Impl.canParse idna e units base)) o).1 = o := rfl

end Upa.Props

#print axioms Upa.Props.C09_tail_total
#print axioms Upa.Props.C09_agree
#print axioms Upa.Props.C09_agree_obj
#print axioms Upa.Props.C09_base_key
#print axioms Upa.Props.C09_invalid_base
#print axioms Upa.Props.C09_pure
