import Upa.Props.C01b
import Upa.Props.C05e
import Upa.Spec.Serializer
/-
  C01 — the observable values.  `C01_parse_conforms` gives equality of the URL RECORD with the
  Standard's parser; this file closes the step from the record to what the property names: href,
  origin, protocol, username, password, host, hostname, port, pathname, search, hash as the library's
  getters compute them (`Impl/Api.lean`, mirrors of the C++ getters over the record; over the stored
  representation by C05) equal the Standard's URL serializer (§4.5), origin (§4.7 + HTML's
  serialization of an origin) and the getter steps of the URL class (§6.1), transcribed separately in
  `Spec/Serializer.lean`.
-/
namespace Upa.Props
open Upa

private theorem foldl_path (p : List (List Nat)) (acc : List Nat) :
    p.foldl (fun out seg => out ++ 0x2F :: seg) acc = acc ++ p.flatMap (fun seg => 0x2F :: seg) := by
  induction p generalizing acc with
  | nil => simp
  | cons s r ih => simp [List.foldl_cons, ih, List.flatMap_cons, List.append_assoc]

theorem C01_pathname (u : Url) : Impl.pathText u = Spec.getPathname u := by
  unfold Impl.pathText Spec.getPathname Spec.urlPathSerialize
  split
  · rfl
  · rw [foldl_path]; simp

/-- the library's serializer is the Standard's URL serializer, with and without fragment -/
theorem C01_href (u : Url) (ex : Bool) : Impl.serialize u ex = Spec.urlSerialize u ex := by
  have hp := C01_pathname u
  unfold Spec.getPathname at hp
  unfold Impl.serialize Spec.urlSerialize
  simp only [← hp]
  have hpre : (if Impl.needsPathPrefix u then [0x2F, 0x2E] else ([] : List Nat)) =
      if u.host.isNone ∧ ¬ u.hasOpaquePath ∧ u.path.length > 1 ∧ u.path.head? = some [] then [0x2F, 0x2E] else [] := by
    unfold Impl.needsPathPrefix
    by_cases h1 : u.host.isNone <;> by_cases h2 : u.hasOpaquePath <;> by_cases h3 : u.path.length > 1 <;>
      by_cases h4 : u.path.head? = some [] <;> simp [h1, h2, h3, h4]
  have hcred : u.hasCredentials = Spec.includesCredentials u := by
    unfold Url.hasCredentials Spec.includesCredentials
    by_cases h1 : u.username = [] <;> by_cases h2 : u.password = [] <;> simp [h1, h2]
  rw [hpre, hcred]
  cases hh : u.host <;> cases hq : u.query <;> cases hf : u.fragment <;> cases hport : u.port <;> cases ex <;>
    simp [List.append_assoc] <;> (repeat' split) <;> simp_all [List.append_assoc]

theorem C01_getters (u : Url) :
    Impl.serialize u = Spec.getHref u ∧ Impl.getProtocol u = Spec.getProtocol u ∧
    Impl.getHost u = Spec.getHost u ∧ Impl.getHostname u = Spec.getHostname u ∧ Impl.getPort u = Spec.getPort u ∧
    Impl.pathText u = Spec.getPathname u ∧ Impl.getSearch u = Spec.getSearch u ∧ Impl.getHash u = Spec.getHash u := by
  refine ⟨C01_href u false, rfl, ?_, ?_, ?_, C01_pathname u, ?_, ?_⟩
  · unfold Impl.getHost Spec.getHost; cases u.host <;> cases u.port <;> simp
  · unfold Impl.getHostname Spec.getHostname Url.hostText; cases u.host <;> rfl
  · unfold Impl.getPort Spec.getPort; cases u.port <;> rfl
  · unfold Impl.getSearch Spec.getSearch
    cases u.query with
    | none => rfl
    | some q => cases q <;> simp
  · unfold Impl.getHash Spec.getHash
    cases u.fragment with
    | none => rfl
    | some q => cases q <;> simp

private theorem five_schemes (s : List Nat) :
    (s = asciiStr "ftp" ∨ s = asciiStr "http" ∨ s = asciiStr "https" ∨ s = asciiStr "ws" ∨ s = asciiStr "wss") ↔
    (Impl.isSpecialScheme s = true ∧ Impl.isFileScheme s = false) := by
  constructor
  · intro h; rcases h with rfl | rfl | rfl | rfl | rfl <;> decide
  · unfold Impl.isSpecialScheme Impl.isFileScheme
    simp only [Bool.or_eq_true, beq_iff_eq, Impl.sWs, Impl.sWss, Impl.sFtp, Impl.sHttp, Impl.sFile, Impl.sHttps]
    intro ⟨h, hf⟩
    rcases h with ((((h | h) | h) | h) | h) | h
    · exact .inr (.inr (.inr (.inl h)))
    · exact .inr (.inr (.inr (.inr h)))
    · exact .inl h
    · exact .inr (.inl h)
    · subst h; simp at hf
    · exact .inr (.inr (.inl h))

/-- origin of a URL whose scheme is not "blob": the library's two-way test (special and not file) is the
    Standard's list of five schemes -/
theorem C01_origin_nonblob (u : Url) (hw : u.host = none → u.port = none) :
    (if u.isSpecial then (if u.isFile then Impl.sNull else u.scheme ++ [0x3A, 0x2F, 0x2F] ++ Impl.getHost u) else Impl.sNull) =
    Spec.originSerialize (Spec.originNonBlob u) := by
  have hg : Impl.getHost u = (match u.host with | some h => h.text | none => []) ++
      (match u.port with | some p => 0x3A :: toDecimal p | none => []) := by
    unfold Impl.getHost
    cases hh : u.host with
    | none => simp [hw hh]
    | some x => cases u.port <;> simp
  unfold Spec.originNonBlob
  have h5 := five_schemes u.scheme
  by_cases hc : (u.scheme = asciiStr "ftp" ∨ u.scheme = asciiStr "http" ∨ u.scheme = asciiStr "https" ∨ u.scheme = asciiStr "ws" ∨ u.scheme = asciiStr "wss")
  · have ⟨a, b⟩ := h5.mp hc
    simp only [Url.isSpecial, Url.isFile, a, b, if_pos hc, Spec.originSerialize, hg]
    simp [List.append_assoc]
    try rfl
  · rw [if_neg hc]
    have hn : ¬ (Impl.isSpecialScheme u.scheme = true ∧ Impl.isFileScheme u.scheme = false) := fun h => hc (h5.mpr h)
    simp only [Url.isSpecial, Url.isFile, Spec.originSerialize, Impl.sNull]
    by_cases a : Impl.isSpecialScheme u.scheme = true
    · have b : Impl.isFileScheme u.scheme = true := by
        cases hb : Impl.isFileScheme u.scheme with
        | true => rfl
        | false => exact absurd ⟨a, hb⟩ hn
      simp [a, b]
    · simp [a]

/-- **origin** (§4.7 + HTML's serialization): the library's `origin()` is the Standard's, for every URL record
    whose path text is a byte string (every canonical URL: C08), under the IDNA hypotheses of C01 (the blob
    branch parses the path as a URL) -/
theorem C01_origin (idna : Idna) (h : IdnaOk idna) (hs : Proofs.C02b.IdnaStable idna) (u : Url)
    (hw : u.host = none → u.port = none) (hp : ∀ x ∈ Impl.pathText u, x < 256) :
    Impl.origin idna u = Spec.getOrigin idna u := by
  unfold Impl.origin Spec.getOrigin Spec.origin
  by_cases hb : u.scheme = asciiStr "blob"
  · have hns : u.isSpecial = false := by unfold Url.isSpecial; rw [hb]; decide
    have hpn : Spec.urlPathSerialize u = Impl.pathText u := (C01_pathname u).symm
    rw [hpn]
    simp only [hns, Impl.sBlob, hb, if_true, Bool.false_eq_true, if_false]
    rw [← C01_parse_conforms idna h .u8 (Impl.pathText u) none hp]
    cases hpu : Impl.parse idna .u8 (Impl.pathText u) none with
    | none => simp [Spec.originSerialize, Impl.sNull]
    | some pu =>
      have hwf : pu.host = none → pu.port = none := fun hn =>
        ((C05e_parse_repok idna hs .u8 (Impl.pathText u) none pu (.inl rfl) hpu).1.1.2 hn).2.2
      simp only [Impl.sHttp, Impl.sHttps]
      by_cases h1 : pu.scheme = asciiStr "http"
      · have := C01_origin_nonblob pu hwf
        have hs : pu.isSpecial = true := by unfold Url.isSpecial; rw [h1]; decide
        have hf : pu.isFile = false := by unfold Url.isFile; rw [h1]; decide
        simp [h1, hs, hf] at this ⊢
        try (rw [← this])
        try simp [h1]
      · by_cases h2 : pu.scheme = asciiStr "https"
        · have := C01_origin_nonblob pu hwf
          have hs : pu.isSpecial = true := by unfold Url.isSpecial; rw [h2]; decide
          have hf : pu.isFile = false := by unfold Url.isFile; rw [h2]; decide
          simp [h2, hs, hf] at this ⊢
          try (rw [← this])
          try simp [h2]
        · by_cases h3 : pu.scheme = asciiStr "file"
          · have := C01_origin_nonblob pu hwf
            have hs : pu.isSpecial = true := by unfold Url.isSpecial; rw [h3]; decide
            have hf : pu.isFile = true := by unfold Url.isFile; rw [h3]; decide
            have e : ¬(asciiStr "file" = asciiStr "http" ∨ asciiStr "file" = asciiStr "https") := by decide
            simp [h3, hs, hf, e] at this ⊢
            exact this
          · simp [h1, h2, h3, Spec.originSerialize, Impl.sNull]
  · have hb' : ¬ u.scheme = Impl.sBlob := hb
    simp only [hb, hb', if_false]
    exact C01_origin_nonblob u hw

/-- the statement of C01 for the observable values: when parsing succeeds, every getter of the result equals the
    Standard's getter of the Standard's parse result -/
theorem C01_observables (idna : Idna) (h : IdnaOk idna) (hs : Proofs.C02b.IdnaStable idna) (e : Enc) (units : List Nat) (base : Option Url)
    (hu : UnitsOk e units) :
    (Impl.parse idna e units base).isSome = (Spec.apiParse idna e units base).isSome ∧
    ∀ u, Impl.parse idna e units base = some u → ∃ u', Spec.apiParse idna e units base = some u' ∧
      Impl.serialize u = Spec.getHref u' ∧ Impl.getProtocol u = Spec.getProtocol u' ∧ u.username = Spec.getUsername u' ∧
      u.password = Spec.getPassword u' ∧ Impl.getHost u = Spec.getHost u' ∧ Impl.getHostname u = Spec.getHostname u' ∧
      Impl.getPort u = Spec.getPort u' ∧ Impl.pathText u = Spec.getPathname u' ∧ Impl.getSearch u = Spec.getSearch u' ∧
      Impl.getHash u = Spec.getHash u' ∧
      ((u.host = none → u.port = none) → (∀ x ∈ Impl.pathText u, x < 256) → Impl.origin idna u = Spec.getOrigin idna u') := by
  rw [C01_parse_conforms idna h e units base hu]
  refine ⟨rfl, fun u hu' => ⟨u, hu', ?_⟩⟩
  obtain ⟨a, b, c, d, e', f, g, i⟩ := C01_getters u
  exact ⟨a, b, rfl, rfl, c, d, e', f, g, i, C01_origin idna h hs u⟩

example : Impl.origin (fun l => some l) ⟨asciiStr "blob", [], [], none, none, true, asciiStr "https://h:8/x", [], none, none⟩ =
    asciiStr "https://h:8" := by decide +kernel
example : Spec.getHref ⟨asciiStr "a", [], [], none, none, false, [], [[], asciiStr "x"], some [], some []⟩ = asciiStr "a:/.//x?#" := by decide

#print axioms C01_pathname
#print axioms C01_href
#print axioms C01_getters
#print axioms C01_origin_nonblob
#print axioms C01_origin
#print axioms C01_observables
end Upa.Props
