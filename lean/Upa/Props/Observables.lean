import Upa.Proofs.Observables
import Upa.Props.C01c
import Upa.Props.C02b
import Upa.Props.C03b
import Upa.Props.C05g
import Upa.Props.C08
import Upa.Props.C09
/-
  The properties C02, C03, C05, C08, C09 stated over the STANDARD's observable values.

  `Upa/Spec/Serializer.lean` transcribes the URL Standard's serializer (§4.5), origin (§4.7) and the getter
  steps of the URL class (§6.1); `Props/C01c.lean` proves that the library's record-level getters equal them
  (`C01_href`, `C01_getters`, `C01_origin`).  The property theorems of C02 / C03 / C05 / C08 / C09 are
  stated with the library's own serializer and getters (`Impl.serialize`, `Impl.getHost`, …) or over
  records; here they are restated, as corollaries, with `Spec.urlSerialize`, `Spec.getHref`, … ,
  `Spec.getOrigin`, `Spec.apiParse`, `Spec.apiSet` in their place.

  Bridges used:  `C01_parse_conforms` (Impl.parse = Spec.apiParse, under `IdnaOk` and `UnitsOk`),
  `C03_setter_conforms` (setValid = Spec.apiSet), `C01_getters` / `C01_href` / `C01_origin`.
  Helper lemmas: Upa/Proofs/Observables.lean (namespace Upa.Proofs.Obs).
-/
namespace Upa.Props
open Upa
open Upa.Proofs.C02b (IdnaStable sampleIdna_stable)
open Upa.Proofs.C08 (IdnaCanon sampleIdna sampleIdna_canon)
open Upa.Proofs.C03 (RecOk RecInv IdnaNonEmpty sampleIdna_ok)
open Upa.Proofs.C05 (RecWF)
open Upa.Proofs.ObjRep

/-! ## 0. what "the observable values agree" means -/

private theorem u8ok (l : List Nat) (h : ∀ x ∈ l, x < 256) : UnitsOk .u8 l := h
private theorem u16ok (l : List Nat) (h : ∀ x ∈ l, x < 65536) : UnitsOk .u16 l := h

/-- the ten getters of the library on the record `v` (href, protocol, username, password, host, hostname,
    port, pathname, search, hash) return what the Standard's getter steps (§6.1) return on `v'` -/
def GettersAre (v v' : Url) : Prop :=
  Impl.serialize v = Spec.getHref v' ∧ Impl.getProtocol v = Spec.getProtocol v' ∧
  v.username = Spec.getUsername v' ∧ v.password = Spec.getPassword v' ∧
  Impl.getHost v = Spec.getHost v' ∧ Impl.getHostname v = Spec.getHostname v' ∧
  Impl.getPort v = Spec.getPort v' ∧ Impl.pathText v = Spec.getPathname v' ∧
  Impl.getSearch v = Spec.getSearch v' ∧ Impl.getHash v = Spec.getHash v'

/-- all eleven observable values: the ten getters and `origin` (§4.7 + HTML's serialization of an origin) -/
def ObservablesAre (idna : Idna) (v v' : Url) : Prop :=
  GettersAre v v' ∧ Impl.origin idna v = Spec.getOrigin idna v'

/-- the OFFSET-BASED getters of a stored representation `r` (one string + 11 part end offsets + flags;
    `Impl/Rep.lean`, url.h:1110-1290) return what the Standard's getter steps return on the record `u`;
    `serialize(exclude_fragment = true)` is the Standard's serializer with the exclude-fragment flag, and
    `path()` is pathname plus `?query` when the query is non-null -/
def RepGettersAre (r : Impl.Rep) (u : Url) : Prop :=
  r.href = Spec.getHref u ∧ r.protocol = Spec.getProtocol u ∧
  r.username = Spec.getUsername u ∧ r.password = Spec.getPassword u ∧
  r.host = Spec.getHost u ∧ r.hostname = Spec.getHostname u ∧
  r.port = Spec.getPort u ∧ r.pathname = Spec.getPathname u ∧
  r.search = Spec.getSearch u ∧ r.hash = Spec.getHash u ∧
  r.href = Spec.urlSerialize u false ∧ r.serializeNoFragment = Spec.urlSerialize u true ∧
  r.path = Spec.getPathname u ++ (match u.query with | some q => 0x3F :: q | none => [])

/-- `C01_getters` in this vocabulary: on one and the same record the library's getters are the Standard's -/
theorem C01_getters_are (u : Url) : GettersAre u u := by
  obtain ⟨a, b, c, d, e, f, g, i⟩ := C01_getters u
  exact ⟨a, b, rfl, rfl, c, d, e, f, g, i⟩

example : GettersAre c02Full c02Full := C01_getters_are _

/-- **C01, the observable values, without side conditions**: whatever the library's parser returns for any input in any
    encoding — with no base or against a canonical base — ALL ELEVEN values the property names (href, origin, protocol,
    username, password, host, hostname, port, pathname, search, hash) as the library's getters compute them are the
    Standard's serializer / origin / getter steps on the Standard's parse result (the two side conditions of `C01_origin`
    are discharged by `C08_parse_canon`) -/
theorem C01_observables_parsed (idna : Idna) (h : IdnaOk idna) (hs : IdnaStable idna) (e : Enc) (units : List Nat)
    (base : Option Url) (hu : UnitsOk e units) (hb : base = none ∨ ∃ b, base = some b ∧ Impl.Canon b = true) :
    (Impl.parse idna e units base).isSome = (Spec.apiParse idna e units base).isSome ∧
    ∀ u, Impl.parse idna e units base = some u →
      ∃ u', Spec.apiParse idna e units base = some u' ∧ ObservablesAre idna u u' := by
  obtain ⟨h1, h2⟩ := C01_observables idna h hs e units base hu
  refine ⟨h1, fun u hp => ?_⟩
  obtain ⟨u', hu', a, b, c, d, e', f, g, i, j, k, ho⟩ := h2 u hp
  have hc := C08_parse_canon idna hs.canon e units base u hb hp
  obtain ⟨w1, w2⟩ := Proofs.Obs.canon_origin_hyps hc
  exact ⟨u', hu', ⟨a, b, c, d, e', f, g, i, j, k⟩, ho w1 w2⟩

example : (∃ b, (some c02Full : Option Url) = some b ∧ Impl.Canon b = true) := ⟨c02Full, rfl, by decide⟩

/-- **C05, equality and hash**: `operator==` compares the stored serializations and `std::hash<url>` hashes it
    (url.h: `norm_url_`); on URLs in normal form the serializer is INJECTIVE, so two valid objects compare equal
    (and hash equally) exactly when their records — every component, every null / empty status, host type, path
    kind — are equal.  (Corollary of C02: a normal-form URL is recovered from its href by the parser.) -/
theorem C05_eq_iff_record (idna : Idna) (u v : Url) (hu : Norm idna u) (hv : Norm idna v) :
    Impl.serialize u = Impl.serialize v ↔ u = v := by
  constructor
  · intro h
    have a := C02_reparse idna u hu none (.inl rfl)
    have b := C02_reparse idna v hv none (.inl rfl)
    rw [h] at a
    exact Option.some.inj (a.symm.trans b)
  · intro h; rw [h]

/-- the same over stored representations: two representations of normal-form records have equal strings (what
    `operator==` and `std::hash` read) exactly when they represent the same record -/
theorem C05_eq_iff_record_rep (idna : Idna) (u v : Url) (hu : Norm idna u) (hv : Norm idna v) :
    (Impl.layout u).norm = (Impl.layout v).norm ↔ u = v := by
  rw [C05_layout_href, C05_layout_href]; exact C05_eq_iff_record idna u v hu hv
example : Spec.getHref c02Full = asciiStr "https://user:pw@example.org:8080/a/b?q=1#frag" ∧
    Spec.getHost c02Full = asciiStr "example.org:8080" ∧ Spec.getSearch c02Full = asciiStr "?q=1" ∧
    Spec.getOrigin sampleIdna c02Full = asciiStr "https://example.org:8080" := by decide +kernel

/-! ## 1. C02 — serialise with the Standard's serializer, parse with the Standard's parser -/

/-- the href of a normal-form URL is a byte string (in fact 0x20..0x7E): `UnitsOk` of the bridge holds -/
theorem C02_href_units (idna : Idna) (u : Url) (hn : Norm idna u) : UnitsOk .u8 (Spec.getHref u) := by
  rw [← (C01_getters u).1]
  intro x hx
  have := Proofs.Obs.normP_serialize_ascii hn.toNormP x hx
  omega

/-- **C02** over the Standard: a URL record in normal form is reproduced by the Standard's URL serializer
    followed by the Standard's parser, whatever the base.
    `IdnaOk idna` is the hypothesis of the bridge `C01_parse_conforms` (`Impl.parse = Spec.apiParse`). -/
theorem C02_reparse_spec :
    ∀ idna, IdnaOk idna → ∀ u : Url, Norm idna u →
      ∀ base : Option Url, Spec.apiParse idna .u8 (Spec.getHref u) base = some u := by
  intro idna h u hn base
  rw [← C01_parse_conforms idna h .u8 (Spec.getHref u) base (C02_href_units idna u hn), ← (C01_getters u).1]
  exact C02_reparse idna u hn base (by cases base <;> simp)

-- hypotheses satisfiable: the sample IDNA function, records of every shape (C02.lean)
example : IdnaOk sampleIdna ∧ Norm sampleIdna c02Full ∧ Norm sampleIdna c02Guard ∧ Norm sampleIdna c02Opaque :=
  ⟨sampleIdna_ok, by decide +kernel, by decide +kernel, by decide +kernel⟩
example : Spec.getHref c02Guard = asciiStr "a:/.//x" ∧ Spec.getHref c02Opaque = asciiStr "mailto:x@y z ?" := by
  decide +kernel
-- an instance of the theorem (against a file base)
example : Spec.apiParse sampleIdna .u8 (Spec.getHref c02Guard) (some c02BaseFile) = some c02Guard :=
  C02_reparse_spec sampleIdna sampleIdna_ok c02Guard (by decide +kernel) _

/-- hence all observable values of the re-parsed URL are those of the URL -/
theorem C02_reparse_spec_href :
    ∀ idna, IdnaOk idna → ∀ u : Url, Norm idna u → ∀ base : Option Url,
      (Spec.apiParse idna .u8 (Spec.getHref u) base).map Spec.getHref = some (Spec.getHref u) := by
  intro idna h u hn base
  rw [C02_reparse_spec idna h u hn base]; rfl

example : (Spec.apiParse sampleIdna .u8 (Spec.getHref c02Opq) none).map Spec.getHref = some (asciiStr "git://u@H%41:0?#") :=
  (C02_reparse_spec_href sampleIdna sampleIdna_ok c02Opq (by decide +kernel) none).trans (by decide +kernel)

/-- **C02, parsed URLs**: whatever the Standard's parser returns — any input in any encoding, no base or a
    normal-form base — re-parses, through the Standard's serializer and the Standard's parser, with no
    base or against any base, to itself.  (`Norm` appears only as the condition on the base.) -/
theorem C02_reparse_parsed_spec :
    ∀ idna, IdnaOk idna → IdnaStable idna → ∀ (e : Enc) (units : List Nat) (base : Option Url) (u : Url),
      UnitsOk e units → (base = none ∨ ∃ b, base = some b ∧ Norm idna b) →
      Spec.apiParse idna e units base = some u →
      ∀ base' : Option Url, Spec.apiParse idna .u8 (Spec.getHref u) base' = some u := by
  intro idna h hs e units base u hu hb hp base'
  rw [← C01_parse_conforms idna h e units base hu] at hp
  exact C02_reparse_spec idna h u (C02_parse_norm idna hs e units base u hb hp) base'

example : IdnaOk sampleIdna ∧ IdnaStable sampleIdna ∧ UnitsOk .u8 c02bInput :=
  ⟨sampleIdna_ok, sampleIdna_stable, u8ok _ (by decide +kernel)⟩
-- an instance: input " HTTP://EXA\tMPLE.com:80/a/../%2e/b c/.?q'#f g ", second parse against an opaque-path base
example : ∀ u, Spec.apiParse sampleIdna .u8 c02bInput none = some u →
    Spec.apiParse sampleIdna .u8 (Spec.getHref u) (some c02BaseOpaque) = some u :=
  fun u hp => C02_reparse_parsed_spec sampleIdna sampleIdna_ok sampleIdna_stable .u8 c02bInput none u
    (u8ok _ (by decide +kernel)) (Or.inl rfl) hp _

/-- what the Standard's parser can return, starting without a base and using earlier results as bases -/
inductive SpecParsed (idna : Idna) : Url → Prop
  | nobase (e : Enc) (units : List Nat) (u : Url) :
      UnitsOk e units → Spec.apiParse idna e units none = some u → SpecParsed idna u
  | base (e : Enc) (units : List Nat) (b u : Url) :
      SpecParsed idna b → UnitsOk e units → Spec.apiParse idna e units (some b) = some u → SpecParsed idna u

theorem SpecParsed.norm {idna : Idna} (h : IdnaOk idna) (hs : IdnaStable idna) {u : Url}
    (hp : SpecParsed idna u) : Norm idna u := by
  induction hp with
  | nobase e units u hu hp =>
    rw [← C01_parse_conforms idna h e units none hu] at hp
    exact C02_parse_norm idna hs e units none u (Or.inl rfl) hp
  | base e units b u _ hu hp ih =>
    rw [← C01_parse_conforms idna h e units (some b) hu] at hp
    exact C02_parse_norm idna hs e units (some b) u (Or.inr ⟨b, rfl, ih⟩) hp

/-- **C02 with no `Impl` definition and no `Norm` in the statement**: every URL obtained from the Standard's
    parser (bases being earlier results) re-parses from the Standard's serialization to itself, with no
    base or against any base whatsoever. -/
theorem C02_reparse_parsed_spec_closed :
    ∀ idna, IdnaOk idna → IdnaStable idna → ∀ u : Url, SpecParsed idna u →
      ∀ base' : Option Url, Spec.apiParse idna .u8 (Spec.getHref u) base' = some u :=
  fun idna h hs u hp base' => C02_reparse_spec idna h u (hp.norm h hs) base'

example : ∀ b u, Spec.apiParse sampleIdna .u8 c02bInput none = some b →
    Spec.apiParse sampleIdna .u16 c02bRel (some b) = some u →
    Spec.apiParse sampleIdna .u8 (Spec.getHref u) (some b) = some u :=
  fun b u hb hu => C02_reparse_parsed_spec_closed sampleIdna sampleIdna_ok sampleIdna_stable u
    (.base .u16 c02bRel b u (.nobase .u8 c02bInput b (u8ok _ (by decide +kernel)) hb) (u16ok _ (by decide +kernel)) hu) _

/-! ## 2. C03 — the observable values after a setter are the Standard's getters of the Standard's setter -/

/-- **C03, one call**, under the hypotheses of `C03_setter_conforms` (`IdnaOk`, `UnitsOk`, `RecOk`):
    the ten getters after `Impl.setValid` return the Standard's getter steps of `Spec.apiSet …`; so does
    `origin`, for a result record with "null host ⇒ null port" and a byte-string path (the hypotheses of
    `C01_origin`; `IdnaStable` is its IDNA hypothesis: the blob branch parses the path as a URL). -/
theorem C03_setter_observables :
    ∀ idna, IdnaOk idna → IdnaStable idna → ∀ (s : Impl.Setter) (e : Enc) (units : List Nat) (u : Url),
      UnitsOk e units → RecOk u = true →
      GettersAre (Impl.setValid idna s e units u).1 (Spec.apiSet idna s e units u) ∧
      (((Impl.setValid idna s e units u).1.host = none → (Impl.setValid idna s e units u).1.port = none) →
        (∀ x ∈ Impl.pathText (Impl.setValid idna s e units u).1, x < 256) →
        Impl.origin idna (Impl.setValid idna s e units u).1 = Spec.getOrigin idna (Spec.apiSet idna s e units u)) := by
  intro idna h hs s e units u hu hok
  rw [← C03_setter_conforms idna h s e units u hu hok]
  exact ⟨C01_getters_are _, C01_origin idna h hs _⟩

/-- **C03, one call on a canonical record** (C08: every URL the parser and the setters produce): all
    eleven observable values, unconditionally -/
theorem C03_setter_observables_canon :
    ∀ idna, IdnaOk idna → IdnaStable idna → ∀ (s : Impl.Setter) (e : Enc) (units : List Nat) (u : Url),
      UnitsOk e units → Impl.Canon u = true →
      ObservablesAre idna (Impl.setValid idna s e units u).1 (Spec.apiSet idna s e units u) := by
  intro idna h hs s e units u hu hc
  obtain ⟨hg, ho⟩ := C03_setter_observables idna h hs s e units u hu (C03_canon_recok u hc)
  obtain ⟨hw, hp⟩ := Proofs.Obs.canon_origin_hyps (C08_set_canon idna hs.canon s e units u hc)
  exact ⟨hg, ho hw hp⟩

example : IdnaOk sampleIdna ∧ IdnaStable sampleIdna ∧ UnitsOk .u8 (asciiStr "x.y:443") ∧ RecOk c03Start = true ∧
    Impl.Canon c03Start = true := ⟨sampleIdna_ok, sampleIdna_stable, u8ok _ (by decide +kernel), by decide +kernel, by decide +kernel⟩
-- host := "x.y:443" on "http://u:p@h:81/a/b?q#f": the Standard's getters of the Standard's setter result
example : Spec.getHref (Spec.apiSet sampleIdna .host .u8 (asciiStr "x.y:443") c03Start) = asciiStr "http://u:p@x.y:443/a/b?q#f" ∧
    Spec.getHost (Spec.apiSet sampleIdna .host .u8 (asciiStr "x.y:443") c03Start) = asciiStr "x.y:443" ∧
    Spec.getOrigin sampleIdna (Spec.apiSet sampleIdna .host .u8 (asciiStr "x.y:443") c03Start) = asciiStr "http://x.y:443" := by
  obtain ⟨⟨a, _, _, _, b, _⟩, c⟩ := C03_setter_observables_canon sampleIdna sampleIdna_ok sampleIdna_stable .host .u8
    (asciiStr "x.y:443") c03Start (u8ok _ (by decide +kernel)) (by decide +kernel)
  rw [← a, ← b, ← c]
  decide +kernel

/-- the setters keep a canonical record canonical along a call sequence -/
theorem C08_history_canon :
    ∀ idna, IdnaCanon idna → ∀ (calls : List (Impl.Setter × Enc × List Nat)) (u : Url), Impl.Canon u = true →
      Impl.Canon (calls.foldl (fun u c => (Impl.setValid idna c.1 c.2.1 c.2.2 u).1) u) = true := by
  intro idna hi calls
  induction calls with
  | nil => exact fun u h => h
  | cons c cs ih => exact fun u h => ih _ (C08_set_canon idna hi c.1 c.2.1 c.2.2 u h)

/-- **C03, histories** (`C03_history_partial`: `RecInv` start record, `IdnaNonEmpty`): after every sequence
    of setter calls the ten getters return the Standard's getter steps of the record the Standard's
    setters leave; `origin` under the two side conditions of `C01_origin` on the final record -/
theorem C03_history_observables_partial :
    ∀ idna, IdnaOk idna → IdnaStable idna → ∀ (calls : List (Impl.Setter × Enc × List Nat)) (u : Url),
      (∀ c ∈ calls, UnitsOk c.2.1 c.2.2) → RecInv u = true →
      GettersAre (calls.foldl (fun u c => (Impl.setValid idna c.1 c.2.1 c.2.2 u).1) u)
        (calls.foldl (fun u c => Spec.apiSet idna c.1 c.2.1 c.2.2 u) u) ∧
      (((calls.foldl (fun u c => (Impl.setValid idna c.1 c.2.1 c.2.2 u).1) u).host = none →
          (calls.foldl (fun u c => (Impl.setValid idna c.1 c.2.1 c.2.2 u).1) u).port = none) →
        (∀ x ∈ Impl.pathText (calls.foldl (fun u c => (Impl.setValid idna c.1 c.2.1 c.2.2 u).1) u), x < 256) →
        Impl.origin idna (calls.foldl (fun u c => (Impl.setValid idna c.1 c.2.1 c.2.2 u).1) u) =
          Spec.getOrigin idna (calls.foldl (fun u c => Spec.apiSet idna c.1 c.2.1 c.2.2 u) u)) := by
  intro idna h hs calls u hu hinv
  rw [← C03_history_partial idna h (Proofs.C03.IdnaNonEmpty.of_canon hs.canon) calls u hu hinv]
  exact ⟨C01_getters_are _, C01_origin idna h hs _⟩

/-- **C03, histories from a canonical record**: all eleven observable values, unconditionally -/
theorem C03_history_observables :
    ∀ idna, IdnaOk idna → IdnaStable idna → ∀ (calls : List (Impl.Setter × Enc × List Nat)) (u : Url),
      (∀ c ∈ calls, UnitsOk c.2.1 c.2.2) → Impl.Canon u = true →
      ObservablesAre idna (calls.foldl (fun u c => (Impl.setValid idna c.1 c.2.1 c.2.2 u).1) u)
        (calls.foldl (fun u c => Spec.apiSet idna c.1 c.2.1 c.2.2 u) u) := by
  intro idna h hs calls u hu hc
  obtain ⟨hg, ho⟩ := C03_history_observables_partial idna h hs calls u hu (C03_canon_recinv u hc)
  obtain ⟨hw, hp⟩ := Proofs.Obs.canon_origin_hyps (C08_history_canon idna hs.canon calls u hc)
  exact ⟨hg, ho hw hp⟩

/-- **C03, histories from a parsed URL**: the start URL is whatever the Standard's parser returns -/
theorem C03_history_observables_parsed :
    ∀ idna, IdnaOk idna → IdnaStable idna → ∀ (e0 : Enc) (units0 : List Nat) (u : Url),
      UnitsOk e0 units0 → Spec.apiParse idna e0 units0 none = some u →
      ∀ calls : List (Impl.Setter × Enc × List Nat), (∀ c ∈ calls, UnitsOk c.2.1 c.2.2) →
      ObservablesAre idna (calls.foldl (fun u c => (Impl.setValid idna c.1 c.2.1 c.2.2 u).1) u)
        (calls.foldl (fun u c => Spec.apiSet idna c.1 c.2.1 c.2.2 u) u) := by
  intro idna h hs e0 units0 u hu0 hp calls hu
  rw [← C01_parse_conforms idna h e0 units0 none hu0] at hp
  exact C03_history_observables idna h hs calls u hu (C08_parse_canon idna hs.canon e0 units0 none u (Or.inl rfl) hp)

-- the call sequence of C03b (protocol "https", host "x.y:443", port "", pathname "/../c d", search "?k=v w",
-- hash "", username "a b") on "http://u:p@h:81/a/b?q#f": hypotheses hold, and the Standard's observables
example : (∀ c ∈ c03Calls, UnitsOk c.2.1 c.2.2) ∧ Impl.Canon c03Start = true ∧ RecInv c03Start = true :=
  ⟨Proofs.C03.unitsOk_u8_calls _ (by decide +kernel), by decide +kernel, by decide +kernel⟩
example : Spec.getHref (c03Calls.foldl (fun u c => Spec.apiSet sampleIdna c.1 c.2.1 c.2.2 u) c03Start) =
      asciiStr "https://a%20b:p@x.y/c%20d?k=v%20w" ∧
    Spec.getOrigin sampleIdna (c03Calls.foldl (fun u c => Spec.apiSet sampleIdna c.1 c.2.1 c.2.2 u) c03Start) =
      asciiStr "https://x.y" := by
  obtain ⟨⟨a, _⟩, c⟩ := C03_history_observables sampleIdna sampleIdna_ok sampleIdna_stable c03Calls c03Start
    (Proofs.C03.unitsOk_u8_calls _ (by decide +kernel)) (by decide +kernel)
  rw [← a, ← c]
  decide +kernel

/-! ## 3. C05 — the offset-based getters of the stored representation are the Standard's getter steps -/

private theorem repGetters_of {r : Impl.Rep} {u : Url}
    (h : r.href = Impl.serialize u ∧ r.protocol = Impl.getProtocol u ∧ r.username = u.username ∧
      r.password = u.password ∧ r.host = Impl.getHost u ∧ r.hostname = Impl.getHostname u ∧
      r.port = Impl.getPort u ∧ r.pathname = Impl.pathText u ∧ r.path = Impl.getPath u ∧
      r.search = Impl.getSearch u ∧ r.hash = Impl.getHash u ∧ r.serializeNoFragment = Impl.serialize u true) :
    RepGettersAre r u := by
  obtain ⟨g1, g2, g3, g4, g5, g6, g7, g8, g9, g10, g11, g12⟩ := h
  obtain ⟨a, b, c, d, e, f, g, i⟩ := C01_getters u
  refine ⟨g1.trans a, g2.trans b, g3, g4, g5.trans c, g6.trans d, g7.trans e, g8.trans f, g10.trans g,
    g11.trans i, g1.trans (C01_href u false), g12.trans (C01_href u true), ?_⟩
  rw [g9, ← f]; rfl

/-- **C05, layout**: the getters computed from the offsets of the representation `url_serializer` lays out
    for the record `u` are the Standard's getter steps on `u`; `href` is `Spec.urlSerialize u false`,
    `serialize(true)` is `Spec.urlSerialize u true` -/
theorem C05_getters_spec : ∀ u : Url, RecWF u → RepGettersAre (Impl.layout u) u := fun u wf => by
  obtain ⟨c1, c2, c3, c4, c5, c6, c7, c8, c9, c10, c11⟩ := C05_getters u wf
  exact repGetters_of ⟨C05_layout_href u, c1, c2, c3, c4, c5, c6, c7, c8, c9, c10, c11⟩

/-- … and on ANY representation of `u` (two legal encodings of trailing offsets, C05b) -/
theorem C05b_getters_spec : ∀ (u : Url) (r : Impl.Rep), RecWF u → RepFor r u → RepGettersAre r u :=
  fun u r wf h => repGetters_of (C05b_getters u r wf h)

example : RecWF c05Full ∧ RecWF c05Prefix ∧ RepFor c05PrefixRep c05Prefix := by decide +kernel
example : (Impl.layout c05Prefix).href = asciiStr "a:/.//x" ∧ Spec.urlSerialize c05Prefix false = asciiStr "a:/.//x" ∧
    c05PrefixRep.pathname = asciiStr "//x" ∧ Spec.getPathname c05Prefix = asciiStr "//x" ∧
    (Impl.layout c05Full).serializeNoFragment = asciiStr "https://user:pw@example.org:8080/a/b?q=1" ∧
    Spec.urlSerialize c05Full true = asciiStr "https://user:pw@example.org:8080/a/b?q=1" ∧
    (Impl.layout c05Full).host = Spec.getHost c05Full := by decide +kernel
example : RepGettersAre c05PrefixRep c05Prefix := C05b_getters_spec _ _ (by decide +kernel) (by decide +kernel)

/-- **C05, objects**: in every reachable state (any history of operations on two objects from the two
    default-constructed ones, `C05g_history`) the representation-level object is valid exactly when the
    record-level object is, and the offset-based getters of a valid object's representation `r` are the
    Standard's getter steps of its record — the record `r.toRecord` read back from the representation,
    which is the record of the record-level model; under `IdnaOk`, `origin` of that record is the
    Standard's origin. -/
theorem C05g_getters_spec :
    ∀ (idna : Idna), IdnaStable idna → ∀ ops : List Impl.Op, (∀ op ∈ ops, op.WF) → ∀ k : Impl.Slot,
      (Impl.getSlot (Impl.runR idna ops ({}, {})) k).rep.isSome = (Impl.getSlot (Impl.runU idna ops ({}, {})) k).url.isSome ∧
      ∀ r, (Impl.getSlot (Impl.runR idna ops ({}, {})) k).rep = some r →
        (Impl.getSlot (Impl.runU idna ops ({}, {})) k).url = some r.toRecord ∧
        RepGettersAre r r.toRecord ∧
        (IdnaOk idna → Impl.origin idna r.toRecord = Spec.getOrigin idna r.toRecord) := by
  intro idna hi ops hops k
  have h := sim₂_get (C05g_history idna hi ops hops).1 k
  generalize Impl.getSlot (Impl.runR idna ops ({}, {})) k = ro at h
  generalize Impl.getSlot (Impl.runU idna ops ({}, {})) k = o at h
  refine ⟨h.2.2.isSome, fun r hr => ?_⟩
  have h3 := h.2.2
  rw [hr] at h3
  cases hu : o.url with
  | none => rw [hu] at h3; exact absurd h3 (by simp [RecSimS])
  | some u =>
    rw [hu] at h3
    obtain ⟨hrep, hg⟩ := h3
    obtain ⟨ok, _, sh, _⟩ := hg.ok
    have htr : r.toRecord = u := C05d_toRecord u r ok.1 sh hrep
    rw [htr]
    refine ⟨rfl, C05b_getters_spec u r ok.1 hrep, fun hok => ?_⟩
    have hx : NormX idna u := hg
    obtain ⟨_, _, _, _, _, _, _, _, _, _, _, hsegs, hopq, _, _⟩ := hx
    exact C01_origin idna hok hi u (fun hn => (ok.1.2 hn).2.2)
      (fun x hx => by have := Proofs.Obs.pathText_ascii hsegs hopq x hx; omega)

-- the hypotheses hold of the example history of C05g (twelve operations on two objects) …
example : IdnaStable sampleIdna ∧ (∀ op ∈ c05gHist, op.WF) ∧ IdnaOk sampleIdna :=
  ⟨sampleIdna_stable, by decide, sampleIdna_ok⟩
-- … slot 1 is valid at its end, and the theorem applies to its representation
example : ((Impl.getSlot (Impl.runR sampleIdna c05gHist ({}, {})) true).rep.map (·.norm)) =
    some (asciiStr "http://user@example.org:443/p/q?z=1#g") := by
  simp only [← runRK_eq]
  decide +kernel
example : ∀ r, (Impl.getSlot (Impl.runR sampleIdna c05gHist ({}, {})) true).rep = some r →
    RepGettersAre r r.toRecord ∧ Impl.origin sampleIdna r.toRecord = Spec.getOrigin sampleIdna r.toRecord :=
  fun r hr =>
    have h := (C05g_getters_spec sampleIdna sampleIdna_stable c05gHist (by decide) true).2 r hr
    ⟨h.2.1, h.2.2 sampleIdna_ok⟩

/-! ## 4. C08 — the canonical-form facts, over the Standard's serializer and getter steps -/

/-- **C08** over the Standard: for a canonical record (`Impl.Canon`; every URL the parser, the setters and
    the params write-back produce: `C08_parse_canon`, `C08_set_canon`, `C08_update_canon`) the Standard's
    serialization and getter values are delimiter-safe. -/
theorem C08_canon_spec : ∀ u : Url, Impl.Canon u = true →
    -- href, and serialize(exclude_fragment): printable ASCII, U+0020 possible only inside an opaque path
    (∀ (ex : Bool), ∀ c ∈ Spec.urlSerialize u ex,
      Impl.isPrintable c = true ∨ (c = 0x20 ∧ u.hasOpaquePath = true ∧ c ∈ Spec.getPathname u)) ∧
    (∀ c ∈ Spec.getHref u,
      Impl.isPrintable c = true ∨ (c = 0x20 ∧ u.hasOpaquePath = true ∧ c ∈ Spec.getPathname u)) ∧
    -- protocol: [a-z][a-z0-9+.-]* followed by ':'
    (∃ s, Spec.getProtocol u = s ++ [0x3A] ∧ Impl.schemeOk s = true) ∧
    -- username, password: printable, none of / : @ ? #
    Impl.userinfoOk (Spec.getUsername u) = true ∧ Impl.userinfoOk (Spec.getPassword u) = true ∧
    -- port: empty, or a decimal without leading zeros, at most 65535, not the scheme's default
    (Spec.getPort u = [] ∨ ∃ p, Spec.getPort u = toDecimal p ∧ p ≤ 65535 ∧ Impl.defaultPort u.scheme ≠ some p ∧
      (∀ c ∈ toDecimal p, isDigit c = true) ∧ toDecimal p ≠ [] ∧
      Impl.stripLeadingZeros (toDecimal p) = toDecimal p) ∧
    -- hostname: the serialized host, of the alphabet of its kind (`Impl.hostOk`); non-empty when special, not file
    (∀ h, u.host = some h → Spec.getHostname u = h.text ∧ Impl.hostOk h = true) ∧
    (u.isSpecial = true → u.isFile = false → Spec.getHostname u ≠ []) ∧
    -- no credentials, no port when the host is null or empty or the scheme is file
    ((Spec.getHostname u = [] ∨ u.isFile = true) →
      Spec.getUsername u = [] ∧ Spec.getPassword u = [] ∧ Spec.getPort u = []) ∧
    -- pathname: starts with '/' when special; no '?', no '#'
    (u.isSpecial = true → ∃ t, Spec.getPathname u = 0x2F :: t) ∧
    (∀ c ∈ Spec.getPathname u, c ≠ 0x3F ∧ c ≠ 0x23) ∧
    -- search: printable (so no space), no '#', no apostrophe when special;  hash: printable
    (∀ c ∈ Spec.getSearch u, Impl.isPrintable c = true ∧ c ≠ 0x23 ∧ (u.isSpecial = true → c ≠ 0x27)) ∧
    (∀ c ∈ Spec.getHash u, Impl.isPrintable c = true) := by
  intro u h
  obtain ⟨ha, hp, hq, hf⟩ := (Proofs.C08.canon_iff u).1 h
  have hser : ∀ (ex : Bool), ∀ c ∈ Spec.urlSerialize u ex,
      Impl.isPrintable c = true ∨ (c = 0x20 ∧ u.hasOpaquePath = true ∧ c ∈ Spec.getPathname u) := by
    intro ex c hc
    rw [← C01_href u ex] at hc
    rw [← C01_pathname u]
    exact Proofs.Obs.canon_serialize h ex c hc
  have hhn : Spec.getHostname u = u.hostText := (C01_getters u).2.2.2.1.symm
  have hport : u.port = none → Spec.getPort u = [] := fun hn => by simp [Spec.getPort, hn]
  refine ⟨hser, hser false, ⟨u.scheme, rfl, ha.scheme⟩, ha.user, ha.pass, ?_, ?_, ?_, ?_, ?_, ?_, ?_, ?_⟩
  · cases hpt : u.port with
    | none => exact .inl (hport hpt)
    | some p =>
      obtain ⟨h1, h2⟩ := ha.port p hpt
      obtain ⟨r1, r2, r3, _, _⟩ := C02_port_roundtrip p (by omega)
      exact .inr ⟨p, by simp [Spec.getPort, hpt], h1, h2, r1, r2, r3⟩
  · intro x hx
    exact ⟨by simp [Spec.getHostname, hx], ha.host x hx⟩
  · intro hs hfl
    obtain ⟨x, hx, hne⟩ := ha.spHost hs hfl
    simpa [Spec.getHostname, hx] using hne
  · intro hc
    rw [hhn] at hc
    obtain ⟨a, b, c⟩ := ha.noCred hc
    exact ⟨a, b, hport c⟩
  · intro hs
    obtain ⟨ho, hne⟩ := hp.sp hs
    rw [← C01_pathname u]
    unfold Impl.pathText
    rw [ho]
    cases hpa : u.path with
    | nil => exact absurd hpa hne
    | cons seg rest => exact ⟨seg ++ rest.flatMap (fun seg => 0x2F :: seg), by simp⟩
  · intro c hc
    rw [← C01_pathname u] at hc
    exact (Proofs.Obs.canon_pathText hp c hc).2
  · intro c hc
    unfold Spec.getSearch at hc
    cases hqq : u.query with
    | none => simp [hqq] at hc
    | some q =>
      simp only [hqq] at hc
      split at hc
      · simp at hc
      · rcases List.mem_cons.1 hc with rfl | hc
        · exact ⟨by decide, by decide, fun _ => by decide⟩
        · exact Proofs.Obs.canon_query hq q hqq c hc
  · intro c hc
    unfold Spec.getHash at hc
    cases hff : u.fragment with
    | none => simp [hff] at hc
    | some f =>
      simp only [hff] at hc
      split at hc
      · simp at hc
      · rcases List.mem_cons.1 hc with rfl | hc
        · decide
        · exact List.all_eq_true.1 (hf f hff) c hc

-- the hypothesis holds of every parsed URL (C08_parse_canon); "http://EXAMPLE.com:80/a/../b c?q'#f g"
example : (Impl.parse sampleIdna .u8 sampleUrl none).map Impl.Canon = some true := by decide +kernel
example : Impl.Canon c03Start = true ∧ Impl.Canon sampleOpaque = true := by decide +kernel
-- an instance: every element of the Standard's href of a parsed URL
example : ∀ u, Impl.parse sampleIdna .u8 sampleUrl none = some u →
    ∀ c ∈ Spec.getHref u, Impl.isPrintable c = true ∨ (c = 0x20 ∧ u.hasOpaquePath = true ∧ c ∈ Spec.getPathname u) :=
  fun u hu => (C08_canon_spec u (C08_parse_canon sampleIdna sampleIdna_canon .u8 sampleUrl none u (Or.inl rfl) hu)).2.1
-- U+0020 does occur inside an opaque path: "a:x y?" is canonical
example : Impl.Canon { scheme := asciiStr "a", hasOpaquePath := true, opaquePath := asciiStr "x y", query := some [] } = true ∧
    Spec.getHref { scheme := asciiStr "a", hasOpaquePath := true, opaquePath := asciiStr "x y", query := some [] } =
      asciiStr "a:x y?" := by decide +kernel

/-- **C08, the `/.` guard**: a canonical URL with null host whose pathname starts with `//` is serialized by the
    Standard's serializer with `/.` between the scheme and the path (so the href does not re-parse as an authority) -/
theorem C08_guard_spec : ∀ u : Url, Impl.Canon u = true → u.host = none → u.hasOpaquePath = false →
    (∃ t, Spec.getPathname u = 0x2F :: 0x2F :: t) →
    Spec.getHref u = Spec.getProtocol u ++ [0x2F, 0x2E] ++ Spec.getPathname u ++
      (match u.query with | some q => 0x3F :: q | none => []) ++
      (match u.fragment with | some f => 0x23 :: f | none => []) := by
  intro u h hn ho ⟨t, ht⟩
  obtain ⟨_, hp, _, _⟩ := (Proofs.C08.canon_iff u).1 h
  have hseg := (hp.lst ho).2
  have hcond : u.path.length > 1 ∧ u.path.head? = some [] := by
    rw [← C01_pathname u] at ht
    unfold Impl.pathText at ht
    rw [ho] at ht
    cases hpa : u.path with
    | nil => rw [hpa] at ht; simp at ht
    | cons seg rest =>
      rw [hpa] at ht hseg
      cases seg with
      | cons a s =>
        simp at ht
        have := List.all_eq_true.1 (hseg (a :: s) List.mem_cons_self) a List.mem_cons_self
        simp [Proofs.C08.segChar, ht.1] at this
      | nil =>
        cases rest with
        | nil => simp at ht
        | cons r rs => simp
  unfold Spec.getHref Spec.urlSerialize Spec.getProtocol Spec.getPathname
  cases hq : u.query <;> cases hf : u.fragment <;> simp [hn, ho, hcond.1, hcond.2]

example : Impl.Canon c02Guard = true ∧ c02Guard.host = none ∧ c02Guard.hasOpaquePath = false ∧
    Spec.getPathname c02Guard = asciiStr "//x" ∧ Spec.getHref c02Guard = asciiStr "a:/.//x" := by decide +kernel

/-! ## 5. C09 — `can_parse` is "the Standard's parser succeeds" -/

/-- **C09** over the Standard (`C09_agree` composed with `C01_parse_conforms`; `UnitsOk` is the second
    hypothesis of that bridge: code units in the range of their character type) -/
theorem C09_agree_spec :
    ∀ idna, IdnaOk idna → ∀ (e : Enc) (units : List Nat) (base : Option Url), UnitsOk e units →
      Impl.canParse idna e units base = (Spec.apiParse idna e units base).isSome := by
  intro idna h e units base hu
  rw [C09_agree, C01_parse_conforms idna h e units base hu]

example : IdnaOk sampleIdna ∧ UnitsOk .u8 (asciiStr "http://h:99999/") ∧ UnitsOk .u8 (asciiStr "//x") :=
  ⟨sampleIdna_ok, u8ok _ (by decide +kernel), u8ok _ (by decide +kernel)⟩
-- both verdicts, through the theorem (the kernel cannot run the Standard's host parser)
example : (Spec.apiParse sampleIdna .u8 (asciiStr "http://h:99999/") none).isSome = false ∧
    (Spec.apiParse sampleIdna .u8 (asciiStr "//x") (some c02BaseHttps)).isSome = true := by
  rw [← C09_agree_spec sampleIdna sampleIdna_ok .u8 _ none (u8ok _ (by decide +kernel)),
    ← C09_agree_spec sampleIdna sampleIdna_ok .u8 _ _ (u8ok _ (by decide +kernel))]
  decide +kernel

/-! `UnitsOk` (hypothesis of the bridge `C01_parse_conforms`, absent from `C02_reparse_parsed`, `C09_agree`) is
    needed as soon as `Spec.apiParse` reads arbitrary code units: in the model a code unit is a `Nat`, the
    library's decoder masks a continuation unit ≥ 256 where the Standard's decoder rejects it.
    "a:/" 0xC2 0x1A0 — the two parsers return different records (in the C++ a `char` is a byte). -/
example : ¬ UnitsOk .u8 (asciiStr "a:/" ++ [0xC2, 0x1A0]) ∧
    (Impl.parse sampleIdna .u8 (asciiStr "a:/" ++ [0xC2, 0x1A0]) none).map Spec.getHref = some (asciiStr "a:/%C2%A0") ∧
    (Spec.apiParse sampleIdna .u8 (asciiStr "a:/" ++ [0xC2, 0x1A0]) none).map Spec.getHref =
      some (asciiStr "a:/%EF%BF%BD%EF%BF%BD") := by
  refine ⟨fun h => absurd (h 0x1A0 (by decide +kernel)) (by decide), by decide +kernel, by decide +kernel⟩

#print axioms C01_getters_are
#print axioms C02_href_units
#print axioms C02_reparse_spec
#print axioms C02_reparse_spec_href
#print axioms C02_reparse_parsed_spec
#print axioms SpecParsed.norm
#print axioms C02_reparse_parsed_spec_closed
#print axioms C03_setter_observables
#print axioms C03_setter_observables_canon
#print axioms C08_history_canon
#print axioms C03_history_observables_partial
#print axioms C03_history_observables
#print axioms C03_history_observables_parsed
#print axioms C05_getters_spec
#print axioms C05b_getters_spec
#print axioms C05g_getters_spec
#print axioms C08_canon_spec
#print axioms C08_guard_spec
#print axioms C09_agree_spec
end Upa.Props
#print axioms Upa.Props.C01_observables_parsed
#print axioms Upa.Props.C05_eq_iff_record
#print axioms Upa.Props.C05_eq_iff_record_rep
