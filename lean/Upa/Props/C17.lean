import Upa.Proofs.FilePath
/-
  C17 — url_from_file_path / path_from_file_url (include/upa/url.h:3020-3330; model:
  Upa/Impl/FilePath.lean): the conversions are injection-safe and well-shaped.
  Helper lemmas: Upa/Proofs/FilePath.lean (namespace Upa.Proofs.C17).
-/
namespace Upa.Props
open Upa.Proofs.C14 (PctWord)
open Upa.Proofs.C17 (SafePosix SafeRaw fileUrl0 winClassify)

/-- stub IDNA used by the evaluated examples -/
def c17Idna : Idna := fun l => some (l.map toLower)

/-! ### 1. has_dot_dot_segment: the skipping scan is exact -/

theorem C17_dotdot :
    ∀ (isSl : Nat → Bool) (s : List Nat), isSl 0x2E = false →
      (Impl.hasDotDotSegment isSl none s = true ↔ [0x2E, 0x2E] ∈ splitOnP isSl s) := by
  intro isSl s h
  have := Proofs.C17.hasDotDot_gen isSl h none s
  simpa [Proofs.C17.atBoundary, Proofs.C17.dd] using this

/-- the induction-strength form: `prev` = the character before the scanned suffix -/
theorem C17_dotdot_gen :
    ∀ (isSl : Nat → Bool) (prev : Option Nat) (s : List Nat), isSl 0x2E = false →
      (Impl.hasDotDotSegment isSl prev s = true ↔
        (if (match prev with | none => true | some p => isSl p) = true
         then [0x2E, 0x2E] ∈ splitOnP isSl s else [0x2E, 0x2E] ∈ (splitOnP isSl s).tail)) := by
  intro isSl prev s h
  have := Proofs.C17.hasDotDot_gen isSl h prev s
  cases prev with
  | none => exact this
  | some p => exact this

-- hypothesis satisfiable: both separator predicates the library uses
example : (fun c => c == 0x2F) 0x2E = false ∧ Impl.isWindowsSlash 0x2E = false := by decide
-- "/a/../b": found; "/a/..b/.../c.." : every `..` is part of a longer name, none found;
-- "/./.." : the scan skips "./" and still sees the final ".."
example : [0x2E, 0x2E] ∈ splitOnP (· == 0x2F) (asciiStr "/a/../b") := by decide
example : Impl.hasDotDotSegment (· == 0x2F) none [0x2F, 0x61, 0x2F, 0x2E, 0x2E, 0x2F, 0x62] = true := by
  simp [Impl.hasDotDotSegment]
example : [0x2E, 0x2E] ∉ splitOnP (· == 0x2F) (asciiStr "/a/..b/.../c..") := by decide
example : Impl.hasDotDotSegment (· == 0x2F) none
    [0x2F, 0x61, 0x2F, 0x2E, 0x2E, 0x62, 0x2F, 0x2E, 0x2E, 0x2E, 0x2F, 0x63, 0x2E, 0x2E] = false := by
  simp [Impl.hasDotDotSegment]
example : [0x2E, 0x2E] ∈ splitOnP (· == 0x2F) (asciiStr "/./..") := by decide
example : Impl.hasDotDotSegment (· == 0x2F) none [0x2F, 0x2E, 0x2F, 0x2E, 0x2E] = true := by
  simp [Impl.hasDotDotSegment]
example : [0x2E, 0x2E] ∈ splitOnP Impl.isWindowsSlash (asciiStr "a\\../b") := by decide

/-! ### 2. is_unc_path: what is accepted -/

theorem C17_unc_shape :
    ∀ s r : List Nat, Impl.isUncPath s = some r →
      ∃ host sl share, s = host ++ sl :: (share ++ r) ∧ Impl.isWindowsSlash sl = true ∧
        host ≠ [] ∧ share ≠ [] ∧
        (∀ c ∈ host ++ share, Impl.isWindowsSlash c = false ∧ c ≠ 0) ∧
        host ≠ [0x3F] ∧ host ≠ [0x2E] ∧ (∀ a b, host = [a, b] → Impl.isWindowsDrive a b = false) ∧
        share ≠ [0x2E] ∧ share ≠ [0x2E, 0x2E] ∧
        (r = [] ∨ ∃ x r', r = x :: r' ∧ Impl.isWindowsSlash x = true) ∧ 0 ∉ r :=
  Proofs.C17.isUncPath_shape

example : Impl.isUncPath (asciiStr "host\\share\\dir/file") = some (asciiStr "\\dir/file") := by decide
example : Impl.isUncPath (asciiStr "host/share") = some [] := by decide
-- rejected: "?" / "." host (Win32 file / device namespace), drive-letter host, "." / ".." share,
-- no share, empty component, NUL
example : Impl.isUncPath (asciiStr "?\\share") = none ∧ Impl.isUncPath (asciiStr ".\\share") = none ∧
    Impl.isUncPath (asciiStr "C:\\share") = none ∧ Impl.isUncPath (asciiStr "C|\\share") = none ∧
    Impl.isUncPath (asciiStr "host\\.") = none ∧ Impl.isUncPath (asciiStr "host\\..\\x") = none ∧
    Impl.isUncPath (asciiStr "host") = none ∧ Impl.isUncPath (asciiStr "host\\") = none ∧
    Impl.isUncPath (asciiStr "host\\\\share") = none ∧ Impl.isUncPath (asciiStr "\\host\\share") = none ∧
    Impl.isUncPath (asciiStr "host\\share\\a\\\\b") = none ∧
    Impl.isUncPath ([0x68, 0] ++ asciiStr "\\share") = none ∧
    Impl.isUncPath (asciiStr "host\\share\\" ++ [0x61, 0]) = none := by decide

/-! ### 3. url_from_file_path rejects: empty, non-absolute, a ".." segment, a NUL (POSIX) -/

theorem C17_reject :
    ∀ (idna : Idna) (s : List Nat) (fmt : Impl.PathFormat),
      (s = [] ∨ (fmt = .posix ∧ s.head? ≠ some 0x2F) ∨
       (fmt = .posix ∧ [0x2E, 0x2E] ∈ splitOnP (· == 0x2F) s) ∨ (fmt = .posix ∧ 0 ∈ s)) →
      Impl.urlFromFilePath idna s fmt = none := by
  intro idna s fmt h
  rcases h with h | ⟨hf, h⟩ | ⟨hf, h⟩ | ⟨hf, h⟩
  · subst h; cases fmt <;> rfl
  all_goals
    subst hf
    rw [Proofs.C17.urlFromFilePath_posix, if_neg]
    intro hc
    simp only [Proofs.C17.dd] at hc
    first | exact h hc.1 | exact hc.2.1 h | exact hc.2.2 h

/-- the exact acceptance condition (POSIX): absolute, no ".." segment, no NUL; then the result is the
    parser's result on `file://` + the percent-encoded path -/
theorem C17_posix_url_text :
    ∀ (idna : Idna) (s : List Nat),
      s.head? = some 0x2F → [0x2E, 0x2E] ∉ splitOnP (· == 0x2F) s → 0 ∉ s →
      Impl.urlFromFilePath idna s .posix =
        Impl.parse idna .u8 (Impl.sFilePrefix ++ Impl.percentEncode Impl.posixPathNoEnc s) none := by
  intro idna s h1 h2 h3
  rw [Proofs.C17.urlFromFilePath_posix, if_pos ⟨h1, h2, h3⟩]

example : Impl.urlFromFilePath c17Idna [] .posix = none ∧ Impl.urlFromFilePath c17Idna [] .windows = none := by
  decide
example : Impl.urlFromFilePath c17Idna (asciiStr "home/a") .posix = none :=
  C17_reject _ _ _ (Or.inr (Or.inl ⟨rfl, by decide⟩))
example : Impl.urlFromFilePath c17Idna (asciiStr "/home/../a") .posix = none :=
  C17_reject _ _ _ (Or.inr (Or.inr (Or.inl ⟨rfl, by decide⟩)))
example : Impl.urlFromFilePath c17Idna (asciiStr "/home/" ++ [0]) .posix = none :=
  C17_reject _ _ _ (Or.inr (Or.inr (Or.inr ⟨rfl, by decide⟩)))
-- (the same rejection by unfolding the model, independent of the theorems above)
example : Impl.urlFromFilePath c17Idna [0x2F, 0x61, 0x2F, 0x2E, 0x2E] .posix = none := by
  simp [Impl.urlFromFilePath, Impl.hasDotDotSegment]
-- an accepted path with every dangerous character: `?`, `#`, `%41`, `:`, `\`, `|`, space, U+00E9,
-- a "." segment and names that merely contain ".."
example : (Impl.urlFromFilePath c17Idna (asciiStr "/home/u s/./..a/a?b#c%41:\\|" ++ [0xE9]) .posix).map
      (fun u => Impl.serialize u) =
    some (asciiStr "file:///home/u%20s/..a/a%3Fb%23c%2541%3A%5C%7C%C3%A9") := by
  rw [C17_posix_url_text _ _ (by decide) (by decide) (by decide)]
  decide +kernel

/-! ### 4. the text handed to the parser is injection-safe -/

/-- POSIX: no byte of the encoded path is `?` `#` `\` `:` `|`, TAB/LF/CR, a space or control, DEL or
    non-ASCII: nothing can act as a query/fragment delimiter, a backslash separator, a drive-letter
    colon/pipe, or be trimmed or stripped by the parser's preprocessing -/
theorem C17_posix_no_delims :
    ∀ s : List Nat, (∀ c ∈ s, Spec.isScalar c = true) →
      ∀ c ∈ Impl.percentEncode Impl.posixPathNoEnc s,
        c ≠ 0x3F ∧ c ≠ 0x23 ∧ c ≠ 0x5C ∧ c ≠ 0x3A ∧ c ≠ 0x7C ∧ c ≠ 0x09 ∧ c ≠ 0x0A ∧ c ≠ 0x0D ∧
          0x20 < c ∧ c < 0x7F :=
  Proofs.C17.posix_safe

/-- Windows (raw path set): the same without `:` `\` `|` -/
theorem C17_windows_no_delims :
    ∀ s : List Nat, (∀ c ∈ s, Spec.isScalar c = true) →
      ∀ c ∈ Impl.percentEncode Impl.rawPathNoEnc s,
        c ≠ 0x3F ∧ c ≠ 0x23 ∧ c ≠ 0x09 ∧ c ≠ 0x0A ∧ c ≠ 0x0D ∧ 0x20 < c ∧ c < 0x7F :=
  Proofs.C17.raw_safe

/-- `%` is encoded too: in the output a `%` occurs only as the start of a `%XX` triplet made by the
    encoder (the `ok` predicate of the word excludes 0x25), so no escape of the input survives -/
theorem C17_percent_encoded :
    ∀ s : List Nat, (∀ c ∈ s, Spec.isScalar c = true) →
      PctWord (fun c => decide (c < 0x80) && Impl.posixPathNoEnc c && (c != 0x25))
        (Impl.percentEncode Impl.posixPathNoEnc s) :=
  Proofs.C17.posix_word

theorem C17_percent_encoded_windows :
    ∀ s : List Nat, (∀ c ∈ s, Spec.isScalar c = true) →
      PctWord (fun c => decide (c < 0x80) && Impl.rawPathNoEnc c && (c != 0x25))
        (Impl.percentEncode Impl.rawPathNoEnc s) :=
  Proofs.C17.raw_word

/-- hence decoding the encoded text gives the UTF-8 bytes of the path back (with C14_roundtrip) -/
theorem C17_encode_roundtrip :
    ∀ s : List Nat, (∀ c ∈ s, Spec.isScalar c = true) →
      Impl.percentDecode (Impl.percentEncode Impl.posixPathNoEnc s) = Spec.utf8Encode s ∧
      Impl.percentDecode (Impl.percentEncode Impl.rawPathNoEnc s) = Spec.utf8Encode s :=
  fun s hs => ⟨Proofs.C14.percentDecode_percentEncode _ s hs (by decide),
    Proofs.C14.percentDecode_percentEncode _ s hs (by decide)⟩

example : ∀ c ∈ asciiStr "/a?b#c%41:\\| \t\n" ++ [0xE9, 0x7F, 1], Spec.isScalar c = true := by decide
example : Impl.percentEncode Impl.posixPathNoEnc (asciiStr "/a?b#c%41:\\| \t\n" ++ [0xE9, 0x7F, 1]) =
    asciiStr "/a%3Fb%23c%2541%3A%5C%7C%20%09%0A%C3%A9%7F%01" := by decide +kernel
example : Impl.percentEncode Impl.rawPathNoEnc (asciiStr "C:\\a?b#c%41| \t\n" ++ [0xE9, 0x7F, 1]) =
    asciiStr "C:\\a%3Fb%23c%2541|%20%09%0A%C3%A9%7F%01" := by decide +kernel

/-! ### 5. the URL made from a POSIX path has nothing but a scheme, an empty host and a path -/

theorem C17_from_path_safe_posix :
    ∀ (idna : Idna) (s : List Nat) (u : Url), (∀ c ∈ s, Spec.isScalar c = true) →
      Impl.urlFromFilePath idna s .posix = some u →
      u.query = none ∧ u.fragment = none ∧ u.host = some Impl.emptyHost ∧ u.scheme = Impl.sFile ∧
        u.username = [] ∧ u.password = [] ∧ u.port = none ∧ u.hasOpaquePath = false ∧
        u.opaquePath = [] ∧
        u = Impl.parsePath { scheme := Impl.sFile, host := some Impl.emptyHost }
              (Impl.percentEncode Impl.posixPathNoEnc (s.drop 1)) := by
  intro idna s u hs h
  rw [Proofs.C17.urlFromFilePath_posix] at h
  have hc : s.head? = some 0x2F ∧ Proofs.C17.dd ∉ splitOnP (· == 0x2F) s ∧ 0 ∉ s := by
    apply Classical.byContradiction
    intro hn
    rw [if_neg hn] at h
    simp at h
  rw [if_pos hc] at h
  cases s with
  | nil => simp at hc
  | cons c0 r =>
    have hc0 : c0 = 0x2F := by simpa using hc.1
    subst hc0
    have hr : ∀ c ∈ r, Spec.isScalar c = true := fun c h' => hs c (List.mem_cons_of_mem _ h')
    rw [Proofs.C14.percentEncode_ascii_noenc _ _ _ (by omega) (by decide),
      Proofs.C17.parse_file_url idna _ (fun c h' => by
        have := Proofs.C17.posix_safe r hr c h'
        unfold SafePosix at this; omega)] at h
    simp only [Option.some.injEq] at h
    obtain ⟨p, hp⟩ := Proofs.C17.parsePath_frame fileUrl0 (Impl.percentEncode Impl.posixPathNoEnc r)
    have hu : u = { fileUrl0 with path := p } := by rw [← h, hp]
    refine ⟨?_, ?_, ?_, ?_, ?_, ?_, ?_, ?_, ?_, ?_⟩
    all_goals first | (rw [hu]; rfl) | exact h.symm

example : ∀ c ∈ asciiStr "/a?b#c", Spec.isScalar c = true := by decide
example : (Impl.urlFromFilePath c17Idna (asciiStr "/a?b#c") .posix).map (fun u => (u.path, u.query, u.fragment)) =
    some ([asciiStr "a%3Fb%23c"], none, none) := by
  rw [C17_posix_url_text _ _ (by decide) (by decide) (by decide)]
  decide +kernel

/-- the path of that URL: the '/'-separated segments of the input, each percent-encoded with the POSIX
    path set; "." segments are dropped (a trailing "." leaves an empty last segment).
    `posixPathOf [t] = if t = "." then [[]] else [enc t]`,
    `posixPathOf (t :: rest) = (if t = "." then [] else [enc t]) ++ posixPathOf rest`. -/
theorem C17_posix_path :
    ∀ (idna : Idna) (s : List Nat) (u : Url), (∀ c ∈ s, Spec.isScalar c = true) →
      Impl.urlFromFilePath idna s .posix = some u →
      u.path = Proofs.C17.posixPathOf (splitOnP (· == 0x2F) (s.drop 1)) := by
  intro idna s u hs h
  obtain ⟨-, -, -, -, -, -, -, -, -, hu⟩ := C17_from_path_safe_posix idna s u hs h
  have hc : s.head? = some 0x2F ∧ Proofs.C17.dd ∉ splitOnP (· == 0x2F) s := by
    rw [Proofs.C17.urlFromFilePath_posix] at h
    apply Classical.byContradiction
    intro hn
    rw [if_neg (fun hc => hn ⟨hc.1, hc.2.1⟩)] at h
    cases h
  cases s with
  | nil => simp at hc
  | cons c0 r =>
    have hc0 : c0 = 0x2F := by simpa using hc.1
    subst hc0
    have hdd := hc.2
    rw [Proofs.C17.splitOnP_cons_sep _ _ _ (by decide)] at hdd
    rw [hu]
    show (Impl.parsePath fileUrl0 (Proofs.C17.encP r)).path = _
    rw [Proofs.C17.parsePath_posix r (fun c h' => hs c (List.mem_cons_of_mem _ h'))
      (fun hm => hdd (List.mem_cons_of_mem _ hm))]
    rfl

example : Proofs.C17.posixPathOf (splitOnP (· == 0x2F) (asciiStr "a b/./c?/.")) =
    [asciiStr "a%20b", asciiStr "c%3F", []] := by decide +kernel
example : (Impl.urlFromFilePath c17Idna (asciiStr "/a b/./c?/.") .posix).map (fun u => u.path) =
    some [asciiStr "a%20b", asciiStr "c%3F", []] := by
  rw [C17_posix_url_text _ _ (by decide) (by decide) (by decide)]
  decide +kernel

/-- POSIX round trip: for a path without "." segments the URL's pathname is the percent-encoded path
    and `path_from_file_url` returns the UTF-8 bytes of the original path -/
theorem C17_roundtrip_posix :
    ∀ (idna : Idna) (s : List Nat) (u : Url), (∀ c ∈ s, Spec.isScalar c = true) →
      Impl.urlFromFilePath idna s .posix = some u →
      [0x2E] ∉ splitOnP (· == 0x2F) s →
      Impl.pathText u = Impl.percentEncode Impl.posixPathNoEnc s ∧
      Impl.pathFromFileUrl u .posix = some (Spec.utf8Encode s) :=
  fun idna s u hs h hnd => (Proofs.C17.roundtrip_posix idna s u hs h hnd).2

example : [0x2E] ∉ splitOnP (· == 0x2F) (asciiStr "/a b/c?#%41/") := by decide
-- with a "." segment the path comes back normalised: "/a/./b" → file:///a/b → "/a/b"
example : (Impl.urlFromFilePath c17Idna (asciiStr "/a/./b") .posix).map Impl.pathText = some (asciiStr "/a/b") := by
  rw [C17_posix_url_text _ _ (by decide) (by decide) (by decide)]
  decide +kernel

/-! ### 3w / 5w. Windows format: exact acceptance condition, rejections, shape of the URL -/

/-- the acceptance condition (Windows): `winClassify s` = (pointer, is_unc) is the prefix analysis
    (`\\`, `\\?\`, `\\.\`, `\\?\UNC\` skipped); the rest must be a UNC path resp. a drive-absolute path whose
    remainder `chk` (after the share name resp. after `C:\`) has no ".." segment and no NUL; the parsed URL
    is returned unless its hostname is "." (`Impl.rejectDotHost`, the final check of url_from_file_path) -/
theorem C17_windows_eq :
    ∀ (idna : Idna) (s : List Nat),
      Impl.urlFromFilePath idna s .windows =
        if s = [] then none else
        match (if (winClassify s).2 then Impl.isUncPath (winClassify s).1
               else Impl.isWindowsDriveAbsolutePath (winClassify s).1) with
        | none => none
        | some chk =>
          if [0x2E, 0x2E] ∈ splitOnP Impl.isWindowsSlash chk ∨ 0 ∈ chk then none
          else Impl.rejectDotHost (Impl.parse idna .u8
                 (Impl.sFilePrefix ++ (if (winClassify s).2 then [] else [0x2F]) ++
                 Impl.percentEncode Impl.rawPathNoEnc (winClassify s).1) none) :=
  Proofs.C17.urlFromFilePath_windows

/-- Windows rejections: not `\\`-prefixed and not drive-absolute; a ".." segment after `C:\`; a NUL
    anywhere (with scalar input) -/
theorem C17_reject_windows :
    ∀ (idna : Idna) (s : List Nat),
      ((¬ (∃ a b r, s = a :: b :: r ∧ Impl.isWindowsSlash a = true ∧ Impl.isWindowsSlash b = true) ∧
          Impl.isWindowsDriveAbsolutePath s = none) ∨
       (∃ a b c chk, s = a :: b :: c :: chk ∧ Impl.isWindowsDrive a b = true ∧
          [0x2E, 0x2E] ∈ splitOnP Impl.isWindowsSlash chk) ∨
       ((∀ c ∈ s, Spec.isScalar c = true) ∧ 0 ∈ s)) →
      Impl.urlFromFilePath idna s .windows = none := by
  intro idna s h
  rcases h with ⟨h1, h2⟩ | ⟨a, b, c, chk, hs, hd, hdd⟩ | ⟨hs, h0⟩
  · have hcl : winClassify s = (s, false) := by
      unfold winClassify
      split
      · rename_i a b r
        split
        · rename_i hab
          simp only [Bool.and_eq_true] at hab
          exact absurd ⟨a, b, r, rfl, hab.1, hab.2⟩ h1
        · rfl
      · rfl
    rw [C17_windows_eq, hcl]
    simp only [Bool.false_eq_true, if_false, h2]
    split <;> rfl
  · have hab : ¬ (Impl.isWindowsSlash a && Impl.isWindowsSlash b) = true := by
      intro hab
      simp only [Bool.and_eq_true] at hab
      have h1 := hab.2
      simp only [Impl.isWindowsDrive, Bool.and_eq_true, Bool.or_eq_true, beq_iff_eq] at hd
      simp only [Impl.isWindowsSlash, Bool.or_eq_true, beq_iff_eq] at h1
      omega
    have hcl : winClassify s = (s, false) := by
      subst hs; unfold winClassify; simp only [hab]; rfl
    have hdr : Impl.isWindowsDriveAbsolutePath (a :: b :: c :: chk) =
        if Impl.isWindowsSlash c = true then some chk else none := by
      simp [Impl.isWindowsDriveAbsolutePath, hd]
    rw [C17_windows_eq, hcl, hs, if_neg (by simp)]
    simp only [Bool.false_eq_true, if_false, hdr]
    cases Impl.isWindowsSlash c with
    | false => rfl
    | true => simp only [if_true]; rw [if_pos (Or.inl hdd)]
  · cases hr : Impl.urlFromFilePath idna s .windows with
    | none => rfl
    | some u => exact absurd h0 (Proofs.C17.from_path_windows idna s u hs hr).1

/-- the URL made from a Windows path: no query, no fragment, no credentials, no port; a drive path
    gives an empty host and the path `parsePath` builds from the encoded text; a UNC path gives the host
    `parseHost` returns for the encoded host component -/
theorem C17_from_path_safe_windows :
    ∀ (idna : Idna) (s : List Nat) (u : Url), (∀ c ∈ s, Spec.isScalar c = true) →
      Impl.urlFromFilePath idna s .windows = some u →
      u.query = none ∧ u.fragment = none ∧ u.scheme = Impl.sFile ∧ u.username = [] ∧ u.password = [] ∧
        u.port = none ∧ u.hasOpaquePath = false ∧ u.opaquePath = [] ∧ 0 ∉ s ∧
        (((winClassify s).2 = false ∧ u.host = some Impl.emptyHost ∧
            (∃ a b c chk, (winClassify s).1 = a :: b :: c :: chk ∧ Impl.isWindowsDrive a b = true ∧
              Impl.isWindowsSlash c = true ∧ [0x2E, 0x2E] ∉ splitOnP Impl.isWindowsSlash chk) ∧
            u = Impl.parsePath { scheme := Impl.sFile, host := some Impl.emptyHost }
                  (Impl.percentEncode Impl.rawPathNoEnc (winClassify s).1)) ∨
         ((winClassify s).2 = true ∧
            ∃ host sl share r hst, (winClassify s).1 = host ++ sl :: (share ++ r) ∧
              Impl.isUncPath (winClassify s).1 = some r ∧
              [0x2E, 0x2E] ∉ splitOnP Impl.isWindowsSlash r ∧
              Impl.parseHost idna (Impl.percentEncode Impl.rawPathNoEnc host) false = some hst ∧
              u.host = some (if hst.text == Impl.sLocalhost then Impl.emptyHost else hst) ∧
              u = Impl.parsePath
                    { scheme := Impl.sFile,
                      host := some (if hst.text == Impl.sLocalhost then Impl.emptyHost else hst) }
                    (Impl.percentEncode Impl.rawPathNoEnc (share ++ r)))) := by
  intro idna s u hs h
  obtain ⟨h0, hcase⟩ := Proofs.C17.from_path_windows idna s u hs h
  rcases hcase with ⟨hcl, hshape, hu⟩ | ⟨hcl, host, sl, share, r, hst, hp, hunc, hdd, hph, hu⟩
  · obtain ⟨p, hp⟩ := Proofs.C17.parsePath_frame fileUrl0
      (Impl.percentEncode Impl.rawPathNoEnc (winClassify s).1)
    have hu' : u = { fileUrl0 with path := p } := by rw [hu, hp]
    refine ⟨?_, ?_, ?_, ?_, ?_, ?_, ?_, ?_, h0, Or.inl ⟨hcl, ?_, hshape, hu⟩⟩
    all_goals (rw [hu']; rfl)
  · obtain ⟨p, hpp⟩ := Proofs.C17.parsePath_frame (Proofs.C17.uncUrl hst)
      (Impl.percentEncode Impl.rawPathNoEnc (share ++ r))
    have hu' : u = { Proofs.C17.uncUrl hst with path := p } := by rw [hu, hpp]
    refine ⟨?_, ?_, ?_, ?_, ?_, ?_, ?_, ?_, h0,
      Or.inr ⟨hcl, host, sl, share, r, hst, hp, hunc, hdd, hph, ?_, hu⟩⟩
    all_goals (rw [hu']; rfl)

-- `C:\dir\a?b#c%41|.txt`, a UNC path (host lower-cased by the stub IDNA), `\\?\C:\…`, `\\?\UNC\…`
example : (Impl.urlFromFilePath c17Idna (asciiStr "C:\\dir\\a?b#c%41|.txt") .windows).map
      (fun u => Impl.serialize u) = some (asciiStr "file:///C:/dir/a%3Fb%23c%2541|.txt") := by
  rw [C17_windows_eq]; decide +kernel
example : (Impl.urlFromFilePath c17Idna (asciiStr "\\\\Host\\share\\a b") .windows).map
      (fun u => Impl.serialize u) = some (asciiStr "file://host/share/a%20b") := by
  rw [C17_windows_eq]; decide +kernel
example : (Impl.urlFromFilePath c17Idna (asciiStr "\\\\?\\C:\\dir\\f") .windows).map
      (fun u => Impl.serialize u) = some (asciiStr "file:///C:/dir/f") := by
  rw [C17_windows_eq]; decide +kernel
example : (Impl.urlFromFilePath c17Idna (asciiStr "\\\\?\\UNC\\host\\share\\f") .windows).map
      (fun u => Impl.serialize u) = some (asciiStr "file://host/share/f") := by
  rw [C17_windows_eq]; decide +kernel
-- rejected: relative, device namespace, ".." after the drive / after the share, ".." as share
example : Impl.urlFromFilePath c17Idna (asciiStr "dir\\f") .windows = none ∧
    Impl.urlFromFilePath c17Idna (asciiStr "\\\\.\\pipe\\x") .windows = none ∧
    Impl.urlFromFilePath c17Idna (asciiStr "C:\\a\\..\\b") .windows = none ∧
    Impl.urlFromFilePath c17Idna (asciiStr "\\\\host\\share\\..\\x") .windows = none ∧
    Impl.urlFromFilePath c17Idna (asciiStr "\\\\host\\..\\x") .windows = none := by
  simp only [C17_windows_eq]; decide +kernel
-- boundary cases that are NOT rejected (same results from the C++ library):
-- ".." as the UNC host name (only "." and "?" are excluded by is_unc_path); a "localhost" host is dropped
-- by the file host state, so a drive-like share name then is a drive letter for the path state
-- (`\\localhost\C:\x` → `file:///C:/x`); the share name "C|" is rewritten to "C:" by the path state
example : (Impl.urlFromFilePath c17Idna (asciiStr "\\\\..\\share\\x") .windows).map
      (fun u => Impl.serialize u) = some (asciiStr "file://../share/x") := by
  rw [C17_windows_eq]; decide +kernel

example : (Impl.urlFromFilePath c17Idna (asciiStr "\\\\localhost\\C:\\x") .windows).map
      (fun u => Impl.serialize u) = some (asciiStr "file:///C:/x") := by
  rw [C17_windows_eq]; decide +kernel
example : (Impl.urlFromFilePath c17Idna (asciiStr "\\\\host\\C|\\x") .windows).map
      (fun u => Impl.serialize u) = some (asciiStr "file://host/C:/x") := by
  rw [C17_windows_eq]; decide +kernel

/-! ### 6. path_from_file_url: the shape of the returned path -/

theorem C17_to_path_shape_posix :
    ∀ (u : Url) (p : List Nat), Impl.pathFromFileUrl u .posix = some p →
      u.isFile = true ∧ u.hostText = [] ∧ 0 ∉ p ∧ p = Impl.percentDecode (Impl.pathText u) ∧
        (u.hasOpaquePath = false ∧ u.path ≠ [] → p.head? = some 0x2F) := by
  intro u p h
  obtain ⟨h1, h2, h3, h4⟩ := Proofs.C17.pathFromFileUrl_posix u p h
  refine ⟨h1, h2, h4, h3, ?_⟩
  rintro ⟨ho, hp⟩
  rw [h3]
  unfold Impl.pathText
  rw [ho]
  cases hpath : u.path with
  | nil => exact absurd hpath hp
  | cons seg rest =>
    simp only [Bool.false_eq_true, if_false, List.flatMap_cons, List.cons_append]
    rw [Impl.percentDecode, Proofs.C14.aux_none_other _ _ (by omega),
      Proofs.C14.encodeUtf8Char_ascii _ (by omega)]
    rfl

theorem C17_to_path_shape_windows :
    ∀ (u : Url) (p : List Nat), Impl.pathFromFileUrl u .windows = some p →
      u.isFile = true ∧ 0 ∉ p ∧ u.hostText ≠ [0x2E] ∧
        ((∀ c ∈ u.hostText, c ≠ 0x2F) → 0x2F ∉ p) ∧
        ((u.hostText = [] ∧ ∃ d rest, p = d :: 0x3A :: 0x5C :: rest ∧ isAlpha d = true) ∨
         (∃ q, p = 0x5C :: 0x5C :: q ∧ (Impl.isUncPath (p.drop 2)).isSome = true)) := by
  intro u p h
  obtain ⟨h1, h2, h3, h4⟩ := Proofs.C17.pathFromFileUrl_windows u p h
  have hb := Proofs.C17.winBody_no_slash u
  refine ⟨h1, h2, h3, ?_, ?_⟩
  · intro hh hm
    rcases h4 with ⟨-, hp, -⟩ | ⟨-, s, a, rest, hbody, -, hcase⟩ | ⟨-, q, hbody, hp, -⟩
    · rw [hp] at hm
      simp only [List.mem_cons, List.mem_append] at hm
      rcases hm with hm | hm | hm | hm
      · omega
      · omega
      · exact hh _ hm rfl
      · exact hb hm
    · rw [hbody] at hb
      rcases hcase with ⟨-, hp⟩ | ⟨r, hr, hp⟩
      · rw [hp] at hm
        simp only [List.mem_cons, List.not_mem_nil, or_false] at hm
        rcases hm with hm | hm | hm
        · apply hb; simp [hm]
        · omega
        · omega
      · rw [hp] at hm; rw [hr] at hb
        simp only [List.mem_cons] at hm hb
        rcases hm with hm | hm | hm | hm
        · exact hb (Or.inr (Or.inl hm))
        · omega
        · omega
        · exact hb (Or.inr (Or.inr (Or.inr (Or.inr hm))))
    · rw [hp] at hm
      simp only [List.mem_cons] at hm
      rcases hm with hm | hm | hm
      · omega
      · omega
      · rcases hbody with hbody | hbody <;> (rw [hbody] at hb; apply hb; simp [hm])
  · rcases h4 with ⟨-, hp, hu⟩ | ⟨hh, s, a, rest, -, ha, hcase⟩ | ⟨-, q, -, hp, hu⟩
    · right; exact ⟨_, hp, by rw [hp]; exact hu⟩
    · left
      refine ⟨hh, ?_⟩
      rcases hcase with ⟨-, hp⟩ | ⟨r, -, hp⟩
      · exact ⟨a, [], hp, ha⟩
      · exact ⟨a, r, hp, ha⟩
    · right; exact ⟨_, hp, by rw [hp]; exact hu⟩

/-- a returned Windows path is never a Win32 file (`\\?\`) or device (`\\.\`) namespace path, and its UNC
    share name is not "." or ".." -/
theorem C17_to_path_not_namespace :
    ∀ (u : Url) (p : List Nat), Impl.pathFromFileUrl u .windows = some p →
      ∀ x sl rest, p = 0x5C :: 0x5C :: x :: sl :: rest → Impl.isWindowsSlash sl = true →
        x ≠ 0x3F ∧ x ≠ 0x2E := by
  intro u p h x sl rest hp hsl
  obtain ⟨-, -, -, -, hshape⟩ := C17_to_path_shape_windows u p h
  rcases hshape with ⟨-, d, r, hd, -⟩ | ⟨q, hq, hunc⟩
  · rw [hd] at hp; simp at hp
  · rw [hp] at hunc
    simp only [List.drop_succ_cons, List.drop_zero] at hunc
    cases hres : Impl.isUncPath (x :: sl :: rest) with
    | none => rw [hres] at hunc; simp at hunc
    | some r =>
      obtain ⟨host, sl', share, hs, -, hne, -, hc, h3f, h2e, -⟩ := C17_unc_shape _ _ hres
      cases host with
      | nil => exact absurd rfl hne
      | cons a host' =>
        simp only [List.cons_append, List.cons.injEq] at hs
        obtain ⟨hxa, hs⟩ := hs
        cases host' with
        | nil =>
          subst hxa
          exact ⟨fun e => h3f (by rw [e]), fun e => h2e (by rw [e])⟩
        | cons b host'' =>
          simp only [List.cons_append, List.cons.injEq] at hs
          have := (hc b (by simp)).1
          rw [← hs.1, hsl] at this
          simp at this

-- `file:///C:/a%20b/c`, `file://host/share/a%2Fb` (an escaped slash becomes a separator), `file:////host/share/x`
-- (empty first segment), and rejected ones: `file://./share/x`, `file:///%3F/C:/x` (would be `\\?\C:\x`),
-- `file:////./pipe/x`, `file:///a%00`
def c17Url (host : List Nat) (path : List (List Nat)) : Url :=
  { scheme := Impl.sFile, host := some { kind := if host = [] then .empty else .domain, text := host },
    path := path }
example : Impl.pathFromFileUrl (c17Url [] [[0x43, 0x3A], [0x61, 0x25, 0x32, 0x30, 0x62], [0x63]]) .windows =
    some (asciiStr "C:\\a b\\c") := by
  simp [Impl.pathFromFileUrl, c17Url, Impl.pathText, Impl.percentDecode, Impl.percentDecodeAux]
  decide +kernel
example : Impl.pathFromFileUrl (c17Url [0x68] [[0x73], [0x61, 0x25, 0x32, 0x46, 0x62]]) .windows =
    some (asciiStr "\\\\h\\s\\a\\b") := by
  simp [Impl.pathFromFileUrl, c17Url, Impl.pathText, Impl.percentDecode, Impl.percentDecodeAux]
  decide +kernel
example : Impl.pathFromFileUrl (c17Url [] [[], [0x68], [0x73], [0x78]]) .windows =
    some (asciiStr "\\\\h\\s\\x") := by
  simp [Impl.pathFromFileUrl, c17Url, Impl.pathText, Impl.percentDecode, Impl.percentDecodeAux]
  decide +kernel
example : Impl.pathFromFileUrl (c17Url [0x2E] [[0x73], [0x78]]) .windows = none := by
  simp [Impl.pathFromFileUrl, c17Url, Impl.pathText, Impl.percentDecode, Impl.percentDecodeAux]
  decide +kernel
example : Impl.pathFromFileUrl (c17Url [] [[0x25, 0x33, 0x46], [0x43, 0x3A], [0x78]]) .windows = none := by
  simp [Impl.pathFromFileUrl, c17Url, Impl.pathText, Impl.percentDecode, Impl.percentDecodeAux]
  decide +kernel
example : Impl.pathFromFileUrl (c17Url [] [[], [0x2E], [0x70], [0x78]]) .windows = none := by
  simp [Impl.pathFromFileUrl, c17Url, Impl.pathText, Impl.percentDecode, Impl.percentDecodeAux]
  decide +kernel
example : Impl.pathFromFileUrl (c17Url [] [[0x61, 0x25, 0x30, 0x30]]) .posix = none := by
  simp [Impl.pathFromFileUrl, c17Url, Impl.pathText, Impl.percentDecode, Impl.percentDecodeAux]
  decide +kernel
example : ∃ u p, Impl.pathFromFileUrl u .posix = some p ∧ u.hasOpaquePath = false ∧ u.path ≠ [] :=
  ⟨c17Url [] [[0x61, 0x25, 0x32, 0x30, 0x62]], asciiStr "/a b", by
    simp [Impl.pathFromFileUrl, c17Url, Impl.pathText, Impl.percentDecode, Impl.percentDecodeAux]
    decide +kernel, rfl, by simp [c17Url]⟩

end Upa.Props

#print axioms Upa.Props.C17_dotdot
#print axioms Upa.Props.C17_dotdot_gen
#print axioms Upa.Props.C17_unc_shape
#print axioms Upa.Props.C17_reject
#print axioms Upa.Props.C17_posix_url_text
#print axioms Upa.Props.C17_posix_no_delims
#print axioms Upa.Props.C17_windows_no_delims
#print axioms Upa.Props.C17_percent_encoded
#print axioms Upa.Props.C17_percent_encoded_windows
#print axioms Upa.Props.C17_encode_roundtrip
#print axioms Upa.Props.C17_from_path_safe_posix
#print axioms Upa.Props.C17_posix_path
#print axioms Upa.Props.C17_roundtrip_posix
#print axioms Upa.Props.C17_windows_eq
#print axioms Upa.Props.C17_reject_windows
#print axioms Upa.Props.C17_from_path_safe_windows
#print axioms Upa.Props.C17_to_path_shape_posix
#print axioms Upa.Props.C17_to_path_shape_windows
#print axioms Upa.Props.C17_to_path_not_namespace
