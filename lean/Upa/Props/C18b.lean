import Upa.Proofs.StrView
/-
  C18 — the C++11/14 builds (bundled `upa::str_view`, include/upa/str_view.h) and the C++17/20 builds
  (`std::basic_string_view`) compute the same values.  Model and the transcription of [string.view.ops],
  [string.view.modifiers], [string.view.comparison], [char.traits.require]: Impl/StrView.lean
  (`Upa.Impl.SV`, `Upa.Impl.SV.StdView`); lemmas: Proofs/StrView.lean.
  `mag` = the unspecified magnitude of a non-zero result of `Traits::compare`: the theorems hold for every one.
-/
namespace Upa.Props
open Upa.Impl.SV

/-- the lexicographic order of the model is the order `<` of Lean's lists of numbers -/
theorem lexCmp_lt_iff : ∀ (a b : List Nat), lexCmp a b = .lt ↔ a < b := by
  intro a
  induction a with
  | nil => intro b; cases b <;> simp [lexCmp]
  | cons x xs ih =>
    intro b
    cases b with
    | nil => simp [lexCmp]
    | cons y ys =>
      simp only [lexCmp, List.cons_lt_cons_iff]
      split
      · simp; left; assumption
      · split
        · simp; omega
        · rw [ih ys]
          have : x = y := by omega
          simp [this]

/-- `compare`: for views that lie within their arrays the bundled class reads nothing outside them, and the
    SIGN of its result is the one `std::basic_string_view::compare` specifies, which is the lexicographic
    order of the code units (UNSIGNED values), a proper prefix being smaller. -/
theorem C18_str_view_compare (mag : Nat → Nat → Nat) (v x : View) (hv : v.Valid) (hx : x.Valid) :
    ∃ r, compare mag v x = some r ∧
      r.sign = StdView.compareSign v.toList x.toList ∧
      r.sign = ordSign (lexCmp v.toList x.toList) ∧
      (r < 0 ↔ v.toList < x.toList) ∧ (r = 0 ↔ v.toList = x.toList) := by
  obtain ⟨r, h1, h2⟩ := compare_spec mag v x hv hx
  have h3 : r.sign = ordSign (lexCmp v.toList x.toList) := by rw [h2, compareSign_lex]
  refine ⟨r, h1, h2, h3, ?_, ?_⟩
  · rw [← lexCmp_lt_iff, ← Int.sign_eq_neg_one_iff_neg, h3]
    cases lexCmp v.toList x.toList <;> simp [ordSign]
  · rw [← lexCmp_eq, ← Int.sign_eq_zero_iff_zero, h3, ordSign_eq_zero]

example : compare (fun _ _ => 0) (ofList [0x61, 0x62]) (ofList [0x61, 0x62, 0x63]) = some (-1) := by decide +kernel
example : compare (fun x y => x + y) { base := [9, 0x62, 0x7a, 9], off := 1, len := 2 } (ofList [0x62, 0x61]) = some 220 := by
  decide +kernel
example : ({ base := [9, 0x62, 0x7a, 9], off := 1, len := 2 } : View).Valid := by simp [View.Valid]
/-- where signedness would matter: as `unsigned char` 0x80 > 0x7f; as (signed) `char` it is −128 < 127 -/
theorem signedCompareDiffers :
    compare (fun _ _ => 0) (ofList [0x80]) (ofList [0x7f]) = some 1 ∧ signedByte 0x80 < signedByte 0x7f := by
  decide +kernel

/-- `==` / `!=`: same length and equal elements, which is what `std`'s `lhs.compare(rhs) == 0` gives -/
theorem C18_str_view_eq (mag : Nat → Nat → Nat) (v x : View) (hv : v.Valid) (hx : x.Valid) :
    equal mag v x = some (StdView.eq v.toList x.toList) ∧
    equal mag v x = some (decide (v.toList = x.toList)) ∧
    notEqual mag v x = some (!(StdView.eq v.toList x.toList)) := by
  have h := equal_spec mag v x hv hx
  have e := stdEq_iff v.toList x.toList
  refine ⟨by rw [h, e], h, ?_⟩
  simp only [notEqual, h, e, Option.map_some]

example : equal (fun _ _ => 0) (ofList [1, 2, 3]) { base := [0, 1, 2, 3, 4], off := 1, len := 3 } = some true := by
  decide +kernel
example : equal (fun _ _ => 0) (ofList [1, 2, 3]) (ofList [1, 2]) = some false := by decide +kernel

/-- `remove_prefix(n)`, `remove_suffix(n)` under the standard's precondition n ≤ size(), and `operator[]`
    under i < size(): `drop n`, dropping the last n, the i-th element; the view stays within its array. -/
theorem C18_str_view_remove (v : View) (n : Nat) (hv : v.Valid) (hl : v.len < 18446744073709551616)
    (hn : n ≤ v.len) :
    ((removePrefix v n).Valid ∧ (removePrefix v n).toList = StdView.removePrefix v.toList n ∧
      (removePrefix v n).toList = v.toList.drop n) ∧
    ((removeSuffix v n).Valid ∧ (removeSuffix v n).toList = StdView.removeSuffix v.toList n ∧
      (removeSuffix v n).toList = v.toList.take (v.len - n)) ∧
    (∀ i, i < v.len → get v i = v.toList[i]?) := by
  obtain ⟨p1, _, p3⟩ := removePrefix_spec v n hv hl hn
  obtain ⟨s1, _, s3⟩ := removeSuffix_spec v n hv hl hn
  refine ⟨⟨p1, p3, p3⟩, ⟨s1, s3, ?_⟩, fun i hi => get_spec v i hi⟩
  rw [s3, toList_length v hv]

example : (removePrefix (ofList [1, 2, 3, 4]) 1).toList = [2, 3, 4] ∧ (removeSuffix (ofList [1, 2, 3, 4]) 3).toList = [1] ∧
    get (ofList [1, 2, 3, 4]) 2 = some 3 := by decide +kernel
/-- outside the precondition (undefined behaviour in `std`; the bundled class has no check): `len_` wraps -/
example : (removePrefix (ofList [1, 2]) 3).len = 18446744073709551615 := by decide +kernel

/-- the harness line is about views over whole arrays: always valid -/
theorem C18_str_view_line (a b : List Nat) :
    (ofList a).Valid ∧ (ofList b).Valid ∧ (ofList a).toList = a ∧ (ofList b).toList = b :=
  ⟨ofList_valid a, ofList_valid b, ofList_toList a, ofList_toList b⟩

example : runSvLine [0x61, 0x62, 0x63] [0x61, 0x62, 0x64] 1 = "sv cmp=-1 eq=0 pre=6263 suf=6162" := by decide +kernel

#print axioms C18_str_view_compare
#print axioms signedCompareDiffers
#print axioms C18_str_view_eq
#print axioms C18_str_view_remove
#print axioms C18_str_view_line
end Upa.Props
