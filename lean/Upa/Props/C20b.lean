import Upa.Proofs.SetRepExcApi
import Upa.Props.C20
/-
  C20b - allocation failure inside the in-place edits of `url_setter`: the ORDER of "write the offsets"
  and "grow the string" on the operational model.

  Model: `Upa/Impl/SetRepExc.lean` - the operations of `Impl/SetRep.lean`, the whole setters of
  `Impl/SetRepApi.lean` and `url_search_params::update` of `Impl/UpdateRep.lean` with every primitive
  that can allocate marked, in program order, with the stored representation the url object has at
  that moment.  `setRepX idna s e units r k`: the setter under the schedule "the k-th throwing
  primitive fails" (`none`: no failure): `done r'` or `threw r'` (the representation when the
  exception leaves the call) and the number of throwing primitives passed.  `failStates`: all the
  `threw` representations.

  Proved here, for EVERY start representation `r` of a record `u` with `RepOk u` (no `HostInv` needed),
  every setter, every argument and every failure point:
    * without a failure the model is `setRep` (`C20b_no_failure`);
    * after a failure the offsets are in bounds and ascending (`C20b_consistent`, `C20b_update`);
    * `replace_part` writes the offsets only after the throwing `replace` (`C20b_replace_part_order`),
      hence `username` / `password` are all-or-nothing (`C20b_credentials_atomic`) and `protocol`
      leaves a representation of a record (`C20b_represents`);
    * `href` / `safe_assign` on the representation are all-or-nothing (`C20b_href_atomic`, …).
  FOUND here (`C20b_host_view_counterexample`, confirmed on the real library with a counting
  `operator new`): offsets in bounds and ascending is NOT enough for `url::host()`, which computes
  `part_end_[HOST or PORT] - part_end_[HOST_START]` without the guard of `get_part_view`.  When the
  host (resp. the port) is the LAST part of the URL ("s://h", "s://h:80"), `url_setter::start_part`
  cuts the string and zeroes `part_end_[HOST]` (resp. `[PORT]`) BEFORE the new text is appended;
  an allocation failure in that append leaves the non-null flag on and the offset 0, and `host()`
  returns a view of length 2^64 - 4.  For all the other setters the stronger predicate `GettersOk`
  holds at every failure point (`C20b_getters_partial`).
-/
namespace Upa.Props
open Upa Upa.Impl Upa.Proofs.C05 Upa.Proofs.SetRep Upa.Proofs.SetRepApi Upa.Proofs.SetRepExc

instance (r : Rep) : Decidable (OffsetsOk r) := by unfold OffsetsOk; infer_instance

/-- offsets in bounds and ascending, and the unguarded subtraction of `url::host()` does not wrap -/
def GettersOk (r : Rep) : Prop := OffsetsOk r ∧ HostViewOk r

instance (r : Rep) : Decidable (GettersOk r) := by unfold GettersOk; infer_instance

/-! ## 0. the schedule is a failure counter threaded through the computation -/

/-- `run` of `pure`, of a throwing primitive, and of `>>=`: the k-th primitive fails; what was done
    before it is done; a failure propagates; the count of primitives passed adds up -/
theorem C20b_threading :
    (∀ {α : Type} (a : α) (k : Option Nat), (pure a : X α).run k = (.done a, 0)) ∧
    (∀ (r : Rep) (k : Option Nat),
      (mayThrow r).run k = if k = some 0 then (.threw r, 0) else (.done (), 1)) ∧
    (∀ {α β : Type} (m : X α) (f : α → X β) (k : Option Nat),
      (m >>= f).run k =
        match m.run k with
        | (.threw r, n) => (.threw r, n)
        | (.done a, n) => (((f a).run (k.map (· - n))).1, n + ((f a).run (k.map (· - n))).2)) :=
  ⟨fun a k => run_pure a k, run_mayThrow, fun m f k => run_bind m f k⟩

/-- `failStates` enumerates exactly the points: `r'` is a failure state iff some schedule `k` ends in
    `threw r'` -/
theorem C20b_failStates :
    ∀ (idna : Idna) (s : Setter) (e : Enc) (units : List Nat) (r r' : Rep),
      r' ∈ failStates idna s e units r ↔ ∃ k, (setRepX idna s e units r (some k)).1 = .threw r' := by
  intro idna s e units r r'
  rw [failStates_setter_eq]
  constructor
  · intro h
    obtain ⟨k, hk⟩ := mem_run _ r' h
    exact ⟨k, by unfold setRepX; rw [hk]⟩
  · rintro ⟨k, hk⟩
    exact setRepX_threw_mem idna s e units r (some k) r' hk

/-! ## 1. nothing fails: the model is `setRep` -/

/-- with `k = none`, or `k` beyond the last throwing primitive, `setRepX` is the existing function
    (and the value the computation returns is `setRep`, returned bool included) -/
theorem C20b_no_failure :
    ∀ (idna : Idna) (s : Setter) (e : Enc) (units : List Nat) (r : Rep),
      (setRepX idna s e units r none).1 = .done (setRep idna s e units r).1 ∧
      (∀ k, (setRepX idna s e units r none).2 ≤ k →
        (setRepX idna s e units r (some k)).1 = .done (setRep idna s e units r).1) ∧
      (setRepT idna s e units r).val = setRep idna s e units r := by
  intro idna s e units r
  have hv := setRepT_val idna s e units r
  refine ⟨?_, ?_, hv⟩
  · rw [setRepX_eq, hv]
  · intro k hk
    rw [setRepX_eq] at hk ⊢
    simp only at hk ⊢
    rw [List.getElem?_eq_none hk, hv]

/-- the same for every operation of SetRep.lean (here: the ones the setters are made of) -/
theorem C20b_no_failure_ops :
    (∀ r l f s n, (replacePartX r l f s n).val = replacePart r l f s n) ∧
    (∀ r l n, (serStartPartX r l n).val = serStartPart r l n) ∧
    (∀ r n, (setStartPartX r n).val = setStartPart r n) ∧
    (∀ (o : Open) t, (o.appendX t).val = o.append t) ∧
    (∀ o, (setSavePartX o).val = setSavePart o) ∧
    (∀ r pt t, (writePartX r pt t).val = writePart r pt t) ∧
    (∀ r pt, (clearPartX r pt).val = clearPart r pt) ∧
    (∀ r pt, (emptyPartX r pt).val = emptyPart r pt) ∧
    (∀ o ht, (hostDoneX o ht).val = hostDone o ht) ∧
    (∀ r t ht, (writeHostX r t ht).val = writeHost r t ht) ∧
    (∀ r, (setEmptyHostX r).val = setEmptyHost r) ∧
    (∀ r, (adjustPathPrefixX r).val = adjustPathPrefix r) ∧
    (∀ r t n, (commitPathX r t n).val = commitPath r t n) ∧
    (∀ r s, (saveSchemeX r s).val = saveScheme r s) ∧
    (∀ r (b : PathBuf) seg, (b.pushX r seg).val = b.push seg) :=
  ⟨replacePartX_val, serStartPartX_val, setStartPartX_val, appendX_val, setSavePartX_val, writePartX_val,
    clearPartX_val, emptyPartX_val, hostDoneX_val, writeHostX_val, setEmptyHostX_val,
    adjustPathPrefixX_val, commitPathX_val, saveSchemeX_val, pushX_val⟩

/-! ## 2. after a failure at ANY throwing primitive of ANY setter: offsets in bounds and ascending -/

theorem C20b_consistent :
    ∀ (idna : Idna) (s : Setter) (e : Enc) (units : List Nat) (u : Url) (r : Rep),
      RepOk u → RepFor r u → ∀ k,
      match (setRepX idna s e units r k).1 with
      | .done _ => True
      | .threw r' => OffsetsOk r' ∧ r'.partEnd.length = 11 := by
  intro idna s e units u r ok h k
  cases hk : (setRepX idna s e units r k).1 with
  | done _ => trivial
  | threw r' =>
    have := (setRepT_pts idna s e units ok h r' (setRepX_threw_mem idna s e units r k r' hk)).offsetsOk
    exact ⟨this, this.1⟩

/-- the same, as a statement about the list the correspondence driver evaluates -/
theorem C20b_failStates_consistent :
    ∀ (idna : Idna) (s : Setter) (e : Enc) (units : List Nat) (u : Url) (r : Rep),
      RepOk u → RepFor r u → ∀ r' ∈ failStates idna s e units r, OffsetsOk r' := by
  intro idna s e units u r ok h r' hr'
  rw [failStates_setter_eq] at hr'
  exact (setRepT_pts idna s e units ok h r' hr').offsetsOk

/-- … in particular after any history of setter calls (no `href`) from a parsed URL -/
theorem C20b_consistent_history :
    ∀ (idna : Idna) (calls : List Call) (u₀ : Url) (r₀ : Rep),
      (∀ c ∈ calls, c.1 ≠ .href) → RepOk u₀ → HostInv u₀ → RepFor r₀ u₀ →
      ∀ (s : Setter) (e : Enc) (units : List Nat),
      ∀ r' ∈ failStates idna s e units (runRep idna calls r₀).1, OffsetsOk r' := by
  intro idna calls u₀ r₀ hc ok hi h s e units
  obtain ⟨k1, _, k3, _⟩ := C05d_history idna calls u₀ r₀ hc ok hi h
  exact C20b_failStates_consistent idna s e units _ _ k3 k1

example : RepOk c05Full ∧ RepFor (layout c05Full) c05Full ∧ RepFor c05bHostOnlyRep c05bHostOnly := by decide

/-! ## 3. `replace_part`: the only throwing primitive precedes every offset write -/

theorem C20b_replace_part_order :
    ∀ (r : Rep) (lastPt firstPt : Nat) (str : List Nat) (len0 : Nat) (k : Option Nat) (r' : Rep),
      ((replacePartX r lastPt firstPt str len0).run k).1 = .threw r' → r' = r := by
  intro r lastPt firstPt str len0 k r' h
  have := run_threw_mem _ k r' h
  simpa using this

/-- … and so does every operation that ends in ONE `replace_part`: `url_setter::save_part`,
    `clear_part`, `empty_part`, `save_scheme` -/
theorem C20b_single_replace_atomic :
    (∀ (o : Open) (k : Option Nat) (r' : Rep), ((setSavePartX o).run k).1 = .threw r' → r' = o.rep) ∧
    (∀ (r : Rep) (pt : Nat) (k : Option Nat) (r' : Rep), ((clearPartX r pt).run k).1 = .threw r' → r' = r) ∧
    (∀ (r : Rep) (pt : Nat) (k : Option Nat) (r' : Rep), ((emptyPartX r pt).run k).1 = .threw r' → r' = r) ∧
    (∀ (r : Rep) (s : List Nat) (k : Option Nat) (r' : Rep), ((saveSchemeX r s).run k).1 = .threw r' → r' = r) :=
  ⟨fun o k r' h => setSavePartX_pts o r' (run_threw_mem _ k r' h),
   fun r pt k r' h => clearPartX_pts r pt r' (run_threw_mem _ k r' h),
   fun r pt k r' h => emptyPartX_pts r pt r' (run_threw_mem _ k r' h),
   fun r s k r' h => by have := run_threw_mem _ k r' h; rw [saveSchemeX_pts] at this; simpa using this⟩

/-- http://example.org/ as `url::parse` leaves it (QUERY and FRAGMENT never started) -/
def c20bExample : Url := { scheme := asciiStr "http", host := some ⟨.domain, asciiStr "example.org"⟩, path := [[]] }
def c20bExampleRep : Rep := { layout c20bExample with partEnd := [4, 7, 7, 7, 7, 18, 18, 18, 19, 0, 0] }

/-- the call `username(64 x 'a')` makes on it: `replace_part(HOST_START, "aaa…a@", 65, USERNAME, 64)` -/
def c20bUserText : List Nat := List.replicate 64 0x61 ++ [0x40]

/-- the state the seeded change `c20_r3_offsets_before_replace` leaves when the `replace` fails:
    `part_end_[USERNAME]`, `part_end_[PASSWORD]` moved to 71, the string still 19 long -/
def c20bR3Rep : Rep := { c20bExampleRep with partEnd := [4, 7, 71, 71, 7, 18, 18, 18, 19, 0, 0] }

/-- the model bites: with the offsets written first, the same failure leaves offsets outside the string;
    without a failure the two orders agree -/
theorem C20b_replace_part_order_bites :
    RepOk c20bExample ∧ RepFor c20bExampleRep c20bExample ∧
    ((replacePartX c20bExampleRep HOST_START USERNAME c20bUserText 64).run (some 0)).1 = .threw c20bExampleRep ∧
    ((replacePartOffsetsFirstX c20bExampleRep HOST_START USERNAME c20bUserText 64).run (some 0)).1 = .threw c20bR3Rep ∧
    ¬ OffsetsOk c20bR3Rep ∧ c20bR3Rep.norm = asciiStr "http://example.org/" ∧
    (replacePartOffsetsFirstX c20bExampleRep HOST_START USERNAME c20bUserText 64).val =
      (replacePartX c20bExampleRep HOST_START USERNAME c20bUserText 64).val ∧
    ((replacePartX c20bExampleRep HOST_START USERNAME c20bUserText 64).val).partEnd =
      [4, 7, 71, 71, 72, 83, 83, 83, 84, 0, 0] := by decide +kernel

/-! ## 4. what a failure leaves, setter by setter -/

/-- `username` / `password` are all-or-nothing: whichever primitive fails, the representation is
    exactly as before -/
theorem C20b_credentials_atomic :
    ∀ (idna : Idna) (s : Setter) (e : Enc) (units : List Nat) (u : Url) (r : Rep),
      s = .username ∨ s = .password → RepOk u → RepFor r u → ∀ k r',
      (setRepX idna s e units r k).1 = .threw r' → r' = r := by
  intro idna s e units u r hs ok h k r' hk
  exact credSetterT_pts idna s hs e units ok h r' (setRepX_threw_mem idna s e units r k r' hk)

/-- `protocol`, `username`, `password`: after a failure the representation still stands for a record
    (`u` itself, or - `save_scheme` done, `clear_part(PORT)` failed - `u` with the new scheme) -/
theorem C20b_represents :
    ∀ (idna : Idna) (s : Setter) (e : Enc) (units : List Nat) (u : Url) (r : Rep),
      s = .protocol ∨ s = .username ∨ s = .password → RepOk u → RepFor r u → ∀ k r',
      (setRepX idna s e units r k).1 = .threw r' → ∃ u', RepOk u' ∧ RepFor r' u' := by
  intro idna s e units u r hs ok h k r' hk
  have hm := setRepX_threw_mem idna s e units r k r' hk
  rcases hs with rfl | hs
  · simp only [setRepT, pts_bind, List.mem_append] at hm
    rcases hm with h1 | h1
    · rw [preludeX_pts r r' h1]; exact ⟨u, ok, h⟩
    · cases hp : prep e units with
      | nil => rw [hp] at h1; simp [protocolRepX] at h1
      | cons c0 r0 =>
        rw [hp, protocolRepX_cons] at h1
        simp only [pts_ite, pts_bind, pts_pure, pts_mayThrowN] at h1
        split at h1
        · simp at h1
        · split at h1
          · simp at h1
          · rcases List.mem_append.mp h1 with h2 | h2
            · rw [mem_replicate_eq h2]; exact ⟨u, ok, h⟩
            · rcases protoTailX_pts _ _ r' h2 with h3 | h3
              · rw [h3]; exact ⟨u, ok, h⟩
              · have hsne : (c0 :: r0.takeWhile isSchemeChar).map (· ||| 0x20) ≠ [] := by simp
                rw [h3]
                exact ⟨_, repOk_scheme ok _ hsne, C05b_save_scheme u _ r ok hsne h⟩
  · rw [credSetterT_pts idna s hs e units ok h r' hm]
    exact ⟨u, ok, h⟩

/-- the stronger consistency - also `url::host()` returns a view inside the string - holds at every
    failure point of every setter but `host`, `hostname`, `port` … -/
theorem C20b_getters_partial :
    ∀ (idna : Idna) (s : Setter) (e : Enc) (units : List Nat) (u : Url) (r : Rep),
      s ≠ .host → s ≠ .hostname → s ≠ .port → RepOk u → RepFor r u → ∀ k,
      match (setRepX idna s e units r k).1 with
      | .done _ => True
      | .threw r' => GettersOk r' := by
  intro idna s e units u r h1 h2 h3 ok h k
  cases hk : (setRepX idna s e units r k).1 with
  | done _ => trivial
  | threw r' =>
    have := setRepT_ptsS idna s e units ⟨h1, h2, h3⟩ ok h r' (setRepX_threw_mem idna s e units r k r' hk)
    exact ⟨this.pt.offsetsOk, this.hostViewOk⟩

/-- every representation of a record satisfies it -/
theorem C20b_getters_rep : ∀ (u : Url) (r : Rep), RecWF u → RepFor r u → GettersOk r := by
  intro u r wf h
  have := ptS_of_repFor wf h
  exact ⟨this.pt.offsetsOk, this.hostViewOk⟩

/-- … and of `host`, `hostname`, `port` too as soon as the URL has a path, a query or a fragment
    (then neither the host nor the port is the last part).  Every special URL has: its path is at
    least "/".  What is left are the non-special URLs `s://host` and `s://host:port`. -/
theorem C20b_getters_tail :
    ∀ (idna : Idna) (s : Setter) (e : Enc) (units : List Nat) (u : Url) (r : Rep),
      RepOk u → RepFor r u → (pathText u ≠ [] ∨ u.query.isSome ∨ u.fragment.isSome) → ∀ k,
      match (setRepX idna s e units r k).1 with
      | .done _ => True
      | .threw r' => GettersOk r' := by
  intro idna s e units u r ok h ht k
  have ht' : Tail u := by
    intro hc
    simp only [List.append_eq_nil_iff] at hc
    rcases ht with h1 | h1 | h1
    · exact h1 hc.1.1
    · cases hq : u.query with
      | none => rw [hq] at h1; simp at h1
      | some q => have := hc.1.2; simp [querySeg, hq] at this
    · cases hq : u.fragment with
      | none => rw [hq] at h1; simp at h1
      | some q => have := hc.2; simp [fragSeg, hq] at this
  cases hk : (setRepX idna s e units r k).1 with
  | done _ => trivial
  | threw r' =>
    have := setRepT_ptsS_tail idna s e units ok h ht' r' (setRepX_threw_mem idna s e units r k r' hk)
    exact ⟨this.pt.offsetsOk, this.hostViewOk⟩

example : pathText c05Full ≠ [] ∧ pathText c20bExample ≠ [] ∧ pathText c05bHostOnly = [] := by decide

/-- s://h:80 as `url::parse` leaves it -/
def c20bHostPort : Url := { scheme := asciiStr "s", host := some ⟨.opaque, asciiStr "h"⟩, port := some 80 }
def c20bHostPortRep : Rep := { layout c20bHostPort with partEnd := [1, 4, 4, 4, 4, 5, 8, 0, 0, 0, 0] }

/-- … and FAILS for them (the finding).
    `host("vvvv")` / `hostname("vvvv")` on `s://h` (the host is the last part):
    `url_setter::start_part(HOST)` cuts the string at HOST_START and zeroes `part_end_[HOST]`
    (url.h:2904-2909) BEFORE the host parser appends to `norm_url_` (url_host.h:306-325); a failing
    `push_back` leaves e.g. "s://vv", offsets [1,4,4,4,4,0,…] and the HOST flag still on:
    `url::host()` (url.h:1187-1194) computes `part_end_[HOST] - part_end_[HOST_START] = 0 - 4`.
    `port("12345")` on `s://h:80` (the port is the last part): `part_end_[PORT] = 0` with the PORT
    flag on, `host()` computes `part_end_[PORT] - part_end_[HOST_START] = 0 - 4`.
    Both states have their offsets in bounds and ascending (zeros read as never-started parts).
    Observed on the real library (counting `operator new`, `host(64 x 'v')` on `s://h`, n = 1;
    `port("12345")` on a copy of `s://h…h:80`, n = 1): `host().size() = 18446744073709551612`. -/
theorem C20b_host_view_counterexample :
    RepOk c05bHostOnly ∧ HostInv c05bHostOnly ∧ RepFor c05bHostOnlyRep c05bHostOnly ∧
    (let bad : Rep := { c05bHostOnlyRep with norm := asciiStr "s://vv", partEnd := [1, 4, 4, 4, 4, 0, 0, 0, 0, 0, 0] }
     bad ∈ failStates c05dIdna .host .u8 (asciiStr "vvvv") c05bHostOnlyRep ∧
     bad ∈ failStates c05dIdna .hostname .u8 (asciiStr "vvvv") c05bHostOnlyRep ∧
     OffsetsOk bad ∧ bad.hostNotNull = true ∧ bad.pe HOST_START = 4 ∧ bad.pe HOST = 0 ∧ ¬ HostViewOk bad) ∧
    RepOk c20bHostPort ∧ HostInv c20bHostPort ∧ RepFor c20bHostPortRep c20bHostPort ∧
    (let bad : Rep := { c20bHostPortRep with norm := asciiStr "s://h:12", partEnd := [1, 4, 4, 4, 4, 5, 0, 0, 0, 0, 0] }
     bad ∈ failStates c05dIdna .port .u8 (asciiStr "12345") c20bHostPortRep ∧
     OffsetsOk bad ∧ bad.portNotNull = true ∧ bad.pe PORT = 0 ∧ ¬ HostViewOk bad) := by
  decide +kernel

/-! ## 5. `url_search_params::update()` -/

theorem C20b_update :
    ∀ (u : Url) (r : Rep) (l : List BPair), RepOk u → RepFor r u →
      (updateRepX r l none).1 = .done (updateRep r l) ∧
      (∀ k, match (updateRepX r l k).1 with
        | .done _ => True
        | .threw r' => GettersOk r' ∧ r'.partEnd.length = 11) ∧
      (∀ r' ∈ updateFailStates r l, OffsetsOk r') := by
  intro u r l ok h
  refine ⟨?_, ?_, ?_⟩
  · unfold updateRepX
    rw [run_none, updateRepT_val]
  · intro k
    cases hk : (updateRepX r l k).1 with
    | done _ => trivial
    | threw r' =>
      have := updateRepT_pts ok h l r' (run_threw_mem _ k r' hk)
      exact ⟨⟨this.pt.offsetsOk, this.hostViewOk⟩, this.pt.offsetsOk.1⟩
  · intro r' hr'
    unfold updateFailStates at hr'
    rw [failStates_eq] at hr'
    exact (updateRepT_pts ok h l r' hr').pt.offsetsOk

/-- the same for the form the correspondence driver replays (only the serialised list is seen) -/
theorem C20b_update_ser :
    ∀ (u : Url) (r : Rep) (ser : List Nat), RepOk u → RepFor r u →
      (updateRepSerX r ser none).1 = .done (updateRepSer r ser) ∧
      (∀ r' ∈ updateSerFailStates r ser, GettersOk r') := by
  intro u r ser ok h
  refine ⟨?_, ?_⟩
  · unfold updateRepSerX
    rw [run_none, updateRepSerT_val]
  · intro r' hr'
    unfold updateSerFailStates at hr'
    rw [failStates_eq] at hr'
    have := updateRepSerT_pts ok h ser r' hr'
    exact ⟨this.pt.offsetsOk, this.hostViewOk⟩

/-! ## 6. `href` / `safe_assign` on the representation: all-or-nothing -/

open Fault FaultRep in
theorem safeAssignR_shape (a b : Bool) : Shape (safeAssignStepsR a b) := by
  cases a <;> cases b <;> decide

open Fault FaultRep in
/-- `url::safe_assign`: if it does not complete, the target's representation, VALID flag and params
    object are exactly as before (three branches, every failure point) -/
theorem C20b_safe_assign_atomic (thisHasParams otherHasParams : Bool) (failAt : Option Nat)
    (s s' : St ObjR TempsR) (e : Exn)
    (h : runOp (safeAssignStepsR thisHasParams otherHasParams) failAt s = .threw e s') :
    s'.target.rep = s.target.rep ∧ s'.target.valid = s.target.valid ∧ s'.target.sp = s.target.sp := by
  rw [C20_atomic_general _ (safeAssignR_shape _ _) failAt s s' e h]
  exact ⟨rfl, rfl, rfl⟩

open Fault FaultRep in
/-- `url::href`: the same, whatever the parse phase does to the temporary `u` and however many
    throwing primitives it passes, for every failure point in the parse phase or after -/
theorem C20b_href_atomic (parse : List (ObjR → ObjR)) (valid thisHasParams : Bool) (failAt : Option Nat)
    (s s' : St ObjR TempsR) (e : Exn)
    (h : runOp (hrefStepsR parse valid thisHasParams) failAt s = .threw e s') :
    s'.target.rep = s.target.rep ∧ s'.target.valid = s.target.valid ∧ s'.target.sp = s.target.sp := by
  have hs : Shape (hrefStepsR parse valid thisHasParams) := by
    apply Upa.Impl.Fault.shape_append_temp
    · intro st hst
      obtain ⟨f, _, rfl⟩ := List.mem_map.mp hst
      rfl
    · cases valid
      · simp [Shape]
      · exact safeAssignR_shape thisHasParams false
  rw [C20_atomic_general _ hs failAt s s' e h]
  exact ⟨rfl, rfl, rfl⟩

open Fault FaultRep in
/-- evaluated with the operational parser: `href("http://b/?y=2")` on `http://example.org/` with a
    params object.  No failure: record, flag and params replaced; failure in the parse phase (0) or at
    the params construction (1): the target untouched; 2 is beyond the last throwing step. -/
example :
    let start : St ObjR TempsR :=
      { target := { rep := c20bExampleRep, valid := true, sp := some { list := [], isSorted := false } },
        temp := { u := { rep := Rep.cleared, valid := false, sp := none } } }
    let steps := hrefStepsOf c05dIdna .u8 (asciiStr "http://b/?y=2") true
    (∃ s, runOp steps none start = .done s ∧ s.target.rep.norm = asciiStr "http://b/?y=2" ∧
      s.target.valid = true ∧ s.target.rep.partView QUERY = asciiStr "y=2" ∧ s.temp.u.rep = Rep.cleared ∧
      s.target.sp = some { list := formParse false (s.target.rep.partView QUERY), isSorted := false }) ∧
    (∃ s, runOp steps (some 0) start = .threw .badAlloc s ∧ s.target = start.target) ∧
    (∃ s, runOp steps (some 1) start = .threw .badAlloc s ∧ s.target = start.target ∧
      s.temp.u.rep.norm = asciiStr "http://b/?y=2") ∧
    (∃ s, runOp steps (some 2) start = .done s) := by
  refine ⟨⟨_, rfl, by decide +kernel, by decide +kernel, by decide +kernel, by decide +kernel, rfl⟩,
    ⟨_, rfl, by decide +kernel⟩, ⟨_, rfl, by decide +kernel, by decide +kernel⟩, ⟨_, rfl⟩⟩

/-! ## 7. evaluated failure states -/

/-- `username(64 x 'a')` on http://example.org/: 67 throwing primitives (the copy of a self-referential
    argument, 64 appends to `strp_`, `strp_ += '@'`, the `replace`); whichever fails, the object is
    untouched; without a failure the user name is written -/
example :
    (setRepX c05dIdna .username .u8 (List.replicate 64 0x61) c20bExampleRep none).2 = 67 ∧
    (∀ k, k < 67 → (setRepX c05dIdna .username .u8 (List.replicate 64 0x61) c20bExampleRep (some k)).1 =
      .threw c20bExampleRep) ∧
    (∃ r', (setRepX c05dIdna .username .u8 (List.replicate 64 0x61) c20bExampleRep (some 67)).1 = .done r' ∧
      r'.partEnd = [4, 7, 71, 71, 72, 83, 83, 83, 84, 0, 0]) := by
  refine ⟨by decide +kernel, by decide +kernel, _, rfl, by decide +kernel⟩

/-- the raw states the REAL library was observed in after an injected `bad_alloc` (g++ -O0, counting
    `operator new`, the n-th allocation inside the call failing) are failure states of the model:
    * `hash(64 x 'v')` on a copy of `http://h/p?q#old` (the fragment is the last part: the string is cut
      at the end of the query and `part_end_[FRAGMENT]` zeroed before the appends), n = 1:
      "http://h/p?q#vvv", offsets [4,7,7,7,7,8,8,8,10,12,0];
    * `pathname("//bbb…")` on a copy of `foo:/aaa…` (28 a), n = 3 - the `replace` that inserts the "/."
      prefix fails after the new path and segment count were written: "foo://bbb…" (26 b), segment
      count 2, null host (offsets fine; the serialization no longer re-parses to the same record);
    * `port("12345")` on a copy of `s://h…h:80` (30 h), n = 1: "s://h…h:", `part_end_[PORT] = 0`. -/
example :
    (let r : Rep := { layout { scheme := asciiStr "http", host := some ⟨.domain, asciiStr "h"⟩, path := [asciiStr "p"],
                               query := some (asciiStr "q"), fragment := some (asciiStr "old") } with
                      partEnd := [4, 7, 7, 7, 7, 8, 8, 8, 10, 12, 16] }
     ({ r with norm := asciiStr "http://h/p?q#vvv", partEnd := [4, 7, 7, 7, 7, 8, 8, 8, 10, 12, 0] } : Rep) ∈
       failStates c05dIdna .hash .u8 (List.replicate 64 0x76) r) ∧
    (let r : Rep := { layout { scheme := asciiStr "foo", path := [List.replicate 28 0x61] } with
                      partEnd := [3, 4, 4, 4, 4, 4, 4, 4, 33, 0, 0] }
     ({ r with norm := asciiStr "foo:/" ++ 0x2F :: List.replicate 26 0x62, segCount := 2,
               partEnd := [3, 4, 4, 4, 4, 4, 4, 4, 32, 0, 0] } : Rep) ∈
       failStates c05dIdna .pathname .u8 (0x2F :: 0x2F :: List.replicate 26 0x62) r) ∧
    (let r : Rep := { layout { scheme := asciiStr "s", host := some ⟨.opaque, List.replicate 30 0x68⟩, port := some 80 } with
                      partEnd := [1, 4, 4, 4, 4, 34, 37, 0, 0, 0, 0] }
     ({ r with norm := asciiStr "s://" ++ List.replicate 30 0x68 ++ [0x3A],
               partEnd := [1, 4, 4, 4, 4, 34, 0, 0, 0, 0, 0] } : Rep) ∈
       failStates c05dIdna .port .u8 (asciiStr "12345") r) := by
  decide +kernel

/-- `host("hh")` on `foo:/p` (null host): the new host is assembled in `strp_` ("://hh"), committed by
    ONE `replace_part(HOST, …, SCHEME_SEP, 3)`: whichever of the 11 primitives fails, the object is untouched -/
example :
    let r := layout { scheme := asciiStr "foo", path := [asciiStr "p"] }
    r.norm = asciiStr "foo:/p" ∧
    (setRepX c05dIdna .host .u8 (asciiStr "hh") r none).2 = 10 ∧
    (∀ k, k < 10 → (setRepX c05dIdna .host .u8 (asciiStr "hh") r (some k)).1 = .threw r) ∧
    (∃ r', (setRepX c05dIdna .host .u8 (asciiStr "hh") r (some 10)).1 = .done r' ∧ r'.norm = asciiStr "foo://hh/p") := by
  refine ⟨by decide +kernel, by decide +kernel, by decide +kernel, _, rfl, by decide +kernel⟩

/-- `pathname("//x")` on `foo:/p` (null host): the failure states are the untouched object (9 times)
    and - the last primitive, the `replace` inserting "/." - the new path written without its prefix -/
example :
    let r := layout { scheme := asciiStr "foo", path := [asciiStr "p"] }
    (setRepX c05dIdna .pathname .u8 (asciiStr "//x") r none).2 = 10 ∧
    (∀ k, k < 9 → (setRepX c05dIdna .pathname .u8 (asciiStr "//x") r (some k)).1 = .threw r) ∧
    (setRepX c05dIdna .pathname .u8 (asciiStr "//x") r (some 9)).1 =
      .threw { r with norm := asciiStr "foo://x", partEnd := [3, 4, 4, 4, 4, 4, 4, 4, 7, 7, 7], segCount := 2 } ∧
    (∃ r', (setRepX c05dIdna .pathname .u8 (asciiStr "//x") r none).1 = .done r' ∧
      r'.norm = asciiStr "foo:/.//x" ∧ r'.partEnd = [3, 4, 4, 4, 4, 4, 4, 6, 9, 9, 9]) := by
  refine ⟨by decide +kernel, by decide +kernel, by decide +kernel, _, rfl, by decide +kernel, by decide +kernel⟩

/-- `hash("ab")` on `http://h/p?q#old` (the fragment is the last part; the truncate-in-place branch of
    `url_setter::start_part`): k = 0-2 the head of `url_parse`: untouched; k = 3 the `+= '#'` after the
    cut: "http://h/p?q" with `part_end_[FRAGMENT] = 0` (flag still on); k = 4, 5 the appends:
    "http://h/p?q#", "http://h/p?q#a", offset still 0; then `save_part` writes the offset -/
example :
    let r := layout { scheme := asciiStr "http", host := some ⟨.domain, asciiStr "h"⟩, path := [asciiStr "p"],
                      query := some (asciiStr "q"), fragment := some (asciiStr "old") }
    let cut : Rep := { r with norm := asciiStr "http://h/p?q", partEnd := [4, 7, 7, 7, 7, 8, 8, 8, 10, 12, 0] }
    failStates c05dIdna .hash .u8 (asciiStr "ab") r =
      [r, r, r, cut, { cut with norm := asciiStr "http://h/p?q#" }, { cut with norm := asciiStr "http://h/p?q#a" }] ∧
    (∃ r', (setRepX c05dIdna .hash .u8 (asciiStr "ab") r none).1 = .done r' ∧
      r'.norm = asciiStr "http://h/p?q#ab" ∧ r'.partEnd = [4, 7, 7, 7, 7, 8, 8, 8, 10, 12, 15]) := by
  refine ⟨by decide +kernel, _, rfl, by decide +kernel, by decide +kernel⟩

end Upa.Props

#print axioms Upa.Props.C20b_threading
#print axioms Upa.Props.C20b_failStates
#print axioms Upa.Props.C20b_no_failure
#print axioms Upa.Props.C20b_no_failure_ops
#print axioms Upa.Props.C20b_consistent
#print axioms Upa.Props.C20b_failStates_consistent
#print axioms Upa.Props.C20b_consistent_history
#print axioms Upa.Props.C20b_replace_part_order
#print axioms Upa.Props.C20b_single_replace_atomic
#print axioms Upa.Props.C20b_replace_part_order_bites
#print axioms Upa.Props.C20b_credentials_atomic
#print axioms Upa.Props.C20b_represents
#print axioms Upa.Props.C20b_getters_partial
#print axioms Upa.Props.C20b_getters_rep
#print axioms Upa.Props.C20b_getters_tail
#print axioms Upa.Props.C20b_host_view_counterexample
#print axioms Upa.Props.C20b_update
#print axioms Upa.Props.C20b_update_ser
#print axioms Upa.Props.C20b_safe_assign_atomic
#print axioms Upa.Props.C20b_href_atomic
