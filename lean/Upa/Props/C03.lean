import Upa.Impl.Api
import Upa.Spec.Api
import Upa.Props.C10
import Upa.Props.C14
/-
  C03 — every setter behaves as the Standard's API setter, over any call sequence.
  The full statement `Impl.setValid = Spec.apiSet`, for all ten setters and over all histories, is
  `C03_setter_conforms` / `C03_history_*` in Props/C03b.lean.  This file holds the guards and ignore rules
  ("whenever the Standard ignores an assignment the URL is left exactly as it was") on the model of the
  code; several of them unfold the definition of `UrlObj.set` and are stated for the reader rather than as
  independent obligations.
-/
namespace Upa.Props
open Upa Upa.Impl

/-- an object that is not valid ignores every setter except href -/
theorem C03_invalid_inert (idna : Idna) (sp : Option Params) (s : Setter) (e : Enc) (units : List Nat)
    (h : s ≠ .href) : UrlObj.set idna ⟨none, sp⟩ s e units = (⟨none, sp⟩, false) := by
  cases s <;> simp_all [UrlObj.set]

/-- a failing href setter leaves the object exactly as it was -/
theorem C03_href_atomic (idna : Idna) (o : UrlObj) (e : Enc) (units : List Nat)
    (h : Impl.parse idna e units none = none) : o.set idna .href e units = (o, false) := by
  simp [UrlObj.set, h]

/-- "cannot have a username/password/port" (host null or empty, or scheme file): username, password
    and port setters change nothing -/
theorem C03_cannot_have (idna : Idna) (u : Url) (e : Enc) (units : List Nat)
    (h : canHaveUsernamePasswordPort u = false) :
    setValid idna .username e units u = (u, false) ∧ setValid idna .password e units u = (u, false) ∧
    setValid idna .port e units u = (u, false) := by
  simp [setValid, h]

/-- a URL with an opaque path ignores host, hostname and pathname -/
theorem C03_opaque_path (idna : Idna) (u : Url) (e : Enc) (units : List Nat) (h : u.hasOpaquePath = true) :
    setValid idna .host e units u = (u, false) ∧ setValid idna .hostname e units u = (u, false) ∧
    setValid idna .pathname e units u = (u, false) := by
  simp [setValid, h]

/-- the Standard's condition and the code's guard are the same predicate -/
theorem C03_guard_agrees (u : Url) (h : u.host = some Spec.emptyHost ∨ u.hostText ≠ [] ∨ u.host = none) :
    canHaveUsernamePasswordPort u = !Spec.cannotHaveUsernamePasswordPort u := by
  unfold canHaveUsernamePasswordPort Spec.cannotHaveUsernamePasswordPort Url.hostText Url.isFile isFileScheme
  rcases hh : u.host with _ | ⟨k, t⟩
  · simp
  · cases t with
    | nil =>
      rcases h with h | h | h
      · rw [hh] at h; simp [Spec.emptyHost] at h; subst h; simp [Spec.emptyHost]
      · simp [Url.hostText, hh] at h
      · simp [hh] at h
    | cons a t => simp [Spec.emptyHost]

/-- username and password setters (no parser involved): exactly the Standard's
    "set the username/password" = UTF-8 percent-encode with the userinfo set, for well-formed input -/
theorem C03_username_password (idna : Idna) (u : Url) (units : List Nat)
    (hs : ∀ c ∈ units, Spec.isScalar c = true) (hc : canHaveUsernamePasswordPort u = true) :
    (setValid idna .username .u32 units u).1 = { u with username := Spec.utf8PercentEncode Spec.userinfoSet units } ∧
    (setValid idna .password .u32 units u).1 = { u with password := Spec.utf8PercentEncode Spec.userinfoSet units } := by
  have hd : Impl.decode .u32 units = units := by
    have := C10_roundtrip .u32 units hs
    simpa [Spec.encode] using this
  have he : Impl.percentEncode userinfoNoEnc units = Spec.utf8PercentEncode Spec.userinfoSet units := by
    apply C14_encode Spec.userinfoSet units hs
    intro c hc'
    simp [Spec.userinfoSet, Spec.pathSet, Spec.querySet, Spec.c0ControlSet]
    omega
  simp [setValid, hc, hd, he]

/-- an empty value removes port / query / fragment (and the query/fragment cases strip the trailing
    spaces of an opaque path as the Standard prescribes) -/
theorem C03_empty_value (idna : Idna) (u : Url) (e : Enc) :
    (canHaveUsernamePasswordPort u = true → setValid idna .port e [] u = ({ u with port := none }, true)) ∧
    setValid idna .search e [] u = (stripTrailingSpaces { u with query := none }, true) ∧
    setValid idna .hash e [] u = (stripTrailingSpaces { u with fragment := none }, true) := by
  refine ⟨?_, ?_, ?_⟩ <;> simp +contextual [setValid]

-- non-vacuity: a URL that can have credentials, and one that cannot
example : canHaveUsernamePasswordPort { scheme := sHttp, host := some ⟨.domain, [0x68]⟩ } = true := by decide
example : canHaveUsernamePasswordPort { scheme := sFile, host := some ⟨.domain, [0x68]⟩ } = false := by decide

#print axioms C03_invalid_inert
#print axioms C03_href_atomic
#print axioms C03_cannot_have
#print axioms C03_opaque_path
#print axioms C03_guard_agrees
#print axioms C03_username_password
#print axioms C03_empty_value
end Upa.Props
