import Upa.Proofs.FilePathWinUnc
import Upa.Props.C17
/-
  C17b — the Windows-format round trip path_from_file_url(url_from_file_path(p)) and its fixed point
  (include/upa/url.h:3020-3330; model: Upa/Impl/FilePath.lean).  Continues Upa/Props/C17.lean.
  Helper lemmas: Upa/Proofs/FilePathWin.lean (drive paths), Upa/Proofs/FilePathWinUnc.lean (UNC paths),
  namespace Upa.Proofs.C17.

  Input paths are lists of scalar values (the decoded `std::string` / `std::wstring` argument), the
  returned path is a UTF-8 byte string; "the returned path as the next input" therefore is
  `Impl.decode .u8 p'` (= the scalar string whose UTF-8 encoding is `p'`).
-/
namespace Upa.Props
open Upa.Proofs.C17 (winClassify winSegs rtWin fixShare)
open Upa.Proofs.C02b (IdnaStable)

/-- the round trip `path_from_file_url(url_from_file_path(p, windows), windows)` -/
def c17rt (idna : Idna) (p : List Nat) : Option (List Nat) :=
  (Impl.urlFromFilePath idna p .windows).bind (fun u => Impl.pathFromFileUrl u .windows)

/-! ### 1. drive-absolute paths -/

/-- Normal form of a drive-absolute Windows path `X:\…`, `X:/…`, `X|\…`, `\\?\X:\…`, `\\.\X:\…`:
    the namespace prefix is dropped (`winClassify`), the drive letter is kept as it is, `|` becomes `:`,
    the rest is split on `\` and `/`, "." segments are dropped (a final "." leaves an empty segment, i.e. a
    trailing backslash), empty segments are kept, and the segments are joined with `\`.
    (`winSegs [t] = if t = "." then [[]] else [t]`,
     `winSegs (t :: rest) = (if t = "." then [] else [t]) ++ winSegs rest`.)
    Any other string is left alone. -/
def winNormDrive (p : List Nat) : List Nat :=
  match (winClassify p).1 with
  | a :: _ :: _ :: chk =>
    a :: 0x3A :: (winSegs (splitOnP Impl.isWindowsSlash chk)).flatMap (fun seg => 0x5C :: seg)
  | _ => p

/-- Round trip, drive-absolute paths: every accepted path that is not classified as UNC comes back as the
    UTF-8 bytes of its normal form. -/
theorem C17_roundtrip_windows_drive :
    ∀ (idna : Idna) (p : List Nat), (∀ c ∈ p, Spec.isScalar c = true) →
      (winClassify p).2 = false → (Impl.urlFromFilePath idna p .windows).isSome = true →
      c17rt idna p = some (Spec.utf8Encode (winNormDrive p)) := by
  intro idna p hs hcl hacc
  obtain ⟨u, hu⟩ := Option.isSome_iff_exists.1 hacc
  obtain ⟨h0, hcase⟩ := Proofs.C17.from_path_windows idna p u hs hu
  rcases hcase with ⟨-, ⟨a, b, c, chk, hp, hdrv, hsl, hdd⟩, hurl⟩ | ⟨hcl', -⟩
  · have hsub := Proofs.C17.pointer_sub p
    rw [hp] at hsub
    have hchk : ∀ x ∈ chk, x ∈ p := fun x hx => hsub x (by simp [hx])
    unfold c17rt
    rw [hu]
    simp only [Option.bind_some]
    rw [hurl, hp]
    unfold winNormDrive
    rw [hp]
    exact Proofs.C17.roundtrip_drive_core a b c chk (fun x hx => hs x (hchk x hx)) hdrv hsl hdd
      (fun hx => h0 (hchk 0 hx))
  · rw [hcl] at hcl'; cases hcl'

-- hypotheses satisfiable; evaluated instances.  Mixed slashes, "." segments (inner and final), an empty
-- segment, `%`, space, `?`, `#`, `|` as drive separator, U+00E9 and U+1F600 (returned as UTF-8 bytes):
example : (∀ c ∈ asciiStr "c|/a\\./b\\\\c d?#%41/" ++ [0xE9, 0x1F600] ++ asciiStr "\\.", Spec.isScalar c = true) ∧
    (winClassify (asciiStr "c|/a\\./b\\\\c d?#%41/" ++ [0xE9, 0x1F600] ++ asciiStr "\\.")).2 = false ∧
    (Impl.urlFromFilePath c17Idna (asciiStr "c|/a\\./b\\\\c d?#%41/" ++ [0xE9, 0x1F600] ++ asciiStr "\\.")
      .windows).isSome = true := by
  refine ⟨by decide, by decide, ?_⟩
  rw [C17_windows_eq]; decide +kernel
example : c17rt c17Idna (asciiStr "c|/a\\./b\\\\c d?#%41/" ++ [0xE9, 0x1F600] ++ asciiStr "\\.") =
    some (asciiStr "c:\\a\\b\\\\c d?#%41\\" ++ [0xC3, 0xA9, 0xF0, 0x9F, 0x98, 0x80, 0x5C]) := by
  rw [C17_roundtrip_windows_drive _ _ (by decide) (by decide) (by rw [C17_windows_eq]; decide +kernel)]
  decide +kernel
-- the Win32 file namespace spelling, and a bare drive root
example : c17rt c17Idna (asciiStr "\\\\?\\C:\\dir\\.\\f") = some (asciiStr "C:\\dir\\f") := by
  rw [C17_roundtrip_windows_drive _ _ (by decide) (by decide) (by rw [C17_windows_eq]; decide +kernel)]
  decide +kernel
example : c17rt c17Idna (asciiStr "C:/") = some (asciiStr "C:\\") ∧
    c17rt c17Idna (asciiStr "C:\\.") = some (asciiStr "C:\\") := by
  rw [C17_roundtrip_windows_drive _ _ (by decide) (by decide) (by rw [C17_windows_eq]; decide +kernel),
    C17_roundtrip_windows_drive _ _ (by decide) (by decide) (by rw [C17_windows_eq]; decide +kernel)]
  decide +kernel
example : winNormDrive (asciiStr "\\\\?\\C|/a/./b/.") = asciiStr "C:\\a\\b\\" := by decide +kernel

/-- Fixed point, drive-absolute paths: whatever the round trip returns is the UTF-8 encoding of the
    normal form, and the normal form — equivalently the returned byte string decoded as UTF-8 — is
    accepted and returned unchanged: one step reaches the fixed point. -/
theorem C17_fixed_point_windows_drive :
    ∀ (idna : Idna) (p p' : List Nat), (∀ c ∈ p, Spec.isScalar c = true) →
      (winClassify p).2 = false → c17rt idna p = some p' →
      p' = Spec.utf8Encode (winNormDrive p) ∧ Impl.decode .u8 p' = winNormDrive p ∧
      c17rt idna (winNormDrive p) = some p' ∧ c17rt idna (Impl.decode .u8 p') = some p' := by
  intro idna p p' hs hcl hrt
  have hacc : (Impl.urlFromFilePath idna p .windows).isSome = true := by
    cases h : Impl.urlFromFilePath idna p .windows with
    | none => unfold c17rt at hrt; rw [h] at hrt; cases hrt
    | some u => rfl
  have h1 := C17_roundtrip_windows_drive idna p hs hcl hacc
  rw [hrt] at h1
  simp only [Option.some.injEq] at h1
  obtain ⟨u, hu⟩ := Option.isSome_iff_exists.1 hacc
  obtain ⟨h0, hcase⟩ := Proofs.C17.from_path_windows idna p u hs hu
  rcases hcase with ⟨-, ⟨a, b, c, chk, hp, hdrv, hsl, hdd⟩, -⟩ | ⟨hcl', -⟩
  · have hsub := Proofs.C17.pointer_sub p
    rw [hp] at hsub
    have hchk : ∀ x ∈ chk, x ∈ p := fun x hx => hsub x (by simp [hx])
    have hn : winNormDrive p = Proofs.C17.driveNorm a chk := by
      unfold winNormDrive; rw [hp]; rfl
    obtain ⟨hfix, hsc⟩ := Proofs.C17.fixed_drive_core idna a b chk (fun x hx => hs x (hchk x hx)) hdrv hdd
      (fun hx => h0 (hchk 0 hx))
    have hdec : Impl.decode .u8 p' = winNormDrive p := by
      rw [h1, hn]; exact Impl.decode_encode .u8 _ hsc
    refine ⟨h1, hdec, ?_, ?_⟩
    · rw [h1, hn]; exact hfix
    · rw [hdec, h1, hn]; exact hfix
  · rw [hcl] at hcl'; cases hcl'

/-- for a pure-ASCII path the fixed point reads literally: the returned path is returned again -/
theorem C17_fixed_point_windows_drive_ascii :
    ∀ (idna : Idna) (p p' : List Nat), (∀ c ∈ p, c < 0x80) →
      (winClassify p).2 = false → c17rt idna p = some p' →
      p' = winNormDrive p ∧ c17rt idna p' = some p' := by
  intro idna p p' hs hcl hrt
  have hsc : ∀ c ∈ p, Spec.isScalar c = true := fun c hc => Proofs.C17.scalar_ascii c (hs c hc)
  obtain ⟨h1, hdec, h2, -⟩ := C17_fixed_point_windows_drive idna p p' hsc hcl hrt
  have hasc : ∀ c ∈ p', c < 0x80 := by
    intro c hc
    rw [h1] at hc
    have hall : ∀ x ∈ winNormDrive p, x < 0x80 := by
      intro x hx
      unfold winNormDrive at hx
      split at hx
      · rename_i a b c chk hp
        have hsub := Proofs.C17.pointer_sub p
        rw [hp] at hsub
        rcases Proofs.C17.mem_driveNorm a chk x hx with rfl | rfl | rfl | h
        · exact hs _ (hsub _ (by simp))
        · omega
        · omega
        · exact hs _ (hsub _ (by simp [h]))
      · exact hs x hx
    rw [Proofs.C17.utf8Encode_ascii _ hall] at hc
    exact hall c hc
  have e : Spec.utf8Encode p' = p' := Proofs.C17.utf8Encode_ascii _ hasc
  have hp' : p' = winNormDrive p := by
    have := congrArg Spec.utf8Encode hdec
    rw [← Impl.decode_encode .u8 p' (fun c hc => Proofs.C17.scalar_ascii c (hasc c hc))]
    show Impl.decode .u8 (Spec.utf8Encode p') = _
    rw [e]; exact hdec
  refine ⟨hp', ?_⟩
  rw [hp']; rw [hp'] at h2; exact h2

-- the fixed point on the evaluated instance above: the normal form (non-ASCII) is returned unchanged
example : c17rt c17Idna (asciiStr "c:\\a\\b\\\\c d?#%41\\" ++ [0xE9, 0x1F600, 0x5C]) =
    some (asciiStr "c:\\a\\b\\\\c d?#%41\\" ++ [0xC3, 0xA9, 0xF0, 0x9F, 0x98, 0x80, 0x5C]) := by
  rw [C17_roundtrip_windows_drive _ _ (by decide) (by decide) (by rw [C17_windows_eq]; decide +kernel)]
  decide +kernel

/-- the normal form is idempotent (unconditionally) -/
theorem C17_windows_norm_idem : ∀ p : List Nat, winNormDrive (winNormDrive p) = winNormDrive p := by
  intro p
  cases hp : (winClassify p).1 with
  | nil => have : winNormDrive p = p := by unfold winNormDrive; rw [hp]
           rw [this, this]
  | cons a r1 =>
    cases r1 with
    | nil => have : winNormDrive p = p := by unfold winNormDrive; rw [hp]
             rw [this, this]
    | cons b r2 =>
      cases r2 with
      | nil => have : winNormDrive p = p := by unfold winNormDrive; rw [hp]
               rw [this, this]
      | cons c chk =>
        have hn : winNormDrive p = Proofs.C17.driveNorm a chk := by
          unfold winNormDrive; rw [hp]; rfl
        obtain ⟨chk', h1, h2⟩ := Proofs.C17.driveNorm_idem a chk
        rw [hn]
        conv => lhs; unfold winNormDrive
        rw [h1, Proofs.C17.winClassify_colon]
        exact h2.trans h1

/-! ### 2. UNC paths -/

/-- the server name of a UNC path as the file host state parses it (host parser on the raw-encoded
    first component of the pointer) -/
def winUncHost (idna : Idna) (p : List Nat) : Option Host :=
  match splitOnP Impl.isWindowsSlash (winClassify p).1 with
  | host :: _ => Impl.parseHost idna (Impl.percentEncode Impl.rawPathNoEnc host) false
  | _ => none

/-- Normal form of a UNC path `\\server\share\…`, `\\?\UNC\server\share\…`: prefix `\\`, the serialization
    of the parsed server (IDNA / IPv4 / IPv6 canonical form), the share name (a drive-like share `C|` is
    rewritten to `C:` — `fixShare`), then the remaining segments with "." dropped as for drive paths,
    joined with `\`. -/
def winNormUnc (idna : Idna) (p : List Nat) : List Nat :=
  match splitOnP Impl.isWindowsSlash (winClassify p).1 with
  | host :: share :: rest =>
    match Impl.parseHost idna (Impl.percentEncode Impl.rawPathNoEnc host) false with
    | some hst =>
      0x5C :: 0x5C :: (hst.text ++ (fixShare share :: winSegs rest).flatMap (fun seg => 0x5C :: seg))
    | none => p
  | _ => p

/-- Round trip, UNC paths: an accepted UNC path whose parsed server is not `localhost` (finding F6) comes
    back as the UTF-8 bytes of its normal form.  (A server that parses to `.` is not accepted any more:
    `C17_unc_dot_host_rejected_from_path`.)  IDNA hypothesis: `IdnaStable` (output non-empty
    lower-case ASCII; idempotent on its own `xn--` outputs). -/
theorem C17_roundtrip_windows_unc :
    ∀ (idna : Idna) (p : List Nat) (hst : Host), IdnaStable idna → (∀ c ∈ p, Spec.isScalar c = true) →
      (winClassify p).2 = true → (Impl.urlFromFilePath idna p .windows).isSome = true →
      winUncHost idna p = some hst → hst.text ≠ Impl.sLocalhost →
      c17rt idna p = some (Spec.utf8Encode (winNormUnc idna p)) := by
  intro idna p hst hi hs hcl hacc hhost hloc
  obtain ⟨u, hu⟩ := Option.isSome_iff_exists.1 hacc
  obtain ⟨host, share, rest, hst', hsplit, hne, hph, -, -, hdot, hback⟩ :=
    Proofs.C17.roundtrip_unc_core idna p u hs hu hcl
  have he : hst' = hst := by
    unfold winUncHost at hhost
    rw [hsplit] at hhost
    simp only [] at hhost
    have hph' : Impl.parseHost idna (Impl.percentEncode Impl.rawPathNoEnc host) false = some hst' := hph
    rw [hph'] at hhost
    simpa using hhost
  subst he
  have hH := (Proofs.C17.hostTextOk_of_parse idna hi _ hst' (Proofs.C17.encR_ne_nil host hne) hph hdot).1
  unfold c17rt
  rw [hu]
  simp only [Option.bind_some]
  rw [hback hloc hH]
  unfold winNormUnc
  rw [hsplit]
  have hph' : Impl.parseHost idna (Impl.percentEncode Impl.rawPathNoEnc host) false = some hst' := hph
  simp only [hph']
  rfl

/-- Fixed point, UNC paths (general form): if in addition the raw-encoded text of the parsed server
    parses to the same host again, the normal form is accepted and returned unchanged, and it is its own
    normal form. -/
theorem C17_fixed_point_windows_unc_of_reparse :
    ∀ (idna : Idna) (p p' : List Nat) (hst : Host), IdnaStable idna → (∀ c ∈ p, Spec.isScalar c = true) →
      (winClassify p).2 = true → winUncHost idna p = some hst →
      hst.text ≠ Impl.sLocalhost →
      Impl.parseHost idna (Impl.percentEncode Impl.rawPathNoEnc hst.text) false = some hst →
      c17rt idna p = some p' →
      p' = Spec.utf8Encode (winNormUnc idna p) ∧ Impl.decode .u8 p' = winNormUnc idna p ∧
      c17rt idna (winNormUnc idna p) = some p' ∧ c17rt idna (Impl.decode .u8 p') = some p' ∧
      winNormUnc idna (winNormUnc idna p) = winNormUnc idna p := by
  intro idna p p' hst hi hs hcl hhost hloc hre hrt
  have hacc : (Impl.urlFromFilePath idna p .windows).isSome = true := by
    cases h : Impl.urlFromFilePath idna p .windows with
    | none => unfold c17rt at hrt; rw [h] at hrt; cases hrt
    | some u => rfl
  have h1 := C17_roundtrip_windows_unc idna p hst hi hs hcl hacc hhost hloc
  rw [hrt] at h1
  simp only [Option.some.injEq] at h1
  obtain ⟨u, hu⟩ := Option.isSome_iff_exists.1 hacc
  obtain ⟨host, share, rest, hst', hsplit, hne, hph, hW, hdd, hdot, -⟩ :=
    Proofs.C17.roundtrip_unc_core idna p u hs hu hcl
  have hph' : Impl.parseHost idna (Impl.percentEncode Impl.rawPathNoEnc host) false = some hst' := hph
  have he : hst' = hst := by
    unfold winUncHost at hhost
    rw [hsplit] at hhost
    simp only [] at hhost
    rw [hph'] at hhost
    simpa using hhost
  subst he
  have hH := (Proofs.C17.hostTextOk_of_parse idna hi _ hst' (Proofs.C17.encR_ne_nil host hne) hph hdot).1
  have hn : winNormUnc idna p =
      0x5C :: 0x5C :: (hst'.text ++ Proofs.C17.joinBs (fixShare share :: winSegs rest)) := by
    unfold winNormUnc
    rw [hsplit]
    simp only [hph']
    rfl
  have hfix := Proofs.C17.fixed_unc_core idna hst' (fixShare share) (winSegs rest) hH hW hdd hloc
    (Proofs.C17.fixShare_idem share) (Proofs.C17.winSegs_idem rest) hre
  have hsc : ∀ x ∈ winNormUnc idna p, Spec.isScalar x = true := by
    rw [hn]
    intro x hx
    simp only [List.mem_cons, List.mem_append] at hx
    rcases hx with rfl | rfl | hx | hx
    · decide
    · decide
    · exact Proofs.C17.scalar_ascii x (hH.ascii x hx)
    · rcases Proofs.C17.mem_join _ _ _ hx with rfl | ⟨t, ht, hxt⟩
      · decide
      · rcases List.mem_cons.1 ht with rfl | ht
        · exact hW.scalar0 x hxt
        · exact hW.scalar t ht x hxt
  have hdec : Impl.decode .u8 p' = winNormUnc idna p := by
    rw [h1]; exact Impl.decode_encode .u8 _ hsc
  have hrt2 : c17rt idna (winNormUnc idna p) = some p' := by
    rw [h1, hn]; exact hfix
  refine ⟨h1, hdec, hrt2, by rw [hdec]; exact hrt2, ?_⟩
  obtain ⟨hc1, hc2⟩ := Proofs.C17.split_uncNorm hst'.text (fixShare share) (winSegs rest) hH hW
  rw [hn]
  conv => lhs; unfold winNormUnc
  rw [hc1]
  simp only [hc2, hre]
  rw [Proofs.C17.fixShare_idem, Proofs.C17.winSegs_idem]
  rfl

/-- Fixed point, UNC paths, PARTIAL: the re-parse hypothesis is discharged (host stability, C02b/C08) when
    the parsed server name contains none of the four characters `"` `` ` `` `{` `}` that the raw path
    percent-encode set escapes (added hypothesis `hkeep`; automatically true for IPv4/IPv6 servers and for
    every server name the host parser's ASCII fast path handles). -/
theorem C17_fixed_point_windows_unc_partial :
    ∀ (idna : Idna) (p p' : List Nat) (hst : Host), IdnaStable idna → (∀ c ∈ p, Spec.isScalar c = true) →
      (winClassify p).2 = true → winUncHost idna p = some hst →
      hst.text ≠ Impl.sLocalhost →
      (∀ c ∈ hst.text, Impl.rawPathNoEnc c = true) →
      c17rt idna p = some p' →
      p' = Spec.utf8Encode (winNormUnc idna p) ∧ Impl.decode .u8 p' = winNormUnc idna p ∧
      c17rt idna (winNormUnc idna p) = some p' ∧ c17rt idna (Impl.decode .u8 p') = some p' ∧
      winNormUnc idna (winNormUnc idna p) = winNormUnc idna p := by
  intro idna p p' hst hi hs hcl hhost hloc hkeep hrt
  refine C17_fixed_point_windows_unc_of_reparse idna p p' hst hi hs hcl hhost hloc ?_ hrt
  have hacc : (Impl.urlFromFilePath idna p .windows).isSome = true := by
    cases h : Impl.urlFromFilePath idna p .windows with
    | none => unfold c17rt at hrt; rw [h] at hrt; cases hrt
    | some u => rfl
  obtain ⟨u, hu⟩ := Option.isSome_iff_exists.1 hacc
  obtain ⟨host, share, rest, hst', hsplit, hne, hph, -, -, hdot, -⟩ :=
    Proofs.C17.roundtrip_unc_core idna p u hs hu hcl
  have hph' : Impl.parseHost idna (Impl.percentEncode Impl.rawPathNoEnc host) false = some hst' := hph
  have he : hst' = hst := by
    unfold winUncHost at hhost
    rw [hsplit] at hhost
    simp only [] at hhost
    rw [hph'] at hhost
    simpa using hhost
  subst he
  obtain ⟨hH, hstable⟩ := Proofs.C17.hostTextOk_of_parse idna hi _ hst' (Proofs.C17.encR_ne_nil host hne) hph hdot
  have := Proofs.C17.encR_keep hst'.text (fun c hc => ⟨hH.ascii c hc, hkeep c hc⟩)
  show Impl.parseHost idna (Proofs.C17.encR hst'.text) false = some hst'
  rw [this]; exact hstable

/-! ### 3. non-vacuity and the exceptions -/

/-- an IDNA stand-in that satisfies `IdnaStable`: non-empty pure-ASCII input is lower-cased, anything else
    fails -/
def c17bIdna : Idna := fun l => if l ≠ [] ∧ l.all (fun c => decide (c < 0x80)) = true then some (l.map toLower) else none

theorem c17bIdna_stable : IdnaStable c17bIdna where
  out_ascii := by
    intro s r h
    unfold c17bIdna at h
    split at h
    · rename_i hc
      simp only [Option.some.injEq] at h
      subst h
      refine ⟨by simpa using hc.1, ?_⟩
      intro c hc'
      obtain ⟨x, hx, rfl⟩ := List.mem_map.1 hc'
      have hx80 : x < 0x80 := by simpa using List.all_eq_true.1 hc.2 x hx
      have tbl : ∀ x, x < 128 → toLower x < 0x80 ∧ Impl.isUpperAlpha (toLower x) = false := by decide +kernel
      exact tbl x hx80
    · cases h
  idem := by
    intro s r h _ _ _
    unfold c17bIdna at h
    split at h
    · rename_i hc
      simp only [Option.some.injEq] at h
      subst h
      have tbl : ∀ x, x < 128 → toLower x < 0x80 ∧ toLower (toLower x) = toLower x := by decide +kernel
      have hall : ∀ x ∈ s, x < 0x80 := fun x hx => by simpa using List.all_eq_true.1 hc.2 x hx
      unfold c17bIdna
      rw [if_pos]
      · congr 1
        rw [List.map_map]
        apply List.map_congr_left
        intro x hx
        exact (tbl x (hall x hx)).2
      · refine ⟨by simpa using hc.1, ?_⟩
        rw [List.all_eq_true]
        intro c hc'
        obtain ⟨x, hx, rfl⟩ := List.mem_map.1 hc'
        simpa using (tbl x (hall x hx)).1
    · cases h

-- `\\Server\C|/a\.\b c?#%41\` ++ U+00E9 ++ `\.` : hypotheses of both UNC theorems hold, evaluated instance
example : (∀ c ∈ asciiStr "\\\\Server\\C|/a\\.\\b c?#%41\\" ++ [0xE9] ++ asciiStr "\\.", Spec.isScalar c = true) ∧
    (winClassify (asciiStr "\\\\Server\\C|/a\\.\\b c?#%41\\" ++ [0xE9] ++ asciiStr "\\.")).2 = true ∧
    winUncHost c17bIdna (asciiStr "\\\\Server\\C|/a\\.\\b c?#%41\\" ++ [0xE9] ++ asciiStr "\\.") =
      some { kind := .domain, text := asciiStr "server" } ∧
    (∀ c ∈ asciiStr "server", Impl.rawPathNoEnc c = true) := by
  refine ⟨by decide, by decide, by decide +kernel, by decide⟩
example : c17rt c17bIdna (asciiStr "\\\\Server\\C|/a\\.\\b c?#%41\\" ++ [0xE9] ++ asciiStr "\\.") =
    some (asciiStr "\\\\server\\C:\\a\\b c?#%41\\" ++ [0xC3, 0xA9, 0x5C]) := by
  rw [C17_roundtrip_windows_unc c17bIdna _ { kind := .domain, text := asciiStr "server" } c17bIdna_stable
    (by decide) (by decide) (by rw [C17_windows_eq]; decide +kernel) (by decide +kernel) (by decide)]
  decide +kernel
-- the `\\?\UNC\` spelling and an IPv4 server written in hexadecimal
example : c17rt c17bIdna (asciiStr "\\\\?\\UNC\\0x7F.1\\share") = some (asciiStr "\\\\127.0.0.1\\share") := by
  rw [C17_roundtrip_windows_unc c17bIdna _ { kind := .ipv4, text := asciiStr "127.0.0.1" } c17bIdna_stable
    (by decide) (by decide) (by rw [C17_windows_eq]; decide +kernel) (by decide +kernel) (by decide)]
  decide +kernel
-- fixed point: the returned path of the first example is returned again
example : c17rt c17bIdna (asciiStr "\\\\server\\C:\\a\\b c?#%41\\" ++ [0xE9, 0x5C]) =
    some (asciiStr "\\\\server\\C:\\a\\b c?#%41\\" ++ [0xC3, 0xA9, 0x5C]) := by
  rw [C17_roundtrip_windows_unc c17bIdna _ { kind := .domain, text := asciiStr "server" } c17bIdna_stable
    (by decide) (by decide) (by rw [C17_windows_eq]; decide +kernel) (by decide +kernel) (by decide)]
  decide +kernel

/-- Finding F6 on the model: the UNC path `\\localhost\share\x` is accepted, the file host state drops the
    host `localhost`, the URL is `file:///share/x`, and path_from_file_url rejects it — the round trip is
    undefined (no fixed point).  Same for `\\LOCALHOST\…` (the host parser lower-cases). -/
theorem C17_unc_localhost_counterexample :
    (Impl.urlFromFilePath c17bIdna (asciiStr "\\\\localhost\\share\\x") .windows).map (fun u => Impl.serialize u) =
      some (asciiStr "file:///share/x") ∧
    winUncHost c17bIdna (asciiStr "\\\\localhost\\share\\x") = some { kind := .domain, text := Impl.sLocalhost } ∧
    c17rt c17bIdna (asciiStr "\\\\localhost\\share\\x") = none := by
  have hu : Impl.urlFromFilePath c17bIdna (asciiStr "\\\\localhost\\share\\x") .windows =
      some { scheme := Impl.sFile, host := some Impl.emptyHost, path := [asciiStr "share", asciiStr "x"] } := by
    rw [C17_windows_eq]; decide +kernel
  refine ⟨by rw [hu]; decide +kernel, by decide +kernel, ?_⟩
  unfold c17rt
  rw [hu]
  simp only [Option.bind_some]
  cases hr : Impl.pathFromFileUrl
      { scheme := Impl.sFile, host := some Impl.emptyHost, path := [asciiStr "share", asciiStr "x"] } .windows with
  | none => rfl
  | some q =>
    exfalso
    obtain ⟨-, -, -, hcase⟩ := Proofs.C17.pathFromFileUrl_windows _ _ hr
    have hbody : Proofs.C17.winBody
        { scheme := Impl.sFile, host := some Impl.emptyHost, path := [asciiStr "share", asciiStr "x"] } =
        asciiStr "\\share\\x" := by
      unfold Proofs.C17.winBody
      have : Impl.pathText
          { scheme := Impl.sFile, host := some Impl.emptyHost, path := [asciiStr "share", asciiStr "x"] } =
          asciiStr "/share/x" := by decide +kernel
      rw [this, Proofs.C02b.percentDecode_plain _ (by decide)]
      decide +kernel
    rw [hbody] at hcase
    have hlit : asciiStr "\\share\\x" = [0x5C, 0x73, 0x68, 0x61, 0x72, 0x65, 0x5C, 0x78] := by decide +kernel
    rcases hcase with ⟨h, -⟩ | ⟨-, s, a, rest, h, -⟩ | ⟨-, q', h, -⟩
    · exact h rfl
    · rw [hlit] at h; simp at h
    · rcases h with h | h <;> (rw [hlit] at h; simp at h)

/-- path_from_file_url rejects every file URL whose host is `.` ("UNC path cannot have "." hostname").
    Before the fix of url_from_file_path a UNC path whose server name IDNA maps to `.` (with ICU: U+3002
    IDEOGRAPHIC FULL STOP) gave such a URL: `\\。\share\x` → `file://./share/x` → url_error on the way
    back, a second exception of the kind of F6. -/
theorem C17_unc_dot_host_rejected :
    ∀ u : Url, u.isFile = true → u.hostText = [0x2E] → Impl.pathFromFileUrl u .windows = none := by
  intro u hf hh
  unfold Impl.pathFromFileUrl
  simp [hf, hh]

/-- the fix on the model: url_from_file_path (final check `file_url.hostname() == "."`,
    `Impl.rejectDotHost`) rejects a UNC path whose server parses to the host `.`; hence every accepted UNC
    path has a parsed server other than `.`, and `C17_roundtrip_windows_unc` needs no such hypothesis -/
theorem C17_unc_dot_host_rejected_from_path :
    ∀ (idna : Idna) (p : List Nat) (hst : Host), (∀ c ∈ p, Spec.isScalar c = true) →
      (winClassify p).2 = true → winUncHost idna p = some hst → hst.text = [0x2E] →
      Impl.urlFromFilePath idna p .windows = none := by
  intro idna p hst hs hcl hhost hdot
  cases hu : Impl.urlFromFilePath idna p .windows with
  | none => rfl
  | some u =>
    exfalso
    obtain ⟨host, share, rest, hst', hsplit, -, hph, -, -, hnd, -⟩ :=
      Proofs.C17.roundtrip_unc_core idna p u hs hu hcl
    have hph' : Impl.parseHost idna (Impl.percentEncode Impl.rawPathNoEnc host) false = some hst' := hph
    have he : hst' = hst := by
      unfold winUncHost at hhost
      rw [hsplit] at hhost
      simp only [] at hhost
      rw [hph'] at hhost
      simpa using hhost
    subst he
    exact hnd hdot

/-- an IDNA stand-in that maps U+3002 to `.` (as ICU does), otherwise `c17bIdna` -/
def c17bIdnaDot : Idna := fun l => if l = [0x3002] then some [0x2E] else c17bIdna l

/-- the server U+3002 parses to the host `.` (percent-decode → UTF-16 → IDNA stand-in) -/
theorem c17b_dot_host :
    winUncHost c17bIdnaDot ([0x5C, 0x5C, 0x3002] ++ asciiStr "\\share\\x") = some { kind := .domain, text := [0x2E] } := by
  have hsplit : splitOnP Impl.isWindowsSlash (winClassify ([0x5C, 0x5C, 0x3002] ++ asciiStr "\\share\\x")).1 =
      [[0x3002], asciiStr "share", asciiStr "x"] := by decide +kernel
  unfold winUncHost
  rw [hsplit]
  simp only []
  have henc : Impl.percentEncode Impl.rawPathNoEnc [0x3002] = [0x25, 0x45, 0x33, 0x25, 0x38, 0x30, 0x25, 0x38, 0x32] := by
    decide +kernel
  have hdec : Impl.percentDecode [0x25, 0x45, 0x33, 0x25, 0x38, 0x30, 0x25, 0x38, 0x32] = Spec.utf8Encode [0x3002] := by
    rw [← henc]; exact Proofs.C14.percentDecode_percentEncode _ _ (by decide) (by decide)
  rw [henc, Proofs.C08.parseHost_domain _ _ _ (by decide)]
  have hfast : Proofs.C08.fastPath [0x25, 0x45, 0x33, 0x25, 0x38, 0x30, 0x25, 0x38, 0x32] = none := by decide +kernel
  rw [hfast]
  simp only []
  unfold Proofs.C08.idnaPath
  have hde : Impl.decode .u8 (Spec.utf8Encode [0x3002]) = [0x3002] := Impl.decode_encode .u8 [0x3002] (by decide)
  rw [hdec, hde]
  have h16 : Impl.encodeUtf16 [0x3002] = [0x3002] := by decide +kernel
  rw [h16]
  have hid : c17bIdnaDot [0x3002] = some [0x2E] := by decide +kernel
  rw [hid]
  decide +kernel

/-- hypotheses of `C17_unc_dot_host_rejected_from_path` satisfiable, and its conclusion on the instance:
    `\\。\share\x` is rejected by url_from_file_path (the C++ library after the fix: url_error
    file_unsupported_path) -/
theorem C17_unc_dot_host_witness :
    Impl.urlFromFilePath c17bIdnaDot ([0x5C, 0x5C, 0x3002] ++ asciiStr "\\share\\x") .windows = none :=
  C17_unc_dot_host_rejected_from_path c17bIdnaDot _ _ (by decide) (by decide) c17b_dot_host rfl

end Upa.Props

#print axioms Upa.Props.C17_roundtrip_windows_drive
#print axioms Upa.Props.C17_fixed_point_windows_drive
#print axioms Upa.Props.C17_fixed_point_windows_drive_ascii
#print axioms Upa.Props.C17_windows_norm_idem
#print axioms Upa.Props.C17_roundtrip_windows_unc
#print axioms Upa.Props.C17_fixed_point_windows_unc_of_reparse
#print axioms Upa.Props.C17_fixed_point_windows_unc_partial
#print axioms Upa.Props.C17_unc_localhost_counterexample
#print axioms Upa.Props.C17_unc_dot_host_rejected
#print axioms Upa.Props.C17_unc_dot_host_rejected_from_path
#print axioms Upa.Props.C17_unc_dot_host_witness
#print axioms Upa.Props.c17bIdna_stable
