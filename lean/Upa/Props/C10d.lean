import Upa.Proofs.BoundsMiscAgree2
import Upa.Props.C01
/-
  C10d — LAZY decoding in the percent-encode loops = EAGER decoding (property C10 at code level for the
  encoders).  The C++ loops `detail::append_utf8_percent_encoded` (url_percent_encode.h:475-496, =
  `upa::percent_encode`), `url_parser::do_path_segment` (url.h:2471-2494) and `url_parser::do_simple_path`
  (url.h:2496-2523; the same loop is in `host_parser::parse_opaque_host`) call `read_utf_char` once per
  non-ASCII position of the input while they encode.  The bounds-instrumented models of these loops
  (`Upa/Impl/BoundsMisc.lean`: `appendUtf8PercentEncodedM`, `pathSegmentEncM`, `simplePathM`, all
  instances of `encLoopM`) are shown to return, for EVERY character width and EVERY unit string
  (ill-formed ones included), what the list models of `Upa/Impl/Percent.lean` return on the eagerly decoded
  scalar values `Impl.decode e units` — in which every maximal ill-formed subsequence is U+FFFD
  (`C10_utf8_decoder`, `C10_utf16_decoder`).  So: the output depends on the input only through its decoded
  text ("results do not depend on the character encoding"), and ill-formed input is encoded as if each
  maximal ill-formed subsequence were U+FFFD.
  Lemmas: `Upa/Proofs/BoundsMiscAgree2.lean` (`encLoopM_agrees` is the loop invariant).
-/
namespace Upa.Props
open Upa Upa.Impl.B

theorem unitsOk_uOk {e : Enc} {l : List Nat} (h : UnitsOk e l) : Upa.Proofs.C10b.UOk e l := by
  cases e <;> exact h

/-- `percent_encode` / `append_utf8_percent_encoded` with any no-encode set: lazy = eager -/
theorem C10_lazy_encode : ∀ (e : Enc) (noEnc : Nat → Bool) (a : Array Nat) (first last : Nat),
    first ≤ last → last ≤ a.size → UnitsOk e (slice a first last) →
    appendUtf8PercentEncodedM e noEnc a first last =
      .ok (Impl.percentEncode noEnc (Impl.decode e (slice a first last))) :=
  fun e n a f l h hl hu => appendUtf8PercentEncodedM_agrees e n a f l h hl (unitsOk_uOk hu)
-- hypotheses satisfiable on ill-formed input (lone lead byte E2 82, lone surrogate); evaluated instances
example : UnitsOk .u8 (slice #[0x61, 0xE2, 0x82, 0x20, 0xC3, 0xA9] 0 6) := by
  show ∀ x ∈ slice #[0x61, 0xE2, 0x82, 0x20, 0xC3, 0xA9] 0 6, x < 256
  decide
example : appendUtf8PercentEncodedM .u8 Impl.componentNoEnc #[0x61, 0xE2, 0x82, 0x20, 0xC3, 0xA9] 0 6 =
    .ok (asciiStr "a%EF%BF%BD%20%C3%A9") := by decide
example : Impl.decode .u8 [0x61, 0xE2, 0x82, 0x20, 0xC3, 0xA9] = [0x61, 0xFFFD, 0x20, 0xE9] := by decide
example : appendUtf8PercentEncodedM .u16 Impl.componentNoEnc #[0x61, 0xD800, 0x20, 0xE9] 0 4 =
    .ok (asciiStr "a%EF%BF%BD%20%C3%A9") := by decide

/-- the same text in the three encodings gives the same output (corollary: only `decode e units` matters) -/
theorem C10_lazy_encode_indep : ∀ (e e' : Enc) (noEnc : Nat → Bool) (a a' : Array Nat) (first last first' last' : Nat),
    first ≤ last → last ≤ a.size → UnitsOk e (slice a first last) →
    first' ≤ last' → last' ≤ a'.size → UnitsOk e' (slice a' first' last') →
    Impl.decode e (slice a first last) = Impl.decode e' (slice a' first' last') →
    appendUtf8PercentEncodedM e noEnc a first last = appendUtf8PercentEncodedM e' noEnc a' first' last' := by
  intro e e' n a a' f l f' l' h hl hu h' hl' hu' hd
  rw [C10_lazy_encode e n a f l h hl hu, C10_lazy_encode e' n a' f' l' h' hl' hu', hd]

/-- `do_path_segment`: the encoded segment is `percentEncode pathNoEnc` of the decoded segment
    (`Impl.pathSegment` appends exactly this); the first component is the `success` flag of the C++ -/
theorem C10_lazy_path_segment : ∀ (e : Enc) (a : Array Nat) (first last : Nat),
    first ≤ last → last ≤ a.size → UnitsOk e (slice a first last) →
    ∃ ok, pathSegmentEncM e a first last =
      .ok (ok, Impl.percentEncode Impl.pathNoEnc (Impl.decode e (slice a first last))) := by
  intro e a f l h hl hu
  obtain ⟨⟨ok, out⟩, hv, hp⟩ := pathSegmentEncM_agrees e a f l h hl (unitsOk_uOk hu)
  simp only at hp
  exact ⟨ok, by rw [hv, hp]⟩
example : pathSegmentEncM .u8 #[0x61, 0xE2, 0x82, 0x7B] 0 4 = .ok (false, asciiStr "a%EF%BF%BD%7B") := by decide
example : pathSegmentEncM .u32 #[0x61, 0x110000, 0x20AC] 0 3 = .ok (false, asciiStr "a%EF%BF%BD%E2%82%AC") := by decide

/-- `do_simple_path` (opaque path, `Impl.opaquePathState`) and the encode loop of `parse_opaque_host`
    (`Impl.parseOpaqueHost`): `percentEncodeC0` of the decoded input -/
theorem C10_lazy_simple_path : ∀ (e : Enc) (a : Array Nat) (first last : Nat),
    first ≤ last → last ≤ a.size → UnitsOk e (slice a first last) →
    ∃ ok, simplePathM e a first last = .ok (ok, Impl.percentEncodeC0 (Impl.decode e (slice a first last))) := by
  intro e a f l h hl hu
  obtain ⟨⟨ok, out⟩, hv, hp⟩ := simplePathM_agrees e a f l h hl (unitsOk_uOk hu)
  simp only at hp
  exact ⟨ok, by rw [hv, hp]⟩
example : simplePathM .u16 #[0x7F, 0x1F, 0xDC00, 0x41] 0 4 = .ok (false, asciiStr "%7F%1F%EF%BF%BDA") := by decide

#print axioms C10_lazy_encode
#print axioms C10_lazy_encode_indep
#print axioms C10_lazy_path_segment
#print axioms C10_lazy_simple_path
#print axioms unitsOk_uOk
end Upa.Props
