import Upa.Proofs.OwnHist
import Upa.Props.C06
/-
  C06b — the OWNERSHIP GRAPH between `upa::url` and `upa::url_search_params` objects
  (include/upa/url.h:696 `search_params_ptr_`, 1078-1128 move / safe_assign / move_record, 1252-1272
   search_params / clear_search_params / parse_search_params, 1386-1400 clear / swap;
   include/upa/url_search_params.h:386-387 `is_sorted_`, `url_ptr_`, 395-445 `url_search_params_ptr`,
   449-514 copy / move / safe_assign / swap; include/upa/url_search_params-inl.h:20-58).

  C06 (`Upa/Props/C06.lean`) is stated on `UrlObj`, a VALUE model: a url contains its params, so
  "which params object writes into which url" cannot go wrong there.  This file is about the heap model
  `Upa/Impl/Own.lean`: objects are cells with ids, `UCell.spPtr` is `search_params_ptr_`,
  `PCell.urlPtr` is `url_ptr_`, every operation performs the pointer writes the C++ performs, and
  `update` writes through `urlPtr`.

  Defined in `Upa/Proofs/Own*.lean` (namespace `Upa.Proofs.Own`), restated below:
    OwnInv h   the ownership invariant (a)-(d)                       (`C06b_OwnInv_def`)
    LockInv h  `LockS (abs h u)` for every id `u`, and FREE params objects hold well-formed pairs
                                                                     (`C06b_LockInv_def`, `C06b_lock_cells`)
    abs h u    the `UrlObj` the url at `u` stands for                (`C06b_abs_def`)
    HOp, stepH, runH, pre = live && asserts, lockSafe                (`Upa/Impl/Own.lean`)
    HOp.WF, HistOK                                                   (`C06b_WF_def`, `C06b_HistOK_def`)
-/
namespace Upa.Props
open Upa Upa.Impl Upa.Impl.Own Upa.Proofs.Own Upa.Proofs.C06

/-! ## 0. the definitions, spelled out -/

theorem C06b_OwnInv_def (h : Heap) :
    OwnInv h ↔
      -- (a) the pointer of a live url reaches a live params object that points back
      ((∀ u uc p, h.getU u = some uc → uc.spPtr = some p → ∃ pc, h.getP p = some pc ∧ pc.urlPtr = some u) ∧
      -- (b) a live params object that names a url is the one that url holds
       (∀ p pc u, h.getP p = some pc → pc.urlPtr = some u → ∃ uc, h.getU u = some uc ∧ uc.spPtr = some p) ∧
      -- (c) no two urls hold the same params object
       (∀ u₁ u₂ c₁ c₂ p, h.getU u₁ = some c₁ → h.getU u₂ = some c₂ → c₁.spPtr = some p → c₂.spPtr = some p →
          u₁ = u₂) ∧
      -- (d) live ids are below `next`; keys are unique
       (∀ u, h.liveU u = true → u < h.next) ∧ (∀ p, h.liveP p = true → p < h.next) ∧
       (h.urls.map (·.1)).Nodup ∧ (h.params.map (·.1)).Nodup) :=
  ⟨fun hi => ⟨hi.fwd, hi.back, hi.excl, hi.freshU, hi.freshP, hi.keysU, hi.keysP⟩,
   fun ⟨a, b, c, d, e, f, g⟩ => ⟨a, b, c, d, e, f, g⟩⟩

/-- (c) is a consequence of (a): two holders of one object would both be its `url_ptr_` -/
theorem C06b_OwnInv_excl_of_fwd (h : Heap)
    (hf : ∀ u uc p, h.getU u = some uc → uc.spPtr = some p → ∃ pc, h.getP p = some pc ∧ pc.urlPtr = some u) :
    ∀ u₁ u₂ c₁ c₂ p, h.getU u₁ = some c₁ → h.getU u₂ = some c₂ → c₁.spPtr = some p → c₂.spPtr = some p →
      u₁ = u₂ := by
  intro u₁ u₂ c₁ c₂ p h1 h2 h3 h4
  obtain ⟨pc, hp, hu1⟩ := hf u₁ c₁ p h1 h3
  obtain ⟨pc', hp', hu2⟩ := hf u₂ c₂ p h2 h4
  rw [hp] at hp'; cases hp'
  rw [hu1] at hu2; exact Option.some.inj hu2

/-- `OwnInv` is decided by the executable `Heap.check` -/
theorem C06b_check_iff (h : Heap) : h.check = true ↔ OwnInv h := check_iff h

theorem C06b_abs_def (h : Heap) (u : Nat) :
    abs h u =
      match h.getU u with
      | none => {}
      | some c =>
        { url := c.url
          sp := c.spPtr.bind (fun p => (h.getP p).map (fun pc => { list := pc.list, isSorted := pc.isSorted })) } :=
  rfl

/-- `LockInv` instantiates the invariant `LockS` of C06 (`C06_LockS_def`) at `abs h u`, for every id
    `u` (a dead id stands for the default object `{}`), and adds what C06 carried as the side condition
    of `assignParams`: detached params objects hold well-formed UTF-8 -/
theorem C06b_LockInv_def (h : Heap) :
    LockInv h ↔
      ((∀ u, LockS (abs h u)) ∧
       (∀ p pc, h.getP p = some pc → pc.urlPtr = none → ∀ x ∈ pc.list, WFB x.1 ∧ WFB x.2)) := by
  constructor
  · intro hl
    refine ⟨hl.lock, ?_⟩
    intro p pc hp hu
    exact hl.wfFree p { list := pc.list, isSorted := pc.isSorted } (by unfold cont; rw [hp]; rfl)
      (by unfold up; rw [hp, ← hu]; rfl)
  · rintro ⟨h1, h2⟩
    refine ⟨h1, ?_⟩
    intro p c hc hu
    unfold cont at hc; unfold up at hu
    cases hg : h.getP p with
    | none => rw [hg] at hc; cases hc
    | some pc =>
      rw [hg] at hc hu
      simp only [Option.map_some, Option.some.injEq] at hc hu
      subst hc
      exact h2 p pc hg hu

/-- the cell-level reading: the list of the params object a valid url holds is the parse of that
    url's query -/
theorem C06b_lock_cells : ∀ (h : Heap), LockInv h →
    ∀ u uc r p pc, h.getU u = some uc → uc.url = some r → uc.spPtr = some p → h.getP p = some pc →
      pc.list = Impl.formParse false (Impl.queryBytes (some r)) :=
  fun _ hl => hl.cells

theorem C06b_WF_def :
    (∀ l, (HOp.newParams l).WF ↔ ∀ x ∈ l, WFB x.1 ∧ WFB x.2) ∧
    (∀ p n v, (HOp.paramsMutate p (.append n v)).WF ↔ (WFB n ∧ WFB v)) ∧
    (∀ p n v, (HOp.paramsMutate p (.set n v)).WF ↔ (WFB n ∧ WFB v)) ∧
    (∀ p r bytes, (HOp.paramsMutate p (.parse r bytes)).WF ↔ ∀ x ∈ bytes, x < 256) ∧
    (∀ op : HOp, (∀ l, op ≠ .newParams l) → (∀ p m, op ≠ .paramsMutate p m) → op.WF) ∧
    (∀ m : PMut, (∀ n v, m ≠ .append n v) → (∀ n v, m ≠ .set n v) → (∀ r b, m ≠ .parse r b) → m.WF) := by
  refine ⟨fun _ => Iff.rfl, fun _ _ _ => Iff.rfl, fun _ _ _ => Iff.rfl, fun _ _ _ => Iff.rfl, ?_, ?_⟩
  · intro op h1 h2
    cases op <;> first | trivial | exact absurd rfl (h1 _) | exact absurd rfl (h2 _ _)
  · intro m h1 h2 h3
    cases m <;> first | trivial | exact absurd rfl (h1 _ _) | exact absurd rfl (h2 _ _) | exact absurd rfl (h3 _ _)

theorem C06b_HistOK_def (idna : Idna) (h : Heap) :
    (HistOK idna h [] ↔ True) ∧
    (∀ op ops, HistOK idna h (op :: ops) ↔
      (op.WF ∧ (pre h op = true → lockSafe h op = true) ∧
       HistOK idna (if pre h op then stepH idna h op else h) ops)) :=
  ⟨Iff.rfl, fun _ _ => Iff.rfl⟩

/-! ### the preconditions are the `assert`s of the C++ -/

/-- `asserts`: one clause per `assert` that the C++ executes in these member functions, nothing else.
    * url_search_params.h:473   `assert(url_ptr_ == nullptr)`                    move assignment
    * url_search_params.h:493   `assert(url_ptr_ == nullptr && other.url_ptr_ == nullptr)`   swap
    * url_search_params-inl.h:53 `assert(ptr_->url_ptr_)`   `url_search_params_ptr::operator=`, reached from
      the defaulted `url::operator=(const url&)` when `ptr_` is set, `this != &other`, `other.ptr_` is null
    (url_search_params.h:421, 425 `assert(ptr_)` sit behind `if (search_params_ptr_)` at url.h:1265, 1270) -/
theorem C06b_asserts_def (h : Heap) :
    (∀ d s, asserts h (.paramsMoveAssign d s) = (h.urlPtrOf d).isNone) ∧
    (∀ a b, asserts h (.paramsSwap a b) = ((h.urlPtrOf a).isNone && (h.urlPtrOf b).isNone)) ∧
    (∀ d s, asserts h (.urlCopyAssign d s) =
      match h.spOf d with
      | some pd => d == s || (h.spOf s).isSome || (h.urlPtrOf pd).isSome
      | none => true) ∧
    (∀ op, (∀ d s, op ≠ .paramsMoveAssign d s) → (∀ a b, op ≠ .paramsSwap a b) →
      (∀ d s, op ≠ .urlCopyAssign d s) → asserts h op = true) := by
  refine ⟨fun _ _ => rfl, fun _ _ => rfl, fun _ _ => rfl, ?_⟩
  intro op h1 h2 h3
  cases op <;> first | rfl | exact absurd rfl (h1 _ _) | exact absurd rfl (h2 _ _) | exact absurd rfl (h3 _ _)

/-- `pre = live && asserts`; `live`: the operands exist, are distinct where one is moved into the
    other, and only a FREE params object is destroyed by the user -/
theorem C06b_pre_def (h : Heap) (op : HOp) : pre h op = (live h op && asserts h op) := rfl

/-- the third `assert` can never fire: in a heap that satisfies `OwnInv`, the params object a url holds
    always has a non-null `url_ptr_` -/
theorem C06b_internal_assert : ∀ (h : Heap) (d s : Nat), OwnInv h → asserts h (.urlCopyAssign d s) = true :=
  fun h d s hi => internal_assert h d s hi

/-! ## 1. the ownership invariant holds after every history -/

private def c06bHttp (host : String) (q : Option (List Nat)) : Url :=
  { scheme := asciiStr "http", host := some ⟨.domain, asciiStr host⟩, path := [[]], query := q }

/-- url 0 = "http://a/?x=1" without a params object; url 1 = "http://b/?y=2" holding params object 2 -/
private def c06bHeap : Heap :=
  { urls := [(0, { url := some (c06bHttp "a" (some (asciiStr "x=1"))), spPtr := none }),
             (1, { url := some (c06bHttp "b" (some (asciiStr "y=2"))), spPtr := some 2 })]
    params := [(2, { list := [(asciiStr "y", asciiStr "2")], isSorted := false, urlPtr := some 1 })]
    next := 3 }


theorem C06b_init : OwnInv {} ∧ LockInv {} := ⟨ownInv_empty, lockInv_empty⟩

/-- **One step.**  Every operation whose precondition holds preserves the ownership invariant, and —
    for well-formed arguments (as in `C06_inv`) and unless it moves the list out of an OWNED params
    object (`lockSafe`, see `C06b_move_from_owned_breaks_lock`) — the lock-step invariant. -/
theorem C06b_step : ∀ (idna : Idna) (h : Heap) (op : HOp), OwnInv h → pre h op = true →
    OwnInv (stepH idna h op) ∧
    (LockInv h → op.WF → lockSafe h op = true → LockInv (stepH idna h op)) :=
  fun idna h op hi hp =>
    ⟨stepH_ownInv idna h op hp hi,
     fun hl hw hs => stepH_lockInv idna h op ((ownInv_iff h).1 hi).1 hl hp hw hs⟩

-- hypotheses satisfiable on `c06bHeap` (url 0 without params, url 1 holding object 2);
-- move assignment `url0 = std::move(url1)`: the pointer moves and the back pointer is rewritten
example : OwnInv c06bHeap ∧ pre c06bHeap (.urlMoveAssign 0 1) = true ∧ (HOp.urlMoveAssign 0 1).WF ∧
    lockSafe c06bHeap (.urlMoveAssign 0 1) = true := by decide
example :
    let h' := stepH stubIdna c06bHeap (.urlMoveAssign 0 1)
    h'.spOf 0 = some 2 ∧ h'.urlPtrOf 2 = some 0 ∧ h'.spOf 1 = none ∧ h'.recOf 1 = none ∧
    h'.recOf 0 = c06bHeap.recOf 1 ∧ OwnInv h' := by decide
-- a skipped operation: move assignment INTO the owned object 2 (`assert(url_ptr_ == nullptr)`)
example : pre c06bHeap (.paramsMoveAssign 2 2) = false ∧
    pre (newParams c06bHeap []).1 (.paramsMoveAssign 2 3) = false ∧
    pre (newParams c06bHeap []).1 (.paramsMoveAssign 3 2) = true ∧
    lockSafe (newParams c06bHeap []).1 (.paramsMoveAssign 3 2) = false := by decide
-- the internal assert on it
example : asserts c06bHeap (.urlCopyAssign 1 0) = true := by decide

/-- **Histories.**  From the empty heap, after any list of operations (an operation whose
    precondition fails is skipped): `OwnInv`; and `LockInv` when the side conditions hold along the
    history. -/
theorem C06b_history : ∀ (idna : Idna) (ops : List HOp),
    OwnInv (runH idna {} ops) ∧ (HistOK idna {} ops → LockInv (runH idna {} ops)) :=
  fun idna ops =>
    ⟨runH_ownInv idna ops {} ownInv_empty, runH_lockInv idna ops {} ownInv_empty lockInv_empty⟩

/-- the same from any heap that satisfies the invariants -/
theorem C06b_history_from : ∀ (idna : Idna) (h : Heap) (ops : List HOp), OwnInv h →
    OwnInv (runH idna h ops) ∧ (LockInv h → HistOK idna h ops → LockInv (runH idna h ops)) :=
  fun idna h ops hi => ⟨runH_ownInv idna ops h hi, fun hl hk => runH_lockInv idna ops h hi hl hk⟩

/-- in particular, in every reachable heap under the side conditions, the two executable checks pass
    and the cell-level lock-step statement holds -/
theorem C06b_history_cells : ∀ (idna : Idna) (ops : List HOp), HistOK idna {} ops →
    let h := runH idna {} ops
    h.check = true ∧ h.checkLock = true ∧
    ∀ u uc r p pc, h.getU u = some uc → uc.url = some r → uc.spPtr = some p → h.getP p = some pc →
      pc.list = Impl.formParse false (Impl.queryBytes (some r)) := by
  intro idna ops hk
  have h1 := (C06b_history idna ops).1
  have h2 := (C06b_history idna ops).2 hk
  exact ⟨(check_iff _).2 h1, checkLock_of_lockInv h1 h2, h2.cells⟩

/-! ### a concrete history: two urls, a detached params object; every special member function

  `a = url("http://h/p?b=2&a=1")` (id 0), `a.search_params()` (id 1), `b = url()` (id 2), `b = a` (copy
  assignment: record only, `b` has no params object), `b.search_params()` (id 3), `a.swap(b)` (now `a`
  holds 3 and `b` holds 1; the temporary had id 4), `c = url(std::move(a))` (id 5, takes 3),
  `q = url_search_params(b.search_params())` (copy, id 6, FREE), `b.search_params().sort()`,
  `b.safe_assign(std::move(c))`, `q.append("z", "3")`, `b.search_params() = q`, `a.href("foo:x?k=v")`
  (temporary url id 7), destroy `c` (and with it params object 3) -/
private def c06bHistory : List HOp :=
  [.newUrl, .urlParse 0 .u8 (asciiStr "http://h/p?b=2&a=1") none, .urlSearchParams 0,
   .newUrl, .urlCopyAssign 2 0, .urlSearchParams 2, .urlSwap 0 2, .urlMoveConstruct 0,
   .paramsCopyConstruct 1, .paramsMutate 1 .sort, .urlSafeAssign 2 5, .paramsMutate 6 (.append (asciiStr "z") (asciiStr "3")),
   .paramsCopyAssign 1 6, .urlSet 0 .href .u8 (asciiStr "foo:x?k=v"), .destroyUrl 5]

-- the hypotheses of `C06b_history` are satisfiable on it, and no operation is skipped
set_option maxRecDepth 16000 in
example : HistOK stubIdna {} c06bHistory := by decide

set_option maxRecDepth 16000 in
/-- the pointer graph at the end: url 0 (`a`, re-parsed by `href`, no params object: it was moved
    from), url 2 (`b`) holds params object 1 which points back to 2, params object 6 (`q`) is FREE;
    url 5 (`c`) and its params object 3 are destroyed, the temporaries 4 and 7 are gone -/
example :
    let h := runH stubIdna {} c06bHistory
    h.urls.map (fun kv => (kv.1, kv.2.spPtr)) = [(0, none), (2, some 1)] ∧
    h.params.map (fun kv => (kv.1, kv.2.urlPtr)) = [(1, some 2), (6, none)] ∧
    h.next = 8 ∧ (h.recOf 0).isSome = true := by decide

example : OwnInv (runH stubIdna {} c06bHistory) := (C06b_history stubIdna c06bHistory).1
example : LockInv (runH stubIdna {} c06bHistory) := (C06b_history stubIdna c06bHistory).2 (by decide)

/-! ## 2. lock-step: where the C++ does NOT keep it -/


/-- **Moving the list out of an OWNED params object breaks lock-step** (not ownership).
    `url_search_params q(std::move(u.search_params()))` — or `std::move(u).search_params()`, or
    `q = std::move(u.search_params())`, or `q.safe_assign(std::move(u.search_params()))` — is legal C++
    with no `assert` in its way; `move_params` / the move constructor empty the owned list and do not
    call `update()` on it: the url keeps its query, its params object is empty.  Confirmed on the real
    library: `u.search()` is `"?a=1&b=2"`, `u.search_params().size()` is 0.  This is why `C06b_step`
    carries `lockSafe` for the lock-step half. -/
theorem C06b_move_from_owned_breaks_lock :
    let h' := (paramsMoveConstruct c06bHeap 2).1
    pre c06bHeap (.paramsMoveConstruct 2) = true ∧ lockSafe c06bHeap (.paramsMoveConstruct 2) = false ∧
    pre c06bHeap (.urlSearchParamsRvalue 1) = true ∧ (urlSearchParamsRvalue c06bHeap 1).1 = h' ∧
    OwnInv h' ∧
    (abs h' 1).url.bind (·.query) = some (asciiStr "y=2") ∧ (abs h' 1).sp.map (·.list) = some [] ∧
    Impl.formParse false (asciiStr "y=2") = [(asciiStr "y", asciiStr "2")] ∧
    ¬ Lock (abs h' 1) ∧ ¬ LockInv h' := by
  have hp : Impl.formParse false (asciiStr "y=2") = [(asciiStr "y", asciiStr "2")] := by
    rw [Upa.Proofs.C15.formParse_eqK]; decide
  have habs : abs (paramsMoveConstruct c06bHeap 2).1 1 =
      { url := some (c06bHttp "b" (some (asciiStr "y=2"))), sp := some { list := [], isSorted := false } } := by
    decide
  have hnl : ¬ Lock (abs (paramsMoveConstruct c06bHeap 2).1 1) := by
    intro hl
    have := hl _ _ (by rw [habs]) (by rw [habs])
    rw [show Impl.queryBytes (some (c06bHttp "b" (some (asciiStr "y=2")))) = asciiStr "y=2" from rfl, hp] at this
    revert this; decide
  exact ⟨by decide, by decide, by decide, by decide, by decide, by decide, by decide, hp, hnl,
    fun hl => hnl (hl.lock 1).lock⟩

/-! ## 3. `update()` has at most one target: the owner -/

/-- In every reachable heap, an edit of the params object `p` (any `f`, followed by `update()`)
    changes the record of at most one url — the one `p.url_ptr_` names, which is the url that holds
    `p` — changes no other params object, and moves no pointer. -/
theorem C06b_update_target : ∀ (idna : Idna) (ops : List HOp) (p : Nat) (f : Params → Params) (a : Bool),
    let h := runH idna {} ops
    let h' := paramsMutate h p f a
    (∀ u, h'.recOf u ≠ h.recOf u → h.urlPtrOf p = some u ∧ h.spOf u = some p) ∧
    (∀ u₁ u₂, h'.recOf u₁ ≠ h.recOf u₁ → h'.recOf u₂ ≠ h.recOf u₂ → u₁ = u₂) ∧
    (∀ q, q ≠ p → h'.getP q = h.getP q) ∧
    (∀ u, (h'.getU u).map (·.spPtr) = (h.getU u).map (·.spPtr)) ∧
    (∀ q, (h'.getP q).map (·.urlPtr) = (h.getP q).map (·.urlPtr)) := by
  intro idna ops p f a
  have hi := runH_ownInv idna ops {} ownInv_empty
  refine ⟨fun u hne => paramsMutate_target _ p f a hi u hne, ?_, fun q hq => paramsMutate_getP_ne _ p f a q hq,
    fun u => paramsMutate_getU_spPtr _ p f a u, fun q => (sameG_paramsMutate _ p f a).2.1 q⟩
  intro u₁ u₂ h1 h2
  have e1 := (paramsMutate_target _ p f a hi u₁ h1).1
  have e2 := (paramsMutate_target _ p f a hi u₂ h2).1
  rw [e1] at e2; exact Option.some.inj e2

/-- a FREE params object writes into no url at all -/
theorem C06b_update_free : ∀ (h : Heap) (p : Nat) (f : Params → Params) (a : Bool), h.urlPtrOf p = none →
    ∀ u, (paramsMutate h p f a).recOf u = h.recOf u :=
  fun h p f a hp u => paramsMutate_recOf h p f a u (by rw [hp]; simp)

-- concrete: an edit of params object 2 of `c06bHeap` rewrites url 1 and leaves url 0 alone
example :
    let h' := paramsMutate c06bHeap 2 (·.append (asciiStr "z") (asciiStr "3"))
    (h'.recOf 1).bind (·.query) = some (asciiStr "y=2&z=3") ∧ h'.recOf 0 = c06bHeap.recOf 0 ∧
    c06bHeap.urlPtrOf 2 = some 1 ∧ c06bHeap.spOf 1 = some 2 := by decide

/-! ## 4. copies are detached -/

/-- **Copies are detached.**  In a heap satisfying `OwnInv`:
    1. the copy `q` of a params object `p` (`paramsCopyConstruct`) is a new FREE object with `p`'s list
       and flag; no edit of `p` changes `q`; no edit of `q` changes any url record or `p`;
    2. the same for the result of the move constructor and of `url::search_params() &&`;
    3. the copy `n` of a url `s` (`urlCopyConstruct`) has `s`'s record and NO params object; the one
       `search_params()` creates for it is new, points back to `n`, `s` keeps its own; edits of the new
       object never write into `s` or change `s`'s params object (`update` goes through the copy's own
       url), and edits of `s`'s params object never write into `n` or change `n`'s. -/
theorem C06b_copies_detached : ∀ (h : Heap), OwnInv h →
    (∀ p, h.liveP p = true →
      let h' := (paramsCopyConstruct h p).1
      let q := (paramsCopyConstruct h p).2
      q = h.next ∧ h.getP q = none ∧ q ≠ p ∧
      (∃ pc, h'.getP q = some pc ∧ pc.list = h.listOf p ∧ pc.isSorted = h.sortedOf p ∧ pc.urlPtr = none) ∧
      (∀ f a, (paramsMutate h' p f a).getP q = h'.getP q) ∧
      (∀ f a u, (paramsMutate h' q f a).recOf u = h'.recOf u) ∧
      (∀ f a, (paramsMutate h' q f a).getP p = h'.getP p)) ∧
    (∀ p, h.liveP p = true →
      let h' := (paramsMoveConstruct h p).1
      let q := (paramsMoveConstruct h p).2
      q = h.next ∧ h.getP q = none ∧ q ≠ p ∧
      (∃ pc, h'.getP q = some pc ∧ pc.list = h.listOf p ∧ pc.isSorted = h.sortedOf p ∧ pc.urlPtr = none) ∧
      (∀ f a, (paramsMutate h' p f a).getP q = h'.getP q) ∧
      (∀ f a u, (paramsMutate h' q f a).recOf u = h'.recOf u) ∧
      (∀ f a, (paramsMutate h' q f a).getP p = h'.getP p)) ∧
    (∀ u,
      let h' := (urlSearchParamsRvalue h u).1
      let q := (urlSearchParamsRvalue h u).2
      q = h.next ∧ h.getP q = none ∧ h.spOf u ≠ some q ∧ h'.urlPtrOf q = none ∧ h'.liveP q = true ∧
      (∀ p f a, p ≠ q → (paramsMutate h' p f a).getP q = h'.getP q) ∧
      (∀ f a v, (paramsMutate h' q f a).recOf v = h'.recOf v) ∧
      (∀ p f a, p ≠ q → (paramsMutate h' q f a).getP p = h'.getP p)) ∧
    (∀ s, h.liveU s = true →
      let h' := (urlCopyConstruct h s).1
      let n := (urlCopyConstruct h s).2
      let h'' := urlSearchParams h' n
      let q := h'.next
      n = h.next ∧ n ≠ s ∧ h'.recOf n = h.recOf s ∧ h'.spOf n = none ∧
      h''.spOf n = some q ∧ h''.urlPtrOf q = some n ∧ h.getP q = none ∧ h.spOf s ≠ some q ∧
      h''.spOf s = h.spOf s ∧
      (∀ f a, (paramsMutate h'' q f a).recOf s = h''.recOf s) ∧
      (∀ f a ps, h.spOf s = some ps → (paramsMutate h'' q f a).getP ps = h''.getP ps) ∧
      (∀ f a ps, h.spOf s = some ps → (paramsMutate h'' ps f a).recOf n = h''.recOf n ∧
        (paramsMutate h'' ps f a).getP q = h''.getP q)) :=
  fun h hi =>
    ⟨fun p hp => paramsCopyConstruct_detached h p hi hp, fun p hp => paramsMoveConstruct_detached h p hi hp,
     fun u => urlSearchParamsRvalue_detached h u hi, fun s hs => urlCopyConstruct_detached h s hi hs⟩

-- concrete: copy params object 2 of `c06bHeap`; edit the copy; url 1 and object 2 are what they were
example :
    let h' := (paramsCopyConstruct c06bHeap 2).1
    let h'' := paramsMutate h' 3 (·.append (asciiStr "z") (asciiStr "3"))
    (paramsCopyConstruct c06bHeap 2).2 = 3 ∧ h'.urlPtrOf 3 = none ∧
    h''.listOf 3 = [(asciiStr "y", asciiStr "2"), (asciiStr "z", asciiStr "3")] ∧
    h''.recOf 1 = c06bHeap.recOf 1 ∧ h''.getP 2 = c06bHeap.getP 2 := by decide

/-! ## 5. refinement: the heap operations on urls are the `UrlObj` operations of `Impl/Api.lean` -/

/-- **Refinement.**  `abs h u` is the `UrlObj` the url at `u` stands for.  In a heap satisfying
    `OwnInv`, every heap operation acts on `abs` of the urls involved as the corresponding `UrlObj`
    operation, and leaves `abs` of every other url unchanged.  (So every theorem of C06 about `UrlObj`
    histories applies to each url of the heap.)

    `safe_assign`: the DESTINATION is `(safeAssign dst src).1`.  The SOURCE is `safeAssignSrc dst src`:
    invalid, its params object emptied with the flag it had (`Api.safeAssign` says `false`) — and NOT
    emptied at all when the destination had no params object (url.h:1113-1115; `Api.safeAssign` says
    emptied).  Both differences are on a moved-from, invalid url, where `LockS` says nothing about the
    list; `C06b_safeAssignSrc_agrees` states exactly when the two coincide. -/
theorem C06b_refines : ∀ (h : Heap), OwnInv h →
    -- search_params() &
    (∀ u, h.liveU u = true → ∀ u', abs (urlSearchParams h u) u' =
      if u' = u then (abs h u).searchParams else abs h u') ∧
    -- copy constructor
    (∀ s u', abs (urlCopyConstruct h s).1 u' =
      if u' = (urlCopyConstruct h s).2 then copyConstruct (abs h s) else abs h u') ∧
    -- copy assignment
    (∀ d s, h.liveU d = true → h.liveU s = true → ∀ u', abs (urlCopyAssign h d s) u' =
      if u' = d then copyAssign (abs h d) (abs h s) else abs h u') ∧
    -- move constructor
    (∀ s, h.liveU s = true → ∀ u', abs (urlMoveConstruct h s).1 u' =
      if u' = (urlMoveConstruct h s).2 then (moveAssign (abs h s)).1
      else if u' = s then (moveAssign (abs h s)).2 else abs h u') ∧
    -- move assignment
    (∀ d s, h.liveU d = true → h.liveU s = true → d ≠ s → ∀ u', abs (urlMoveAssign h d s) u' =
      if u' = d then (moveAssign (abs h s)).1 else if u' = s then (moveAssign (abs h s)).2 else abs h u') ∧
    -- safe_assign
    (∀ d s, h.liveU d = true → h.liveU s = true → d ≠ s → ∀ u', abs (urlSafeAssign h d s) u' =
      if u' = d then (safeAssign (abs h d) (abs h s)).1
      else if u' = s then safeAssignSrc (abs h d) (abs h s) else abs h u') ∧
    -- swap
    (∀ a b, h.liveU a = true → h.liveU b = true → ∀ u', abs (urlSwap h a b) u' =
      if u' = a then abs h b else if u' = b then abs h a else abs h u') ∧
    -- clear
    (∀ u u', abs (urlClear h u) u' = if u' = u then (abs h u).clear else abs h u') ∧
    -- parse
    (∀ idna u e units base, h.liveU u = true → ∀ u', abs (urlDoParse h u (parseResult idna e units base)) u' =
      if u' = u then ((abs h u).parse idna e units base).1 else abs h u') ∧
    -- the ten setters
    (∀ idna u s e units, h.liveU u = true → ∀ u', abs (urlSet idna h u s e units) u' =
      if u' = u then ((abs h u).set idna s e units).1 else abs h u') ∧
    -- update() of the params object `p`
    (∀ p u', abs (update h p) u' = if h.urlPtrOf p = some u' then (abs h u').update else abs h u') ∧
    -- a list edit + update() through the params object `p`
    (∀ p f a, h.liveP p = true → ∀ u', abs (paramsMutate h p f a) u' =
      if h.urlPtrOf p = some u' then (abs h u').spApply f a else abs h u') ∧
    -- `p = other` (copy assignment of params objects) is the edit "take list and flag of `s`"
    (∀ d s, d ≠ s → h.liveP d = true → h.liveP s = true →
      paramsCopyAssign h d s = paramsMutate h d (fun _ => { list := h.listOf s, isSorted := h.sortedOf s }) true) ∧
    -- destruction
    (∀ u u', abs (destroyUrl h u) u' = if u' = u then {} else abs h u') := by
  intro h hi
  have hg := ((ownInv_iff h).1 hi).1
  refine ⟨fun u hu u' => urlSearchParams_abs h u hg hu u', fun s u' => urlCopyConstruct_abs h s hg u',
    fun d s hd hs u' => urlCopyAssign_abs h d s hg hd hs u', fun s hs u' => urlMoveConstruct_abs h s hg hs u',
    fun d s hd hs hds u' => urlMoveAssign_abs h d s hg hd hs hds u',
    fun d s hd hs hds u' => urlSafeAssign_abs h d s hg hd hs hds u',
    fun a b ha hb u' => urlSwap_abs h a b hg ha hb u', fun u u' => urlClear_abs h u hg u', ?_,
    fun idna u s e units hu u' => urlSet_abs idna h u s e units hg hu u', ?_, ?_,
    fun d s hds hd hs => paramsCopyAssign_eq h d s hds hd hs, fun u u' => destroyUrl_abs h u hg u'⟩
  · intro idna u e units base hu u'
    rw [urlDoParse_abs h u _ hg hu, parse_eq_parseRes]
  · intro p u'
    rw [update_abs h p hg, urlPtrOf_eq]
    rcases hu : up h p with _ | _ | v <;> simp
  · intro p f a hp u'
    rw [paramsMutate_abs h p f a hg hp, urlPtrOf_eq]
    have hl := hp
    rw [liveP_eq] at hl
    rcases hu : up h p with _ | _ | v
    · simp [hu] at hl
    · simp
    · simp

theorem C06b_safeAssignSrc_def (dst src : UrlObj) :
    safeAssignSrc dst src =
      { url := none
        sp := if dst.sp.isSome then src.sp.map (fun p => { list := [], isSorted := p.isSorted }) else src.sp } :=
  rfl

/-- the source after `safe_assign`, heap model against `Api.safeAssign`: both invalid, both with or
    without a params object alike; the lists agree iff the destination had a params object or the
    source list was empty already -/
theorem C06b_safeAssignSrc_agrees (dst src : UrlObj) :
    (safeAssignSrc dst src).url = (safeAssign dst src).2.url ∧
    (safeAssignSrc dst src).sp.isSome = (safeAssign dst src).2.sp.isSome ∧
    (dst.sp.isSome = true →
      (safeAssignSrc dst src).sp.map (·.list) = (safeAssign dst src).2.sp.map (·.list)) ∧
    LockS (safeAssign dst src).2 ∧ (LockS src → LockS (safeAssignSrc dst src)) := by
  refine ⟨rfl, ?_, ?_, ?_, lockS_safeAssignSrc dst src⟩
  · unfold safeAssignSrc safeAssign
    cases src.sp <;> cases dst.sp <;> simp
  · intro hd
    unfold safeAssignSrc safeAssign
    cases hs : src.sp with
    | none => simp [hd]
    | some q => simp [hd]
  · show LockS { url := none, sp := src.sp.map (fun _ => ({ list := [], isSorted := false } : Params)) }
    apply lockS_invalid
    intro p hp
    cases hs : src.sp with
    | none => simp [hs] at hp
    | some q => simp [hs] at hp; subst hp; exact AllWFP_nil

-- concrete: `safe_assign` into a url WITHOUT a params object leaves the source's list in place
example :
    let h' := urlSafeAssign c06bHeap 0 1
    abs h' 0 = { url := some (c06bHttp "b" (some (asciiStr "y=2"))), sp := none } ∧
    abs h' 1 = { url := none, sp := some { list := [(asciiStr "y", asciiStr "2")], isSorted := false } } ∧
    (safeAssign (abs c06bHeap 0) (abs c06bHeap 1)).2 = { url := none, sp := some { list := [], isSorted := false } } ∧
    OwnInv h' := by decide

/-- **Frame.**  Creating objects, destroying a FREE params object, and everything done between FREE
    params objects changes what NO url stands for; `safe_assign` from a FREE object is the edit "take
    list and flag of `s`" on the owner of `d`. -/
theorem C06b_refines_free : ∀ (h : Heap), OwnInv h →
    (∀ u', abs (newUrl h).1 u' = abs h u') ∧
    (∀ l u', abs (newParams h l).1 u' = abs h u') ∧
    (∀ p u', abs (paramsCopyConstruct h p).1 u' = abs h u') ∧
    (∀ p, h.urlPtrOf p = none → ∀ u', abs (paramsMoveConstruct h p).1 u' = abs h u') ∧
    (∀ d s, h.urlPtrOf d = none → h.urlPtrOf s = none → ∀ u', abs (paramsMoveAssign h d s) u' = abs h u') ∧
    (∀ a b, h.urlPtrOf a = none → h.urlPtrOf b = none → ∀ u', abs (paramsSwap h a b) u' = abs h u') ∧
    (∀ p, h.urlPtrOf p = none → ∀ u', abs (destroyParams h p) u' = abs h u') ∧
    (∀ u, h.spOf u = none → ∀ u', abs (urlSearchParamsRvalue h u).1 u' = abs h u') ∧
    (∀ d s, d ≠ s → h.liveP d = true → h.liveP s = true → h.urlPtrOf s = none → ∀ u',
      abs (paramsSafeAssign h d s) u' =
        if h.urlPtrOf d = some u' then
          (abs h u').spApply (fun _ => { list := h.listOf s, isSorted := h.sortedOf s }) true
        else abs h u') := by
  intro h hi
  have hg := ((ownInv_iff h).1 hi).1
  have free : ∀ p, h.urlPtrOf p = none → ∀ u, up h p ≠ some (some u) := by
    intro p hp u hu; rw [urlPtrOf_eq, hu] at hp; cases hp
  refine ⟨newUrl_abs h hg, fun l => newParams_abs h l hg, fun p => paramsCopyConstruct_abs h p hg,
    fun p hp => paramsMoveConstruct_abs h p hg (free p hp),
    fun d s hd hs => paramsMoveAssign_abs h d s hg (free d hd) (free s hs),
    fun a b ha hb => paramsSwap_abs h a b hg (free a ha) (free b hb),
    fun p hp => destroyParams_abs h p hg (free p hp),
    fun u hu => urlSearchParamsRvalue_abs h u hg hu, ?_⟩
  intro d s hds hd hs hfs u'
  have hss : up h s = some none := by
    rw [liveP_eq] at hs; rw [urlPtrOf_eq] at hfs
    rcases hu : up h s with _ | _ | v <;> simp_all
  rw [paramsSafeAssign_abs h d s hg hds hd hss, urlPtrOf_eq]
  rw [liveP_eq] at hd
  rcases hu : up h d with _ | _ | v <;> simp_all

-- concrete: swap on `c06bHeap` — the params object changes hands and its back pointer follows
example :
    let h' := urlSwap c06bHeap 0 1
    abs h' 0 = abs c06bHeap 1 ∧ abs h' 1 = abs c06bHeap 0 ∧
    h'.spOf 0 = some 2 ∧ h'.spOf 1 = none ∧ h'.urlPtrOf 2 = some 0 ∧ OwnInv h' := by decide

/-! ## 6. the invariant bites: the two seeded slips -/

/-- **(i) `c06_r2_safe_assign_no_url_ptr`.**  `urlSafeAssignBad` is `url::safe_assign` with, in the
    branch where the destination has no params object, `search_params_ptr_ =
    std::move(other.search_params_ptr_)` and no `set_url_ptr(this)`.  On `c06bHeap` (`a` = url 0 without
    params, `b` = url 1 holding object 2): afterwards `a` holds object 2 but object 2 still names `b` —
    `OwnInv` (b) (and (a)) fail.  An `append` through `a.search_params()` then leaves `a`'s query
    stale; and once `b` has been re-parsed, the same `append` rewrites `b` — the MOVED-FROM url. -/
theorem C06b_bites_safe_assign :
    let h1 := urlSafeAssignBad c06bHeap 0 1
    let f : Params → Params := (·.append (asciiStr "z") (asciiStr "3"))
    OwnInv c06bHeap ∧ pre c06bHeap (.urlSafeAssign 0 1) = true ∧
    -- the pointer graph after the slip
    h1.spOf 0 = some 2 ∧ h1.spOf 1 = none ∧ h1.urlPtrOf 2 = some 1 ∧ ¬ OwnInv h1 ∧
    -- (b) fails at object 2: it names url 1, which does not hold it
    (∃ pc, h1.getP 2 = some pc ∧ pc.urlPtr = some 1 ∧ ∀ uc, h1.getU 1 = some uc → uc.spPtr ≠ some 2) ∧
    -- an edit through `a`'s params object: the list changes, `a`'s query does not
    (let h2 := paramsMutate h1 2 f
     h2.listOf 2 = [(asciiStr "y", asciiStr "2"), (asciiStr "z", asciiStr "3")] ∧
     (h2.recOf 0).bind (·.query) = some (asciiStr "y=2")) ∧
    -- `b` re-parsed, then the same edit: it is written into `b`
    (let h2 := urlDoParse h1 1 (some (c06bHttp "b2" (some (asciiStr "q=1"))))
     let h3 := paramsMutate h2 2 f
     (h3.recOf 1).bind (·.query) = some (asciiStr "y=2&z=3") ∧ (h3.recOf 0).bind (·.query) = some (asciiStr "y=2")) ∧
    -- the real `safe_assign` on the same heap: no pointer moves, `OwnInv` holds
    OwnInv (urlSafeAssign c06bHeap 0 1) := by
  refine ⟨by decide, by decide, by decide, by decide, by decide, by decide, ?_, by decide, by decide, by decide⟩
  refine ⟨_, (by decide : (urlSafeAssignBad c06bHeap 0 1).getP 2 =
      some { list := [(asciiStr "y", asciiStr "2")], isSorted := false, urlPtr := some 1 }), rfl, ?_⟩
  intro uc huc
  have : (urlSafeAssignBad c06bHeap 0 1).getU 1 = some { url := none, spPtr := none } := by decide
  rw [this] at huc; cases huc; simp

/-- **(ii) a url copy constructor that copies `search_params_ptr_`** (shares the object): (c) fails —
    two urls hold params object 2 — and so does (a) for the copy. -/
theorem C06b_bites_shared_params :
    let h1 := (urlCopyConstructBad c06bHeap 1).1
    (urlCopyConstructBad c06bHeap 1).2 = 3 ∧ h1.spOf 1 = some 2 ∧ h1.spOf 3 = some 2 ∧ h1.urlPtrOf 2 = some 1 ∧
    ¬ OwnInv h1 ∧
    ¬ (∀ u₁ u₂ c₁ c₂ p, h1.getU u₁ = some c₁ → h1.getU u₂ = some c₂ → c₁.spPtr = some p → c₂.spPtr = some p →
        u₁ = u₂) ∧
    -- an edit through the copy's `search_params()` rewrites the ORIGINAL url
    (let h2 := paramsMutate h1 2 (·.append (asciiStr "z") (asciiStr "3"))
     (h2.recOf 1).bind (·.query) = some (asciiStr "y=2&z=3") ∧ (h2.recOf 3).bind (·.query) = some (asciiStr "y=2")) ∧
    -- the real copy constructor
    OwnInv (urlCopyConstruct c06bHeap 1).1 ∧ (urlCopyConstruct c06bHeap 1).1.spOf 3 = none := by
  refine ⟨by decide, by decide, by decide, by decide, by decide, ?_, by decide, by decide, by decide⟩
  intro hc
  have h1 : (urlCopyConstructBad c06bHeap 1).1.getU 1 =
      some { url := some (c06bHttp "b" (some (asciiStr "y=2"))), spPtr := some 2 } := by decide
  have h3 : (urlCopyConstructBad c06bHeap 1).1.getU 3 =
      some { url := some (c06bHttp "b" (some (asciiStr "y=2"))), spPtr := some 2 } := by decide
  exact absurd (hc 1 3 _ _ 2 h1 h3 rfl rfl) (by decide)

/-- **(iii) a params copy constructor that copies `url_ptr_`**: (b) fails — the copy names url 1,
    which holds object 2, not the copy — and an edit of the COPY rewrites the original url. -/
theorem C06b_bites_copied_back_pointer :
    let h1 := (paramsCopyConstructBad c06bHeap 2).1
    (paramsCopyConstructBad c06bHeap 2).2 = 3 ∧ h1.urlPtrOf 3 = some 1 ∧ h1.spOf 1 = some 2 ∧ ¬ OwnInv h1 ∧
    (let h2 := paramsMutate h1 3 (·.append (asciiStr "z") (asciiStr "3"))
     (h2.recOf 1).bind (·.query) = some (asciiStr "y=2&z=3") ∧
     h2.listOf 2 = [(asciiStr "y", asciiStr "2")]) ∧
    OwnInv (paramsCopyConstruct c06bHeap 2).1 ∧ (paramsCopyConstruct c06bHeap 2).1.urlPtrOf 3 = none := by
  decide

end Upa.Props

#print axioms Upa.Props.C06b_OwnInv_def
#print axioms Upa.Props.C06b_OwnInv_excl_of_fwd
#print axioms Upa.Props.C06b_check_iff
#print axioms Upa.Props.C06b_LockInv_def
#print axioms Upa.Props.C06b_lock_cells
#print axioms Upa.Props.C06b_WF_def
#print axioms Upa.Props.C06b_HistOK_def
#print axioms Upa.Props.C06b_asserts_def
#print axioms Upa.Props.C06b_pre_def
#print axioms Upa.Props.C06b_internal_assert
#print axioms Upa.Props.C06b_init
#print axioms Upa.Props.C06b_step
#print axioms Upa.Props.C06b_history
#print axioms Upa.Props.C06b_history_from
#print axioms Upa.Props.C06b_history_cells
#print axioms Upa.Props.C06b_move_from_owned_breaks_lock
#print axioms Upa.Props.C06b_update_target
#print axioms Upa.Props.C06b_update_free
#print axioms Upa.Props.C06b_copies_detached
#print axioms Upa.Props.C06b_refines
#print axioms Upa.Props.C06b_safeAssignSrc_agrees
#print axioms Upa.Props.C06b_refines_free
#print axioms Upa.Props.C06b_bites_safe_assign
#print axioms Upa.Props.C06b_bites_shared_params
#print axioms Upa.Props.C06b_bites_copied_back_pointer
