import Upa.Gen.Tables
import Upa.Impl.Utf
/-
  C10 — the two bit tables of the ICU-style UTF-8 decoder (src/url_utf.cpp: k_U8_LEAD3_T1_BITS,
  k_U8_LEAD4_T1_BITS) as transcribed from the CURRENT source text by tools/gen.py equal the constants
  of the model `Impl.readU8`, about which `C10_utf8_decoder` is proved.  A one-bit edit of a table
  breaks this obligation (and the bounded-exhaustive `utf 8` correspondence stream shows the input).
-/
namespace Upa.Props
theorem C10_utf8_tables : Upa.Gen.u8Lead3T1Bits = Upa.Impl.lead3T1Bits ∧ Upa.Gen.u8Lead4T1Bits = Upa.Impl.lead4T1Bits := by
  decide
#print axioms C10_utf8_tables
end Upa.Props
