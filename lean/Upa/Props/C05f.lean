import Upa.Impl.UpdateRep
import Upa.Impl.Api
import Upa.Props.C05b
/-!
# C05 (representation), the write-back of a URL-owned URLSearchParams list

`url_search_params::update()` edits the QUERY part of the owning url in place.  The operation on the
representation (`Impl.updateRep`) maps any representation of `u` to a representation of the record the
record-level model (`UrlObj.update`, the one the lock-step theorems of C06 are about) computes.
-/
namespace Upa.Props
open Upa Upa.Impl Upa.Proofs.C05 Upa.Proofs.SetRep

theorem formSerialize_eq_nil : ∀ l : List BPair, formSerialize l = [] ↔ l = [] := by
  intro l
  constructor
  · intro h
    match l, h with
    | [], _ => rfl
    | [(n, v)], h => simp [formSerialize] at h
    | (n, v) :: _ :: _, h => simp [formSerialize] at h
  · intro h; subst h; rfl

/-- what the correspondence check replays (only the serialized list is visible there) is `updateRep` -/
theorem C05f_update_ser : ∀ (r : Rep) (l : List BPair), updateRepSer r (formSerialize l) = updateRep r l := by
  intro r l
  unfold updateRepSer updateRep
  by_cases h : l = []
  · subst h; rfl
  · have : formSerialize l ≠ [] := fun hh => h ((formSerialize_eq_nil l).mp hh)
    have hne : (formSerialize l).isEmpty = false := by
      cases hs : formSerialize l with
      | nil => exact absurd hs this
      | cons _ _ => rfl
    simp [h, hne]

/-- `update()` on any representation of `u` gives a representation of the updated record -/
theorem C05f_update : ∀ (u : Url) (p : Params) (r : Rep), RepOk u → RepFor r u →
    ∃ u', (UrlObj.update { url := some u, sp := some p }).url = some u' ∧ RepFor (updateRep r p.list) u' := by
  intro u p r ok h
  unfold UrlObj.update updateRep
  by_cases hl : p.list = []
  · simp only [hl, if_true]
    refine ⟨_, rfl, ?_⟩
    have ok' : RepOk { u with query := none } := ok
    exact C05b_strip_trailing_spaces _ _ ok' (C05b_clear_query u r ok h)
  · simp only [hl, if_false]
    exact ⟨_, rfl, C05b_write_query u _ r ok h⟩

/-- the updated record again satisfies `RepOk` (so edits and setter calls compose) -/
theorem C05f_update_repok : ∀ (u : Url) (p : Params), RepOk u →
    ∀ u', (UrlObj.update { url := some u, sp := some p }).url = some u' → RepOk u' := by
  intro u p ok u' hu
  unfold UrlObj.update at hu
  by_cases hl : p.list = []
  · simp only [hl, if_true, Option.some.injEq] at hu
    subst hu
    have ok' : RepOk { u with query := none } := ok
    unfold stripTrailingSpaces
    split
    · exact ⟨ok'.1, fun h1 h2 => by simp_all, ok'.2.2⟩
    · exact ok'
  · simp only [hl, if_false, Option.some.injEq] at hu
    subst hu; exact ok

-- sp.append("k","v w") on http://h/p#f and sp.clear() on an opaque path with trailing spaces
example : (updateRep (layout { scheme := asciiStr "http", host := some { kind := .domain, text := asciiStr "h" }, path := [asciiStr "p"], fragment := some (asciiStr "f") })
    [(asciiStr "k", asciiStr "v w")]).norm = asciiStr "http://h/p?k=v+w#f" := by decide
example : (updateRep (layout { scheme := asciiStr "a", hasOpaquePath := true, opaquePath := asciiStr "x  ", query := some (asciiStr "q") }) []).norm = asciiStr "a:x" := by decide

end Upa.Props

#print axioms Upa.Props.C05f_update
#print axioms Upa.Props.C05f_update_ser
#print axioms Upa.Props.C05f_update_repok
