import Upa.Proofs.Ipv4
/-
  C11: IPv4 parser / serializer (include/upa/url_ip.h, src/url_ip.cpp) against the URL Standard §3.5.
  Code-shaped model: `Upa.Impl` (Upa/Impl/Ip.lean); Standard: `Upa.Spec` (Upa/Spec/Ip.lean).
  Helper lemmas: Upa/Proofs/Ipv4.lean.
-/
namespace Upa.Props
open Upa

/-! ### 1. hostname_ends_in_a_number = the Standard's ends-in-a-number checker -/

theorem C11_ends_in_number : ∀ s : List Nat, Impl.endsInNumber s = Spec.endsInANumber s :=
  Impl.Ipv4.endsInNumber_eq

-- both outcomes occur; trailing dot, hex prefix, empty last label, non-numeric last label
example : Impl.endsInNumber (asciiStr "0x7f.1") = true ∧ Spec.endsInANumber (asciiStr "0x7f.1") = true := by decide
example : Impl.endsInNumber (asciiStr "1.2.3.4.") = true ∧ Spec.endsInANumber (asciiStr "1.2.3.4.") = true := by decide
example : Impl.endsInNumber (asciiStr "example.0x") = true ∧ Spec.endsInANumber (asciiStr "example.0x") = true := by decide
example : Impl.endsInNumber (asciiStr "a.09") = true ∧ Spec.endsInANumber (asciiStr "a.09") = true := by decide
example : Impl.endsInNumber (asciiStr "1.2.3.4..") = false ∧ Spec.endsInANumber (asciiStr "1.2.3.4..") = false := by decide
example : Impl.endsInNumber (asciiStr "1.2.0xg") = false ∧ Spec.endsInANumber (asciiStr "1.2.0xg") = false := by decide
example : Impl.endsInNumber (asciiStr "1.example") = false ∧ Spec.endsInANumber (asciiStr "1.example") = false := by decide
example : Impl.endsInNumber (asciiStr ".") = false ∧ Spec.endsInANumber (asciiStr ".") = false := by decide

/-! ### 2. ipv4_parse = the Standard's IPv4 parser (failure, or the same address) -/

theorem C11_parse : ∀ s : List Nat, Impl.ipv4Parse s = Spec.ipv4Parse s :=
  Impl.Ipv4.ipv4Parse_eq

-- accepted inputs (hex / octal / trailing dot / fewer than four parts / many leading zeros)
example : Impl.ipv4Parse (asciiStr "0x7f.1") = some 2130706433 ∧ Spec.ipv4Parse (asciiStr "0x7f.1") = some 2130706433 := by decide
example : Impl.ipv4Parse (asciiStr "1.2.3.4.") = some 16909060 ∧ Spec.ipv4Parse (asciiStr "1.2.3.4.") = some 16909060 := by decide
example : Impl.ipv4Parse (asciiStr "4294967295") = some 4294967295 ∧ Spec.ipv4Parse (asciiStr "4294967295") = some 4294967295 := by decide
example : Impl.ipv4Parse (asciiStr "037777777777") = some 4294967295 ∧ Spec.ipv4Parse (asciiStr "037777777777") = some 4294967295 := by decide
example : Impl.ipv4Parse (asciiStr "0x000000000000000000000001") = some 1 ∧ Spec.ipv4Parse (asciiStr "0x000000000000000000000001") = some 1 := by decide
example : Impl.ipv4Parse (asciiStr "1.2.0x") = some 16908288 ∧ Spec.ipv4Parse (asciiStr "1.2.0x") = some 16908288 := by decide
-- rejected inputs: part > 255, value ≥ 2^32, > 11 significant digits (the code's cut-off; the
-- Standard computes the unbounded value and rejects it afterwards), value ≥ 2^64 (no wrap-around
-- acceptance), five parts, five dots, empty part, non-IPv4 character, "09" is octal
example : Impl.ipv4Parse (asciiStr "256.1") = none ∧ Spec.ipv4Parse (asciiStr "256.1") = none := by decide
example : Impl.ipv4Parse (asciiStr "4294967296") = none ∧ Spec.ipv4Parse (asciiStr "4294967296") = none := by decide
example : Impl.ipv4Parse (asciiStr "999999999999") = none ∧ Spec.ipv4Parse (asciiStr "999999999999") = none := by decide
example : Impl.ipv4Parse (asciiStr "18446744073709551617") = none ∧ Spec.ipv4Parse (asciiStr "18446744073709551617") = none := by decide
example : Impl.ipv4Parse (asciiStr "0x10000000000000001") = none ∧ Spec.ipv4Parse (asciiStr "0x10000000000000001") = none := by decide
example : Impl.ipv4Parse (asciiStr "1.2.3.4.5") = none ∧ Spec.ipv4Parse (asciiStr "1.2.3.4.5") = none := by decide
example : Impl.ipv4Parse (asciiStr "1.2.3.4..") = none ∧ Spec.ipv4Parse (asciiStr "1.2.3.4..") = none := by decide
example : Impl.ipv4Parse (asciiStr "1..2") = none ∧ Spec.ipv4Parse (asciiStr "1..2") = none := by decide
example : Impl.ipv4Parse (asciiStr "1.2.3.g") = none ∧ Spec.ipv4Parse (asciiStr "1.2.3.g") = none := by decide
example : Impl.ipv4Parse (asciiStr "09") = none ∧ Spec.ipv4Parse (asciiStr "09") = none := by decide
example : Impl.ipv4Parse [] = none ∧ Spec.ipv4Parse [] = none := by decide

/-! ### 3. an accepted address fits 32 bits -/

theorem C11_parse_range : ∀ s n, Impl.ipv4Parse s = some n → n < 2^32 :=
  Impl.Ipv4.ipv4Parse_lt

-- the hypothesis is satisfiable, and the bound is attained
example : Impl.ipv4Parse (asciiStr "255.255.255.255") = some 4294967295 := by decide
example : ∃ s n, Impl.ipv4Parse s = some n ∧ n + 1 = 2^32 :=
  ⟨asciiStr "0xffffffff", 4294967295, by decide, by decide⟩

/-! ### 4. ipv4_serialize = the Standard's IPv4 serializer -/

theorem C11_serialize : ∀ n, n < 2^32 → Impl.ipv4Serialize n = Spec.ipv4Serialize n :=
  fun n _ => Impl.Ipv4.ipv4Serialize_eq n

example : (2130706433 : Nat) < 2^32 := by decide
example : Impl.ipv4Serialize 2130706433 = asciiStr "127.0.0.1" := by decide
example : Spec.ipv4Serialize 2130706433 = asciiStr "127.0.0.1" := by decide
example : Impl.ipv4Serialize 4294967295 = asciiStr "255.255.255.255" := by decide
example : Impl.ipv4Serialize 0 = asciiStr "0.0.0.0" := by decide
-- the exported unsigned_to_str lemmas on concrete values
example : Impl.unsignedToStr 10 (fun d => 0x30 + d) 209 = asciiStr "209" := by decide
example : Impl.unsignedToStr 16 hexDigitLower 0xfe80 = asciiStr "fe80" := by decide

/-! ### 5. round trip: parsing a serialized address gives the address back -/

theorem C11_roundtrip : ∀ n, n < 2^32 → Impl.ipv4Parse (Impl.ipv4Serialize n) = some n := by
  intro n hn
  rw [Impl.Ipv4.ipv4Serialize_eq, Impl.Ipv4.ipv4Parse_eq]
  exact Impl.Ipv4.spec_roundtrip n hn

example : Impl.ipv4Serialize 3232235777 = asciiStr "192.168.1.1" ∧
    Impl.ipv4Parse (asciiStr "192.168.1.1") = some 3232235777 := by decide
example : Impl.ipv4Parse (Impl.ipv4Serialize 167772170) = some 167772170 := by decide  -- 10.0.0.10
-- the bound is needed: 2^32 serializes to "0.0.0.0"
example : Impl.ipv4Parse (Impl.ipv4Serialize 4294967296) = some 0 := by decide

end Upa.Props

#print axioms Upa.Props.C11_ends_in_number
#print axioms Upa.Props.C11_parse
#print axioms Upa.Props.C11_parse_range
#print axioms Upa.Props.C11_serialize
#print axioms Upa.Props.C11_roundtrip
#print axioms Upa.Impl.unsignedToStr_dec
#print axioms Upa.Impl.unsignedToStr_hex
