import Upa.Gen.Tables
import Upa.Props.C13
/-
  C18 — all supported build configurations behave identically.
  A model cannot contain the compiler: the configuration quantifier is covered by translation
  validation (tools/extra.py `configs`: every configuration's binary must print the transcript the one
  formal model predicts).  What is logic in the configuration switches is proved here:
  the three `util::append_tr` strategies are one function, and the regenerated tables of the four
  language modes (hand-maintained literals in C++11/14, constexpr builders in C++17/20) coincide.
-/
namespace Upa.Props
open Upa.Gen

/-- `util::append_tr`, strategy 1 (`resize_and_overwrite`) and 2 (`resize` + `std::transform` into the
    new tail): the destination grows by `src.length` default elements which are then overwritten -/
def appendTrResize (dest src : List Nat) (f : Nat → Nat) : List Nat :=
  let grown := dest ++ List.replicate src.length 0
  grown.take dest.length ++ src.map f

/-- strategy 3 (`reserve` + `std::back_inserter`): one push_back per element -/
def appendTrBackInserter (dest src : List Nat) (f : Nat → Nat) : List Nat :=
  src.foldl (fun d c => d ++ [f c]) dest

theorem C18_append_tr (dest src : List Nat) (f : Nat → Nat) :
    appendTrResize dest src f = dest ++ src.map f ∧ appendTrBackInserter dest src f = dest ++ src.map f := by
  constructor
  · simp [appendTrResize]
  · unfold appendTrBackInserter
    induction src generalizing dest with
    | nil => simp
    | cons c cs ih => simp [List.foldl_cons, ih, List.append_assoc]

example : appendTrBackInserter [1, 2] [65, 66] (· + 32) = [1, 2, 97, 98] := by decide

/-- the sixteen regenerated tables are the same in all four language modes (table and constexpr
    builders coincide); regenerated on every run -/
theorem C18_tables_equal_across_modes :
    (cpp11_fragment = cpp17_fragment ∧ cpp11_query = cpp17_query ∧ cpp11_squery = cpp17_squery ∧ cpp11_path = cpp17_path ∧
     cpp11_rawpath = cpp17_rawpath ∧ cpp11_posixpath = cpp17_posixpath ∧ cpp11_userinfo = cpp17_userinfo ∧
     cpp11_component = cpp17_component ∧ cpp11_fhost = cpp17_fhost ∧ cpp11_fdomain = cpp17_fdomain ∧ cpp11_hex = cpp17_hex ∧
     cpp11_ipv4char = cpp17_ipv4char ∧ cpp11_scheme = cpp17_scheme ∧ cpp11_asciidomain = cpp17_asciidomain ∧
     cpp11_encbyte = cpp17_encbyte) ∧
    (cpp14_fragment = cpp11_fragment ∧ cpp14_query = cpp11_query ∧ cpp14_squery = cpp11_squery ∧ cpp14_path = cpp11_path ∧
     cpp14_rawpath = cpp11_rawpath ∧ cpp14_posixpath = cpp11_posixpath ∧ cpp14_userinfo = cpp11_userinfo ∧
     cpp14_component = cpp11_component ∧ cpp14_fhost = cpp11_fhost ∧ cpp14_fdomain = cpp11_fdomain ∧ cpp14_hex = cpp11_hex ∧
     cpp14_ipv4char = cpp11_ipv4char ∧ cpp14_scheme = cpp11_scheme ∧ cpp14_asciidomain = cpp11_asciidomain ∧
     cpp14_encbyte = cpp11_encbyte) ∧
    (cpp20_fragment = cpp17_fragment ∧ cpp20_query = cpp17_query ∧ cpp20_squery = cpp17_squery ∧ cpp20_path = cpp17_path ∧
     cpp20_rawpath = cpp17_rawpath ∧ cpp20_posixpath = cpp17_posixpath ∧ cpp20_userinfo = cpp17_userinfo ∧
     cpp20_component = cpp17_component ∧ cpp20_fhost = cpp17_fhost ∧ cpp20_fdomain = cpp17_fdomain ∧ cpp20_hex = cpp17_hex ∧
     cpp20_ipv4char = cpp17_ipv4char ∧ cpp20_scheme = cpp17_scheme ∧ cpp20_asciidomain = cpp17_asciidomain ∧
     cpp20_encbyte = cpp17_encbyte) := by decide +kernel

/-- scheme table, part start table and flag constants are the same in all modes -/
theorem C18_constants_equal_across_modes :
    (cpp11_schemes == cpp17_schemes && cpp14_schemes == cpp17_schemes && cpp20_schemes == cpp17_schemes &&
     cpp11_partstart == cpp17_partstart && cpp14_partstart == cpp17_partstart && cpp20_partstart == cpp17_partstart &&
     cpp11_flags == cpp17_flags && cpp14_flags == cpp17_flags && cpp20_flags == cpp17_flags &&
     cpp11_partflagmask == cpp17_partflagmask && cpp14_partflagmask == cpp17_partflagmask &&
     cpp20_partflagmask == cpp17_partflagmask) = true := by
  decide +kernel

#print axioms C18_append_tr
#print axioms C18_tables_equal_across_modes
#print axioms C18_constants_equal_across_modes
end Upa.Props
