import Upa.Props.C05d
/-!
# C04 (memory safety), on the stored representation: every getter view stays inside the serialization

The C++ getters return `string_view(norm_url_.data() + b, e - b)` with `b`, `e` taken from `part_end_`.
Such a view is inside the string iff the offsets are within the string and ascending.  For the
from-scratch layout this is `C05_layout_monotone`; here it is lifted to EVERY representation of a record
(any pattern of never-started trailing parts, as the in-place edits of `url_setter` produce them) and,
through `C05d_history`, to the state after any history of setter calls as the C++ executes them
(`Impl.setRep`).  This is the predicate `consistent()` of harness/fault.cpp and what ASan observes,
as a theorem about all histories.
-/
namespace Upa.Props
open Upa Upa.Impl Upa.Proofs.C05 Upa.Proofs.SetRep Upa.Proofs.SetRepApi

/-- every offset is inside the string, the table has its 11 entries, and once the never-started
    trailing parts are read as "end of string" the offsets ascend -/
def OffsetsOk (r : Rep) : Prop :=
  r.partEnd.length = 11 ∧ (∀ x ∈ r.partEnd, x ≤ r.norm.length) ∧
  List.Pairwise (· ≤ ·) r.fill.partEnd ∧ (∀ x ∈ r.fill.partEnd, x ≤ r.norm.length)

theorem fillTrailing_cons (n y : Nat) (ys : List Nat) :
    fillTrailing n (y :: ys) = (if y = 0 ∧ ys.all (· == 0) = true then n else y) :: fillTrailing n ys := rfl

/-- an entry of the raw table is 0 or survives filling -/
theorem fillTrailing_mem_raw (n : Nat) (l : List Nat) :
    ∀ x ∈ l, x = 0 ∨ x ∈ fillTrailing n l := by
  induction l with
  | nil => intro x hx; cases hx
  | cons y ys ih =>
    intro x hx
    rw [fillTrailing_cons]
    rcases List.mem_cons.mp hx with h | h
    · subst h
      by_cases hz : x = 0 ∧ ys.all (· == 0) = true
      · exact Or.inl hz.1
      · right; rw [if_neg hz]; exact List.mem_cons_self
    · rcases ih x h with h0 | hm
      · exact Or.inl h0
      · exact Or.inr (List.mem_cons_of_mem _ hm)

/-- an entry of the filled table is `n` or a raw entry -/
theorem fillTrailing_mem (n : Nat) (l : List Nat) : ∀ z ∈ fillTrailing n l, z = n ∨ z ∈ l := by
  induction l with
  | nil => intro z hz; cases hz
  | cons a as iha =>
    intro z hz
    rw [fillTrailing_cons] at hz
    rcases List.mem_cons.mp hz with h1 | h1
    · by_cases hc : a = 0 ∧ as.all (· == 0) = true
      · rw [if_pos hc] at h1; exact Or.inl h1
      · rw [if_neg hc] at h1; exact Or.inr (h1 ▸ List.mem_cons_self)
    · rcases iha z h1 with h2 | h2
      · exact Or.inl h2
      · exact Or.inr (List.mem_cons_of_mem _ h2)

/-- a table of zeros is filled with `n` throughout -/
theorem fillTrailing_all_zero (n : Nat) :
    ∀ (l : List Nat), l.all (· == 0) = true → ∀ z ∈ fillTrailing n l, z = n := by
  intro l
  induction l with
  | nil => intro _ z hz; cases hz
  | cons a as iha =>
    intro hall z hz
    simp only [List.all_cons, Bool.and_eq_true, beq_iff_eq] at hall
    rw [fillTrailing_cons] at hz
    rcases List.mem_cons.mp hz with h1 | h1
    · rw [if_pos ⟨hall.1, hall.2⟩] at h1; exact h1
    · exact iha hall.2 z h1

theorem fillTrailing_bounded (n : Nat) (l : List Nat) (h : ∀ x ∈ l, x ≤ n) :
    ∀ x ∈ fillTrailing n l, x ≤ n := by
  intro x hx
  rcases fillTrailing_mem n l x hx with h1 | h1
  · omega
  · exact h x h1

/-- filling keeps an ascending table (all entries ≤ n) ascending -/
theorem fillTrailing_pairwise (n : Nat) (l : List Nat) (hle : ∀ x ∈ l, x ≤ n)
    (hp : List.Pairwise (· ≤ ·) l) : List.Pairwise (· ≤ ·) (fillTrailing n l) := by
  induction l with
  | nil => exact List.Pairwise.nil
  | cons y ys ih =>
    have hle' : ∀ x ∈ ys, x ≤ n := fun z hz => hle z (List.mem_cons_of_mem _ hz)
    rcases List.pairwise_cons.mp hp with ⟨hy, hys⟩
    rw [fillTrailing_cons]
    refine List.pairwise_cons.mpr ⟨?_, ih hle' hys⟩
    intro z hz
    by_cases hc : y = 0 ∧ ys.all (· == 0) = true
    · rw [if_pos hc, fillTrailing_all_zero n ys hc.2 z hz]; exact Nat.le_refl _
    · rw [if_neg hc]
      rcases fillTrailing_mem n ys z hz with h1 | h1
      · rw [h1]; exact hle y List.mem_cons_self
      · exact hy z h1

/-- every representation of a record has its offsets inside the string -/
theorem C04_rep_offsets_ok : ∀ (r : Rep) (u : Url), RepFor r u → OffsetsOk r := by
  intro r u ⟨heq, hwf⟩
  obtain ⟨hp, hl, hle⟩ := C05_layout_monotone u
  have heq' : r.fill = (layout u).fill := heq
  have hnorm : r.fill.norm = (layout u).fill.norm := congrArg Rep.norm heq'
  have hnorm : r.norm = (layout u).norm := hnorm
  have hpe : r.fill.partEnd = (layout u).fill.partEnd := congrArg Rep.partEnd heq'
  have hfle : ∀ x ∈ r.fill.partEnd, x ≤ r.norm.length := by
    rw [hpe, hnorm]; exact fillTrailing_bounded _ _ hle
  refine ⟨hwf.1, ?_, ?_, hfle⟩
  · intro x hx
    rcases fillTrailing_mem_raw r.norm.length r.partEnd x hx with h0 | hm
    · omega
    · exact hfle x hm
  · rw [hpe]; exact fillTrailing_pairwise _ _ hle hp

/-- after ANY history of setter calls, executed on the representation as the C++ executes them, from any
    representation of a record satisfying the invariants of parsed URLs: offsets inside the string -/
theorem C04_offsets_ok_history :
    ∀ (idna : Idna) (calls : List Call) (u₀ : Url) (r₀ : Rep),
      (∀ c ∈ calls, c.1 ≠ .href) → RepOk u₀ → HostInv u₀ → RepFor r₀ u₀ →
      OffsetsOk (runRep idna calls r₀).1 := by
  intro idna calls u₀ r₀ hc ok hi h
  exact C04_rep_offsets_ok _ _ (C05d_history idna calls u₀ r₀ hc ok hi h).1

/-- … in particular from any parsed URL -/
theorem C04_offsets_ok_history_parsed :
    ∀ (idna : Idna), Proofs.C02b.IdnaStable idna → ∀ (e₀ : Enc) (units₀ : List Nat) (u₀ : Url),
      parse idna e₀ units₀ none = some u₀ →
      ∀ calls : List Call, (∀ c ∈ calls, c.1 ≠ .href) →
      OffsetsOk (runRep idna calls (layout u₀)).1 := by
  intro idna hi e₀ units₀ u₀ hp calls hc
  exact C04_rep_offsets_ok _ _ (C05d_history_parsed idna hi e₀ units₀ u₀ hp calls hc).1

/-- the representation the seeded change `c20_r3` leaves after a failed `username()`: offsets of USERNAME /
    PASSWORD already moved, string untouched -/
def c20r3Rep : Rep where
  norm := asciiStr "http://example.org/"
  partEnd := [4, 7, 71, 71, 18, 18, 18, 18, 19, 0, 0]
  hostNotNull := true
  portNotNull := false
  queryNotNull := false
  fragmentNotNull := false
  opaquePath := false
  hostType := 2
  segCount := 1
  schemeIdx := some 3

/-- teeth: it is rejected -/
example : ¬ OffsetsOk c20r3Rep := by
  intro h; have := h.2.1 71 (by decide); revert this; decide

example : OffsetsOk (layout c05Full) := C04_rep_offsets_ok _ _ (C05b_layout c05Full (by decide))

end Upa.Props

#print axioms Upa.Props.C04_rep_offsets_ok
#print axioms Upa.Props.C04_offsets_ok_history
#print axioms Upa.Props.C04_offsets_ok_history_parsed
