import Upa.Proofs.BoundsAgree3Ip4
import Upa.Proofs.BoundsAgree3Ip6
/-
  C04h — AGREEMENT theorems for the bounds-instrumented scanners of `Upa/Impl/Bounds.lean` /
  `Upa/Impl/BoundsMisc.lean` that did not have one yet (in-bounds / pointers / termination:
  `Upa/Props/C04b.lean`, `Upa/Props/C04e.lean`): the instrumented model (array + index, every read checked,
  local arrays with checked indices) returns `.ok` of what the list model of `Upa/Impl/*.lean` computes on
  `slice a first last`.
  Lemmas: `Upa/Proofs/BoundsAgree3Ip4.lean`, `Upa/Proofs/BoundsAgree3Ip6.lean`.
-/
namespace Upa.Props
open Upa Upa.Impl.B

/-! ### url_ip.h ipv4_parse -/

/-- `ipv4_parse(first, last, ipv4)` (the pointer array `part[6]`, the numbers `number[4]`) = `Impl.ipv4Parse`
    (list of lists), for every input — any code unit width: the scan loop admits only the ASCII IPv4
    characters, so `ipv4_parse_number` (which casts to `unsigned char`) only sees bytes -/
theorem C04_agrees_ipv4_parse : ∀ (a : Array Nat) (first last : Nat), first ≤ last → last ≤ a.size →
    ipv4Parse a first last = .ok (Impl.ipv4Parse (slice a first last)) :=
  ipv4Parse_agrees
example : ipv4Parse (ofStr "192.0x00A80001") 0 14 = .ok (some 0xC0A80001) := by decide
example : Impl.ipv4Parse (asciiStr "192.0x00A80001") = some 0xC0A80001 := by decide
example : ipv4Parse (ofStr "1.2.3.4.") 0 8 = .ok (some 0x01020304) := by decide
example : ipv4Parse (ofStr "1..2") 0 4 = .ok none := by decide
example : ipv4Parse (ofStr "1.2.3.4.5") 0 9 = .ok none := by decide
-- a unit outside the byte range is rejected by the scan, it never reaches the `unsigned char` cast
example : ipv4Parse #[0x31, 0x131] 0 2 = .ok none ∧ Impl.ipv4Parse [0x31, 0x131] = none := by decide

/-! ### url_ip.h ipv6_parse -/

/-- `ipv6_parse(first, last, address)` (`get_hex_number`, the main loop, the IPv4 tail, the final shift on
    the local `uint16_t address[8]`) = `Impl.ipv6Parse`, for every input -/
theorem C04_agrees_ipv6_parse : ∀ (a : Array Nat) (first last : Nat), first ≤ last → last ≤ a.size →
    ipv6Parse a first last = .ok (Impl.ipv6Parse (slice a first last)) :=
  ipv6Parse_agrees
example : ipv6Parse (ofStr "1:2::ffff:1.2.3.4") 0 17 = .ok (some [1, 2, 0, 0, 0, 0xFFFF, 0x0102, 0x0304]) := by decide
example : Impl.ipv6Parse (asciiStr "1:2::ffff:1.2.3.4") = some [1, 2, 0, 0, 0, 0xFFFF, 0x0102, 0x0304] := by decide
example : ipv6Parse (ofStr "::") 0 2 = .ok (some [0, 0, 0, 0, 0, 0, 0, 0]) := by decide
example : ipv6Parse (ofStr "1:2:3:4:5:6:7:8:9") 0 17 = .ok none := by decide
example : ipv6Parse (ofStr "1::2::3") 0 7 = .ok none := by decide

#print axioms C04_agrees_ipv4_parse
#print axioms C04_agrees_ipv6_parse
end Upa.Props
