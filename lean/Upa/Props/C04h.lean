import Upa.Proofs.BoundsAgree3Ip4
import Upa.Proofs.BoundsAgree3Ip6
import Upa.Proofs.BoundsAgree3Dec
import Upa.Proofs.BoundsAgree3Host
import Upa.Proofs.BoundsAgree3Utf
import Upa.Proofs.BoundsAgree3Unc
import Upa.Proofs.BoundsAgree3Form
import Upa.Proofs.BoundsAgree3Cmp
import Upa.Props.C01
/-
  C04h — AGREEMENT theorems for the bounds-instrumented scanners of `Upa/Impl/Bounds.lean` /
  `Upa/Impl/BoundsMisc.lean` that did not have one yet (in-bounds / pointers / termination:
  `Upa/Props/C04b.lean`, `Upa/Props/C04e.lean`): the instrumented model (array + index, every read checked,
  local arrays with checked indices) returns `.ok` of what the list model of `Upa/Impl/*.lean` computes on
  `slice a first last`.
  Where the C++ decodes lazily while it scans raw code units, the list model runs on `Impl.decode e (slice …)`.
  Lemmas: `Upa/Proofs/BoundsAgree3Ip4.lean`, `Upa/Proofs/BoundsAgree3Ip6.lean`, `Upa/Proofs/BoundsAgree3Dec.lean`,
  `Upa/Proofs/BoundsAgree3Host.lean`, `Upa/Proofs/BoundsAgree3Utf.lean`, `Upa/Proofs/BoundsAgree3Unc.lean`,
  `Upa/Proofs/BoundsAgree3Form.lean`, `Upa/Proofs/BoundsAgree3Cmp.lean`.
-/
namespace Upa.Props
open Upa Upa.Impl.B

theorem unitsOk_uOk_h {e : Enc} {l : List Nat} (h : UnitsOk e l) : Upa.Proofs.C10b.UOk e l := by
  cases e <;> exact h

/-! ### url_ip.h ipv4_parse -/

/-- `ipv4_parse(first, last, ipv4)` (the pointer array `part[6]`, the numbers `number[4]`) = `Impl.ipv4Parse`
    (list of lists), for every input — any code unit width: the scan loop lets only the ASCII IPv4
    characters through, so `ipv4_parse_number` (which casts to `unsigned char`) only sees bytes -/
theorem C04_agrees_ipv4_parse : ∀ (a : Array Nat) (first last : Nat), first ≤ last → last ≤ a.size →
    ipv4Parse a first last = .ok (Impl.ipv4Parse (slice a first last)) :=
  ipv4Parse_agrees
example : ipv4Parse (ofStr "192.0x00A80001") 0 14 = .ok (some 0xC0A80001) := by decide
example : Impl.ipv4Parse (asciiStr "192.0x00A80001") = some 0xC0A80001 := by decide
example : ipv4Parse (ofStr "1.2.3.4.") 0 8 = .ok (some 0x01020304) := by decide
example : ipv4Parse (ofStr "1..2") 0 4 = .ok none := by decide
example : ipv4Parse (ofStr "1.2.3.4.5") 0 9 = .ok none := by decide
-- a unit outside the byte range is rejected by the scan, it never reaches the `unsigned char` cast
example : ipv4Parse #[0x31, 0x131] 0 2 = .ok none ∧ Impl.ipv4Parse [0x31, 0x131] = none := by decide

/-! ### url_ip.h ipv6_parse -/

/-- `ipv6_parse(first, last, address)` (`get_hex_number`, the main loop, the IPv4 tail, the final shift on
    the local `uint16_t address[8]`) = `Impl.ipv6Parse`, for every input -/
theorem C04_agrees_ipv6_parse : ∀ (a : Array Nat) (first last : Nat), first ≤ last → last ≤ a.size →
    ipv6Parse a first last = .ok (Impl.ipv6Parse (slice a first last)) :=
  ipv6Parse_agrees
example : ipv6Parse (ofStr "1:2::ffff:1.2.3.4") 0 17 = .ok (some [1, 2, 0, 0, 0, 0xFFFF, 0x0102, 0x0304]) := by decide
example : Impl.ipv6Parse (asciiStr "1:2::ffff:1.2.3.4") = some [1, 2, 0, 0, 0, 0xFFFF, 0x0102, 0x0304] := by decide
example : ipv6Parse (ofStr "::") 0 2 = .ok (some [0, 0, 0, 0, 0, 0, 0, 0]) := by decide
example : ipv6Parse (ofStr "1:2:3:4:5:6:7:8:9") 0 17 = .ok none := by decide
example : ipv6Parse (ofStr "1::2::3") 0 7 = .ok none := by decide

/-! ### url_host.h parse_ipv4, parse_ipv6 -/

/-- `host_parser::parse_ipv4(first, last, dest)` = `Impl.hostParseIpv4` (parse, then serialize) -/
theorem C04_agrees_host_parse_ipv4 : ∀ (a : Array Nat) (first last : Nat), first ≤ last → last ≤ a.size →
    parseIpv4M a first last = .ok (Impl.hostParseIpv4 (slice a first last)) :=
  parseIpv4M_agrees
example : parseIpv4M (ofStr "0x7f.1") 0 6 = .ok (some { kind := .ipv4, text := asciiStr "127.0.0.1" }) := by decide

/-- `host_parser::parse_ipv6(first, last, dest)` = `Impl.hostParseIpv6`: the eight cells `ipv6_parse` filled
    are `uint16_t` values (`Upa.Proofs.V6.parse_good`), so `ipv6_serialize` prints them unchanged -/
theorem C04_agrees_host_parse_ipv6 : ∀ (a : Array Nat) (first last : Nat), first ≤ last → last ≤ a.size →
    parseIpv6M a first last = .ok (Impl.hostParseIpv6 (slice a first last)) :=
  parseIpv6M_agrees
example : parseIpv6M (ofStr "1:0:0:2::FFFF") 0 13 = .ok (some { kind := .ipv6, text := asciiStr "[1:0:0:2::ffff]" }) := by
  decide

/-! ### url_percent_encode.h decode_hex_to_byte, the `%XX` run;  src/url_utf.cpp convert_utf8_to_utf16 -/

/-- `detail::decode_hex_to_byte(first, last, uc)` in closed form: succeeds iff two units are left and both are
    hex digits (there is no list model of its own: `Impl.percentDecodeAux` matches `h1 :: h2 :: _` and tests
    `isHex h1 && isHex h2`) -/
theorem C04_agrees_decode_hex_to_byte : ∀ (a : Array Nat) (first last : Nat), first ≤ last → last ≤ a.size →
    decodeHexToByte a first last = .ok (
      if last - first ≥ 2 ∧ isHex a[first]! = true ∧ isHex a[first + 1]! = true then
        some (hexVal a[first]! * 16 + hexVal a[first + 1]!, first + 2)
      else none) :=
  decodeHexToByte_eq
example : decodeHexToByte (ofStr "%e9") 1 3 = .ok (some (0xE9, 3)) := by decide
example : decodeHexToByte (ofStr "%e") 1 2 = .ok none := by decide

/-- the inner loop `while (it != last && *it == '%') { ++it; if (!decode_hex_to_byte(…)) uc8 = '%'; … }` of
    append_percent_decoded / parse_host: it appends a prefix of the Standard's string percent-decode of the
    (decoded) rest, and stops at the end or in front of a unit that is not `%` -/
theorem C04_agrees_pct_run : ∀ (e : Enc) (a : Array Nat) (first last it : Nat) (buff : List Nat) (fuel : Nat),
    first ≤ it → it ≤ last → last ≤ a.size → UnitsOk e (slice a it last) → last - it < fuel →
    ∃ it' run, pctRun a first last fuel (it, buff) = .ok (it', buff ++ run) ∧ it ≤ it' ∧ it' ≤ last ∧
      (it' = last ∨ a[it']! ≠ 0x25) ∧
      Spec.stringPercentDecode (Impl.decode e (slice a it last)) =
        run ++ Spec.stringPercentDecode (Impl.decode e (slice a it' last)) := by
  intro e a first last it buff fuel h1 h2 hl hu hf
  obtain ⟨⟨it', b⟩, hv, r1, r2, r3, run, rb, _, rG⟩ :=
    pctRun_agrees e a first last hl it buff h1 h2 (unitsOk_uOk_h hu) fuel hf
  simp only at rb
  exact ⟨it', run, by rw [hv, rb], r1, r2, r3, rG⟩
example : pctRun (ofStr "%C3%A9%zz") 0 9 10 (0, []) = .ok (7, [0xC3, 0xA9, 0x25]) := by decide

/-- `url_utf::convert_utf8_to_utf16(first, last, output)` on bytes = UTF-8 decode with replacement, UTF-16 encode -/
theorem C04_agrees_convert_utf8_to_utf16 : ∀ (a : Array Nat) (first last : Nat), first ≤ last → last ≤ a.size →
    (∀ i, first ≤ i → i < last → a[i]! < 256) →
    ∃ ok, convertUtf8ToUtf16M a first last = .ok (ok, Impl.encodeUtf16 (Impl.decode .u8 (slice a first last))) := by
  intro a first last h hl hb
  obtain ⟨⟨ok, out⟩, hv, hr⟩ := convertUtf8ToUtf16M_agrees a first last h hl hb
  simp only at hr
  exact ⟨ok, by rw [hv, hr]⟩
example : ∀ i, i < 5 → 0 ≤ i → (#[0xF0, 0x9F, 0x98, 0x80, 0xFF] : Array Nat)[i]! < 256 := by decide
example : Impl.encodeUtf16 (Impl.decode .u8 [0xF0, 0x9F, 0x98, 0x80, 0xFF]) = [0xD83D, 0xDE00, 0xFFFD] := by decide

/-! ### url.h parse_path lambda escaped_dot -/

theorem C04_agrees_escaped_dot : ∀ (a : Array Nat) (first last p : Nat), last ≤ a.size → first ≤ p → p + 3 ≤ last →
    escapedDot a first last p = .ok (Impl.escapedDot [a[p]!, a[p + 1]!, a[p + 2]!]) :=
  escapedDot_agrees
example : escapedDot (ofStr ".%2E") 0 4 1 = .ok true := by decide

/-! ### url_host.h parse_host -/

/-- the two loops that fill `buff_uc` (copy the ASCII-domain prefix `[first, ptr)`, percent-decode `[ptr, last)`
    to UTF-16, non-ASCII units through `read_utf_char`, `%XX` runs through convert_utf8_to_utf16) = the
    `buffUc` of `Impl.parseHost` on the decoded input: percent-decode, UTF-8 decode, UTF-16 encode.
    Hypothesis on the prefix: what `find_if_not(is_ascii_domain_char)` guarantees (ASCII, no `%`). -/
theorem C04_agrees_host_decode : ∀ (e : Enc) (a : Array Nat) (first last ptr : Nat), first ≤ ptr → ptr ≤ last →
    last ≤ a.size → UnitsOk e (slice a first last) → (∀ i, first ≤ i → i < ptr → a[i]! < 0x80 ∧ a[i]! ≠ 0x25) →
    hostDecodeM e a first last ptr =
      .ok (Impl.encodeUtf16 (Impl.decode .u8 (Impl.percentDecode (Impl.decode e (slice a first last))))) := by
  intro e a first last ptr h1 h2 hl hu hpre
  rw [hostDecodeM_agrees e a first last ptr h1 h2 hl (unitsOk_uOk_h hu) hpre,
    buffUc_eq _ (Upa.Proofs.C10b.decode_scalars e _ (unitsOk_uOk_h hu))]
  rfl
example : hostDecodeM .u8 #[0x61, 0x25, 0x43, 0x33, 0x25, 0x41, 0x39, 0xE2, 0x82] 0 9 1 = .ok [0x61, 0xE9, 0xFFFD] := by
  decide
-- the hypotheses hold on this input, and the theorem then evaluates the list model ("a%C3%A9" + truncated E2 82)
example : Impl.encodeUtf16 (Impl.decode .u8 (Impl.percentDecode
    (Impl.decode .u8 (slice #[0x61, 0x25, 0x43, 0x33, 0x25, 0x41, 0x39, 0xE2, 0x82] 0 9)))) = [0x61, 0xE9, 0xFFFD] := by
  have h := C04_agrees_host_decode .u8 #[0x61, 0x25, 0x43, 0x33, 0x25, 0x41, 0x39, 0xE2, 0x82] 0 9 1 (by decide) (by decide)
    (by decide) (by show ∀ x ∈ slice #[0x61, 0x25, 0x43, 0x33, 0x25, 0x41, 0x39, 0xE2, 0x82] 0 9, x < 256; decide)
    (by intro i _ hi; have : i = 0 := by omega
        subst this; decide)
  rw [show hostDecodeM .u8 #[0x61, 0x25, 0x43, 0x33, 0x25, 0x41, 0x39, 0xE2, 0x82] 0 9 1 = .ok [0x61, 0xE9, 0xFFFD] by decide] at h
  exact (R.ok.inj h).symm

/-- `host_parser::parse_host(first, last, is_opaque, dest)` = `Impl.parseHost` on the decoded input — EVERY
    input, both values of `is_opaque`, every character width, every `idna`: the bracketed IPv6 literal
    (`ipv6_parse` on raw units: it accepts ASCII only, `Upa.Impl.B.ipv6Parse_ascii`), the opaque host, the
    ASCII fast path (xn-- test, ends-in-a-number, IPv4, lower-casing), the forbidden-code-point pre-check,
    and the IDNA path (`hostDecodeM`, forbidden domain code points, ends-in-a-number, IPv4 on the IDNA output).
    The only hypothesis is the type invariant of the units (`char` < 2^8, `char16_t` < 2^16). -/
theorem C04_agrees_parse_host : ∀ (idna : Idna) (e : Enc) (a : Array Nat) (first last : Nat) (isOpaque : Bool),
    first ≤ last → last ≤ a.size → UnitsOk e (slice a first last) →
    parseHostM idna e a first last isOpaque =
      .ok (Impl.parseHost idna (Impl.decode e (slice a first last)) isOpaque) :=
  fun i e a f l o h hl hu => parseHostM_agrees i e a f l o h hl (unitsOk_uOk_h hu)
example : UnitsOk .u8 (slice (ofStr "1.2.3.%34") 0 9) := by
  show ∀ x ∈ slice (ofStr "1.2.3.%34") 0 9, x < 256
  decide
example : parseHostM some .u8 (ofStr "1.2.3.%34") 0 9 false = .ok (some { kind := .ipv4, text := asciiStr "1.2.3.4" }) := by
  decide
example : Impl.parseHost some (Impl.decode .u8 (slice (ofStr "1.2.3.%34") 0 9)) false =
    some { kind := .ipv4, text := asciiStr "1.2.3.4" } := by
  have h := C04_agrees_parse_host some .u8 (ofStr "1.2.3.%34") 0 9 false (by decide) (by decide)
    (by show ∀ x ∈ slice (ofStr "1.2.3.%34") 0 9, x < 256; decide)
  rw [show parseHostM some .u8 (ofStr "1.2.3.%34") 0 9 false = .ok (some { kind := .ipv4, text := asciiStr "1.2.3.4" }) by
    decide] at h
  exact (R.ok.inj h).symm
example : parseHostM some .u16 (ofStr "[::1.2.3.4]") 0 11 false = .ok (some { kind := .ipv6, text := asciiStr "[::102:304]" }) := by
  decide
example : parseHostM some .u8 #[0x61, 0xC3, 0xA9, 0x25, 0x34, 0x31] 0 6 false =
    .ok (some { kind := .domain, text := [0x61, 0xE9, 0x41] }) := by decide
example : parseHostM some .u8 (ofStr "a<b") 0 3 false = .ok none := by decide

/-! ### src/url_utf.cpp check_fix_utf8, compare_by_code_units -/

/-- `url_utf::check_fix_utf8(str)` (two copy loops over `ptr` / `bgn` / `it`, `buff.append(p, q)`) =
    `Impl.checkFixUtf8` = UTF-8 decode with replacement, re-encode — on a byte buffer (`std::string`).
    Key lemma `Upa.Impl.B.readU8A_ok_encode`: a successful read_code_point consumed exactly the UTF-8
    encoding of the code point it returns, so copying the input range = re-encoding. -/
theorem C04_agrees_check_fix_utf8 : ∀ (a : Array Nat) (first last : Nat), first ≤ last → last ≤ a.size →
    (∀ i, first ≤ i → i < last → a[i]! < 256) →
    checkFixUtf8 a first last = .ok (Impl.checkFixUtf8 (slice a first last)) :=
  checkFixUtf8_agrees
example : ∀ i, i < 7 → 0 ≤ i → (#[0x61, 0xC3, 0xA9, 0xE2, 0x82, 0x62, 0xFF] : Array Nat)[i]! < 256 := by decide
example : checkFixUtf8 #[0x61, 0xC3, 0xA9, 0xE2, 0x82, 0x62, 0xFF] 0 7 =
    .ok [0x61, 0xC3, 0xA9, 0xEF, 0xBF, 0xBD, 0x62, 0xEF, 0xBF, 0xBD] := by decide
example : Impl.checkFixUtf8 [0x61, 0xC3, 0xA9, 0xE2, 0x82, 0x62, 0xFF] =
    [0x61, 0xC3, 0xA9, 0xEF, 0xBF, 0xBD, 0x62, 0xEF, 0xBF, 0xBD] := by decide

/-- `url_utf::compare_by_code_units(first1, last1, first2, last2)` = `Impl.compareByCodeUnits` on the two byte
    slices (the `assert(u16_is_lead(cu1))` holds, `Upa/Props/C04b.lean`) -/
theorem C04_agrees_compare_by_code_units : ∀ (a1 : Array Nat) (first1 last1 : Nat) (a2 : Array Nat) (first2 last2 : Nat),
    first1 ≤ last1 → last1 ≤ a1.size → first2 ≤ last2 → last2 ≤ a2.size →
    (∀ i, first1 ≤ i → i < last1 → a1[i]! < 256) → (∀ i, first2 ≤ i → i < last2 → a2[i]! < 256) →
    compareByCodeUnits a1 first1 last1 a2 first2 last2 =
      .ok (Impl.compareByCodeUnits (slice a1 first1 last1) (slice a2 first2 last2)) :=
  compareByCodeUnits_agrees
-- U+FF5E (EF BD 9E) sorts AFTER U+1F600 (F0 9F 98 80) by UTF-16 code units (FF5E > D83D), before it by bytes
example : compareByCodeUnits #[0xEF, 0xBD, 0x9E] 0 3 #[0xF0, 0x9F, 0x98, 0x80] 0 4 = .ok 10017 := by decide
example : Impl.compareByCodeUnits [0xEF, 0xBD, 0x9E] [0xF0, 0x9F, 0x98, 0x80] = 10017 := by decide

/-! ### url_percent_encode.h append_percent_decoded -/

/-- `detail::append_percent_decoded(str, output)` (any `CharT`: lazy `read_utf_char`, `decode_hex_to_byte`, the
    `%XX` run buffered in `buff_utf8` and repaired by check_fix_utf8) = `Impl.percentDecode` on the decoded
    input — every character width, ill-formed input included -/
theorem C04_agrees_append_percent_decoded : ∀ (e : Enc) (a : Array Nat) (first last : Nat), first ≤ last →
    last ≤ a.size → UnitsOk e (slice a first last) →
    appendPercentDecoded e a first last = .ok (Impl.percentDecode (Impl.decode e (slice a first last))) :=
  fun e a f l h hl hu => appendPercentDecoded_agrees e a f l h hl (unitsOk_uOk_h hu)
example : appendPercentDecoded .u16 #[0x61, 0x25, 0x45, 0x32, 0x25, 0x38, 0x32, 0x25, 0x7A, 0xE9, 0xD800] 0 11 =
    .ok [0x61, 0xEF, 0xBF, 0xBD, 0x25, 0x7A, 0xC3, 0xA9, 0xEF, 0xBF, 0xBD] := by decide
example : Impl.percentDecode (Impl.decode .u16 (slice #[0x61, 0x25, 0x45, 0x32, 0x25, 0x38, 0x32, 0x25, 0x7A, 0xE9, 0xD800] 0 11)) =
    [0x61, 0xEF, 0xBF, 0xBD, 0x25, 0x7A, 0xC3, 0xA9, 0xEF, 0xBF, 0xBD] := by
  have h := C04_agrees_append_percent_decoded .u16 #[0x61, 0x25, 0x45, 0x32, 0x25, 0x38, 0x32, 0x25, 0x7A, 0xE9, 0xD800] 0 11
    (by decide) (by decide)
    (by show ∀ x ∈ slice #[0x61, 0x25, 0x45, 0x32, 0x25, 0x38, 0x32, 0x25, 0x7A, 0xE9, 0xD800] 0 11, x < 65536; decide)
  rw [show appendPercentDecoded .u16 #[0x61, 0x25, 0x45, 0x32, 0x25, 0x38, 0x32, 0x25, 0x7A, 0xE9, 0xD800] 0 11 =
    .ok [0x61, 0xEF, 0xBF, 0xBD, 0x25, 0x7A, 0xC3, 0xA9, 0xEF, 0xBF, 0xBD] by decide] at h
  exact (R.ok.inj h).symm

/-! ### url.h is_unc_path -/

/-- `detail::is_unc_path(first, last)`: the `end_of_share_name` pointer it returns is the suffix the list model
    returns (`none` = not a UNC path) -/
theorem C04_agrees_is_unc_path : ∀ (a : Array Nat) (first last : Nat), first ≤ last → last ≤ a.size →
    ∃ o, isUncPath a first last = .ok o ∧
      o.map (fun p => slice a p last) = Impl.isUncPath (slice a first last) := by
  intro a first last h hl
  obtain ⟨o, ho, hp⟩ := isUncPath_agrees a first last h hl
  exact ⟨o, ho, hp⟩
example : isUncPath (ofStr "host\\share\\dir") 0 14 = .ok (some 10) := by decide
example : Impl.isUncPath (asciiStr "host\\share\\dir") = some (asciiStr "\\dir") := by decide
example : isUncPath (ofStr "host\\..\\dir") 0 11 = .ok none := by decide

/-! ### url_search_params.h do_parse -/

/-- `url_search_params::do_parse(rem_qmark, query)` on the bytes of `str_query` (pointers `it`, `start`, `pval`,
    the `%XX` look-ahead `std::distance(it, e) > 2`) = `Impl.formParse` -/
theorem C04_agrees_do_parse : ∀ (remQmark : Bool) (a : Array Nat) (first last : Nat), first ≤ last → last ≤ a.size →
    (∀ i, first ≤ i → i < last → a[i]! < 256) →
    doParse remQmark a first last = .ok (Impl.formParse remQmark (slice a first last)) :=
  doParse_agrees
example : doParse true (ofStr "?a=b%3D+c&&d&=%e") 0 16 =
    .ok [(asciiStr "a", asciiStr "b= c"), (asciiStr "d", []), ([], asciiStr "%e")] := by decide
example : Impl.formParse true (slice (ofStr "?a=b%3D+c&&d&=%e") 0 16) =
    [(asciiStr "a", asciiStr "b= c"), (asciiStr "d", []), ([], asciiStr "%e")] := by
  have hb : ∀ i, i < 16 → (ofStr "?a=b%3D+c&&d&=%e")[i]! < 256 := by decide
  have h := C04_agrees_do_parse true (ofStr "?a=b%3D+c&&d&=%e") 0 16 (by decide) (by decide) (fun i _ hi => hb i hi)
  rw [show doParse true (ofStr "?a=b%3D+c&&d&=%e") 0 16 =
    .ok [(asciiStr "a", asciiStr "b= c"), (asciiStr "d", []), ([], asciiStr "%e")] by decide] at h
  exact (R.ok.inj h).symm

#print axioms C04_agrees_ipv4_parse
#print axioms C04_agrees_ipv6_parse
#print axioms C04_agrees_host_parse_ipv4
#print axioms C04_agrees_host_parse_ipv6
#print axioms C04_agrees_decode_hex_to_byte
#print axioms C04_agrees_pct_run
#print axioms C04_agrees_convert_utf8_to_utf16
#print axioms C04_agrees_escaped_dot
#print axioms C04_agrees_host_decode
#print axioms C04_agrees_parse_host
#print axioms C04_agrees_check_fix_utf8
#print axioms C04_agrees_compare_by_code_units
#print axioms C04_agrees_append_percent_decoded
#print axioms C04_agrees_is_unc_path
#print axioms C04_agrees_do_parse
end Upa.Props
