import Upa.Proofs.Reparse
/-
  C02 — serialising a URL and parsing the text again reproduces the URL, whatever the base
  (url::href() / url_serializer, include/upa/url.h; url_parser::url_parse, url.h:1593-2303;
  models: `Impl.serialize`, `Impl.parse` in Upa/Impl/Api.lean, the parser blocks in Upa/Impl/Url.lean).
  Helper lemmas: Upa/Proofs/Reparse.lean (namespace Upa.Proofs.C02), one lemma per parser block, in the
  order of the serialiser grammar.

  Character classes used below (defined in Upa/Proofs/Reparse.lean):
    schemeOk s        s non-empty, first a-z, rest a-z 0-9 + - .
    keeps noEnc c     c < 0x80 and c in the no-encode set `noEnc`; a string is a fixpoint of
                      `percentEncode noEnc` iff all its elements are kept (`C02_fixpoint_*` below)
    userinfoOk s      all elements kept by the userinfo encoder (so none of / : ; = @ [ \ ] ^ | ? # …)
    queryOk sp s      all elements kept by the (special-)query encoder (so no `#`, no space)
    fragmentOk s      all elements kept by the fragment encoder
    segOk sp seg      all elements kept by the path encoder, none is `/` (nor `\` when special), and the
                      segment is not a single- or double-dot segment (`.` `%2e` `..` `.%2E` …)
    driveOk path      the first segment is not `X|` with X a letter   (file URLs only)
    opaqueOk op noQF  all elements in 0x20..0x7E except `?` `#`; does not start with `/`; does not end
                      with a space when query and fragment are both null (`noQF`)
    hostTextOk sp file t
                      all elements in 0x21..0x7E except `/ ? # @` (and `\` when special); either no
                      `:` `[` `]` at all or `[` … `]` with no bracket inside; for file URLs not
                      "localhost" and not a two-element drive letter (`X:` `X|`)
    HostStable idna sp h
                      `parseHost idna h.text (!sp) = some h`, or `h = emptyHost` when the text is empty
    portOk scheme p   p < 65536 and p is not the scheme's default port
-/
namespace Upa.Props
open Upa Upa.Impl Upa.Proofs.C02

/-- the stub IDNA used for the evaluated examples -/
def c02Stub : Idna := fun l => some (l.map toLower)

/-! ## 1. the normal form -/

/-- What a URL record must satisfy for "serialise, parse again" to reproduce it.  Every conjunct is
    decidable (instance below).  On 100 000 generated records (stub IDNA) the reparse reproduced the
    record exactly when `Norm` held; every URL produced by `Impl.parse` on 100 000 generated inputs
    (ASCII-only stub IDNA) satisfied it. -/
def Norm (idna : Idna) (u : Url) : Prop :=
  -- scheme: the scheme scan stops exactly at the serialiser's ':' and lower-casing is the identity
  schemeOk u.scheme = true ∧
  -- shape: which components may be present together
  --   opaque path ⇒ null host, empty path list, not special
  (u.hasOpaquePath = true → u.host = none ∧ u.path = [] ∧ u.isSpecial = false) ∧
  --   list path ⇒ empty opaque string
  (u.hasOpaquePath = false → u.opaquePath = []) ∧
  --   special ⇒ host non-null, path non-empty
  (u.isSpecial = true → u.host ≠ none ∧ u.path ≠ []) ∧
  --   special, not file ⇒ host non-empty
  (u.isSpecial = true → u.isFile = false → u.hostText ≠ []) ∧
  --   file, or null / empty host ⇒ no credentials, no port
  (u.isFile = true ∨ u.hostText = [] → u.username = [] ∧ u.password = [] ∧ u.port = none) ∧
  --   not special, null host, list path ⇒ path non-empty   ("a:" re-parses with an opaque path)
  (u.isSpecial = false → u.host = none → u.hasOpaquePath = false → u.path ≠ []) ∧
  -- credentials: fixpoints of the userinfo encoder
  userinfoOk u.username = true ∧ userinfoOk u.password = true ∧
  -- host: no delimiter the authority / host scans stop at, and the host parser reproduces it
  (∀ h ∈ u.host, hostTextOk u.isSpecial u.isFile h.text = true ∧ HostStable idna u.isSpecial h) ∧
  -- port
  portOk u.scheme u.port = true ∧
  -- list path
  (∀ seg ∈ u.path, segOk u.isSpecial seg = true) ∧
  (u.isFile = true → driveOk u.path = true) ∧
  -- opaque path
  (u.hasOpaquePath = true → opaqueOk u.opaquePath (u.query.isNone && u.fragment.isNone) = true) ∧
  -- query, fragment: fixpoints of their encoders
  (∀ q ∈ u.query, queryOk u.isSpecial q = true) ∧
  (∀ f ∈ u.fragment, fragmentOk f = true)

instance (idna : Idna) (u : Url) : Decidable (Norm idna u) := by unfold Norm; infer_instance

theorem Norm.toNormP {idna : Idna} {u : Url} (h : Norm idna u) : NormP idna u := by
  obtain ⟨h1, h2, h3, h4, h5, h6, h7, h8, h9, h10, h11, h12, h13, h14, h15, h16⟩ := h
  refine ⟨h1, ⟨h2, h3, h4, h5, h6, h7⟩, h8, h9, fun h hh => h10 h hh, h11, h12, h13, h14, ?_, ?_⟩
  · cases hq : u.query with
    | none => rfl
    | some q => exact h15 q hq
  · cases hf : u.fragment with
    | none => rfl
    | some f => exact h16 f hf

/-- the `keeps`-formulations in `Norm` say "is a fixpoint of the encoder the parser applies" -/
theorem C02_fixpoint_userinfo : ∀ s : List Nat,
    userinfoOk s = true ↔ percentEncode userinfoNoEnc s = s := fun s => by
  rw [percentEncode_fix_iff _ (by decide)]; simp [userinfoOk]
theorem C02_fixpoint_fragment : ∀ s : List Nat,
    fragmentOk s = true ↔ percentEncode fragmentNoEnc s = s := fun s => by
  rw [percentEncode_fix_iff _ (by decide)]; simp [fragmentOk]
theorem C02_fixpoint_query : ∀ (sp : Bool) (s : List Nat),
    queryOk sp s = true ↔ percentEncode (if sp then specialQueryNoEnc else queryNoEnc) s = s :=
  fun sp s => by
    rw [percentEncode_fix_iff _ (by cases sp <;> decide)]; simp [queryOk]
theorem C02_fixpoint_segment : ∀ (sp : Bool) (seg : List Nat),
    segOk sp seg = true ↔
      (percentEncode pathNoEnc seg = seg ∧ (∀ c ∈ seg, c ≠ 0x2F ∧ (sp = true → c ≠ 0x5C)) ∧
       singleDot seg = false ∧ doubleDot seg = false) := fun sp seg => by
  rw [percentEncode_fix_iff _ (by decide)]
  simp only [segOk, segCharOk, Bool.and_eq_true, List.all_eq_true, bne_iff_ne, ne_eq, Bool.not_eq_true',
    Bool.and_eq_false_iff, beq_eq_false_iff_ne]
  constructor
  · rintro ⟨⟨h1, h2⟩, h3⟩
    refine ⟨fun c hc => (h1 c hc).1.1, fun c hc => ⟨(h1 c hc).1.2, fun hs => ?_⟩, h2, h3⟩
    rcases (h1 c hc).2 with h | h
    · simp [hs] at h
    · exact h
  · rintro ⟨h1, h2, h3, h4⟩
    refine ⟨⟨fun c hc => ⟨⟨h1 c hc, (h2 c hc).1⟩, ?_⟩, h3⟩, h4⟩
    cases sp with
    | false => exact Or.inl rfl
    | true => exact Or.inr ((h2 c hc).2 rfl)
theorem C02_fixpoint_opaque : ∀ s : List Nat,
    (∀ c ∈ s, 0x1F < c ∧ c < 0x7F) ↔ percentEncodeC0 s = s := fun s => (percentEncodeC0_fix_iff s).symm

/-! ### concrete records for the non-vacuity examples -/

/-- https://user:pw@example.org:8080/a/b?q=1#frag -/
def c02Full : Url :=
  { scheme := asciiStr "https", username := asciiStr "user", password := asciiStr "pw",
    host := some ⟨.domain, asciiStr "example.org"⟩, port := some 8080,
    path := [asciiStr "a", asciiStr "b"], query := some (asciiStr "q=1"),
    fragment := some (asciiStr "frag") }
/-- ws://:pw@[1:2::3]/ — empty username, IPv6 host, no port -/
def c02Ip6 : Url :=
  { scheme := asciiStr "ws", password := asciiStr "pw", host := some ⟨.ipv6, asciiStr "[1:2::3]"⟩,
    path := [[]] }
/-- file:///C:/x%2Fy/ — empty host, normalised drive letter -/
def c02File : Url :=
  { scheme := asciiStr "file", host := some emptyHost, path := [asciiStr "C:", asciiStr "x%2Fy", []] }
/-- file://srv/share?q -/
def c02FileHost : Url :=
  { scheme := asciiStr "file", host := some ⟨.domain, asciiStr "srv"⟩, path := [asciiStr "share"],
    query := some (asciiStr "q") }
/-- mailto:x@y z ? — opaque path with an inner and a trailing space, protected by the empty query -/
def c02Opaque : Url :=
  { scheme := asciiStr "mailto", hasOpaquePath := true, opaquePath := asciiStr "x@y z ", query := some [] }
/-- a:/.//x — null host, path ["", "x"]: the serialiser's `/.` guard -/
def c02Guard : Url := { scheme := asciiStr "a", path := [[], asciiStr "x"] }
/-- git://u@H%41:0?#  — opaque host (case kept), user only, port 0, path [], empty query and fragment -/
def c02Opq : Url :=
  { scheme := asciiStr "git", username := asciiStr "u", host := some ⟨.opaque, asciiStr "H%41"⟩,
    port := some 0, query := some [], fragment := some [] }
/-- a:///p\q — empty host, backslash kept in a non-special path -/
def c02Empty : Url := { scheme := asciiStr "a", host := some emptyHost, path := [asciiStr "p\\q"] }

/-- bases used in the evaluated instances -/
def c02BaseHttps : Url :=
  { scheme := asciiStr "https", host := some ⟨.domain, asciiStr "b"⟩, path := [asciiStr "p", asciiStr "q"],
    query := some (asciiStr "r") }
def c02BaseFile : Url :=
  { scheme := asciiStr "file", host := some emptyHost, path := [asciiStr "D:", asciiStr "d"] }
def c02BaseOpaque : Url := { scheme := asciiStr "a", hasOpaquePath := true, opaquePath := asciiStr "zz" }

/-! ## 2. the main theorem -/

theorem C02_reparse : ∀ (idna : Idna) (u : Url), Norm idna u →
    ∀ base : Option Url, (base = none ∨ ∃ b, base = some b) →
      Impl.parse idna .u8 (Impl.serialize u) base = some u :=
  fun idna u h base _ => reparse idna u h.toNormP base

-- the hypothesis is satisfiable on every URL shape
example : Norm c02Stub c02Full := by decide +kernel
example : Norm c02Stub c02Ip6 := by decide +kernel
example : Norm c02Stub c02File := by decide +kernel
example : Norm c02Stub c02FileHost := by decide +kernel
example : Norm c02Stub c02Opaque := by decide +kernel
example : Norm c02Stub c02Guard := by decide +kernel
example : Norm c02Stub c02Opq := by decide +kernel
example : Norm c02Stub c02Empty := by decide +kernel
-- what is serialised
example : serialize c02Full = asciiStr "https://user:pw@example.org:8080/a/b?q=1#frag" ∧
    serialize c02Ip6 = asciiStr "ws://:pw@[1:2::3]/" ∧
    serialize c02File = asciiStr "file:///C:/x%2Fy/" ∧
    serialize c02FileHost = asciiStr "file://srv/share?q" ∧
    serialize c02Opaque = asciiStr "mailto:x@y z ?" ∧
    serialize c02Guard = asciiStr "a:/.//x" ∧
    serialize c02Opq = asciiStr "git://u@H%41:0?#" ∧
    serialize c02Empty = asciiStr "a:///p\\q" := by decide +kernel
-- evaluated instances (kernel evaluation of the parser model, independent of the proof), with no base,
-- a same-scheme special base, a file base and an opaque-path base
example : parse c02Stub .u8 (serialize c02Full) none = some c02Full ∧
    parse c02Stub .u8 (serialize c02Full) (some c02BaseHttps) = some c02Full ∧
    parse c02Stub .u8 (serialize c02Full) (some c02BaseFile) = some c02Full ∧
    parse c02Stub .u8 (serialize c02Full) (some c02BaseOpaque) = some c02Full := by decide +kernel
example : parse c02Stub .u8 (serialize c02File) none = some c02File ∧
    parse c02Stub .u8 (serialize c02File) (some c02BaseFile) = some c02File ∧
    parse c02Stub .u8 (serialize c02FileHost) (some c02BaseFile) = some c02FileHost ∧
    parse c02Stub .u8 (serialize c02Ip6) (some c02BaseHttps) = some c02Ip6 := by decide +kernel
example : parse c02Stub .u8 (serialize c02Opaque) (some c02BaseOpaque) = some c02Opaque ∧
    parse c02Stub .u8 (serialize c02Guard) (some c02BaseOpaque) = some c02Guard ∧
    parse c02Stub .u8 (serialize c02Opq) (some c02BaseHttps) = some c02Opq ∧
    parse c02Stub .u8 (serialize c02Empty) (some c02BaseFile) = some c02Empty := by decide +kernel
-- an instance of the theorem
example : parse c02Stub .u8 (serialize c02Guard) (some c02BaseFile) = some c02Guard :=
  C02_reparse c02Stub c02Guard (by decide +kernel) _ (Or.inr ⟨_, rfl⟩)

/-- the base plays no role -/
theorem C02_base_irrelevant : ∀ (idna : Idna) (u : Url), Norm idna u → ∀ b : Url,
    Impl.parse idna .u8 (Impl.serialize u) (some b) = Impl.parse idna .u8 (Impl.serialize u) none :=
  fun idna u h b => by
    rw [C02_reparse idna u h (some b) (Or.inr ⟨b, rfl⟩), C02_reparse idna u h none (Or.inl rfl)]

/-- serialising is stable: the re-parsed URL serialises to the same text -/
theorem C02_serialize_stable : ∀ (idna : Idna) (u : Url), Norm idna u → ∀ base : Option Url,
    (Impl.parse idna .u8 (Impl.serialize u) base).map (fun v => Impl.serialize v) =
      some (Impl.serialize u) :=
  fun idna u h base => by
    rw [C02_reparse idna u h base (by cases base <;> simp)]; rfl

example : (parse c02Stub .u8 (serialize c02Opq) (some c02BaseHttps)).map (fun v => serialize v) =
    some (asciiStr "git://u@H%41:0?#") := by decide +kernel

/-! ### the clauses of `Norm` are not superfluous: records violating one clause are not reproduced -/

-- upper-case scheme
example : ¬ Norm c02Stub { c02Guard with scheme := asciiStr "A" } ∧
    parse c02Stub .u8 (serialize { c02Guard with scheme := asciiStr "A" }) none = some c02Guard := by
  decide +kernel
-- not special, null host, empty list path: "a:" re-parses with an (empty) opaque path
example : ¬ Norm c02Stub { scheme := asciiStr "a" } ∧
    parse c02Stub .u8 (serialize { scheme := asciiStr "a" }) none =
      some { scheme := asciiStr "a", hasOpaquePath := true } := by decide +kernel
-- special with an empty path list: "https://h" re-parses with the path [""]
example : ¬ Norm c02Stub { scheme := asciiStr "https", host := some ⟨.domain, asciiStr "h"⟩ } ∧
    parse c02Stub .u8 (serialize { scheme := asciiStr "https", host := some ⟨.domain, asciiStr "h"⟩ }) none =
      some { scheme := asciiStr "https", host := some ⟨.domain, asciiStr "h"⟩, path := [[]] } := by
  decide +kernel
-- opaque path ending in a space with null query and fragment: `doTrim` strips it (the setters do too:
-- `Impl.stripTrailingSpaces`); with an empty fragment it is kept
example : ¬ Norm c02Stub { c02Opaque with query := none } ∧
    parse c02Stub .u8 (serialize { c02Opaque with query := none }) none =
      some { c02Opaque with query := none, opaquePath := asciiStr "x@y z" } ∧
    Norm c02Stub { c02Opaque with query := none, fragment := some [] } := by decide +kernel
-- opaque path starting with '/': re-read as a list path
example : ¬ Norm c02Stub { c02Opaque with opaquePath := asciiStr "/x" } ∧
    parse c02Stub .u8 (serialize { c02Opaque with opaquePath := asciiStr "/x" }) none =
      some { scheme := asciiStr "mailto", path := [asciiStr "x"], query := some [] } := by decide +kernel
-- default port
example : ¬ Norm c02Stub { c02Full with port := some 443 } ∧
    parse c02Stub .u8 (serialize { c02Full with port := some 443 }) none =
      some { c02Full with port := none } := by decide +kernel
-- a dot segment, a segment that is not a fixpoint of the path encoder, an upper-case domain
example : ¬ Norm c02Stub { c02Full with path := [asciiStr "a", asciiStr "%2E."] } ∧
    parse c02Stub .u8 (serialize { c02Full with path := [asciiStr "a", asciiStr "%2E."] }) none =
      some { c02Full with path := [[]] } := by decide +kernel
example : ¬ Norm c02Stub { c02Full with path := [asciiStr "a b"] } ∧
    parse c02Stub .u8 (serialize { c02Full with path := [asciiStr "a b"] }) none =
      some { c02Full with path := [asciiStr "a%20b"] } := by decide +kernel
example : ¬ Norm c02Stub { c02Full with host := some ⟨.domain, asciiStr "Example.org"⟩ } ∧
    parse c02Stub .u8 (serialize { c02Full with host := some ⟨.domain, asciiStr "Example.org"⟩ }) none =
      some c02Full := by decide +kernel
-- a host kind that the host parser does not give to this text (1.2.3.4 is an IPv4 address)
example : ¬ Norm c02Stub { c02Full with host := some ⟨.domain, asciiStr "1.2.3.4"⟩ } ∧
    parse c02Stub .u8 (serialize { c02Full with host := some ⟨.domain, asciiStr "1.2.3.4"⟩ }) none =
      some { c02Full with host := some ⟨.ipv4, asciiStr "1.2.3.4"⟩ } := by decide +kernel

/-! ## 3. the port component -/

/-- the decimal form of a port is digits only, has no leading zero to strip, at most 5 digits, and
    re-parses to the port -/
theorem C02_port_roundtrip : ∀ p : Nat, p < 65536 →
    (∀ c ∈ toDecimal p, isDigit c = true) ∧ toDecimal p ≠ [] ∧
    stripLeadingZeros (toDecimal p) = toDecimal p ∧ (toDecimal p).length ≤ 5 ∧
    decimalValue (stripLeadingZeros (toDecimal p)) = p :=
  fun p hp => port_roundtrip p hp

example : toDecimal 8080 = asciiStr "8080" ∧ decimalValue (stripLeadingZeros (asciiStr "8080")) = 8080 ∧
    toDecimal 0 = asciiStr "0" ∧ toDecimal 65535 = asciiStr "65535" := by decide +kernel

/-! ## 4. the Standard-made exception for file URLs -/

/-- file://localhost/x : host "localhost" in a file URL (reachable only through the protocol setter) -/
def c02Localhost : Url :=
  { scheme := asciiStr "file", host := some ⟨.domain, asciiStr "localhost"⟩, path := [asciiStr "x"] }
/-- file://h/C|/x : first segment an un-normalised drive letter (reachable only through the protocol setter) -/
def c02DriveBar : Url :=
  { scheme := asciiStr "file", host := some ⟨.domain, asciiStr "h"⟩, path := [asciiStr "C|", asciiStr "x"] }

/-- Two kinds of file URL records are changed by "serialise, parse again": the host `localhost`
    re-parses as the empty host, a first segment `X|` re-parses as `X:`.  Both records are produced
    by the protocol setter from http URLs; `Norm` fails on them, holds on their re-parsed forms, and
    the two file-only clauses of `Norm` exclude exactly these texts. -/
theorem C02_file_exception :
    -- how they arise: http://localhost/x and http://h/C|/x with protocol := "file"
    (Impl.parse c02Stub .u8 (asciiStr "http://localhost/x") none).map
        (fun u => setValid c02Stub .protocol .u8 (asciiStr "file") u) = some (c02Localhost, true) ∧
    (Impl.parse c02Stub .u8 (asciiStr "http://h/C|/x") none).map
        (fun u => setValid c02Stub .protocol .u8 (asciiStr "file") u) = some (c02DriveBar, true) ∧
    -- their serialisations and what these re-parse to
    Impl.serialize c02Localhost = asciiStr "file://localhost/x" ∧
    Impl.parse c02Stub .u8 (Impl.serialize c02Localhost) none =
      some { c02Localhost with host := some emptyHost } ∧
    Impl.serialize c02DriveBar = asciiStr "file://h/C|/x" ∧
    Impl.parse c02Stub .u8 (Impl.serialize c02DriveBar) none =
      some { c02DriveBar with path := [asciiStr "C:", asciiStr "x"] } ∧
    -- `Norm` excludes the two records and accepts the re-parsed ones
    ¬ Norm c02Stub c02Localhost ∧ ¬ Norm c02Stub c02DriveBar ∧
    Norm c02Stub { c02Localhost with host := some emptyHost } ∧
    Norm c02Stub { c02DriveBar with path := [asciiStr "C:", asciiStr "x"] } ∧
    -- the same texts are fine outside file URLs
    Norm c02Stub { c02Localhost with scheme := asciiStr "http" } ∧
    Norm c02Stub { c02DriveBar with scheme := asciiStr "http" } ∧
    -- what the two file-only clauses exclude, exactly
    (∀ t : List Nat, hostFileOk t = false ↔
      (t = asciiStr "localhost" ∨ ∃ a b, t = [a, b] ∧ isAlpha a = true ∧ (b = 0x3A ∨ b = 0x7C))) ∧
    (∀ path : List (List Nat), driveOk path = false ↔
      ∃ a rest, path = [a, 0x7C] :: rest ∧ isAlpha a = true) := by
  refine ⟨by decide +kernel, by decide +kernel, by decide +kernel, by decide +kernel, by decide +kernel,
    by decide +kernel, by decide +kernel, by decide +kernel, by decide +kernel, by decide +kernel,
    by decide +kernel, by decide +kernel, hostFileOk_false_iff, driveOk_false_iff⟩

end Upa.Props

#print axioms Upa.Props.C02_reparse
#print axioms Upa.Props.C02_base_irrelevant
#print axioms Upa.Props.C02_serialize_stable
#print axioms Upa.Props.C02_port_roundtrip
#print axioms Upa.Props.C02_file_exception
#print axioms Upa.Props.C02_fixpoint_userinfo
#print axioms Upa.Props.C02_fixpoint_fragment
#print axioms Upa.Props.C02_fixpoint_query
#print axioms Upa.Props.C02_fixpoint_segment
#print axioms Upa.Props.C02_fixpoint_opaque
