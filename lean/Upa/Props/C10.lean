import Upa.Proofs.Utf
/-
  C10 — "results do not depend on input encoding": leaf theorems about the UTF decoders/encoders of
  include/upa/url_utf.h (model: Upa/Impl/Utf.lean) against the WHATWG Encoding Standard UTF-8 decoder,
  Infra's UTF-16 scalar conversion and the UTF-8/UTF-16 encoders (Upa/Spec/Encoding.lean).
  Helper lemmas: Upa/Proofs/Utf.lean.
-/
namespace Upa.Props

/-! ### 1. UTF-8: the ICU-macro-shaped decoder with the two bit tables is the WHATWG UTF-8 decoder -/

theorem C10_utf8_decoder :
    ∀ bytes : List Nat, (∀ b ∈ bytes, b < 256) → Impl.decode .u8 bytes = Spec.utf8Decode bytes :=
  fun bytes h => Impl.decode_u8_eq_spec bytes h

-- hypotheses satisfiable on a non-trivial input (ASCII, 3-byte, 4-byte, encoded surrogate ED A0 80,
-- overlong C0 80, above-range F4 90, truncated E2 82): every maximal ill-formed subsequence → one U+FFFD
example : ∀ b ∈ ([0x61, 0xE2, 0x82, 0xAC, 0xF0, 0x9F, 0x98, 0x80, 0xED, 0xA0, 0x80, 0xC0, 0x80, 0xF4, 0x90,
    0xE2, 0x82] : List Nat), b < 256 := by decide
example : Impl.decode .u8 [0x61, 0xE2, 0x82, 0xAC, 0xF0, 0x9F, 0x98, 0x80, 0xED, 0xA0, 0x80, 0xC0, 0x80, 0xF4,
    0x90, 0xE2, 0x82] =
    [0x61, 0x20AC, 0x1F600, 0xFFFD, 0xFFFD, 0xFFFD, 0xFFFD, 0xFFFD, 0xFFFD, 0xFFFD, 0xFFFD] := by
  decide +kernel
example : Spec.utf8Decode [0x61, 0xE2, 0x82, 0xAC, 0xF0, 0x9F, 0x98, 0x80, 0xED, 0xA0, 0x80, 0xC0, 0x80, 0xF4,
    0x90, 0xE2, 0x82] =
    [0x61, 0x20AC, 0x1F600, 0xFFFD, 0xFFFD, 0xFFFD, 0xFFFD, 0xFFFD, 0xFFFD, 0xFFFD, 0xFFFD] := by
  decide +kernel

/-! ### 2. UTF-16 -/

theorem C10_utf16_decoder :
    ∀ units : List Nat, (∀ u ∈ units, u < 65536) → Impl.decode .u16 units = Spec.utf16Decode units :=
  fun units h => Impl.decode_u16_eq_spec units h

example : ∀ u ∈ ([0x61, 0xD83D, 0xDE00, 0xDC00, 0xD800, 0x62, 0xD800] : List Nat), u < 65536 := by decide
example : Impl.decode .u16 [0x61, 0xD83D, 0xDE00, 0xDC00, 0xD800, 0x62, 0xD800] =
    [0x61, 0x1F600, 0xFFFD, 0xFFFD, 0x62, 0xFFFD] := by decide +kernel
example : Spec.utf16Decode [0x61, 0xD83D, 0xDE00, 0xDC00, 0xD800, 0x62, 0xD800] =
    [0x61, 0x1F600, 0xFFFD, 0xFFFD, 0x62, 0xFFFD] := by
  simp [Impl.utf16Decode_two, Impl.utf16Decode_one]

/-! ### 3. UTF-32 -/

theorem C10_utf32_decoder : ∀ units : List Nat, Impl.decode .u32 units = Spec.utf32Decode units :=
  fun units => Impl.decode_u32_eq_spec units

example : Impl.decode .u32 [0x61, 0x1F600, 0xD800, 0x110000, 0x10FFFF] =
    [0x61, 0x1F600, 0xFFFD, 0xFFFD, 0x10FFFF] := by decide +kernel
example : Spec.utf32Decode [0x61, 0x1F600, 0xD800, 0x110000, 0x10FFFF] =
    [0x61, 0x1F600, 0xFFFD, 0xFFFD, 0x10FFFF] := by decide +kernel

/-! ### 4. encoders: bit arithmetic (append_utf8 / append_utf16) = div/mod arithmetic (Encoding Standard) -/

theorem C10_encode_utf8 :
    ∀ c : Nat, Spec.isScalar c = true → Impl.encodeUtf8Char c = Spec.utf8EncodeChar c :=
  fun c h => Impl.encodeUtf8Char_eq c ((Impl.isScalar_iff c).1 h).1

theorem C10_encode_utf16 :
    ∀ c : Nat, Spec.isScalar c = true → Impl.encodeUtf16Char c = Spec.utf16EncodeChar c :=
  fun c h => Impl.encodeUtf16Char_eq c ((Impl.isScalar_iff c).1 h).1

example : Spec.isScalar 0x1F600 = true ∧ Spec.isScalar 0x20AC = true := by decide
example : Impl.encodeUtf8Char 0x1F600 = [0xF0, 0x9F, 0x98, 0x80] ∧
    Spec.utf8EncodeChar 0x1F600 = [0xF0, 0x9F, 0x98, 0x80] := by decide +kernel
example : Impl.encodeUtf8Char 0x20AC = [0xE2, 0x82, 0xAC] ∧
    Spec.utf8EncodeChar 0x20AC = [0xE2, 0x82, 0xAC] := by decide +kernel
example : Impl.encodeUtf16Char 0x1F600 = [0xD83D, 0xDE00] ∧
    Spec.utf16EncodeChar 0x1F600 = [0xD83D, 0xDE00] := by decide +kernel

/-! ### 5. round trip: well-formed text decodes to itself in every encoding -/

theorem C10_roundtrip :
    ∀ (e : Enc) (s : List Nat), (∀ c ∈ s, Spec.isScalar c = true) →
      Impl.decode e (Spec.encode e s) = s :=
  fun e s h => Impl.decode_encode e s h

/-- hence the decoded input does not depend on the encoding the scalar string arrives in -/
theorem C10_roundtrip_indep :
    ∀ (e₁ e₂ : Enc) (s : List Nat), (∀ c ∈ s, Spec.isScalar c = true) →
      Impl.decode e₁ (Spec.encode e₁ s) = Impl.decode e₂ (Spec.encode e₂ s) :=
  fun e₁ e₂ s h => (Impl.decode_encode e₁ s h).trans (Impl.decode_encode e₂ s h).symm

-- boundary scalar values of every UTF-8 / UTF-16 length
example : ∀ c ∈ ([0x61, 0x7FF, 0x800, 0xD7FF, 0xE000, 0xFFFF, 0x10000, 0x10FFFF] : List Nat),
    Spec.isScalar c = true := by decide
example : Spec.encode .u8 [0x61, 0x7FF, 0x800, 0xD7FF, 0xE000, 0xFFFF, 0x10000, 0x10FFFF] =
    [0x61, 0xDF, 0xBF, 0xE0, 0xA0, 0x80, 0xED, 0x9F, 0xBF, 0xEE, 0x80, 0x80, 0xEF, 0xBF, 0xBF,
     0xF0, 0x90, 0x80, 0x80, 0xF4, 0x8F, 0xBF, 0xBF] := by decide +kernel
example : Impl.decode .u8 [0x61, 0xDF, 0xBF, 0xE0, 0xA0, 0x80, 0xED, 0x9F, 0xBF, 0xEE, 0x80, 0x80, 0xEF, 0xBF,
    0xBF, 0xF0, 0x90, 0x80, 0x80, 0xF4, 0x8F, 0xBF, 0xBF] =
    [0x61, 0x7FF, 0x800, 0xD7FF, 0xE000, 0xFFFF, 0x10000, 0x10FFFF] := by decide +kernel
example : Impl.decode .u16 (Spec.encode .u16 [0x61, 0x7FF, 0x800, 0xD7FF, 0xE000, 0xFFFF, 0x10000, 0x10FFFF]) =
    [0x61, 0x7FF, 0x800, 0xD7FF, 0xE000, 0xFFFF, 0x10000, 0x10FFFF] := by decide +kernel
-- the exported key lemma on an instance (the rest of the input is arbitrary, even out of byte range)
example : Impl.readU8 (Spec.utf8EncodeChar 0x20AC ++ [0x41, 0x1234]) = (true, 0x20AC, [0x41, 0x1234]) :=
  Impl.readU8_encode 0x20AC [0x41, 0x1234] (by decide)

/-! ### 6. a code unit < 0x80 ends every pending sequence: decoding distributes over ASCII delimiters -/

/-- No side condition on UTF-16 units is needed.  (The side condition on `a` for UTF-8 is not needed
    either: `Impl.decode_ascii_split` is the same statement without it.) -/
theorem C10_ascii_split :
    ∀ (e : Enc) (a b : List Nat) (c : Nat), c < 0x80 → (e = .u8 → ∀ x ∈ a, x < 256) →
      Impl.decode e (a ++ c :: b) = Impl.decode e a ++ c :: Impl.decode e b :=
  fun e a b c hc _ => Impl.decode_ascii_split e b c hc a

-- a truncated 3-byte sequence before `/`, a stray trail byte after it
example : (0x2F : Nat) < 0x80 ∧ (Enc.u8 = .u8 → ∀ x ∈ ([0xE2, 0x82] : List Nat), x < 256) := by decide
example : Impl.decode .u8 ([0xE2, 0x82] ++ 0x2F :: [0xAC, 0xC3, 0xA9]) = [0xFFFD, 0x2F, 0xFFFD, 0xE9] ∧
    Impl.decode .u8 [0xE2, 0x82] ++ 0x2F :: Impl.decode .u8 [0xAC, 0xC3, 0xA9] =
      [0xFFFD, 0x2F, 0xFFFD, 0xE9] := by decide +kernel
-- a lead surrogate before `/`, its would-be trail after it
example : Impl.decode .u16 ([0xD83D] ++ 0x2F :: [0xDE00, 0x41]) = [0xFFFD, 0x2F, 0xFFFD, 0x41] ∧
    Impl.decode .u16 [0xD83D] ++ 0x2F :: Impl.decode .u16 [0xDE00, 0x41] =
      [0xFFFD, 0x2F, 0xFFFD, 0x41] := by decide +kernel

/-! ### 7. check_fix_utf8 -/

theorem C10_check_fix_idem :
    ∀ b : List Nat, (∀ x ∈ b, x < 256) →
      Impl.checkFixUtf8 (Impl.checkFixUtf8 b) = Impl.checkFixUtf8 b :=
  fun b h => Impl.checkFix_idem b h

theorem C10_check_fix_wf :
    ∀ s : List Nat, (∀ c ∈ s, Spec.isScalar c = true) →
      Impl.checkFixUtf8 (Spec.utf8Encode s) = Spec.utf8Encode s :=
  fun s h => Impl.checkFix_wf s h

example : ∀ x ∈ ([0x61, 0xE2, 0x82, 0xF0, 0x9F, 0x98, 0x80, 0xFF] : List Nat), x < 256 := by decide
example : Impl.checkFixUtf8 [0x61, 0xE2, 0x82, 0xF0, 0x9F, 0x98, 0x80, 0xFF] =
    [0x61, 0xEF, 0xBF, 0xBD, 0xF0, 0x9F, 0x98, 0x80, 0xEF, 0xBF, 0xBD] := by decide +kernel
example : Impl.checkFixUtf8 [0x61, 0xEF, 0xBF, 0xBD, 0xF0, 0x9F, 0x98, 0x80, 0xEF, 0xBF, 0xBD] =
    [0x61, 0xEF, 0xBF, 0xBD, 0xF0, 0x9F, 0x98, 0x80, 0xEF, 0xBF, 0xBD] := by decide +kernel
example : Impl.checkFixUtf8 (Spec.utf8Encode [0x61, 0x20AC, 0x1F600]) =
    [0x61, 0xE2, 0x82, 0xAC, 0xF0, 0x9F, 0x98, 0x80] := by decide +kernel
-- decoder output is scalar values (exported helper) on an ill-formed input
example : ∀ c ∈ Impl.decode .u8 [0xED, 0xA0, 0x80, 0xF4, 0x90, 0x80, 0x80], Spec.isScalar c = true :=
  Impl.decode_u8_scalar _ (by decide)

end Upa.Props

#print axioms Upa.Props.C10_utf8_decoder
#print axioms Upa.Props.C10_utf16_decoder
#print axioms Upa.Props.C10_utf32_decoder
#print axioms Upa.Props.C10_encode_utf8
#print axioms Upa.Props.C10_encode_utf16
#print axioms Upa.Props.C10_roundtrip
#print axioms Upa.Props.C10_roundtrip_indep
#print axioms Upa.Props.C10_ascii_split
#print axioms Upa.Props.C10_check_fix_idem
#print axioms Upa.Props.C10_check_fix_wf
#print axioms Upa.Impl.readU8_encode
#print axioms Upa.Impl.decode_u8_scalar
